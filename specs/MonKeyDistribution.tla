-------------------------- MODULE MonKeyDistribution --------------------------
(***************************************************************************)
(* Property monitor for C05 (c) over executions of real group contexts     *)
(* (harness/root/vf_keydist_verif_test.go).  Observed values only: after   *)
(* every step of a script and at the end, per device                       *)
(*   have   the entries its replica of the metadata log holds, each        *)
(*          decoded from the entry itself: [k |-> "A", w |-> device,       *)
(*          m |-> its member] (MemberDeviceAdded) or [k |-> "S", w |->     *)
(*          sender device, m |-> destination member] (DeviceChainKeyAdded) *)
(*          (n = copy number if the same content was appended twice)       *)
(*   known  the devices for which SecretStore.IsChainKeyKnownForDevice     *)
(*          answers true on this device                                    *)
(*   m      the member (account) the device belongs to                     *)
(* and on the final line `reg`: the outcome of RegisterChainKey for every  *)
(* announcement addressed to the own member that the replica holds.        *)
(*                                                                         *)
(* Clauses:                                                                *)
(*  Sound     at every recorded point a device knows only chain keys of    *)
(*            other devices for which its replica holds an announcement    *)
(*            addressed to its own member                                  *)
(*  Complete  on the final line (all entries exchanged, handlers idle):    *)
(*            every announced device knows the chain key of every other    *)
(*            announced device (announced = its MemberDeviceAdded is in    *)
(*            the log)                                                     *)
(*  RegOK     RegisterChainKey accepts every announcement addressed to the *)
(*            own member                                                   *)
(* Nothing else is judged: which entries exist, how often an announcement  *)
(* was appended, when an activation returned are left to the code.         *)
(***************************************************************************)
EXTENDS Naturals, Sequences, FiniteSets, TLC, Json, IOUtils

TraceLog == ndJsonDeserialize(IOEnv.VERIF_TRACE)

VARIABLES l, nfinal
mvars == <<l, nfinal>>
Ev == TraceLog[l]
Consume(e) == l <= Len(TraceLog) /\ Ev.ev = e /\ l' = l + 1

Range(s) == {s[i] : i \in DOMAIN s}
Devices(st) == DOMAIN st
Have(st, d) == Range(st[d].have)
Known(st, d) == Range(st[d].known)

Sound(st) == \A d \in Devices(st) : \A x \in Known(st, d) :
                /\ x # d
                /\ \E e \in Have(st, d) : e.k = "S" /\ e.w = x /\ e.m = st[d].m
Announced(st) == {x \in Devices(st) : \E d \in Devices(st) : \E e \in Have(st, d) : e.k = "A" /\ e.w = x}
\* the antecedent of the property as observed: every announced device holds everything anybody holds
Exchanged(st) == \A d \in Announced(st) : \A o \in Devices(st) : Have(st, o) \subseteq Have(st, d)
Complete(st) == \A d1, d2 \in Announced(st) : d1 # d2 => d2 \in Known(st, d1)
RegOK == \A i \in DOMAIN Ev.reg : Ev.reg[i].ok

MReset == Consume("reset") /\ UNCHANGED nfinal
MStep == /\ (Consume("init") \/ Consume("activate") \/ Consume("deliver") \/ Consume("settle") \/ Consume("sync"))
         /\ Sound(Ev.st)
         /\ UNCHANGED nfinal
MFinal == /\ Consume("final")
          /\ Sound(Ev.st)
          /\ (Exchanged(Ev.st) => Complete(Ev.st))
          /\ RegOK
          /\ nfinal' = nfinal + 1
MNext == MReset \/ MStep \/ MFinal
MInit == l = 1 /\ nfinal = 0 /\ TLCSet(42, 1)
MSpec == MInit /\ [][MNext]_mvars

Mark == TLCSet(42, IF l > TLCGet(42) THEN l ELSE TLCGet(42))
Accepted == LET hw == TLCGet(42) IN
              IF hw = Len(TraceLog) + 1 THEN TRUE
              ELSE /\ PrintT(<<"REJECTED", ToJson([high |-> hw - 1, line |-> TraceLog[hw]])>>)
                   /\ FALSE
=============================================================================
