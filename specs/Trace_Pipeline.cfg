SPECIFICATION TSpec
CONSTANTS
  Devs = {"d1", "d2"}
  ParkUnderLock = TRUE
  RequeueAll = TRUE
  SignalBuffered = TRUE
CONSTRAINT Mark
POSTCONDITION Accepted
CHECK_DEADLOCK FALSE
