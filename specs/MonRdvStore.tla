---------------------------- MODULE MonRdvStore ----------------------------
(* C17 monitor at the store layer: the topics are the store addresses of a group opened through   *)
(* WeshOrbitDB (registered by storeForGroup with the group's link key), each peer has its own      *)
(* rotation interval, the clock is virtual.  At every observation instant:                         *)
(*   a peer that opened the group at any earlier time resolves each store address to the point of  *)
(*   the period containing now (= the pure keyed digest for address, link key, now) with a         *)
(*   deadline in the future, and                                                                   *)
(*   every peer accepts every other peer's current rotation value and maps it back to the address. *)
(* Observed values only (the comparison with the pure function is made by the driver; the pure     *)
(* function itself is judged by MonRendezvous on its own trace).                                   *)
EXTENDS Naturals, Sequences, TLC, Json, IOUtils

TraceLog == ndJsonDeserialize(IOEnv.VERIF_TRACE)
VARIABLE l
Ev == TraceLog[l]
Consume(e) == l <= Len(TraceLog) /\ Ev.ev = e /\ l' = l + 1
MReset == Consume("reset")
MOpen == Consume("sopen")
MTick == Consume("stick")
MResolve == Consume("sresolve") /\ Ev.ok /\ Ev.pure /\ Ev.future /\ Ev.topic
MExchange == Consume("sexchange") /\ Ev.ok /\ Ev.topic
MNext == MReset \/ MOpen \/ MTick \/ MResolve \/ MExchange
MInit == l = 1 /\ TLCSet(42, 1)
MSpec == MInit /\ [][MNext]_l
Mark == TLCSet(42, IF l > TLCGet(42) THEN l ELSE TLCGet(42))
Accepted == LET hw == TLCGet(42) IN
              IF hw = Len(TraceLog) + 1 THEN TRUE
              ELSE /\ PrintT(<<"REJECTED", ToJson([high |-> hw - 1, line |-> TraceLog[hw]])>>)
                   /\ FALSE
=============================================================================
