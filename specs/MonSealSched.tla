---------------------------- MODULE MonSealSched ----------------------------
(* C09 monitor for lock-level controlled schedules: when every task has finished, the     *)
(* counters of the envelopes they produced are pairwise distinct and form the gap-free    *)
(* sequence first+1 .. first+threads*msgs, no call failed, nobody is left waiting for a   *)
(* lock, and the stored chain-key counter is the last one.  Observed values only.         *)
EXTENDS Naturals, Sequences, FiniteSets, TLC, Json, IOUtils, SequencesExt

TraceLog == ndJsonDeserialize(IOEnv.VERIF_TRACE)
VARIABLE l
Ev == TraceLog[l]
Consume(e) == l <= Len(TraceLog) /\ Ev.ev = e /\ l' = l + 1
MReset == Consume("reset")
MFinal == /\ Consume("sealfinal")
          /\ Ev.notdone = <<>> /\ Ev.errs = 0
          /\ LET n == Ev.threads * Ev.msgs IN
               /\ Len(Ev.counters) = n
               /\ \A i \in 1..n : Ev.counters[i] = Ev.first + i      \* sorted by the driver: distinct and gap-free
               /\ Ev.stored = Ev.first + n
MNext == MReset \/ MFinal
MInit == l = 1 /\ TLCSet(42, 1)
MSpec == MInit /\ [][MNext]_l
Mark == TLCSet(42, IF l > TLCGet(42) THEN l ELSE TLCGet(42))
Accepted == LET hw == TLCGet(42) IN
              IF hw = Len(TraceLog) + 1 THEN TRUE
              ELSE /\ PrintT(<<"REJECTED", ToJson([high |-> hw - 1, line |-> TraceLog[hw]])>>)
                   /\ FALSE
=============================================================================
