-------------------------- MODULE HandshakeContact --------------------------
(***************************************************************************)
(* contact_request_manager.go: handleIncomingRequest = the responder side  *)
(* of the handshake followed by the contact announcement.  After           *)
(* ResponseUsingReaderWriter returned the authenticated key K, the peer    *)
(* sends a ShareableContact; AccountContactRequestIncomingReceived is      *)
(* appended for it only if its Pk equals K.                                *)
(*                                                                         *)
(* Handshake.tla is reused as it is; responder slots are handleIncoming-   *)
(* Request instances here.  New state: app[i] = the contact key for which  *)
(* slot i appended the event ("-": none), ann[i] = whether the             *)
(* announcement was consumed.                                              *)
(***************************************************************************)
EXTENDS Handshake

VARIABLES app, ann
cvars == <<vars, app, ann>>

ContactKeys == {"A", "B", "E", "W", "junk", "eof"}   \* junk: not an Ed25519 key; eof: stream ends

CInit == Init /\ app = [i \in Slots |-> "-"] /\ ann = [i \in Slots |-> FALSE]

\* the contact announcement k reaches handleIncomingRequest instance i after its handshake
\* succeeded; Impl.compareContact = FALSE models dropping the comparison with the authenticated key
CONSTANT CompareContact
Contact(i, k) ==
  /\ IsRsp(i) /\ sess[i].step = 5 /\ ~sess[i].fail /\ ~ann[i]
  /\ ann' = [ann EXCEPT ![i] = TRUE]
  /\ LET okk == /\ k \notin {"junk", "eof"}
                /\ (CompareContact => k = sess[i].pa)
                /\ k # Owner(i)                      \* ErrContactRequestSameAccount
     IN /\ app' = [app EXCEPT ![i] = IF okk THEN k ELSE "-"]
        /\ res' = [s |-> i, kind |-> "contact", src |-> 0, c |-> FALSE,
                   out |-> IF okk THEN "done" ELSE "fail", key |-> IF okk THEN k ELSE "-"]
  /\ UNCHANGED sess

CNext == \/ Next /\ UNCHANGED <<app, ann>>
         \/ \E i \in Slots, k \in ContactKeys : Contact(i, k)
CSpec == CInit /\ [][CNext]_cvars
cview == <<sess, app, ann>>

\* C06 (third mechanism): an incoming contact request is recorded only for the key that was
\* authenticated, i.e. (honest keys) only if its owner really ran this session towards us
ContactAuth == \A s \in Slots : app[s] \in Honest =>
                 \E r \in Slots : /\ IsReq(r) /\ Owner(r) = app[s] /\ Target(r) = Owner(s)
                                  /\ sess[r].step >= 3 /\ SamePair(r, s)
ContactIsAuthenticated == \A s \in Slots : app[s] # "-" => app[s] = sess[s].pa
=============================================================================
