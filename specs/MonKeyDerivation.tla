--------------------------- MODULE MonKeyDerivation ---------------------------
(***************************************************************************)
(* Property monitor for C11 over recorded executions of the real secret    *)
(* store.  Every observed value (keys, group identifiers and secrets,      *)
(* exported blobs) is a number: equal numbers <=> equal bytes (interned by *)
(* the driver, per script).  acct / proof on every line = public keys of   *)
(* the account and proof keys the store holds after the call (0: none),    *)
(* read from the keystore namespace; they name the store's account.        *)
(*  contact : both sides derive the same group (identifier, secret, type)  *)
(*            from (own account key, peer account key); different          *)
(*            unordered pairs derive different groups; cached or           *)
(*            recomputed, before or after an import - no difference;       *)
(*  member  : all devices of an account derive the same member key for a   *)
(*            group; a device key belongs to one (store, group);           *)
(*  account : same account keys <=> same account group / member identity;  *)
(*  export / import : the exported blobs are the account's keys; a fresh   *)
(*            store accepts a well-formed pair and then holds exactly the  *)
(*            exported account; import is refused on a store that has an   *)
(*            account key, for malformed / non-Ed25519 blobs, for equal    *)
(*            keys; a refused import leaves nothing behind; the account /  *)
(*            proof key a store holds never changes.                       *)
(* Left open: import on a store that holds only a proof key.               *)
(***************************************************************************)
EXTENDS Integers, FiniteSets, Sequences, TLC, Json, IOUtils

CONSTANTS Stores

TraceLog == ndJsonDeserialize(IOEnv.VERIF_TRACE)

VARIABLES l,
          ident,  \* [Stores -> <<acct, proof>>] what each store holds
          expd,   \* [Stores -> <<acct, proof>>] what it held when it last exported
          cg,     \* <<lo, hi, grp>>        contact groups observed per unordered pair of account keys
          mem,    \* <<acct, proof, g, member>>
          dev,    \* <<device key, store, group ("" = account/contact device key)>>
          acc,    \* <<acct, proof, gid, gsecret, member>>
          ex      \* <<acct, proof, blob a, blob p>>
mvars == <<l, ident, expd, cg, mem, dev, acc, ex>>

Ev == TraceLog[l]
Consume(e) == l <= Len(TraceLog) /\ Ev.ev = e /\ l' = l + 1
Lo(a, b) == IF a <= b THEN a ELSE b
Hi(a, b) == IF a <= b THEN b ELSE a

\* two observations belong to the same account: they share a key and no key of theirs differs
SameAccount(a1, p1, a2, p2) ==
  /\ ((a1 # 0 /\ a1 = a2) \/ (p1 # 0 /\ p1 = p2))
  /\ ~(a1 # 0 /\ a2 # 0 /\ a1 # a2) /\ ~(p1 # 0 /\ p2 # 0 /\ p1 # p2)

\* every line: the keys a store holds never change once it holds them
Stable == /\ (ident[Ev.s][1] # 0 => Ev.acct = ident[Ev.s][1])
          /\ (ident[Ev.s][2] # 0 => Ev.proof = ident[Ev.s][2])
          /\ ident' = [ident EXCEPT ![Ev.s] = <<Ev.acct, Ev.proof>>]
DevOK(g) == /\ \A y \in dev : y[1] = Ev.device => (y[2] = Ev.s /\ y[3] = g)
            /\ dev' = dev \cup {<<Ev.device, Ev.s, g>>}

MReset == /\ Consume("reset")
          /\ ident' = [s \in Stores |-> <<0, 0>>] /\ expd' = [s \in Stores |-> <<0, 0>>]
          /\ cg' = {} /\ mem' = {} /\ dev' = {} /\ acc' = {} /\ ex' = {}

MAccount == /\ Consume("account") /\ Ev.ok /\ Stable /\ DevOK("")
            /\ Ev.acct # 0 /\ Ev.proof # 0
            /\ \A x \in acc : (x[1] = Ev.acct /\ x[2] = Ev.proof) <=> (x[3] = Ev.gid /\ x[4] = Ev.gsecret /\ x[5] = Ev.member)
            /\ acc' = acc \cup {<<Ev.acct, Ev.proof, Ev.gid, Ev.gsecret, Ev.member>>}
            /\ UNCHANGED <<expd, cg, mem, ex>>

MContact == /\ Consume("contact") /\ Ev.ok /\ Stable
            /\ Ev.acct # 0
            /\ \A x \in cg : (x[1] = Lo(Ev.acct, Ev.peer) /\ x[2] = Hi(Ev.acct, Ev.peer)) <=> (x[3] = Ev.grp)
            /\ cg' = cg \cup {<<Lo(Ev.acct, Ev.peer), Hi(Ev.acct, Ev.peer), Ev.grp>>}
            /\ UNCHANGED <<expd, mem, dev, acc, ex>>

MMember == /\ Consume("member") /\ Ev.ok /\ Stable /\ DevOK(Ev.g)
           /\ \A x \in mem : (x[3] = Ev.g /\ SameAccount(x[1], x[2], Ev.acct, Ev.proof)) => x[4] = Ev.member
           /\ mem' = mem \cup {<<Ev.acct, Ev.proof, Ev.g, Ev.member>>}
           /\ UNCHANGED <<expd, cg, acc, ex>>

MExport == /\ Consume("export") /\ Ev.ok /\ Stable
           /\ Ev.acct # 0 /\ Ev.proof # 0 /\ Ev.apub = Ev.acct /\ Ev.ppub = Ev.proof /\ Ev.a # Ev.p
           /\ \A x \in ex : (x[1] = Ev.acct /\ x[2] = Ev.proof) <=> (x[3] = Ev.a /\ x[4] = Ev.p)
           /\ ex' = ex \cup {<<Ev.acct, Ev.proof, Ev.a, Ev.p>>}
           /\ expd' = [expd EXCEPT ![Ev.s] = <<Ev.acct, Ev.proof>>]
           /\ UNCHANGED <<cg, mem, dev, acc>>

Had == IF ident[Ev.s][1] # 0 THEN "acct" ELSE IF ident[Ev.s][2] # 0 THEN "proof" ELSE "fresh"
WellFormed == Ev.kind \in {"valid", "swapped"}
MImport == /\ Consume("import") /\ Stable
           /\ (Had = "acct" => ~Ev.ok) /\ (~WellFormed => ~Ev.ok)
           /\ ((Had = "fresh" /\ WellFormed) => Ev.ok)
           /\ (~Ev.ok => (Ev.acct = ident[Ev.s][1] /\ Ev.proof = ident[Ev.s][2]))
           /\ ((Ev.ok /\ Ev.kind = "valid") => (Ev.acct = expd[Ev.d][1] /\ Ev.proof = expd[Ev.d][2]))
           /\ ((Ev.ok /\ Ev.kind = "swapped") => (Ev.acct = expd[Ev.d][2] /\ Ev.proof = expd[Ev.d][1]))
           /\ UNCHANGED <<expd, cg, mem, dev, acc, ex>>

MNext == MReset \/ MAccount \/ MContact \/ MMember \/ MExport \/ MImport
MInit == /\ l = 1 /\ ident = [s \in Stores |-> <<0, 0>>] /\ expd = [s \in Stores |-> <<0, 0>>]
         /\ cg = {} /\ mem = {} /\ dev = {} /\ acc = {} /\ ex = {} /\ TLCSet(42, 1)
MSpec == MInit /\ [][MNext]_mvars

Mark == TLCSet(42, IF l > TLCGet(42) THEN l ELSE TLCGet(42))
Accepted == LET hw == TLCGet(42) IN
              IF hw = Len(TraceLog) + 1 THEN TRUE
              ELSE /\ PrintT(<<"REJECTED", ToJson([high |-> hw - 1, line |-> TraceLog[hw]])>>)
                   /\ FALSE
=============================================================================
