SPECIFICATION GSpec
CONSTANTS
  Clients = {1, 2}
  OpKinds = {"act", "deact"}
  ReqG = {"A"}
  MaxReq = 3
  MaxGen = 4
  MaxMsg = 4
  MaxAct = 4
  MaxLen = 12
  SendOnClosedOk = TRUE
  StaleDeactDeletes = TRUE
  ReactivateStacks = TRUE
CONSTRAINT Bound
INVARIANTS Dump
CHECK_DEADLOCK FALSE
