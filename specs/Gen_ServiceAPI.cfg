SPECIFICATION GSpec
CONSTANTS
  Impl <- ImplCurrent
  MaxDev = 4
  WithOdd = TRUE
INVARIANTS Dump
CHECK_DEADLOCK FALSE
