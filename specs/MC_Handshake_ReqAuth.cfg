SPECIFICATION Spec
CONSTANTS
  S1 = {"rAB", "rAE", "rAW", "rBA", "rBE", "rBW", "sA", "sB"}
  S2 = {"rAB", "rAE", "rAW", "rBA", "rBE", "rBW", "sA", "sB", "none"}
  S3 = {"none"}
  Sorted = TRUE
  CheckLowOrder = TRUE
  Junk = TRUE
INVARIANTS ReqAuth

VIEW view
CHECK_DEADLOCK FALSE
