SPECIFICATION Spec
CONSTANTS
  Impl <- ImplFixed
INVARIANTS TypeOK NoPanic ErrWhenRequired
PROPERTIES ContactGroupNeedsAccount
CONSTRAINT MCBound
VIEW view
CHECK_DEADLOCK FALSE
