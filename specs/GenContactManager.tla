------------------------- MODULE GenContactManager -------------------------
(* Script generation for ContactManager: the moves of the ENVIRONMENT - store operations,   *)
(* deliveries of the held events to the watcher (one at a time), peers advertising and      *)
(* requesting, new / close of the manager, a start-up held right after its subscription,    *)
(* "settle" (let the one-second pauses of the cancelled lookups run out) - taken while the  *)
(* goroutines of the manager are quiet.  Their own steps run in between and are not part    *)
(* of the script: the real code takes them by itself.  The driver uses no prediction.       *)
EXTENDS ContactManager, Json

CONSTANTS MaxLen,
          Auto,     \* TRUE: every emitted event is delivered at once (the "deliver" steps are still part of the script)
          PreOps    \* number of script steps before the first manager is created (history the start-up must recreate)
VARIABLES h,       \* the script so far
          hold,    \* the watcher is held inside its Subscribe call
          mode     \* "run" | "settle" (slow steps running) | "offer" (close racing with the oldest event)
gvars == <<vars, h, hold, mode>>

Rec(act, d, s, x) == h' = Append(h, [act |-> act, d |-> d, s |-> s, x |-> x])

\* the goroutines' own fast steps (the watcher handles events only when the script delivers them)
StartStep == StSubscribe \/ (~hold /\ StRead) \/ StEnqueue \/ StLoop
StartStepEnabled == mpc = "new" \/ (mpc = "subd" /\ ~hold) \/ mpc = "listed"
FastOther == StartStep \/ WatcherExit \/ CloseFinish
FastOtherEnabled == StartStepEnabled \/ (mpc = "loop" /\ closed) \/ (closed /\ ~cfin)

EnvStep ==
  /\ Len(h) < MaxLen
  /\ \/ \E x \in {0, 1} : New /\ hold' = (x = 1) /\ Rec("new", "-", "-", x) /\ UNCHANGED mode
     \/ /\ ~(mpc = "none" /\ Len(h) >= PreOps)      \* no manager yet: after PreOps steps of history it is created
        /\ \/ hold /\ mpc = "subd" /\ hold' = FALSE /\ Rec("resume", "-", "-", 0) /\ UNCHANGED <<vars, mode>>
           \/ \E t \in OpKinds \ (Global \cup {"enqself"}) : \E c \in Contacts : Op(t, c) /\ Rec("op", c, t, 0) /\ UNCHANGED <<hold, mode>>
           \/ \E t \in OpKinds \cap Global : Op(t, "-") /\ Rec("op", "-", t, 0) /\ UNCHANGED <<hold, mode>>
           \/ "enqself" \in OpKinds /\ Op("enq", "self") /\ Rec("op", "self", "enq", 0) /\ UNCHANGED <<hold, mode>>
           \/ ~Auto /\ mpc = "loop" /\ ~closed /\ HandleEvent /\ Rec("deliver", "-", "-", 0) /\ UNCHANGED <<hold, mode>>
           \/ \E c \in Contacts : \E k \in Kinds :
                \/ Advertise(c, k) /\ Rec("peer", c, k, 0) /\ UNCHANGED <<hold, mode>>
                \/ Incoming(c, k) /\ Rec("inc", c, k, 0) /\ UNCHANGED <<hold, mode>>
           \/ CloseCancel /\ Rec("close", "-", "-", 0) /\ UNCHANGED <<hold, mode>>
           \/ mpc = "loop" /\ q # <<>> /\ CloseCancel /\ Rec("close", "-", "-", 1) /\ mode' = "offer" /\ UNCHANGED hold
           \/ SlowEnabled /\ mode' = "settle" /\ Rec("settle", "-", "-", 0) /\ UNCHANGED <<vars, hold>>

GInit == Init /\ h = <<>> /\ hold = FALSE /\ mode = "run"
GNext ==
  IF Stopping # {} THEN WStop(CHOOSE i \in Stopping : \A j \in Stopping : i <= j) /\ UNCHANGED <<h, hold, mode>>
  ELSE IF FastProcs # {} THEN ProcFast(CHOOSE i \in FastProcs : \A j \in FastProcs : i <= j) /\ UNCHANGED <<h, hold, mode>>
  ELSE IF mode = "offer"
    THEN \* the watcher takes the offered event after the cancellation, or leaves
         /\ mode' = "run" /\ UNCHANGED <<h, hold>>
         /\ (mpc = "loop" /\ q # <<>> /\ HandleEvent) \/ WatcherExit \/ (mpc # "loop" /\ UNCHANGED vars)
  ELSE IF FastOtherEnabled THEN FastOther /\ UNCHANGED <<h, hold, mode>>
  ELSE IF Auto /\ mpc = "loop" /\ ~closed /\ q # <<>> THEN HandleEvent /\ Rec("deliver", "-", "-", 0) /\ UNCHANGED <<hold, mode>>
  ELSE IF mode = "settle"
    THEN IF SlowEnabled THEN Slow /\ UNCHANGED <<h, hold, mode>>
         ELSE mode' = "run" /\ UNCHANGED <<vars, h, hold>>
  ELSE EnvStep
GSpec == GInit /\ [][GNext]_gvars

AtRest == Stopping = {} /\ FastProcs = {} /\ ~FastOtherEnabled /\ mode = "run" /\ ~(Auto /\ mpc = "loop" /\ ~closed /\ q # <<>>)
Complete == AtRest /\ Len(h) = MaxLen
Dump == Complete => PrintT(<<"SCRIPT", ToJson(h)>>)
=============================================================================
