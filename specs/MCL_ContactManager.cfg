SPECIFICATION FairSpec
CONSTANTS
  Contacts = {"c1"}
  Kinds = {"good", "bad"}
  OpKinds = {"enq", "en", "rs"}
  MaxOps = 3
  MaxSeed = 1
  MaxLk = 3
  MaxGen = 1
  WithRefused = FALSE
  ExitCancelsAny = TRUE
  OfferIgnoresCancel = TRUE
  StartIgnoresClose = TRUE
  LoopHandlesAfterClose = TRUE
  DisableKeepsLookups = TRUE
  BlockKeepsLookup = TRUE
  ClosedHandlerAppends = TRUE
PROPERTIES EventuallySent
CHECK_DEADLOCK FALSE
