SPECIFICATION GSpec
CONSTANTS
  S1 = {"rAB", "rAE", "rAW", "rBA", "rBE", "rBW", "sA", "sB"}
  S2 = {"rAB", "rAE", "rAW", "rBA", "rBE", "rBW", "sA", "sB", "none"}
  S3 = {"none"}
  Sorted = TRUE
  CheckLowOrder = FALSE
  Junk = TRUE
  MaxJunk = 1
  AttackOnly = FALSE
INVARIANTS Dump
CHECK_DEADLOCK FALSE
