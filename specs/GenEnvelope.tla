---------------------------- MODULE GenEnvelope ----------------------------
(* Script generation for Envelope (C01): the same actions plus a history     *)
(* variable.  A script = the honest history, one adversary move (a forged    *)
(* envelope from the field product, or damage to an honest one), then the    *)
(* receiver calls; TLC's search enumerates them, complete ones are printed   *)
(* as JSON for the Go driver (vf_envelope_verif_test.go).                    *)
EXTENDS Envelope, Json

CONSTANTS Mode,     \* subset of {"forge", "tamper", "honest"}: which kinds of script to enumerate
          MaxDiff,  \* forge mode: keep forgeries within this many field substitutions of an honest envelope
          Sample    \* TRUE (with -simulate): draw each forged field at random instead of enumerating the product

VARIABLES h
gvars == <<vars, h>>

Rec(act, a) == h' = Append(h, [act |-> act, a |-> a, res |-> res'])

\* ---- distance of a forgery from the honest envelopes (a generation filter, not part of the model) ----
B2N(b) == IF b THEN 1 ELSE 0
Diff(f, e) == B2N(f.hs # e.hs) + B2N(f.dv # e.dv) + B2N(f.ct # e.ct) + B2N(f.sg # e.sg)
              + B2N(f.key # e.key) + B2N(f.bn # e.bn) + B2N(f.pl # e.pl)
\* body consistently re-encrypted for the slot the headers name: counts as part of the header substitution
Coherent(f) == f.key = <<f.hs, f.dv, f.ct>> /\ f.bn = f.ct
DiffC(f, e) == B2N(f.hs # e.hs) + B2N(f.dv # e.dv) + B2N(f.ct # e.ct) + B2N(f.sg # e.sg) + B2N(f.pl # e.pl)
Near(f) == \E i \in 1..Len(henv) : Diff(f, henv[i]) <= MaxDiff \/ (Coherent(f) /\ DiffC(f, henv[i]) <= MaxDiff)

SigLabel(f) == IF \E i \in 1..Len(henv) : henv[i].sg = f.sg
                 THEN HL[CHOOSE i \in 1..Len(henv) : henv[i].sg = f.sg] ELSE "own"

Pick(S) == IF Sample THEN {RandomElement(S)} ELSE S

GInit == Init /\ h = <<>>

GSeal == Seal /\ Rec("seal", [d |-> SealPlan[ns + 1][1], g |-> SealPlan[ns + 1][2], id |-> HL[ns + 1], p |-> PL[ns + 1]])

GForge == /\ "forge" \in Mode /\ CanMutate
          /\ \E hs \in Pick(G), dv \in Pick(DevKeys), ct \in Pick(Ctr), key \in Pick(AdvMsgKeys), bn \in Pick(Ctr), pl \in Pick(Payloads) :
               \E sg \in Pick(AdvSigs(hs, ct, pl)) :
                 LET f == [hs |-> hs, dv |-> dv, ct |-> ct, sg |-> sg, key |-> key, bn |-> bn, pl |-> pl, tam |-> "none"] IN
                   /\ Near(f) /\ Forge(f)
                   /\ Rec("forge", [hs |-> hs, dv |-> dv, ct |-> ct, kg |-> key[1], kd |-> key[2], kk |-> key[3],
                                    bn |-> bn, pl |-> pl, sg |-> SigLabel(f)])

GTamper == /\ "tamper" \in Mode /\ CanMutate
           /\ \E i \in 1..Len(henv), fld \in Tampers :
                Tamper(i, fld) /\ Rec("tamper", [base |-> HL[i], fld |-> fld])

Opened(id) == \E i \in 1..Len(h) : h[i].act = "open" /\ h[i].a.id = id
\* which receiver calls are worth a script
Related(e, f) == (e.hs = f.hs /\ e.dv = f.dv /\ e.ct = f.ct) \/ e.sg = f.sg
\* presenting the forgery to the group whose secret does not box its headers is a script of its own
Transplanted == \E i \in 1..Len(h) : h[i].act = "open" /\ h[i].a.id = "f" /\ h[i].a.g # fz[1].hs
OpenAllowed(id, g) ==
  IF fz # <<>> THEN /\ ~Transplanted
                    /\ \/ (id = "f" /\ (g = fz[1].hs \/ nopen = 0))
                       \/ (IsHonest(id) /\ g = Env(id).hs /\ Related(Env(id), fz[1]))
  ELSE IF tz # <<>> THEN (id = "t" /\ g = Env(id).hs /\ ~Opened("t")) \/ (id = HL[tz[1].base] /\ g = Env(id).hs)
  ELSE "honest" \in Mode /\ ns = Len(SealPlan) /\ IsHonest(id)

GOpen == \E id \in Labels, g \in G : OpenAllowed(id, g) /\ Open(id, g) /\ Rec("open", [id |-> id, g |-> g])

GNext == GSeal \/ GForge \/ GTamper \/ GOpen
GSpec == GInit /\ [][GNext]_gvars

Complete == /\ nopen >= 1 /\ h[Len(h)].act = "open"
            /\ IF fz # <<>> THEN Opened("f") ELSE IF tz # <<>> THEN Opened("t") ELSE nopen = MaxOpen
Dump == Complete => PrintT(<<"SCRIPT", ToJson(h)>>)
=============================================================================
