---------------------------- MODULE GenEnvelope ----------------------------
(* Script generation for Envelope (C01): the same actions plus a history     *)
(* variable.  A script = the honest history, one adversary move (a forged    *)
(* envelope from the field product, or damage to an honest one), then the    *)
(* receiver calls; TLC's search enumerates them, complete ones are printed   *)
(* as JSON for the Go driver (vf_envelope_verif_test.go).                    *)
EXTENDS Envelope, Json

CONSTANTS Mode,     \* "forge" | "tamper" | "honest"
          MaxDiff   \* forge mode: keep forgeries within this many field substitutions of an honest envelope

VARIABLES h
gvars == <<vars, h>>

Rec(act, a) == h' = Append(h, [act |-> act, a |-> a, res |-> res'])

\* ---- distance of a forgery from the honest envelopes (a generation filter, not part of the model) ----
B2N(b) == IF b THEN 1 ELSE 0
Diff(f, e) == B2N(f.hs # e.hs) + B2N(f.dv # e.dv) + B2N(f.ct # e.ct) + B2N(f.sg # e.sg)
              + B2N(f.key # e.key) + B2N(f.bn # e.bn) + B2N(f.pl # e.pl)
\* body consistently re-encrypted for the slot the headers name: counts as part of the header substitution
Coherent(f) == f.key = <<f.hs, f.dv, f.ct>> /\ f.bn = f.ct
DiffC(f, e) == B2N(f.hs # e.hs) + B2N(f.dv # e.dv) + B2N(f.ct # e.ct) + B2N(f.sg # e.sg) + B2N(f.pl # e.pl)
Near(f) == \E i \in 1..Len(henv) : Diff(f, henv[i]) <= MaxDiff \/ (Coherent(f) /\ DiffC(f, henv[i]) <= MaxDiff)

SigLabel(f) == IF \E i \in 1..Len(henv) : henv[i].sg = f.sg
                 THEN HL[CHOOSE i \in 1..Len(henv) : henv[i].sg = f.sg] ELSE "own"

GInit == Init /\ h = <<>>

GSeal == Seal /\ Rec("seal", [d |-> SealPlan[ns + 1][1], g |-> SealPlan[ns + 1][2], id |-> HL[ns + 1], p |-> PL[ns + 1]])

GForge == /\ Mode = "forge" /\ CanMutate
          /\ \E hs \in G, dv \in DevKeys, ct \in Ctr, key \in AdvMsgKeys, bn \in Ctr, pl \in Payloads :
               \E sg \in AdvSigs(hs, ct, pl) :
                 LET f == [hs |-> hs, dv |-> dv, ct |-> ct, sg |-> sg, key |-> key, bn |-> bn, pl |-> pl, tam |-> "none"] IN
                   /\ Near(f) /\ Forge(f)
                   /\ Rec("forge", [hs |-> hs, dv |-> dv, ct |-> ct, kg |-> key[1], kd |-> key[2], kk |-> key[3],
                                    bn |-> bn, pl |-> pl, sg |-> SigLabel(f)])

GTamper == /\ Mode = "tamper" /\ CanMutate
           /\ \E i \in 1..Len(henv), fld \in Tampers :
                Tamper(i, fld) /\ Rec("tamper", [base |-> HL[i], fld |-> fld])

\* which receiver calls are worth a script
Related(e, f) == (e.hs = f.hs /\ e.dv = f.dv /\ e.ct = f.ct) \/ e.sg = f.sg \/ e.pl = f.pl
OpenAllowed(id, g) ==
  CASE Mode = "forge"  -> fz # <<>> /\ (id = "f" \/ (IsHonest(id) /\ g = Env(id).hs /\ Related(Env(id), fz[1])))
    [] Mode = "tamper" -> tz # <<>> /\ ((id = "t" /\ g = Env(id).hs) \/ (id = HL[tz[1].base] /\ g = Env(id).hs))
    [] Mode = "honest" -> ns = Len(SealPlan) /\ IsHonest(id)

GOpen == \E id \in Labels, g \in G : OpenAllowed(id, g) /\ Open(id, g) /\ Rec("open", [id |-> id, g |-> g])

GNext == GSeal \/ GForge \/ GTamper \/ GOpen
GSpec == GInit /\ [][GNext]_gvars

Opened(id) == \E i \in 1..Len(h) : h[i].act = "open" /\ h[i].a.id = id
Complete == /\ nopen >= 1 /\ h[Len(h)].act = "open"
            /\ CASE Mode = "forge" -> Opened("f") [] Mode = "tamper" -> Opened("t") [] Mode = "honest" -> nopen = MaxOpen
Dump == Complete => PrintT(<<"SCRIPT", ToJson(h)>>)
=============================================================================
