------------------------------ MODULE MonQueue ------------------------------
(* Property monitor for C15 (SimpleQueue) over executions of the real queue    *)
(* recorded under the cooperative scheduler.  Observed values only.            *)
EXTENDS Naturals, Sequences, FiniteSets, TLC, Json, IOUtils, SequencesExt

TraceLog == ndJsonDeserialize(IOEnv.VERIF_TRACE)

VARIABLES l,
          all,        \* returned items followed by the queue content, as of the last step
          cancelled,  \* the canceller's cancel() has run
          nret        \* number of WaitForItem returns seen
mvars == <<l, all, cancelled, nret>>

Ev == TraceLog[l]
Consume(e) == l <= Len(TraceLog) /\ Ev.ev = e /\ l' = l + 1
Has(f) == f \in DOMAIN Ev
IsPrefixOf(s, t) == Len(s) <= Len(t) /\ SubSeq(t, 1, Len(s)) = s

MReset == Consume("reset") /\ all' = <<>> /\ cancelled' = FALSE /\ nret' = 0

\* FIFO / exactly once / nothing lost: got \o list only ever grows at its end
\* a return before cancellation carries an item; cancelled wait: the step that performs
\* cancel() is the canceller's step from gate c_cancel
RetsOK(now) == IF ~Has("ret") THEN TRUE ELSE \A i \in DOMAIN Ev.ret :
                  LET r == Ev.ret[i] IN
                    /\ (~now => r.ok)                \* not cancelled: an item is returned
                    /\ (r.ok => "item" \in DOMAIN r)
                    /\ (~r.ok => "item" \notin DOMAIN r)
MStep == /\ Consume("step")
         /\ LET cur == Ev.got \o Ev.list
                now == cancelled \/ (Ev.t = "cancel" /\ Ev.from = "c_cancel" /\ Ev.ok)
            IN /\ IsPrefixOf(all, cur)
               /\ all' = cur
               /\ cancelled' = now
               /\ RetsOK(now)
               /\ nret' = nret + (IF Has("ret") THEN Len(Ev.ret) ELSE 0)
\* quiescence: a consumer never stays blocked while the queue is non-empty; no livelock;
\* nobody is left waiting for a lock
MFinal == /\ Consume("final")
          /\ ~(Ev.cons = "blocked" /\ Len(Ev.list) > 0)
          /\ ~Ev.livelock
          /\ Ev.cons # "gate"
          /\ LET cur == Ev.got \o Ev.list IN
               /\ IsPrefixOf(all, cur)
               /\ ToSet(Ev.added) \subseteq ToSet(cur)          \* nothing an Add accepted is lost
               /\ Cardinality(ToSet(cur)) = Len(cur)            \* nothing is duplicated
          /\ UNCHANGED <<all, cancelled, nret>>

MCfg == Consume("cfg") /\ UNCHANGED <<all, cancelled, nret>>
MNext == MReset \/ MCfg \/ MStep \/ MFinal
MInit == l = 1 /\ all = <<>> /\ cancelled = FALSE /\ nret = 0 /\ TLCSet(42, 1)
MSpec == MInit /\ [][MNext]_mvars

Mark == TLCSet(42, IF l > TLCGet(42) THEN l ELSE TLCGet(42))
Accepted == LET hw == TLCGet(42) IN
              IF hw = Len(TraceLog) + 1 THEN TRUE
              ELSE /\ PrintT(<<"REJECTED", ToJson([high |-> hw - 1, line |-> TraceLog[hw]])>>)
                   /\ FALSE
=============================================================================
