SPECIFICATION Spec
CONSTANTS
  JoinChecksType = TRUE
  MaxMut = 2
  MaxJoin = 2
INVARIANTS TypeOK OnlyValidJoined NeverAccountIdentity
PROPERTIES NothingAppendedOnRefusal
VIEW view
CHECK_DEADLOCK FALSE
