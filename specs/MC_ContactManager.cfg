SPECIFICATION Spec
CONSTANTS
  Contacts = {"c1"}
  Kinds = {"good", "bad"}
  OpKinds = {"en", "rs", "enq", "blk", "unb", "sent"}
  MaxOps = 4
  MaxSeed = 2
  MaxLk = 3
  MaxGen = 2
  WithRefused = FALSE
  ExitCancelsAny = TRUE
  OfferIgnoresCancel = TRUE
  StartIgnoresClose = TRUE
  LoopHandlesAfterClose = TRUE
  DisableKeepsLookups = TRUE
  BlockKeepsLookup = TRUE
  ClosedHandlerAppends = TRUE
INVARIANTS TypeOK IndexIsLog OldPointGone AnnounceIffEnabled OneSentPerEnqueue NeverSelf
VIEW view
CHECK_DEADLOCK FALSE
