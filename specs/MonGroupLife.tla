---------------------------- MODULE MonGroupLife ----------------------------
(* Design-level clauses of the group lifecycle evaluated on OBSERVED values only (recorded by             *)
(* harness/root/vf_grouplife_verif_test.go).  The module is not a listed property: a failing clause is an  *)
(* OBSERVATION (collect mode prints it as BAD with its clause names and goes on) - except P1, a panic of a *)
(* service method, which is C19's statement and is routed there by checks/grouplife.py.                    *)
(*   O1  an entry of openedGroups is never a closed context                                               *)
(*   O2  accountGroupCtx is nil or the entry of the account group, and nil iff there is no entry          *)
(*   O3  with no request in flight every open context orbit-db holds is in openedGroups          (D2, D5) *)
(*   O4  a send that answered ok met its group opened (no request works on a closed context)        (D1)  *)
(*   O5  a listing returns exactly the messages whose send answered ok (activate after deactivate gives   *)
(*       a context whose state is what the log says: no lost events)                                      *)
(*   O6  a contact group is not activated while the account group is deactivated                          *)
(*   O7  at most one handler goroutine per open context                                              (D4) *)
(*   O8  an open-ended listing whose group is no longer opened has ended                             (D3) *)
(*   O9  no request hangs (deadline of the driver)                                                        *)
(*   O10 the metadata log of a group never holds fewer entries than it was seen to hold before (a         *)
(*       deactivation / activation loses nothing), and the contact the set-up recorded stays known        *)
(*   L1  after the service was closed no goroutine of the package is left, Close did not hang             *)
(*   P1  no request makes a service method panic                                                    (C19) *)
EXTENDS Integers, FiniteSets, Sequences, TLC, Json, IOUtils

TraceLog == ndJsonDeserialize(IOEnv.VERIF_TRACE)
Collect == "VERIF_COLLECT" \in DOMAIN IOEnv /\ IOEnv.VERIF_COLLECT = "1"
G == {"A", "C", "M"}

VARIABLES l, sent, pst, parked, maxol
mvars == <<l, sent, pst, parked, maxol>>
Ev == TraceLog[l]

\* the requests a line reports: <<[op, g, r, n]>>
Reqs == IF Ev.ev = "run" THEN Ev.ops
        ELSE IF Ev.ev \in {"start", "step"} THEN <<[op |-> Ev.op, g |-> Ev.g, r |-> Ev.r, n |-> Ev.n]>>
        ELSE <<>>
Serial == Ev.ev \in {"start", "step"} \/ (Ev.ev = "run" /\ Len(Ev.ops) = 1)
OkSends(g) == Cardinality({i \in DOMAIN Reqs : Reqs[i].op = "sendm" /\ Reqs[i].g = g /\ Reqs[i].r = "ok"})

Created == \E i \in DOMAIN Reqs : Reqs[i].op = "create" /\ Reqs[i].r = "ok"
Clauses(st, sent2, parked2) ==
  [ O1 |-> \A g \in G : st.op[g] => ~st.oc[g],
    O2 |-> st.acct \in {"nil", "same"} /\ ((st.acct = "nil") <=> ~st.op["A"]),
    O3 |-> parked2 = {} => \A g \in G : st.odb[g] => st.op[g],
    O4 |-> Serial => \A i \in DOMAIN Reqs : (Reqs[i].op \in {"sendm", "sendd"} /\ Reqs[i].r = "ok") => pst.op[Reqs[i].g],
    O5 |-> \A g \in G : st.lst[g] >= 0 => st.lst[g] = sent2[g],
    O6 |-> Serial => \A i \in DOMAIN Reqs : (Reqs[i].op = "act" /\ Reqs[i].g = "C" /\ Reqs[i].r = "ok") => pst.acct # "nil",
    O7 |-> st.nsub <= Cardinality({g \in G : st.odb[g]}),
    O8 |-> (st.strm.on /\ ~st.op[st.strm.g]) => ~st.strm.alive,
    O9 |-> \A i \in DOMAIN Reqs : Reqs[i].r # "hang",
    O10 |-> /\ \A g \in G : (st.ol[g] >= 0 /\ ~(g = "M" /\ Created)) => st.ol[g] >= maxol[g]
            /\ st.jn.cs \in {"?", "R", "A"},
    L1 |-> TRUE,
    P1 |-> (\A i \in DOMAIN Reqs : Reqs[i].r # "panic") /\ (\A g \in G : st.lst[g] # -2) ]
Names == {"O1", "O2", "O3", "O4", "O5", "O6", "O7", "O8", "O9", "O10", "L1", "P1"}

Report(bad) == IF bad = {} THEN TRUE
               ELSE IF Collect THEN PrintT(<<"BAD", ToJson([at |-> l, clauses |-> bad, line |-> Ev])>>)
               ELSE FALSE
Check(st, sent2, parked2) == LET cl == Clauses(st, sent2, parked2) IN Report({n \in Names : ~cl[n]})

Zero == [g \in G |-> 0]
MReset == /\ l <= Len(TraceLog) /\ Ev.ev = "reset" /\ l' = l + 1 /\ sent' = Zero /\ parked' = {} /\ pst' = pst /\ maxol' = Zero
MInitLine == /\ l <= Len(TraceLog) /\ Ev.ev = "init" /\ l' = l + 1 /\ pst' = Ev.st /\ UNCHANGED <<sent, parked>>
             /\ maxol' = [g \in G |-> IF Ev.st.ol[g] > maxol[g] THEN Ev.st.ol[g] ELSE maxol[g]]
MEnd == /\ l <= Len(TraceLog) /\ Ev.ev = "end" /\ l' = l + 1 /\ UNCHANGED <<sent, pst, parked, maxol>>
        /\ Report(IF Ev.dead \/ Ev.close # "ok" \/ Ev.leak2 > Ev.leak0 THEN {"L1"} ELSE {})
MStep == /\ l <= Len(TraceLog) /\ Ev.ev \in {"start", "step", "run", "cancel"} /\ l' = l + 1
         /\ sent' = [g \in G |-> sent[g] + OkSends(g)]
         /\ parked' = IF Ev.ev \in {"start", "step"} /\ Ev.op # "sub"
                      THEN (IF Ev.r \in {"at:act", "at:deact", "at:send"} THEN parked \cup {Ev.c} ELSE parked \ {Ev.c})
                      ELSE parked
         /\ pst' = Ev.st
         /\ maxol' = [g \in G |-> IF g = "M" /\ Created THEN Ev.st.ol[g]
                                  ELSE IF Ev.st.ol[g] > maxol[g] THEN Ev.st.ol[g] ELSE maxol[g]]
         /\ Check(Ev.st, sent', parked')
MNext == MReset \/ MInitLine \/ MEnd \/ MStep
MInit == l = 1 /\ sent = Zero /\ pst = <<>> /\ parked = {} /\ maxol = Zero /\ TLCSet(42, 1)
MSpec == MInit /\ [][MNext]_mvars

Mark == TLCSet(42, IF l > TLCGet(42) THEN l ELSE TLCGet(42))
Accepted == LET hw == TLCGet(42) IN
              IF hw = Len(TraceLog) + 1 THEN TRUE
              ELSE /\ PrintT(<<"REJECTED", ToJson([high |-> hw - 1, line |-> TraceLog[hw]])>>)
                   /\ FALSE
=============================================================================
