SPECIFICATION Spec
CONSTANTS
  Contacts = {"c1", "c2"}
  MaxLog = 4
  Ys = {0, 3}
  Bad = {"self", "badkey", "noseed"}
INVARIANTS LogDeterminesState NoSelf SecOnlyAccepted
PROPERTIES RefusedIsNoOp BlockedIncomingRefused OneEvent
CONSTRAINT StepBound
VIEW view
CHECK_DEADLOCK FALSE
