---------------------------- MODULE TracePipeline ----------------------------
(* Full-spec conformance for MessagePipeline.tla: every controlled step recorded on  *)
(* the real pipeline must be the model's step of that thread, ending at the same gate  *)
(* (labels mapped to pc values by checks/pipeline_check.py) with the same number of    *)
(* delivered messages, the same delivered messages in this step and the same set of    *)
(* known devices.  Rejection = model drift.                                            *)
EXTENDS MessagePipeline, IOUtils, SequencesExt

TraceLog == ndJsonDeserialize(IOEnv.VERIF_TRACE)
VARIABLE l
tvars == <<vars, l>>
Ev == TraceLog[l]
Consume(e) == l <= Len(TraceLog) /\ Ev.ev = e /\ l' = l + 1

DevOfThread(t) == CHOOSE d \in Devs : KName(d) = t
ThreadStep(t) == \/ (t = "arr" /\ (AStart \/ ALock \/ ASel))
                 \/ (t = "loop" /\ (LStart \/ WLock \/ WSel \/ G1 \/ PA \/ PF \/ FALock \/ FASel))
                 \/ (t = "cancel" /\ (CStart \/ Cancel))
                 \/ (\E d \in Devs : KName(d) = t /\ (KStart(d) \/ KReg(d) \/ P1(d) \/ P2(d) \/ KALock(d) \/ KASel(d)))
PcOf(t) == IF t = "arr" THEN apc' ELSE IF t = "loop" THEN lpc' ELSE IF t = "cancel" THEN cpc' ELSE kpc'[DevOfThread(t)]

TReset == Consume("reset") /\ UNCHANGED vars
TCfg == /\ Consume("cfg") /\ si' = Ev.scen
        /\ mq' = <<>> /\ mqmu' = "none" /\ sig' = 0 /\ cmu' = "none"
        /\ cexists' = [d \in Devs |-> FALSE] /\ cknown' = [d \in Devs |-> FALSE]
        /\ pq' = [d \in Devs |-> {}] /\ pqmu' = [d \in Devs |-> "none"]
        /\ keyKnown' = [d \in Devs |-> d \in Scenarios[Ev.scen].known]
        /\ delivered' = <<>> /\ ncached' = 0 /\ done' = FALSE
        /\ apc' = "start" /\ ai' = 1 /\ lpc' = "start" /\ lcur' = Nil /\ lrest' = <<>>
        /\ kpc' = [d \in Devs |-> IF d \in Scenarios[Ev.scen].regs THEN "start" ELSE "none"]
        /\ knext' = [d \in Devs |-> <<>>]
        /\ cpc' = (IF Scenarios[Ev.scen].cancel THEN "start" ELSE "none") /\ h' = <<>>
TStep == /\ Consume("step") /\ Ev.ok /\ Ev.p
         /\ ThreadStep(Ev.t)
         /\ PcOf(Ev.t) = Ev.topc
         /\ Len(delivered') = Ev.ndeliv
         /\ {d \in Devs : keyKnown'[d]} = ToSet(Ev.known)
TNoProgress == /\ Consume("step") /\ (~Ev.ok \/ ~Ev.p) /\ UNCHANGED vars
\* the caller-context canceller of the driver ("kc"): no effect on the pipeline of the code as it is
TCallerCancel == /\ Consume("step") /\ Ev.ok /\ Ev.p /\ Ev.t = "kc" /\ UNCHANGED vars
TFinal == /\ Consume("final") /\ Quiescent
          /\ delivered = Ev.delivered
          /\ UNCHANGED vars
TNext == TReset \/ TCfg \/ TStep \/ TNoProgress \/ TCallerCancel \/ TFinal
TInit == Init /\ l = 1 /\ TLCSet(42, 1)
TSpec == TInit /\ [][TNext]_tvars
Mark == TLCSet(42, IF l > TLCGet(42) THEN l ELSE TLCGet(42))
Accepted == LET hw == TLCGet(42) IN
              IF hw = Len(TraceLog) + 1 THEN TRUE
              ELSE /\ PrintT(<<"REJECTED", ToJson([high |-> hw - 1, line |-> TraceLog[hw]])>>)
                   /\ FALSE
=============================================================================
