----------------------------- MODULE GenContact -----------------------------
(* Script generation for HandshakeContact: the canonical-order histories of      *)
(* GenHandshake followed by contact announcements to the responder slots.        *)
EXTENDS HandshakeContact, Json

CONSTANTS AttackOnly
VARIABLES h, lvl, cur
gvars == <<cvars, h, lvl, cur>>

Ord(L, i) == L > lvl \/ (L = lvl /\ i > cur)
AllStarted == \A j \in Slots : IsReq(j) => sess[j].step >= 1
Rec(L, i, act, x, src, acct, pf) ==
  /\ Ord(L, i) /\ (L > 0 => AllStarted)
  /\ lvl' = L /\ cur' = i
  /\ h' = Append(h, [act |-> act, s |-> i, x |-> x, src |-> src, acct |-> acct,
                     pfk |-> pf[1], pfj |-> pf[2], c |-> FALSE,
                     out |-> res'.out, key |-> res'.key])
None == <<"-", 0>>
GInit == CInit /\ h = <<>> /\ lvl = 0 /\ cur = 0
GHs == \E i \in Slots :
   \/ Start(i) /\ Rec(0, i, "start", "-", 0, "-", None)
   \/ \E x \in {"e1", "e2", "e3", "ei", "low"} :
        Hello(i, x, FALSE) /\ Rec(IF IsReq(i) THEN 2 ELSE 1, i, "hello", x, EphSrc(x), "-", None)
   \/ \E src \in 1..3 : Auth(i, src, "-", None, FALSE) /\ Rec(3, i, "auth", "-", src, "-", None)
   \/ \E acct \in {"A", "B", "E"}, pf \in PfSrc : Auth(i, 0, acct, pf, FALSE) /\ Rec(3, i, "auth", "-", 0, acct, pf)
   \/ \E src \in 1..3 : Accept(i, src, None, FALSE) /\ Rec(4, i, "accept", "-", src, "-", None)
   \/ \E pf \in PfSrc : Accept(i, 0, pf, FALSE) /\ Rec(4, i, "accept", "-", 0, "-", pf)
   \/ \E src \in 1..3 : Ack(i, src, "t", FALSE) /\ Rec(5, i, "ack", "t", src, "-", None)
   \/ \E v \in {"t", "f"} : Ack(i, 0, v, FALSE) /\ Rec(5, i, "ack", v, 0, "-", None)
GDrop == \E i \in Slots : ~CanDeliver(i) /\ Drop(i) /\ Rec(7, i, "drop", "-", 0, "-", None)
GNext == \/ (GHs \/ GDrop) /\ UNCHANGED <<app, ann>>
         \/ \E i \in Slots, k \in ContactKeys : Contact(i, k) /\ Rec(6, i, "contact", k, 0, "-", None)
GSpec == GInit /\ [][GNext]_gvars

\* complete: every session returned and every successful handleIncomingRequest got its announcement
AllTerminal == \A i \in Slots : ~Live(i) /\ ((IsRsp(i) /\ sess[i].step = 5 /\ ~sess[i].fail) => ann[i])
Bad == ~(ContactAuth /\ RespAuth /\ ReqAuth)
Cfg == [i \in Slots |-> [role |-> Role(i), owner |-> Owner(i), target |-> Target(i)]]
Dump == (AllTerminal /\ (AttackOnly => Bad)) =>
           PrintT(<<"SCRIPT", ToJson([cfg |-> Cfg, steps |-> h, attack |-> Bad])>>)
=============================================================================
