---------------------------- MODULE GenGroupLife ----------------------------
(* Script generation for GroupLife: the same actions plus a history variable; complete behaviours are     *)
(* printed as JSON scripts for harness/root/vf_grouplife_verif_test.go (one line per model step:          *)
(* start = first step of a request, step = release of its gate, cancel = the stream's client goes away).  *)
EXTENDS GroupLife, Json

CONSTANTS MaxLen
VARIABLES h
gvars == <<vars, h>>

Rec(a, c, op, g, lo) == h' = Append(h, [act |-> a, x |-> c, s |-> op, d |-> g, y |-> lo, res |-> res'[c]])

GStart(c) ==
  \/ \E g \in ReqG : \E lo \in {0, 1} : StartAct(c, g, lo) /\ Rec("start", c, "act", g, lo)
  \/ \E g \in ReqG : \/ StartDeact(c, g) /\ Rec("start", c, "deact", g, 0)
                     \/ Info(c, g) /\ Rec("start", c, "info", g, 0)
                     \/ \E k \in {"sendm", "sendd"} : StartSend(c, g, k) /\ Rec("start", c, k, g, 0)
                     \/ \E k \in {"listm", "listd"} : List(c, g, k) /\ Rec("start", c, k, g, 0)
                     \/ Sub(c, g) /\ Rec("start", c, "sub", g, 0)
  \/ Join(c) /\ Rec("start", c, "join", "-", 0)
  \/ Accept(c) /\ Rec("start", c, "accept", "-", 0)
  \/ StartCreate(c) /\ Rec("start", c, "create", "-", 0)
  \/ StartClose(c) /\ Rec("start", c, "close", "-", 0)

GNext == /\ Len(h) < MaxLen
         /\ \/ \E c \in Clients : GStart(c) \/ (Step(c) /\ Rec("step", c, pc[c].op, pc[c].g, pc[c].lo))
            \/ /\ "cancel" \in OpKinds /\ Cancel
               /\ h' = Append(h, [act |-> "cancel", x |-> 0, s |-> "-", d |-> "-", y |-> 0, res |-> [r |-> "ok", n |-> -1]])
GInit == Init /\ h = <<>>
GSpec == GInit /\ [][GNext]_gvars

Complete == AllIdle /\ (nreq = MaxReq \/ svc = "closed")
Dump == Complete => PrintT(<<"SCRIPT", ToJson(h)>>)
=============================================================================
