SPECIFICATION Spec
CONSTANTS
  Contacts = {"c1"}
  Kinds = {"good"}
  OpKinds = {"en", "dis", "rs"}
  MaxOps = 5
  MaxSeed = 2
  MaxLk = 2
  MaxGen = 3
  WithRefused = FALSE
  ExitCancelsAny = TRUE
  OfferIgnoresCancel = TRUE
  StartIgnoresClose = TRUE
  LoopHandlesAfterClose = TRUE
  DisableKeepsLookups = TRUE
  BlockKeepsLookup = TRUE
  ClosedHandlerAppends = TRUE
INVARIANTS TypeOK IndexIsLog OldPointGone AnnounceIffEnabled OneSentPerEnqueue NeverSelf
VIEW view
CHECK_DEADLOCK FALSE
