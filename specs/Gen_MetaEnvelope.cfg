SPECIFICATION GSpec
CONSTANTS
  Creator = FALSE
  MaxMut = 1
  MaxDeliver = 1
  TypeSel = {"GroupMemberDeviceAdded", "MultiMemberGroupInitialMemberAnnounced", "GroupDeviceChainKeyAdded", "AccountGroupJoined", "AccountGroupLeft", "AccountContactRequestDisabled", "AccountContactRequestEnabled", "AccountContactRequestReferenceReset", "AccountContactRequestOutgoingEnqueued", "AccountContactRequestOutgoingSent", "AccountContactRequestIncomingReceived", "AccountContactRequestIncomingDiscarded", "AccountContactRequestIncomingAccepted", "AccountContactBlocked", "AccountContactUnblocked", "ContactAliasKeyAdded", "MultiMemberGroupAliasResolverAdded", "MultiMemberGroupAdminRoleGranted", "GroupMetadataPayloadSent", "GroupReplicating", "AccountVerifiedCredentialRegistered"}
  CopyTypes = {"GroupMemberDeviceAdded", "GroupMetadataPayloadSent"}
  WeakType = "-"
  WeakRule = "none"
INVARIANTS Dump
CHECK_DEADLOCK FALSE
