--------------------------- MODULE MonContactApi ---------------------------
(***************************************************************************)
(* Property monitor (= the verdict) for C07 at the SERVICE / RPC layer,    *)
(* over executions of a real in-process protocol service recorded by       *)
(* harness/root/vf_contactapi_verif_test.go.  Observed values only:        *)
(*   ok      the request was accepted (no error) or refused                 *)
(*   app     the events the account metadata log gained, decoded from the  *)
(*           entries themselves: [k, sub, seed, meta, own]                 *)
(*   arg     the optional values the request carried                       *)
(*   st      what the service reports through the MetadataStore getters    *)
(*   rpc     what it reports through ContactRequestReference and the       *)
(*           GroupMetadataList stream of the account group                 *)
(*   reply   what the request itself answered                              *)
(* History variables: kinds = all events appended so far, ref = the        *)
(* reference lifecycle applied to them event by event, prev = the views    *)
(* reported after the previous step.                                       *)
(*                                                                         *)
(* Clauses (C07 and what it implies for the RPC layer):                    *)
(*  L  every contact operation is accepted or refused as the lifecycle     *)
(*     table (DESIGN.md appendix A; same Outcome table as MonGroupLog) says*)
(*     for the state REPORTED before it; malformed and own-account         *)
(*     arguments are always refused; an accepted operation appends exactly *)
(*     the table's event, about the named contact, carrying the request's  *)
(*     values                                                              *)
(*  N  a refused request appends nothing and leaves every reported value   *)
(*     (both views) unchanged                                              *)
(*  S  after every step the reported state, seed, metadata and own         *)
(*     metadata of every contact are those of the reference lifecycle      *)
(*     applied to the appended events; the account itself is never a       *)
(*     contact, no unknown contact appears                                 *)
(*  V  the RPC view agrees with the store view (switch, rendezvous seed,   *)
(*     listed events = appended events, in order; replies of Enable /      *)
(*     ResetReference / Reference / ShareContact)                          *)
(*  R  after a restart of the service on the same datastores both views    *)
(*     are what they were                                                  *)
(* Secret-store / opened-group observations (sec, opn) and error codes are *)
(* not judged here (TraceContactApi reports them as drift).                *)
(***************************************************************************)
EXTENDS Naturals, Integers, Sequences, FiniteSets, TLC, Json, IOUtils

TraceLog == ndJsonDeserialize(IOEnv.VERIF_TRACE)

VARIABLES l,
          kinds,   \* sequence of [k, sub, seed, meta, own]: every event appended in this block
          ref,     \* reference lifecycle after those events: [cs, cseed, cmeta, cown, sw, seed]
          prev     \* [st, rpc] reported after the previous step (<<>> before the first)
mvars == <<l, kinds, ref, prev>>
Ev == TraceLog[l]
Consume(e) == l <= Len(TraceLog) /\ Ev.ev = e /\ l' = l + 1

\* ---- the lifecycle table (DESIGN.md appendix A) on the state reported before the call
Outcome(op, s) ==
  CASE op = "enq"  -> IF s \in {"U", "T", "B"} THEN "enq" ELSE IF s \in {"R", "X", "D"} THEN "sent" ELSE "-"
    [] op = "sent" -> IF s \in {"T", "R", "X", "D"} THEN "sent" ELSE "-"
    [] op = "recv" -> IF s \in {"U", "X", "D"} THEN "recv" ELSE IF s = "T" THEN "sent" ELSE "-"
    [] op = "disc" -> IF s = "R" THEN "disc" ELSE "-"
    [] op = "acc"  -> IF s = "R" THEN "acc" ELSE "-"
    [] op = "blk"  -> IF s # "B" THEN "blk" ELSE "-"
    [] op = "unb"  -> IF s = "B" THEN "unb" ELSE "-"
    [] OTHER -> op
ContactOps == {"enq", "sent", "recv", "disc", "acc", "blk", "unb"}
CStateOf(k) == CASE k = "enq" -> "T" [] k = "sent" -> "A" [] k = "recv" -> "R" [] k = "disc" -> "D"
                 [] k = "acc" -> "A" [] k = "blk" -> "B" [] k = "unb" -> "X" [] OTHER -> "?"
\* malformed or own-account arguments: always refused (a missing seed on an incoming request is allowed)
BadVariants(op) ==
  CASE op = "enq"  -> {"nil", "noseed", "shortseed", "longseed", "badkey", "nokey", "self"}
    [] op = "recv" -> {"shortseed", "longseed", "badkey", "nokey", "self"}
    [] op = "sent" -> {"self"}
    [] op \in {"acc", "disc", "blk", "unb"} -> {"self", "badkey", "longkey", "nokey"}
    [] OTHER -> {}

\* ---- reference lifecycle applied to the appended events K (latest event per contact decides)
Latest(K, P(_)) == LET S == {i \in DOMAIN K : P(i)} IN IF S = {} THEN 0 ELSE CHOOSE i \in S : \A j \in S : j <= i
RefState(K, c) == LET i == Latest(K, LAMBDA j : K[j].sub = c) IN IF i = 0 THEN "U" ELSE CStateOf(K[i].k)
RefSeed(K, c) == LET i == Latest(K, LAMBDA j : K[j].sub = c /\ K[j].k \in {"enq", "recv"} /\ K[j].seed # 0) IN
                   IF i = 0 THEN 0 ELSE K[i].seed
RefMeta(K, c) == LET i == Latest(K, LAMBDA j : K[j].sub = c /\ K[j].k \in {"enq", "recv"} /\ K[j].meta # 0) IN
                   IF i = 0 THEN 0 ELSE K[i].meta
RefOwn(K, c) == LET i == Latest(K, LAMBDA j : K[j].sub = c) IN IF i # 0 /\ K[i].k = "enq" THEN K[i].own ELSE 0
RefSw(K) == LET i == Latest(K, LAMBDA j : K[j].k \in {"en", "dis"}) IN IF i = 0 THEN "none" ELSE K[i].k
RefAcctSeed(K) == Latest(K, LAMBDA j : K[j].k = "rs")

\* the same reference, event by event (what every line is compared with; the log-derived formulation above is
\* evaluated on top of it at the first line of a block and at every restart)
Apply1(r, e) ==
  IF e.sub \in DOMAIN r.cs THEN
       [r EXCEPT !.cs[e.sub] = CStateOf(e.k),
                 !.cseed[e.sub] = IF e.k \in {"enq", "recv"} /\ e.seed # 0 THEN e.seed ELSE @,
                 !.cmeta[e.sub] = IF e.k \in {"enq", "recv"} /\ e.meta # 0 THEN e.meta ELSE @,
                 !.cown[e.sub] = IF e.k = "enq" THEN e.own ELSE 0]
  ELSE IF e.k \in {"en", "dis"} THEN [r EXCEPT !.sw = e.k]
  ELSE r
RECURSIVE ApplyFrom(_, _, _, _)
ApplyFrom(r, app, i, pos) ==       \* pos = position in the block's event sequence of app[i]
  IF i > Len(app) THEN r
  ELSE ApplyFrom(IF app[i].k = "rs" THEN [r EXCEPT !.seed = pos] ELSE Apply1(r, app[i]), app, i + 1, pos + 1)
Ref0(cs) == [cs |-> [c \in DOMAIN cs |-> "U"], cseed |-> [c \in DOMAIN cs |-> 0], cmeta |-> [c \in DOMAIN cs |-> 0],
             cown |-> [c \in DOMAIN cs |-> 0], sw |-> "none", seed |-> 0]

\* S + V: the two views after a step, given all events appended so far (K) and the reference after them (r)
ViewOK(K, r, e) ==
  /\ e.st.cs = r.cs /\ e.st.cseed = r.cseed /\ e.st.cmeta = r.cmeta /\ e.st.cown = r.cown
  /\ \A c \in DOMAIN e.st.cs : e.st.bg[c] = "ok"  \* the look-up by contact-group key gives the same contact
  /\ e.st.self = "U" /\ e.st.extra = 0            \* the account is no contact of itself; no unknown contact
  /\ e.st.sw = r.sw /\ e.st.seed = r.seed
  /\ e.rpc.en = (e.st.sw = "en") /\ e.rpc.seed = e.st.seed
  /\ e.rpc.list = [i \in DOMAIN K |-> K[i].k \o ":" \o K[i].sub]
\* the log-derived formulation (latest event per contact decides; back-fill from older requests)
DeepOK(K, e) ==
  /\ \A c \in DOMAIN e.st.cs :
        /\ e.st.cs[c] = RefState(K, c)
        /\ e.st.cseed[c] = RefSeed(K, c) /\ e.st.cmeta[c] = RefMeta(K, c) /\ e.st.cown[c] = RefOwn(K, c)
  /\ \A i \in DOMAIN K : K[i].sub \in DOMAIN e.st.cs \cup {"-"}
  /\ e.st.sw = RefSw(K) /\ e.st.seed = RefAcctSeed(K)
Same(e) == e.st = prev.st /\ e.rpc = prev.rpc

\* L + V (replies)
OpOK ==
  LET op == Ev.op  v == Ev.v  app == Ev.app IN
  IF v \in BadVariants(op) THEN ~Ev.ok
  ELSE IF op \in ContactOps THEN
      LET want == Outcome(op, prev.st.cs[Ev.c]) IN
        /\ (want = "-") = ~Ev.ok
        /\ Ev.ok => /\ Len(app) = 1 /\ app[1].k = want /\ app[1].sub = Ev.c
                    /\ want \in {"enq", "recv"} => (app[1].seed = Ev.arg.seed /\ app[1].meta = Ev.arg.meta)
                    /\ want = "enq" => app[1].own = Ev.arg.own
  ELSE IF op \in {"en", "dis", "rs"} THEN
        /\ Ev.ok /\ Len(app) = 1 /\ app[1].k = op
        /\ op \in {"en", "rs"} => Ev.reply.seed = Ev.st.seed
  ELSE IF op = "ref" THEN Ev.ok /\ app = <<>> /\ Ev.reply.en = (Ev.st.sw = "en") /\ Ev.reply.seed = Ev.st.seed
  ELSE IF op = "share" THEN
        /\ Ev.ok /\ Ev.reply.self /\ Ev.reply.seed = Ev.st.seed
        /\ \A i \in DOMAIN app : app[i].k \in {"en", "rs"}
  ELSE FALSE

MReset == Consume("reset") /\ kinds' = <<>> /\ prev' = <<>> /\ ref' = <<>>
MInit == /\ Consume("init") /\ prev = <<>> /\ kinds = <<>>
         /\ ViewOK(<<>>, Ref0(Ev.st.cs), Ev) /\ DeepOK(<<>>, Ev)
         /\ UNCHANGED kinds /\ ref' = Ref0(Ev.st.cs) /\ prev' = [st |-> Ev.st, rpc |-> Ev.rpc]
MOp == /\ Consume("op") /\ prev # <<>>
       /\ LET K == kinds \o Ev.app
              r == ApplyFrom(ref, Ev.app, 1, Len(kinds) + 1) IN
            /\ Ev.grew = Len(Ev.app)
            /\ \A i \in DOMAIN Ev.app : Ev.app[i].sub \in DOMAIN Ev.st.cs \cup {"-"}   \* no event about the account itself or a stranger
            /\ OpOK
            /\ (~Ev.ok => (Ev.grew = 0 /\ Same(Ev)))
            /\ ViewOK(K, r, Ev)
            /\ kinds' = K /\ ref' = r
       /\ prev' = [st |-> Ev.st, rpc |-> Ev.rpc]
MRestart == /\ Consume("restart") /\ prev # <<>>
            /\ Ev.grew = 0 /\ Same(Ev) /\ ViewOK(kinds, ref, Ev) /\ DeepOK(kinds, Ev)
            /\ UNCHANGED <<kinds, ref>> /\ prev' = [st |-> Ev.st, rpc |-> Ev.rpc]
MNext == MReset \/ MInit \/ MOp \/ MRestart
MInit0 == l = 1 /\ kinds = <<>> /\ ref = <<>> /\ prev = <<>> /\ TLCSet(42, 1)
MSpec == MInit0 /\ [][MNext]_mvars
Mark == TLCSet(42, IF l > TLCGet(42) THEN l ELSE TLCGet(42))
Accepted == LET hw == TLCGet(42) IN
              IF hw = Len(TraceLog) + 1 THEN TRUE
              ELSE /\ PrintT(<<"REJECTED", ToJson([high |-> hw - 1, line |-> TraceLog[hw]])>>)
                   /\ FALSE
=============================================================================
