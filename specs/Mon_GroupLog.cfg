SPECIFICATION MSpec
CONSTANTS
  Prop = "C04"
CONSTRAINT Mark
POSTCONDITION Accepted
CHECK_DEADLOCK FALSE
