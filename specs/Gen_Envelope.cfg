SPECIFICATION GSpec
CONSTANTS
  G = {"g1", "g2"}
  Dev = {"d1", "d2", "x"}
  Adv = "x"
  W = 2
  Shared = TRUE
  SigCtx = FALSE
  Plan = "std"
  MaxOpen = 2
  Mode = {"forge", "tamper", "honest"}
  MaxDiff = 1
  Sample = FALSE
INVARIANTS Dump
CHECK_DEADLOCK FALSE
