SPECIFICATION GSpec
CONSTANTS
  G = {"g1", "g2"}
  Dev = {"d1", "d2", "x"}
  Adv = "x"
  W = 2
  Shared = TRUE
  SigCtx = FALSE
  Plan = "std"
  MaxOpen = 2
  Mode = "forge"
  MaxDiff = 1
INVARIANTS Dump
CHECK_DEADLOCK FALSE
