---------------------------- MODULE TraceGroupLife ----------------------------
(* Full-spec conformance of executions recorded by harness/root/vf_grouplife_verif_test.go with           *)
(* GroupLife.tla.  A rejection is MODEL DRIFT (recorded, never an alarm).                                  *)
(*   init / start / step / cancel lines: exactly one action of the specification, its reply and           *)
(*   (strict) the projected service state after it must be what the line recorded;                        *)
(*   run lines: 1 or 2 requests issued together from two goroutines WITHOUT gates and joined: some         *)
(*   interleaving of their steps (TLC searches all of them) must give the recorded replies and state.      *)
EXTENDS GroupLife, Json, IOUtils

TraceLog == ndJsonDeserialize(IOEnv.VERIF_TRACE)
Strict == IOEnv.VERIF_STRICT = "1"

VARIABLES l, pend
tvars == <<vars, l, pend>>
TL == TraceLog[l]
PendOf(k) == IF k <= Len(TraceLog) /\ TraceLog[k].ev = "run" THEN 1..Len(TraceLog[k].ops) ELSE {}
Adv == l' = l + 1 /\ pend' = PendOf(l + 1)

StOK(st) ==
  /\ \A g \in G : /\ st.op[g] = (opened[g] # 0)
                  /\ st.oc[g] = (opened[g] # 0 /\ ctx[g][opened[g]].closed)
                  /\ st.odb[g] = Live(g)
                  /\ st.kn[g] = (g \in known)
                  /\ st.lst[g] = (IF opened[g] # 0 THEN ctx[g][opened[g]].vm ELSE -1)
  /\ st.acct = (IF acct = 0 THEN "nil" ELSE IF acct = opened["A"] THEN "same" ELSE "other")
  /\ \A g \in {"C", "M"} : st.jn[g] = "?" \/ st.jn[g] = (IF g \in joined THEN "y" ELSE "n")
  \* the contact's state in the account group's index: request received (set-up) until it is accepted
  /\ st.jn.cs = "?" \/ st.jn.cs = (IF "C" \in joined THEN "A" ELSE "R")
  /\ st.nsub = NSub
  /\ st.closed = (svc = "closed")
  /\ st.strm.on = strm.on
  /\ strm.on => (st.strm.g = strm.g /\ st.strm.n = strm.n /\ st.strm.alive)

StOKp(st) ==   \* the same on the state AFTER the step (st itself is a constant of the line)
  /\ \A g \in G : /\ st.op[g] = (opened'[g] # 0)
                  /\ st.oc[g] = (opened'[g] # 0 /\ ctx'[g][opened'[g]].closed)
                  /\ st.odb[g] = Live(g)'
                  /\ st.kn[g] = (g \in known')
                  /\ st.lst[g] = (IF opened'[g] # 0 THEN ctx'[g][opened'[g]].vm ELSE -1)
  /\ st.acct = (IF acct' = 0 THEN "nil" ELSE IF acct' = opened'["A"] THEN "same" ELSE "other")
  /\ \A g \in {"C", "M"} : st.jn[g] = "?" \/ st.jn[g] = (IF g \in joined' THEN "y" ELSE "n")
  /\ st.jn.cs = "?" \/ st.jn.cs = (IF "C" \in joined' THEN "A" ELSE "R")
  /\ st.nsub = NSub'
  /\ st.closed = (svc' = "closed")
  /\ st.strm.on = strm'.on
  /\ strm'.on => (st.strm.g = strm'.g /\ st.strm.n = strm'.n /\ st.strm.alive)

StartOp(c, op, g, lo) ==
  \/ op = "act" /\ StartAct(c, g, lo)
  \/ op = "deact" /\ StartDeact(c, g)
  \/ op = "info" /\ Info(c, g)
  \/ op \in {"sendm", "sendd"} /\ StartSend(c, g, op)
  \/ op \in {"listm", "listd"} /\ List(c, g, op)
  \/ op = "sub" /\ Sub(c, g)
  \/ op = "join" /\ Join(c)
  \/ op = "accept" /\ Accept(c)
  \/ op = "create" /\ StartCreate(c)
  \/ op = "close" /\ StartClose(c)

Here(e) == l <= Len(TraceLog) /\ TL.ev = e
TInitLine == Here("init") /\ (Strict => StOK(TL.st)) /\ UNCHANGED vars /\ Adv
TStart == /\ Here("start") /\ StartOp(TL.c, TL.op, TL.g, TL.lo)
          /\ res'[TL.c].r = TL.r /\ res'[TL.c].n = TL.n /\ (Strict => StOKp(TL.st)) /\ Adv
TStep == /\ Here("step") /\ Step(TL.c)
         /\ res'[TL.c].r = TL.r /\ res'[TL.c].n = TL.n /\ (Strict => StOKp(TL.st)) /\ Adv
TCancel == /\ Here("cancel")
           /\ \/ strm.on /\ Cancel /\ TL.r = "ok"
              \/ ~strm.on /\ TL.r = "none" /\ UNCHANGED vars
           /\ (Strict => StOKp(TL.st)) /\ Adv
TRunStart(i) == Here("run") /\ i \in pend /\ StartOp(i, TL.ops[i].op, TL.ops[i].g, TL.ops[i].lo) /\ pend' = pend \ {i} /\ l' = l
TRunStep(i) == Here("run") /\ i \notin pend /\ pc[i].stage # "idle" /\ Step(i) /\ UNCHANGED <<l, pend>>
TRunEnd == /\ Here("run") /\ pend = {} /\ AllIdle
           /\ \A i \in 1..Len(TL.ops) : res[i].r = TL.ops[i].r /\ res[i].n = TL.ops[i].n
           /\ (Strict => StOK(TL.st)) /\ UNCHANGED vars /\ Adv
TEnd == Here("end") /\ UNCHANGED vars /\ Adv
TReset == /\ Here("reset") /\ Adv
          /\ known' = {"A"} /\ joined' = {}
          /\ opened' = [g \in G |-> IF g = "A" THEN 1 ELSE 0] /\ acct' = 1
          /\ odb' = [g \in G |-> IF g = "A" THEN 1 ELSE 0]
          /\ ctx' = [g \in G |-> IF g = "A" THEN <<[closed |-> FALSE, na |-> 1, vm |-> 0, vd |-> 0]>> ELSE <<>>]
          /\ msgs' = [g \in G |-> 0] /\ meta' = [g \in G |-> 0] /\ svc' = "up" /\ strm' = NoStrm
          /\ pc' = [c \in Clients |-> Idle] /\ res' = [c \in Clients |-> [r |-> "-", n |-> -1]] /\ nreq' = 0

TNext == TInitLine \/ TStart \/ TStep \/ TCancel \/ TRunEnd \/ TEnd \/ TReset \/ (\E i \in Clients : TRunStart(i) \/ TRunStep(i))
TInit == Init /\ l = 1 /\ pend = PendOf(1) /\ TLCSet(42, 1)
TSpec == TInit /\ [][TNext]_tvars

Mark == TLCSet(42, IF l > TLCGet(42) THEN l ELSE TLCGet(42))
Accepted == LET hw == TLCGet(42) IN
              IF hw = Len(TraceLog) + 1 THEN TRUE
              ELSE /\ PrintT(<<"REJECTED", ToJson([high |-> hw - 1, line |-> TraceLog[hw]])>>)
                   /\ FALSE
=============================================================================
