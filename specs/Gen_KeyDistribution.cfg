SPECIFICATION GSpec
CONSTANTS
  M1 = {"d11"}
  M2 = {"d21"}
  M3 = {}
  M4 = {}
  ImplHandlerSends = TRUE
  ImplSendExisting = TRUE
  ImplFill = TRUE
  ImplSubscribeFirst = TRUE
  ImplSentOwnOnly = TRUE
  ImplFilterMember = TRUE
  Causal = TRUE
  Eager = FALSE
  MaxLen = 6
INVARIANTS Dump
CHECK_DEADLOCK FALSE
