----------------------------- MODULE MonContact -----------------------------
(***************************************************************************)
(* Property monitor for the handleIncomingRequest driver (C06, third       *)
(* mechanism: the contact key announced after the handshake must equal the *)
(* authenticated key).  One "fin" record per run: the session records of   *)
(* MonHandshake (responder sessions are handleIncomingRequest calls of a   *)
(* real service, account B) plus app = the contact keys, mapped to their   *)
(* abstract names, for which the account group holds an incoming contact   *)
(* request after the run (an AccountContactRequestIncomingReceived event   *)
(* was appended).  Observed values only.                                   *)
(*                                                                         *)
(*  ContactOK  an incoming request is recorded for an honest key K only if *)
(*             K's owner sent its step 3 in a requester session towards    *)
(*             this account with the same ephemeral pair as one of the     *)
(*             handleIncomingRequest sessions (so: never for a key the     *)
(*             peer merely announced)                                      *)
(*  ReqOK      as in MonHandshake                                          *)
(*  CompleteOK frames relayed unmodified between A's requester and the     *)
(*             service, then A's announcement: the request is recorded     *)
(***************************************************************************)
EXTENDS Integers, FiniteSets, Sequences, TLC, Json, IOUtils

CONSTANTS TolerateLow

TraceLog == ndJsonDeserialize(IOEnv.VERIF_TRACE)

VARIABLES l
mvars == <<l>>

Ev == TraceLog[l]
Consume(e) == l <= Len(TraceLog) /\ Ev.ev = e /\ l' = l + 1

Honest == {"A", "B"}
S == Ev.sess
Idx == DOMAIN S
App == {Ev.app[k] : k \in DOMAIN Ev.app}
F(j, k) == ToString(j) \o "." \o ToString(k)
SamePair(r, s) == /\ S[r].oe # "-" /\ S[s].oe # "-"
                  /\ S[s].pe = S[r].oe /\ S[r].pe = S[s].oe
Excused == TolerateLow /\ \E i \in Idx : S[i].pe = "low"

ContactOK == \A K \in App : K \in Honest =>
               \/ \E r \in Idx, s \in Idx : /\ S[r].role = "req" /\ S[r].owner = K /\ S[s].role = "rsp"
                                            /\ S[r].target = S[s].owner /\ S[r].s3 /\ SamePair(r, s)
               \/ Excused
ReqOK(r) == (S[r].role = "req" /\ S[r].ret = "ok" /\ S[r].target # "E") =>
               \/ \E s \in Idx : /\ S[s].role = "rsp" /\ S[s].owner = S[r].target
                                 /\ S[s].s4 /\ SamePair(r, s)
               \/ Excused
FreshOK == \A i \in Idx, j \in Idx : (i # j /\ S[i].oeh # "-") => S[i].oeh # S[j].oeh
CompleteOK == \A r \in Idx, s \in Idx :
                (/\ S[r].role = "req" /\ S[s].role = "rsp" /\ S[r].target = S[s].owner
                 /\ S[r].in = <<F(s, 1), F(s, 2)>>
                 /\ S[s].in = <<F(r, 1), F(r, 2), F(r, 3), "I:contact:" \o S[r].owner>>) =>
                   (S[r].ret = "ok" /\ S[s].ret = "ok" /\ S[r].owner \in App)

MReset == Consume("reset")
MFin == /\ Consume("fin")
        /\ ContactOK /\ FreshOK /\ CompleteOK
        /\ \A i \in Idx : ReqOK(i)

MNext == MReset \/ MFin
MInit == l = 1 /\ TLCSet(42, 1)
MSpec == MInit /\ [][MNext]_mvars

Mark == TLCSet(42, IF l > TLCGet(42) THEN l ELSE TLCGet(42))
Accepted == LET hw == TLCGet(42) IN
              IF hw = Len(TraceLog) + 1 THEN TRUE
              ELSE /\ PrintT(<<"REJECTED", ToJson([high |-> hw - 1, line |-> TraceLog[hw]])>>)
                   /\ FALSE
=============================================================================
