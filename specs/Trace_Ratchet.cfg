SPECIFICATION TSpec
CONSTANTS
  Dev = {"d1", "d2", "d3"}
  W = 2
  N = 2
  MaxSent = 100000
INVARIANTS Mech C02_Window C02_NoPast
CONSTRAINT Mark
POSTCONDITION Accepted
CHECK_DEADLOCK FALSE
