SPECIFICATION MSpec
CONSTANTS
  Dev = {"R", "d1", "d2"}
  Thr = {"t0", "t1", "t2", "t3", "t4", "t5", "t6", "t7", "t8", "t9", "t10", "t11", "t12", "t13", "t14", "t15"}
CONSTRAINT Mark
POSTCONDITION Accepted
CHECK_DEADLOCK FALSE
