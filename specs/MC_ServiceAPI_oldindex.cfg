SPECIFICATION MCSpec
CONSTANTS
  Impl <- ImplOldIndex
INVARIANTS TypeOK NoPanic ErrWhenRequired Frame
PROPERTIES ContactGroupNeedsAccount
CONSTRAINT MCBound
VIEW view
CHECK_DEADLOCK FALSE
