----------------------------- MODULE MonGroupLog -----------------------------
(***************************************************************************)
(* Property monitor for C04 / C07 / C13 over executions of real account-   *)
(* group metadata stores (two devices of one account).  Observed values    *)
(* only: the outcome of every API call, the kind of event it appended      *)
(* (decoded from the entry), the set of entries every replica holds and    *)
(* the state every replica reports through the store's getters.            *)
(* Prop selects the clauses that are enforced:                             *)
(*  C04  same entry set => same reported state (across replicas, across    *)
(*       reopen / re-delivery), and for a causally total history the       *)
(*       reported state is the log-order state (latest event wins)         *)
(*  C07  every operation is accepted or refused as the contact lifecycle   *)
(*       says for the state reported before it, a refusal appends nothing, *)
(*       the appended event is the lifecycle's, and on a causally total    *)
(*       history the reported contact states are the lifecycle's           *)
(*  C13  listings of a causally total log are the contiguous range of the  *)
(*       log order (reversed on request); errors exactly for unknown       *)
(*       identifiers or since after until                                  *)
(***************************************************************************)
EXTENDS Naturals, Integers, Sequences, FiniteSets, TLC, Json, IOUtils, SequencesExt

CONSTANTS Prop

TraceLog == ndJsonDeserialize(IOEnv.VERIF_TRACE)

VARIABLES l,
          kinds,   \* sequence of [k, sub, past]: what entry e_i is (kind decoded from the entry) and what its writer held
          memo,    \* set of <<entry set, reported state>> seen so far in this block
          prev     \* reported states after the previous step
mvars == <<l, kinds, memo, prev>>
Ev == TraceLog[l]
Consume(e) == l <= Len(TraceLog) /\ Ev.ev = e /\ l' = l + 1
Has(f) == f \in DOMAIN Ev

SetOf(s) == {s[i] : i \in DOMAIN s}
TotalK(K) == \A i \in DOMAIN K : K[i].past = 1..(i - 1)
Total == TotalK(kinds)
\* ---- reference state for entry set S under the entry kinds K: events applied in creation order,
\* latest per subject wins
CStateOf(k) == CASE k = "enq" -> "T" [] k = "sent" -> "A" [] k = "recv" -> "R" [] k = "disc" -> "D"
                 [] k = "acc" -> "A" [] k = "blk" -> "B" [] k = "unb" -> "X" [] OTHER -> "?"
Latest(S, P(_)) == LET c == {i \in S : P(i)} IN IF c = {} THEN 0 ELSE Max(c)
RefSw(K, S) == LET i == Latest(S, LAMBDA j : K[j].k \in {"en", "dis"}) IN IF i = 0 THEN "none" ELSE K[i].k
RefSeed(K, S) == Latest(S, LAMBDA j : K[j].k = "rs")
RefContact(K, S, c) == LET i == Latest(S, LAMBDA j : K[j].sub = c /\ CStateOf(K[j].k) # "?") IN
                         IF i = 0 THEN "U" ELSE CStateOf(K[i].k)
RefGroup(K, S, g) == LET i == Latest(S, LAMBDA j : K[j].sub = g /\ K[j].k \in {"join", "leave"}) IN
                       IF i # 0 /\ K[i].k = "join" THEN "join" ELSE "no"
\* seed / metadata of a contact: from its newest enqueue / incoming-request event that carries one (each field on its own)
RefDetail(K, S, c, f) == LET i == Latest(S, LAMBDA j : K[j].sub = c /\ K[j].k \in {"enq", "recv"} /\ K[j][f] # "-") IN
                           IF i = 0 THEN "-" ELSE K[i][f]
\* ... but only while the contact's newest event is such a request or the details were back-filled: the code keeps
\* them for every state, the newest event only decides the state
DetailsMatchRef(K, r) == LET S == SetOf(r.set) IN
                           ("cseed" \in DOMAIN r) =>
                              \A c \in DOMAIN r.cs : /\ r.cseed[c] = RefDetail(K, S, c, "seed")
                                                     /\ r.cmeta[c] = RefDetail(K, S, c, "meta")
KnownSet(K, S) == S \subseteq DOMAIN K
ContactsMatchRef(K, r) == LET S == SetOf(r.set) IN
                            /\ KnownSet(K, S) /\ \A c \in DOMAIN r.cs : r.cs[c] = RefContact(K, S, c)
                            /\ DetailsMatchRef(K, r)
MatchesRef(K, r) == LET S == SetOf(r.set) IN
                      /\ KnownSet(K, S)
                      /\ r.sw = RefSw(K, S) /\ r.seed = RefSeed(K, S)
                      /\ \A c \in DOMAIN r.cs : r.cs[c] = RefContact(K, S, c)
                      /\ \A g \in DOMAIN r.gj : r.gj[g] = RefGroup(K, S, g)
                      /\ DetailsMatchRef(K, r)
StateOf(r) == r.view      \* canonical rendering of everything the replica reports (driver)

\* ---- clauses on the states reported after a step (K = the entry kinds including this step's entry)
SameSetSameState(st) ==
  /\ \A d \in DOMAIN st : \A m \in memo : m[1] = SetOf(st[d].set) => m[2] = StateOf(st[d])
  /\ \A d1, d2 \in DOMAIN st : (SetOf(st[d1].set) = SetOf(st[d2].set)) => StateOf(st[d1]) = StateOf(st[d2])
\* the log-order reference is defined for the account-group alphabet (replicas that report sw/seed/cs/gj)
HasRef(r) == "sw" \in DOMAIN r
C04OK(K, st) == /\ SameSetSameState(st)
                /\ TotalK(K) => \A d \in DOMAIN st : HasRef(st[d]) => MatchesRef(K, st[d])
C07StatesOK(K, st) == TotalK(K) => \A d \in DOMAIN st : HasRef(st[d]) => ContactsMatchRef(K, st[d])
StatesOK(K, st) == CASE Prop = "C04" -> C04OK(K, st) [] Prop = "C07" -> C07StatesOK(K, st) [] OTHER -> TRUE
Remember(st) == memo' = memo \cup {<<SetOf(st[d].set), StateOf(st[d])>> : d \in DOMAIN st}

\* ---- C07: the lifecycle table (DESIGN.md appendix A) on the state reported before the call
Outcome(op, s) ==
  CASE op = "enq"  -> IF s \in {"U", "T", "B"} THEN "enq" ELSE IF s \in {"R", "X", "D"} THEN "sent" ELSE "-"
    [] op = "sent" -> IF s \in {"T", "R", "X", "D"} THEN "sent" ELSE "-"
    [] op = "recv" -> IF s \in {"U", "X", "D"} THEN "recv" ELSE IF s = "T" THEN "sent" ELSE "-"
    [] op = "disc" -> IF s = "R" THEN "disc" ELSE "-"
    [] op = "acc"  -> IF s = "R" THEN "acc" ELSE "-"
    [] op = "blk"  -> IF s # "B" THEN "blk" ELSE "-"
    [] op = "unb"  -> IF s = "B" THEN "unb" ELSE "-"
    [] OTHER -> op
ContactOps == {"enq", "sent", "recv", "disc", "acc", "blk", "unb"}
\* malformed or own-account arguments: always refused (a missing seed on an incoming request is allowed)
BadOps == {"enq!noseed", "enq!shortseed", "enq!badkey", "enq!self", "recv!self", "recv!shortseed", "blk!self"}
SubOf == IF Ev.s \in ContactOps \cup BadOps \cup {"recv!noseed"} THEN "c" \o ToString(Ev.x)
         ELSE IF Ev.s \in {"join", "leave"} THEN "g" \o ToString(Ev.x) ELSE "-"
C07OpOK == IF Ev.s \in BadOps THEN ~Ev.ok /\ Ev.grew = 0
           ELSE IF Ev.s \notin ContactOps \cup {"recv!noseed"} THEN TRUE
           ELSE LET before == IF prev = <<>> THEN "U" ELSE prev[Ev.d].cs[SubOf]
                    want == Outcome(IF Ev.s = "recv!noseed" THEN "recv" ELSE Ev.s, before) IN
                  /\ (want = "-") = ~Ev.ok
                  /\ (~Ev.ok => Ev.grew = 0)
                  /\ (Ev.ok => Ev.grew = 1 /\ Ev.evk = want)

MReset == Consume("reset") /\ kinds' = <<>> /\ memo' = {} /\ prev' = <<>>
MOp == /\ Consume("op")
       /\ LET K == IF Ev.ok /\ Has("e") THEN Append(kinds, [k |-> Ev.evk, sub |-> SubOf, past |-> SetOf(Ev.before),
                                                                seed |-> IF Has("cseed") /\ Ev.evk \in {"enq", "recv"} THEN Ev.cseed ELSE "-",
                                                                meta |-> IF Has("cmeta") /\ Ev.evk \in {"enq", "recv"} THEN Ev.cmeta ELSE "-"]) ELSE kinds IN
            /\ kinds' = K
            /\ ((Ev.ok /\ Has("e")) => Ev.e = Len(kinds) + 1)
            /\ (Prop = "C07" => C07OpOK)
            /\ StatesOK(K, Ev.st)
       /\ Remember(Ev.st) /\ prev' = Ev.st
MMove == /\ (Consume("deliver") \/ Consume("rdeliver") \/ Consume("reopen"))
         /\ UNCHANGED kinds
         /\ StatesOK(kinds, Ev.st) /\ Remember(Ev.st) /\ prev' = Ev.st
\* ---- C13
\* the unbounded forward listing taken at the same moment is the replica's log order: it holds every
\* entry once, parents before children, is the creation order when the history is causally total, and
\* replicas holding the same entries list them in the same order
FullOK == LET has == SetOf(Ev.has) IN
            /\ SetOf(Ev.full) = has /\ Len(Ev.full) = Cardinality(has)
            /\ \A i, j \in DOMAIN Ev.full : (i < j /\ Ev.full[i] \in DOMAIN kinds /\ Ev.full[j] \in DOMAIN kinds)
                   => Ev.full[j] \notin kinds[Ev.full[i]].past
            /\ (Total => Ev.full = SetToSortSeq(has, <))
            /\ \A m \in memo : (m[1] = has \cup {-1}) => m[2] = Ev.full     \* key has+{-1}: "listing of this set"
\* every (since, until, reverse) listing is the contiguous range of that order; errors exactly for unknown
\* identifiers or since after until
RangeOK == LET has == SetOf(Ev.has)
               order == Ev.full
               known(x) == x = 0 \/ x \in has
               pos(x) == CHOOSE k \in DOMAIN order : order[k] = x
               i == IF Ev.since = 0 THEN 1 ELSE IF known(Ev.since) THEN pos(Ev.since) ELSE 0
               j == IF Ev.until = 0 THEN Len(order) ELSE IF known(Ev.until) THEN pos(Ev.until) ELSE 0
               bad == ~known(Ev.since) \/ ~known(Ev.until) \/ (i > j /\ Len(order) > 0)
           IN IF bad THEN ~Ev.ok
              ELSE /\ Ev.ok
                   /\ Ev.out = (IF Ev.rev THEN Reverse(SubSeq(order, i, j)) ELSE SubSeq(order, i, j))
MList == /\ Consume("list")
         /\ UNCHANGED kinds /\ prev' = Ev.st
         /\ IF Prop = "C13" THEN FullOK /\ RangeOK /\ memo' = memo \cup {<<SetOf(Ev.has) \cup {-1}, Ev.full>>}
            ELSE UNCHANGED memo
\* ---- C13 through the RPC layer (GroupMetadataList / GroupMessageList with until_now)
MRpcList == /\ Consume("rpclist")
            /\ UNCHANGED <<kinds, memo, prev>>
            /\ (Prop = "C13") => (RangeOK /\ Ev.storeagree)
            /\ (Prop = "C19") => ~Ev.panic            \* C19: no listing request makes the handler panic
\* api_event.go: since/until cannot be both an identifier and "now", not both "now", and reverse order needs an end
ParamsBad == (Ev.sid /\ Ev.snow) \/ (Ev.uid /\ Ev.unow) \/ (Ev.snow /\ Ev.unow) \/ (~Ev.uid /\ ~Ev.unow /\ Ev.rev)
MRpcParams == /\ Consume("rpcparams")
              /\ UNCHANGED <<kinds, memo, prev>>
              /\ (Prop = "C13") => (ParamsBad => ~Ev.ok)
              /\ (Prop = "C19") => ~Ev.panic
MNext == MReset \/ MOp \/ MMove \/ MList \/ MRpcList \/ MRpcParams
MInit == l = 1 /\ kinds = <<>> /\ memo = {} /\ prev = <<>> /\ TLCSet(42, 1)
MSpec == MInit /\ [][MNext]_mvars
Mark == TLCSet(42, IF l > TLCGet(42) THEN l ELSE TLCGet(42))
Accepted == LET hw == TLCGet(42) IN
              IF hw = Len(TraceLog) + 1 THEN TRUE
              ELSE /\ PrintT(<<"REJECTED", ToJson([high |-> hw - 1, line |-> TraceLog[hw]])>>)
                   /\ FALSE
=============================================================================
