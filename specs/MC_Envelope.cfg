SPECIFICATION Spec
CONSTANTS
  G = {"g1", "g2"}
  Dev = {"d1", "d2", "x"}
  Adv = "x"
  W = 2
  Shared = TRUE
  SigCtx = TRUE
  Plan = "std"
  MaxOpen = 2
INVARIANTS TypeOK C01_OnlyHonest C01_RejectOthers C01_HonestOpens
PROPERTIES RejectIsNoOp
VIEW view
CHECK_DEADLOCK FALSE
