------------------------ MODULE TraceContactManager ------------------------
(* Trace validation for ContactManager (full specification, strict): every recorded step of   *)
(* the driver must be the corresponding ENVIRONMENT action of the specification with the      *)
(* observed outcome, the goroutines' own steps happen in between (any number, any order -     *)
(* they are not recorded), and the state projected after each step - manager fields, live     *)
(* announces, lookupProcess keys, open tinder subscriptions, stream handler, held events,     *)
(* the account log, who was handed the account's contact - must equal the model state at the  *)
(* moment the next step is taken.  Events are handled only when the script delivers them (the *)
(* driver holds them), except for the event offered while close() runs (close with x = 1).    *)
(* A rejection is model drift, never a verdict.                                               *)
EXTENDS ContactManager, Json, IOUtils

TraceLog == ndJsonDeserialize(IOEnv.VERIF_TRACE)
Strict == IOEnv.VERIF_STRICT = "1"

VARIABLES l,      \* next line
          hold,   \* the watcher is held inside its Subscribe call
          offer   \* "-" | type of the event offered to the watcher while close() runs (it may take it)
tvars == <<vars, l, hold, offer>>

TL == TraceLog[l]
Prev == TraceLog[l - 1]
SetOf(s) == {s[i] : i \in DOMAIN s}
LogOf(s) == [i \in DOMAIN s |-> [t |-> s[i].t, c |-> s[i].c, s |-> s[i].s]]

\* the projected state recorded after the previous step equals the model state now
StOK(st) ==
  Strict => /\ st.en = en /\ st.seed = seed /\ st.annc = (ann # 0)
            /\ SetOf(st.ann) = AnnLive
            /\ st.h = (hdl # 0)
            /\ SetOf(st.lk) = Lookups
            /\ SetOf(st.w) = Watched
            /\ st.q = (IF sub THEN Len(q) ELSE 0)
            /\ LogOf(st.log) = log
            /\ SetOf(st.told) = {x[1] : x \in told}
            /\ st.gen = gen
            /\ st.other = 0
PrevOK == l > 1 /\ "st" \in DOMAIN Prev => StOK(Prev.st)
\* close() returned before the driver went on
Ready == (closed => cfin) /\ offer = "-"
Consume(e) == l <= Len(TraceLog) /\ TL.ev = e /\ PrevOK /\ Ready /\ l' = l + 1

TReset == /\ l <= Len(TraceLog) /\ TL.ev = "reset" /\ l' = l + 1
          /\ log' = <<>> /\ ien' = FALSE /\ iseed' = 0 /\ cst' = [c \in Contacts |-> "U"] /\ nrs' = 0
          /\ nops' = 0 /\ sub' = FALSE /\ q' = <<>> /\ gen' = 0 /\ mpc' = "none"
          /\ closed' = FALSE /\ cfin' = FALSE /\ en' = FALSE /\ seed' = 0 /\ ann' = 0 /\ hdl' = 0 /\ todo' = {}
          /\ lkmap' = [c \in Contacts |-> 0] /\ procs' = [id \in Ids |-> NoProc]
          /\ z' = [c \in Contacts |-> 0] /\ leak' = {}
          /\ adv' = [c \in Contacts |-> {}] /\ told' = {} /\ res' = [act |-> "init"]
          /\ hold' = FALSE /\ offer' = "-"
TEnd == Consume("end") /\ UNCHANGED <<vars, hold, offer>>
TNew == Consume("new") /\ New /\ hold' = (TL.x = 1) /\ UNCHANGED offer
TResume == Consume("resume") /\ hold' = FALSE /\ UNCHANGED <<vars, offer>>
TOp == /\ Consume("op") /\ Op(TL.s, TL.d)
       /\ (TL.res.r = "ok") = (res'.t # "none")
       /\ UNCHANGED <<hold, offer>>
\* a delivery: the driver waits until an event is held (a sender that sleeps after a failed attempt may
\* still produce one), then the watcher handles the oldest one: the handling itself is TOffered
\* ("gone" / "empty" / "nosub": there was nothing to hand over)
TDeliver == /\ Consume("deliver")
            /\ offer' = IF TL.res.r \in {"gone", "empty", "nosub"} THEN "-" ELSE "taken:" \o TL.res.r
            /\ UNCHANGED <<vars, hold>>
TPeer == Consume("peer") /\ Advertise(TL.d, TL.s) /\ UNCHANGED <<hold, offer>>
TInc == /\ Consume("inc") /\ Incoming(TL.d, TL.s)
        /\ (TL.res.r = "nohandler") = (res'.t = "nohandler")
        /\ UNCHANGED <<hold, offer>>
TClose == /\ Consume("close")
          /\ IF closed \/ mpc = "none" THEN UNCHANGED vars ELSE CloseCancel
          /\ offer' = IF TL.x = 1 /\ TL.res.r \notin {"closed", "dropped"} THEN TL.res.r ELSE "-"
          /\ UNCHANGED hold
TSettle == Consume("settle") /\ UNCHANGED <<vars, hold, offer>>
\* the event handed to the watcher by a delivery, or offered during close() (taken by the watcher's
\* select before or after the cancellation)
TOffered == /\ offer # "-" /\ HandleEvent /\ "taken:" \o Head(q).t = offer
            /\ offer' = "-" /\ UNCHANGED <<l, hold>>
\* the goroutines' own steps
TInternal == /\ \/ StSubscribe \/ (~hold /\ StRead) \/ StEnqueue \/ StLoop
                \/ WatcherExit \/ CloseFinish \/ Slow
                \/ \E id \in Ids : ProcFast(id) \/ WStop(id)
             /\ UNCHANGED <<l, hold, offer>>

TNext == TReset \/ TEnd \/ TNew \/ TResume \/ TOp \/ TDeliver \/ TPeer \/ TInc \/ TClose \/ TSettle \/ TOffered \/ TInternal
TInit == Init /\ l = 1 /\ hold = FALSE /\ offer = "-" /\ TLCSet(42, 1)
TSpec == TInit /\ [][TNext]_tvars

\* high-water mark of consumed lines (needs -workers 1)
Mark == TLCSet(42, IF l > TLCGet(42) THEN l ELSE TLCGet(42))
Accepted == LET hw == TLCGet(42) IN
              IF hw = Len(TraceLog) + 1 THEN TRUE
              ELSE /\ PrintT(<<"REJECTED", ToJson([high |-> hw - 1, line |-> TraceLog[hw]])>>)
                   /\ FALSE
=============================================================================
