----------------------------- MODULE MonPipeline -----------------------------
(* Property monitor for C08 over executions of the real message pipeline      *)
(* recorded under the cooperative scheduler.  Observed values only: the       *)
(* GroupMessageEvents emitted on the event bus, the devices whose chain key   *)
(* the secret store knows, and - at quiescence - what is left in the main     *)
(* queue and in the per-device caches.                                        *)
EXTENDS Naturals, Sequences, FiniteSets, TLC, Json, IOUtils, SequencesExt

TraceLog == ndJsonDeserialize(IOEnv.VERIF_TRACE)
VARIABLES l, seen, cancelled   \* seen: names of delivered messages so far
mvars == <<l, seen, cancelled>>
Ev == TraceLog[l]
Consume(e) == l <= Len(TraceLog) /\ Ev.ev = e /\ l' = l + 1

MReset == Consume("reset") /\ seen' = {} /\ cancelled' = FALSE
MCfg == Consume("cfg") /\ UNCHANGED <<seen, cancelled>>
\* every emitted event is a message of the scenario with the original payload, sender and entry id,
\* from a device whose chain key is known, and is emitted at most once per arrival
MStep == /\ Consume("step")
         /\ \A i \in DOMAIN Ev.new :
               LET r == Ev.new[i] IN
                 /\ r.same /\ r.m # "?"
                 /\ r.m \notin seen
                 /\ r.dev \in ToSet(Ev.known)
                 /\ \A j \in DOMAIN Ev.new : (j # i) => Ev.new[j].m # r.m
         /\ seen' = seen \cup {Ev.new[i].m : i \in DOMAIN Ev.new}
         /\ cancelled' = (cancelled \/ (Ev.t = "cancel" /\ Ev.from = "c_cancel" /\ Ev.ok))
\* quiescence (nobody can move): no thread waits for a lock, and unless the store was cancelled
\* every arrived message of a known device has been delivered - none is left parked or queued -
\* except a message that is not decryptable: sealed before the announced counter (never), or beyond the
\* ratchet window (C02: counter > announced counter + window + the device's opened messages; not yet)
NOpenObs(d) == Cardinality({m \in seen : Ev.devof[m] = d})
\* never decryptable: sealed before the counter at which the sender's chain key was announced (late joiner)
RegAtObs(d) == IF "regat" \in DOMAIN Ev /\ d \in DOMAIN Ev.regat THEN Ev.regat[d] ELSE 0
Beyond(m) == LET d == Ev.devof[m] IN
               \/ Ev.ctrof[m] <= RegAtObs(d)
               \/ ("win" \in DOMAIN Ev /\ Ev.win > 0 /\ Ev.ctrof[m] > RegAtObs(d) + Ev.win + NOpenObs(d))
MFinal == /\ Consume("final")
          /\ Ev.atgate = <<>> /\ ~Ev.livelock
          /\ ToSet(Ev.delivered) = seen
          /\ cancelled \/
               /\ \A i \in DOMAIN Ev.arrived :
                     (Ev.devof[Ev.arrived[i]] \in ToSet(Ev.known)) => (Ev.arrived[i] \in seen \/ Beyond(Ev.arrived[i]))
               /\ \A i \in DOMAIN Ev.parked : Ev.devof[Ev.parked[i]] \notin ToSet(Ev.known) \/ Beyond(Ev.parked[i])
               /\ \A i \in DOMAIN Ev.inqueue : Ev.devof[Ev.inqueue[i]] \notin ToSet(Ev.known)
          /\ UNCHANGED <<seen, cancelled>>
MNext == MReset \/ MCfg \/ MStep \/ MFinal
MInit == l = 1 /\ seen = {} /\ cancelled = FALSE /\ TLCSet(42, 1)
MSpec == MInit /\ [][MNext]_mvars
Mark == TLCSet(42, IF l > TLCGet(42) THEN l ELSE TLCGet(42))
Accepted == LET hw == TLCGet(42) IN
              IF hw = Len(TraceLog) + 1 THEN TRUE
              ELSE /\ PrintT(<<"REJECTED", ToJson([high |-> hw - 1, line |-> TraceLog[hw]])>>)
                   /\ FALSE
=============================================================================
