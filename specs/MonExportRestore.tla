-------------------------- MODULE MonExportRestore --------------------------
(***************************************************************************)
(* Property monitor for C20 over executions of a real service (export      *)
(* through ServiceExportData) and real restores (RestoreAccountExport into *)
(* a fresh node without network, groups then opened normally).             *)
(* Observed values only:                                                   *)
(*  export line : keys = digests of the node's two private keys;           *)
(*     src[g]   = per open group the metadata / message log (entry set,    *)
(*                log order, heads) and the state the stores report;       *)
(*     files    = the archive, file by file: key files (name, bytes equal  *)
(*                the node's key), entry files (entry, do the bytes hash   *)
(*                to the file name), heads files (group, heads named,      *)
(*                pk / signing key / link key are the group's)             *)
(*  restore line: fed = the archive handed to the restore, file by file    *)
(*                (same = byte-identical to the exported file of that      *)
(*                name), used = the target store already held an account,  *)
(*                out = ok | err | timeout | panic | crash, and for out=ok *)
(*                keys and g[..] read off the restored node like src.      *)
(* Verdict (two strengths):                                                *)
(*  - the export holds both keys and, for every open group, every entry    *)
(*    under its identifier and the current heads;                          *)
(*  - an unmutated archive restores: same keys, and for every exported     *)
(*    group the same entries, heads, log order and reported state;         *)
(*  - entry bytes that do not match their identifier, a missing or         *)
(*    duplicated key file, a target that already holds an account:         *)
(*    REJECTED (an error; a hang is not a rejection);                      *)
(*  - dropped, duplicated, reordered entry / heads / key files, bytes       *)
(*    flipped in a heads file, truncation: no panic, and never a silently  *)
(*    different state: the restore fails, or does not finish within the    *)
(*    bounded wait, or yields the source's keys and, for every group whose *)
(*    files all arrived undamaged, exactly the source's logs and state;    *)
(*  - a byte flipped inside a key file: the statement says nothing (its    *)
(*    must-reject list names missing / duplicated key files only): any     *)
(*    outcome without a panic is accepted - the restore may fail, or       *)
(*    succeed with whatever identity the damaged key decodes to.           *)
(***************************************************************************)
EXTENDS Naturals, Integers, Sequences, FiniteSets, TLC, Json, IOUtils

TraceLog == ndJsonDeserialize(IOEnv.VERIF_TRACE)

VARIABLES l,
          ex     \* the last export line (<<>>: none yet)
mvars == <<l, ex>>
Ev == TraceLog[l]
Consume(e) == l <= Len(TraceLog) /\ Ev.ev = e /\ l' = l + 1
Has(f) == f \in DOMAIN Ev
HasF(r, f) == f \in DOMAIN r

SetOf(s) == {s[i] : i \in DOMAIN s}
Stores == {"meta", "msg"}
Count(fs, P(_)) == Cardinality({i \in DOMAIN fs : P(fs[i])})
KeyCount(fs, nm) == Count(fs, LAMBDA f : f.t = "key" /\ f.n = nm)

\* ---- the export holds what the statement says it holds
ExportOK(e) ==
  /\ e.ok
  /\ \A nm \in {"account", "proof"} : Count(e.files, LAMBDA f : f.t = "key" /\ f.n = nm /\ f.match) = 1 /\ KeyCount(e.files, nm) = 1
  /\ \A i \in DOMAIN e.files : e.files[i].t \in {"key", "entry", "heads"} /\ e.files[i].match
  /\ SetOf(e.open) = DOMAIN e.src
  /\ \A g \in SetOf(e.open) :
       /\ \A s \in Stores : \A x \in SetOf(e.src[g][s].set) :
            \E i \in DOMAIN e.files : LET f == e.files[i] IN f.t = "entry" /\ f.g = g /\ f.s = s /\ f.e = x /\ f.match
       /\ Count(e.files, LAMBDA f : f.t = "heads" /\ f.g = g) = 1
       /\ \A i \in DOMAIN e.files : LET f == e.files[i] IN (f.t = "heads" /\ f.g = g) =>
            /\ f.match
            /\ SetOf(f.mh) = SetOf(e.src[g].meta.heads)
            /\ SetOf(f.gh) = SetOf(e.src[g].msg.heads)

\* ---- restore
BadEntry(fed) == \E i \in DOMAIN fed : fed[i].t = "entry" /\ ~fed[i].match
Strict(e) == BadEntry(e.fed) \/ KeyCount(e.fed, "account") # 1 \/ KeyCount(e.fed, "proof") # 1 \/ e.used
KeyDamaged(fed) == \E i \in DOMAIN fed : fed[i].t = "key" /\ ~fed[i].same
Unmutated(x, e) == e.fed = x.files /\ ~e.used /\ ~HasF(e, "noend")
\* the files of group g all arrived undamaged (order and repetition do not matter)
Intact(x, e, g) ==
  /\ \A s \in Stores : \A y \in SetOf(x.src[g][s].set) :
       \E i \in DOMAIN e.fed : LET f == e.fed[i] IN f.t = "entry" /\ f.e = y /\ f.same /\ ~HasF(f, "partial")
  /\ \E i \in DOMAIN e.fed : LET f == e.fed[i] IN f.t = "heads" /\ f.g = g /\ f.same /\ ~HasF(f, "partial")
  /\ \A i \in DOMAIN e.fed : LET f == e.fed[i] IN (f.t \in {"heads", "entry"} /\ f.g = g) => f.same
SameGroup(x, e, g) ==
  /\ HasF(e, "g") /\ g \in DOMAIN e.g
  /\ e.g[g].open = "ok"
  /\ e.g[g].meta = x.src[g].meta
  /\ e.g[g].msg = x.src[g].msg
  /\ e.g[g].st = x.src[g].st
RestoreOK(x, e) ==
  /\ e.out \in {"ok", "err", "timeout"}                       \* never a panic / a dead process
  /\ Strict(e) => e.out = "err"
  /\ Unmutated(x, e) => e.out = "ok"
  /\ (e.out = "ok" /\ ~KeyDamaged(e.fed)) =>
       /\ HasF(e, "keys") /\ e.keys = x.keys
       /\ \A g \in SetOf(x.open) : Intact(x, e, g) => SameGroup(x, e, g)

MReset == Consume("reset") /\ ex' = <<>>
MOp == Consume("op") /\ UNCHANGED ex
MExport == /\ Consume("export")
           /\ IF Has("skip") THEN ex' = <<>> ELSE ExportOK(Ev) /\ ex' = Ev
MRestore == /\ Consume("restore") /\ UNCHANGED ex
            /\ (Has("skip") \/ (ex # <<>> /\ RestoreOK(ex, Ev)))
MNext == MReset \/ MOp \/ MExport \/ MRestore
MInit == l = 1 /\ ex = <<>> /\ TLCSet(42, 1)
MSpec == MInit /\ [][MNext]_mvars
Mark == TLCSet(42, IF l > TLCGet(42) THEN l ELSE TLCGet(42))
Accepted == LET hw == TLCGet(42) IN
              IF hw = Len(TraceLog) + 1 THEN TRUE
              ELSE /\ PrintT(<<"REJECTED", ToJson([high |-> hw - 1, line |-> TraceLog[hw]])>>)
                   /\ FALSE
=============================================================================
