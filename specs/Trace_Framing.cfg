SPECIFICATION TSpec
CONSTANTS
  Variants = {"varint", "u32be", "u32le"}
  Limit = 2
  K = 3
  Sizes = {0}
  MaxMsgs = 3
  MaxN = 100000
  D = 128
  MaxDigits = 10
  Big = 16777216
  RawKinds = {}
  Truncate = TRUE
  ImplCheckFirst = TRUE
  ImplCmp = "gt"
  ImplReadFull = TRUE
INVARIANTS RoundTrip AllocBound NoPanic
CONSTRAINT Mark
POSTCONDITION Accepted
CHECK_DEADLOCK FALSE
