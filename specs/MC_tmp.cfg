SPECIFICATION MCSpec
CONSTANTS
  Impl <- ImplCurrent
INVARIANTS TypeOK
CONSTRAINT MCBound
VIEW view
CHECK_DEADLOCK FALSE
