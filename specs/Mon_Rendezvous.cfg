SPECIFICATION MSpec
CONSTANTS
  Peers = {"a", "b"}
  Topics = {"t1", "t2"}
CONSTRAINT Mark
POSTCONDITION Accepted
CHECK_DEADLOCK FALSE
