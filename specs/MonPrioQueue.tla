---------------------------- MODULE MonPrioQueue ----------------------------
(* Monitor for the priority queue clause of C15 on observed calls.            *)
EXTENDS Naturals, Sequences, FiniteSets, TLC, Json, IOUtils, SequencesExt

TraceLog == ndJsonDeserialize(IOEnv.VERIF_TRACE)
VARIABLES l, pend   \* pend: set of <<name, counter>> added and not yet yielded
mvars == <<l, pend>>
Ev == TraceLog[l]
Consume(e) == l <= Len(TraceLog) /\ Ev.ev = e /\ l' = l + 1
MinCtr(S) == CHOOSE c \in {p[2] : p \in S} : \A q \in S : c <= q[2]

MReset == Consume("reset") /\ pend' = {}
MAdd == Consume("add") /\ pend' = pend \cup {<<Ev.s, Ev.x>>}
MNext == /\ Consume("next")
         /\ IF pend = {} THEN ~Ev.ok /\ UNCHANGED pend
            ELSE /\ Ev.ok /\ <<Ev.item, Ev.ctr>> \in pend /\ Ev.ctr = MinCtr(pend)
                 /\ pend' = pend \ {<<Ev.item, Ev.ctr>>}
\* NextAll: items seen by the callback come in non-decreasing counter order, each pending, each once,
\* each the minimum of what was pending at that moment; without a callback error the queue is drained
RECURSIVE Drain(_, _)
Drain(seen, S) == IF seen = <<>> THEN TRUE
                  ELSE LET p == <<seen[1].item, seen[1].ctr>> IN
                         p \in S /\ p[2] = MinCtr(S) /\ Drain(Tail(seen), S \ {p})
MNextAll == /\ Consume("nextall")
            /\ Drain(Ev.seen, pend)
            /\ pend' = pend \ {<<Ev.seen[k].item, Ev.seen[k].ctr>> : k \in DOMAIN Ev.seen}
            /\ (Ev.ok => pend' = {})
MSize == Consume("size") /\ Ev.n = Cardinality(pend) /\ UNCHANGED pend
MNextStep == MReset \/ MAdd \/ MNext \/ MNextAll \/ MSize
MInit == l = 1 /\ pend = {} /\ TLCSet(42, 1)
MSpec == MInit /\ [][MNextStep]_mvars
Mark == TLCSet(42, IF l > TLCGet(42) THEN l ELSE TLCGet(42))
Accepted == LET hw == TLCGet(42) IN
              IF hw = Len(TraceLog) + 1 THEN TRUE
              ELSE /\ PrintT(<<"REJECTED", ToJson([high |-> hw - 1, line |-> TraceLog[hw]])>>)
                   /\ FALSE
=============================================================================
