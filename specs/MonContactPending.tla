------------------------- MODULE MonContactPending -------------------------
(* C06, contact layer, with a pending outgoing request: the node has an undelivered outgoing    *)
(* contact request to an honest account K that runs no session; a peer that owns only E          *)
(* completes an honest handshake and announces K or itself.  The node acts only on the key the   *)
(* handshake authenticated:                                                                      *)
(*   announces K    -> the call fails, nothing is appended to the account log, K is still "to    *)
(*                     request" (nobody proved possession of K in that session);                 *)
(*   announces E    -> exactly one event, the incoming request of E; K is untouched.             *)
(* Observed values only.                                                                         *)
EXTENDS Naturals, Sequences, TLC, Json, IOUtils

TraceLog == ndJsonDeserialize(IOEnv.VERIF_TRACE)
VARIABLE l
Ev == TraceLog[l]
Consume(e) == l <= Len(TraceLog) /\ Ev.ev = e /\ l' = l + 1
ToRequest == "ContactStateToRequest"
MReset == Consume("reset")
MPend == /\ Consume("pend")
         /\ Ev.handshake /\ Ev.victim_before = ToRequest      \* set-up sanity (an honest handshake as E must succeed)
         /\ (("hung" \in DOMAIN Ev) => ~Ev.hung)              \* the handler answers once the peer has sent everything, however it was chunked
         /\ Ev.victim_after = ToRequest
         /\ IF Ev.announce = "victim"
              THEN Ev.err /\ Ev.grew = 0
              ELSE /\ ~Ev.err /\ Ev.grew = 1
                   /\ Ev.kinds = <<"EventTypeAccountContactRequestIncomingReceived">>
                   /\ Ev.peer_after = "ContactStateReceived"
MNext == MReset \/ MPend
MInit == l = 1 /\ TLCSet(42, 1)
MSpec == MInit /\ [][MNext]_l
Mark == TLCSet(42, IF l > TLCGet(42) THEN l ELSE TLCGet(42))
Accepted == LET hw == TLCGet(42) IN
              IF hw = Len(TraceLog) + 1 THEN TRUE
              ELSE /\ PrintT(<<"REJECTED", ToJson([high |-> hw - 1, line |-> TraceLog[hw]])>>)
                   /\ FALSE
=============================================================================
