----------------------------- MODULE NotifyUser -----------------------------
(***************************************************************************)
(* The two other users of internal/notify (C16): pkg/lifecycle.Manager     *)
(* (UpdateState / WaitForStateChange / GetCurrentState, locker = RWMutex)  *)
(* and pkg/tinder.peersCache (UpdatePeer / WaitForPeerUpdate, one notify   *)
(* per topic), at gate-to-gate granularity.  Both follow the pattern       *)
(*   updater: Lock(L); change; Broadcast; Unlock(L)                        *)
(*   waiter : Lock(L); loop { if changed return; Notify.Wait }             *)
(* and differ only in the locks taken and released before L (muPeers and   *)
(* muCache in the peer cache: extra gates, no interplay with the waiter)   *)
(* and in how the waiter learns the new value (the manager's waiter calls  *)
(* GetCurrentState afterwards: one more gate, RLock).                      *)
(* val abstracts the tracked value: the manager's state, or the version of *)
(* a peer's entry in the cache.                                            *)
(***************************************************************************)
EXTENDS Naturals, Sequences, FiniteSets, TLC, Json

CONSTANTS Scenarios   \* sequence of [kind: "lifecycle" | "peercache", ops: Seq(value), waiters: set, calls: Nat, cancel: "none" | "all" | a waiter name]

VARIABLES si, L, val, open, gen, closed,
          opi, upc, upre,
          wpc, wpre, seen, wgen, wok, wcalls, rets, done, cpc, h
vars == <<si, L, val, open, gen, closed, opi, upc, upre, wpc, wpre, seen, wgen, wok, wcalls, rets, done, cpc, h>>
view == <<si, L, val, open, gen, closed, opi, upc, upre, wpc, wpre, seen, wgen, wok, wcalls, done, cpc>>

Sc == Scenarios[si]
Waiters == Sc.waiters
Upd == "upd"
Canc == "cancel"
UpdPre == IF Sc.kind = "peercache" THEN 2 ELSE 0     \* Lock(muPeers), Lock(muCache) in UpdatePeer
WaitPre == IF Sc.kind = "peercache" THEN 1 ELSE 0    \* Lock(muCache) in getTopicUpdate

Init == /\ si \in DOMAIN Scenarios
        /\ L = "none" /\ val = 0 /\ open = FALSE /\ gen = 0 /\ closed = {}
        /\ opi = 1 /\ upc = "start" /\ upre = 0
        /\ wpc = [w \in Scenarios[si].waiters |-> "start"]
        /\ wpre = [w \in Scenarios[si].waiters |-> 0]
        /\ seen = [w \in Scenarios[si].waiters |-> 0]
        /\ wgen = [w \in Scenarios[si].waiters |-> 0]
        /\ wok = [w \in Scenarios[si].waiters |-> TRUE]
        /\ wcalls = [w \in Scenarios[si].waiters |-> 0]
        /\ rets = [w \in Scenarios[si].waiters |-> <<>>]
        /\ done = {}
        /\ cpc = IF Scenarios[si].cancel # "none" THEN "start" ELSE "none"
        /\ h = <<>>
Sched(t, to) == UNCHANGED si /\ h' = Append(h, [d |-> t, act |-> "step", to |-> to])

Broadcast == IF open THEN /\ open' = FALSE /\ closed' = closed \cup {gen}
                          /\ wpc' = [w \in Waiters |-> IF wpc[w] = "Wp" /\ wgen[w] = gen THEN "W6" ELSE wpc[w]]
                     ELSE UNCHANGED <<open, closed, wpc>>

\* ---------------------------------------------------------------- updater
UFirst == IF Len(Sc.ops) = 0 THEN "done" ELSE IF UpdPre > 0 THEN "UP" ELSE "UL"
UNext == IF opi + 1 > Len(Sc.ops) THEN "done" ELSE IF UpdPre > 0 THEN "UP" ELSE "UL"
UUnch == UNCHANGED <<wpre, seen, wgen, wok, wcalls, rets, done, cpc>>
UStart == /\ upc = "start" /\ upc' = UFirst
          /\ UNCHANGED <<L, val, open, gen, closed, opi, upre, wpc>> /\ UUnch /\ Sched(Upd, upc')
\* extra lock gates of the peer cache's updater (never contended in these scenarios)
UPre == /\ upc = "UP"
        /\ IF upre + 1 < UpdPre THEN upre' = upre + 1 /\ upc' = "UP" ELSE upre' = 0 /\ upc' = "UL"
        /\ UNCHANGED <<L, val, open, gen, closed, opi, wpc>> /\ UUnch /\ Sched(Upd, upc')
\* gate Lock(L): change the value if it differs, then Broadcast behind its own gate
UL == /\ upc = "UL" /\ L = "none"
      /\ IF val # Sc.ops[opi]
           THEN /\ val' = Sc.ops[opi] /\ L' = Upd /\ upc' = "UB" /\ UNCHANGED opi
           ELSE /\ UNCHANGED <<val, L>> /\ upc' = UNext /\ opi' = opi + 1
      /\ UNCHANGED <<open, gen, closed, upre, wpc>> /\ UUnch /\ Sched(Upd, upc')
UB == /\ upc = "UB" /\ Broadcast
      /\ L' = "none" /\ upc' = UNext /\ opi' = opi + 1
      /\ UNCHANGED <<val, gen, upre>> /\ UUnch /\ Sched(Upd, upc')

\* ---------------------------------------------------------------- waiters
WUnch == UNCHANGED <<val, opi, upc, upre, done, cpc>>
WStart(w) == /\ wpc[w] = "start"
             /\ wpc' = [wpc EXCEPT ![w] = IF Sc.calls = 0 THEN "done" ELSE IF WaitPre > 0 THEN "WQ" ELSE "WL"]
             /\ UNCHANGED <<L, open, gen, closed, wpre, seen, wgen, wok, wcalls, rets>> /\ WUnch /\ Sched(w, wpc'[w])
WPre(w) == /\ wpc[w] = "WQ" /\ wpc' = [wpc EXCEPT ![w] = "WL"]
           /\ UNCHANGED <<L, open, gen, closed, wpre, seen, wgen, wok, wcalls, rets>> /\ WUnch /\ Sched(w, "WL")
FirstOfCall == IF WaitPre > 0 THEN "WQ" ELSE "WL"
\* the loop body once L is held: return if the value differs from what the waiter last saw, else Wait
Body(w) == IF val # seen[w]
             THEN /\ L' = "none"
                  /\ rets' = [rets EXCEPT ![w] = Append(@, [ok |-> TRUE, v |-> val])]
                  /\ IF Sc.kind = "lifecycle"
                       THEN /\ wpc' = [wpc EXCEPT ![w] = "WG"] /\ UNCHANGED <<seen, wcalls>>       \* GetCurrentState next
                       ELSE /\ seen' = [seen EXCEPT ![w] = val]
                            /\ wcalls' = [wcalls EXCEPT ![w] = @ + 1]
                            /\ wpc' = [wpc EXCEPT ![w] = IF wcalls[w] + 1 < Sc.calls THEN FirstOfCall ELSE "done"]
             ELSE /\ wpc' = [wpc EXCEPT ![w] = "W4"] /\ L' = w /\ UNCHANGED <<rets, seen, wcalls>>   \* keep L until getChan
WL(w) == /\ wpc[w] = "WL" /\ L = "none"
         /\ wok' = [wok EXCEPT ![w] = TRUE]
         /\ Body(w)
         /\ UNCHANGED <<open, gen, closed, wpre, wgen>> /\ WUnch /\ Sched(w, wpc'[w])
W4(w) == /\ wpc[w] = "W4"
         /\ IF open THEN UNCHANGED <<open, gen>> /\ wgen' = [wgen EXCEPT ![w] = gen]
                    ELSE open' = TRUE /\ gen' = gen + 1 /\ wgen' = [wgen EXCEPT ![w] = gen + 1]
         /\ L' = "none" /\ wpc' = [wpc EXCEPT ![w] = "W5"]
         /\ UNCHANGED <<closed, wpre, seen, wok, wcalls, rets>> /\ WUnch /\ Sched(w, "W5")
W5(w) == /\ wpc[w] = "W5"
         /\ \/ /\ wgen[w] \in closed /\ wok' = [wok EXCEPT ![w] = TRUE] /\ wpc' = [wpc EXCEPT ![w] = "W6"]
            \/ /\ w \in done /\ wok' = [wok EXCEPT ![w] = FALSE] /\ wpc' = [wpc EXCEPT ![w] = "W6"]
            \/ /\ wgen[w] \notin closed /\ w \notin done /\ wpc' = [wpc EXCEPT ![w] = "Wp"] /\ UNCHANGED wok
         /\ UNCHANGED <<L, open, gen, closed, wpre, seen, wgen, wcalls, rets>> /\ WUnch /\ Sched(w, wpc'[w])
W6(w) == /\ wpc[w] = "W6" /\ L = "none"
         /\ IF wok[w] THEN Body(w)
            ELSE /\ L' = "none"
                 /\ rets' = [rets EXCEPT ![w] = Append(@, [ok |-> FALSE, v |-> val])]
                 /\ wpc' = [wpc EXCEPT ![w] = "done"] /\ UNCHANGED <<seen, wcalls>>
         /\ UNCHANGED <<open, gen, closed, wpre, wgen, wok>> /\ WUnch /\ Sched(w, wpc'[w])
\* lifecycle only: GetCurrentState, gate RLock(locker)
WG(w) == /\ wpc[w] = "WG" /\ L = "none"
         /\ seen' = [seen EXCEPT ![w] = val]
         /\ wcalls' = [wcalls EXCEPT ![w] = @ + 1]
         /\ wpc' = [wpc EXCEPT ![w] = IF wcalls[w] + 1 < Sc.calls THEN FirstOfCall ELSE "done"]
         /\ UNCHANGED <<L, open, gen, closed, wpre, wgen, wok, rets>> /\ WUnch /\ Sched(w, wpc'[w])

CStart == /\ cpc = "start" /\ cpc' = "c_cancel"
          /\ UNCHANGED <<L, val, open, gen, closed, opi, upc, upre, wpc, wpre, seen, wgen, wok, wcalls, rets, done>> /\ Sched(Canc, "c_cancel")
Targets == IF Sc.cancel = "all" THEN Waiters ELSE {Sc.cancel} \cap Waiters
Cancel == /\ cpc = "c_cancel" /\ cpc' = "done" /\ done' = Targets
          /\ wpc' = [w \in Waiters |-> IF wpc[w] = "Wp" /\ w \in Targets THEN "W6" ELSE wpc[w]]
          /\ wok' = [w \in Waiters |-> IF wpc[w] = "Wp" /\ w \in Targets THEN FALSE ELSE wok[w]]
          /\ UNCHANGED <<L, val, open, gen, closed, opi, upc, upre, wpre, seen, wgen, wcalls, rets>> /\ Sched(Canc, "done")

Next == \/ UStart \/ UPre \/ UL \/ UB \/ CStart \/ Cancel
        \/ \E w \in Waiters : WStart(w) \/ WPre(w) \/ WL(w) \/ W4(w) \/ W5(w) \/ W6(w) \/ WG(w)
Spec == Init /\ [][Next]_vars
Quiescent == ~ ENABLED Next
-----------------------------------------------------------------------------
NoDeadlock == Quiescent => upc = "done" /\ \A w \in Waiters : wpc[w] \in {"done", "Wp"}
NoMissedUpdate == Quiescent => \A w \in Waiters : wpc[w] = "Wp" => seen[w] = val
CancelReleases == Quiescent => \A w \in done : wpc[w] = "done"
Dump == Quiescent => PrintT(<<"SCRIPT", ToJson(h \o <<[d |-> "-", act |-> "final", to |-> "-", si |-> si]>>)>>)
=============================================================================
