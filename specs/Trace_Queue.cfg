SPECIFICATION TSpec
CONSTANTS
  SignalBuffered = TRUE
CONSTRAINT Mark
POSTCONDITION Accepted
CHECK_DEADLOCK FALSE
