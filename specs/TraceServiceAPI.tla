-------------------------- MODULE TraceServiceAPI --------------------------
(* Full-spec conformance for ServiceAPI: every recorded call must be the Call /  *)
(* Help action of the model with the observed outcome class, and (strict mode)  *)
(* the projection of the real service state read after the call must equal the  *)
(* model's next state.  A rejection here is model drift, never a violation.     *)
EXTENDS ServiceAPI, Json, IOUtils

TraceLog == ndJsonDeserialize(IOEnv.VERIF_TRACE)
Strict == IOEnv.VERIF_STRICT = "1"
Collect == "VERIF_COLLECT" \in DOMAIN IOEnv /\ IOEnv.VERIF_COLLECT = "1"   \* list every unexplained line (DRIFT) instead of stopping at the first

VARIABLE l
tvars == <<vars, l>>

Ev == TraceLog[l]
Consume(e) == l <= Len(TraceLog) /\ Ev.ev = e /\ l' = l + 1

Req == [k |-> Ev.k, p |-> Ev.p, s |-> Ev.s]
Matches(r) == Strict =>
                /\ r.acct = Ev.st.acct /\ r.gm = Ev.st.gm /\ r.gc = Ev.st.gc
                /\ (Ev.st.gmj # "?" => r.gmj = (Ev.st.gmj = "y"))
                /\ \A c \in CKnown : Ev.st.cs[c] # "?" => r.cs[c] = Ev.st.cs[c]
\* the observed projection laid over the model state (used to carry on after a drift)
Adopt == [Cur EXCEPT !.acct = Ev.st.acct, !.gm = Ev.st.gm, !.gc = Ev.st.gc,
                     !.gmj = IF Ev.st.gmj = "?" THEN @ ELSE Ev.st.gmj = "y",
                     !.cs = [c \in CKnown |-> IF Ev.st.cs[c] = "?" THEN @[c] ELSE Ev.st.cs[c]]]
RpcCut == Ev.via = "grpc" /\ Ev.out = "cut"     \* the driver's gRPC client ended an open-ended stream
RpcExplained == \/ RpcCut /\ Req \in AllShapes(Ev.rpc) /\ Matches(Cur)
                \/ /\ Req \in AllShapes(Ev.rpc) /\ Ev.out \in Outs(Ev.rpc, Req)
                   /\ Matches(After(Ev.rpc, Req, Ev.out))
HelperExplained == Ev.c \in HelperCls(Ev.fn) /\ Ev.out \in HOuts(Ev.fn, Ev.c)

TReset == /\ Consume("reset")
          /\ acct' = TRUE /\ gm' = TRUE /\ gc' = TRUE /\ gmj' = TRUE /\ cs' = InitCS /\ odd' = "none"
          /\ res' = "ok"
TRpc == /\ Consume("rpc") /\ RpcExplained
        /\ IF RpcCut THEN UNCHANGED vars ELSE Call(Ev.rpc, Req, Ev.out)
THelper == Consume("helper") /\ HelperExplained /\ Help(Ev.fn, Ev.c, Ev.out)
TDrift == /\ Collect /\ l <= Len(TraceLog)
          /\ \/ Ev.ev = "rpc" /\ ~RpcExplained /\ Set(Adopt)
             \/ Ev.ev = "helper" /\ ~HelperExplained /\ UNCHANGED state
             \/ Ev.ev = "crash" /\ UNCHANGED state      \* a process death is never a behaviour of the model
          /\ PrintT(<<"DRIFT", ToJson([at |-> l, line |-> Ev])>>)
          /\ l' = l + 1 /\ res' = Ev.out

TNext == TReset \/ TRpc \/ THelper \/ TDrift
TInit == Init /\ l = 1 /\ TLCSet(42, 1)
TSpec == TInit /\ [][TNext]_tvars

Mark == TLCSet(42, IF l > TLCGet(42) THEN l ELSE TLCGet(42))
Accepted == LET hw == TLCGet(42) IN
              IF hw = Len(TraceLog) + 1 THEN TRUE
              ELSE /\ PrintT(<<"REJECTED", ToJson([high |-> hw - 1, line |-> TraceLog[hw]])>>)
                   /\ FALSE
=============================================================================
