---------------------------- MODULE MonAnnCounter ----------------------------
(* C05 (exact, reaching every member) at ANY counter, through the store path: a sender that has  *)
(* published `count` messages announces its chain key to a member with MetadataStore.SendSecret; *)
(* at the recipient's replica the group context's filter hands the announcement over, names the  *)
(* sending device, the secret store registers it, the (re)activation listing contains it, the    *)
(* message sealed after the announcement opens and the one sealed before it does not.            *)
(* Observed values only.                                                                          *)
EXTENDS Naturals, Sequences, TLC, Json, IOUtils

TraceLog == ndJsonDeserialize(IOEnv.VERIF_TRACE)
VARIABLE l
Ev == TraceLog[l]
Consume(e) == l <= Len(TraceLog) /\ Ev.ev = e /\ l' = l + 1
Is(f) == f \in DOMAIN Ev /\ Ev[f]
MReset == Consume("reset")
MAnn == /\ Consume("anncounter")
        /\ Is("sent") /\ Is("opened") /\ Is("filtered") /\ Is("sender") /\ Is("registered") /\ Is("listed")
        /\ Is("nextopens") /\ ~Is("prevopens")
MNext == MReset \/ MAnn
MInit == l = 1 /\ TLCSet(42, 1)
MSpec == MInit /\ [][MNext]_l
Mark == TLCSet(42, IF l > TLCGet(42) THEN l ELSE TLCGet(42))
Accepted == LET hw == TLCGet(42) IN
              IF hw = Len(TraceLog) + 1 THEN TRUE
              ELSE /\ PrintT(<<"REJECTED", ToJson([high |-> hw - 1, line |-> TraceLog[hw]])>>)
                   /\ FALSE
=============================================================================
