SPECIFICATION GSpec
CONSTANTS
  Devs = {"a1", "a2"}
  Contacts = {"c1"}
  Groups = {"g1"}
  MaxEntries = 3
  IndexSource = "values"
  ListSource = "values"
  TieBreak = "hash"
  MaxLen = 5
  WithList = FALSE
  WithRaw = FALSE
  Ops = {"en", "dis", "rs", "enq", "blk", "unb"}
INVARIANTS Dump
CHECK_DEADLOCK FALSE
