SPECIFICATION Spec
INVARIANTS NoDeadlock NoMissedUpdate CancelReleases
VIEW view
CHECK_DEADLOCK FALSE
