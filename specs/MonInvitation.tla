---------------------------- MODULE MonInvitation ----------------------------
(***************************************************************************)
(* Property monitor for C12 over recorded calls of MetadataStore.GroupJoin *)
(* / service MultiMemberGroupJoin ("join", "joinflips", "joinbase") and of *)
(* FilterGroupForReplication ("desc").  inv is the symbolic invitation the *)
(* driver was asked to build (argument); everything else is observed.      *)
(*   accepted  => the invitation designates a multi-member group and its   *)
(*                secret is signed by the group key                        *)
(*   refused   => nothing was appended to the account log                  *)
(*   accepted  => the identity used for the group is not the account's     *)
(*   descriptor: no secret, opens nothing, same log addresses              *)
(***************************************************************************)
EXTENDS Integers, FiniteSets, Sequences, TLC, Json, IOUtils

TraceLog == ndJsonDeserialize(IOEnv.VERIF_TRACE)

VARIABLES l, naccepted
mvars == <<l, naccepted>>

Ev == TraceLog[l]
Has(f) == f \in DOMAIN Ev
Consume(e) == l <= Len(TraceLog) /\ Ev.ev = e /\ l' = l + 1

SigValid(i) == /\ i.pk \in {"g1", "g2"} /\ i.secret \in {"s1", "s2"}
               /\ i.sig.st = "ok" /\ i.sig.by = i.pk /\ i.sig.over = i.secret
Valid(i) == i.type = "multi" /\ SigValid(i)

\* observed identity flags, wherever the driver could look (secret store, GroupInfo, activated context)
Flag(f) == Has(f) /\ Ev[f]
AccountIdentityUsed == Flag("memacct") \/ Flag("devacct") \/ Flag("infomemacct") \/ Flag("infodevacct")
                       \/ Flag("actmemacct") \/ Flag("actdevacct")

MReset == Consume("reset") /\ UNCHANGED naccepted
MJoin == /\ Consume("join")
         /\ (Ev.ok => Valid(Ev.inv))
         /\ (~Ev.ok => Ev.grew = 0)
         /\ (Ev.ok => ~AccountIdentityUsed /\ ~Flag("iderr"))
         /\ naccepted' = naccepted + (IF Ev.ok THEN 1 ELSE 0)
MJoinFlips == Consume("joinflips") /\ Ev.nacc = 0 /\ Ev.grew = 0 /\ UNCHANGED naccepted
MJoinBase == Consume("joinbase") /\ (~Ev.ok => Ev.grew = 0) /\ UNCHANGED naccepted
MDesc == /\ Consume("desc") /\ Ev.ok
         /\ ~Ev.hassecret /\ ~Ev.secretin
         /\ Ev.openedmeta = 0 /\ Ev.openedhdr = 0 /\ Ev.openedpayload = 0
         /\ Ev.pksame /\ Ev.addrmeta /\ Ev.addrmsg
         /\ Ev.descjoin = 0 /\ Ev.descgrew = 0      \* a descriptor (no signed secret) is never accepted as an invitation
         \* deriving the descriptor leaves the group it was given intact, and what the member seals with that object
         \* afterwards is as closed to the descriptor as what it sealed before
         /\ (("groupsame" \in DOMAIN Ev) => Ev.groupsame) /\ (("afterhdr" \in DOMAIN Ev) => Ev.afterhdr = 0)
         /\ UNCHANGED naccepted

MNext == MReset \/ MJoin \/ MJoinFlips \/ MJoinBase \/ MDesc
MInit == l = 1 /\ naccepted = 0 /\ TLCSet(42, 1)
MSpec == MInit /\ [][MNext]_mvars

Mark == TLCSet(42, IF l > TLCGet(42) THEN l ELSE TLCGet(42))
Accepted == LET hw == TLCGet(42) IN
              IF hw = Len(TraceLog) + 1 THEN TRUE
              ELSE /\ PrintT(<<"REJECTED", ToJson([high |-> hw - 1, line |-> TraceLog[hw]])>>)
                   /\ FALSE
=============================================================================
