---------------------------- MODULE MonMultiGroup ----------------------------
(* C09 on several groups of one account (account group, contact groups - which share the account's  *)
(* device key - and a multi-member group): after concurrent sends on all of them, per group the      *)
(* counters are 1..n (distinct, gap-free), no call failed, and every envelope opens at a second      *)
(* device of the account to its payload, attributed to the sending device.  Observed values only.    *)
EXTENDS Naturals, Sequences, TLC, Json, IOUtils

TraceLog == ndJsonDeserialize(IOEnv.VERIF_TRACE)
VARIABLE l
Ev == TraceLog[l]
Consume(e) == l <= Len(TraceLog) /\ Ev.ev = e /\ l' = l + 1
MReset == Consume("reset")
MGroup == /\ Consume("groupfinal")
          /\ Ev.errs = 0
          /\ Len(Ev.counters) = Ev.n /\ \A i \in 1..Ev.n : Ev.counters[i] = i
          /\ Ev.opened = Ev.n /\ Ev.faithful = Ev.n
MNext == MReset \/ MGroup
MInit == l = 1 /\ TLCSet(42, 1)
MSpec == MInit /\ [][MNext]_l
Mark == TLCSet(42, IF l > TLCGet(42) THEN l ELSE TLCGet(42))
Accepted == LET hw == TLCGet(42) IN
              IF hw = Len(TraceLog) + 1 THEN TRUE
              ELSE /\ PrintT(<<"REJECTED", ToJson([high |-> hw - 1, line |-> TraceLog[hw]])>>)
                   /\ FALSE
=============================================================================
