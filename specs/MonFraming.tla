----------------------------- MODULE MonFraming -----------------------------
(***************************************************************************)
(* Property monitor for C18 over recorded ReadMsg calls of the real        *)
(* pkg/protoio readers.  Inputs of a block (the quantified variables of    *)
(* the property): the frames that were put on the stream - real body size, *)
(* real prefix length as produced by the real writer, kind - the real      *)
(* stream length after truncation and the reader's limit.  Everything else *)
(* is an observation.  A call must deliver the next frame, equal to what   *)
(* was written, iff that frame is entirely on the stream, its prefix is a  *)
(* sound length and its message fits the limit; otherwise (too long,       *)
(* truncated, malformed length, end of stream) it must return an error.    *)
(* Never a panic, never a grown buffer above the limit, never more than    *)
(* limit + Slack bytes allocated by a refused call, frames delivered       *)
(* earlier stay intact.  A non-canonical but decodable prefix ("nonmin")   *)
(* is left open: if the reader accepts it the message must be right.       *)
(***************************************************************************)
EXTENDS Integers, Sequences, TLC, Json, IOUtils

CONSTANTS Slack   \* allocation measurement noise allowed on top of the limit (bytes)

TraceLog == ndJsonDeserialize(IOEnv.VERIF_TRACE)

VARIABLES l,
          fr,     \* frames of the block: seq of [kind, size, plen, msize]
          n,      \* stream length
          limit,
          r       \* frames delivered so far
mvars == <<l, fr, n, limit, r>>

Ev == TraceLog[l]
Consume(e) == l <= Len(TraceLog) /\ Ev.ev = e /\ l' = l + 1

RECURSIVE EndOf(_, _)
EndOf(fs, i) == IF i = 0 THEN 0 ELSE EndOf(fs, i - 1) + fs[i].plen + fs[i].size
Present(i)  == i <= Len(fr) /\ EndOf(fr, i) <= n
MustDeliver(i) == Present(i) /\ fr[i].kind = "msg" /\ fr[i].msize <= limit
Open(i)        == Present(i) /\ fr[i].kind = "nonmin" /\ fr[i].msize <= limit
MustFail(i)    == ~MustDeliver(i) /\ ~Open(i)

MReset == Consume("reset") /\ fr' = <<>> /\ n' = 0 /\ limit' = 0 /\ r' = 0
MInput == /\ Consume("input")
          /\ fr' = Ev.frames /\ n' = Ev.n /\ limit' = Ev.limit /\ r' = 0
\* the real writer refused or crashed on a well-formed message: round trip impossible
MWFail == Consume("wfail") /\ FALSE /\ UNCHANGED <<fr, n, limit, r>>
MRead == /\ Consume("read")
         /\ ~Ev.panic
         /\ Ev.cap <= limit
         /\ Ev.prevok
         /\ \/ Ev.post
            \/ /\ ~Ev.post
               /\ MustDeliver(r + 1) => (Ev.ok /\ Ev.same)
               /\ MustFail(r + 1) => (~Ev.ok /\ Ev.allocd <= limit + Slack)
               /\ Ev.ok => Ev.same
         /\ r' = IF Ev.ok THEN r + 1 ELSE r
         /\ UNCHANGED <<fr, n, limit>>
\* arbitrary bytes: no panic, bounded buffers, termination
MFuzz == /\ Consume("fuzz")
         /\ ~Ev.panic
         /\ Ev.cap <= Ev.limit
         /\ Ev.allocd <= Ev.limit + Slack
         /\ Ev.reads <= Ev.len + 1
         /\ UNCHANGED <<fr, n, limit, r>>

MNext == MReset \/ MInput \/ MWFail \/ MRead \/ MFuzz
MInit == l = 1 /\ fr = <<>> /\ n = 0 /\ limit = 0 /\ r = 0 /\ TLCSet(42, 1)
MSpec == MInit /\ [][MNext]_mvars

Mark == TLCSet(42, IF l > TLCGet(42) THEN l ELSE TLCGet(42))
Accepted == LET hw == TLCGet(42) IN
              IF hw = Len(TraceLog) + 1 THEN TRUE
              ELSE /\ PrintT(<<"REJECTED", ToJson([high |-> hw - 1, line |-> TraceLog[hw]])>>)
                   /\ FALSE
=============================================================================
