SPECIFICATION GSpec
CONSTANTS
  Variants = {"varint"}
  Limit = 2
  K = 3
  Sizes = {0, 1, 2, 3}
  MaxMsgs = 2
  MaxN = 100
  D = 128
  MaxDigits = 10
  Big = 16777216
  RawKinds = {}
  Truncate = TRUE
  ImplCheckFirst = TRUE
  ImplCmp = "gt"
  ImplReadFull = TRUE
INVARIANTS Dump
CHECK_DEADLOCK FALSE
