SPECIFICATION TSpec
CONSTANTS
  Dev = {"R", "d1", "d2"}
  Senders = {"d1", "d2"}
  Thr = {"t0", "t1", "t2", "t3", "t4", "t5", "t6", "t7", "t8", "t9", "t10", "t11", "t12", "t13", "t14", "t15"}
  D0 = "d1"
  MsgPerThr = 1000000
  KeyNames = {"accountSK", "accountProofSK", "deviceSK", "memberSK", "memberDeviceSK", "contactGroupSK"}
  JoinKeys = {}
  W = 2
  N = 1
  MaxSent = 1000000
  MaxOps = 1000000
  MaxCrash = 1000000
  Batching = TRUE
  UseLock = TRUE
  CidFirst = TRUE
  EarlyReturn = FALSE
  MonoGE = TRUE
  InitJoined = FALSE
INVARIANTS NoReuse
CONSTRAINT Mark
POSTCONDITION Accepted
CHECK_DEADLOCK FALSE
