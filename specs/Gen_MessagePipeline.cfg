SPECIFICATION Spec
CONSTANTS
  Devs = {"d1", "d2"}
  ParkUnderLock = TRUE
  RequeueAll = TRUE
  SignalBuffered = TRUE
INVARIANTS Dump
CHECK_DEADLOCK FALSE
