SPECIFICATION TSpec
CONSTANTS
  Peers = {"a", "b"}
  Topics = {"t1", "t2"}
  Seeds = {"s1", "s2"}
  I = 2
  G = 2
  Gmin = 1
  Sec = 0
  Steps = {1}
  T = 100000000
  MaxTicks = 100000000
  ImplExpired = "ttl_gt_0"
CONSTRAINT Mark
POSTCONDITION Accepted
CHECK_DEADLOCK FALSE
