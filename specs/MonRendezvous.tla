---------------------------- MODULE MonRendezvous ----------------------------
(***************************************************************************)
(* Property monitor for C17 over recorded calls of real RotationIntervals  *)
(* (two peers) and of the pure functions of pkg/rendezvous.  Observed      *)
(* values only: rotation values are the hex strings the code returned,     *)
(* instants are the (virtual or real) clock readings in Unix seconds.      *)
(* D is the table of digests the real GenerateRendezvousPointForPeriod     *)
(* produced for the (topic, seed, period) triples of the group; it is      *)
(* checked to be deterministic and injective while it is built and then    *)
(* used to read the recorded rotation values.                              *)
(*   resolve  a topic registered earlier (seed s) resolves at `now` to     *)
(*            D[topic, s, now \div I] with a deadline in the future;       *)
(*   accept   a value the peer itself holds for the current period (that   *)
(*            is also what the other peer sends once it resolved in this   *)
(*            period) and its previous value during the grace period       *)
(*            (gmin seconds from the start of the period rotated into) are *)
(*            accepted and map back to their topic; values of a (topic,    *)
(*            seed) the peer never registered, or outside D, are refused;  *)
(*            anything else is left open.                                  *)
(***************************************************************************)
EXTENDS Integers, FiniteSets, Sequences, TLC, Json, IOUtils

CONSTANTS Peers, Topics

TraceLog == ndJsonDeserialize(IOEnv.VERIF_TRACE)

VARIABLES l, D, I, gmin, now, reg, regset, held, prev
mvars == <<l, D, I, gmin, now, reg, regset, held, prev>>

Ev == TraceLog[l]
Consume(e) == l <= Len(TraceLog) /\ Ev.ev = e /\ l' = l + 1

NoHeld == [val |-> "", per |-> -1]
NoPrev == [val |-> "", until |-> 0]
InD(v) == \E d \in D : d.val = v
Dec(v) == CHOOSE d \in D : d.val = v
HasTri(t, s, p) == \E d \in D : d.topic = t /\ d.seed = s /\ d.per = p
Val(t, s, p) == (CHOOSE d \in D : d.topic = t /\ d.seed = s /\ d.per = p).val
Period(t) == t \div I

Fresh == /\ reg' = [p \in Peers |-> [t \in Topics |-> "-"]] /\ regset' = [p \in Peers |-> {}]
         /\ held' = [p \in Peers |-> [t \in Topics |-> NoHeld]]
         /\ prev' = [p \in Peers |-> [t \in Topics |-> NoPrev]]
         /\ now' = 0
MReset == Consume("reset") /\ Fresh /\ UNCHANGED <<D, I, gmin>>
MCfg == Consume("cfg") /\ I' = Ev.isec /\ gmin' = Ev.gmin /\ D' = {} /\ Fresh

\* pure functions: period rounding on whole seconds since the epoch, in the zone of the
\* argument; digest deterministic; equal inside a period, different across topic / seed / period
MDigest == /\ Consume("digest")
           /\ Ev.rounded = (Ev.t \div I) * I /\ Ev.next = Ev.rounded + I /\ Ev.rns = 0 /\ Ev.samezone
           /\ Ev.val = Ev.val2
           /\ LET p == Ev.t \div I IN
              IF HasTri(Ev.topic, Ev.seed, p)
                THEN Val(Ev.topic, Ev.seed, p) = Ev.val /\ UNCHANGED D
                ELSE ~InD(Ev.val) /\ D' = D \cup {[topic |-> Ev.topic, seed |-> Ev.seed, per |-> p, val |-> Ev.val]}
           /\ UNCHANGED <<I, gmin, now, reg, regset, held, prev>>
MPure == /\ Consume("pure")
         /\ Ev.r1 = (Ev.t1 \div Ev.isec) * Ev.isec /\ Ev.r2 = (Ev.t2 \div Ev.isec) * Ev.isec
         /\ Ev.n1 = Ev.r1 + Ev.isec /\ Ev.rns = 0
         /\ Ev.det /\ Ev.intact /\ Ev.len > 0
         /\ Ev.eq <=> (Ev.samet /\ Ev.sames /\ Ev.r1 = Ev.r2)
         /\ UNCHANGED <<D, I, gmin, now, reg, regset, held, prev>>

\* the peer is seen to use value w (period wp) for topic t from now on
Use(p, t, w, wp) ==
  IF held[p][t].val = w THEN UNCHANGED <<held, prev>>
  ELSE /\ held' = [held EXCEPT ![p][t] = [val |-> w, per |-> wp]]
       /\ prev' = IF held[p][t].val = "" THEN prev
                  ELSE [prev EXCEPT ![p][t] = [val |-> held[p][t].val, until |-> wp * I + gmin]]

Clock == Ev.now >= now /\ now' = Ev.now

MTick == Consume("tick") /\ Clock /\ UNCHANGED <<D, I, gmin, reg, regset, held, prev>>
MRegister ==
  /\ Consume("register") /\ Clock
  /\ reg' = [reg EXCEPT ![Ev.p][Ev.topic] = Ev.seed]
  /\ regset' = [regset EXCEPT ![Ev.p] = @ \cup {<<Ev.topic, Ev.seed>>}]
  /\ held' = [held EXCEPT ![Ev.p][Ev.topic] = [val |-> Val(Ev.topic, Ev.seed, Ev.now \div I), per |-> Ev.now \div I]]
  /\ UNCHANGED <<D, I, gmin, prev>>
MResolve ==
  /\ Consume("resolve") /\ Clock
  /\ reg[Ev.p][Ev.topic] # "-" =>
       /\ Ev.ok
       /\ Ev.val = Val(Ev.topic, reg[Ev.p][Ev.topic], Ev.now \div I)
       /\ ("dl" \in DOMAIN Ev) => (Ev.dl > Ev.now /\ Ev.ttlpos)   \* not observable through the marshaler
       /\ Ev.rtopic = Ev.topic
  /\ IF Ev.ok /\ InD(Ev.val) /\ Dec(Ev.val).topic = Ev.topic
       THEN Use(Ev.p, Ev.topic, Ev.val, Dec(Ev.val).per) ELSE UNCHANGED <<held, prev>>
  /\ UNCHANGED <<D, I, gmin, reg, regset>>
MustAcc(p, v, t) == v # "" /\ \E tp \in Topics : \/ held[p][tp].val = v /\ held[p][tp].per = t \div I
                                                 \/ prev[p][tp].val = v /\ t < prev[p][tp].until
MustRef(p, v) == ~InD(v) \/ <<Dec(v).topic, Dec(v).seed>> \notin regset[p]
MAccept ==
  /\ Consume("accept") /\ Clock
  /\ MustAcc(Ev.p, Ev.val, Ev.now) => (Ev.ok /\ InD(Ev.val) /\ Ev.rtopic = Dec(Ev.val).topic)
  /\ MustRef(Ev.p, Ev.val) => ~Ev.ok
  /\ (Ev.ok /\ InD(Ev.val)) => Ev.rtopic = Dec(Ev.val).topic
  /\ IF Ev.ok /\ Ev.rval # Ev.val /\ InD(Ev.rval) /\ Dec(Ev.rval).topic \in Topics
       THEN Use(Ev.p, Dec(Ev.rval).topic, Ev.rval, Dec(Ev.rval).per) ELSE UNCHANGED <<held, prev>>
  /\ UNCHANGED <<D, I, gmin, reg, regset>>

MNext == MReset \/ MCfg \/ MDigest \/ MPure \/ MTick \/ MRegister \/ MResolve \/ MAccept
MInit == /\ l = 1 /\ D = {} /\ I = 1 /\ gmin = 0 /\ now = 0
         /\ reg = [p \in Peers |-> [t \in Topics |-> "-"]] /\ regset = [p \in Peers |-> {}]
         /\ held = [p \in Peers |-> [t \in Topics |-> NoHeld]]
         /\ prev = [p \in Peers |-> [t \in Topics |-> NoPrev]]
         /\ TLCSet(42, 1)
MSpec == MInit /\ [][MNext]_mvars

Mark == TLCSet(42, IF l > TLCGet(42) THEN l ELSE TLCGet(42))
Accepted == LET hw == TLCGet(42) IN
              IF hw = Len(TraceLog) + 1 THEN TRUE
              ELSE /\ PrintT(<<"REJECTED", ToJson([high |-> hw - 1, line |-> TraceLog[hw]])>>)
                   /\ FALSE
=============================================================================
