----------------------------- MODULE MonEnvelope -----------------------------
(***************************************************************************)
(* Property monitor for C01 over a recorded trace of real secret stores.   *)
(* History variables are computed from observed values and from facts      *)
(* about the presented bytes only (hon = label of the honestly sealed      *)
(* envelope the presented bytes are identical to, "" if none):             *)
(*   - whatever is accepted is an honestly sealed envelope, presented to   *)
(*     the group it was sealed for, and is delivered as exactly its        *)
(*     <<payload, device, counter>>; everything else is rejected;          *)
(*   - an honest envelope presented to its group opens whenever the        *)
(*     receiver holds the key (registered at 0, window W, C02's formula).  *)
(* The model's prediction is not consulted (that is TraceEnvelope).        *)
(***************************************************************************)
EXTENDS Integers, FiniteSets, Sequences, TLC, Json, IOUtils

CONSTANTS W,
          Shared, SigCtx   \* unused here (the monitor shares its constant overrides with TraceEnvelope)

TraceLog == ndJsonDeserialize(IOEnv.VERIF_TRACE)

VARIABLES l,
          sealed,  \* set of [e, g, dv, k, p]: honest envelopes (label, group, device key, counter, payload)
          opened   \* labels of honest envelopes the receiver has opened
mvars == <<l, sealed, opened>>

Ev == TraceLog[l]
Consume(e) == l <= Len(TraceLog) /\ Ev.ev = e /\ l' = l + 1

Known(e) == \E r \in sealed : r.e = e
RecOf(e) == CHOOSE r \in sealed : r.e = e
OpenedOn(g, dv) == {o \in opened : RecOf(o).g = g /\ RecOf(o).dv = dv}
HoldsKey(r) == r.e \in opened \/ r.k <= W + Cardinality(OpenedOn(r.g, r.dv))

MReset == Consume("reset") /\ sealed' = {} /\ opened' = {}
\* an honest device names itself in the headers it seals
MSeal == /\ Consume("seal") /\ Ev.hdv = Ev.dv /\ ~Known(Ev.e)
         /\ sealed' = sealed \cup {[e |-> Ev.e, g |-> Ev.g, dv |-> Ev.dv, k |-> Ev.k, p |-> Ev.p]}
         /\ UNCHANGED opened
MForge == Consume("forge") /\ UNCHANGED <<sealed, opened>>
MTamper == Consume("tamper") /\ UNCHANGED <<sealed, opened>>
\* what earlier opens returned is still what they returned (results do not alias a reused buffer)
MOpen == /\ Consume("open") /\ (("kept" \in DOMAIN Ev) => Ev.kept)
         /\ LET honest == Ev.hon # "" /\ Known(Ev.hon) IN
              /\ Ev.ok => /\ honest
                          /\ RecOf(Ev.hon).g = Ev.g /\ RecOf(Ev.hon).dv = Ev.rdv
                          /\ RecOf(Ev.hon).k = Ev.rct /\ RecOf(Ev.hon).p = Ev.rpl
              /\ (honest /\ RecOf(Ev.hon).g = Ev.g /\ HoldsKey(RecOf(Ev.hon))) => Ev.ok
              /\ opened' = IF Ev.ok /\ honest THEN opened \cup {Ev.hon} ELSE opened
         /\ UNCHANGED sealed

\* the attacker relayed honest envelopes as push payloads naming the forged entry's CID (nothing to judge here:
\* the open of the forged entry that follows must still be refused)
MPushFirst == Consume("pushfirst") /\ UNCHANGED <<sealed, opened>>
MNext == MReset \/ MSeal \/ MForge \/ MTamper \/ MOpen \/ MPushFirst
MInit == l = 1 /\ sealed = {} /\ opened = {} /\ TLCSet(42, 1)
MSpec == MInit /\ [][MNext]_mvars

Mark == TLCSet(42, IF l > TLCGet(42) THEN l ELSE TLCGet(42))
Accepted == LET hw == TLCGet(42) IN
              IF hw = Len(TraceLog) + 1 THEN TRUE
              ELSE /\ PrintT(<<"REJECTED", ToJson([high |-> hw - 1, line |-> TraceLog[hw]])>>)
                   /\ FALSE
=============================================================================
