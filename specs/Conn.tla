-------------------------------- MODULE Conn --------------------------------
(***************************************************************************)
(* connectedness_manager.go + internal/notify/notify.go at gate-to-gate    *)
(* granularity (one gate in front of every lock acquisition and of the     *)
(* select in Notify.Wait; tools/instrument).  One group, a set of peers,   *)
(* one updater thread executing a sequence of AssociatePeer / UpdateState  *)
(* calls, waiter threads calling WaitForConnectednessChange repeatedly     *)
(* with their own `current` map, an optional canceller of the shared ctx.  *)
(*                                                                         *)
(* Impl = "orig": AssociatePeer holds muState while taking notify.L and    *)
(*   UpdateState broadcasts without notify.L (the code as first found).    *)
(* Impl = "fixed": lock order notify.L -> muState everywhere, Broadcast    *)
(*   always under notify.L.                                                *)
(* The notify's inner mutex n.mu is only ever held inside one segment, so   *)
(* it needs no variable; its Lock is still a gate (a scheduling point).    *)
(***************************************************************************)
EXTENDS Naturals, Sequences, FiniteSets, TLC, Json

CONSTANTS Scenarios,   \* sequence of [ops: Seq([op, p, v]), waiters: set of names, calls: Nat, cancel: "none" | "all" | a waiter name]
          Peers,
          Impl

VARIABLES si,
          mS, L,              \* holders of muState / notify.L ("none" or thread)
          status, assoc,      \* tracker state: [Peers -> 0..2], SUBSET Peers
          open, gen, closed,  \* notify channel: open?, generation, closed generations
          opi, upc,           \* updater: index of current op, pc
          wpc, cur, wgen, wok, wcalls,
          rets,               \* history: [waiter -> Seq([upd: set, ok: BOOLEAN])]
          done,               \* set of waiters whose ctx is cancelled
          cpc,                \* canceller pc
          h
vars == <<si, mS, L, status, assoc, open, gen, closed, opi, upc, wpc, cur, wgen, wok, wcalls, rets, done, cpc, h>>
view == <<si, mS, L, status, assoc, open, gen, closed, opi, upc, wpc, cur, wgen, wok, wcalls, done, cpc>>

Sc == Scenarios[si]
Ops == Sc.ops
Waiters == Sc.waiters
Upd == "upd"
Canc == "cancel"
None == 9   \* "no entry" in a waiter's current map

Init == /\ si \in DOMAIN Scenarios
        /\ mS = "none" /\ L = "none"
        /\ status = [p \in Peers |-> 0] /\ assoc = {}
        /\ open = FALSE /\ gen = 0 /\ closed = {}
        /\ opi = 1 /\ upc = "start"
        /\ wpc = [w \in Scenarios[si].waiters |-> "start"]
        /\ cur = [w \in Scenarios[si].waiters |-> [p \in Peers |-> None]]
        /\ wgen = [w \in Scenarios[si].waiters |-> 0]
        /\ wok = [w \in Scenarios[si].waiters |-> TRUE]
        /\ wcalls = [w \in Scenarios[si].waiters |-> 0]
        /\ rets = [w \in Scenarios[si].waiters |-> <<>>]
        /\ done = {}          \* waiters whose context has been cancelled
        /\ cpc = IF Scenarios[si].cancel # "none" THEN "start" ELSE "none"
        /\ h = <<>>

Sched(t, to) == UNCHANGED si /\ h' = Append(h, [d |-> t, act |-> "step", to |-> to])

\* closing the current channel wakes every waiter parked on that generation
Broadcast == IF open THEN /\ open' = FALSE /\ closed' = closed \cup {gen}
                          /\ wpc' = [w \in Waiters |-> IF wpc[w] = "Wp" /\ wgen[w] = gen THEN "W6" ELSE wpc[w]]
                     ELSE UNCHANGED <<open, closed, wpc>>

\* ------------------------------------------------------------- updater
Op == Ops[opi]
FirstGate(i) == IF i > Len(Ops) THEN "done" ELSE IF Ops[i].op = "assoc" THEN "A1" ELSE "U1"
NextOp == FirstGate(opi + 1)
UUnch == UNCHANGED <<cur, wgen, wok, wcalls, rets, done, cpc>>

UStart == /\ upc = "start" /\ upc' = FirstGate(1)
          /\ UNCHANGED <<mS, L, status, assoc, open, gen, closed, opi, wpc>> /\ UUnch /\ Sched(Upd, upc')

\* AssociatePeer, gate Lock(muState)
A1 == /\ upc = "A1" /\ mS = "none"
      /\ mS' = IF Impl = "orig" THEN Upd ELSE "none"
      /\ upc' = "A2"
      /\ UNCHANGED <<L, status, assoc, open, gen, closed, opi, wpc>> /\ UUnch /\ Sched(Upd, upc')
\* gate Lock(notify.L)
A2 == /\ upc = "A2" /\ L = "none"
      /\ IF Impl = "orig"
           THEN IF Op.p \notin assoc
                  THEN /\ assoc' = assoc \cup {Op.p} /\ L' = Upd /\ upc' = "A3" /\ UNCHANGED <<mS, opi>>
                  ELSE /\ UNCHANGED <<assoc, L>> /\ mS' = "none" /\ upc' = NextOp /\ opi' = opi + 1
           ELSE /\ L' = Upd /\ upc' = "A2b" /\ UNCHANGED <<assoc, mS, opi>>
      /\ UNCHANGED <<status, open, gen, closed, wpc>> /\ UUnch /\ Sched(Upd, upc')
\* (fixed only) gate Lock(muState) while holding notify.L
A2b == /\ upc = "A2b" /\ mS = "none"
       /\ IF Op.p \notin assoc
            THEN /\ assoc' = assoc \cup {Op.p} /\ upc' = "A3" /\ UNCHANGED <<L, opi>>
            ELSE /\ UNCHANGED assoc /\ L' = "none" /\ upc' = NextOp /\ opi' = opi + 1
       /\ UNCHANGED <<mS, status, open, gen, closed, wpc>> /\ UUnch /\ Sched(Upd, upc')
\* Broadcast inside AssociatePeer: gate Lock(n.mu); then unlock everything
A3 == /\ upc = "A3" /\ Broadcast
      /\ L' = "none" /\ mS' = "none" /\ upc' = NextOp /\ opi' = opi + 1
      /\ UNCHANGED <<status, assoc, gen>> /\ UUnch /\ Sched(Upd, upc')

\* UpdateState, gate Lock(muState)
U1 == /\ upc = "U1" /\ mS = "none"
      /\ IF status[Op.p] # Op.v
           THEN /\ status' = [status EXCEPT ![Op.p] = Op.v]
                /\ IF Op.p \in assoc
                     THEN IF Impl = "orig" THEN mS' = Upd /\ upc' = "U2" /\ UNCHANGED opi
                                           ELSE mS' = "none" /\ upc' = "U1L" /\ UNCHANGED opi
                     ELSE mS' = "none" /\ upc' = NextOp /\ opi' = opi + 1
           ELSE /\ UNCHANGED <<status, mS>> /\ upc' = NextOp /\ opi' = opi + 1
      /\ UNCHANGED <<L, assoc, open, gen, closed, wpc>> /\ UUnch /\ Sched(Upd, upc')
\* (fixed only) gate Lock(notify.L)
U1L == /\ upc = "U1L" /\ L = "none" /\ L' = Upd /\ upc' = "U2"
       /\ UNCHANGED <<mS, status, assoc, open, gen, closed, opi, wpc>> /\ UUnch /\ Sched(Upd, upc')
\* Broadcast inside UpdateState: gate Lock(n.mu)
U2 == /\ upc = "U2" /\ Broadcast
      /\ mS' = "none" /\ L' = (IF L = Upd THEN "none" ELSE L)
      /\ upc' = NextOp /\ opi' = opi + 1
      /\ UNCHANGED <<status, assoc, gen>> /\ UUnch /\ Sched(Upd, upc')

\* ------------------------------------------------------------- waiters
WUnch == UNCHANGED <<status, assoc, opi, upc, done, cpc>>
WStart(w) == /\ wpc[w] = "start"
             /\ wpc' = [wpc EXCEPT ![w] = IF Sc.calls = 0 THEN "done" ELSE "W1"]
             /\ UNCHANGED <<mS, L, open, gen, closed, cur, wgen, wok, wcalls, rets>> /\ WUnch /\ Sched(w, wpc'[w])
\* gate Lock(muState): fetch the group status, unlock
W1(w) == /\ wpc[w] = "W1" /\ mS = "none"
         /\ wpc' = [wpc EXCEPT ![w] = "W2"]
         /\ UNCHANGED <<mS, L, open, gen, closed, cur, wgen, wok, wcalls, rets>> /\ WUnch /\ Sched(w, "W2")
\* gate Lock(notify.L)
W2(w) == /\ wpc[w] = "W2" /\ L = "none" /\ L' = w
         /\ wpc' = [wpc EXCEPT ![w] = "W3"] /\ wok' = [wok EXCEPT ![w] = TRUE]
         /\ UNCHANGED <<mS, open, gen, closed, cur, wgen, wcalls, rets>> /\ WUnch /\ Sched(w, "W3")
Diff(w) == {p \in assoc : cur[w][p] # status[p]}
Return(w, upd, ok) == /\ rets' = [rets EXCEPT ![w] = Append(@, [upd |-> upd, ok |-> ok])]
                      /\ wcalls' = [wcalls EXCEPT ![w] = @ + 1]
                      /\ wpc' = [wpc EXCEPT ![w] = IF wcalls[w] + 1 < Sc.calls /\ ok THEN "W1" ELSE "done"]
\* updateStatus: gate Lock(muState) while holding notify.L
W3(w) == /\ wpc[w] = "W3" /\ mS = "none"
         /\ IF Diff(w) # {}
              THEN /\ cur' = [cur EXCEPT ![w] = [p \in Peers |-> IF p \in Diff(w) THEN status[p] ELSE @[p]]]
                   /\ L' = "none" /\ Return(w, Diff(w), TRUE)
              ELSE /\ wpc' = [wpc EXCEPT ![w] = "W4"] /\ UNCHANGED <<cur, L, rets, wcalls>>
         /\ UNCHANGED <<mS, open, gen, closed, wgen, wok>> /\ WUnch /\ Sched(w, wpc'[w])
\* Notify.Wait: getChan behind gate Lock(n.mu), then Unlock(notify.L), reach the select gate
W4(w) == /\ wpc[w] = "W4"
         /\ IF open THEN UNCHANGED <<open, gen>> /\ wgen' = [wgen EXCEPT ![w] = gen]
                    ELSE open' = TRUE /\ gen' = gen + 1 /\ wgen' = [wgen EXCEPT ![w] = gen + 1]
         /\ L' = "none" /\ wpc' = [wpc EXCEPT ![w] = "W5"]
         /\ UNCHANGED <<mS, closed, cur, wok, wcalls, rets>> /\ WUnch /\ Sched(w, "W5")
\* gate select{ctx.Done | signal}: take a ready case (either, if both are ready) or park
W5(w) == /\ wpc[w] = "W5"
         /\ \/ /\ wgen[w] \in closed /\ wok' = [wok EXCEPT ![w] = TRUE] /\ wpc' = [wpc EXCEPT ![w] = "W6"]
            \/ /\ w \in done /\ wok' = [wok EXCEPT ![w] = FALSE] /\ wpc' = [wpc EXCEPT ![w] = "W6"]
            \/ /\ wgen[w] \notin closed /\ w \notin done /\ wpc' = [wpc EXCEPT ![w] = "Wp"] /\ UNCHANGED wok
         /\ UNCHANGED <<mS, L, open, gen, closed, cur, wgen, wcalls, rets>> /\ WUnch /\ Sched(w, wpc'[w])
\* gate Lock(notify.L) at the end of Notify.Wait; then loop or give up
W6(w) == /\ wpc[w] = "W6" /\ L = "none"
         /\ IF wok[w] THEN /\ L' = w /\ wpc' = [wpc EXCEPT ![w] = "W3"] /\ UNCHANGED <<rets, wcalls>>
                      ELSE /\ L' = "none" /\ Return(w, {}, FALSE)
         /\ UNCHANGED <<mS, open, gen, closed, cur, wgen, wok>> /\ WUnch /\ Sched(w, wpc'[w])

\* ------------------------------------------------------------- canceller
CStart == /\ cpc = "start" /\ cpc' = "c_cancel"
          /\ UNCHANGED <<mS, L, status, assoc, open, gen, closed, opi, upc, wpc, cur, wgen, wok, wcalls, rets, done>> /\ Sched(Canc, "c_cancel")
\* a waiter parked in the select is woken with ok = FALSE
Targets == IF Sc.cancel = "all" THEN Waiters ELSE {Sc.cancel} \cap Waiters
Cancel == /\ cpc = "c_cancel" /\ cpc' = "done" /\ done' = Targets
          /\ wpc' = [w \in Waiters |-> IF wpc[w] = "Wp" /\ w \in Targets THEN "W6" ELSE wpc[w]]
          /\ wok' = [w \in Waiters |-> IF wpc[w] = "Wp" /\ w \in Targets THEN FALSE ELSE wok[w]]
          /\ UNCHANGED <<mS, L, status, assoc, open, gen, closed, opi, upc, cur, wgen, wcalls, rets>> /\ Sched(Canc, "done")

Next == \/ UStart \/ A1 \/ A2 \/ A2b \/ A3 \/ U1 \/ U1L \/ U2
        \/ \E w \in Waiters : WStart(w) \/ W1(w) \/ W2(w) \/ W3(w) \/ W4(w) \/ W5(w) \/ W6(w)
        \/ CStart \/ Cancel
Spec == Init /\ [][Next]_vars

Quiescent == ~ ENABLED Next
-----------------------------------------------------------------------------
\* C16
AtLockGate(w) == wpc[w] \in {"W1", "W2", "W3", "W6"}
NoDeadlock == Quiescent => /\ upc = "done"
                           /\ \A w \in Waiters : wpc[w] \in {"done", "Wp"}
NoMissedUpdate == Quiescent => \A w \in Waiters : wpc[w] = "Wp" => \A p \in assoc : cur[w][p] = status[p]
CancelReleases == Quiescent => \A w \in done : wpc[w] = "done"
\* script generation
Dump == Quiescent => PrintT(<<"SCRIPT", ToJson(h \o <<[d |-> "-", act |-> "final", to |-> "-", si |-> si,
                                   stuck |-> {w \in Waiters : wpc[w] # "done"}, upc |-> upc]>>)>>)
=============================================================================
