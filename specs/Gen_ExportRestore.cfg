SPECIFICATION GSpec
CONSTANTS
  MaxAcct = 6
  MaxSend = 2
  MaxExports = 2
  DupHeads = "skip"
  KeyCheck = "none"
  MaxOps = 5
  RestoresPer = 4
  Kinds = {"none", "used", "flip", "drop", "dup", "move", "trunc"}
  Ops = {"en", "dis", "rs", "enq", "sent", "recv", "disc", "acc", "blk", "unb", "join", "leave", "mmcreate", "msg", "meta"}
  Rich = FALSE
INVARIANTS Dump
CHECK_DEADLOCK FALSE
