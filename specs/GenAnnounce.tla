---------------------------- MODULE GenAnnounce ----------------------------
(* Script generation for Announce (C05a): one announcement, optional damage,  *)
(* one RegisterChainKey attempt - every (sender, group, recipient) triple x   *)
(* every opener x every group x every claimed sender; damaged announcements   *)
(* only against the otherwise legitimate attempt.                              *)
EXTENDS Announce, Json

VARIABLES h
gvars == <<vars, h>>
Rec(act, a) == h' = Append(h, [act |-> act, a |-> a, res |-> res'])

GInit == Init /\ h = <<>>
GAnnounce == \E s \in Stores, g \in Groups, r \in {"A", "B", "C"} :
               Announce(s, g, r) /\ Rec("announce", [s |-> s, g |-> g, r |-> r])
GDamage == \E t \in Tampers : Len(h) = 1 /\ Damage(t) /\ Rec("damage", [t |-> t])
GRegister == /\ ann # <<>> /\ h[Len(h)].act # "register"
             /\ \E o \in Stores, g \in Groups : \E c \in {DeviceKey(s, g) : s \in Stores} \cup {ann[1].sd} :
                  /\ (ann[1].tam # "none" => Legit([ann[1] EXCEPT !.tam = "none"], o, g, c))
                  /\ Register(o, g, c) /\ Rec("register", [o |-> o, g |-> g, c |-> c])
GNext == GAnnounce \/ GDamage \/ GRegister
GSpec == GInit /\ [][GNext]_gvars

Complete == Len(h) >= 2 /\ h[Len(h)].act = "register"
Dump == Complete => PrintT(<<"SCRIPT", ToJson(h)>>)
=============================================================================
