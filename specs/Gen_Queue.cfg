SPECIFICATION Spec
CONSTANTS
  SignalBuffered = TRUE
INVARIANTS Dump
CHECK_DEADLOCK FALSE
