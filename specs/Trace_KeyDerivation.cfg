SPECIFICATION TSpec
CONSTANTS
  Stores = {"S1", "S2", "S3", "S4", "S5", "S6", "S7", "S8", "S9"}
  Groups = {"g1", "g2"}
  MaxOps = 1000000
  MaxKey = 60
  CacheByPeer = TRUE
  CheckExists = TRUE
  CheckEqual = TRUE
  MemberFromProof = TRUE
  ProofPubIsAccount = TRUE
INVARIANTS C11_Contact C11_Member C11_Device C11_Import
CONSTRAINT Mark
POSTCONDITION Accepted
CHECK_DEADLOCK FALSE
