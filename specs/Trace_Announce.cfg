SPECIFICATION TSpec
CONSTANTS
  NonceBound = TRUE
INVARIANTS C05a_RightKey
CONSTRAINT Mark
POSTCONDITION Accepted
CHECK_DEADLOCK FALSE
