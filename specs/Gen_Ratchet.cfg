SPECIFICATION GSpec
CONSTANTS
  Dev = {"d1"}
  W = 2
  N = 2
  MaxSent = 3
  MaxLen = 4
  Phased = TRUE
  WithPush = TRUE
INVARIANTS Dump
CHECK_DEADLOCK FALSE
