SPECIFICATION MSpec
CONSTANTS
  W = 2
  Shared = TRUE
  SigCtx = FALSE
CONSTRAINT Mark
POSTCONDITION Accepted
CHECK_DEADLOCK FALSE
