------------------------- MODULE TraceMetaEnvelope -------------------------
(* Full-spec conformance for MetaEnvelope: every recorded call must be the   *)
(* Deliver action of the model with the observed outcome; in strict mode the *)
(* projected index (device -> member map, admins) must equal the model's.    *)
(* A rejection here is model drift, never a verdict.                         *)
EXTENDS MetaEnvelope, Json, IOUtils

TraceLog == ndJsonDeserialize(IOEnv.VERIF_TRACE)
Strict == IOEnv.VERIF_STRICT = "1"

VARIABLE l
tvars == <<vars, l>>

Ev == TraceLog[l]
Has(f) == f \in DOMAIN Ev
SetOf(s) == {s[i] : i \in DOMAIN s}
Consume(e) == l <= Len(TraceLog) /\ Ev.ev = e /\ l' = l + 1

Proj(st) == [devs |-> {<<p[1], p[2]>> : p \in SetOf(st.devs)}, admins |-> SetOf(st.admins)]
Keep == UNCHANGED <<flight, nmut, ndel, idx, applied, emitted, res>>

TReset == /\ Consume("reset")
          /\ idx' = IF Has("st") THEN Proj(Ev.st) ELSE [devs |-> {}, admins |-> {}]
          /\ applied' = {} /\ emitted' = {} /\ res' = [ok |-> TRUE]
          /\ UNCHANGED <<flight, nmut, ndel>>
\* the implementation's table holds exactly the protocol's event types
TTable == Consume("table") /\ SetOf(Ev.types) = Types /\ Keep
TOpen == /\ Consume("open") /\ Ev.ok \in Outcomes(Ev.tm) /\ Ev.eok = Ev.ok
         /\ (Ev.ok => Ev.rty = Ev.tm.ty /\ Ev.same) /\ Keep
TFlips == Consume("flips") /\ Ev.nacc = 0 /\ Ev.baseok /\ Keep
TAppend == /\ Consume("append")
           /\ LET ok == Ev.emr > 0 IN
                /\ Deliver(Ev.tm, ok)
                /\ Ev.emr = (IF ok THEN 1 ELSE 0) /\ Ev.gme = Ev.emr /\ Ev.listed = ok /\ Ev.stray = 0 /\ Ev.grew = 2
                /\ (Strict => idx' = Proj(Ev.st))
                /\ (~ok => Ev.pre = Ev.post)
           /\ UNCHANGED <<flight, nmut, ndel>>

TNext == TReset \/ TTable \/ TOpen \/ TFlips \/ TAppend
TInit == Init /\ l = 1 /\ TLCSet(42, 1)
TSpec == TInit /\ [][TNext]_tvars

Mark == TLCSet(42, IF l > TLCGet(42) THEN l ELSE TLCGet(42))
Accepted == LET hw == TLCGet(42) IN
              IF hw = Len(TraceLog) + 1 THEN TRUE
              ELSE /\ PrintT(<<"REJECTED", ToJson([high |-> hw - 1, line |-> TraceLog[hw]])>>)
                   /\ FALSE
=============================================================================
