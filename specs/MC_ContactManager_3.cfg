SPECIFICATION Spec
CONSTANTS
  Contacts = {"c1", "c2", "c3"}
  Kinds = {"good"}
  OpKinds = {"enq"}
  MaxOps = 3
  MaxSeed = 2
  MaxLk = 5
  MaxGen = 1
  WithRefused = FALSE
  ExitCancelsAny = TRUE
  OfferIgnoresCancel = TRUE
  StartIgnoresClose = TRUE
  LoopHandlesAfterClose = TRUE
  DisableKeepsLookups = TRUE
  BlockKeepsLookup = TRUE
  ClosedHandlerAppends = TRUE
INVARIANTS TypeOK IndexIsLog OldPointGone AnnounceIffEnabled OneSentPerEnqueue NeverSelf
VIEW view
CHECK_DEADLOCK FALSE
