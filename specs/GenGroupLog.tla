---------------------------- MODULE GenGroupLog ----------------------------
(* Script generation for GroupLog: operations by one or two devices, deliveries *)
(* of single heads (every split into batches in every order), reopen at every   *)
(* point, listings.  The driver does not use the model's predictions.           *)
EXTENDS GroupLog

CONSTANTS MaxLen, WithList, WithRaw, Ops   \* Ops: set of operation kinds used by this configuration
VARIABLE h
gvars == <<vars, h>>
Rec(act, d, s, x, y) == h' = Append(h, [act |-> act, d |-> d, s |-> s, x |-> x, y |-> y, res |-> res'])
CIdx(c) == CASE c = "c1" -> 1 [] c = "c2" -> 2 [] c = "c3" -> 3
GIdx(g) == CASE g = "g1" -> 1 [] g = "g2" -> 2

GInit == Init /\ h = <<>>
GNext == /\ Len(h) < MaxLen
         /\ \E d \in Devs :
              \/ \E op \in Ops \cap {"en", "dis", "rs", "msg", "adddev"} : SwitchOp(d, op) /\ Rec("op", d, op, 0, 0)
              \* a device writes to a contact / multi-member group only after it announced itself (as ActivateGroupContext does)
              \/ \E op \in Ops \cap {"alias", "secretA", "secretB", "meta", "claim"} :
                    /\ \E e \in have[d] : entries[e].ev = "adddev" /\ entries[e].w = d
                    /\ SwitchOp(d, op) /\ Rec("op", d, op, 0, 0)
              \/ \E op \in Ops \cap ContactEvs, c \in Contacts : ContactOp(d, op, c) /\ Rec("op", d, op, CIdx(c), 0)
              \/ \E op \in Ops \cap {"join", "leave"}, g \in Groups : GroupOp(d, op, g) /\ Rec("op", d, op, GIdx(g), 0)
              \/ \E e \in 1..MaxEntries : Deliver(d, e) /\ Rec("deliver", d, "-", e, 0)
              \/ (WithRaw /\ \E e \in 1..MaxEntries : DeliverRaw(d, e) /\ Rec("rdeliver", d, "-", e, 0))
              \/ (have[d] # {} /\ Reopen(d) /\ Rec("reopen", d, "-", 0, 0))
              \/ (WithList /\ have[d] # {} /\ \E since, until \in 0..(MaxEntries + 1), rev \in BOOLEAN :
                    List(d, since, until, rev) /\ Rec("list", d, IF rev THEN "rev" ELSE "fwd", since, until))
GSpec == GInit /\ [][GNext]_gvars
Dump == Len(h) = MaxLen => PrintT(<<"SCRIPT", ToJson(h)>>)
=============================================================================
