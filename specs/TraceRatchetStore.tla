-------------------------- MODULE TraceRatchetStore --------------------------
(***************************************************************************)
(* Full-spec conformance of recorded executions with RatchetStore.tla.     *)
(* A rejection here is model drift (recorded, never an alarm).             *)
(*  - sequential calls (C10 workloads, receiver phase of C09): one line    *)
(*    per exported call with the recorded mutation sequence; the sequence  *)
(*    must be exactly the call's mutation list computed by the spec        *)
(*    (SealPlan / OpenPlan / RegisterPlan: same classes, devices,          *)
(*    counters, same ORDER - a reordering is drift even when no crash      *)
(*    index exposes it), a strict prefix of it for the interrupted call;   *)
(*    the projected datastore state must equal the model state (strict);   *)
(*  - probes: what opens on a copy of the datastore = Openable of the spec;*)
(*  - concurrent SealEnvelope calls (C09): every chain-key read and every  *)
(*    mutation, in the wrapper's sequence order, is the corresponding      *)
(*    fine-grained step of its thread (so no other thread reads the chain  *)
(*    key between a thread's read and its write).                          *)
(***************************************************************************)
EXTENDS RatchetStore, Json, IOUtils

TraceLog == ndJsonDeserialize(IOEnv.VERIF_TRACE)
Strict == IOEnv.VERIF_STRICT = "1"

VARIABLES l, prev
tvars == <<vars, l, prev>>

Ev == TraceLog[l]
Has(f) == f \in DOMAIN Ev
SetOf(s) == {s[i] : i \in DOMAIN s}
Consume(e) == l <= Len(TraceLog) /\ Ev.ev = e /\ l' = l + 1

\* hint deletions are compared as a set (their order is an artefact of a swap-remove loop)
LabEq(m, o) == /\ m.cls = o.cls /\ m.kind = o.kind /\ m.d = o.d
               /\ IF m.cls = "hint" /\ m.kind = "del" THEN TRUE ELSE m.c = o.c /\ m.c2 = o.c2
HintDels(ms) == {ms[i].c : i \in {j \in DOMAIN ms : ms[j].cls = "hint" /\ ms[j].kind = "del"}}
PlanMatch(P, O, whole) ==
  /\ IF whole THEN Len(O) = Len(P) ELSE Len(O) < Len(P)
  /\ \A i \in DOMAIN O : LabEq(P[i], O[i])
  /\ IF whole THEN HintDels(O) = HintDels(P) ELSE HintDels(O) \subseteq HintDels(P)
Norm(O) == [i \in DOMAIN O |-> M(O[i].cls, O[i].kind, O[i].d, O[i].c, O[i].c2)]

StOK(s, d) == (Strict /\ Has("st")) =>
                /\ ds'[s].ck[d] = Ev.st.ck
                /\ ds'[s].pre[d] = SetOf(Ev.st.pre)
                /\ {q[2] : q \in {r \in ds'[s].cid : r[1] = d}} = SetOf(Ev.st.cid)
                /\ ds'[s].refs[d] = <<Ev.st.refs[1], Ev.st.refs[2]>>

Faithful == Ev.same /\ Ev.pdev /\ Ev.pk = Ev.x

\* one exported call = all (or, interrupted, the first) mutations of its list, applied at once
Call(P) == /\ up[Ev.s]
           /\ PlanMatch(P.plan, Ev.muts, ~Ev.crashed)
           /\ ds' = [ds EXCEPT ![Ev.s] = ApplyAll(@, Norm(Ev.muts))]
           /\ ~Ev.crashed => Ev.ok = P.ok
           /\ prev' = ds
           /\ StOK(Ev.s, Ev.d)

Rest == UNCHANGED <<up, cur, thr, lock, gen, inuse, qo, crashes, nops, lab>>

TReset == /\ Consume("reset")
          /\ ds' = [s \in Dev |-> EmptyStore] /\ up' = [s \in Dev |-> TRUE]
          /\ cur' = Idle /\ thr' = [t \in Thr |-> TIdle] /\ lock' = [s \in Dev |-> "none"] /\ gen' = 1
          /\ ret' = [d \in Dev |-> {}] /\ dupl' = [d \in Dev |-> {}] /\ anns' = [d \in Dev |-> {}]
          /\ opened' = [s \in Dev |-> {}] /\ regAt' = [s \in Dev |-> [d \in Dev |-> -1]]
          /\ inuse' = [s \in Dev |-> [n \in KeyNames |-> 0]] /\ qo' = [s \in Dev |-> {}]
          /\ crashes' = 0 /\ nops' = 0 /\ res' = [ok |-> TRUE] /\ lab' = NoLab /\ prev' = ds'

TSeal == /\ Consume("seal")
         /\ LET P == SealPlan(ds[Ev.s], Ev.d) IN
              /\ Call(P)
              /\ Ev.crashed => ~Ev.ok
              /\ Ev.ok => Ev.k = P.k
              /\ res' = [ok |-> Ev.ok, k |-> Ev.k]
         /\ IF Ev.ok THEN Handed(Ev.d, Ev.k) ELSE UNCHANGED <<ret, dupl>>
         /\ anns' = IF Ev.ok THEN [anns EXCEPT ![Ev.d] = @ \cup {Ev.k}] ELSE anns
         /\ UNCHANGED <<opened, regAt>> /\ Rest

TOpen == /\ Consume("open")
         /\ Call(OpenPlan(ds[Ev.s], Ev.s, Ev.d, Ev.x))
         /\ Ev.ok => Faithful
         /\ opened' = IF Ev.ok THEN [opened EXCEPT ![Ev.s] = @ \cup {<<Ev.d, Ev.x>>}] ELSE opened
         /\ res' = [ok |-> Ev.ok, k |-> Ev.x]
         /\ UNCHANGED <<ret, dupl, anns, regAt>> /\ Rest

TRegister == /\ Consume("register")
             /\ Call(RegisterPlan(ds[Ev.s], Ev.s, Ev.d, Ev.x))
             /\ regAt' = IF \E i \in DOMAIN Ev.muts : Ev.muts[i].cls = "chainKey"
                           THEN [regAt EXCEPT ![Ev.s][Ev.d] = Ev.x] ELSE regAt
             /\ res' = [ok |-> Ev.ok, k |-> Ev.x]
             /\ UNCHANGED <<ret, dupl, anns, opened>> /\ Rest

\* set-up calls (account creation, PutGroup + GetOwnMemberDeviceForGroup): get-or-generate named keys in
\* any order, the group record once, the own chain key (counter 0) last and only when the group is stored
JoinMutOK(O, i, D, s) ==
  IF O[i].cls = "keystore"
    THEN O[i].kind = "put" /\ O[i].d \in KeyNames /\ D.nk[O[i].d] = 0
         /\ \A j \in 1..(i - 1) : ~(O[j].cls = "keystore" /\ O[j].d = O[i].d)
  ELSE IF O[i].cls = "group"
    THEN Ev.full /\ ~D.grp /\ \A j \in 1..(i - 1) : O[j].cls # "group"
  ELSE IF O[i].cls = "chainKey"
    THEN Ev.full /\ O[i].kind = "put" /\ O[i].d = s /\ O[i].c = 0 /\ D.ck[s] = -1 /\ i = Len(O)
         /\ (IF D.grp THEN TRUE ELSE \E j \in 1..(i - 1) : O[j].cls = "group")
  ELSE FALSE
JoinApply(D, O, s) ==
  [D EXCEPT !.nk = [n \in KeyNames |-> IF \E i \in DOMAIN O : O[i].cls = "keystore" /\ O[i].d = n THEN 1 ELSE @[n]],
            !.grp = IF \E i \in DOMAIN O : O[i].cls = "group" THEN TRUE ELSE @,
            !.ck = [@ EXCEPT ![s] = IF \E i \in DOMAIN O : O[i].cls = "chainKey" THEN 0 ELSE @]]
TJoin == /\ Consume("join") /\ up[Ev.s]
         /\ \A i \in DOMAIN Ev.muts : JoinMutOK(Ev.muts, i, ds[Ev.s], Ev.s)
         /\ ds' = [ds EXCEPT ![Ev.s] = JoinApply(@, Ev.muts, Ev.s)]
         /\ (~Ev.crashed) => Ev.ok /\ (Ev.full => ds'[Ev.s].grp /\ ds'[Ev.s].ck[Ev.s] # -1)
         /\ prev' = ds /\ StOK(Ev.s, Ev.d)
         /\ anns' = IF Ev.full /\ Ev.ok THEN [anns EXCEPT ![Ev.s] = @ \cup {ds'[Ev.s].ck[Ev.s]}] ELSE anns
         /\ res' = [ok |-> Ev.ok, k |-> 0]
         /\ UNCHANGED <<ret, dupl, opened, regAt>> /\ Rest

TCrash == /\ Consume("crash") /\ up[Ev.s]
          /\ up' = [up EXCEPT ![Ev.s] = FALSE] /\ crashes' = crashes + 1
          /\ UNCHANGED <<ds, cur, thr, lock, gen, ret, dupl, anns, opened, regAt, inuse, qo, nops, res, lab, prev>>
\* a restart after a stop, or the clean restart the driver makes at the end of a run (idle store, datastore
\* as it is): the model's state does not change in the second case
TRestart == /\ Consume("restart")
            /\ up' = [up EXCEPT ![Ev.s] = TRUE]
            /\ UNCHANGED <<ds, cur, thr, lock, gen, ret, dupl, anns, opened, regAt, inuse, qo, crashes, nops, res, lab, prev>>
TProbes == /\ Consume("probes")
           /\ LET D == IF Ev.phase = "pre" THEN prev[Ev.s] ELSE ds[Ev.s]
              IN SetOf(Ev.open) = {p \in SetOf(Ev.all) : OpenableIn(D, p[1], p[2])}
           /\ UNCHANGED <<vars, prev>>
TSkip == /\ (Consume("keys") \/ Consume("end"))
         /\ UNCHANGED <<vars, prev>>

\* ---- concurrent SealEnvelope calls: thread steps
TTBegin == Consume("tbegin") /\ Ev.d = D0 /\ TBegin(Ev.t) /\ UNCHANGED prev
TTGet == /\ Consume("get") /\ Ev.s = D0 /\ Ev.d = D0
         /\ (TGet1(Ev.t) \/ TGet2(Ev.t) \/ TGet3(Ev.t))
         /\ lab'.c = Ev.c /\ UNCHANGED prev
TTPut == /\ Consume("put") /\ Ev.s = D0
         /\ (TPutPre(Ev.t) \/ TPutCk(Ev.t))
         /\ LabEq(lab', Ev) /\ UNCHANGED prev
TTRet == Consume("tret") /\ Ev.d = D0 /\ TRet(Ev.t) /\ res'.k = Ev.k /\ Ev.ok /\ UNCHANGED prev

TrNext == TReset \/ TSeal \/ TOpen \/ TRegister \/ TJoin \/ TCrash \/ TRestart \/ TProbes \/ TSkip
         \/ TTBegin \/ TTGet \/ TTPut \/ TTRet
TrInit == Init /\ l = 1 /\ prev = ds /\ TLCSet(42, 1)
TSpec == TrInit /\ [][TrNext]_tvars

Mark == TLCSet(42, IF l > TLCGet(42) THEN l ELSE TLCGet(42))
Accepted == LET hw == TLCGet(42) IN
              IF hw = Len(TraceLog) + 1 THEN TRUE
              ELSE /\ PrintT(<<"REJECTED", ToJson([high |-> hw - 1, line |-> TraceLog[hw]])>>)
                   /\ FALSE
=============================================================================
