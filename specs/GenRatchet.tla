---------------------------- MODULE GenRatchet ----------------------------
(* Script generation for Ratchet: the same actions plus a history variable.  *)
(* Every distinct behaviour is a distinct state, so TLC's search enumerates  *)
(* behaviours; complete ones are printed as JSON for the Go driver.          *)
EXTENDS Ratchet, Json

CONSTANTS WithPush, \* include push / reference actions (C14) or log path only (C02)
          MaxLen,   \* number of receiver-side steps per script
          Phased    \* TRUE: sender prefix (n seals, announcement at a) then receiver steps only

VARIABLES h, rlen

gvars == <<vars, h, rlen>>

Rec(act, d, x) == h' = Append(h, [act |-> act, d |-> d, x |-> x, res |-> res'])

GInit == Init /\ h = <<>> /\ rlen = 0

\* sender-side steps are free while no receiver step was taken (Phased) or always (not Phased)
SendStep(d) == /\ (Phased => rlen = 0)
               /\ \/ Seal(d) /\ Rec("seal", d, 0)
                  \/ sent[d] \notin anns[d] /\ Announce(d) /\ Rec("announce", d, 0)
               /\ UNCHANGED rlen
RecvStep(d) == /\ rlen < MaxLen
               /\ (Phased => \A e \in Dev : sent[e] > 0 /\ anns[e] # {})
               /\ rlen' = rlen + 1
               /\ \/ \E a \in anns[d] : Register(d, a) /\ Rec("register", d, a)
                  \/ \E k \in 1..sent[d] : Open(d, k) /\ Rec("open", d, k)
                  \/ (WithPush /\ \E k \in 1..sent[d] : Push(d, k) /\ Rec("push", d, k))
                  \/ (WithPush /\ ~Phased /\ \E x \in {sent[d], IF ck[d] < 0 THEN 0 ELSE ck[d]} : UpdateRefs(d, x) /\ Rec("refs", d, x))
\* in phased mode a device announces at most twice (to exercise older/newer re-registration)
AnnBound == \A d \in Dev : Cardinality(anns[d]) <= 2
GNext == (\E d \in Dev : SendStep(d) \/ RecvStep(d)) /\ AnnBound'
GSpec == GInit /\ [][GNext]_gvars

Complete == rlen = MaxLen
Dump == Complete => PrintT(<<"SCRIPT", ToJson(h)>>)
=============================================================================
