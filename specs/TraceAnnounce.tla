---------------------------- MODULE TraceAnnounce ----------------------------
(* Full-spec conformance for Announce: every recorded call is the corresponding *)
(* action of Announce.tla with the observed outcome and "known" set projection. *)
EXTENDS Announce, Json, IOUtils

TraceLog == ndJsonDeserialize(IOEnv.VERIF_TRACE)
Strict == IOEnv.VERIF_STRICT = "1"
VARIABLE l
tvars == <<vars, l>>
Ev == TraceLog[l]
Has(f) == f \in DOMAIN Ev
Consume(e) == l <= Len(TraceLog) /\ Ev.ev = e /\ l' = l + 1

TReset == /\ Consume("reset") /\ ann' = <<>>
          /\ known' = [s \in Stores |-> Own(s)]
          /\ src' = [s \in Stores |-> [x \in Own(s) |-> <<x[2], x[1]>>]]
          /\ res' = [act |-> "init", ok |-> TRUE]
TAnnounce == Consume("announce") /\ Announce(Ev.s, Ev.g, Ev.r) /\ ann'[1].sd = Ev.sd /\ ann'[1].rm = Ev.rm
TDamage == Consume("damage") /\ Damage(Ev.t)
\* every concretisation (bit, cut) of a damaged announcement is the same abstract attempt
TRegister == /\ Consume("register") /\ Register(Ev.o, Ev.g, Ev.c) /\ res'.ok = Ev.ok
             /\ (Strict => (Ev.after <=> <<Ev.g, Ev.c>> \in known'[Ev.o]))
             /\ (Strict => (Ev.before <=> <<Ev.g, Ev.c>> \in known[Ev.o]))
             /\ (Strict => (Legit(ann[1], Ev.o, Ev.g, Ev.c) <=> (Ev.holds /\ Ev.csend /\ Ev.sameg /\ Ev.tam = "none")))
TNext == TReset \/ TAnnounce \/ TDamage \/ TRegister
TInit == Init /\ l = 1 /\ TLCSet(42, 1)
TSpec == TInit /\ [][TNext]_tvars

Mark == TLCSet(42, IF l > TLCGet(42) THEN l ELSE TLCGet(42))
Accepted == LET hw == TLCGet(42) IN
              IF hw = Len(TraceLog) + 1 THEN TRUE
              ELSE /\ PrintT(<<"REJECTED", ToJson([high |-> hw - 1, line |-> TraceLog[hw]])>>)
                   /\ FALSE
=============================================================================
