--------------------------- MODULE GenContactApi ---------------------------
(* Script generation for ContactApi: every request of the alphabet Ops (with every   *)
(* argument variant of Bad and every optional-value combination of Ys) on every      *)
(* contact, service restarts at any point when WithRestart.  All requests are total  *)
(* (accepted or refused), so with MaxLog >= 2 * MaxLen every history reaches MaxLen: *)
(* the complete behaviours printed are ALL sequences of that length, their prefixes  *)
(* are covered because the driver records every step.  The driver does not use the   *)
(* model's predictions (res).                                                        *)
EXTENDS ContactApi, Json

CONSTANTS MaxLen, Ops, WithRestart
VARIABLE h
gvars == <<vars, h>>

CIdx(c) == CHOOSE i \in 1..Cardinality(Contacts) + 9 : c = "c" \o ToString(i)
Name(op, v) == IF v = "" THEN op ELSE op \o "!" \o v
Rec(act, s, x, y) == h' = Append(h, [act |-> act, d |-> "rpc", s |-> s, x |-> x, y |-> y, res |-> res'])

GInit == Init /\ h = <<>>
GNext == /\ Len(h) < MaxLen
         /\ \/ \E op \in Ops \cap ContactOps, c \in Contacts : \E v \in Variants(op) :
                 \E y \in (IF op \in {"enq", "recv"} /\ v \notin BadVariants(op) THEN Ys ELSE {CHOOSE z \in Ys : TRUE}) :
                    ContactOp(op, c, v, y) /\ Rec("op", Name(op, v), CIdx(c), y)
            \/ \E op \in Ops \cap SwitchOps : SwitchOp(op) /\ Rec("op", op, 0, 0)
            \/ ("ref" \in Ops /\ Reference /\ Rec("op", "ref", 0, 0))
            \/ ("share" \in Ops /\ Share /\ Rec("op", "share", 0, 0))
            \/ (WithRestart /\ Len(h) > 0 /\ h[Len(h)].act # "restart" /\ Restart /\ Rec("restart", "-", 0, 0))
GSpec == GInit /\ [][GNext]_gvars
Dump == Len(h) = MaxLen => PrintT(<<"SCRIPT", ToJson(h)>>)
=============================================================================
