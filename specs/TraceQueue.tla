----------------------------- MODULE TraceQueue -----------------------------
(* Full-spec conformance for Queue.tla: every controlled step recorded on the   *)
(* real SimpleQueue must be the model's step of that thread, ending at the same  *)
(* gate (labels mapped to pc values by checks/queue_check.py) with the same      *)
(* queue content, returned items and buffered signal.  Rejection = model drift.  *)
EXTENDS Queue, IOUtils

TraceLog == ndJsonDeserialize(IOEnv.VERIF_TRACE)
VARIABLE l
tvars == <<vars, l>>
Ev == TraceLog[l]
Consume(e) == l <= Len(TraceLog) /\ Ev.ev = e /\ l' = l + 1

ThreadStep(t) == \/ Start(t)
                 \/ (t \in Producers /\ (ALock(t) \/ ASel(t)))
                 \/ (t = Cons /\ (WLock \/ WSel))
                 \/ (t = Canc /\ Cancel)

TReset == /\ Consume("reset") /\ UNCHANGED vars
TCfg == /\ Consume("cfg")
        /\ si' = Ev.scen
        /\ list' = <<>> /\ mu' = "none" /\ sigbuf' = 0
        /\ pc' = [t \in (DOMAIN Scenarios[Ev.scen].items) \cup {Cons} \cup (IF Scenarios[Ev.scen].cancel THEN {Canc} ELSE {}) |-> "start"]
        /\ idx' = [p \in DOMAIN Scenarios[Ev.scen].items |-> 1]
        /\ got' = <<>> /\ rets' = 0 /\ lastok' = TRUE /\ done' = FALSE /\ pushed' = <<>> /\ h' = <<>>
TStep == /\ Consume("step") /\ Ev.ok /\ Ev.p
         /\ ThreadStep(Ev.t)
         /\ pc'[Ev.t] = Ev.topc /\ list' = Ev.list /\ got' = Ev.got /\ sigbuf' = Ev.sig
\* a granted thread that made no progress: it failed to take a lock the model also sees held
TNoProgress == /\ Consume("step") /\ (~Ev.ok \/ ~Ev.p)
               /\ (Ev.ok => mu # "none")
               /\ UNCHANGED vars
TFinal == /\ Consume("final") /\ Quiescent
          /\ list = Ev.list /\ got = Ev.got
          /\ UNCHANGED vars
TNext == TReset \/ TCfg \/ TStep \/ TNoProgress \/ TFinal
TInit == Init /\ l = 1 /\ TLCSet(42, 1)
TSpec == TInit /\ [][TNext]_tvars
Mark == TLCSet(42, IF l > TLCGet(42) THEN l ELSE TLCGet(42))
Accepted == LET hw == TLCGet(42) IN
              IF hw = Len(TraceLog) + 1 THEN TRUE
              ELSE /\ PrintT(<<"REJECTED", ToJson([high |-> hw - 1, line |-> TraceLog[hw]])>>)
                   /\ FALSE
=============================================================================
