SPECIFICATION GSpec
CONSTANTS
  Peers = {"a", "b"}
  Topics = {"t1"}
  Seeds = {"s1", "s2"}
  I = 2
  G = 2
  Gmin = 1
  Sec = 0
  Steps = {1}
  T = 6
  MaxTicks = 4
  ImplExpired = "ttl_gt_0"
  MaxLen = 4
  FirstPeer = "a"
  FirstTopic = "t1"
  FirstSeed = "s1"
INVARIANTS Dump
CHECK_DEADLOCK FALSE
