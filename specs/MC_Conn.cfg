SPECIFICATION Spec
CONSTANTS
  Peers = {"p1", "p2"}
  Impl = "fixed"
INVARIANTS NoDeadlock NoMissedUpdate CancelReleases
VIEW view
CHECK_DEADLOCK FALSE
