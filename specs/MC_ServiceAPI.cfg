SPECIFICATION Spec
CONSTANTS
  Impl <- ImplCurrent
INVARIANTS TypeOK NoPanic ErrWhenRequired
PROPERTIES ContactGroupNeedsAccount
CONSTRAINT MCBound
VIEW view
CHECK_DEADLOCK FALSE
