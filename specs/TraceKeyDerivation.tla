-------------------------- MODULE TraceKeyDerivation --------------------------
(***************************************************************************)
(* Full-spec conformance of recorded executions with KeyDerivation.tla:    *)
(* every recorded call is the spec's action, and the numbers observed      *)
(* (interned bytes) are in one-to-one correspondence with the symbolic     *)
(* values the spec computes (bind: symbolic term <-> observed number).     *)
(* A rejection is model drift, never an alarm.                             *)
(* ProofPubIsAccount [TRUE in the current tree]: GetAccountProofPublicKey  *)
(* returns the public key of the ACCOUNT key (secret_store.go), not of the *)
(* proof key its name and doc comment announce.                            *)
(***************************************************************************)
EXTENDS KeyDerivation, Json, IOUtils

CONSTANTS ProofPubIsAccount

TraceLog == ndJsonDeserialize(IOEnv.VERIF_TRACE)

VARIABLES l, bind
tvars == <<vars, l, bind>>

Ev == TraceLog[l]
Consume(e) == l <= Len(TraceLog) /\ Ev.ev = e /\ l' = l + 1

KeyT(n) == "k" \o ToString(n)          \* public key of generated key n ("k0" = none)
SeedT(n) == "seed" \o ToString(n)      \* seed of generated key n (the account group's secret)
BlobT(n) == "blob" \o ToString(n)      \* marshalled private key n
GrpT(v) == "cg" \o ToString(v[1]) \o "_" \o ToString(v[2])
MemT(m) == "m" \o ToString(m[1]) \o "_" \o m[2]

ZeroT == {"k0", "seed0", "blob0"}     \* "no key" is observed as 0
Consistent(B) == \A x, y \in B : (x[1] = y[1]) <=> (x[2] = y[2])
Bind(P) == LET Q == {x \in P : x[1] \notin ZeroT /\ x[2] # 0} IN
             /\ \A x \in P : (x[1] \in ZeroT) <=> (x[2] = 0)
             /\ Consistent(bind \cup Q) /\ bind' = bind \cup Q
Held(s) == {<<KeyT(ks'[s].acct), Ev.acct>>, <<KeyT(ks'[s].proof), Ev.proof>>}
Bind0 == {}

TReset == /\ Consume("reset")
          /\ ks' = [s \in Stores |-> EmptyKS] /\ gen' = 0 /\ exp' = [s \in Stores |-> <<0, 0>>]
          /\ oc' = {} /\ om' = {} /\ imp' = {} /\ nops' = 0 /\ res' = [ok |-> TRUE]
          /\ bind' = Bind0

TAccount == /\ Consume("account") /\ AccountGroup(Ev.s) /\ Ev.ok
            /\ Bind(Held(Ev.s) \cup {<<KeyT(res'.acct), Ev.gid>>, <<SeedT(res'.proof), Ev.gsecret>>,
                                     <<KeyT(res'.acct), Ev.member>>, <<KeyT(res'.dev), Ev.device>>,
                                     <<KeyT(IF ProofPubIsAccount THEN res'.acct ELSE res'.proof), Ev.proofpub>>})
            /\ Ev.gtype = 1
TContact == /\ Consume("contact") /\ ContactGroup(Ev.s, Ev.d) /\ Ev.ok
            /\ Bind(Held(Ev.s) \cup {<<GrpT(res'.grp), Ev.grp>>, <<KeyT(ks[Ev.d].acct), Ev.peer>>})
            /\ Ev.gtype = 2
TMember == /\ Consume("member") /\ MemberDevice(Ev.s, Ev.g) /\ Ev.ok
           /\ Bind(Held(Ev.s) \cup {<<MemT(res'.member), Ev.member>>, <<KeyT(res'.dev), Ev.device>>})
TExport == /\ Consume("export") /\ Export(Ev.s) /\ Ev.ok
           /\ Bind(Held(Ev.s) \cup {<<BlobT(res'.a), Ev.a>>, <<BlobT(res'.p), Ev.p>>,
                                    <<KeyT(res'.a), Ev.apub>>, <<KeyT(res'.p), Ev.ppub>>})
AbsKind == IF Ev.kind \in {"valid", "swapped", "equal"} THEN Ev.kind ELSE "bad"
TImport == /\ Consume("import") /\ Import(Ev.s, Ev.d, AbsKind) /\ res'.ok = Ev.ok
           /\ Bind(Held(Ev.s))

TrNext == TReset \/ TAccount \/ TContact \/ TMember \/ TExport \/ TImport
TrInit == Init /\ l = 1 /\ bind = Bind0 /\ TLCSet(42, 1)
TSpec == TrInit /\ [][TrNext]_tvars

Mark == TLCSet(42, IF l > TLCGet(42) THEN l ELSE TLCGet(42))
Accepted == LET hw == TLCGet(42) IN
              IF hw = Len(TraceLog) + 1 THEN TRUE
              ELSE /\ PrintT(<<"REJECTED", ToJson([high |-> hw - 1, line |-> TraceLog[hw]])>>)
                   /\ FALSE
=============================================================================
