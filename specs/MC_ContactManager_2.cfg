SPECIFICATION Spec
CONSTANTS
  Contacts = {"c1", "c2"}
  Kinds = {"good"}
  OpKinds = {"enq", "sent", "blk"}
  MaxOps = 3
  MaxSeed = 2
  MaxLk = 4
  MaxGen = 2
  WithRefused = FALSE
  ExitCancelsAny = TRUE
  OfferIgnoresCancel = TRUE
  StartIgnoresClose = TRUE
  LoopHandlesAfterClose = TRUE
  DisableKeepsLookups = TRUE
  BlockKeepsLookup = TRUE
  ClosedHandlerAppends = TRUE
INVARIANTS TypeOK IndexIsLog OldPointGone AnnounceIffEnabled OneSentPerEnqueue NeverSelf
VIEW view
CHECK_DEADLOCK FALSE
