SPECIFICATION Spec
CONSTANTS
  Devs = {"d1", "d2"}
  ParkUnderLock = TRUE
  RequeueAll = TRUE
  SignalBuffered = TRUE
INVARIANTS NoStranded AllDelivered AtMostOnce OnlyDecryptable NoDeadlock
VIEW view
CHECK_DEADLOCK FALSE
