----------------------------- MODULE Rendezvous -----------------------------
(***************************************************************************)
(* Rotating rendezvous points of pkg/rendezvous (rendezvous.go,            *)
(* rotation.go) for two peers, discrete time.                              *)
(*                                                                         *)
(* Time is counted in ticks; a rotation period is I ticks;                 *)
(* Period(t) = t \div I.  A point is [topic, seed, per]: its rotation      *)
(* value is Digest(topic, seed, per), a keyed digest assumed injective     *)
(* (checked on the real function by the monitor), so the triple stands for *)
(* the value; its deadline is the start of the next period.                *)
(* Per peer (one RotationInterval):                                        *)
(*   ct  cacheTopics    : topic -> point (NoPt: none)                      *)
(*   cr  cacheRotations : set of points (keyed by their rotation value)    *)
(*   tm  pending clean-up timers of rotate(): [due, pt] deletes pt from cr *)
(* Actions = exported calls: Register (RegisterRotation at the current     *)
(* time), Resolve (PointForTopic), Accept (PointForRawRotation of a value  *)
(* received from the other peer, e.g. through the head-exchange            *)
(* marshaler), Tick.  Timers fire as soon as they are due (the runtime     *)
(* does that promptly): after the call that armed them if already due,     *)
(* otherwise during the Tick that reaches them.                            *)
(*                                                                         *)
(* Implementation choices of the current tree:                             *)
(*   ImplExpired  "ttl_gt_0": Point.IsExpired is `TTL() > 0` as written;   *)
(*                "ttl_le_0": the deadline has passed                      *)
(*   G            grace period rotate() is called with, in ticks           *)
(*                (DefaultRotationInterval = 24 h, counted from the new    *)
(*                point's deadline)                                        *)
(*   Sec          one second in ticks, rounded down (NextPoint of a live   *)
(*                point is the point at deadline + 1 s)                    *)
(* Gmin = the grace the property promises (RotationGracePeriod, from the   *)
(* start of the period rotated into).                                      *)
(***************************************************************************)
EXTENDS Integers, FiniteSets, Sequences, TLC

CONSTANTS Peers, Topics, Seeds,
          I, G, Gmin, Sec,
          Steps,      \* tick increments
          T,          \* time bound
          MaxTicks,   \* number of Tick actions
          ImplExpired

VARIABLES now, ticks, ct, cr, tm,
          vals,            \* points returned so far (what peers may send each other)
          reg, regset,     \* history: latest seed registered per topic; all (topic, seed) registered
          held, prev,      \* history: value a peer currently uses for a topic; the one before
          res

vars == <<now, ticks, ct, cr, tm, vals, reg, regset, held, prev, res>>
view == <<now, ticks, ct, cr, tm, vals, reg, regset, held, prev>>

NoPt == [topic |-> "-", seed |-> "-", per |-> -1]
NoPrev == [pt |-> NoPt, until |-> 0]
Max(a, b) == IF a > b THEN a ELSE b
Period(t) == t \div I
Deadline(pt) == (pt.per + 1) * I
Expired(pt) == IF ImplExpired = "ttl_gt_0" THEN Deadline(pt) - now > 0 ELSE Deadline(pt) - now <= 0
NewPt(at, topic, seed) == [topic |-> topic, seed |-> seed, per |-> at \div I]
NextPt(pt) == IF Expired(pt) THEN NewPt(now, pt.topic, pt.seed)
              ELSE NewPt(Deadline(pt) + Sec, pt.topic, pt.seed)

\* values a peer may be handed: anything returned so far, and current-period digests of
\* every topic/seed incl. a topic nobody registers
Unknown == "tx"
Cands == vals \cup {[topic |-> t, seed |-> s, per |-> Period(now)] : t \in Topics \cup {Unknown}, s \in Seeds}

Init == /\ now = 0 /\ ticks = 0
        /\ ct = [p \in Peers |-> [t \in Topics |-> NoPt]]
        /\ cr = [p \in Peers |-> {}] /\ tm = [p \in Peers |-> {}]
        /\ vals = {}
        /\ reg = [p \in Peers |-> [t \in Topics |-> "-"]] /\ regset = [p \in Peers |-> {}]
        /\ held = [p \in Peers |-> [t \in Topics |-> NoPt]]
        /\ prev = [p \in Peers |-> [t \in Topics |-> NoPrev]]
        /\ res = [act |-> "init"]

\* timers due at time t fire: the old rotation value leaves cacheRotations
Fire(crp, tmp, t) == LET due == {x \in tmp : x.due <= t}
                     IN <<crp \ {x.pt : x \in due}, tmp \ due>>

\* rotate(old) on the caches of one peer; yields <<new point, ct, cr, tm>>
Rot(p, old) == LET new == NextPt(old)
               IN <<new,
                    [ct[p] EXCEPT ![new.topic] = new],
                    cr[p] \cup {new},
                    tm[p] \cup {[due |-> Max(Deadline(new) + G, now), pt |-> old]}>>

\* a call returned point w for topic: the peer now uses w
Use(p, topic, w) ==
  IF held[p][topic] = w \/ w = NoPt THEN UNCHANGED <<held, prev>>
  ELSE /\ held' = [held EXCEPT ![p][topic] = w]
       /\ prev' = IF held[p][topic] = NoPt THEN prev
                  ELSE [prev EXCEPT ![p][topic] = [pt |-> held[p][topic], until |-> w.per * I + Gmin]]

\* RegisterRotation(now, topic, seed).  A peer uses one seed per topic (the seed is derived
\* from the group the topic belongs to); re-registering, also in a later period, is allowed.
Register(p, topic, seed) ==
  LET pt == NewPt(now, topic, seed) IN
  /\ reg[p][topic] \in {"-", seed}
  /\ ct' = [ct EXCEPT ![p][topic] = pt]
  /\ cr' = [cr EXCEPT ![p] = @ \cup {pt}]
  /\ reg' = [reg EXCEPT ![p][topic] = seed]
  /\ regset' = [regset EXCEPT ![p] = @ \cup {<<topic, seed>>}]
  /\ held' = [held EXCEPT ![p][topic] = pt]
  /\ res' = [act |-> "register", ok |-> TRUE, pt |-> pt, want |-> NoPt, must |-> "open"]
  /\ UNCHANGED <<now, ticks, tm, vals, prev>>

\* PointForTopic
Resolve(p, topic) ==
  LET old == ct[p][topic]
      want == IF reg[p][topic] = "-" THEN NoPt ELSE NewPt(now, topic, reg[p][topic])
  IN IF old = NoPt
       THEN /\ res' = [act |-> "resolve", ok |-> FALSE, pt |-> NoPt, want |-> want, must |-> "open"]
            /\ UNCHANGED <<now, ticks, ct, cr, tm, vals, reg, regset, held, prev>>
       ELSE LET r == IF Expired(old) THEN Rot(p, old) ELSE <<old, ct[p], cr[p], tm[p]>>
                f == Fire(r[3], r[4], now)
            IN /\ ct' = [ct EXCEPT ![p] = r[2]]
               /\ cr' = [cr EXCEPT ![p] = f[1]] /\ tm' = [tm EXCEPT ![p] = f[2]]
               /\ vals' = vals \cup {r[1]}
               /\ Use(p, topic, r[1])
               /\ res' = [act |-> "resolve", ok |-> TRUE, pt |-> r[1], want |-> want, must |-> "open"]
               /\ UNCHANGED <<now, ticks, reg, regset>>

\* PointForRawRotation of value v
Accept(p, v) ==
  LET mustAcc == \E t \in Topics : \/ held[p][t] = v /\ v.per = Period(now)
                                   \/ prev[p][t].pt = v /\ now < prev[p][t].until
      mustRef == <<v.topic, v.seed>> \notin regset[p]
      must == IF mustAcc THEN "acc" ELSE IF mustRef THEN "ref" ELSE "open"
  IN IF v \notin cr[p]
       THEN /\ res' = [act |-> "accept", ok |-> FALSE, pt |-> NoPt, want |-> v, must |-> must]
            /\ UNCHANGED <<now, ticks, ct, cr, tm, vals, reg, regset, held, prev>>
       ELSE LET r == IF Expired(v) THEN Rot(p, v) ELSE <<v, ct[p], cr[p], tm[p]>>
                f == Fire(r[3], r[4], now)
            IN /\ ct' = [ct EXCEPT ![p] = r[2]]
               /\ cr' = [cr EXCEPT ![p] = f[1]] /\ tm' = [tm EXCEPT ![p] = f[2]]
               /\ vals' = vals \cup {r[1]}
               \* a different point came back: the peer rotated to it
               /\ IF r[1] # v THEN Use(p, r[1].topic, r[1]) ELSE UNCHANGED <<held, prev>>
               /\ res' = [act |-> "accept", ok |-> TRUE, pt |-> r[1], want |-> v, must |-> must]
               /\ UNCHANGED <<now, ticks, reg, regset>>

Tick(dt) ==
  /\ ticks < MaxTicks /\ now + dt <= T
  /\ now' = now + dt /\ ticks' = ticks + 1
  /\ cr' = [p \in Peers |-> Fire(cr[p], tm[p], now + dt)[1]]
  /\ tm' = [p \in Peers |-> Fire(cr[p], tm[p], now + dt)[2]]
  /\ res' = [act |-> "tick", ok |-> TRUE, pt |-> NoPt, want |-> NoPt, must |-> "open"]
  /\ UNCHANGED <<ct, vals, reg, regset, held, prev>>

Next == \/ \E p \in Peers, t \in Topics, s \in Seeds : Register(p, t, s)
        \/ \E p \in Peers, t \in Topics : Resolve(p, t)
        \/ \E p \in Peers : \E v \in Cands : Accept(p, v)
        \/ \E dt \in Steps : Tick(dt)
Spec == Init /\ [][Next]_vars

\* ---------------- properties (C17), over the outcome of the last call
\* a registered topic resolves to the point of the period containing now (its deadline is then
\* in the future), under the seed registered last
P_Resolve == (res.act = "resolve" /\ res.want # NoPt) =>
               /\ res.ok /\ res.pt = res.want /\ Deadline(res.pt) > now
\* a value the peer uses in the current period (own or the other peer's: they are equal), and
\* its previous value during the grace period, are accepted and map back to the topic
P_Accept == (res.act = "accept" /\ res.must = "acc") => (res.ok /\ res.pt.topic = res.want.topic)
\* values of a topic/seed pair the peer never registered are refused
P_Refuse == (res.act = "accept" /\ res.must = "ref") => ~res.ok
P_Topic  == (res.act = "accept" /\ res.ok) => res.pt.topic = res.want.topic
TypeOK == now \in 0..T /\ ticks \in 0..MaxTicks
=============================================================================
