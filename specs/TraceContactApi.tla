-------------------------- MODULE TraceContactApi --------------------------
(* Full-spec conformance for ContactApi (model drift, never a verdict): every     *)
(* recorded step of the real service must be the corresponding ContactApi action  *)
(* with the model's outcome and - in strict mode - the model's state: contact     *)
(* states and details, switch and seed, and which contact groups the secret store *)
(* holds (sec) / the service has opened (opn: none, the handlers never open one). *)
EXTENDS ContactApi, Json, IOUtils

TraceLog == ndJsonDeserialize(IOEnv.VERIF_TRACE)
Strict == IOEnv.VERIF_STRICT = "1"
\* Contacts (cfg override by the check) = a superset of the contacts of every block of the trace

VARIABLE l
tvars == <<vars, l>>
Ev == TraceLog[l]
Consume(e) == l <= Len(TraceLog) /\ Ev.ev = e /\ l' = l + 1

StOK == Strict =>
          /\ \A c \in DOMAIN Ev.st.cs :
                /\ cs'[c] = Ev.st.cs[c]
                /\ det'[c] = [seed |-> Ev.st.cseed[c], meta |-> Ev.st.cmeta[c], own |-> Ev.st.cown[c]]
                /\ (c \in sec') = Ev.sec[c]
                /\ ~Ev.opn[c]
          /\ sw' = Ev.st.sw /\ seed' = Ev.st.seed
          /\ Len(log') = Len(Ev.rpc.list)
Kinds(app) == [i \in DOMAIN app |-> app[i].k]
ResOK == res'.ok = Ev.ok /\ res'.app = Kinds(Ev.app)

TReset == /\ Consume("reset")
          /\ cs' = [c \in Contacts |-> "U"] /\ det' = [c \in Contacts |-> NoDet]
          /\ sw' = "none" /\ seed' = 0 /\ log' = <<>> /\ sec' = {} /\ n' = 0
          /\ res' = [ok |-> TRUE, app |-> <<>>]
TInitLine == Consume("init") /\ UNCHANGED vars /\ StOK
TOp == /\ Consume("op") /\ Ev.i = n + 1
       /\ LET y == (IF "arg" \in DOMAIN Ev /\ Ev.arg.meta # 0 THEN 1 ELSE 0) + (IF "arg" \in DOMAIN Ev /\ Ev.arg.own # 0 THEN 2 ELSE 0) IN
            CASE Ev.op \in ContactOps -> ContactOp(Ev.op, IF Ev.c \in Contacts THEN Ev.c ELSE CHOOSE c \in Contacts : TRUE, Ev.v, y)
              [] Ev.op \in SwitchOps -> SwitchOp(Ev.op)
              [] Ev.op = "ref" -> Reference
              [] Ev.op = "share" -> Share
       /\ ResOK /\ StOK
TRestart == Consume("restart") /\ Ev.i = n + 1 /\ Restart /\ StOK

TNext == TReset \/ TInitLine \/ TOp \/ TRestart
TInit == Init /\ l = 1 /\ TLCSet(42, 1)
TSpec == TInit /\ [][TNext]_tvars
Mark == TLCSet(42, IF l > TLCGet(42) THEN l ELSE TLCGet(42))
Accepted == LET hw == TLCGet(42) IN
              IF hw = Len(TraceLog) + 1 THEN TRUE
              ELSE /\ PrintT(<<"REJECTED", ToJson([high |-> hw - 1, line |-> TraceLog[hw]])>>)
                   /\ FALSE
=============================================================================
