--------------------------- MODULE GenServiceAPI ---------------------------
(* Script generation for ServiceAPI: a WALK of at most MaxWalk state-changing  *)
(* activation / deactivation steps (or the join of one oddly shaped group),    *)
(* followed by one FINAL step that is any request shape of any RPC or any      *)
(* helper call.  Every distinct history is a distinct state, so TLC's search   *)
(* enumerates all of them: all RPC x shape combinations in every service state *)
(* reachable by such a walk.  The orchestrator runs the finals that the model  *)
(* says leave the state unchanged (chg = FALSE) back to back after one         *)
(* execution of their common walk.  A walk that joins an odd group consists of *)
(* that join only and is followed by state-preserving finals only (the service *)
(* that joined such a group is thrown away afterwards).                        *)
EXTENDS ServiceAPI, Json

CONSTANTS MaxWalk,   \* activation/deactivation steps before the final step
          WithOdd    \* also walks that start by joining an oddly shaped group

VARIABLES h, fin
gvars == <<vars, h, fin>>

Pref(S) == IF "ok" \in S THEN "ok" ELSE "err"
SetToSeq(S) == IF S = {"ok", "err"} THEN <<"err", "ok">> ELSE IF S = {"ok"} THEN <<"ok">> ELSE <<"err">>

\* the model's canonical answer (an open outcome is recorded as open: exp has both)
GCall(rpc, a) ==
  /\ Call(rpc, a, Pref(Outs(rpc, a)))
  /\ h' = Append(h, [act |-> rpc, a |-> a, res |-> [exp |-> SetToSeq(Outs(rpc, a)), chg |-> (state' # state)]])
GHelp(fn, c) ==
  /\ Help(fn, c, Pref(HOuts(fn, c)))
  /\ h' = Append(h, [act |-> "helper", a |-> [fn |-> fn, c |-> c], res |-> [exp |-> SetToSeq(HOuts(fn, c)), chg |-> FALSE]])

Toggle == {<<"ActivateGroup", Sh(k, "net", "-")>> : k \in GKnown} \cup {<<"DeactivateGroup", Sh(k, "-", "-")>> : k \in GKnown}
OddJoin == {<<"MultiMemberGroupJoin", Sh("-", p, "-")>> : p \in OddKinds}

WalkStep == /\ ~fin /\ Len(h) < MaxWalk /\ odd = "none"
            /\ \E w \in Toggle \cup (IF WithOdd /\ h = <<>> THEN OddJoin ELSE {}) :
                 GCall(w[1], w[2]) /\ state' # state
            /\ UNCHANGED fin
FinalStep == /\ ~fin /\ fin' = TRUE
             /\ \/ \E rpc \in RPC : \E a \in AllShapes(rpc) : GCall(rpc, a) /\ (odd # "none" => state' = state) /\ (odd' = odd)   \* an odd join is a walk step, never a final
                \/ (h = <<>> /\ \E fn \in Helper : \E c \in HelperCls(fn) : GHelp(fn, c))

GInit == Init /\ h = <<>> /\ fin = FALSE
GNext == WalkStep \/ FinalStep
GSpec == GInit /\ [][GNext]_gvars

Dump == fin => PrintT(<<"SCRIPT", ToJson(h)>>)
=============================================================================
