--------------------------- MODULE KeyDerivation ---------------------------
(***************************************************************************)
(* Key derivation of the secret store (pkg/secretstore:                    *)
(* device_keystore_wrapper.go, keys_utils.go, secret_store.go).            *)
(* Stores have a keystore: a map name -> key.  Keys are symbolic:          *)
(*   generated Ed25519 keys           positive integers (fresh numbers)    *)
(*   X25519 agreement of a and Pub(b) the unordered pair <<min, max>>      *)
(*                                    (so DH(a,Pub(b)) = DH(b,Pub(a)))     *)
(*   agreement with a group key g     <<k, g>>                             *)
(* Named entries: acct (accountSK), proof (accountProofSK), dev            *)
(* (deviceSK), contact[peer account key] (contactGroupSK_<hex peer>),      *)
(* member[g] (memberSK_<hex g>), mdev[g] (memberDeviceSK_<hex g>).         *)
(* getOrGenerateNamedKey / getOrComputeECDH: a stored entry is returned    *)
(* as is (cached path), otherwise generated / computed and stored.         *)
(* Operations, in any order: AccountGroup(s), ContactGroup(s, p),          *)
(* MemberDevice(s, g), Export(s), Import(s, blob of src in some shape).    *)
(* Implementation choices (value of the current tree in brackets):         *)
(*   CacheByPeer [TRUE]    the contact cache name contains the peer key    *)
(*   CheckExists [TRUE]    import refused when acct or proof exists        *)
(*   CheckEqual  [TRUE]    import refused when the two keys are equal      *)
(*   MemberFromProof [TRUE] member key = agreement(proof key, group key)   *)
(***************************************************************************)
EXTENDS Integers, FiniteSets, Sequences, TLC

CONSTANTS Stores, Groups, MaxOps, MaxKey,
          CacheByPeer, CheckExists, CheckEqual, MemberFromProof

VARIABLES ks, gen, exp,
          oc,   \* observed contact groups  <<own account key, peer account key, group>>
          om,   \* observed member devices  <<acct, proof, g, member, store, device>>
          imp,  \* observed imports         <<what the store held, blob shape, accepted>>
          nops, res

vars == <<ks, gen, exp, oc, om, imp, nops, res>>
view == <<ks, gen, exp, oc, om, imp, nops>>

\* "bad" stands for every malformed / foreign-key-type blob of the driver's catalogue (RSA, secp256k1, ECDSA in
\* either position, garbage bytes, empty, nil)
Kinds == {"valid", "swapped", "equal", "bad"}
Keys == 1..MaxKey
Lo(a, b) == IF a <= b THEN a ELSE b
Hi(a, b) == IF a <= b THEN b ELSE a
DH(a, b) == <<Lo(a, b), Hi(a, b)>>

EmptyKS == [acct |-> 0, proof |-> 0, dev |-> 0,
            contact |-> [k \in Keys |-> <<>>], member |-> [g \in Groups |-> <<>>], mdev |-> [g \in Groups |-> 0]]

Init == /\ ks = [s \in Stores |-> EmptyKS] /\ gen = 0 /\ exp = [s \in Stores |-> <<0, 0>>]
        /\ oc = {} /\ om = {} /\ imp = {} /\ nops = 0 /\ res = [ok |-> TRUE]

\* get-or-generate of a named Ed25519 key
GenIf(r, f) == IF r.k[f] = 0 THEN [k |-> [r.k EXCEPT ![f] = r.g + 1], g |-> r.g + 1] ELSE r
Start(s) == [k |-> ks[s], g |-> gen]

Tick == nops < MaxOps /\ nops' = nops + 1

\* GetGroupForAccount: account, proof and device keys
AccountGroup(s) ==
  /\ Tick
  /\ LET r == GenIf(GenIf(GenIf(Start(s), "acct"), "proof"), "dev") IN
       /\ ks' = [ks EXCEPT ![s] = r.k] /\ gen' = r.g
       /\ res' = [ok |-> TRUE, acct |-> r.k.acct, proof |-> r.k.proof, dev |-> r.k.dev]
  /\ UNCHANGED <<exp, oc, om, imp>>

\* GetGroupForContact(account public key of p): agreement(own account key, peer key), cached by name
ContactGroup(s, p) ==
  /\ Tick /\ p # s /\ ks[p].acct # 0
  /\ LET r == GenIf(Start(s), "acct")
         pk == ks[p].acct
         slot == IF CacheByPeer THEN pk ELSE 1
         v == IF r.k.contact[slot] # <<>> THEN r.k.contact[slot] ELSE DH(r.k.acct, pk)
     IN /\ ks' = [ks EXCEPT ![s] = [r.k EXCEPT !.contact[slot] = v]] /\ gen' = r.g
        /\ oc' = oc \cup {<<r.k.acct, pk, v>>}
        /\ res' = [ok |-> TRUE, grp |-> v]
  /\ UNCHANGED <<exp, om, imp>>

\* GetOwnMemberDeviceForGroup(multi-member group g)
MemberDevice(s, g) ==
  /\ Tick
  /\ LET base == IF MemberFromProof THEN "proof" ELSE "acct"
         r == GenIf(Start(s), base)
         m == IF r.k.member[g] # <<>> THEN r.k.member[g] ELSE <<r.k[base], g>>
         d == IF r.k.mdev[g] # 0 THEN r.k.mdev[g] ELSE r.g + 1
         g2 == IF r.k.mdev[g] # 0 THEN r.g ELSE r.g + 1
     IN /\ ks' = [ks EXCEPT ![s] = [r.k EXCEPT !.member[g] = m, !.mdev[g] = d]] /\ gen' = g2
        /\ om' = om \cup {<<r.k.acct, r.k.proof, g, m, s, d>>}
        /\ res' = [ok |-> TRUE, member |-> m, dev |-> d]
  /\ UNCHANGED <<exp, oc, imp>>

\* ExportAccountKeysForBackup
Export(s) ==
  /\ Tick
  /\ LET r == GenIf(GenIf(Start(s), "acct"), "proof") IN
       /\ ks' = [ks EXCEPT ![s] = r.k] /\ gen' = r.g
       /\ exp' = [exp EXCEPT ![s] = <<r.k.acct, r.k.proof>>]
       /\ res' = [ok |-> TRUE, a |-> r.k.acct, p |-> r.k.proof]
  /\ UNCHANGED <<oc, om, imp>>

\* ImportAccountKeys with the blobs exported by src, in some shape
Import(s, src, kind) ==
  /\ Tick /\ exp[src] # <<0, 0>>
  /\ LET a == IF kind = "swapped" THEN exp[src][2] ELSE exp[src][1]
         p == IF kind = "swapped" THEN exp[src][1] ELSE IF kind = "equal" THEN exp[src][1] ELSE exp[src][2]
         used == ks[s].acct # 0 \/ ks[s].proof # 0
         ok == /\ kind \in {"valid", "swapped", "equal"}
               /\ (kind = "equal" => ~CheckEqual)
               /\ (CheckExists => ~used)
     IN /\ ks' = IF ok THEN [ks EXCEPT ![s].acct = a, ![s].proof = p] ELSE ks
        /\ imp' = imp \cup {<<IF ks[s].acct # 0 THEN "acct" ELSE IF ks[s].proof # 0 THEN "proof" ELSE "fresh", kind, ok>>}
        /\ res' = [ok |-> ok]
  /\ UNCHANGED <<gen, exp, oc, om>>

Next == \E s \in Stores :
          \/ AccountGroup(s) \/ Export(s)
          \/ \E p \in Stores : ContactGroup(s, p)
          \/ \E g \in Groups : MemberDevice(s, g)
          \/ \E src \in Stores, kind \in Kinds : Import(s, src, kind)
Spec == Init /\ [][Next]_vars

-----------------------------------------------------------------------------
TypeOK == gen \in 0..MaxKey /\ nops \in 0..MaxOps

\* both sides derive the same contact group; different unordered pairs derive different groups
C11_Contact == \A x, y \in oc : ({x[1], x[2]} = {y[1], y[2]}) <=> (x[3] = y[3])
\* all devices of an account derive the same member key for a group ...
C11_Member == \A x, y \in om : (x[1] = y[1] /\ x[2] = y[2] /\ x[3] = y[3]) => x[4] = y[4]
\* ... while each device has its own device key per group
C11_Device == \A x, y \in om : x[6] = y[6] => (x[5] = y[5] /\ x[3] = y[3])
\* import is refused on a store that has an account, for non-Ed25519 / malformed keys, for equal keys;
\* a well-formed pair is accepted by a fresh store
\* (a store that only holds a proof key - it derived a member key, nothing else - is left open)
C11_Import == \A r \in imp :
  /\ ((r[1] = "acct" \/ r[2] \in {"equal", "bad"}) => ~r[3])
  /\ ((r[1] = "fresh" /\ r[2] \in {"valid", "swapped"}) => r[3])
\* once a store uses an account / proof key it keeps it (so that what it derived stays what it derives)
C11_Stable == [][\A s \in Stores : /\ ks[s].acct # 0 => ks'[s].acct = ks[s].acct
                                   /\ ks[s].proof # 0 => ks'[s].proof = ks[s].proof]_vars
=============================================================================
