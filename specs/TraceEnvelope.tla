---------------------------- MODULE TraceEnvelope ----------------------------
(* Full-spec conformance for Envelope: every recorded call of the real stores  *)
(* must be the corresponding action of Envelope.tla with the observed outcome, *)
(* and (strict mode) the projected receiver datastore must equal the model     *)
(* state.  A rejection here is model drift, never a verdict.                   *)
EXTENDS Envelope, Json, IOUtils

TraceLog == ndJsonDeserialize(IOEnv.VERIF_TRACE)
Strict == IOEnv.VERIF_STRICT = "1"

VARIABLE l
tvars == <<vars, l>>

Ev == TraceLog[l]
Has(f) == f \in DOMAIN Ev
SetOf(s) == {s[i] : i \in DOMAIN s}
Consume(e) == l <= Len(TraceLog) /\ Ev.ev = e /\ l' = l + 1

StOK == (Strict /\ Has("st")) =>
          /\ pre' = {<<t[1], t[2], t[3]>> : t \in SetOf(Ev.st.pre)}
          /\ cidk' = SetOf(Ev.st.cid)

TReset == /\ Consume("reset")
          /\ ns' = 0 /\ fz' = <<>> /\ tz' = <<>>
          /\ pre' = {<<g, DK(g, d), k>> : g \in G, d \in Dev, k \in Ctr}
          /\ ck' = [gd \in {<<g, DK(g, d)>> : g \in G, d \in Dev} |-> W]
          /\ cidk' = {} /\ delivered' = {} /\ nopen' = 0
          /\ res' = [act |-> "init", ok |-> TRUE]
TSeal == /\ Consume("seal") /\ Seal
         /\ SealPlan[ns + 1] = <<Ev.d, Ev.g>> /\ HL[ns + 1] = Ev.e /\ PL[ns + 1] = Ev.p
         /\ HENV[ns + 1].ct = Ev.k /\ HENV[ns + 1].dv = Ev.hdv
SigTerm == IF Ev.sg = "own" THEN SigOf(DK(Ev.hs, Adv), Ev.pl, Ev.hs, Ev.ct)
           ELSE henv[CHOOSE i \in 1..Len(henv) : HL[i] = Ev.sg].sg
KeyTerm == IF Ev.kg = "junk" THEN Junk ELSE <<Ev.kg, Ev.kd, Ev.kk>>
TForge == /\ Consume("forge")
          /\ LET f == [hs |-> Ev.hs, dv |-> Ev.dv, ct |-> Ev.ct, sg |-> SigTerm, key |-> KeyTerm,
                       bn |-> Ev.bn, pl |-> Ev.pl, tam |-> "none"]
             IN InForgeSpace(f) /\ Forge(f)
TTamper == /\ Consume("tamper")
           /\ \E i \in 1..Len(henv) : HL[i] = Ev.base /\ Tamper(i, Ev.fld)
TOpen == /\ Consume("open") /\ Open(Ev.e, Ev.g)
         /\ res'.ok = Ev.ok
         /\ (Ev.ok => res'.dv = Ev.rdv /\ res'.ct = Ev.rct /\ res'.pl = Ev.rpl)
         \* damaged framing is refused at the header or at the body stage depending on the byte (not modelled)
         /\ ((Strict /\ Has("hok") /\ Env(Ev.e).tam # "frame") => (Ev.hok <=> res'.why # "hdr"))
         /\ StOK

TNext == TReset \/ TSeal \/ TForge \/ TTamper \/ TOpen
TInit == Init /\ l = 1 /\ TLCSet(42, 1)
TSpec == TInit /\ [][TNext]_tvars

Mark == TLCSet(42, IF l > TLCGet(42) THEN l ELSE TLCGet(42))
Accepted == LET hw == TLCGet(42) IN
              IF hw = Len(TraceLog) + 1 THEN TRUE
              ELSE /\ PrintT(<<"REJECTED", ToJson([high |-> hw - 1, line |-> TraceLog[hw]])>>)
                   /\ FALSE
=============================================================================
