SPECIFICATION Spec
INVARIANTS Dump
CHECK_DEADLOCK FALSE
