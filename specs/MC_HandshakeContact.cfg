SPECIFICATION CSpec
CONSTANTS
  S1 = {"rAB", "rAE", "rBA", "rBE", "sA", "sB"}
  S2 = {"rAB", "rAE", "rBA", "rBE", "sA", "sB", "none"}
  S3 = {"none"}
  Sorted = TRUE
  CheckLowOrder = TRUE
  Junk = FALSE
  CompareContact = TRUE
INVARIANTS ContactAuth ContactIsAuthenticated RespAuth ReqAuth
VIEW cview
CHECK_DEADLOCK FALSE
