----------------------------- MODULE Invitation -----------------------------
(***************************************************************************)
(* Multi-member group invitations and replication descriptors              *)
(* (pkg/protocoltypes/group.go, store_metadata.go: GroupJoin,              *)
(* api_multimember.go, api_replication.go, store_options.go).              *)
(*                                                                         *)
(* invitation inv = [pk, secret, sig, type]                                *)
(*   pk     "g1" "g2": public key of a group; "g1x": g1 with a flipped bit; *)
(*          "none": field removed                                          *)
(*   secret "s1" "s2" "s1x" "none" likewise (s_i is the secret of g_i)     *)
(*   sig    [by, over, st]: made by key `by` (a group key, or "sign1": the *)
(*          log-signing key derived from s1) over secret `over`;           *)
(*          st = ok | flip | none                                          *)
(*   type   multi | contact | account | undefined | unknown                *)
(* The adversary starts from the honest invitation of g1 (and knows the    *)
(* one of g2) and applies the mutations of DESIGN.md appendix C.           *)
(* The joiner is an account with its account metadata log (length loglen,  *)
(* set of joined groups); after a join it acts in the group under the      *)
(* identity the key store computes for that group *type*.                  *)
(***************************************************************************)
EXTENDS Integers, FiniteSets, Sequences, TLC

CONSTANTS JoinChecksType,  \* implementation choice: GroupJoin requires type = multi (FALSE in the current tree)
          MaxMut, MaxJoin

VARIABLES inv,      \* <<>> or <<invitation being forged>>
          nmut, njoin,
          joined,   \* [joiner -> invitations accepted so far]; the two joiners are different accounts:
          loglen,   \* [joiner -> entries of its account metadata log]   "store" calls GroupJoin, "service" the RPC
          res
vars == <<inv, nmut, njoin, joined, loglen, res>>
view == <<inv, nmut, njoin, joined, loglen>>

Groups == {"g1", "g2"}
SecretOf(g) == IF g = "g1" THEN "s1" ELSE "s2"
Types == {"multi", "contact", "account", "undefined", "unknown"}
Honest(g) == [pk |-> g, secret |-> SecretOf(g), sig |-> [by |-> g, over |-> SecretOf(g), st |-> "ok"], type |-> "multi"]
NoSig == [by |-> "none", over |-> "none", st |-> "none"]

SigValid(i) == /\ i.pk \in Groups /\ i.secret \in {"s1", "s2"}
               /\ i.sig.st = "ok" /\ i.sig.by = i.pk /\ i.sig.over = i.secret
\* the property: an invitation is good iff it designates a multi-member group and its secret is signed by the group key
Valid(i) == i.type = "multi" /\ SigValid(i)
\* identity the key store uses for a group of that type (device_keystore_wrapper.go: memberDeviceForGroup)
IdentityFor(i) == CASE i.type = "multi" -> "derived"
                    [] i.type \in {"contact", "account"} -> "account"
                    [] OTHER -> "error"

Joiners == {"store", "service"}
Init == /\ inv = <<>> /\ nmut = 0 /\ njoin = 0 /\ joined = [j \in Joiners |-> {}]
        /\ loglen = [j \in Joiners |-> 0] /\ res = [ok |-> TRUE]

Cur == inv[1]
Start(g) == inv = <<>> /\ njoin < MaxJoin /\ inv' = <<Honest(g)>> /\ nmut' = 0 /\ UNCHANGED <<njoin, joined, loglen, res>>
Forge(i) == /\ inv # <<>> /\ nmut < MaxMut /\ i # Cur /\ inv' = <<i>> /\ nmut' = nmut + 1
            /\ UNCHANGED <<njoin, joined, loglen, res>>
Other == Honest(IF Cur.pk = "g2" THEN "g1" ELSE "g2")
Mutate == /\ inv # <<>> /\ nmut < MaxMut
          /\ \/ \E f \in {"pk", "secret", "sig"} :          \* field of another invitation / removed
                  \/ Forge([Cur EXCEPT ![f] = Other[f]])
                  \/ Forge([Cur EXCEPT ![f] = IF f = "sig" THEN NoSig ELSE "none"])
             \/ Cur.pk = "g1" /\ Forge([Cur EXCEPT !.pk = "g1x"])            \* bit flips
             \/ Cur.secret = "s1" /\ Forge([Cur EXCEPT !.secret = "s1x"])
             \/ Cur.sig.st = "ok" /\ Forge([Cur EXCEPT !.sig.st = "flip"])
             \/ \E t \in Types : Forge([Cur EXCEPT !.type = t])                \* type substitution
             \/ Cur.secret = "s1" /\ Forge([Cur EXCEPT !.sig = [by |-> "sign1", over |-> "s1", st |-> "ok"]])

ImplAccepts(i, via) == SigValid(i) /\ (JoinChecksType => i.type = "multi") /\ ~(\E j \in joined[via] : j.pk = i.pk)

\* MetadataStore.GroupJoin / service MultiMemberGroupJoin
Join(i, via) ==
  /\ IF ImplAccepts(i, via)
       THEN /\ joined' = [joined EXCEPT ![via] = @ \cup {i}] /\ loglen' = [loglen EXCEPT ![via] = @ + 1]
            /\ res' = [ok |-> TRUE, ident |-> IdentityFor(i)]
       ELSE /\ UNCHANGED <<joined, loglen>> /\ res' = [ok |-> FALSE]
JoinCur == /\ inv # <<>> /\ \E via \in Joiners : Join(Cur, via)
           /\ inv' = <<>> /\ njoin' = njoin + 1 /\ UNCHANGED nmut

Next == (\E g \in Groups : Start(g)) \/ Mutate \/ JoinCur
Spec == Init /\ [][Next]_vars

-----------------------------------------------------------------------------
TypeOK == Len(inv) <= 1 /\ \A j \in Joiners : loglen[j] = Cardinality(joined[j])
\* C12: only valid invitations are accepted, and the joiner never acts under its account identity
OnlyValidJoined == \A j \in Joiners : \A i \in joined[j] : Valid(i)
NeverAccountIdentity == \A j \in Joiners : \A i \in joined[j] : IdentityFor(i) = "derived"
NothingAppendedOnRefusal == [][(inv # <<>> /\ inv' = <<>> /\ ~res'.ok) => loglen' = loglen]_vars

\* ---- replication descriptor (FilterGroupForReplication): symbolic, no state
SignPub(s) == <<"pub", <<"signkey", s>>>>
LinkKey(pk, s) == <<"kdf", s, pk>>
Descriptor(g) == [pk |-> g, secret |-> "none", sig |-> NoSig, signPub |-> SignPub(SecretOf(g)), linkKey |-> LinkKey(g, SecretOf(g))]
Full(g) == [pk |-> g, secret |-> SecretOf(g), sig |-> Honest(g).sig, signPub |-> SignPub(SecretOf(g)), linkKey |-> LinkKey(g, SecretOf(g))]
\* an envelope of group g is boxed under SecretOf(g); a holder opens it iff it holds that secret
Opens(holder, g) == holder.secret = SecretOf(g)
Address(x) == <<x.pk, x.signPub>>
ASSUME \A g \in Groups : /\ Descriptor(g).secret = "none"
                         /\ \A g2 \in Groups : ~Opens(Descriptor(g), g2)
                         /\ Address(Descriptor(g)) = Address(Full(g))
                         /\ Opens(Full(g), g)
=============================================================================
