----------------------------- MODULE MonRatchet -----------------------------
(***************************************************************************)
(* Property monitor for C02 / C14 over a recorded trace of the real secret *)
(* store.  It uses observed values only: its variables are history         *)
(* variables computed from the recorded calls and their outcomes, never    *)
(* the model's prediction.  A trace is accepted iff every recorded outcome *)
(* satisfies the property's own formula; anything the property leaves open *)
(* (e.g. a counter beyond the guaranteed window) is accepted either way.   *)
(* Conformance with the full model (Ratchet.tla) is a separate pass whose  *)
(* failure is reported as model drift, not as a violation.                 *)
(***************************************************************************)
EXTENDS Integers, FiniteSets, Sequences, TLC, Json, IOUtils

CONSTANTS Dev, W, N

TraceLog == ndJsonDeserialize(IOEnv.VERIF_TRACE)

VARIABLES l,
          sent,    \* [Dev -> Nat] messages sealed (observed counters)
          reg,     \* [Dev -> Int] counter of the first announcement registered (-1 none)
          opened,  \* [Dev -> SUBSET Nat] counters opened through the log so far
          last     \* [Dev -> Int] last counter "seen" for push references (-1 none)
mvars == <<l, sent, reg, opened, last>>

Ev == TraceLog[l]
Consume(e) == l <= Len(TraceLog) /\ Ev.ev = e /\ l' = l + 1

\* C02: the guaranteed window, and what can never open
MustOpen(d, k) == k \in opened[d] \/ (reg[d] # -1 /\ reg[d] < k /\ k <= reg[d] + W + Cardinality(opened[d]))
MustFail(d, k) == k \notin opened[d] /\ (reg[d] = -1 \/ k <= reg[d])
\* C14: reference window around the last counter seen.  The statement leaves the exact edges to the
\* implementation ([last-N, last+N) today): the monitor demands success strictly inside, refusal clearly
\* outside (or when no reference was ever computed), and accepts either outcome on the two edge counters
\* of each side - a window moved by one is not an alarm, a window that does not follow the last counter is.
Inside(d, k) == last[d] # -1 /\ last[d] - N + 1 <= k /\ k <= last[d] + N - 2
Outside(d, k) == last[d] = -1 \/ k < last[d] - N - 1 \/ k > last[d] + N
Faithful == Ev.same /\ Ev.pdev /\ Ev.pk = Ev.k
\* every payload an earlier open / push returned is still the original one (results must not alias a reused buffer)
Kept == ("kept" \in DOMAIN Ev) => Ev.kept

MReset == /\ Consume("reset")
          /\ sent' = [d \in Dev |-> 0] /\ reg' = [d \in Dev |-> -1]
          /\ opened' = [d \in Dev |-> {}] /\ last' = [d \in Dev |-> -1]
\* C09-lite: a sender's counters are consecutive
MSeal == /\ Consume("seal") /\ Ev.k = sent[Ev.d] + 1
         /\ sent' = [sent EXCEPT ![Ev.d] = Ev.k] /\ UNCHANGED <<reg, opened, last>>
MAnnounce == Consume("announce") /\ Ev.a = sent[Ev.d] /\ UNCHANGED <<sent, reg, opened, last>>
MRegister == /\ Consume("register") /\ Ev.ok
             /\ IF reg[Ev.d] = -1
                  THEN reg' = [reg EXCEPT ![Ev.d] = Ev.a] /\ last' = [last EXCEPT ![Ev.d] = Ev.a + W]
                  ELSE UNCHANGED <<reg, last>>
             /\ UNCHANGED <<sent, opened>>
MOpen == /\ Consume("open") /\ Kept
         /\ (MustOpen(Ev.d, Ev.k) => Ev.ok)
         /\ (MustFail(Ev.d, Ev.k) => ~Ev.ok)
         /\ (Ev.ok => Faithful)
         /\ opened' = IF Ev.ok THEN [opened EXCEPT ![Ev.d] = @ \cup {Ev.k}] ELSE opened
         /\ UNCHANGED <<sent, reg, last>>
MPush == /\ Consume("push") /\ Kept
         /\ ((MustOpen(Ev.d, Ev.k) /\ Inside(Ev.d, Ev.k)) => Ev.ok)
         /\ ((MustFail(Ev.d, Ev.k) \/ Outside(Ev.d, Ev.k)) => ~Ev.ok)
         /\ (Ev.ok => Faithful /\ Ev.pgroup /\ (Ev.already <=> Ev.k \in opened[Ev.d]))
         /\ last' = IF Ev.ok THEN [last EXCEPT ![Ev.d] = Ev.k] ELSE last
         /\ UNCHANGED <<sent, reg, opened>>
MRefs == /\ Consume("refs") /\ Ev.ok
         /\ last' = [last EXCEPT ![Ev.d] = Ev.x]
         /\ UNCHANGED <<sent, reg, opened>>

MNext == MReset \/ MSeal \/ MAnnounce \/ MRegister \/ MOpen \/ MPush \/ MRefs
MInit == /\ l = 1 /\ sent = [d \in Dev |-> 0] /\ reg = [d \in Dev |-> -1]
         /\ opened = [d \in Dev |-> {}] /\ last = [d \in Dev |-> -1] /\ TLCSet(42, 1)
MSpec == MInit /\ [][MNext]_mvars

Mark == TLCSet(42, IF l > TLCGet(42) THEN l ELSE TLCGet(42))
Accepted == LET hw == TLCGet(42) IN
              IF hw = Len(TraceLog) + 1 THEN TRUE
              ELSE /\ PrintT(<<"REJECTED", ToJson([high |-> hw - 1, line |-> TraceLog[hw]])>>)
                   /\ FALSE
=============================================================================
