-------------------------- MODULE GenExportRestore --------------------------
(* Script generation for ExportRestore: a history of plan[1] operations, an    *)
(* export, RestoresPer restores of mutated copies of that archive, then (if    *)
(* MaxExports = 2) plan[2] more operations, a second export and its restores.  *)
(* The plan and every mutation kind are chosen nondeterministically, so that   *)
(* random walks export at arbitrary points and spread evenly over the kinds    *)
(* (the kind of the next mutation is drawn with TLC's seeded RandomElement, so *)
(* that kinds with many instances do not crowd out the others).                *)
(* A mutation is handed to the driver by the ROLE of the files it touches (the *)
(* real archive has other identifiers and another group order): tgt = the file *)
(* mutated, at = the file in front of which a copy / the file itself lands.    *)
(* The driver does not use the model's predictions (res).                      *)
EXTENDS ExportRestore, Json

CONSTANTS MaxOps, RestoresPer, Kinds,
          Ops,    \* operation kinds of this configuration
          Rich    \* TRUE: start after `recv c1; acc c1; mmcreate` (contact group and multi-member group open)
VARIABLES h, ph, c, plan, nk, fin
gvars == <<vars, h, ph, c, plan, nk, fin>>

NoRole == [t |-> "-", n |-> "-", g |-> "-", s |-> "-", k |-> 0, kn |-> 0]
Role(fs, i) == LET f == fs[i] IN
  [t |-> f.t, n |-> f.n, g |-> f.g, s |-> f.s, k |-> f.k,
   kn |-> IF f.t = "entry" THEN arch.n[f.g][f.s] ELSE 0]
AtRole(fs, j) == IF j > Len(fs) THEN [NoRole EXCEPT !.t = "end"] ELSE Role(fs, j)
\* what is handed out as the model's prediction (the driver does not use it; the check compares)
Short(r) == IF "r" \in DOMAIN r THEN [out |-> r.r.out, keys |-> r.r.keys] ELSE r
Rec(act, s, x, y, d, tgt, at, kn, cls) ==
  h' = Append(h, [act |-> act, s |-> s, x |-> x, y |-> y, d |-> d,
                  a |-> [tgt |-> tgt, at |-> at, kn |-> kn, cls |-> cls], res |-> Short(res')])
RecOp(s, x, d) == Rec("op", s, x, 0, d, NoRole, NoRole, 0, "")
CIdx(cc) == IF cc = "c1" THEN 1 ELSE 2

GHist == \/ \E op \in Ops \cap {"en", "dis", "rs"} : SwitchOp(op) /\ RecOp(op, 0, "")
         \/ \E op \in Ops \cap ContactOps, cc \in Contacts : ContactOp(op, cc) /\ RecOp(op, CIdx(cc), "")
         \/ \E op \in Ops \cap {"join", "leave"} : JoinOp(op) /\ RecOp(op, 1, "")
         \/ ("mmcreate" \in Ops /\ MmCreate /\ RecOp("mmcreate", 0, ""))
         \/ \E g \in GroupSet, s \in Ops \cap StoreSet : Send(g, s) /\ RecOp(s, n[g][s] + 1, g)

\* where a copy / a moved file may land: front, end, next to where it was, in front of a group's first
\* entry, in front of or right after a heads file (the model checker tries every position; the walks these)
Anchors(fs, i) ==
  ({1, Len(fs) + 1, i + 1, i + 2} \cup {j \in DOMAIN fs : fs[j].t = "heads"} \cup {j + 1 : j \in {j \in DOMAIN fs : fs[j].t = "heads"}}
     \cup {j \in DOMAIN fs : fs[j].t = "entry" /\ fs[j].s = "meta" /\ fs[j].k = 1}) \cap (1..(Len(fs) + 1))
GRestore(kind) ==
  LET fs == arch.files
      R(fed, s, x, y, tgt, at, kn, cls) == Restore(fed) /\ Rec("restore", s, x, y, "", tgt, at, kn, cls)
  IN CASE kind = "none" -> R(Fed(fs), "none", 0, 0, NoRole, NoRole, 0, "")
       [] kind = "used" -> R([Fed(fs) EXCEPT !.used = TRUE], "used", 0, 0, NoRole, NoRole, 0, "")
       [] kind = "flip" -> \E i \in DOMAIN fs : \E cl \in FlipClasses(fs[i]) :
                             R(MutFlip(fs, i, cl), "flip", 0, 0, Role(fs, i), NoRole, 0, cl)
       [] kind = "drop" -> \E i \in DOMAIN fs : R(MutDrop(fs, i), "drop", 0, 0, Role(fs, i), NoRole, 0, "")
       [] kind = "dup" -> \E i \in DOMAIN fs : \E j \in Anchors(fs, i) :
                             R(MutDup(fs, i, j), "dup", 0, 0, Role(fs, i), AtRole(fs, j), 0, "")
       [] kind = "move" -> \E i \in DOMAIN fs : \E j \in Anchors(fs, i) :
                             j \notin {i, i + 1} /\ R(MutMove(fs, i, j), "move", 0, 0, Role(fs, i), AtRole(fs, j), 0, "")
       [] kind = "trunc" -> \E k \in 0..Len(fs), p \in BOOLEAN :
                             (k < Len(fs) \/ p) /\ R(MutTrunc(fs, k, p), "trunc", k, IF p THEN 1 ELSE 0, NoRole, NoRole, Len(fs), "")

Done == ph \in {2, 4} /\ c = RestoresPer /\ arch.k = MaxExports
PreRec(s, x) == [act |-> "op", s |-> s, x |-> x, y |-> 0, d |-> "",
                 a |-> [tgt |-> NoRole, at |-> NoRole, kn |-> 0, cls |-> ""], res |-> [ok |-> TRUE]]
RichInit == /\ cs = [cc \in Contacts |-> IF cc = "c1" THEN "A" ELSE "U"] /\ gj = FALSE /\ open = GroupSet
            /\ n = [g \in GroupSet |-> [meta |-> InitMeta(g) + (IF g = "acct" THEN 3 ELSE 0), msg |-> 0]]
            /\ nacct = 3 /\ arch = [files |-> <<>>, n |-> n, open |-> {}, k |-> 0] /\ res = [ok |-> TRUE]
            /\ h = <<PreRec("recv", 1), PreRec("acc", 1), PreRec("mmcreate", 0)>>
GInit == /\ (IF Rich THEN RichInit ELSE Init /\ h = <<>>) /\ ph = 1 /\ c = 0
         /\ plan \in [1..2 -> 0..MaxOps] /\ plan[2] > 0
         /\ nk \in Kinds /\ fin = FALSE
GNext == \/ /\ ph \in {1, 3} /\ c < plan[IF ph = 1 THEN 1 ELSE 2]
            /\ GHist /\ c' = c + 1 /\ UNCHANGED <<ph, plan, nk, fin>>
         \/ /\ ph \in {1, 3} /\ c = plan[IF ph = 1 THEN 1 ELSE 2]
            /\ Export /\ Rec("export", "", 0, 0, "", NoRole, NoRole, 0, "")
            /\ ph' = ph + 1 /\ c' = 0 /\ nk' = RandomElement(Kinds) /\ UNCHANGED <<plan, fin>>
         \/ /\ ph \in {2, 4} /\ c < RestoresPer
            /\ GRestore(nk) /\ c' = c + 1 /\ nk' = RandomElement(Kinds) /\ UNCHANGED <<ph, plan, fin>>
         \/ /\ ph = 2 /\ c = RestoresPer /\ arch.k < MaxExports
            /\ ph' = 3 /\ c' = 0 /\ UNCHANGED <<vars, h, plan, nk, fin>>
         \* (one closing step, so that a finished walk is printed once and not once per candidate last step)
         \/ /\ Done /\ ~fin /\ fin' = TRUE /\ UNCHANGED <<vars, h, ph, c, plan, nk>>
GSpec == GInit /\ [][GNext]_gvars
Dump == fin => PrintT(<<"SCRIPT", ToJson(h)>>)
=============================================================================
