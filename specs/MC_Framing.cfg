SPECIFICATION Spec
CONSTANTS
  Variants = {"varint", "u32be", "u32le"}
  Limit = 2
  K = 3
  Sizes = {0, 1, 2, 3}
  MaxMsgs = 3
  MaxN = 100
  D = 128
  MaxDigits = 10
  Big = 16777216
  RawKinds = {"overlong", "ovf9", "huge", "big", "nonmin", "top"}
  Truncate = TRUE
  ImplCheckFirst = TRUE
  ImplCmp = "gt"
  ImplReadFull = TRUE
INVARIANTS TypeOK RoundTrip Verdict AllocBound NoPanic
VIEW view
CHECK_DEADLOCK FALSE
