------------------------------- MODULE MonConn -------------------------------
(* Property monitor for C16 (connectedness tracker + notify) on executions of   *)
(* the real code recorded under the cooperative scheduler.  Observed values only:*)
(* the tracker's status/association maps and every waiter's `current` map are   *)
(* logged after each step; returns of WaitForConnectednessChange carry the      *)
(* reported peers and the ok flag.                                              *)
EXTENDS Naturals, Sequences, FiniteSets, TLC, Json, IOUtils, SequencesExt

TraceLog == ndJsonDeserialize(IOEnv.VERIF_TRACE)

VARIABLES l,
          cur,        \* every waiter's current map as of the previous step
          started,    \* at least one step seen in this block
          cancelled
mvars == <<l, cur, started, cancelled>>
Ev == TraceLog[l]
Consume(e) == l <= Len(TraceLog) /\ Ev.ev = e /\ l' = l + 1

\* peers whose tracked status differs from what waiter w had before this step
Changed(w) == {p \in ToSet(Ev.assoc) : cur[w][p] # Ev.status[p]}
\* each return lists exactly the peers whose status changed; a negative return only after cancellation
RetOK(r, now) == IF r.ok THEN ToSet(r.upd) = Changed(r.w) /\ Changed(r.w) # {}
                 ELSE r.w \in now /\ r.upd = <<>>
MReset == Consume("reset") /\ cur' = <<>> /\ cancelled' = {} /\ started' = FALSE
MCfg == Consume("cfg") /\ UNCHANGED <<cur, cancelled, started>>
MStep == /\ Consume("step")
         /\ LET now == IF Ev.t = "cancel" /\ Ev.from = "c_cancel" /\ Ev.ok THEN cancelled \cup ToSet(Ev.ctargets) ELSE cancelled IN
              /\ cancelled' = now
              /\ IF ~started THEN Ev.ret = <<>>          \* nothing can return before the first step
                 ELSE \A i \in DOMAIN Ev.ret : RetOK(Ev.ret[i], now)
         /\ cur' = Ev.cur /\ started' = TRUE
\* quiescence: nobody waits for a lock (deadlock), nobody spins, a parked waiter has nothing to report,
\* and after cancellation nobody is parked
MFinal == /\ Consume("final")
          /\ Ev.atgate = <<>>
          /\ ~Ev.livelock
          /\ \A i \in DOMAIN Ev.parked :
                LET w == Ev.parked[i] IN
                  /\ w \notin cancelled
                  /\ w \in DOMAIN Ev.cur
                  /\ \A p \in ToSet(Ev.assoc) : Ev.cur[w][p] = Ev.status[p]
          /\ UNCHANGED <<cur, cancelled, started>>
MNext == MReset \/ MCfg \/ MStep \/ MFinal
MInit == l = 1 /\ cur = <<>> /\ started = FALSE /\ cancelled = {} /\ TLCSet(42, 1)
MSpec == MInit /\ [][MNext]_mvars
Mark == TLCSet(42, IF l > TLCGet(42) THEN l ELSE TLCGet(42))
Accepted == LET hw == TLCGet(42) IN
              IF hw = Len(TraceLog) + 1 THEN TRUE
              ELSE /\ PrintT(<<"REJECTED", ToJson([high |-> hw - 1, line |-> TraceLog[hw]])>>)
                   /\ FALSE
=============================================================================
