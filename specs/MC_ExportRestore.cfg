SPECIFICATION Spec
CONSTANTS
  MaxAcct = 2
  MaxSend = 1
  MaxExports = 1
  DupHeads = "skip"
  KeyCheck = "none"
INVARIANTS ExportComplete SameRestore Rejected NoCrash NeverSilentlyDifferent
CHECK_DEADLOCK FALSE
