SPECIFICATION Spec
CONSTANTS
  MaxAcct = 2
  MaxSend = 1
  MaxExports = 1
  DupHeads = "skip"
  KeyCheck = "pair"
INVARIANTS ExportComplete SameRestore Rejected NoCrash NeverSilentlyDifferent
CHECK_DEADLOCK FALSE
