SPECIFICATION GSpec
CONSTANTS
  S1 = {"rAB", "rAE", "sB"}
  S2 = {"sB", "none"}
  S3 = {"none"}
  Sorted = FALSE
  CheckLowOrder = FALSE
  Junk = FALSE
  CompareContact = TRUE
  AttackOnly = FALSE
INVARIANTS Dump
CHECK_DEADLOCK FALSE
