SPECIFICATION TSpec
CONSTANTS
  G = {"g1", "g2"}
  Dev = {"d1", "d2", "x"}
  Adv = "x"
  W = 2
  Shared = TRUE
  SigCtx = FALSE
  Plan = "std"
  MaxOpen = 1000000000
INVARIANTS TypeOK
CONSTRAINT Mark
POSTCONDITION Accepted
CHECK_DEADLOCK FALSE
