SPECIFICATION MSpec
CONSTRAINT Mark
POSTCONDITION Accepted
CHECK_DEADLOCK FALSE
