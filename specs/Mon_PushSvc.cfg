SPECIFICATION PSpec
CONSTANTS
  Dev = {"d1", "d2", "e1", "f1"}
  W = 2
  N = 2
CONSTRAINT Mark
POSTCONDITION Accepted
CHECK_DEADLOCK FALSE
