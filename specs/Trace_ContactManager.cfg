SPECIFICATION TSpec
CONSTANTS
  Contacts = {"c1", "c2", "c3"}
  Kinds = {"good", "bad"}
  OpKinds = {"en", "dis", "rs", "enq", "blk", "unb", "sent", "acc", "disc", "enqself"}
  MaxOps = 100000
  MaxSeed = 100000
  MaxLk = 12
  MaxGen = 100000
  WithRefused = TRUE
  ExitCancelsAny = TRUE
  OfferIgnoresCancel = TRUE
  StartIgnoresClose = TRUE
  LoopHandlesAfterClose = TRUE
  DisableKeepsLookups = TRUE
  BlockKeepsLookup = TRUE
  ClosedHandlerAppends = TRUE
INVARIANTS TypeOK IndexIsLog OldPointGone OneSentPerEnqueue NeverSelf
CONSTRAINT Mark
POSTCONDITION Accepted
CHECK_DEADLOCK FALSE
