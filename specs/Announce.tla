------------------------------ MODULE Announce ------------------------------
(***************************************************************************)
(* Chain-key announcements of pkg/secretstore/chain_key.go as terms (C05a).*)
(*   announcement = Box(deviceSk(sender), memberPk(recipient),             *)
(*                      nonce = group id, [chainKey, counter])             *)
(* World: accounts A (stores A1, A2), B (B1), C (C1); groups               *)
(*   gm multi-member {A,B,C}, ga account group of A, gc contact group A-B, *)
(*   gd contact group A-C.  Account and contact groups use the account key *)
(*   as member key and the device key as device key (the SAME keys in      *)
(*   ga, gc, gd: only the nonce separates them); a multi-member group has  *)
(*   its own member and device keys.  A store computes "its" keys for any  *)
(*   group it is given, member or not (memberDeviceForGroup).              *)
(* Actions: GetShareableChainKey, damage, RegisterChainKey (decrypt first, *)
(* then "already registered -> ignore").                                   *)
(* Implementation choice NonceBound: is the box nonce derived from the     *)
(* group id (groupIDToNonce) or a constant.                                *)
(***************************************************************************)
EXTENDS Integers, FiniteSets, Sequences, TLC

CONSTANTS NonceBound

Stores == {"A1", "A2", "B1", "C1"}
Acct(s) == CASE s \in {"A1", "A2"} -> "A" [] s = "B1" -> "B" [] s = "C1" -> "C"
Groups == {"gm", "ga", "gc", "gd"}
Members(g) == CASE g = "gm" -> {"A", "B", "C"} [] g = "ga" -> {"A"} [] g = "gc" -> {"A", "B"} [] g = "gd" -> {"A", "C"}
MemberKey(a, g) == IF g = "gm" THEN "m.gm." \o a ELSE "acct." \o a
DeviceKey(s, g) == IF g = "gm" THEN "d.gm." \o s ELSE "dev." \o s
Tampers == {"none", "flip", "trunc", "ext"}

VARIABLES ann,    \* <<>> or <<[sd, rm, ng, tam]>>: the announcement under test
          known,  \* [Stores -> SUBSET (Groups \X device keys)]: chain keys a store holds
          src,    \* [Stores -> [<<g, devkey>> -> <<sender device key, group>> of the chain key stored there]]
          res
vars == <<ann, known, src, res>>
view == <<ann, known, src>>

Own(s) == {<<g, DeviceKey(s, g)>> : g \in Groups}
Init == /\ ann = <<>>
        /\ known = [s \in Stores |-> Own(s)]     \* PutGroup creates the own chain key
        /\ src = [s \in Stores |-> [gd \in Own(s) |-> <<gd[2], gd[1]>>]]
        /\ res = [act |-> "init", ok |-> TRUE]

\* GetShareableChainKey(g, member key of account r) on store s
Announce(s, g, r) == /\ ann = <<>> /\ Acct(s) \in Members(g) /\ r \in Members(g)
                     /\ ann' = <<[sd |-> DeviceKey(s, g), rm |-> MemberKey(r, g), ng |-> g, tam |-> "none"]>>
                     /\ res' = [act |-> "announce", ok |-> TRUE]
                     /\ UNCHANGED <<known, src>>
Damage(t) == /\ ann # <<>> /\ ann[1].tam = "none" /\ t \in Tampers \ {"none"}
             /\ ann' = <<[ann[1] EXCEPT !.tam = t]>>
             /\ res' = [act |-> "damage", ok |-> TRUE]
             /\ UNCHANGED <<known, src>>

\* box.Open with the key DH(own member sk for g, claimed device pk) and the nonce of g.
\* (DH is symmetric, but member keys and device keys are different keys, so only this orientation opens.)
BoxOpens(a, o, g, c) == /\ a.tam = "none"
                        /\ MemberKey(Acct(o), g) = a.rm /\ c = a.sd
                        /\ (NonceBound => a.ng = g)
\* RegisterChainKey(g, claimed sender device c, announcement) on store o
Register(o, g, c) ==
  /\ ann # <<>>
  /\ IF BoxOpens(ann[1], o, g, c)
       THEN /\ res' = [act |-> "register", ok |-> TRUE, o |-> o, g |-> g, c |-> c]
            /\ IF <<g, c>> \in known[o] THEN UNCHANGED <<known, src>>      \* already registered: ignored
               ELSE /\ known' = [known EXCEPT ![o] = @ \cup {<<g, c>>}]
                    /\ src' = [src EXCEPT ![o] = [x \in DOMAIN @ \cup {<<g, c>>} |->
                                                   IF x = <<g, c>> THEN <<ann[1].sd, ann[1].ng>> ELSE @[x]]]
       ELSE /\ res' = [act |-> "register", ok |-> FALSE, o |-> o, g |-> g, c |-> c]
            /\ UNCHANGED <<known, src>>
  /\ UNCHANGED ann

Next == \/ \E s \in Stores, g \in Groups, r \in {"A", "B", "C"} : Announce(s, g, r)
        \/ \E t \in Tampers : Damage(t)
        \/ \E o \in Stores, g \in Groups : \E c \in {DeviceKey(s, h) : s \in Stores, h \in Groups} : Register(o, g, c)
Spec == Init /\ [][Next]_vars

-----------------------------------------------------------------------------
\* the property's own condition: the opener holds the recipient member key for that group, claims the
\* true sender, the same group, and the ciphertext is untouched
Legit(a, o, g, c) == a.tam = "none" /\ g = a.ng /\ MemberKey(Acct(o), g) = a.rm /\ c = a.sd

C05a_OnlyLegit == (res.act = "register" /\ ann # <<>>) => (res.ok <=> Legit(ann[1], res.o, res.g, res.c))
\* every stored chain key is the chain key of that device in that group
C05a_RightKey == \A o \in Stores : \A x \in known[o] : src[o][x] = <<x[2], x[1]>>
C05a_Sticky == [][ \A o \in Stores : known[o] \subseteq known'[o] ]_vars
=============================================================================
