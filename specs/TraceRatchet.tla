---------------------------- MODULE TraceRatchet ----------------------------
(* TraceLog validation for Ratchet: every recorded call of the real secret store *)
(* must be the corresponding action of Ratchet with the observed outcome, and  *)
(* (strict mode) the projected datastore state must equal the model state.     *)
EXTENDS Ratchet, Json, IOUtils

TraceLog == ndJsonDeserialize(IOEnv.VERIF_TRACE)
Strict == IOEnv.VERIF_STRICT = "1"

VARIABLE l
tvars == <<vars, l>>

Ev == TraceLog[l]
Has(f) == f \in DOMAIN Ev
SetOf(s) == {s[i] : i \in DOMAIN s}

Consume(e) == l <= Len(TraceLog) /\ Ev.ev = e /\ l' = l + 1

\* strict mode: the datastore projection logged after the call equals the model's next state
StOK(d) == (Strict /\ Has("st")) =>
             /\ ck'[d] = Ev.st.ck
             /\ pre'[d] = SetOf(Ev.st.pre)
             /\ {k \in 1..sent'[d] : <<d, k>> \in cidk'} = SetOf(Ev.st.cid)
             /\ refs'[d] = <<Ev.st.refs[1], Ev.st.refs[2]>>

\* what a successful open must report: original payload, sealing device, its counter
Faithful == Ev.same /\ Ev.pdev /\ Ev.pk = Ev.k

TReset == /\ Consume("reset")
          /\ sent' = [d \in Dev |-> 0] /\ anns' = [d \in Dev |-> {}]
          /\ ck' = [d \in Dev |-> -1] /\ pre' = [d \in Dev |-> {}] /\ cidk' = {}
          /\ refs' = [d \in Dev |-> <<0, 0>>] /\ reg' = [d \in Dev |-> -1]
          /\ res' = [ok |-> TRUE]
TSeal == Consume("seal") /\ Seal(Ev.d) /\ res'.k = Ev.k
TAnnounce == Consume("announce") /\ Announce(Ev.d) /\ res'.a = Ev.a
TRegister == Consume("register") /\ Register(Ev.d, Ev.a) /\ res'.ok = Ev.ok /\ StOK(Ev.d)
TOpen == /\ Consume("open") /\ Open(Ev.d, Ev.k) /\ res'.ok = Ev.ok
         /\ (Ev.ok => Faithful) /\ StOK(Ev.d)
TPush == /\ Consume("push") /\ Push(Ev.d, Ev.k) /\ res'.ok = Ev.ok
         /\ (Ev.ok => Faithful /\ Ev.pgroup /\ res'.already = Ev.already) /\ StOK(Ev.d)
TRefs == Consume("refs") /\ UpdateRefs(Ev.d, Ev.x) /\ res'.ok = Ev.ok /\ StOK(Ev.d)

TNext == TReset \/ TSeal \/ TAnnounce \/ TRegister \/ TOpen \/ TPush \/ TRefs
TInit == Init /\ l = 1 /\ TLCSet(42, 1)
TSpec == TInit /\ [][TNext]_tvars

\* high-water mark of consumed lines (needs -workers 1)
Mark == TLCSet(42, IF l > TLCGet(42) THEN l ELSE TLCGet(42))
Accepted == LET hw == TLCGet(42) IN
              IF hw = Len(TraceLog) + 1 THEN TRUE
              ELSE /\ PrintT(<<"REJECTED", ToJson([high |-> hw - 1, line |-> TraceLog[hw]])>>)
                   /\ FALSE
=============================================================================
