--------------------------- MODULE TraceInvitation ---------------------------
(* Full-spec conformance for Invitation: each recorded join is the Join action *)
(* of the model (with the implementation choice JoinChecksType of the cfg),    *)
(* observed result, log growth and identity class.  Drift only.               *)
EXTENDS Invitation, Json, IOUtils

TraceLog == ndJsonDeserialize(IOEnv.VERIF_TRACE)
Strict == IOEnv.VERIF_STRICT = "1"

VARIABLE l
tvars == <<vars, l>>
Ev == TraceLog[l]
Has(f) == f \in DOMAIN Ev
Consume(e) == l <= Len(TraceLog) /\ Ev.ev = e /\ l' = l + 1
Keep == UNCHANGED <<inv, nmut, njoin, joined, loglen, res>>

\* every script uses fresh groups: the joined set starts empty
TReset == /\ Consume("reset") /\ joined' = [j \in Joiners |-> {}] /\ loglen' = [j \in Joiners |-> 0] /\ res' = [ok |-> TRUE]
          /\ UNCHANGED <<inv, nmut, njoin>>
ObservedIdent == IF Has("iderr") /\ Ev.iderr THEN "error"
                 ELSE IF Has("memacct") /\ Ev.memacct THEN "account" ELSE "derived"
TJoin == /\ Consume("join") /\ Join(Ev.inv, Ev.via)
         /\ res'.ok = Ev.ok /\ loglen'[Ev.via] - loglen[Ev.via] = Ev.grew
         /\ (Ev.ok => res'.ident = ObservedIdent /\ Ev.listed /\ (Has("stable") => Ev.stable))
         /\ UNCHANGED <<inv, nmut, njoin>>
TJoinFlips == Consume("joinflips") /\ Ev.nacc = 0 /\ Ev.grew = 0 /\ Keep
TJoinBase == Consume("joinbase") /\ Ev.ok /\ Ev.grew = 1 /\ Keep
TDesc == /\ Consume("desc") /\ Ev.ok /\ ~Ev.hassecret /\ ~Ev.hassig /\ Ev.dtype = 0
         /\ Ev.fullmeta = Ev.nmeta /\ Ev.fullhdr = Ev.nmsg
         /\ Ev.openedmeta = 0 /\ Ev.openedhdr = 0 /\ Ev.openedpayload = 0 /\ Ev.addrmeta /\ Ev.addrmsg /\ Keep

TNext == TReset \/ TJoin \/ TJoinFlips \/ TJoinBase \/ TDesc
TInit == Init /\ l = 1 /\ TLCSet(42, 1)
TSpec == TInit /\ [][TNext]_tvars

Mark == TLCSet(42, IF l > TLCGet(42) THEN l ELSE TLCGet(42))
Accepted == LET hw == TLCGet(42) IN
              IF hw = Len(TraceLog) + 1 THEN TRUE
              ELSE /\ PrintT(<<"REJECTED", ToJson([high |-> hw - 1, line |-> TraceLog[hw]])>>)
                   /\ FALSE
=============================================================================
