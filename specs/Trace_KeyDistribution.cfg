SPECIFICATION TSpec
CONSTANTS
  M1 = {"d11", "d12"}
  M2 = {"d21", "d22"}
  M3 = {"d31", "d32"}
  M4 = {"d41"}
  ImplHandlerSends = TRUE
  ImplSendExisting = TRUE
  ImplFill = TRUE
  ImplSubscribeFirst = TRUE
  ImplSentOwnOnly = TRUE
  ImplFilterMember = TRUE
  Causal = TRUE
  Eager = FALSE
CONSTRAINT Mark
POSTCONDITION Accepted
CHECK_DEADLOCK FALSE
