SPECIFICATION Spec
CONSTANTS
  Clients = {1, 2}
  OpKinds = {"act", "deact", "info", "sendm", "sendd", "listm", "listd", "sub", "cancel", "create", "join", "accept", "close"}
  ReqG = {"A", "C", "M"}
  MaxReq = 4
  MaxGen = 3
  MaxMsg = 3
  MaxAct = 3
  SendOnClosedOk = TRUE
  StaleDeactDeletes = TRUE
  ReactivateStacks = TRUE
CONSTRAINT Bound
INVARIANTS TypeOK OpenedIsOpen AcctIsOpenedA OneLiveContext
PROPERTIES ContactNeedsAccount LogsGrow
CHECK_DEADLOCK TRUE
