SPECIFICATION TSpec
CONSTANTS
  Clients = {1, 2}
  OpKinds = {"act", "deact", "info", "sendm", "sendd", "listm", "listd", "sub", "cancel", "create", "join", "accept", "close"}
  ReqG = {"A", "C", "M"}
  MaxReq = 1000000
  MaxGen = 1000000
  MaxMsg = 1000000
  MaxAct = 1000000
  SendOnClosedOk = TRUE
  StaleDeactDeletes = TRUE
  ReactivateStacks = TRUE
INVARIANTS TypeOK OpenedIsOpen AcctIsOpenedA OneLiveContext
CONSTRAINT Mark
POSTCONDITION Accepted
CHECK_DEADLOCK FALSE
