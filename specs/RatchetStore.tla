---------------------------- MODULE RatchetStore ----------------------------
(***************************************************************************)
(* Datastore-level refinement of Ratchet.tla (pkg/secretstore,             *)
(* secret_store_messages.go / secret_store.go / device_keystore_wrapper.go)*)
(* in which every datastore mutation (Put, Delete, Batch.Commit) is its    *)
(* own step, so that a crash can fall between any two of them (C10), and   *)
(* in which SealEnvelope run by several application threads is split at    *)
(* every chain-key read / write with the message mutex explicit (C09).     *)
(*                                                                         *)
(* Every device owns one store.  ds[s] is the durable content of the       *)
(* datastore of s: per peer device d the stored chain-key counter ck[d]    *)
(* (-1 unknown; ck[s] is s's own sending chain), the counters pre[d] that  *)
(* have a precomputed message key, the keys stored by CID, the push        *)
(* references (hints + first/last record), the group record and the named  *)
(* keys of the keystore (generation number, 0 = absent).                   *)
(*                                                                         *)
(* Main flow: one exported call at a time (cur).  At the call's start the  *)
(* list of mutations it is going to make is computed from the durable      *)
(* state (exact: the call holds messageMutex, nothing interleaves); each   *)
(* mutation is then applied by its own step.  Crash(s) drops the call in   *)
(* progress and the volatile state of s; Restart(s) brings s up on the     *)
(* surviving datastore; the workload goes on (retrying the interrupted     *)
(* call or not).                                                           *)
(* Seal threads (Thr): SealEnvelope on device D0 split into                *)
(*   Lock+Get(ck)=n ; Get(ck)=n2 ; Put(pre[n2+1]) ; Get(ck)=n3 ;           *)
(*   [n2+1>=n3] Put(ck=n2+1)+Unlock ; return counter n+1                   *)
(* Implementation choices (value of the current tree in brackets):         *)
(*   UseLock [TRUE]  CidFirst [TRUE]  EarlyReturn [FALSE]  MonoGE [TRUE]   *)
(***************************************************************************)
EXTENDS Integers, FiniteSets, Sequences, TLC

CONSTANTS Dev,         \* devices = stores
          Senders,     \* devices that seal in the main flow
          Thr,         \* seal threads (all on device D0)
          D0,
          MsgPerThr,   \* messages each thread seals
          KeyNames,    \* names of keystore entries
          JoinKeys,    \* named keys a Join needs
          W, N,        \* PreComputedKeysCount, PrecomputeOutOfStoreGroupRefsCount
          MaxSent, MaxOps, MaxCrash,
          Batching,    \* datastore has atomic batches (badger) or not
          UseLock,     \* SealEnvelope takes messageMutex
          CidFirst,    \* postDecryptActions: key-by-CID is stored before the precomputed key is deleted
          EarlyReturn, \* the envelope is handed out before the chain key is stored
          MonoGE,      \* updateCurrentKey stores iff new counter >= stored counter
          InitJoined   \* start with every store already in the group

VARIABLES ds, up, cur, thr, lock, gen,
          ret,      \* [Dev -> SUBSET Nat]   counters of envelopes handed to callers
          dupl,     \* [Dev -> SUBSET Nat]   counters handed out more than once
          anns,     \* [Dev -> SUBSET Nat]   counters at which a chain-key announcement exists
          opened,   \* [Dev -> SUBSET (Dev \X Nat)] messages an Open call reported as opened
          regAt,    \* [Dev -> [Dev -> Int]] announcement counter registered first (-1)
          inuse,    \* [Dev -> [KeyNames -> Nat]] named keys handed to callers
          qo,       \* [Dev -> SUBSET (Dev \X Nat)] what was openable when the last call on s began
          crashes, nops,
          res, lab  \* last outcome / label of the last datastore operation (for trace binding)

vars == <<ds, up, cur, thr, lock, gen, ret, dupl, anns, opened, regAt, inuse, qo, crashes, nops, res, lab>>
view == <<ds, up, cur, thr, lock, gen, ret, dupl, anns, opened, regAt, inuse, qo, crashes, nops>>

MaxK == MaxSent + W + MaxOps + 1
Ctr == 0..MaxK

M(cls, kind, d, c, c2) == [cls |-> cls, kind |-> kind, d |-> d, c |-> c, c2 |-> c2]
NoLab == M("", "", "", 0, 0)

RECURSIVE AscSeq(_)
AscSeq(S) == IF S = {} THEN <<>>
              ELSE LET m == CHOOSE x \in S : \A y \in S : x <= y IN <<m>> \o AscSeq(S \ {m})

\* ------------------------------------------------------------ durable state
EmptyStore == [ck |-> [d \in Dev |-> -1], pre |-> [d \in Dev |-> {}], cid |-> {},
               hints |-> [d \in Dev |-> {}], refs |-> [d \in Dev |-> <<0, 0>>],
               grp |-> FALSE, nk |-> [n \in KeyNames |-> 0]]

Apply(D, m) ==
  CASE m.cls = "chainKey"                      -> [D EXCEPT !.ck[m.d] = m.c]
    [] m.cls = "precomputed" /\ m.kind = "put" -> [D EXCEPT !.pre[m.d] = @ \cup {m.c}]
    [] m.cls = "precomputed" /\ m.kind = "del" -> [D EXCEPT !.pre[m.d] = @ \ {m.c}]
    [] m.cls = "precomputed" /\ m.kind = "batch" -> [D EXCEPT !.pre[m.d] = @ \cup (m.c..m.c2)]
    [] m.cls = "byCID"                         -> [D EXCEPT !.cid = @ \cup {<<m.d, m.c>>}]
    [] m.cls = "hint" /\ m.kind = "put"        -> [D EXCEPT !.hints[m.d] = @ \cup {m.c}]
    [] m.cls = "hint" /\ m.kind = "del"        -> [D EXCEPT !.hints[m.d] = @ \ {m.c}]
    [] m.cls = "hintCounters"                  -> [D EXCEPT !.refs[m.d] = <<m.c, m.c2>>]
    [] m.cls = "group"                         -> [D EXCEPT !.grp = TRUE]
    [] m.cls = "keystore"                      -> [D EXCEPT !.nk[m.d] = m.c]
    [] OTHER                                   -> D

RECURSIVE ApplyAll(_, _)
ApplyAll(D, ms) == IF ms = <<>> THEN D ELSE ApplyAll(Apply(D, Head(ms)), Tail(ms))

\* an Open call succeeds iff the key is stored by CID, or precomputed AND the chain key is known
\* (postDecryptActions needs the chain key to precompute the next key; see OpenPlan)
OpenableIn(D, d, k) == <<d, k>> \in D.cid \/ (k \in D.pre[d] /\ D.ck[d] # -1)
Openable(s, d, k) == OpenableIn(ds[s], d, k)
OpenableSet(s) == {p \in Dev \X Ctr : Openable(s, p[1], p[2])}

\* ------------------------------------------------- mutation lists of the calls
\* putPrecomputedKeys: through a batch whenever the datastore has batches, even for a single key
PrePut(d, c) == IF Batching THEN M("precomputed", "batch", d, c, c) ELSE M("precomputed", "put", d, c, 0)
\* SealEnvelope / deriveDeviceChainKey on the sender's own store
SealPlan(D, d) ==
  LET n == D.ck[d] IN
  IF n = -1 THEN [plan |-> <<>>, ok |-> FALSE, k |-> 0]
  ELSE [plan |-> <<PrePut(d, n + 1), M("chainKey", "put", d, n + 1, 0)>>, ok |-> TRUE, k |-> n + 1]

\* OpenEnvelopePayload -> openPayload + postDecryptActions, store s, message k of d
OpenPlan(D, s, d, k) ==
  IF <<d, k>> \in D.cid THEN [plan |-> <<>>, ok |-> TRUE, k |-> k]
  ELSE IF k \notin D.pre[d] THEN [plan |-> <<>>, ok |-> FALSE, k |-> k]
  ELSE LET c == D.ck[d]
           mc == M("byCID", "put", d, k, 0)
           md == M("precomputed", "del", d, k, 0)
           two == IF CidFirst THEN <<mc, md>> ELSE <<md, mc>>
       IN IF c = -1 THEN [plan |-> two, ok |-> FALSE, k |-> k]  \* preComputeNextKey fails: no chain key
          ELSE [plan |-> two \o <<PrePut(d, c + 1)>>
                             \o (IF s # d THEN <<M("chainKey", "put", d, c + 1, 0)>> ELSE <<>>),
                ok |-> TRUE, k |-> k]

\* UpdateOutOfStoreGroupReferences(first = x)
RefsMuts(D, d, x) ==
  LET old == (D.refs[d][1])..(D.refs[d][2] - 1)
      new == (x - N)..(x + N - 1)
      dels == AscSeq(old \ new)
      puts == AscSeq(new \ old)
  IN [i \in 1..Len(dels) |-> M("hint", "del", d, dels[i], 0)]
     \o [i \in 1..Len(puts) |-> M("hint", "put", d, puts[i], 0)]
     \o <<M("hintCounters", "put", d, x - N, x + N)>>

\* RegisterChainKey of the announcement d made at counter a, on store s # d
RegisterPlan(D, s, d, a) ==
  IF D.ck[d] # -1 THEN [plan |-> <<>>, ok |-> TRUE, k |-> a]
  ELSE LET win == IF Batching THEN <<M("precomputed", "batch", d, a + 1, a + W)>>
                  ELSE [i \in 1..W |-> M("precomputed", "put", d, a + i, 0)]
       IN [plan |-> win \o <<M("chainKey", "put", d, a + W, 0)>> \o RefsMuts(D, d, a + W),
           ok |-> TRUE, k |-> a]

\* ------------------------------------------------------------------- state
Idle == [op |-> "idle", s |-> "", d |-> "", x |-> 0, plan |-> <<>>, ok |-> TRUE, k |-> 0, need |-> {}, full |-> FALSE]
TIdle == [st |-> "idle", n |-> 0, n2 |-> 0, m |-> MsgPerThr]

JoinedStore(s) == [EmptyStore EXCEPT !.ck[s] = 0, !.grp = TRUE, !.nk = [n \in KeyNames |-> IF n \in JoinKeys THEN 1 ELSE 0]]

Init == /\ ds = [s \in Dev |-> IF InitJoined THEN JoinedStore(s) ELSE EmptyStore]
        /\ up = [s \in Dev |-> TRUE]
        /\ cur = Idle /\ thr = [t \in Thr |-> TIdle] /\ lock = [s \in Dev |-> "none"]
        /\ gen = 1
        /\ ret = [d \in Dev |-> {}] /\ dupl = [d \in Dev |-> {}]
        /\ anns = [d \in Dev |-> IF InitJoined THEN {0} ELSE {}]
        /\ opened = [s \in Dev |-> {}]
        /\ regAt = [s \in Dev |-> [d \in Dev |-> -1]]
        /\ inuse = [s \in Dev |-> [n \in KeyNames |-> IF InitJoined /\ n \in JoinKeys THEN 1 ELSE 0]]
        /\ qo = [s \in Dev |-> {}]
        /\ crashes = 0 /\ nops = 0 /\ res = [ok |-> TRUE] /\ lab = NoLab

ThreadsQuiet == \A t \in Thr : thr[t].st \in {"idle", "done"} /\ (thr[t].st = "idle" => thr[t].m = MsgPerThr \/ thr[t].m = 0)
ThreadsDone == \A t \in Thr : thr[t].st = "done" \/ thr[t].m = 0

Handed(d, k) == /\ ret' = [ret EXCEPT ![d] = @ \cup {k}]
                /\ dupl' = [dupl EXCEPT ![d] = IF k \in ret[d] THEN @ \cup {k} ELSE @]

\* --------------------------------------------------------------- main flow
Start(op, s, d, x, P) ==
  /\ cur.op = "idle" /\ up[s] /\ nops < MaxOps /\ lock[s] = "none"
  /\ (Thr # {} => ThreadsDone)
  /\ cur' = [op |-> op, s |-> s, d |-> d, x |-> x, plan |-> P.plan, ok |-> P.ok, k |-> P.k, need |-> {}, full |-> FALSE]
  /\ lock' = [lock EXCEPT ![s] = "main"]
  /\ qo' = [qo EXCEPT ![s] = OpenableSet(s)]
  /\ nops' = nops + 1 /\ lab' = NoLab

BeginSeal(d) ==
  /\ d \in Senders /\ ds[d].ck[d] < MaxSent
  /\ Start("seal", d, d, 0, SealPlan(ds[d], d))
  /\ IF EarlyReturn /\ ds[d].ck[d] # -1
       THEN Handed(d, ds[d].ck[d] + 1)
       ELSE UNCHANGED <<ret, dupl>>
  /\ UNCHANGED <<ds, up, thr, gen, anns, opened, regAt, inuse, crashes, res>>

BeginOpen(s, d, k) ==
  /\ k \in ret[d]
  /\ Start("open", s, d, k, OpenPlan(ds[s], s, d, k))
  /\ UNCHANGED <<ds, up, thr, gen, ret, dupl, anns, opened, regAt, inuse, crashes, res>>

BeginRegister(s, d, a) ==
  /\ s # d /\ a \in anns[d]
  /\ Start("register", s, d, a, RegisterPlan(ds[s], s, d, a))
  /\ UNCHANGED <<ds, up, thr, gen, ret, dupl, anns, opened, regAt, inuse, crashes, res>>

\* PutGroup + GetOwnMemberDeviceForGroup (+ account key creation / import): named keys are
\* get-or-generate, the group record is put once, the own chain key (counter 0) comes last
BeginJoin(s) ==
  /\ cur.op = "idle" /\ up[s] /\ nops < MaxOps /\ lock[s] = "none"
  /\ cur' = [Idle EXCEPT !.op = "join", !.s = s, !.d = s, !.need = {n \in JoinKeys : ds[s].nk[n] = 0}, !.full = TRUE]
  /\ lock' = [lock EXCEPT ![s] = "main"]
  /\ qo' = [qo EXCEPT ![s] = OpenableSet(s)]
  /\ nops' = nops + 1 /\ lab' = NoLab
  /\ UNCHANGED <<ds, up, thr, gen, ret, dupl, anns, opened, regAt, inuse, crashes, res>>

JoinStep ==
  /\ cur.op = "join"
  /\ \/ \E n \in cur.need :
          /\ ds' = [ds EXCEPT ![cur.s].nk[n] = gen]
          /\ gen' = gen + 1
          /\ cur' = [cur EXCEPT !.need = @ \ {n}]
          /\ lab' = M("keystore", "put", n, 0, 0)
     \/ /\ ~ds[cur.s].grp
        /\ ds' = [ds EXCEPT ![cur.s].grp = TRUE]
        /\ lab' = M("group", "put", "", 0, 0)
        /\ UNCHANGED <<gen, cur>>
     \/ /\ cur.need = {} /\ ds[cur.s].grp /\ ds[cur.s].ck[cur.s] = -1
        /\ ds' = [ds EXCEPT ![cur.s].ck[cur.s] = 0]
        /\ lab' = M("chainKey", "put", cur.s, 0, 0)
        /\ UNCHANGED <<gen, cur>>
  /\ UNCHANGED <<up, thr, lock, ret, dupl, anns, opened, regAt, inuse, qo, crashes, nops, res>>

Step ==
  /\ cur.op \notin {"idle", "join"} /\ cur.plan # <<>>
  /\ ds' = [ds EXCEPT ![cur.s] = Apply(@, Head(cur.plan))]
  /\ lab' = Head(cur.plan)
  /\ cur' = [cur EXCEPT !.plan = Tail(@)]
  \* the registration is durable from the moment the chain key is stored
  /\ regAt' = IF cur.op = "register" /\ Head(cur.plan).cls = "chainKey"
                THEN [regAt EXCEPT ![cur.s][cur.d] = cur.x] ELSE regAt
  /\ UNCHANGED <<up, thr, lock, gen, ret, dupl, anns, opened, inuse, qo, crashes, nops, res>>

Return ==
  /\ cur.op # "idle"
  /\ IF cur.op = "join" THEN cur.need = {} /\ ds[cur.s].grp /\ ds[cur.s].ck[cur.s] # -1 ELSE cur.plan = <<>>
  /\ lock' = [lock EXCEPT ![cur.s] = "none"]
  /\ res' = [ok |-> cur.ok, k |-> cur.k]
  /\ IF cur.op = "seal" /\ cur.ok /\ ~EarlyReturn THEN Handed(cur.d, cur.k) ELSE UNCHANGED <<ret, dupl>>
  /\ anns' = IF cur.op = "seal" /\ cur.ok THEN [anns EXCEPT ![cur.d] = @ \cup {cur.k}]
             ELSE IF cur.op = "join" THEN [anns EXCEPT ![cur.s] = @ \cup {ds[cur.s].ck[cur.s]}]
             ELSE anns
  /\ opened' = IF cur.op = "open" /\ cur.ok THEN [opened EXCEPT ![cur.s] = @ \cup {<<cur.d, cur.x>>}] ELSE opened
  /\ inuse' = IF cur.op = "join" THEN [inuse EXCEPT ![cur.s] = [n \in KeyNames |-> IF n \in JoinKeys THEN ds[cur.s].nk[n] ELSE @[n]]] ELSE inuse
  /\ cur' = Idle /\ lab' = NoLab
  /\ UNCHANGED <<ds, up, thr, gen, regAt, qo, crashes, nops>>

\* ------------------------------------------------------------ seal threads
TBegin(t) == /\ thr[t].st = "idle" /\ thr[t].m > 0 /\ up[D0] /\ cur.op = "idle"
             /\ thr' = [thr EXCEPT ![t].st = "get1"] /\ lab' = NoLab
             /\ UNCHANGED <<ds, up, cur, lock, gen, ret, dupl, anns, opened, regAt, inuse, qo, crashes, nops, res>>
TGet1(t) == /\ thr[t].st = "get1" /\ (UseLock => lock[D0] = "none")
            /\ lock' = IF UseLock THEN [lock EXCEPT ![D0] = t] ELSE lock
            /\ thr' = [thr EXCEPT ![t].st = "get2", ![t].n = ds[D0].ck[D0]]
            /\ lab' = M("chainKey", "get", D0, ds[D0].ck[D0], 0)
            /\ IF EarlyReturn THEN Handed(D0, ds[D0].ck[D0] + 1) ELSE UNCHANGED <<ret, dupl>>
            /\ UNCHANGED <<ds, up, cur, gen, anns, opened, regAt, inuse, qo, crashes, nops, res>>
TGet2(t) == /\ thr[t].st = "get2"
            /\ thr' = [thr EXCEPT ![t].st = "putpre", ![t].n2 = ds[D0].ck[D0]]
            /\ lab' = M("chainKey", "get", D0, ds[D0].ck[D0], 0)
            /\ UNCHANGED <<ds, up, cur, lock, gen, ret, dupl, anns, opened, regAt, inuse, qo, crashes, nops, res>>
TPutPre(t) == /\ thr[t].st = "putpre"
              /\ ds' = [ds EXCEPT ![D0].pre[D0] = @ \cup {thr[t].n2 + 1}]
              /\ thr' = [thr EXCEPT ![t].st = "get3"]
              /\ lab' = PrePut(D0, thr[t].n2 + 1)
              /\ UNCHANGED <<up, cur, lock, gen, ret, dupl, anns, opened, regAt, inuse, qo, crashes, nops, res>>
Stores(new, stored) == IF MonoGE THEN new >= stored ELSE new > stored
TGet3(t) == /\ thr[t].st = "get3"
            /\ lab' = M("chainKey", "get", D0, ds[D0].ck[D0], 0)
            /\ IF Stores(thr[t].n2 + 1, ds[D0].ck[D0])
                 THEN thr' = [thr EXCEPT ![t].st = "putck"] /\ UNCHANGED lock
                 ELSE /\ thr' = [thr EXCEPT ![t].st = "ret"]
                      /\ lock' = IF lock[D0] = t THEN [lock EXCEPT ![D0] = "none"] ELSE lock
            /\ UNCHANGED <<ds, up, cur, gen, ret, dupl, anns, opened, regAt, inuse, qo, crashes, nops, res>>
TPutCk(t) == /\ thr[t].st = "putck"
             /\ ds' = [ds EXCEPT ![D0].ck[D0] = thr[t].n2 + 1]
             /\ thr' = [thr EXCEPT ![t].st = "ret"]
             /\ lock' = IF lock[D0] = t THEN [lock EXCEPT ![D0] = "none"] ELSE lock
             /\ lab' = M("chainKey", "put", D0, thr[t].n2 + 1, 0)
             /\ UNCHANGED <<up, cur, gen, ret, dupl, anns, opened, regAt, inuse, qo, crashes, nops, res>>
TRet(t) == /\ thr[t].st = "ret"
           /\ thr' = [thr EXCEPT ![t].st = IF thr[t].m = 1 THEN "done" ELSE "idle", ![t].m = @ - 1]
           /\ IF EarlyReturn THEN UNCHANGED <<ret, dupl>> ELSE Handed(D0, thr[t].n + 1)
           /\ anns' = [anns EXCEPT ![D0] = @ \cup {thr[t].n + 1}]
           /\ res' = [ok |-> TRUE, k |-> thr[t].n + 1] /\ lab' = NoLab
           /\ UNCHANGED <<ds, up, cur, lock, gen, opened, regAt, inuse, qo, crashes, nops>>
TNext(t) == TBegin(t) \/ TGet1(t) \/ TGet2(t) \/ TPutPre(t) \/ TGet3(t) \/ TPutCk(t) \/ TRet(t)

\* ------------------------------------------------------------ crash / restart
Busy(s) == (cur.op # "idle" /\ cur.s = s) \/ (s = D0 /\ \E t \in Thr : thr[t].st \notin {"idle", "done"})
Crash(s) ==
  /\ up[s] /\ crashes < MaxCrash /\ Busy(s)
  /\ up' = [up EXCEPT ![s] = FALSE]
  /\ cur' = IF cur.s = s THEN Idle ELSE cur
  /\ thr' = IF s = D0 THEN [t \in Thr |-> IF thr[t].st \in {"idle", "done"} THEN thr[t] ELSE [thr[t] EXCEPT !.st = "done", !.m = 0]] ELSE thr
  /\ lock' = [lock EXCEPT ![s] = "none"]
  /\ crashes' = crashes + 1 /\ lab' = NoLab
  /\ UNCHANGED <<ds, gen, ret, dupl, anns, opened, regAt, inuse, qo, nops, res>>
Restart(s) ==
  /\ ~up[s] /\ up' = [up EXCEPT ![s] = TRUE] /\ lab' = NoLab
  /\ UNCHANGED <<ds, cur, thr, lock, gen, ret, dupl, anns, opened, regAt, inuse, qo, crashes, nops, res>>

Next == \/ \E d \in Dev : BeginSeal(d) \/ BeginJoin(d) \/ Crash(d) \/ Restart(d)
        \/ \E s, d \in Dev : \E k \in 1..MaxSent : BeginOpen(s, d, k)
        \/ \E s, d \in Dev : \E a \in 0..MaxSent : BeginRegister(s, d, a)
        \/ Step \/ JoinStep \/ Return
        \/ \E t \in Thr : TNext(t)

Spec == Init /\ [][Next]_vars

-----------------------------------------------------------------------------
TypeOK == /\ \A s \in Dev : \A d \in Dev : ds[s].ck[d] \in -1..MaxK /\ ds[s].pre[d] \subseteq Ctr
          /\ cur.op \in {"idle", "seal", "open", "register", "join"}
          /\ crashes \in 0..MaxCrash /\ nops \in 0..MaxOps

\* C10 (1): a message that an Open call reported as opened can be opened again, whatever happened since
C10_OpenedStay == \A s \in Dev : \A p \in opened[s] : Openable(s, p[1], p[2])
\* C10 (2): what was openable when the interrupted call began is openable on the surviving datastore
C10_OpenableStay == \A s \in Dev : ~up[s] => qo[s] \subseteq OpenableSet(s)
\* ... and stays so while the workload goes on (every single step, so also across any later stop)
C10_Monotone == [][\A s \in Dev : \A d \in Dev : \A k \in Ctr : Openable(s, d, k) => Openable(s, d, k)']_vars
\* C10 (3) / C09: a counter is handed to a caller at most once
NoReuse == \A d \in Dev : dupl[d] = {}
\* C10 (4): a named key handed to a caller is the one the keystore holds
C10_KeysStable == \A s \in Dev : \A n \in KeyNames : inuse[s][n] # 0 => ds[s].nk[n] = inuse[s][n]

\* C09: without a stop, the counters handed out by a device are 1..n once every thread returned
C09_GapFree == (crashes = 0 /\ cur.op = "idle" /\ \A t \in Thr : thr[t].st \in {"idle", "done"})
                 => \A d \in Dev : ret[d] = 1..Cardinality(ret[d])
\* C09: the stored chain-key counter never decreases
C09_Monotone == [][\A s \in Dev : \A d \in Dev : ds'[s].ck[d] >= ds[s].ck[d]]_vars
\* C09: every envelope handed out inside the registered window opens at the registered receiver
C09_Opens == \A s \in Dev : \A d \in Dev : \A k \in ret[d] :
               (regAt[s][d] # -1 /\ regAt[s][d] < k /\ k <= regAt[s][d] + W) => Openable(s, d, k)

\* Link to the abstract model: while nothing was interrupted, every receiving store at rest satisfies the
\* mechanism invariant of Ratchet.tla (Mech): stored counter = registered counter + window + number of
\* messages opened, and everything in between is either opened or precomputed.
OpenedBy(s, d) == {p[2] : p \in {q \in opened[s] : q[1] = d}}
RefinesMech == (crashes = 0 /\ cur.op = "idle") =>
  \A s \in Dev : \A d \in Dev \ {s} :
    IF ds[s].ck[d] = -1 THEN ds[s].pre[d] = {} /\ regAt[s][d] = -1 /\ OpenedBy(s, d) = {}
    ELSE /\ ds[s].ck[d] = regAt[s][d] + W + Cardinality(OpenedBy(s, d))
         /\ ((regAt[s][d] + 1)..ds[s].ck[d]) \ OpenedBy(s, d) \subseteq ds[s].pre[d]
         /\ ds[s].pre[d] \subseteq (regAt[s][d] + 1)..(ds[s].ck[d] + 1)
         /\ OpenedBy(s, d) \subseteq (regAt[s][d] + 1)..ds[s].ck[d]
=============================================================================
