--------------------------- MODULE ContactManager ---------------------------
(***************************************************************************)
(* The contact-request manager of an account (contact_request_manager.go)  *)
(* with the parts of the swiper (tinder_swiper.go), of the account-group   *)
(* metadata store (store_metadata.go: the contact-request operations and   *)
(* their guards, DESIGN.md appendix A) and of the handshake it drives.     *)
(*                                                                         *)
(* One action per code step that another goroutine can separate:           *)
(*   - the store operations of the environment (user API, other devices);  *)
(*   - the manager's watcher goroutine: subscribe, read the index and      *)
(*     enable, enqueue every to-request contact, then one event per step;  *)
(*   - close(): cancel the context, then (under the manager lock) disable; *)
(*   - per lookup TWO goroutines: the swiper's watch loop W (fetch a peer  *)
(*     of the topic, offer it on the unbuffered channel, stop on cancel,   *)
(*     close the channel one second later) and the manager's sender P      *)
(*     (take a peer, perform the send, on success or when the channel is   *)
(*     closed cancel "the" lookup of the contact and leave);               *)
(*   - the peers of a contact: advertise on the contact's rendezvous       *)
(*     point, request the account (incoming handshake).                    *)
(*                                                                         *)
(* The model describes what the code DOES.  Choices that make a design     *)
(* invariant fail are constants (TRUE = the code today):                   *)
(*   ExitCancelsAny       the sender's final cancelContactLookup(pk)       *)
(*                        cancels whatever lookup is registered for the    *)
(*                        contact, not only its own                        *)
(*   OfferIgnoresCancel   watchPeers offers a peer with a plain channel    *)
(*                        send (no select on the context)                  *)
(*   StartIgnoresClose    the watcher's start-up does not look at the      *)
(*                        context: a close() that wins the race is undone  *)
(*   LoopHandlesAfterClose  select{event, ctx.Done} may take an event      *)
(*                        after close()                                    *)
(*   DisableKeepsLookups  disabling (incoming) requests keeps the outgoing *)
(*                        lookups (deliberate)                             *)
(*   BlockKeepsLookup     the manager does not subscribe to block events   *)
(*   ClosedHandlerAppends an incoming request handled by the stream        *)
(*                        handler of a closed manager is still appended    *)
(***************************************************************************)
EXTENDS Integers, Sequences, FiniteSets, TLC

CONSTANTS Contacts,      \* contact accounts
          Kinds,         \* peers per contact: "good" holds the contact's key, "bad" only advertises / claims
          OpKinds,       \* store operations of the environment
          MaxOps,        \* bound on environment operations (store operations + incoming requests)
          MaxSeed,       \* bound on reference resets
          MaxLk,         \* lookup slots (asserted, not a guard)
          MaxGen,        \* manager instances (service start, re-activation of the account group)
          WithRefused,   \* the environment also tries operations the store refuses (no state change)
          ExitCancelsAny, OfferIgnoresCancel, StartIgnoresClose, LoopHandlesAfterClose,
          DisableKeepsLookups, BlockKeepsLookup, ClosedHandlerAppends

VARIABLES log,     \* account-group log: sequence of [t, c, s] (history; the index below is what the code reads)
          ien, iseed, cst, nrs,    \* the index: requests enabled, current seed (0 none), contact -> state, resets so far
          nops,    \* environment operations so far
          sub,     \* the watcher's event subscription is open
          q,       \* events emitted to the subscription, not handled yet
          gen,     \* number of manager instances created
          mpc,     \* watcher: "none" | "new" | "subd" | "listed" | "loop" | "done"
          closed,  \* close() cancelled the manager's context
          cfin,    \* close() finished (locked part done)
          en,      \* manager.enabled
          seed,    \* manager.ownRendezvousSeed (0 = nil)
          ann,     \* announce context: 0 = announceCancel nil, k = Announce(pk, seed k) started
          hdl,     \* stream handler registered on the host: 0 none, g = by manager instance g
          todo,    \* start-up: to-request contacts still to enqueue
          lkmap,   \* manager.lookupProcess: contact -> lookup id (0 none, -1 a lookup that is already a zombie)
          procs,   \* lookup id -> the two goroutines of the lookup
          z,       \* contact -> number of zombies: cancelled lookups whose channel is not closed yet
          leak,    \* contacts with a watch loop blocked for ever
          adv,     \* contact -> kinds of peers advertising on its point (the swiper's tinder cache keeps them)
          told,    \* <<contact, its state at that time>>: a peer completed a handshake as responder and
                   \* received the account's contact (key, rendezvous seed, metadata)
          res      \* outcome of the last environment action

idx == <<ien, iseed, cst, nrs>>
vars == <<log, idx, nops, sub, q, gen, mpc, closed, cfin, en, seed, ann, hdl, todo, lkmap, procs, z, leak, adv, told, res>>

Ev(t, c, s) == [t |-> t, c |-> c, s |-> s]
None == Ev("none", "-", 0)
NoProc == [c |-> "-", can |-> FALSE, p |-> "none", pk |-> "-", w |-> "none", wk |-> "-", seen |-> {}]
Ids == 1..MaxLk

\* --------------------------------------------------------------- the index (latest event wins)
StateAfter(t) == CASE t = "enq" -> "T" [] t = "sent" -> "A" [] t = "recv" -> "R" [] t = "disc" -> "D"
                   [] t = "acc" -> "A" [] t = "blk" -> "B" [] t = "unb" -> "X"
CState(c) == IF c \in Contacts THEN cst[c] ELSE "U"
ToRequest == {c \in Contacts : cst[c] = "T"}
\* the same, computed from the log (IndexIsLog: the index variables are a function of the log)
Last(S) == CHOOSE i \in S : \A j \in S : j <= i
EventsOf(c) == {i \in 1..Len(log) : log[i].c = c}
Switches == {i \in 1..Len(log) : log[i].t \in {"en", "dis"}}
Resets == {i \in 1..Len(log) : log[i].t = "rs"}
IndexIsLog == /\ ien = (Switches # {} /\ log[Last(Switches)].t = "en")
              /\ iseed = (IF Resets = {} THEN 0 ELSE log[Last(Resets)].s) /\ nrs = Cardinality(Resets)
              /\ \A c \in Contacts : cst[c] = IF EventsOf(c) = {} THEN "U" ELSE StateAfter(log[Last(EventsOf(c))].t)

\* --------------------------------------------------------------- the store's guards (appendix A)
OpEvent(t, c) ==
  CASE t = "en"   -> Ev("en", "-", 0)
    [] t = "dis"  -> Ev("dis", "-", 0)
    [] t = "rs"   -> Ev("rs", "-", nrs + 1)
    [] t = "enq"  -> IF c \notin Contacts THEN None      \* the account's own key
                     ELSE IF CState(c) \in {"U", "T", "B"} THEN Ev("enq", c, 0)
                     ELSE IF CState(c) \in {"R", "X", "D"} THEN Ev("sent", c, 0) ELSE None
    [] t = "sent" -> IF CState(c) \in {"T", "R", "X", "D"} THEN Ev("sent", c, 0) ELSE None
    [] t = "blk"  -> IF CState(c) # "B" THEN Ev("blk", c, 0) ELSE None
    [] t = "unb"  -> IF CState(c) = "B" THEN Ev("unb", c, 0) ELSE None
    [] t = "acc"  -> IF CState(c) = "R" THEN Ev("acc", c, 0) ELSE None
    [] t = "disc" -> IF CState(c) = "R" THEN Ev("disc", c, 0) ELSE None
IncomingEvent(c) == IF CState(c) \in {"U", "X", "D"} THEN Ev("recv", c, 0)
                    ELSE IF CState(c) = "T" THEN Ev("sent", c, 0) ELSE None

\* append = index update + emission to the open subscription
Emit(e) == /\ log' = Append(log, e)
           /\ q' = IF sub THEN Append(q, e) ELSE q
           /\ ien' = IF e.t \in {"en", "dis"} THEN e.t = "en" ELSE ien
           /\ iseed' = IF e.t = "rs" THEN e.s ELSE iseed
           /\ nrs' = IF e.t = "rs" THEN nrs + 1 ELSE nrs
           /\ cst' = IF e.c \in Contacts THEN [cst EXCEPT ![e.c] = StateAfter(e.t)] ELSE cst
NoEmit == UNCHANGED <<log, q, idx>>

\* --------------------------------------------------------------- lookups
\* A lookup = the swiper's watch goroutine W (w) and the manager's sender goroutine P (p):
\*   w: "run" in watchPeers' select | "offer" blocked in `out <- peer` (wk) | "closing" watchPeers returned
\*      (tinder subscription closed), sleeping one second before the channel is closed | "gone"
\*   p: "watch" in `range cpeers` | "got" a peer in hand (pk), SendContactRequest to come | "gone"
\* All lookups in `procs` belong to the current manager instance (its close() cancels them all, and a
\* new instance is only created after close()).  Two shapes are final and are only counted:
\*   zombie (w = "closing", p = "watch"): nothing but the slow exit is left to it      -> z[c]
\*   leaked (p = "gone", w = "offer"): W blocked for ever in the channel send           -> leak
Canc(id) == procs[id].can \/ closed
Free == {id \in Ids : procs[id] = NoProc}
CancelIn(P, id) == IF id <= 0 THEN P ELSE [P EXCEPT ![id].can = TRUE]
IsZombie(pr) == pr.w = "closing" /\ pr.p = "watch"
IsLeak(pr) == pr.p = "gone" /\ pr.w = "offer" /\ OfferIgnoresCancel
IsDone(pr) == pr.p = "gone" /\ pr.w = "gone"
\* counting the final shapes out of the slots (P, L: the new procs and lookupProcess before counting)
SettleZ(P, L, Z) ==
  /\ procs' = [id \in Ids |-> IF IsZombie(P[id]) \/ IsLeak(P[id]) \/ IsDone(P[id]) THEN NoProc ELSE P[id]]
  /\ z' = [c \in Contacts |-> Z[c] + Cardinality({id \in Ids : IsZombie(P[id]) /\ P[id].c = c})]
  /\ leak' = leak \cup {P[id].c : id \in {i \in Ids : IsLeak(P[i])}}
  /\ lkmap' = [c \in Contacts |-> IF L[c] > 0 /\ IsZombie(P[L[c]]) THEN -1 ELSE L[c]]
Settle(P, L) == SettleZ(P, L, z)

\* enqueueRequest(c): refused for an added contact; otherwise registerContactLookup (cancels the
\* registered lookup of the contact) + WatchTopic + the sender goroutine
Register(c) ==
  IF CState(c) = "A" THEN UNCHANGED <<lkmap, procs, z, leak>>
  ELSE /\ Assert(Free # {}, "MaxLk too small")
       /\ LET id == CHOOSE i \in Free : \A j \in Free : i <= j IN
            Settle([CancelIn(procs, lkmap[c]) EXCEPT
                      ![id] = [c |-> c, can |-> FALSE, p |-> "watch", pk |-> "-", w |-> "run", wk |-> "-", seen |-> {}]],
                   [lkmap EXCEPT ![c] = id])
\* cancelContactLookup(c)
Unregister(c) == Settle(CancelIn(procs, lkmap[c]), [lkmap EXCEPT ![c] = 0])

\* W: watchPeers takes a peer of the topic from the tinder subscription and offers it on the unbuffered
\* channel: the sender takes it at once when it is receiving, otherwise W stays blocked in the send
WFetch(id, k) == /\ procs[id].w = "run" /\ ~Canc(id)
                 /\ k \in adv[procs[id].c] \ procs[id].seen
                 /\ procs' = IF procs[id].p = "watch"
                               THEN [procs EXCEPT ![id].seen = @ \cup {k}, ![id].p = "got", ![id].pk = k]
                               ELSE [procs EXCEPT ![id].seen = @ \cup {k}, ![id].w = "offer", ![id].wk = k]
                 /\ UNCHANGED <<log, idx, nops, sub, q, gen, mpc, closed, cfin, en, seed, ann, hdl, todo, lkmap, z, leak, adv, told, res>>
Handoff(id) == /\ procs[id].w = "offer" /\ procs[id].p = "watch"
               /\ procs' = [procs EXCEPT ![id].w = "run", ![id].wk = "-", ![id].p = "got", ![id].pk = procs[id].wk]
               /\ UNCHANGED <<log, idx, nops, sub, q, gen, mpc, closed, cfin, en, seed, ann, hdl, todo, lkmap, z, leak, adv, told, res>>
\* W: the context is done: watchPeers returns, the tinder subscription is closed
WStopEnabled(id) == Canc(id) /\ (procs[id].w = "run" \/ (procs[id].w = "offer" /\ ~OfferIgnoresCancel))
WStop(id) == /\ WStopEnabled(id)
             /\ Settle([procs EXCEPT ![id].w = IF procs[id].p = "gone" THEN "gone" ELSE "closing", ![id].wk = "-"], lkmap)
             /\ UNCHANGED <<log, idx, nops, sub, q, gen, mpc, closed, cfin, en, seed, ann, hdl, todo, adv, told, res>>
\* P: SendContactRequest to the peer in hand.  Fails on a cancelled context and against a peer
\* without the contact's key; after a complete handshake the contact holds the account's contact,
\* and the request is marked sent if the store's guard allows it; then P cancels the contact's
\* lookup (whichever is registered) and leaves
LkSend(id) ==
  LET c == procs[id].c
      back == [procs EXCEPT ![id].p = "watch", ![id].pk = "-"]
      hit == lkmap[c] # 0 /\ (ExitCancelsAny \/ lkmap[c] = id) IN
  /\ procs[id].p = "got"
  /\ IF Canc(id) \/ procs[id].pk # "good"
       THEN Settle(back, lkmap) /\ NoEmit /\ UNCHANGED told
       ELSE /\ told' = told \cup {<<c, CState(c)>>}
            /\ IF OpEvent("sent", c) # None
                 THEN /\ Emit(OpEvent("sent", c))
                      /\ Settle([(IF hit THEN CancelIn(procs, lkmap[c]) ELSE procs) EXCEPT ![id].p = "gone", ![id].pk = "-"],
                                IF hit THEN [lkmap EXCEPT ![c] = 0] ELSE lkmap)
                 ELSE NoEmit /\ Settle(back, lkmap)
  /\ UNCHANGED <<nops, sub, gen, mpc, closed, cfin, en, seed, ann, hdl, todo, adv, res>>
\* W of a zombie: one second after watchPeers returned the loop ends and the channel is closed;
\* P: the range loop ends, cancelContactLookup(contact), leave.  `own`: the zombie is the registered lookup
ZombieExit(c, own) ==
  LET hit == lkmap[c] # 0 /\ (ExitCancelsAny \/ own) IN
  /\ z[c] > 0
  /\ own => lkmap[c] = -1
  /\ (lkmap[c] = -1 /\ z[c] = 1) => own
  /\ SettleZ(IF hit THEN CancelIn(procs, lkmap[c]) ELSE procs, IF hit THEN [lkmap EXCEPT ![c] = 0] ELSE lkmap,
             [z EXCEPT ![c] = @ - 1])
  /\ UNCHANGED <<log, idx, nops, sub, q, gen, mpc, closed, cfin, en, seed, ann, hdl, todo, adv, told, res>>

\* --------------------------------------------------------------- the watcher goroutine
\* enableContactRequest / enableAnnounce
EnableCR == IF en THEN UNCHANGED <<en, hdl, ann>>
            ELSE /\ en' = TRUE /\ hdl' = gen
                 /\ ann' = IF seed' # 0 THEN seed' ELSE ann

StSubscribe == /\ mpc = "new"
               /\ mpc' = "subd" /\ sub' = TRUE /\ q' = <<>>
               /\ UNCHANGED <<log, idx, nops, gen, closed, cfin, en, seed, ann, hdl, todo, lkmap, procs, z, leak, adv, told, res>>
\* read the index (status, seed), enable under the lock, list the to-request contacts
StRead == /\ mpc = "subd"
          /\ IF closed /\ ~StartIgnoresClose
               THEN /\ mpc' = "done" /\ sub' = FALSE /\ q' = <<>>
                    /\ seed' = iseed /\ UNCHANGED <<en, ann, hdl, todo>>
               ELSE /\ seed' = iseed
                    /\ IF ien THEN EnableCR ELSE UNCHANGED <<en, hdl, ann>>
                    /\ todo' = ToRequest /\ mpc' = "listed"
                    /\ UNCHANGED <<sub, q>>
          /\ UNCHANGED <<log, idx, nops, gen, closed, cfin, lkmap, procs, z, leak, adv, told, res>>
\* (the order of the listing is the iteration order of a map; enqueues of different contacts commute)
StEnqueue == /\ mpc = "listed" /\ todo # {}
             /\ LET c == CHOOSE x \in todo : TRUE IN todo' = todo \ {c} /\ Register(c)
             /\ UNCHANGED <<log, idx, nops, sub, q, gen, mpc, closed, cfin, en, seed, ann, hdl, adv, told, res>>
StLoop == /\ mpc = "listed" /\ todo = {}
          /\ mpc' = "loop"
          /\ UNCHANGED <<log, idx, nops, sub, q, gen, closed, cfin, en, seed, ann, hdl, todo, lkmap, procs, z, leak, adv, told, res>>

\* the handlers (under the manager lock)
Handle(e) ==
  CASE e.t = "dis" ->
         /\ IF en THEN en' = FALSE /\ ann' = 0 /\ hdl' = 0 ELSE UNCHANGED <<en, ann, hdl>>
         /\ IF DisableKeepsLookups THEN UNCHANGED <<lkmap, procs, z, leak>>
            ELSE Settle([id \in Ids |-> IF procs[id] = NoProc THEN NoProc ELSE [procs[id] EXCEPT !.can = TRUE]],
                        [c \in Contacts |-> IF lkmap[c] = -1 THEN -1 ELSE 0])
         /\ UNCHANGED seed
    [] e.t = "en" -> UNCHANGED <<seed, lkmap, procs, z, leak>> /\ EnableCR
    [] e.t = "rs" ->
         /\ IF e.s = seed THEN UNCHANGED <<seed, ann>>          \* "unable to reset twice with the same seed"
            ELSE seed' = e.s /\ ann' = IF en THEN e.s ELSE ann
         /\ UNCHANGED <<en, hdl, lkmap, procs, z, leak>>
    [] e.t = "enq" -> Register(e.c) /\ UNCHANGED <<en, seed, ann, hdl>>
    [] e.t \in {"sent", "recv"} -> Unregister(e.c) /\ UNCHANGED <<en, seed, ann, hdl>>
    [] e.t = "blk" /\ ~BlockKeepsLookup -> Unregister(e.c) /\ UNCHANGED <<en, seed, ann, hdl>>
    [] OTHER -> UNCHANGED <<en, seed, ann, hdl, lkmap, procs, z, leak>>
\* one event taken by the watcher's select (a repaired loop drops the event it took after close() and returns)
HandleEvent ==
  /\ mpc = "loop" /\ q # <<>>
  /\ IF closed /\ ~LoopHandlesAfterClose
       THEN mpc' = "done" /\ sub' = FALSE /\ q' = <<>> /\ UNCHANGED <<en, seed, ann, hdl, lkmap, procs, z, leak>>
       ELSE q' = Tail(q) /\ UNCHANGED <<mpc, sub>> /\ Handle(Head(q))
  /\ UNCHANGED <<log, idx, nops, gen, closed, cfin, todo, adv, told, res>>
\* select took ctx.Done: the watcher returns, the subscription is closed
WatcherExit == /\ mpc = "loop" /\ closed
               /\ mpc' = "done" /\ sub' = FALSE /\ q' = <<>>
               /\ UNCHANGED <<log, idx, nops, gen, closed, cfin, en, seed, ann, hdl, todo, lkmap, procs, z, leak, adv, told, res>>

\* --------------------------------------------------------------- close()
CloseCancel == /\ mpc # "none" /\ ~closed
               /\ closed' = TRUE
               /\ res' = [act |-> "close"]
               /\ UNCHANGED <<log, idx, nops, sub, q, gen, mpc, cfin, en, seed, ann, hdl, todo, lkmap, procs, z, leak, adv, told>>
CloseFinish == /\ closed /\ ~cfin
               /\ cfin' = TRUE /\ en' = FALSE /\ ann' = 0 /\ hdl' = 0
               /\ UNCHANGED <<log, idx, nops, sub, q, gen, mpc, closed, seed, todo, lkmap, procs, z, leak, adv, told, res>>
\* newContactRequestsManager (service start; re-activation of the account group after close()).
\* Only once the previous instance is through: its watcher returned and its lookups are zombies or gone
\* (they can no longer touch anything: their sends fail, their final cancel works on the old instance).
New == /\ gen < MaxGen
       /\ mpc = "none" \/ (cfin /\ mpc = "done" /\ \A id \in Ids : procs[id] = NoProc)
       /\ gen' = gen + 1 /\ mpc' = "new" /\ closed' = FALSE /\ cfin' = FALSE
       /\ en' = FALSE /\ seed' = 0 /\ ann' = 0 /\ todo' = {}
       /\ lkmap' = [c \in Contacts |-> 0] /\ z' = [c \in Contacts |-> 0]
       /\ res' = [act |-> "new"]
       /\ UNCHANGED <<log, idx, nops, sub, q, hdl, procs, leak, adv, told>>

\* --------------------------------------------------------------- environment
Op(t, c) == /\ nops < MaxOps
            /\ WithRefused \/ OpEvent(t, c) # None
            /\ t = "rs" => nrs < MaxSeed
            /\ nops' = nops + 1
            /\ LET e == OpEvent(t, c) IN
                 /\ IF e = None THEN NoEmit ELSE Emit(e)
                 /\ res' = [act |-> "op", t |-> e.t]
            /\ UNCHANGED <<sub, gen, mpc, closed, cfin, en, seed, ann, hdl, todo, lkmap, procs, z, leak, adv, told>>
\* a peer of contact c starts advertising on c's rendezvous point
Advertise(c, k) == /\ k \notin adv[c]
                   /\ adv' = [adv EXCEPT ![c] = @ \cup {k}]
                   /\ res' = [act |-> "peer"]
                   /\ UNCHANGED <<log, idx, nops, sub, q, gen, mpc, closed, cfin, en, seed, ann, hdl, todo, lkmap, procs, z, leak, told>>
\* a peer of contact c opens a contact-request stream to the account and plays the requester
Incoming(c, k) ==
  /\ nops < MaxOps /\ nops' = nops + 1
  /\ LET dead == hdl # gen \/ closed
         e == IncomingEvent(c) IN
       IF hdl = 0 THEN res' = [act |-> "inc", t |-> "nohandler"] /\ NoEmit
       ELSE IF k # "good" \/ (dead /\ ~ClosedHandlerAppends) \/ e = None
         THEN res' = [act |-> "inc", t |-> "none"] /\ NoEmit
         ELSE res' = [act |-> "inc", t |-> e.t] /\ Emit(e)
  /\ WithRefused \/ log' # log
  /\ UNCHANGED <<sub, gen, mpc, closed, cfin, en, seed, ann, hdl, todo, lkmap, procs, z, leak, adv, told>>

\* --------------------------------------------------------------- enabling predicates
ProcFastEnabled(id) ==
  \/ procs[id].w = "run" /\ ~Canc(id) /\ adv[procs[id].c] \ procs[id].seen # {}
  \/ procs[id].w = "offer" /\ procs[id].p = "watch"
  \/ procs[id].p = "got"
Stopping == {id \in Ids : WStopEnabled(id)}
FastProcs == {id \in Ids : ProcFastEnabled(id)}
StartupEnabled == mpc \in {"new", "subd", "listed"}
EventEnabled == mpc = "loop" /\ q # <<>>
FastEnabled == \/ StartupEnabled \/ (mpc = "loop" /\ closed) \/ (closed /\ ~cfin) \/ Stopping # {} \/ FastProcs # {}
SlowEnabled == \E c \in Contacts : z[c] > 0
InternalEnabled == FastEnabled \/ SlowEnabled \/ EventEnabled
Quiet == ~InternalEnabled

\* --------------------------------------------------------------- composition
ProcFast(id) == (\E k \in Kinds : WFetch(id, k)) \/ Handoff(id) \/ LkSend(id)
Slow == \E c \in Contacts : \E own \in BOOLEAN : ZombieExit(c, own)
Startup == StSubscribe \/ StRead \/ StEnqueue \/ StLoop
Global == {"en", "dis", "rs"}
Env == \/ \E t \in OpKinds \ (Global \cup {"enqself"}) : \E c \in Contacts : Op(t, c)
       \/ \E t \in OpKinds \cap Global : Op(t, "-")
       \/ ("enqself" \in OpKinds /\ Op("enq", "self"))
       \/ \E c \in Contacts : \E k \in Kinds : Advertise(c, k) \/ Incoming(c, k)
       \/ New \/ CloseCancel
Internal == Startup \/ HandleEvent \/ WatcherExit \/ CloseFinish \/ Slow
            \/ \E id \in Ids : ProcFast(id) \/ WStop(id)

Init == /\ log = <<>> /\ ien = FALSE /\ iseed = 0 /\ cst = [c \in Contacts |-> "U"] /\ nrs = 0
        /\ nops = 0 /\ sub = FALSE /\ q = <<>> /\ gen = 0 /\ mpc = "none"
        /\ closed = FALSE /\ cfin = FALSE /\ en = FALSE /\ seed = 0 /\ ann = 0 /\ hdl = 0 /\ todo = {}
        /\ lkmap = [c \in Contacts |-> 0] /\ procs = [id \in Ids |-> NoProc]
        /\ z = [c \in Contacts |-> 0] /\ leak = {}
        /\ adv = [c \in Contacts |-> {}] /\ told = {} /\ res = [act |-> "init"]
\* Partial-order reduction (sound for everything checked here):
\*  - a cancelled watch loop leaving watchPeers (WStop) commutes with every other step and is invisible: taken first;
\*  - the fast steps of the lookup goroutines (fetch / hand over / send) are enabled by an advertisement, a
\*    registration or a cancellation only; delaying them behind an environment step is the same as delaying
\*    the step that enabled them, so they run before the environment moves again.  Lookups of different
\*    contacts do not interact and of two lookups of one contact at most one is not cancelled (a cancelled
\*    send fails), so the lookups are served in id order; inside one lookup every order is kept (which peer
\*    first; a second peer arriving while the sender is busy).
\* The steps of the watcher (start-up, one event at a time), of close() and the slow step (the channel
\* closing one second after the cancellation) interleave freely with the environment.
Next == IF Stopping # {} THEN WStop(CHOOSE i \in Stopping : \A j \in Stopping : i <= j)
        ELSE IF FastProcs # {} THEN ProcFast(CHOOSE i \in FastProcs : \A j \in FastProcs : i <= j)
        ELSE Env \/ Startup \/ HandleEvent \/ WatcherExit \/ CloseFinish \/ Slow
Spec == Init /\ [][Next]_vars
\* fairness for the liveness configuration: every goroutine keeps running
FairSpec == Spec /\ WF_vars(Internal)

\* --------------------------------------------------------------- observable projection
Running == mpc = "loop" /\ ~closed
AnnLive == IF ann # 0 /\ ~closed /\ mpc # "none" THEN {ann} ELSE {}      \* live announce contexts (by seed)
Lookups == {c \in Contacts : lkmap[c] # 0}                              \* keys of lookupProcess
Watched == {procs[id].c : id \in {i \in Ids : procs[i].w \in {"run", "offer"}}} \cup leak   \* open tinder subscriptions
LiveLookup(c) == lkmap[c] > 0 /\ ~Canc(lkmap[c]) /\ procs[lkmap[c]].p \in {"watch", "got"} /\ procs[lkmap[c]].w \in {"run", "offer"}

\* --------------------------------------------------------------- design invariants
TypeOK == /\ mpc \in {"none", "new", "subd", "listed", "loop", "done"}
          /\ en \in BOOLEAN /\ seed \in 0..MaxSeed /\ ann \in 0..MaxSeed /\ hdl \in 0..MaxGen
          /\ \A c \in Contacts : lkmap[c] \in -1..MaxLk /\ z[c] >= 0
          /\ \A c \in Contacts : lkmap[c] > 0 => procs[lkmap[c]].c = c
          /\ \A c \in Contacts : lkmap[c] = -1 => z[c] > 0
\* I1: while running and idle the manager announces iff requests are enabled and a seed is set,
\*     its switches agree with the index
AnnounceIffEnabled ==
  (Running /\ Quiet) => /\ en = ien /\ seed = iseed
                        /\ (ann # 0) = (en /\ seed # 0)
HandlerIffEnabled == (Running /\ Quiet) => (hdl # 0) = en /\ (en => hdl = gen)
\* I2: never announce a point other than the current one (after a reset the old point is gone)
OldPointGone == ann # 0 => ann = seed
\* I3: while running and idle, a lookup runs for exactly the contacts whose latest event is an enqueue;
\*     the two directions separately (the code breaks them for different reasons)
NoLookupLost == (Running /\ Quiet) => \A c \in Contacts : cst[c] = "T" => LiveLookup(c)
NoStrayLookup == (Running /\ Quiet) => \A c \in Contacts : LiveLookup(c) => cst[c] = "T"
\* I4: nothing survives close(): no lookup, no watch, no announce, no handler
Closed == mpc = "done" /\ cfin /\ Quiet
NoLookupAfterClose == Closed => Lookups = {} /\ \A id \in Ids : procs[id] = NoProc
HandlerGoneAfterClose == Closed => hdl = 0 /\ ~en /\ ann = 0
NoWatchLeak == leak = {}
\* I5: at most one "sent" per enqueue: per contact, two "sent" events are never adjacent
OneSentPerEnqueue ==
  \A c \in Contacts : \A i, j \in EventsOf(c) :
     (i < j /\ log[i].t = "sent" /\ log[j].t = "sent") => \E k \in EventsOf(c) : i < k /\ k < j
\* the account is never its own contact (C07 clause)
NeverSelf == \A i \in 1..Len(log) : log[i].c # "self"
\* a contact is handed the account's contact only while it is to be requested (fails: BlockKeepsLookup -
\* a blocked contact is still sent the request)
ToldOnlyToRequest == [][\A x \in told' \ told : x[2] = "T"]_vars

\* liveness (FairSpec): a to-request contact with a reachable good peer is eventually not to-request
EventuallySent == \A c \in Contacts : (cst[c] = "T" /\ "good" \in adv[c] /\ Running) ~> (cst[c] # "T" \/ ~Running)

view == <<idx, sub, q, gen, mpc, closed, cfin, en, seed, ann, hdl, todo, lkmap, procs, z, leak, adv, nops>>
=============================================================================
