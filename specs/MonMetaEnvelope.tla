-------------------------- MODULE MonMetaEnvelope --------------------------
(***************************************************************************)
(* Property monitor for C03 over a recorded trace of openGroupEnvelope /   *)
(* openMetadataEntry ("open" lines) and of a real MetadataStore ("append"  *)
(* lines).  Each line carries the symbolic description tm of the envelope  *)
(* the driver was asked to build (an argument) and what the real code did  *)
(* with the bytes (observed).  The formulas below are the statement of C03 *)
(* itself, written independently of the model MetaEnvelope.tla:            *)
(*   Forged(tm)          => not returned, not emitted, index unchanged     *)
(*   CorrectlySigned(tm) => returned / emitted exactly once                *)
(*   returned/emitted    => it is the event that was sent                  *)
(* An envelope that is neither (a well-signed payload presented under      *)
(* another known type: the statement is silent) is accepted either way.    *)
(***************************************************************************)
EXTENDS Integers, FiniteSets, Sequences, TLC, Json, IOUtils

TraceLog == ndJsonDeserialize(IOEnv.VERIF_TRACE)

VARIABLES l,
          nforged,   \* forged envelopes seen so far (history, for the evidence)
          ncorrect
mvars == <<l, nforged, ncorrect>>

Ev == TraceLog[l]
Has(f) == f \in DOMAIN Ev
Consume(e) == l <= Len(TraceLog) /\ Ev.ev = e /\ l' = l + 1

MDA  == "GroupMemberDeviceAdded"
INIT == "MultiMemberGroupInitialMemberAnnounced"
DevTypes == { "GroupDeviceChainKeyAdded", "AccountGroupJoined", "AccountGroupLeft",
              "AccountContactRequestDisabled", "AccountContactRequestEnabled",
              "AccountContactRequestReferenceReset", "AccountContactRequestOutgoingEnqueued",
              "AccountContactRequestOutgoingSent", "AccountContactRequestIncomingReceived",
              "AccountContactRequestIncomingDiscarded", "AccountContactRequestIncomingAccepted",
              "AccountContactBlocked", "AccountContactUnblocked", "ContactAliasKeyAdded",
              "MultiMemberGroupAliasResolverAdded", "MultiMemberGroupAdminRoleGranted",
              "GroupMetadataPayloadSent", "GroupReplicating", "AccountVerifiedCredentialRegistered" }
Known(t) == t \in DevTypes \cup {MDA, INIT}
RealKey(k) == k \in {"devA", "devV", "memA", "memV", "grp"}

\* key named at protobuf field n of the payload bytes
FieldAt(pd, n) ==
  IF pd.shape = MDA THEN (IF n = 1 THEN pd.mem ELSE IF n = 2 THEN pd.dev ELSE "junk")
  ELSE IF pd.shape = INIT THEN (IF n = 1 THEN pd.mem ELSE "absent")
  ELSE IF n = 1 THEN pd.dev ELSE "junk"

\* a signature verifies iff made by that key over exactly these bytes
SigOK(k, pd, sig) == RealKey(k) /\ ~pd.flip /\ sig.st = "ok" /\ sig.by = k /\ sig.over = pd
MSigOK(pd) == /\ pd.shape = MDA /\ pd.msig.st = "ok" /\ RealKey(pd.mem)
              /\ pd.msig.by = pd.mem /\ pd.msig.over = pd.dev

\* right signer for the type: the device named inside the event; the group key for the initial
\* member announcement; member key over the device key and the device key for a member-device announcement
RightSigner(tm) ==
  IF tm.ty = MDA THEN MSigOK(tm.pd) /\ SigOK(FieldAt(tm.pd, 2), tm.pd, tm.sig)
  ELSE IF tm.ty = INIT THEN SigOK("grp", tm.pd, tm.sig)
  ELSE SigOK(FieldAt(tm.pd, 1), tm.pd, tm.sig)

Decrypts(tm) == tm.box = "g" /\ tm.nonce = "ok"
CorrectlySigned(tm) == Decrypts(tm) /\ Known(tm.ty) /\ tm.pd.shape = tm.ty /\ RightSigner(tm)
Forged(tm) == ~Decrypts(tm) \/ ~Known(tm.ty) \/ ~RightSigner(tm)

Count(tm) == /\ nforged' = nforged + (IF Forged(tm) THEN 1 ELSE 0)
             /\ ncorrect' = ncorrect + (IF CorrectlySigned(tm) THEN 1 ELSE 0)

MReset == Consume("reset") /\ UNCHANGED <<nforged, ncorrect>>
MTable == Consume("table") /\ UNCHANGED <<nforged, ncorrect>>

MOpen == /\ Consume("open")
         /\ (Forged(Ev.tm) => ~Ev.ok /\ ~Ev.eok)
         /\ (CorrectlySigned(Ev.tm) => Ev.ok /\ Ev.eok)
         /\ (Ev.ok => Ev.rty = Ev.tm.ty /\ Ev.same)
         /\ (Ev.eok => Ev.erty = Ev.tm.ty /\ Ev.esame)
         /\ Count(Ev.tm)

\* every single-bit flip of a field of an honest envelope; the honest envelope itself is accepted
MFlips == /\ Consume("flips") /\ Ev.nacc = 0 /\ Ev.baseok
          /\ UNCHANGED <<nforged, ncorrect>>

\* the store keeps accepting writes: neither the entry under test nor the honest event appended after it is refused
\* by the store itself (an entry that is to be dropped is dropped, it does not stop the store from working)
WritesOK == ("apperr" \in DOMAIN Ev) => (~Ev.apperr /\ ~Ev.senterr)
MAppend == /\ Consume("append") /\ WritesOK
           /\ (Forged(Ev.tm) => Ev.emr = 0 /\ Ev.gme = 0 /\ ~Ev.listed /\ Ev.pre = Ev.post)
           /\ (CorrectlySigned(Ev.tm) => Ev.emr = 1 /\ Ev.gme = 1 /\ Ev.listed)
           /\ Ev.emr <= 1 /\ Ev.gme <= 1
           /\ ((Ev.emr + Ev.gme > 0) => Ev.tyok /\ Ev.sameok)
           /\ Count(Ev.tm)

MNext == MReset \/ MTable \/ MOpen \/ MFlips \/ MAppend
MInit == l = 1 /\ nforged = 0 /\ ncorrect = 0 /\ TLCSet(42, 1)
MSpec == MInit /\ [][MNext]_mvars

Mark == TLCSet(42, IF l > TLCGet(42) THEN l ELSE TLCGet(42))
Accepted == LET hw == TLCGet(42) IN
              IF hw = Len(TraceLog) + 1 THEN TRUE
              ELSE /\ PrintT(<<"REJECTED", ToJson([high |-> hw - 1, line |-> TraceLog[hw]])>>)
                   /\ FALSE
=============================================================================
