---------------------------- MODULE MonStoreEmit ----------------------------
(***************************************************************************)
(* Property monitor for C01 and C03 at the STORE layer: what the real      *)
(* MessageStore / MetadataStore of a member V hand to subscribers, list    *)
(* and report, when an attacker who holds the group secret (and, for C01,  *)
(* the honest senders' chain keys) writes forged entries into the real     *)
(* orbit-db logs.  Traces come from harness/root/vf_storeemit_verif_test.go*)
(* History variables are computed from observed values and from facts      *)
(* about the bytes the driver wrote only; no model of the stores is        *)
(* consulted.                                                              *)
(*                                                                         *)
(* ---- message part (C01) ----                                            *)
(*  seal    an honest device sealed envelope e (group, device key,         *)
(*          counter and payload label read back from the real envelope)    *)
(*  arrive  log entries that became part of V's replica of group g; for    *)
(*          each its label and hon = label of the honest envelope whose    *)
(*          BYTES its operation carries ("" if none)                       *)
(*  key     V registered the chain key of a device                         *)
(*  emit    one GroupMessageEvent seen on the event bus of V's store       *)
(*  quiet   V's pipeline came to rest (sentinel rounds)                    *)
(*  list    what ListEvents / the GroupMessageList RPC returned            *)
(*  reopen  V closed its database and opened it again                      *)
(* Formulas:                                                               *)
(*  Exact     every emitted or listed event belongs to an entry of that    *)
(*            log whose bytes are an envelope honestly sealed FOR THAT     *)
(*            GROUP, and carries exactly its payload, device and counter   *)
(*  AtMostOnce an entry is emitted at most once per arrival (a listing of  *)
(*            the log made while the entry is still undelivered may put it *)
(*            into the queue once more: the statement leaves that open)    *)
(*  Complete  at rest, an honest entry that arrived since the database was *)
(*            opened, whose chain key V holds and whose counter is inside  *)
(*            the window (C02's formula), has been delivered - unless the  *)
(*            attacker re-posted the same honest bytes in a second entry   *)
(*            (which of the two is delivered is left open)                 *)
(*  Listed    whatever was emitted is listed afterwards, once, also after  *)
(*            the reopen                                                   *)
(*  A line "restless" (V still emits events after 40 sentinel rounds      *)
(*  although nothing arrives) is consumed by no action: rejected.          *)
(*                                                                         *)
(* ---- metadata part (C03) ----                                           *)
(*  mdeliver one entry carrying the envelope described by the symbolic     *)
(*           term tm (the builder's argument) was replicated to V; observed*)
(*           emissions, index snapshot before/after, listing, and the      *)
(*           comparison with the control replica (same keys as V, receives *)
(*           every entry except the forged ones)                           *)
(*  mfinal   the same comparison after both were closed and reopened       *)
(*  crash    the store of the replica that appended an entry panicked (or   *)
(*           refused to index from then on) while indexing it; rcrash: V's *)
(*           store panicked while reopening: rejected when a forged entry  *)
(*           is involved, otherwise outside C03 (the history ends there)   *)
(* The classification Forged / CorrectlySigned is the statement of C03,    *)
(* written as in MonMetaEnvelope.tla.                                      *)
(***************************************************************************)
EXTENDS Integers, FiniteSets, Sequences, TLC, Json, IOUtils

CONSTANTS W

TraceLog == ndJsonDeserialize(IOEnv.VERIF_TRACE)

VARIABLES l,
          sealed,   \* set of [e, g, dv, k, p]: honest envelopes
          ent,      \* function: label of an entry at V -> [g, hon]
          credit,   \* function: label -> emissions still allowed
          opened,   \* labels of honest envelopes delivered to the application
          emitted,  \* labels of entries emitted or listed
          keys,     \* set of [g, dv, k0]: chain keys V registered (announced at counter k0)
          fresh,    \* labels arrived since V opened its database
          mfor,     \* C03: step numbers of forged entries delivered in this block
          mcor      \* C03: step numbers of correctly signed entries delivered
mvars == <<l, sealed, ent, credit, opened, emitted, keys, fresh, mfor, mcor>>
msgvars == <<sealed, ent, credit, opened, emitted, keys, fresh>>
metavars == <<mfor, mcor>>

Ev == TraceLog[l]
Has(f) == f \in DOMAIN Ev
Consume(e) == l <= Len(TraceLog) /\ Ev.ev = e /\ l' = l + 1
SeqSet(s) == {s[i] : i \in 1..Len(s)}
Empty == [x \in {} |-> 0]

\* ------------------------------------------------------------ C01
Known(e) == \E r \in sealed : r.e = e
RecOf(e) == CHOOSE r \in sealed : r.e = e
OpenedOn(g, dv) == {o \in opened : RecOf(o).g = g /\ RecOf(o).dv = dv}
\* C02's formula: registered at counter k0, V holds the keys k0+1 .. k0+W and one more per message it opened
HasKey(g, dv) == \E c \in keys : c.g = g /\ c.dv = dv
KeyOf(g, dv) == CHOOSE c \in keys : c.g = g /\ c.dv = dv
HoldsKey(r) == /\ HasKey(r.g, r.dv) /\ r.k > KeyOf(r.g, r.dv).k0
               /\ (r.e \in opened \/ r.k <= KeyOf(r.g, r.dv).k0 + W + Cardinality(OpenedOn(r.g, r.dv)))

Exact(g, it) == /\ it.e \in DOMAIN ent /\ ent[it.e].g = g /\ it.gok
                /\ LET h == ent[it.e].hon IN
                     /\ h # "" /\ Known(h) /\ RecOf(h).g = g
                     /\ RecOf(h).dv = it.dv /\ RecOf(h).k = it.ct /\ RecOf(h).p = it.pl

MReset == /\ Consume("reset") /\ sealed' = {} /\ ent' = Empty /\ credit' = Empty /\ opened' = {}
          /\ emitted' = {} /\ keys' = {} /\ fresh' = {} /\ mfor' = {} /\ mcor' = {}

\* an honest device names itself in the headers it seals
MSeal == /\ Consume("seal") /\ Ev.hdv = Ev.dv /\ ~Known(Ev.e)
         /\ sealed' = sealed \cup {[e |-> Ev.e, g |-> Ev.g, dv |-> Ev.dv, k |-> Ev.k, p |-> Ev.p]}
         /\ UNCHANGED <<ent, credit, opened, emitted, keys, fresh, metavars>>
MNote == (Consume("forge") \/ Consume("tamper") \/ Consume("announce") \/ Consume("probe")) /\ UNCHANGED <<msgvars, metavars>>
MKey == /\ Consume("key")
        \* the first announcement counts (later ones are ignored by the secret store)
        /\ keys' = IF Ev.known /\ ~HasKey(Ev.g, Ev.dv) THEN keys \cup {[g |-> Ev.g, dv |-> Ev.dv, k0 |-> Ev.k0]} ELSE keys
        /\ UNCHANGED <<sealed, ent, credit, opened, emitted, fresh, metavars>>

MArrive == /\ Consume("arrive")
           /\ LET new == SeqSet(Ev.ents)
                  labs == {x.e : x \in new} IN
                /\ labs \cap DOMAIN ent = {}           \* an entry joins a replica once
                /\ "?" \notin labs
                /\ ent' = [e \in DOMAIN ent \cup labs |->
                             IF e \in DOMAIN ent THEN ent[e]
                             ELSE [g |-> Ev.g, hon |-> (CHOOSE x \in new : x.e = e).hon]]
                /\ credit' = [e \in DOMAIN ent \cup labs |-> IF e \in DOMAIN ent THEN credit[e] ELSE 1]
                /\ fresh' = fresh \cup labs
           /\ UNCHANGED <<sealed, opened, emitted, keys, metavars>>

MEmit == /\ Consume("emit")
         /\ Exact(Ev.g, Ev)
         /\ credit[Ev.e] > 0
         /\ credit' = [credit EXCEPT ![Ev.e] = @ - 1]
         /\ opened' = opened \cup {ent[Ev.e].hon}
         /\ emitted' = emitted \cup {Ev.e}
         /\ UNCHANGED <<sealed, ent, keys, fresh, metavars>>

Copied(r) == \E e \in DOMAIN ent : e # r.e /\ ent[e].hon = r.e /\ ent[e].g = r.g
MustHave(r, g) == /\ r.g = g /\ r.e \in fresh /\ r.e \in DOMAIN ent /\ ent[r.e].hon = r.e
                  /\ HoldsKey(r) /\ ~Copied(r)
MQuiet == /\ Consume("quiet")
          /\ \A r \in sealed : MustHave(r, Ev.g) => r.e \in emitted
          /\ UNCHANGED <<msgvars, metavars>>

MList == /\ Consume("list")
         /\ (Has("rpcok") => Ev.rpcok)
         /\ LET its == Ev.items
                got == {its[i].e : i \in 1..Len(its)} IN
              /\ \A i \in 1..Len(its) : Exact(Ev.g, its[i])
              /\ \A i, j \in 1..Len(its) : i # j => its[i].e # its[j].e
              /\ \A e \in emitted : ent[e].g = Ev.g => e \in got
              /\ opened' = opened \cup {ent[e].hon : e \in got}
              /\ emitted' = emitted \cup got
              \* ListEvents may put an entry it could not open back into the queue
              /\ credit' = [e \in DOMAIN credit |->
                              IF ent[e].g = Ev.g /\ e \notin emitted /\ e \notin got THEN credit[e] + 1 ELSE credit[e]]
         /\ UNCHANGED <<sealed, ent, keys, fresh, metavars>>

\* what was parked in memory is gone; nothing of the old log is emitted by itself
MReopen == /\ Consume("reopen")
           /\ fresh' = {}
           /\ credit' = [e \in DOMAIN credit |-> 0]
           /\ UNCHANGED <<sealed, ent, opened, emitted, keys, metavars>>

\* ------------------------------------------------------------ C03
MDA  == "GroupMemberDeviceAdded"
INIT == "MultiMemberGroupInitialMemberAnnounced"
DevTypes == { "GroupDeviceChainKeyAdded", "AccountGroupJoined", "AccountGroupLeft",
              "AccountContactRequestDisabled", "AccountContactRequestEnabled",
              "AccountContactRequestReferenceReset", "AccountContactRequestOutgoingEnqueued",
              "AccountContactRequestOutgoingSent", "AccountContactRequestIncomingReceived",
              "AccountContactRequestIncomingDiscarded", "AccountContactRequestIncomingAccepted",
              "AccountContactBlocked", "AccountContactUnblocked", "ContactAliasKeyAdded",
              "MultiMemberGroupAliasResolverAdded", "MultiMemberGroupAdminRoleGranted",
              "GroupMetadataPayloadSent", "GroupReplicating", "AccountVerifiedCredentialRegistered" }
KnownType(t) == t \in DevTypes \cup {MDA, INIT}
RealKey(k) == k \in {"devA", "devV", "memA", "memV", "grp"}
FieldAt(pd, n) ==
  IF pd.shape = MDA THEN (IF n = 1 THEN pd.mem ELSE IF n = 2 THEN pd.dev ELSE "junk")
  ELSE IF pd.shape = INIT THEN (IF n = 1 THEN pd.mem ELSE "absent")
  ELSE IF n = 1 THEN pd.dev ELSE "junk"
SigOK(k, pd, sig) == RealKey(k) /\ ~pd.flip /\ sig.st = "ok" /\ sig.by = k /\ sig.over = pd
MSigOK(pd) == /\ pd.shape = MDA /\ pd.msig.st = "ok" /\ RealKey(pd.mem)
              /\ pd.msig.by = pd.mem /\ pd.msig.over = pd.dev
RightSigner(tm) ==
  IF tm.ty = MDA THEN MSigOK(tm.pd) /\ SigOK(FieldAt(tm.pd, 2), tm.pd, tm.sig)
  ELSE IF tm.ty = INIT THEN SigOK("grp", tm.pd, tm.sig)
  ELSE SigOK(FieldAt(tm.pd, 1), tm.pd, tm.sig)
Decrypts(tm) == tm.box = "g" /\ tm.nonce = "ok"
CorrectlySigned(tm) == Decrypts(tm) /\ KnownType(tm.ty) /\ tm.pd.shape = tm.ty /\ RightSigner(tm)
Forged(tm) == ~Decrypts(tm) \/ ~KnownType(tm.ty) \/ ~RightSigner(tm)

\* one entry replicated to V.  ctl: the entry was also given to the control replica (the driver
\* is told which ones by the script; the monitor checks that this is exactly the non-forged ones,
\* otherwise the comparison would prove nothing)
MDeliver ==
  /\ Consume("mdeliver")
  /\ Ev.n = Ev.nb                     \* exactly the entries of this batch joined V's log (one line per entry)
  /\ (Ev.ctl <=> ~Forged(Ev.tm))
  /\ (Forged(Ev.tm) => Ev.emr = 0 /\ Ev.gme = 0 /\ ~Ev.listed /\ ~Ev.rpclisted /\ Ev.unch)
  /\ (CorrectlySigned(Ev.tm) => Ev.emr = 1 /\ Ev.gme = 1 /\ Ev.listed /\ Ev.rpclisted)
  /\ Ev.emr <= 1 /\ Ev.gme <= 1 /\ Ev.stray = 0
  /\ ((Ev.emr + Ev.gme > 0) => Ev.tyok /\ Ev.sameok)
  /\ Ev.eqc /\ Ev.leq          \* V's state and listing = those of the control (forged entries change nothing)
  /\ mfor' = IF Forged(Ev.tm) THEN mfor \cup {Ev.i} ELSE mfor
  /\ mcor' = IF CorrectlySigned(Ev.tm) THEN mcor \cup {Ev.i} ELSE mcor
  /\ UNCHANGED msgvars

\* after both V and the control were closed and reopened (index rebuilt from the log, listing from the log)
MFinal ==
  /\ Consume("mfinal")
  /\ Ev.eqc /\ Ev.leq
  /\ LET got == SeqSet(Ev.listed) IN
       /\ got \cap mfor = {}
       /\ mcor \subseteq got
  /\ Ev.emitted = 0              \* replaying the log hands nothing to subscribers by itself
  /\ UNCHANGED <<msgvars, metavars>>

\* the store of the replica that wrote the entry panicked while indexing it: never acceptable for a forged entry
\* (for other entries the statement of C03 is silent; the history ends there)
MCrash == Consume("crash") /\ ~Forged(Ev.tm) /\ UNCHANGED <<msgvars, metavars>>

\* V's store panicked while reopening its database: never acceptable when forged entries are in its log
MCrashReopen == Consume("rcrash") /\ mfor = {} /\ UNCHANGED <<msgvars, metavars>>

MNext == MCrash \/ MCrashReopen \/ MReset \/ MSeal \/ MNote \/ MKey \/ MArrive \/ MEmit \/ MQuiet \/ MList \/ MReopen \/ MDeliver \/ MFinal
MInit == /\ l = 1 /\ sealed = {} /\ ent = Empty /\ credit = Empty /\ opened = {} /\ emitted = {}
         /\ keys = {} /\ fresh = {} /\ mfor = {} /\ mcor = {} /\ TLCSet(42, 1)
MSpec == MInit /\ [][MNext]_mvars

Mark == TLCSet(42, IF l > TLCGet(42) THEN l ELSE TLCGet(42))
Accepted == LET hw == TLCGet(42) IN
              IF hw = Len(TraceLog) + 1 THEN TRUE
              ELSE /\ PrintT(<<"REJECTED", ToJson([high |-> hw - 1, line |-> TraceLog[hw]])>>)
                   /\ FALSE
=============================================================================
