---------------------------- MODULE ExportRestore ----------------------------
(***************************************************************************)
(* Account export / restore (account_export.go, orbitdb.go:                *)
(* setHeadsForGroup / loadHeads, secretstore ImportAccountKeys).           *)
(*                                                                         *)
(* Source node: one device of an account; the groups it has open (account  *)
(* group, a contact group, a multi-member group) each hold a metadata log  *)
(* and a message log.  All logs are written by this one device, so a log   *)
(* with n entries is the chain 1 <- 2 <- ... <- n with the single head n;  *)
(* an entry is named <<group, store, k>>.                                  *)
(*                                                                         *)
(* Export = the sequence of files                                          *)
(*   account.key, account_proof.key,                                       *)
(*   for every open group: entries/<id> for every entry of the metadata    *)
(*   log, then of the message log (bytes = the DAG node the id names),     *)
(*   then heads/<group> = [pk, signPub, metadata heads, message heads,     *)
(*   linkKey].                                                             *)
(* Mutations work on files: flip a byte (in an entry; in a class of bytes  *)
(* of a heads or key file), drop, duplicate, move, truncate.               *)
(* Restore = the handler loop of RestoreAccountExport over the files, then *)
(* the post-processing step, then every group is opened normally.          *)
(*                                                                         *)
(* Impl constants (what the code does where the property cares):           *)
(*   DupHeads "skip": heads a log already holds are not fetched again      *)
(*            (code since the fix `loadHeads only fetches the heads the    *)
(*            log does not hold yet`)                                      *)
(*            "crash": a second heads file for a group whose heads are     *)
(*            already loaded makes loadHeads hand nil entries to the       *)
(*            replicator -> nil dereference in a goroutine (code before)   *)
(*   KeyCheck "none": any 64 raw bytes are accepted as a private key       *)
(*            (the code: libp2p does not compare the two halves; a damaged *)
(*            key file may be imported as some other identity - the        *)
(*            property does not speak about damaged key files)             *)
(*            "pair": the public half must belong to the seed              *)
(***************************************************************************)
EXTENDS Naturals, Sequences, FiniteSets, TLC

CONSTANTS MaxAcct,    \* operations on the account group after start-up
          MaxSend,    \* messages / metadata payloads per other group
          MaxExports, \* exports per behaviour (the history may go on after an export)
          DupHeads, KeyCheck

GroupOrder == <<"acct", "ct", "mm">>
GroupSet == {"acct", "ct", "mm"}
StoreSet == {"meta", "msg"}
Contacts == {"c1", "c2"}
\* entries a group's metadata log holds once the service has opened it
InitMeta(g) == CASE g = "acct" -> 2 [] g = "ct" -> 3 [] g = "mm" -> 3

VARIABLES cs,      \* [Contacts -> lifecycle state] as the account group reports it
          gj,      \* joined flag of the (never opened) group of the join/leave operations
          open,    \* set of open groups
          n,       \* [GroupSet -> [meta |-> Nat, msg |-> Nat]] entries per log
          nacct,   \* operations done on the account group
          arch,    \* last export: [files, n, open, k]  (files = <<>>: none yet; k = exports so far)
          res      \* outcome of the last action
vars == <<cs, gj, open, n, nacct, arch, res>>

\* ------------------------------------------------------------------ history
ContactOutcome(op, s) ==
  CASE op = "enq"  -> IF s \in {"U", "T", "B"} THEN "enq" ELSE IF s \in {"R", "X", "D"} THEN "sent" ELSE "-"
    [] op = "sent" -> IF s \in {"T", "R", "X", "D"} THEN "sent" ELSE "-"
    [] op = "recv" -> IF s \in {"U", "X", "D"} THEN "recv" ELSE IF s = "T" THEN "sent" ELSE "-"
    [] op = "disc" -> IF s = "R" THEN "disc" ELSE "-"
    [] op = "acc"  -> IF s = "R" THEN "acc" ELSE "-"
    [] op = "blk"  -> IF s # "B" THEN "blk" ELSE "-"
    [] op = "unb"  -> IF s = "B" THEN "unb" ELSE "-"
CState(ev) == CASE ev = "enq" -> "T" [] ev = "sent" -> "A" [] ev = "recv" -> "R" [] ev = "disc" -> "D"
                [] ev = "acc" -> "A" [] ev = "blk" -> "B" [] ev = "unb" -> "X"
ContactOps == {"enq", "sent", "recv", "disc", "acc", "blk", "unb"}

AcctAppend == /\ nacct < MaxAcct
              /\ nacct' = nacct + 1
AddAcct(k) == [n EXCEPT !["acct"].meta = @ + k]

ContactOp(op, c) ==
  LET ev == ContactOutcome(op, cs[c]) IN
    IF ev = "-" THEN /\ UNCHANGED <<cs, gj, open, n, nacct, arch>> /\ res' = [ok |-> FALSE]
    ELSE /\ AcctAppend
         /\ cs' = [cs EXCEPT ![c] = CState(ev)]
         \* accepting c1 through the service opens the contact group
         /\ IF ev = "acc" /\ c = "c1" /\ "ct" \notin open
              THEN /\ open' = open \cup {"ct"}
                   /\ n' = [AddAcct(1) EXCEPT !["ct"] = [meta |-> InitMeta("ct"), msg |-> 0]]
              ELSE /\ UNCHANGED open /\ n' = AddAcct(1)
         /\ UNCHANGED <<gj, arch>> /\ res' = [ok |-> TRUE]
SwitchOp(op) == /\ AcctAppend /\ n' = AddAcct(1) /\ UNCHANGED <<cs, gj, open, arch>> /\ res' = [ok |-> TRUE]
JoinOp(op) ==
  IF (op = "join") # gj
    THEN /\ AcctAppend /\ n' = AddAcct(1) /\ gj' = (op = "join")
         /\ UNCHANGED <<cs, open, arch>> /\ res' = [ok |-> TRUE]
    ELSE UNCHANGED <<cs, gj, open, n, nacct, arch>> /\ res' = [ok |-> FALSE]
\* MultiMemberGroupCreate: a "joined" entry in the account group, the new group opened and initialised
MmCreate == /\ "mm" \notin open /\ AcctAppend
            /\ open' = open \cup {"mm"}
            /\ n' = [AddAcct(1) EXCEPT !["mm"] = [meta |-> InitMeta("mm"), msg |-> 0]]
            /\ UNCHANGED <<cs, gj, arch>> /\ res' = [ok |-> TRUE]
\* AppMessageSend / AppMetadataSend
Send(g, s) == /\ g \in open \ {"acct"}
              /\ n[g][s] < (IF s = "meta" THEN InitMeta(g) ELSE 0) + MaxSend
              /\ n' = [n EXCEPT ![g][s] = @ + 1]
              /\ UNCHANGED <<cs, gj, open, nacct, arch>> /\ res' = [ok |-> TRUE]

\* ------------------------------------------------------------------ archive
File(t, nm, g, s, k, mhd, ghd) ==
  [t |-> t, n |-> nm, g |-> g, s |-> s, k |-> k, mh |-> mhd, gh |-> ghd, dmg |-> "no"]
KeyF(nm) == File("key", nm, "-", "-", 0, 0, 0)
EntryF(g, s, k) == File("entry", "-", g, s, k, 0, 0)
HeadsF(g, mhd, ghd) == File("heads", "-", g, "-", 0, mhd, ghd)
GroupFiles(nn, g) ==
  [i \in 1..nn[g].meta |-> EntryF(g, "meta", i)] \o [i \in 1..nn[g].msg |-> EntryF(g, "msg", i)]
    \o <<HeadsF(g, nn[g].meta, nn[g].msg)>>
RECURSIVE Cat(_, _, _, _)
Cat(nn, op, i, acc) == IF i > Len(GroupOrder) THEN acc
                       ELSE Cat(nn, op, i + 1, IF GroupOrder[i] \in op THEN acc \o GroupFiles(nn, GroupOrder[i]) ELSE acc)
ExportFiles(nn, op) == Cat(nn, op, 1, <<KeyF("account"), KeyF("proof")>>)

Export == /\ arch.k < MaxExports
          /\ arch' = [files |-> ExportFiles(n, open), n |-> n, open |-> open, k |-> arch.k + 1]
          /\ UNCHANGED <<cs, gj, open, n, nacct>> /\ res' = [ok |-> TRUE]

\* ---- file-level mutations: a fed archive is [files, noend, partial, used]
Fed(fs) == [files |-> fs, partial |-> FALSE, used |-> FALSE]
Without(fs, i) == SubSeq(fs, 1, i - 1) \o SubSeq(fs, i + 1, Len(fs))
InsertAt(fs, j, f) == SubSeq(fs, 1, j - 1) \o <<f>> \o SubSeq(fs, j, Len(fs))   \* f lands at position j
FlipClasses(f) == CASE f.t = "entry" -> {"any"}
                    [] f.t = "key" -> {"frame", "seed", "pub"}
                    [] f.t = "heads" -> {"frame", "pk", "sign", "link"} \cup (IF f.mh + f.gh > 0 THEN {"cid"} ELSE {})
MutFlip(fs, i, cls) == Fed([fs EXCEPT ![i].dmg = cls])
MutDrop(fs, i) == Fed(Without(fs, i))
MutDup(fs, i, j) == Fed(InsertAt(fs, j, fs[i]))                  \* j in 1..Len+1
\* move file i to just before the file that is at position j now (j = Len+1: to the end); j \notin {i, i+1}
MutMove(fs, i, j) == Fed(InsertAt(Without(fs, i), IF j > i THEN j - 1 ELSE j, fs[i]))
MutTrunc(fs, k, partial) == [files |-> SubSeq(fs, 1, k), partial |-> partial, used |-> FALSE]
Mutations(fs) ==
  {Fed(fs), [Fed(fs) EXCEPT !.used = TRUE]}
    \cup {MutFlip(fs, i, c) : <<i, c>> \in {<<i, c>> \in (DOMAIN fs) \X {"any", "frame", "seed", "pub", "pk", "sign", "link", "cid"} : c \in FlipClasses(fs[i])}}
    \cup {MutDrop(fs, i) : i \in DOMAIN fs}
    \cup {MutDup(fs, i, j) : <<i, j>> \in (DOMAIN fs) \X (1..(Len(fs) + 1))}
    \cup {MutMove(fs, i, j) : <<i, j>> \in {<<i, j>> \in (DOMAIN fs) \X (1..(Len(fs) + 1)) : j \notin {i, i + 1}}}
    \cup {MutTrunc(fs, k, p) : <<k, p>> \in (0..(Len(fs) - 1)) \X BOOLEAN}
    \cup {MutTrunc(fs, Len(fs), TRUE)}

\* ------------------------------------------------------------------ restore
\* handler state: key files seen (with their damage), DAG nodes added, groups whose heads were loaded
RInit == [keys |-> [k \in {"account", "proof"} |-> "absent"], dag |-> {},
          loaded |-> [g \in GroupSet |-> FALSE], lost |-> {}, out |-> "run"]
Closure(f) == {<<f.g, "meta", i>> : i \in 1..f.mh} \cup {<<f.g, "msg", i>> : i \in 1..f.gh}
Handle(st, f, cut, dh) ==
  IF st.out # "run" THEN st
  ELSE IF cut THEN [st EXCEPT !.out = "err"]                                   \* unexpected EOF inside the file
  ELSE CASE f.t = "key" ->
              IF st.keys[f.n] # "absent" THEN [st EXCEPT !.out = "err"]        \* multiple keys found in archive
              ELSE [st EXCEPT !.keys[f.n] = (IF f.dmg = "no" THEN "good" ELSE f.dmg)]
         [] f.t = "entry" ->
              IF f.dmg # "no" THEN [st EXCEPT !.out = "err"]                   \* undecodable, or CID of the bytes # name
              ELSE [st EXCEPT !.dag = @ \cup {<<f.g, f.s, f.k>>}]
         [] f.t = "heads" ->
              CASE f.dmg = "frame" -> [st EXCEPT !.out = "err"]                \* not a GroupHeadsExport
                [] f.dmg = "cid" -> [st EXCEPT !.out = "timeout"]              \* waits for an entry nobody has
                [] f.dmg \in {"pk", "sign"} ->                                  \* heads loaded into the stores of some other group
                     IF Closure(f) \subseteq st.dag THEN [st EXCEPT !.lost = @ \cup {f.g}]
                     ELSE [st EXCEPT !.out = "timeout"]
                [] OTHER ->                                                     \* intact, or link key damaged (not needed to load)
                     IF st.loaded[f.g] /\ f.mh + f.gh > 0
                       THEN (IF dh = "crash" THEN [st EXCEPT !.out = "crash"] ELSE st)
                     ELSE IF Closure(f) \subseteq st.dag THEN [st EXCEPT !.loaded[f.g] = TRUE]
                     ELSE [st EXCEPT !.out = "timeout"]                         \* the offline node cannot fetch the rest
RECURSIVE Run(_, _, _, _)
Run(fed, i, st, dh) == IF i > Len(fed.files) THEN st
                       ELSE Run(fed, i + 1, Handle(st, fed.files[i], fed.partial /\ i = Len(fed.files), dh), dh)
\* post-processing: ImportAccountKeys
Post(fed, st, kc) ==
  IF st.out # "run" THEN st
  ELSE IF \E k \in {"account", "proof"} : st.keys[k] \in {"absent", "frame"} THEN [st EXCEPT !.out = "err"]
  ELSE IF kc = "pair" /\ \E k \in {"account", "proof"} : st.keys[k] # "good" THEN [st EXCEPT !.out = "err"]
  ELSE IF fed.used THEN [st EXCEPT !.out = "err"]                               \* an account is already set in this keystore
  ELSE [st EXCEPT !.out = "ok"]
Empty == [meta |-> 0, msg |-> 0]
OutcomeWith(fed, dh, kc) ==
  LET st == Post(fed, Run(fed, 1, RInit, dh), kc) IN
    [out |-> st.out,
     keys |-> IF st.out # "ok" THEN "-" ELSE IF \A k \in {"account", "proof"} : st.keys[k] = "good" THEN "same" ELSE "other",
     g |-> [g \in arch.open |-> IF st.out = "ok" /\ st.loaded[g] THEN arch.n[g] ELSE Empty]]

Outcome(fed) == OutcomeWith(fed, DupHeads, KeyCheck)

Restore(fed) == /\ arch.files # <<>>
                /\ res' = [ok |-> TRUE, fed |-> fed, r |-> Outcome(fed)]
                /\ UNCHANGED <<cs, gj, open, n, nacct, arch>>

\* ------------------------------------------------------------------ behaviours
Init == /\ cs = [c \in Contacts |-> "U"] /\ gj = FALSE /\ open = {"acct"}
        /\ n = [g \in GroupSet |-> IF g = "acct" THEN [meta |-> InitMeta("acct"), msg |-> 0] ELSE Empty]
        /\ nacct = 0 /\ arch = [files |-> <<>>, n |-> n, open |-> {}, k |-> 0] /\ res = [ok |-> TRUE]
HistOp == \/ \E op \in {"en", "dis", "rs"} : SwitchOp(op)
          \/ \E op \in ContactOps, c \in Contacts : ContactOp(op, c)
          \/ \E op \in {"join", "leave"} : JoinOp(op)
          \/ MmCreate
          \/ \E g \in GroupSet, s \in StoreSet : Send(g, s)
\* (the history goes on after the last export only if another export can follow)
Next == \/ (arch.k < MaxExports /\ HistOp)
        \/ Export
        \/ ("fed" \notin DOMAIN res /\ \E fed \in Mutations(arch.files) : Restore(fed))   \* (restores do not depend on one another)
Spec == Init /\ [][Next]_vars

-----------------------------------------------------------------------------
\* The property (C20) on the model
IsRestore == "fed" \in DOMAIN res
Unmutated == res.fed = Fed(arch.files)
Count(fs, P(_)) == Cardinality({i \in DOMAIN fs : P(fs[i])})
KeyCountOK(fs) == \A k \in {"account", "proof"} : Count(fs, LAMBDA f : f.t = "key" /\ f.n = k) = 1
BadEntry(fs) == \E i \in DOMAIN fs : fs[i].t = "entry" /\ fs[i].dmg # "no"
\* the files of group g arrived: every exported entry at least once and undamaged, the heads file at least once, no damaged copy
Intact(fed, g) ==
  /\ ~fed.partial \/ (Len(fed.files) > 0 /\ fed.files[Len(fed.files)].g # g)
  /\ \A s \in StoreSet : \A k \in 1..arch.n[g][s] :
       \E i \in DOMAIN fed.files : fed.files[i] = EntryF(g, s, k)
  /\ \E i \in DOMAIN fed.files : fed.files[i] = HeadsF(g, arch.n[g].meta, arch.n[g].msg)
  /\ \A i \in DOMAIN fed.files : (fed.files[i].g = g) => fed.files[i].dmg = "no"
\* an account export restores to the same identity, logs and state
SameRestore == (IsRestore /\ Unmutated) =>
                  /\ res.r.out = "ok" /\ res.r.keys = "same"
                  /\ \A g \in arch.open : res.r.g[g] = arch.n[g]
\* named damage is rejected
Rejected == (IsRestore /\ (BadEntry(res.fed.files) \/ ~KeyCountOK(res.fed.files) \/ res.fed.used)) => res.r.out = "err"
\* any other damage: no crash; dropped / duplicated / reordered / damaged entry and heads files: never a silently different state
NoCrash == IsRestore => res.r.out # "crash"
\* (a byte flipped inside a key file: the property asks for nothing but the absence of a crash)
KeyDamaged(fs) == \E i \in DOMAIN fs : fs[i].t = "key" /\ fs[i].dmg # "no"
NeverSilentlyDifferent ==
  (IsRestore /\ res.r.out = "ok" /\ ~KeyDamaged(res.fed.files)) =>
      /\ res.r.keys = "same"
      /\ \A g \in arch.open : Intact(res.fed, g) => res.r.g[g] = arch.n[g]
\* the export itself: both keys, and for every open group every entry and the current heads
ExportComplete == (arch.files # <<>>) =>
      /\ KeyCountOK(arch.files)
      /\ \A g \in arch.open : Intact(Fed(arch.files), g)
=============================================================================
