----------------------------- MODULE MonPushSvc -----------------------------
(***************************************************************************)
(* Property monitor for C14 at the SERVICE layer: api_app.go               *)
(* (OutOfStoreSeal / OutOfStoreReceive), store_message.go                  *)
(* (GetOutOfStoreMessageEnvelope, the message store's log path) and the    *)
(* standalone pkg/outofstoremessage service, recorded by                   *)
(* harness/root/vf_pushsvc_verif_test.go.                                  *)
(*                                                                         *)
(* It EXTENDS MonRatchet: the history variables (sent, reg, opened, last), *)
(* the guaranteed log window MustOpen / MustFail (C02), the reference      *)
(* window Inside / Outside with its tolerant edges and Faithful are the    *)
(* same formulas; seal / announce / register events are judged by          *)
(* MonRatchet's own actions.  Devices are the driver's streams (a sender   *)
(* node in a group).  The service-level events:                            *)
(*                                                                         *)
(*  deliver  the receiver's message store got the log entry of message k   *)
(*           (no claim: what the log path makes of it follows as lopen)    *)
(*  lopen    the receiver's LOG PATH delivered message k (GroupMessageEvent *)
(*           on its event bus, or an event of a GroupMessageList reply)    *)
(*  lfail    GroupMessageList went over the entry of message k (in the     *)
(*           order of the receiver's log) and did not return it            *)
(*  push     OutOfStoreSeal(cid_k, group) at the sender, then               *)
(*           OutOfStoreReceive at the receiver's service (via = "svc") or  *)
(*           at a standalone service over its root datastore ("off",       *)
(*           "offc")                                                       *)
(*  sealbad  OutOfStoreSeal for a CID that is not a message of the named   *)
(*           group at that node                                            *)
(*  recvbad  OutOfStoreReceive of n altered payloads (bit flips,           *)
(*           truncations) or of a payload of a group unknown to the        *)
(*           receiver: acc = how many were accepted                        *)
(*                                                                         *)
(* Clauses: (a) PPush lines 1-2 and 4, (b) PPush `already`, (c) PLFail /   *)
(* PLOpen after pushes and PPush after log deliveries, (d) PRecvBad,       *)
(* (e) PSealBad.                                                           *)
(***************************************************************************)
EXTENDS MonRatchet

Same4 == UNCHANGED <<sent, reg, opened, last>>

PDeliver == Consume("deliver") /\ Same4
PList == Consume("list") /\ Same4
\* (c) a message the log path delivers is the original one, and it is never one the receiver cannot have a key for
PLOpen == /\ Consume("lopen") /\ Kept
          /\ ~MustFail(Ev.d, Ev.k)
          /\ Faithful /\ Ev.pgroup
          /\ opened' = [opened EXCEPT ![Ev.d] = @ \cup {Ev.k}]
          /\ last' = [last EXCEPT ![Ev.d] = Ev.k]
          /\ UNCHANGED <<sent, reg>>
\* (c) whatever was pushed before, the listing returns every message the log path can open at its turn
PLFail == /\ Consume("lfail")
          /\ ~MustOpen(Ev.d, Ev.k)
          /\ Same4
\* (a) (b) and the reverse direction of (c); the recorded pcid (the reply names the message's CID) is informative only:
\* the statement does not mention it
PPush == /\ Consume("push") /\ Kept
         /\ Ev.sealok
         /\ ((MustOpen(Ev.d, Ev.k) /\ Inside(Ev.d, Ev.k)) => Ev.ok)
         /\ ((MustFail(Ev.d, Ev.k) \/ Outside(Ev.d, Ev.k)) => ~Ev.ok)
         /\ (Ev.ok => Faithful /\ Ev.pgroup /\ (Ev.already <=> Ev.k \in opened[Ev.d]))
         /\ last' = IF Ev.ok THEN [last EXCEPT ![Ev.d] = Ev.k] ELSE last
         /\ UNCHANGED <<sent, reg, opened>>
\* (e) only a message of the group can be sealed for the group
PSealBad == Consume("sealbad") /\ ~Ev.ok /\ Same4
\* (d) altered payloads and unknown group references are rejected
PRecvBad == Consume("recvbad") /\ Ev.acc = 0 /\ Same4

PNext == MReset \/ MSeal \/ MAnnounce \/ MRegister \/ PDeliver \/ PList \/ PLOpen \/ PLFail \/ PPush \/ PSealBad \/ PRecvBad
PSpec == MInit /\ [][PNext]_mvars
=============================================================================
