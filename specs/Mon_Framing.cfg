SPECIFICATION MSpec
CONSTANTS
  Slack = 1048576
CONSTRAINT Mark
POSTCONDITION Accepted
CHECK_DEADLOCK FALSE
