SPECIFICATION MSpec
CONSTANTS
  Slack = 65536
CONSTRAINT Mark
POSTCONDITION Accepted
CHECK_DEADLOCK FALSE
