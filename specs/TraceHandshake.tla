--------------------------- MODULE TraceHandshake ---------------------------
(* Full-spec conformance for Handshake: every recorded delivery must be the     *)
(* corresponding action of Handshake.tla with the observed outcome, and at the  *)
(* end of a run every session's observed return value, reported key, peer       *)
(* ephemeral and emitted frames must equal the model state.  A rejection here   *)
(* is model drift, never a verdict.                                             *)
EXTENDS Handshake, Json, IOUtils

TraceLog == ndJsonDeserialize(IOEnv.VERIF_TRACE)

VARIABLE l
tvars == <<vars, l>>

Ev == TraceLog[l]
Consume(e) == l <= Len(TraceLog) /\ Ev.ev = e /\ l' = l + 1

TReset == /\ Consume("reset")
          /\ sess' = <<NewSess(Ev.d[1]), NewSess(Ev.d[2]), NewSess(Ev.d[3])>>
          /\ res' = [s |-> 0, kind |-> "-", src |-> 0, c |-> FALSE, out |-> "-", key |-> "-"]
Obs == res'.out = Ev.out /\ res'.key = Ev.key
TStart == Consume("start") /\ Start(Ev.s) /\ Obs
THello == Consume("hello") /\ ~Ev.skip /\ Hello(Ev.s, Ev.x, Ev.c) /\ Obs
TAuth == Consume("auth") /\ ~Ev.skip /\ Auth(Ev.s, Ev.src, Ev.acct, <<Ev.pfk, Ev.pfj>>, Ev.c) /\ Obs
TAccept == Consume("accept") /\ ~Ev.skip /\ Accept(Ev.s, Ev.src, <<Ev.pfk, Ev.pfj>>, Ev.c) /\ Obs
TAck == Consume("ack") /\ ~Ev.skip /\ Ack(Ev.s, Ev.src, Ev.x, Ev.c) /\ Obs
TDrop == Consume("drop") /\ ~Ev.skip /\ Drop(Ev.s) /\ Obs
\* a scripted delivery the intruder could not perform as scripted (the real session had already
\* returned, or the frame / proof to replay was never emitted): the stream is closed instead, which
\* the model sees as the session being abandoned
TSkip == /\ l <= Len(TraceLog) /\ Ev.ev \in {"hello", "auth", "accept", "ack", "drop"} /\ Ev.skip
         /\ l' = l + 1 /\ UNCHANGED vars

\* final returns: a session that is still live when the script ends sees its stream closed
PeName(i) == IF sess[i].pe = "none" THEN "-" ELSE IF sess[i].pe = "ex" THEN "x" ELSE sess[i].pe
FinOK(i) == LET o == Ev.sess[i] IN
              IF Role(i) = "none" THEN o.ret = "-"
              ELSE /\ (o.ret = "ok") = (sess[i].step = 5 /\ ~sess[i].fail)
                   /\ (o.ret = "ok" /\ IsRsp(i)) => o.key = sess[i].pa
                   /\ o.s3 = Sent3(i) /\ o.s4 = Sent4(i)
                   /\ (~sess[i].fail) => o.pe = PeName(i)
TFin == Consume("fin") /\ (\A i \in Slots : FinOK(i)) /\ UNCHANGED vars

TNext == TReset \/ TStart \/ THello \/ TAuth \/ TAccept \/ TAck \/ TDrop \/ TSkip \/ TFin
TInit == Init /\ l = 1 /\ TLCSet(42, 1)
TSpec == TInit /\ [][TNext]_tvars

Mark == TLCSet(42, IF l > TLCGet(42) THEN l ELSE TLCGet(42))
Accepted == LET hw == TLCGet(42) IN
              IF hw = Len(TraceLog) + 1 THEN TRUE
              ELSE /\ PrintT(<<"REJECTED", ToJson([high |-> hw - 1, line |-> TraceLog[hw]])>>)
                   /\ FALSE
=============================================================================
