---------------------------- MODULE MonKeySched ----------------------------
(* C11 monitor for lock-level controlled schedules of concurrent FIRST uses of a fresh store's   *)
(* keys.  When every task has finished: no call failed, nobody is left waiting for a lock, every *)
(* task was given the same value per operation, that value is what the store answers afterwards, *)
(* a fresh store restored from the exported account keys derives the same account, proof,        *)
(* contact-group and member identities, and the contact derives the same contact group.          *)
(* Observed values only.                                                                         *)
EXTENDS Naturals, Sequences, FiniteSets, TLC, Json, IOUtils

TraceLog == ndJsonDeserialize(IOEnv.VERIF_TRACE)
VARIABLE l
Ev == TraceLog[l]
Consume(e) == l <= Len(TraceLog) /\ Ev.ev = e /\ l' = l + 1
Ops == DOMAIN Ev.given
Shared == {"acct", "proof", "contact", "member", "export"}   \* identities a restored store must reproduce
MReset == Consume("reset")
MFinal == /\ Consume("keyfinal")
          /\ Ev.notdone = <<>> /\ Ev.errs = 0 /\ Ev.imported
          /\ \A op \in Ops : /\ Len(Ev.given[op]) = 1                      \* one value per operation, whoever asked
                             /\ op \in DOMAIN Ev.again /\ Ev.again[op] = Ev.given[op][1]
                             /\ (op \in Shared) => (op \in DOMAIN Ev.restored /\ Ev.restored[op] = Ev.given[op][1])
          /\ \A op \in Shared \cap DOMAIN Ev.again : op \in DOMAIN Ev.restored /\ Ev.restored[op] = Ev.again[op]
          /\ ("contact" \in DOMAIN Ev.again) => Ev.peer = Ev.again["contact"]
MNext == MReset \/ MFinal
MInit == l = 1 /\ TLCSet(42, 1)
MSpec == MInit /\ [][MNext]_l
Mark == TLCSet(42, IF l > TLCGet(42) THEN l ELSE TLCGet(42))
Accepted == LET hw == TLCGet(42) IN
              IF hw = Len(TraceLog) + 1 THEN TRUE
              ELSE /\ PrintT(<<"REJECTED", ToJson([high |-> hw - 1, line |-> TraceLog[hw]])>>)
                   /\ FALSE
=============================================================================
