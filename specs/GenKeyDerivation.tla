------------------------- MODULE GenKeyDerivation -------------------------
(* Script generation for KeyDerivation (C11): every order of at most MaxOps  *)
(* operations over the stores; stores are taken into use in a fixed order    *)
(* (they are interchangeable), complete histories are printed as JSON.       *)
EXTENDS KeyDerivation, Json

\* the stores in the order in which they are taken into use: store i+1 is used only after store i
Order == <<"S1", "S2", "S3", "S4">>

VARIABLES h, touched
gvars == <<vars, h, touched>>

Idx(s) == CHOOSE i \in DOMAIN Order : Order[i] = s
MayUse(s) == \A i \in 1..(Idx(s) - 1) : Order[i] \in Stores => Order[i] \in touched

Rec(act, s, p, g, kind) == /\ h' = Append(h, [act |-> act, s |-> s, d |-> p, a |-> [g |-> g, kind |-> kind], res |-> res'])
                            /\ touched' = touched \cup {s}

GInit == Init /\ h = <<>> /\ touched = {}
GNext == \E s \in Stores : MayUse(s) /\
           \/ AccountGroup(s) /\ Rec("account", s, "", "", "")
           \/ Export(s) /\ Rec("export", s, "", "", "")
           \/ \E p \in Stores : ContactGroup(s, p) /\ Rec("contact", s, p, "", "")
           \/ \E g \in Groups : MemberDevice(s, g) /\ Rec("member", s, "", g, "")
           \/ \E src \in Stores, kind \in Kinds : Import(s, src, kind) /\ Rec("import", s, src, "", kind)
GSpec == GInit /\ [][GNext]_gvars

Complete == nops = MaxOps
Dump == Complete => PrintT(<<"SCRIPT", ToJson(h)>>)
=============================================================================
