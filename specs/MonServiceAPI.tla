--------------------------- MODULE MonServiceAPI ---------------------------
(***************************************************************************)
(* Property monitor for C19 over a recorded trace of the real protocol     *)
(* service and of the exported helpers.  Observed values only: a line is   *)
(* accepted iff                                                            *)
(*   - the call was answered (out is ok or err): a recovered panic         *)
(*     (out = "panic") or a process death attributed to the call           *)
(*     (ev = "crash") has no accepting action;                             *)
(*   - where the statement demands an error (MustErr over the request      *)
(*     shape and the OBSERVED projection of the state the request met,     *)
(*     logged before the call), the answer was an error.                   *)
(* Everything else (which of ok / err, replies, state changes) is open.    *)
(* Collect mode (VERIF_COLLECT=1): a line that fails is printed as BAD and *)
(* skipped, so that one run lists every failing line of a trace.           *)
(***************************************************************************)
EXTENDS ServiceAPIDefs, Json, IOUtils

TraceLog == ndJsonDeserialize(IOEnv.VERIF_TRACE)
Collect == "VERIF_COLLECT" \in DOMAIN IOEnv /\ IOEnv.VERIF_COLLECT = "1"

VARIABLES l
mvars == <<l>>

Ev == TraceLog[l]
Consume(e) == l <= Len(TraceLog) /\ Ev.ev = e /\ l' = l + 1

Answered(e) == e.out \in {"ok", "err"}
\* the gRPC client of the driver ended an open-ended stream itself (deadline): the process is alive, no
\* answer was observed (the same request was answered under recover just before, and judged there)
Cut(e) == e.via = "grpc" /\ e.out = "cut"
RpcAnswerGood(e) ==
  /\ Answered(e)
  /\ (e.k # "odd" /\ MustErr(e.rpc, [k |-> e.k, p |-> e.p, s |-> e.s],
                             [acct |-> e.pre.acct, gm |-> e.pre.gm, gc |-> e.pre.gc])) => e.out = "err"
RpcGood(e) == Cut(e) \/ RpcAnswerGood(e)
HelperGood(e) == Answered(e) /\ (HelperMustErr(e.fn, e.c) => e.out = "err")
Good(e) == CASE e.ev = "reset" -> TRUE
             [] e.ev = "rpc" -> RpcGood(e)
             [] e.ev = "helper" -> HelperGood(e)
             [] OTHER -> FALSE          \* "crash": the process died while serving this call

MReset == Consume("reset")
MRpc == Consume("rpc") /\ RpcGood(Ev)
MHelper == Consume("helper") /\ HelperGood(Ev)
MBad == /\ Collect /\ l <= Len(TraceLog) /\ ~Good(Ev)
        /\ PrintT(<<"BAD", ToJson([at |-> l, line |-> Ev])>>)
        /\ l' = l + 1

MNext == MReset \/ MRpc \/ MHelper \/ MBad
MInit == l = 1 /\ TLCSet(42, 1)
MSpec == MInit /\ [][MNext]_mvars

Mark == TLCSet(42, IF l > TLCGet(42) THEN l ELSE TLCGet(42))
Accepted == LET hw == TLCGet(42) IN
              IF hw = Len(TraceLog) + 1 THEN TRUE
              ELSE /\ PrintT(<<"REJECTED", ToJson([high |-> hw - 1, line |-> TraceLog[hw]])>>)
                   /\ FALSE
=============================================================================
