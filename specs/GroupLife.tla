---------------------------- MODULE GroupLife ----------------------------
(* The protocol service's GROUP LIFECYCLE on one device (service_group.go, api_group.go, api_app.go,      *)
(* api_event.go, api_multimember.go, api_contactrequest.go ContactRequestAccept, service.go Close,        *)
(* group_context.go ActivateGroupContext / Close, orbitdb.go OpenGroup / getGroupContext).                *)
(* NOT one of the twenty listed properties: see checks/grouplife.py.                                      *)
(*                                                                                                        *)
(* Three groups: "A" the account group, "C" the contact group of one contact whose request has been       *)
(* received, "M" one multi-member group.  One action per code step AT THE GRANULARITY OF THE SERVICE      *)
(* LOCK: a request that looks something up under s.lock.RLock and acts later under s.lock.Lock (or on the  *)
(* looked-up context without any lock) is two actions, and another client's request may come in between.  *)
(* The gates of harness/root/zz_vfgl_verif.go sit exactly at these points:                                *)
(*   deactivateGroup: D1 lookup of openedGroups[id] (RLock)  | gate "deact" |  D2 Lock: Close, delete      *)
(*   activateGroup:   A1 getGroupForPK (secret store, reindex) | gate "act" |  A2 Lock: open + activate    *)
(*   AppMessageSend / AppMetadataSend: S1 lookup             | gate "send"  |  S2 append on that context  *)
(*   MultiMemberGroupCreate = join + PutGroup + activateGroup (its gate "act") + claim                     *)
(*   service.Close = gather the opened groups under Lock, then deactivateGroup for each (its gate)         *)
(*                                                                                                        *)
(* What the code does and a design would not (each is a CONSTANT with the code's value TRUE, so that the   *)
(* design-level invariant it breaks can be shown broken, and shown to hold when it is FALSE):              *)
(*   SendOnClosedOk     D1  an append on a context that was closed after the lookup succeeds ("ok") and    *)
(*                          the entry is in the log (found after the next activation) - unless a context   *)
(*                          opened meanwhile appends first: then the acknowledged entry is lost (D1')      *)
(*   StaleDeactDeletes  D2  deactivateGroup's second step closes the context it looked up EARLIER but      *)
(*                          deletes whatever openedGroups holds NOW (and clears accountGroupCtx): after    *)
(*                          deactivate || (deactivate; activate) a live, activated context is left that    *)
(*                          is not in openedGroups                                                         *)
(*   ReactivateStacks   D4  activating a group that is open calls ActivateGroupContext on the SAME         *)
(*                          context again: one more handler goroutine (and peer tagger) per call           *)
(* and two that have no switch: D3 an open-ended listing subscribed before a deactivation neither ends nor  *)
(* follows the group to its next context (it ends when its client goes away); D5 an activation whose       *)
(* second step runs after Close leaves a group open in a closed service.                                   *)
(* Deliberate restrictions: one Close per behaviour; MultiMemberGroupCreate only while "M" is not joined,    *)
(* and nobody addresses "M" while it is being created (its key is in the reply); Join / Accept / Create are *)
(* atomic here although the handlers check the account's index and append in two steps without a lock (D7: *)
(* two concurrent accepts / joins both pass the check and both append - such pairs are not generated);      *)
(* localOnly is a parameter without effect here (no network); replication, other members and the          *)
(* contact-request manager are outside.                                                                    *)
EXTENDS Integers, Sequences, FiniteSets, TLC

CONSTANTS Clients, OpKinds, ReqG, MaxReq, MaxGen, MaxMsg, MaxAct,
          SendOnClosedOk, StaleDeactDeletes, ReactivateStacks

G == {"A", "C", "M"}

VARIABLES known,    \* groups the secret store's group datastore holds
          joined,   \* \subseteq {"C","M"}: contact accepted / group joined in the account's metadata log
          opened,   \* s.openedGroups: group -> context number (0 = no entry)
          acct,     \* s.accountGroupCtx: context number of "A" (0 = nil)
          odb,      \* odb.groupContexts: group -> context number of the entry (0 = none)
          ctx,      \* group -> sequence of contexts ever created: [closed, na = ActivateGroupContext calls,
                    \*   vm / vd = app messages / app metadata entries THIS context's log holds]
          msgs, meta, \* what the next Load of the group's logs will find: the cache names the entry appended LAST as the
                    \* only local head, so it is the view of the context that appended last (persists across contexts)
          svc,      \* "up" | "closing" | "closed"
          strm,     \* the open-ended message listing: [on, g, k = context it subscribed to, n = events received]
          pc,       \* client -> request in flight
          res,      \* client -> last reply [r, n]
          nreq

vars == <<known, joined, opened, acct, odb, ctx, msgs, meta, svc, strm, pc, res, nreq>>

Idle == [op |-> "-", g |-> "-", lo |-> 0, stage |-> "idle", ref |-> 0, todo |-> {}]
NoStrm == [on |-> FALSE, g |-> "-", k |-> 0, n |-> 0]

Init == /\ known = {"A"} /\ joined = {}
        /\ opened = [g \in G |-> IF g = "A" THEN 1 ELSE 0]
        /\ acct = 1
        /\ odb = [g \in G |-> IF g = "A" THEN 1 ELSE 0]
        /\ ctx = [g \in G |-> IF g = "A" THEN <<[closed |-> FALSE, na |-> 1, vm |-> 0, vd |-> 0]>> ELSE <<>>]
        /\ msgs = [g \in G |-> 0] /\ meta = [g \in G |-> 0]
        /\ svc = "up" /\ strm = NoStrm
        /\ pc = [c \in Clients |-> Idle]
        /\ res = [c \in Clients |-> [r |-> "-", n |-> -1]]
        /\ nreq = 0

Live(g) == odb[g] # 0 /\ ~ctx[g][odb[g]].closed
RECURSIVE SumSeq(_, _)
SumSeq(s, i) == IF i > Len(s) THEN 0 ELSE (IF s[i].closed THEN 0 ELSE s[i].na) + SumSeq(s, i + 1)
NSub == SumSeq(ctx["A"], 1) + SumSeq(ctx["C"], 1) + SumSeq(ctx["M"], 1)

Reply(c, r, n) == /\ pc' = [pc EXCEPT ![c] = Idle] /\ res' = [res EXCEPT ![c] = [r |-> r, n |-> n]]
Park(c, rec, gate) == /\ pc' = [pc EXCEPT ![c] = rec] /\ res' = [res EXCEPT ![c] = [r |-> "at:" \o gate, n |-> -1]]

\* getGroupForPK: the secret store, else (account group open) re-index the account's log into it, else refuse
Reindexed == known \cup (joined \cap {"M"}) \cup {"C"}
PKRes(g) == IF g \in known THEN [ok |-> TRUE, kn |-> known, e |-> "-"]
            ELSE IF acct = 0 THEN [ok |-> FALSE, kn |-> known, e |-> "ErrGroupMissing"]
            ELSE IF g \in Reindexed THEN [ok |-> TRUE, kn |-> Reindexed, e |-> "-"]
            ELSE [ok |-> FALSE, kn |-> Reindexed, e |-> "ErrInvalidInput"]

\* odb.OpenGroup (the live context of the group, else a new one) + ActivateGroupContext + openedGroups[id] = gc
NewK(g) == IF Live(g) THEN odb[g] ELSE Len(ctx[g]) + 1
OpenAct(g) ==
  /\ ctx' = IF Live(g) THEN [ctx EXCEPT ![g][odb[g]].na = IF ReactivateStacks THEN @ + 1 ELSE @]
            ELSE [ctx EXCEPT ![g] = Append(@, [closed |-> FALSE, na |-> 1, vm |-> msgs[g], vd |-> meta[g]])]
  /\ odb' = [odb EXCEPT ![g] = NewK(g)]
  /\ opened' = [opened EXCEPT ![g] = NewK(g)]

\* second step of deactivateGroup on the context looked up earlier
Deact2(g, k) ==
  /\ ctx' = [ctx EXCEPT ![g][k].closed = TRUE]
  /\ opened' = [opened EXCEPT ![g] = IF StaleDeactDeletes \/ @ = k THEN 0 ELSE @]
  /\ acct' = IF g = "A" /\ (StaleDeactDeletes \/ acct = k) THEN 0 ELSE acct

\* requests are also taken after Close has returned (the handlers do not look at it): what is opened then stays open (D5)
CanStart(c, op) == pc[c].stage = "idle" /\ nreq < MaxReq /\ op \in OpKinds
MFree == \A d \in Clients : pc[d].op # "create"
Addr(g) == g # "M" \/ MFree
Req(c, op, g, lo, stage, ref, todo) == [op |-> op, g |-> g, lo |-> lo, stage |-> stage, ref |-> ref, todo |-> todo]

(* ---- ActivateGroup *)
StartAct(c, g, lo) ==
  /\ CanStart(c, "act") /\ Addr(g)
  /\ LET p == PKRes(g) IN
       /\ known' = p.kn
       /\ IF p.ok THEN Park(c, Req(c, "act", g, lo, "act", 0, {}), "act")
          ELSE Reply(c, "err:ErrInternal/" \o p.e, -1)
  /\ nreq' = nreq + 1
  /\ UNCHANGED <<joined, opened, acct, odb, ctx, msgs, meta, svc, strm>>

StepAct(c) ==
  /\ pc[c].stage = "act"
  /\ LET g == pc[c].g IN
       IF g = "C" /\ acct = 0
       THEN /\ Reply(c, "err:ErrInternal/ErrGroupActivate", -1) /\ UNCHANGED <<opened, acct, odb, ctx>>
       ELSE /\ OpenAct(g) /\ acct' = (IF g = "A" THEN NewK(g) ELSE acct) /\ Reply(c, "ok", -1)
  /\ UNCHANGED <<known, joined, msgs, meta, svc, strm, nreq>>

(* ---- DeactivateGroup *)
StartDeact(c, g) ==
  /\ CanStart(c, "deact") /\ Addr(g)
  /\ IF opened[g] = 0 THEN Reply(c, "ok", -1)
     ELSE Park(c, Req(c, "deact", g, 0, "deact", opened[g], {}), "deact")
  /\ nreq' = nreq + 1
  /\ UNCHANGED <<known, joined, opened, acct, odb, ctx, msgs, meta, svc, strm>>

StepDeact(c) ==
  /\ pc[c].stage = "deact"
  /\ Deact2(pc[c].g, pc[c].ref)
  /\ Reply(c, "ok", -1)
  /\ UNCHANGED <<known, joined, odb, msgs, meta, svc, strm, nreq>>

(* ---- GroupInfo *)
Info(c, g) ==
  /\ CanStart(c, "info") /\ Addr(g)
  /\ LET p == PKRes(g) IN
       /\ known' = p.kn
       /\ Reply(c, IF p.ok THEN "ok" ELSE "err:TODO/" \o p.e, -1)
  /\ nreq' = nreq + 1
  /\ UNCHANGED <<joined, opened, acct, odb, ctx, msgs, meta, svc, strm>>

(* ---- AppMessageSend ("sendm") / AppMetadataSend ("sendd") *)
StartSend(c, g, kind) ==
  /\ CanStart(c, kind) /\ Addr(g)
  /\ IF opened[g] = 0 THEN Reply(c, "err:ErrGroupMissing/ErrGroupUnknown", -1)
     ELSE Park(c, Req(c, kind, g, 0, "send", opened[g], {}), "send")
  /\ nreq' = nreq + 1
  /\ UNCHANGED <<known, joined, opened, acct, odb, ctx, msgs, meta, svc, strm>>

StepSend(c) ==
  /\ pc[c].stage = "send"
  /\ LET g == pc[c].g
         k == pc[c].ref
         dead == ctx[g][k].closed IN
       IF dead /\ ~SendOnClosedOk
       THEN /\ Reply(c, "err:ErrOrbitDBAppend/closed", -1) /\ UNCHANGED <<msgs, meta, strm, ctx>>
       ELSE \* the entry is appended to the log of THAT context (closed or not) and becomes the cached head: a context opened
            \* meanwhile does not see it, and its own next append makes it unreachable for good (D1, second half)
            /\ IF pc[c].op = "sendm"
               THEN /\ ctx' = [ctx EXCEPT ![g][k].vm = @ + 1] /\ msgs' = [msgs EXCEPT ![g] = ctx[g][k].vm + 1] /\ UNCHANGED meta
               ELSE /\ ctx' = [ctx EXCEPT ![g][k].vd = @ + 1] /\ meta' = [meta EXCEPT ![g] = ctx[g][k].vd + 1] /\ UNCHANGED msgs
            \* a closed context's store publishes nothing: the listing that subscribed to it sees nothing
            /\ strm' = IF strm.on /\ strm.g = g /\ strm.k = k /\ pc[c].op = "sendm" /\ ~dead
                       THEN [strm EXCEPT !.n = @ + 1] ELSE strm
            /\ Reply(c, "ok", -1)
  /\ UNCHANGED <<known, joined, opened, acct, odb, svc, nreq>>

(* ---- GroupMessageList / GroupMetadataList until now ("listm" / "listd"): what the log holds *)
List(c, g, kind) ==
  /\ CanStart(c, kind) /\ Addr(g)
  /\ IF opened[g] = 0 THEN Reply(c, "err:ErrGroupMemberUnknownGroupID/ErrGroupUnknown", -1)
     ELSE Reply(c, "ok", IF kind = "listm" THEN ctx[g][opened[g]].vm ELSE ctx[g][opened[g]].vd)
  /\ nreq' = nreq + 1
  /\ UNCHANGED <<known, joined, opened, acct, odb, ctx, msgs, meta, svc, strm>>

(* ---- open-ended GroupMessageList (since now): subscribes to the CURRENT context's message store *)
Sub(c, g) ==
  /\ CanStart(c, "sub") /\ Addr(g) /\ ~strm.on
  /\ IF opened[g] = 0 THEN Reply(c, "err:ErrGroupMemberUnknownGroupID/ErrGroupUnknown", -1) /\ UNCHANGED strm
     ELSE Reply(c, "ok", 0) /\ strm' = [on |-> TRUE, g |-> g, k |-> opened[g], n |-> 0]
  /\ nreq' = nreq + 1
  /\ UNCHANGED <<known, joined, opened, acct, odb, ctx, msgs, meta, svc>>

\* the stream's client goes away: the only thing that ends it (D3)
Cancel == /\ strm.on /\ strm' = NoStrm
          /\ UNCHANGED <<known, joined, opened, acct, odb, ctx, msgs, meta, svc, pc, res, nreq>>

(* ---- MultiMemberGroupJoin / ContactRequestAccept / MultiMemberGroupCreate *)
Join(c) ==
  /\ CanStart(c, "join") /\ MFree
  /\ IF acct = 0 THEN Reply(c, "err:ErrGroupMissing/ErrGroupMissing", -1) /\ UNCHANGED joined
     ELSE IF "M" \in joined THEN Reply(c, "err:ErrOrbitDBAppend/ErrInvalidInput", -1) /\ UNCHANGED joined
     ELSE Reply(c, "ok", -1) /\ joined' = joined \cup {"M"}
  /\ nreq' = nreq + 1
  /\ UNCHANGED <<known, opened, acct, odb, ctx, msgs, meta, svc, strm>>

Accept(c) ==
  /\ CanStart(c, "accept")
  /\ IF acct = 0 THEN Reply(c, "err:ErrGroupMissing/ErrGroupMissing", -1) /\ UNCHANGED <<joined, known>>
     ELSE IF "C" \in joined THEN Reply(c, "err:ErrOrbitDBAppend/ErrInvalidInput", -1) /\ UNCHANGED <<joined, known>>
     ELSE Reply(c, "ok", -1) /\ joined' = joined \cup {"C"} /\ known' = known \cup {"C"}
  /\ nreq' = nreq + 1
  /\ UNCHANGED <<opened, acct, odb, ctx, msgs, meta, svc, strm>>

StartCreate(c) ==
  /\ CanStart(c, "create") /\ MFree /\ "M" \notin joined /\ "M" \notin known /\ opened["M"] = 0 /\ ~Live("M")
  /\ (strm.on => strm.g # "M")
  /\ IF acct = 0 THEN Reply(c, "err:ErrGroupMissing/ErrGroupMissing", -1)
     ELSE Park(c, Req(c, "create", "M", 0, "create", 0, {}), "act")
  /\ nreq' = nreq + 1
  /\ UNCHANGED <<joined, known, opened, acct, odb, ctx, msgs, meta, svc, strm>>

\* the join entry and the secret store's record are written BEFORE the gate, but they concern a key that only the
\* reply makes known: for every other request "M" is the created group from the reply on (modelled at this step)
StepCreate(c) ==
  /\ pc[c].stage = "create"
  /\ joined' = joined \cup {"M"} /\ known' = known \cup {"M"}
  /\ OpenAct("M") /\ Reply(c, "ok", -1)
  /\ UNCHANGED <<acct, msgs, meta, svc, strm, nreq>>

(* ---- service.Close: gather under the lock, then deactivateGroup one by one (Go map order: any) *)
StartClose(c) ==
  /\ CanStart(c, "close") /\ svc = "up"
  /\ LET todo == {g \in G : opened[g] # 0} IN
       IF todo = {} THEN Reply(c, "ok", -1) /\ svc' = "closed"
       ELSE /\ svc' = "closing"
            /\ \E g \in todo : Park(c, Req(c, "close", g, 0, "close", opened[g], todo \ {g}), "deact")
  /\ nreq' = nreq + 1
  /\ UNCHANGED <<known, joined, opened, acct, odb, ctx, msgs, meta, strm>>

StepClose(c) ==
  /\ pc[c].stage = "close"
  /\ Deact2(pc[c].g, pc[c].ref)
  /\ LET rest == {h \in pc[c].todo : opened'[h] # 0} IN
       IF rest = {} THEN Reply(c, "ok", -1) /\ svc' = "closed"
       ELSE /\ svc' = svc
            \* groups of the list that are not opened when their turn comes are passed over for good
            /\ \E h \in rest : \E keep \in SUBSET (pc[c].todo \ rest) :
                 Park(c, Req(c, "close", h, 0, "close", opened'[h], (rest \ {h}) \cup keep), "deact")
  /\ UNCHANGED <<known, joined, odb, msgs, meta, strm, nreq>>

Step(c) == StepAct(c) \/ StepDeact(c) \/ StepSend(c) \/ StepCreate(c) \/ StepClose(c)
Start(c) == \/ \E g \in ReqG : \E lo \in {0, 1} : StartAct(c, g, lo)
            \/ \E g \in ReqG : StartDeact(c, g) \/ Info(c, g) \/ StartSend(c, g, "sendm") \/ StartSend(c, g, "sendd")
                            \/ List(c, g, "listm") \/ List(c, g, "listd") \/ Sub(c, g)
            \/ Join(c) \/ Accept(c) \/ StartCreate(c) \/ StartClose(c)
Done == (\A c \in Clients : pc[c].stage = "idle") /\ UNCHANGED vars
Next == (\E c \in Clients : Start(c) \/ Step(c)) \/ ("cancel" \in OpKinds /\ Cancel) \/ Done
Spec == Init /\ [][Next]_vars

Bound == /\ \A g \in G : Len(ctx[g]) <= MaxGen /\ msgs[g] <= MaxMsg /\ meta[g] <= MaxMsg
         /\ \A g \in G : \A k \in DOMAIN ctx[g] : ctx[g][k].vm <= MaxMsg /\ ctx[g][k].vd <= MaxMsg
         /\ \A g \in G : \A k \in DOMAIN ctx[g] : ctx[g][k].na <= MaxAct

(* ------------------------------------------------------------------ design-level properties *)
AllIdle == \A c \in Clients : pc[c].stage = "idle"
TypeOK == /\ known \subseteq G /\ joined \subseteq {"C", "M"} /\ "A" \in known
          /\ \A g \in G : opened[g] \in 0..Len(ctx[g]) /\ odb[g] \in 0..Len(ctx[g])
          /\ acct \in 0..Len(ctx["A"]) /\ svc \in {"up", "closing", "closed"}
\* what openedGroups holds is an open context, the one orbit-db holds, and the account pointer agrees with it
OpenedIsOpen == \A g \in G : opened[g] # 0 => (~ctx[g][opened[g]].closed /\ opened[g] = odb[g])
AcctIsOpenedA == acct = opened["A"]
OneLiveContext == \A g \in G : Cardinality({k \in DOMAIN ctx[g] : ~ctx[g][k].closed}) <= 1
\* ... and conversely: with no request in flight every open context is in openedGroups      (broken by D2)
OpenIsOpened == AllIdle => \A g \in G : Live(g) => opened[g] = odb[g]
\* one handler goroutine per open context                                                   (broken by D4)
SingleHandler == \A g \in G : \A k \in DOMAIN ctx[g] : ~ctx[g][k].closed => ctx[g][k].na <= 1
\* nothing stays open in a closed service                                                   (broken by D5)
ClosedIsClosed == (svc = "closed" /\ AllIdle) => \A g \in G : ~Live(g)
\* an open-ended listing listens to the context requests are served from                    (broken by D3)
StreamFollows == (strm.on /\ AllIdle) => opened[strm.g] = strm.k
\* no request works on a closed context: it gets an error instead                           (broken by D1)
NoWorkOnClosed == [][\A c \in Clients : (pc[c].stage = "send" /\ pc'[c].stage = "idle" /\ res'[c].r = "ok")
                                           => ~ctx[pc[c].g][pc[c].ref].closed]_vars
\* while the account group is deactivated a contact group is not activated
ContactNeedsAccount == [][\A c \in Clients : (pc[c].stage = "act" /\ pc[c].g = "C" /\ pc'[c].stage = "idle" /\ acct = 0)
                                                => res'[c].r # "ok"]_vars
\* the number of entries a Load would find never shrinks (holds; it does not say that they are the SAME entries)
LogsGrow == [][\A g \in G : msgs'[g] >= msgs[g] /\ meta'[g] >= meta[g]]_vars
\* with no request in flight, the opened context's log is what a Load would find: a listing returns every acknowledged send
\* (broken by D1': the entry a stale send appended to a closed context is the cached head, but the context opened meanwhile does
\* not hold it - and its own next append cuts the entry off for good)
ViewIsLog == AllIdle => \A g \in G : opened[g] # 0 => (ctx[g][opened[g]].vm = msgs[g] /\ ctx[g][opened[g]].vd = meta[g])
=============================================================================
