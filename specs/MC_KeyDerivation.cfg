SPECIFICATION Spec
CONSTANTS
  Stores = {"S1", "S2", "S3"}
  Groups = {"g1"}
  MaxOps = 5
  MaxKey = 14
  CacheByPeer = TRUE
  CheckExists = TRUE
  CheckEqual = TRUE
  MemberFromProof = TRUE
INVARIANTS TypeOK C11_Contact C11_Member C11_Device C11_Import
PROPERTIES C11_Stable
VIEW view
CHECK_DEADLOCK FALSE
