SPECIFICATION Spec
CONSTANTS
  NonceBound = TRUE
INVARIANTS C05a_OnlyLegit C05a_RightKey
PROPERTIES C05a_Sticky
VIEW view
CHECK_DEADLOCK FALSE
