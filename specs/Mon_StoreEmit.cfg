SPECIFICATION MSpec
CONSTANTS
  W = 2
CONSTRAINT Mark
POSTCONDITION Accepted
CHECK_DEADLOCK FALSE
