------------------------------- MODULE Queue -------------------------------
(***************************************************************************)
(* SimpleQueue of internal/queue/simple.go at gate-to-gate granularity.    *)
(* A "gate" stands in front of every lock acquisition and every channel    *)
(* operation (tools/instrument); one action = the code one thread executes *)
(* between two consecutive gates.  pc values are the gates:                *)
(*   producer  start -> a_lock -> a_sel -> (a_lock | done)                 *)
(*   consumer  start -> w_lock -> (w_sel -> (w_parked) -> w_relock)* ...   *)
(*   canceller start -> c_cancel -> done                                   *)
(* "w_sel" (about to execute the select) and "w_parked" (inside it) are    *)
(* different states: a non-blocking send only succeeds against w_parked.   *)
(* Impl choice SignalBuffered: capacity of the wake-up channel (0 or 1).   *)
(***************************************************************************)
EXTENDS Naturals, Sequences, FiniteSets, TLC, Json

CONSTANTS Scenarios,       \* sequence of [items: [producer -> Seq(item)], wanted: Nat, cancel: BOOLEAN]
          SignalBuffered   \* Impl: wake-up channel has capacity 1

VARIABLE si                \* index of the scenario of this behaviour (chosen initially, constant)

Cons == "cons"
Canc == "cancel"
ItemsOf == Scenarios[si].items     \* [Producers -> Seq(item)]
Producers == DOMAIN ItemsOf        \* producer thread names
Wanted == Scenarios[si].wanted     \* number of WaitForItem calls the consumer makes at most
WithCancel == Scenarios[si].cancel \* a canceller thread exists
Threads == Producers \cup {Cons} \cup (IF WithCancel THEN {Canc} ELSE {})

VARIABLES list,     \* queue content
          mu,       \* holder of q.mu or "none"
          sigbuf,   \* buffered wake-up signals (0..1)
          pc, idx,
          got,      \* items returned to the consumer, in order
          rets,     \* number of WaitForItem returns so far
          lastok,   \* ok flag of the last return
          done,     \* ctx cancelled
          pushed,   \* history: all items in push order
          h         \* history: schedule (sequence of thread names)

vars == <<si, list, mu, sigbuf, pc, idx, got, rets, lastok, done, pushed, h>>
view == <<si, list, mu, sigbuf, pc, idx, got, rets, lastok, done>>

Init == /\ si \in DOMAIN Scenarios
        /\ list = <<>> /\ mu = "none" /\ sigbuf = 0
        /\ pc = [t \in Threads |-> "start"]
        /\ idx = [p \in Producers |-> 1]
        /\ got = <<>> /\ rets = 0 /\ lastok = TRUE /\ done = FALSE
        /\ pushed = <<>> /\ h = <<>>

Sched(t) == UNCHANGED si /\ h' = Append(h, [d |-> t, act |-> "step", to |-> pc'[t]])

\* ---- thread start: run to the first gate ----
Start(t) == /\ pc[t] = "start"
            /\ pc' = [pc EXCEPT ![t] = IF t \in Producers THEN (IF Len(ItemsOf[t]) = 0 THEN "done" ELSE "a_lock")
                                       ELSE IF t = Cons THEN (IF Wanted = 0 THEN "done" ELSE "w_lock")
                                       ELSE "c_cancel"]
            /\ UNCHANGED <<list, mu, sigbuf, idx, got, rets, lastok, done, pushed>> /\ Sched(t)

\* ---- producer: Add ----
\* gate Lock(q.mu): take the lock, push, reach the gate of the non-blocking select
ALock(p) == /\ pc[p] = "a_lock" /\ mu = "none"
            /\ mu' = p
            /\ list' = Append(list, ItemsOf[p][idx[p]])
            /\ pushed' = Append(pushed, ItemsOf[p][idx[p]])
            /\ pc' = [pc EXCEPT ![p] = "a_sel"]
            /\ UNCHANGED <<sigbuf, idx, got, rets, lastok, done>> /\ Sched(p)
\* gate select{signal<-; default}: rendezvous with a parked consumer, else buffer, else drop;
\* then the deferred Unlock and the next Add (or the end)
ASel(p) == /\ pc[p] = "a_sel"
           /\ LET next == IF idx[p] < Len(ItemsOf[p]) THEN "a_lock" ELSE "done" IN
              IF pc[Cons] = "w_parked"
                THEN /\ pc' = [pc EXCEPT ![p] = next, ![Cons] = "w_relock"] /\ sigbuf' = sigbuf
                ELSE IF SignalBuffered /\ sigbuf = 0
                  THEN /\ sigbuf' = 1 /\ pc' = [pc EXCEPT ![p] = next]
                  ELSE /\ sigbuf' = sigbuf /\ pc' = [pc EXCEPT ![p] = next]
           /\ mu' = "none" /\ idx' = [idx EXCEPT ![p] = @ + 1]
           /\ UNCHANGED <<list, got, rets, lastok, done, pushed>> /\ Sched(p)

\* ---- consumer: WaitForItem ----
\* body of the loop once the lock is held (first Lock or re-Lock after the select)
Loop == IF done
          THEN \* ctx.Err() # nil: return (nil, false); the consumer stops calling
               /\ rets' = rets + 1 /\ lastok' = FALSE /\ mu' = "none"
               /\ pc' = [pc EXCEPT ![Cons] = "done"] /\ UNCHANGED <<list, got>>
          ELSE IF list = <<>>
            THEN /\ mu' = "none" /\ pc' = [pc EXCEPT ![Cons] = "w_sel"]
                 /\ UNCHANGED <<list, got, rets, lastok>>
            ELSE /\ got' = Append(got, Head(list)) /\ list' = Tail(list)
                 /\ rets' = rets + 1 /\ lastok' = TRUE /\ mu' = "none"
                 /\ pc' = [pc EXCEPT ![Cons] = IF rets + 1 < Wanted THEN "w_lock" ELSE "done"]
WLock == /\ pc[Cons] \in {"w_lock", "w_relock"} /\ mu = "none"
         /\ Loop
         /\ UNCHANGED <<sigbuf, idx, done, pushed>> /\ Sched(Cons)
\* gate select{<-signal; <-ctx.Done()}: take a ready case or park
WSel == /\ pc[Cons] = "w_sel"
        /\ \/ /\ sigbuf = 1 /\ sigbuf' = 0 /\ pc' = [pc EXCEPT ![Cons] = "w_relock"]
           \/ /\ done /\ sigbuf' = sigbuf /\ pc' = [pc EXCEPT ![Cons] = "w_relock"]
           \/ /\ sigbuf = 0 /\ ~done /\ sigbuf' = sigbuf /\ pc' = [pc EXCEPT ![Cons] = "w_parked"]
        /\ UNCHANGED <<list, mu, idx, got, rets, lastok, done, pushed>> /\ Sched(Cons)

\* ---- canceller ----
Cancel == /\ WithCancel /\ pc[Canc] = "c_cancel"
          /\ done' = TRUE
          /\ pc' = [pc EXCEPT ![Canc] = "done", ![Cons] = IF pc[Cons] = "w_parked" THEN "w_relock" ELSE pc[Cons]]
          /\ UNCHANGED <<list, mu, sigbuf, idx, got, rets, lastok, pushed>> /\ Sched(Canc)

Next == \/ \E t \in Threads : Start(t)
        \/ \E p \in Producers : ALock(p) \/ ASel(p)
        \/ WLock \/ WSel \/ Cancel
Spec == Init /\ [][Next]_vars

Quiescent == ~ ENABLED Next
-----------------------------------------------------------------------------
\* C15
NoLostWakeup == Quiescent => ~(pc[Cons] = "w_parked" /\ list # <<>>)
\* FIFO, exactly once, nothing lost: returned items followed by the queue content = push order
Fifo == got \o list = pushed
CancelledReturnsNone == (rets > 0 /\ ~lastok) => done
\* script generation: complete behaviours with the predicted outcome
Dump == Quiescent => PrintT(<<"SCRIPT", ToJson(h \o <<[d |-> "-", act |-> "final", to |-> "-", si |-> si, got |-> got, list |-> list, stuck |-> (pc[Cons] = "w_parked" /\ list # <<>>)]>>)>>)
NoDeadlock == Quiescent => \A t \in Threads : pc[t] \in {"done", "w_parked"}
=============================================================================
