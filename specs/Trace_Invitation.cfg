SPECIFICATION TSpec
CONSTANTS
  JoinChecksType = FALSE
  MaxMut = 2
  MaxJoin = 100000
CONSTRAINT Mark
POSTCONDITION Accepted
CHECK_DEADLOCK FALSE
