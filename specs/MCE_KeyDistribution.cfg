SPECIFICATION Spec
CONSTANTS
  M1 = {"d11"}
  M2 = {"d21"}
  M3 = {}
  M4 = {}
  ImplHandlerSends = TRUE
  ImplSendExisting = TRUE
  ImplFill = TRUE
  ImplSubscribeFirst = TRUE
  ImplSentOwnOnly = TRUE
  ImplFilterMember = TRUE
  Causal = FALSE
  Eager = FALSE
INVARIANTS Completeness NoHang
CHECK_DEADLOCK FALSE

