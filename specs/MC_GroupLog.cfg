SPECIFICATION Spec
CONSTANTS
  Devs = {"a1", "a2"}
  Contacts = {"c1"}
  Groups = {"g1"}
  MaxEntries = 3
  IndexSource = "values"
  ListSource = "values"
  TieBreak = "hash"
INVARIANTS Convergence LogOrderState Listing
VIEW view
CHECK_DEADLOCK FALSE
