------------------------------ MODULE TraceConn ------------------------------
(* Full-spec conformance for Conn.tla: every controlled step recorded on the real  *)
(* tracker must be a step of that thread in the model, leaving the same tracked     *)
(* status, association set and waiter maps, and the thread parked / finished /      *)
(* at a gate exactly when the model says so.  Rejection = model drift.              *)
EXTENDS Conn, IOUtils, SequencesExt

TraceLog == ndJsonDeserialize(IOEnv.VERIF_TRACE)
VARIABLE l
tvars == <<vars, l>>
Ev == TraceLog[l]
Consume(e) == l <= Len(TraceLog) /\ Ev.ev = e /\ l' = l + 1

ThreadStep(t) == \/ (t = Upd /\ (UStart \/ A1 \/ A2 \/ A2b \/ A3 \/ U1 \/ U1L \/ U2))
                 \/ (t \in Waiters /\ (WStart(t) \/ W1(t) \/ W2(t) \/ W3(t) \/ W4(t) \/ W5(t) \/ W6(t)))
                 \/ (t = Canc /\ (CStart \/ Cancel))
PcOf(t) == IF t = Upd THEN upc' ELSE IF t = Canc THEN cpc' ELSE wpc'[t]
KindOf(pc) == IF pc = "done" THEN "done" ELSE IF pc = "Wp" THEN "blocked" ELSE "gate"
ObsKind == Ev.tokind   \* "done" | "blocked" | "gate", derived from the recorded gate label by checks/conn_check.py

TReset == Consume("reset") /\ UNCHANGED vars
TCfg == /\ Consume("cfg") /\ si' = Ev.scen
        /\ mS' = "none" /\ L' = "none" /\ status' = [p \in Peers |-> 0] /\ assoc' = {}
        /\ open' = FALSE /\ gen' = 0 /\ closed' = {} /\ opi' = 1 /\ upc' = "start"
        /\ wpc' = [w \in Scenarios[Ev.scen].waiters |-> "start"]
        /\ cur' = [w \in Scenarios[Ev.scen].waiters |-> [p \in Peers |-> None]]
        /\ wgen' = [w \in Scenarios[Ev.scen].waiters |-> 0]
        /\ wok' = [w \in Scenarios[Ev.scen].waiters |-> TRUE]
        /\ wcalls' = [w \in Scenarios[Ev.scen].waiters |-> 0]
        /\ rets' = [w \in Scenarios[Ev.scen].waiters |-> <<>>]
        /\ done' = {} /\ cpc' = (IF Scenarios[Ev.scen].cancel # "none" THEN "start" ELSE "none") /\ h' = <<>>
TStep == /\ Consume("step") /\ Ev.ok /\ Ev.p
         /\ ThreadStep(Ev.t)
         /\ KindOf(PcOf(Ev.t)) = ObsKind
         /\ \A p \in Peers : status'[p] = Ev.status[p]
         /\ assoc' = ToSet(Ev.assoc)
         /\ \A w \in Waiters : \A p \in Peers : cur'[w][p] = Ev.cur[w][p]
TNoProgress == /\ Consume("step") /\ (~Ev.ok \/ ~Ev.p) /\ UNCHANGED vars
TFinal == Consume("final") /\ Quiescent /\ UNCHANGED vars
TNext == TReset \/ TCfg \/ TStep \/ TNoProgress \/ TFinal
TInit == Init /\ l = 1 /\ TLCSet(42, 1)
TSpec == TInit /\ [][TNext]_tvars
Mark == TLCSet(42, IF l > TLCGet(42) THEN l ELSE TLCGet(42))
Accepted == LET hw == TLCGet(42) IN
              IF hw = Len(TraceLog) + 1 THEN TRUE
              ELSE /\ PrintT(<<"REJECTED", ToJson([high |-> hw - 1, line |-> TraceLog[hw]])>>)
                   /\ FALSE
=============================================================================
