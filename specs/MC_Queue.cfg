SPECIFICATION Spec
CONSTANTS
  SignalBuffered = TRUE
INVARIANTS NoLostWakeup Fifo CancelledReturnsNone NoDeadlock
VIEW view
CHECK_DEADLOCK FALSE
