SPECIFICATION GSpec
CONSTANTS
  Contacts = {"c1"}
  MaxLog = 100
  Ys = {3}
  Bad = {}
  MaxLen = 3
  Ops = {"enq", "sent", "recv", "disc", "acc", "blk", "unb"}
  WithRestart = FALSE
INVARIANTS Dump
CHECK_DEADLOCK FALSE
