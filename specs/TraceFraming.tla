---------------------------- MODULE TraceFraming ----------------------------
(* Full-spec conformance for Framing: the abstract input and chunking echoed  *)
(* by the driver are run through the reader automaton of Framing.tla; every   *)
(* recorded ReadMsg outcome (delivered or not, error class, grown buffer      *)
(* capacity scaled by the driver's size map) must be what the automaton       *)
(* produces.  Rejection = model drift, never an alarm.                        *)
EXTENDS Framing, Json, IOUtils

TraceLog == ndJsonDeserialize(IOEnv.VERIF_TRACE)

VARIABLES l, cs, ci, rs, active
tvars == <<vars, l, cs, ci, rs, active>>

Ev == TraceLog[l]
Consume(e) == l <= Len(TraceLog) /\ Ev.ev = e /\ l' = l + 1
Quiet == pc = "Idle"

\* blocks the model does not cover (seeded real chunkings, fuzz) are skipped
TReset == /\ Quiet /\ Consume("reset") /\ active' = FALSE
          /\ UNCHANGED <<vars, cs, ci, rs>>
TSkip == /\ Quiet /\ l <= Len(TraceLog) /\ Ev.ev \in {"fuzz", "wfail"} /\ l' = l + 1
         /\ UNCHANGED <<vars, cs, ci, rs, active>>
TInput == /\ Quiet /\ Consume("input")
          /\ active' = Ev.abstract
          /\ variant' = Ev.variant /\ frames' = Ev.afr /\ N' = Ev.an
          /\ stream' = Cat(Ev.afr, 1)
          /\ cs' = Ev.cs /\ ci' = 1 /\ rs' = Ev.rs
          /\ pos' = 0 /\ rem' = 0 /\ rb' = <<>>
          /\ pc' = "Idle" /\ nd' = 0 /\ acc' = 0 /\ lenb' = <<>> /\ need' = 0 /\ body' = <<>>
          /\ delivered' = <<>> /\ bufcap' = 0 /\ allocated' = 0 /\ nread' = 0
          /\ res' = [ok |-> TRUE, err |-> "none"]
\* reads of a skipped block, and the extra read after the first error
TIgnore == /\ Quiet /\ Consume("read") /\ (~active \/ Ev.post)
           /\ UNCHANGED <<vars, cs, ci, rs, active>>

\* the chunk sizes come from the recorded chunking (the rest of the stream in one piece afterwards)
NextC == IF ci <= Len(cs) THEN cs[ci] ELSE N - pos
TMicro == /\ active /\ l <= Len(TraceLog) /\ Ev.ev = "read" /\ ~Ev.post
          /\ \/ Internal /\ UNCHANGED ci
             \/ /\ variant = "varint" /\ Fill(NextC) /\ ci' = ci + 1
             \/ /\ IsU32 /\ rem = 0 /\ Direct(NextC) /\ ci' = ci + 1
             \/ /\ IsU32 /\ rem > 0 /\ Direct(1) /\ UNCHANGED ci
          /\ IF pc # "Idle" /\ pc' = "Idle"
               THEN /\ l' = l + 1
                    /\ res'.ok = Ev.ok
                    /\ res'.err = Ev.errc
                    /\ (res'.ok => Ev.same)
                    /\ rs[bufcap' + 1] = Ev.cap
               ELSE l' = l
          /\ UNCHANGED <<cs, rs, active>>

TNext == TReset \/ TSkip \/ TInput \/ TIgnore \/ TMicro
TInit == /\ variant = "varint" /\ frames = <<>> /\ stream = <<>> /\ N = 0 /\ InitReader
         /\ l = 1 /\ cs = <<>> /\ ci = 1 /\ rs = <<0>> /\ active = FALSE /\ TLCSet(42, 1)
TSpec == TInit /\ [][TNext]_tvars

Mark == TLCSet(42, IF l > TLCGet(42) THEN l ELSE TLCGet(42))
Accepted == LET hw == TLCGet(42) IN
              IF hw = Len(TraceLog) + 1 THEN TRUE
              ELSE /\ PrintT(<<"REJECTED", ToJson([high |-> hw - 1, line |-> TraceLog[hw]])>>)
                   /\ FALSE
=============================================================================
