------------------------------ MODULE Framing ------------------------------
(***************************************************************************)
(* Length-delimited framing of pkg/protoio (varint.go, uint32.go).         *)
(*                                                                         *)
(* A writer turns a sequence of messages into a byte stream                *)
(* prefix(len) \o body; the stream may be cut short (truncation) and may   *)
(* contain one hand-made frame with a malformed / non-canonical prefix.    *)
(* The reader is the automaton of ReadMsg:                                 *)
(*     Idle -> ReadLen -> CheckLimit -> ReadBody -> Deliver -> Idle        *)
(* fed by a chunker: every Read call on the underlying io.Reader returns   *)
(* 1..K bytes (never across the next cut).  The varint reader sits behind  *)
(* a bufio.Reader (it reads ahead: a Read call takes the whole chunk into  *)
(* the buffer `rb`), the uint32 reader calls io.ReadFull on the underlying *)
(* reader directly (a Read call takes min(wanted, rest of the chunk)).     *)
(*                                                                         *)
(* Bytes are records [f, t, v]: frame index, "p"refix / "b"ody, and the    *)
(* byte value for prefix bytes (digit + D when the continuation bit is     *)
(* set) resp. the index inside the body for body bytes (so that a          *)
(* delivered body can be compared with the written one).                   *)
(*                                                                         *)
(* Impl* = implementation choices of the current tree:                     *)
(*   CheckFirst  the size check precedes the allocation of the buffer      *)
(*   Cmp         "gt": refuse len > limit ("ge" would refuse len = limit)  *)
(*   ReadFull    the body is read with io.ReadFull (not a single Read)     *)
(***************************************************************************)
EXTENDS Integers, Sequences, FiniteSets, TLC

CONSTANTS Variants,   \* subset of {"varint", "u32be", "u32le"} explored
          Limit,      \* maxSize of the reader
          K,          \* a Read call returns 1..K bytes
          Sizes,      \* body sizes of the messages
          MaxMsgs,    \* messages per stream
          MaxN,       \* longest stream explored
          D,          \* varint digit base (128 in the code)
          MaxDigits,  \* binary.MaxVarintLen64 = 10
          Big,        \* lengths saturate here (larger than every limit)
          RawKinds,   \* catalogue of hand-made prefixes that may replace one frame
          Truncate,   \* BOOLEAN: explore every truncation point
          ImplCheckFirst, ImplCmp, ImplReadFull

VARIABLES variant, frames, stream, N,   \* the input (never change after Init)
          pos, rem,                     \* chunker: bytes handed out, rest of the current chunk
          rb,                           \* read-ahead buffer of the bufio.Reader (varint only)
          pc, nd, acc, lenb, need, body,\* reader automaton
          delivered, bufcap, allocated, nread, res

input   == <<variant, frames, stream, N>>
chunker == <<pos, rem>>
reader  == <<rb, pc, nd, acc, lenb, need, body, delivered, bufcap, allocated, nread, res>>
vars    == <<input, chunker, reader>>

Min(a, b) == IF a < b THEN a ELSE b
Max(a, b) == IF a > b THEN a ELSE b
IsU32 == variant \in {"u32be", "u32le"}

\* ---------------- encoding
RECURSIVE EncVar(_)
EncVar(n) == IF n < D THEN <<n>> ELSE <<(n % D) + D>> \o EncVar(n \div D)
EncU32(v, n) == IF v = "u32be" THEN <<0, 0, n \div 256, n % 256>> ELSE <<n % 256, n \div 256, 0, 0>>
Enc(v, n) == IF v = "varint" THEN EncVar(n) ELSE EncU32(v, n)

Rep(x, n) == [i \in 1..n |-> x]
\* hand-made prefixes; "size" = number of body bytes of a valid message that follow
RawPfx(v, kind, s) ==
  IF v = "varint" THEN
    CASE kind = "overlong" -> Rep(D, MaxDigits)                    \* continuation bit never clear
      [] kind = "ovf9"     -> Rep(D, MaxDigits - 1) \o <<2>>       \* 10th byte > 1
      [] kind = "huge"     -> Rep(2 * D - 1, MaxDigits - 1) \o <<1>> \* 2^64-1: negative as int
      [] kind = "big"      -> <<D, D, D, 1>>                       \* D^3 > limit
      [] kind = "nonmin"   -> <<s + D, 0>>                         \* s, non-canonical (2 bytes)
  ELSE
    CASE kind = "big"      -> IF v = "u32be" THEN <<0, 1, 0, 0>> ELSE <<0, 0, 1, 0>>  \* 65536
      [] kind = "top"      -> IF v = "u32be" THEN <<128, 0, 0, 0>> ELSE <<0, 0, 0, 128>> \* 2^31
      [] OTHER             -> EncU32(v, s)
RawFor(v) == IF v = "varint" THEN RawKinds \cap {"overlong", "ovf9", "huge", "big", "nonmin"}
             ELSE RawKinds \cap {"big", "top"}
\* kinds whose prefix announces a length the reader must accept (if within the limit)
Sound(kind) == kind \in {"msg", "nonmin"}

Frame(v, kind, s) == [kind |-> kind, size |-> s,
                      pfx |-> IF kind = "msg" THEN Enc(v, s) ELSE RawPfx(v, kind, s)]
Bytes(i, fr) == [j \in 1..Len(fr.pfx) |-> [f |-> i, t |-> "p", v |-> fr.pfx[j]]]
                \o [j \in 1..fr.size |-> [f |-> i, t |-> "b", v |-> j]]
RECURSIVE Cat(_, _)
Cat(fs, i) == IF i > Len(fs) THEN <<>> ELSE Bytes(i, fs[i]) \o Cat(fs, i + 1)
FrameLen(fr) == Len(fr.pfx) + fr.size
RECURSIVE EndOf(_, _)
EndOf(fs, i) == IF i = 0 THEN 0 ELSE EndOf(fs, i - 1) + FrameLen(fs[i])
BodyOf(i) == [j \in 1..frames[i].size |-> [f |-> i, t |-> "b", v |-> j]]

MsgSeqs(v) == UNION {[1..n -> {Frame(v, "msg", s) : s \in Sizes}] : n \in 0..MaxMsgs}
\* ---------------- initial states
InitReader ==
  /\ pos = 0 /\ rem = 0 /\ rb = <<>>
  /\ pc = "Idle" /\ nd = 0 /\ acc = 0 /\ lenb = <<>> /\ need = 0 /\ body = <<>>
  /\ delivered = <<>> /\ bufcap = 0 /\ allocated = 0 /\ nread = 0
  /\ res = [ok |-> TRUE, err |-> "none"]

RawSeqs(v) == {fs \in UNION {[1..n -> {Frame(v, "msg", s) : s \in Sizes}
                                      \cup {Frame(v, k, IF Sound(k) THEN s ELSE 0) : k \in RawFor(v), s \in Sizes}]
                                : n \in 1..MaxMsgs} :
                 Cardinality({i \in DOMAIN fs : fs[i].kind # "msg"}) = 1}

Init ==
  /\ variant \in Variants
  /\ frames \in MsgSeqs(variant) \cup RawSeqs(variant)
  /\ EndOf(frames, Len(frames)) <= MaxN
  /\ N \in IF Truncate THEN 0..EndOf(frames, Len(frames)) ELSE {EndOf(frames, Len(frames))}
  /\ stream = Cat(frames, 1)
  /\ InitReader

\* ---------------- the reader
Fail(e) == /\ pc' = "Idle" /\ res' = [ok |-> FALSE, err |-> e]
           /\ UNCHANGED <<delivered>>

\* ReadMsg is called (no call after the first error: the stream is desynchronised)
Call == /\ pc = "Idle" /\ res.ok
        /\ pc' = "ReadLen" /\ nd' = 0 /\ acc' = 0 /\ lenb' = <<>> /\ need' = 0 /\ body' = <<>>
        /\ nread' = nread + 1
        /\ UNCHANGED <<input, chunker, rb, delivered, bufcap, allocated, res>>

Wanted == IF pc = "ReadLen" THEN (IF IsU32 THEN 4 - Len(lenb) ELSE 1)
          ELSE IF pc = "ReadBody" THEN need - Len(body) ELSE 0

\* bufio.Reader.fill: one Read call of the underlying reader, the whole chunk is buffered
Fill(c) == /\ variant = "varint" /\ pc \in {"ReadLen", "ReadBody"} /\ Wanted > 0
           /\ rb = <<>> /\ pos < N /\ c <= N - pos
           /\ rb' = SubSeq(stream, pos + 1, pos + c) /\ pos' = pos + c /\ rem' = 0
           /\ UNCHANGED <<input, pc, nd, acc, lenb, need, body, delivered, bufcap, allocated, nread, res>>

Pow(n) == IF n = 0 THEN 1 ELSE IF n = 1 THEN D ELSE D * D
\* binary.ReadUvarint, one byte
VarByte ==
  /\ variant = "varint" /\ pc = "ReadLen" /\ rb # <<>>
  /\ LET b == Head(rb).v
         digit == b % D
         cont == b >= D
         val == IF digit = 0 THEN acc
                ELSE IF nd >= 3 THEN Big ELSE Min(Big, acc + digit * Pow(nd))
     IN /\ rb' = Tail(rb)
        /\ IF ~cont
             THEN IF nd = MaxDigits - 1 /\ b > 1
                    THEN Fail("overflow") /\ UNCHANGED <<nd, acc>>
                    ELSE /\ acc' = val /\ nd' = nd + 1 /\ pc' = "CheckLimit"
                         /\ UNCHANGED <<res, delivered>>
             ELSE IF nd = MaxDigits - 1
                    THEN Fail("overflow") /\ UNCHANGED <<nd, acc>>
                    ELSE /\ acc' = val /\ nd' = nd + 1
                         /\ UNCHANGED <<pc, res, delivered>>
  /\ UNCHANGED <<input, chunker, lenb, need, body, bufcap, allocated, nread>>

\* io.ReadFull on the underlying reader (uint32 variants): one Read call
Direct(c) ==
  /\ IsU32 /\ pc \in {"ReadLen", "ReadBody"} /\ Wanted > 0 /\ pos < N
  /\ (rem > 0 => c = 1) /\ (rem = 0 => c <= N - pos)
  /\ LET avail == IF rem > 0 THEN rem ELSE c
         n == Min(Wanted, avail)
         got == SubSeq(stream, pos + 1, pos + n)
     IN /\ pos' = pos + n /\ rem' = avail - n
        /\ IF pc = "ReadLen"
             THEN lenb' = lenb \o got /\ UNCHANGED <<body, need>>
             ELSE /\ body' = body \o got /\ UNCHANGED lenb
                  \* a single Read instead of ReadFull: the body is whatever came
                  /\ need' = IF ImplReadFull THEN need ELSE Len(body) + n
  /\ UNCHANGED <<input, rb, pc, nd, acc, delivered, bufcap, allocated, nread, res>>

U32Val == LET b == IF variant = "u32be" THEN lenb ELSE <<lenb[4], lenb[3], lenb[2], lenb[1]>>
              v(i) == b[i].v
          IN IF v(1) # 0 \/ v(2) # 0 THEN Big ELSE v(3) * 256 + v(4)
U32Len == /\ IsU32 /\ pc = "ReadLen" /\ Len(lenb) = 4
          /\ acc' = U32Val /\ pc' = "CheckLimit"
          /\ UNCHANGED <<input, chunker, rb, nd, lenb, need, body, delivered, bufcap, allocated, nread, res>>

\* end of the stream while bytes are still wanted
EOF == /\ pc \in {"ReadLen", "ReadBody"} /\ Wanted > 0 /\ pos = N /\ rb = <<>>
       /\ LET none == IF pc = "ReadLen" THEN (IF IsU32 THEN lenb = <<>> ELSE nd = 0) ELSE body = <<>>
          IN Fail(IF none THEN "eof" ELSE "ueof")
       /\ UNCHANGED <<input, chunker, rb, nd, acc, lenb, need, body, bufcap, allocated, nread>>

Over(n) == IF ImplCmp = "gt" THEN n > Limit ELSE n >= Limit
Alloc(n) == /\ bufcap' = Max(bufcap, n) /\ allocated' = Max(allocated, n)
CheckLimit ==
  /\ pc = "CheckLimit"
  /\ IF ImplCheckFirst
       THEN IF Over(acc) THEN Fail("short") /\ UNCHANGED <<bufcap, allocated, need>>
            ELSE /\ Alloc(acc) /\ need' = acc /\ pc' = "ReadBody" /\ UNCHANGED <<res, delivered>>
       ELSE IF acc >= Big THEN pc' = "Panic" /\ UNCHANGED <<bufcap, allocated, need, res, delivered>>
            ELSE /\ Alloc(acc)
                 /\ IF Over(acc) THEN Fail("short") /\ UNCHANGED need
                    ELSE need' = acc /\ pc' = "ReadBody" /\ UNCHANGED <<res, delivered>>
  /\ UNCHANGED <<input, chunker, rb, nd, acc, lenb, body, nread>>

\* body bytes out of the bufio buffer
VarBody ==
  /\ variant = "varint" /\ pc = "ReadBody" /\ Wanted > 0 /\ rb # <<>>
  /\ LET n == Min(Wanted, Len(rb))
     IN /\ body' = body \o SubSeq(rb, 1, n) /\ rb' = SubSeq(rb, n + 1, Len(rb))
        /\ need' = IF ImplReadFull THEN need ELSE Len(body) + n
  /\ UNCHANGED <<input, chunker, pc, nd, acc, lenb, delivered, bufcap, allocated, nread, res>>

BodyDone == /\ pc = "ReadBody" /\ Wanted = 0 /\ pc' = "Deliver"
            /\ UNCHANGED <<input, chunker, rb, nd, acc, lenb, need, body, delivered, bufcap, allocated, nread, res>>
Deliver == /\ pc = "Deliver"
           /\ delivered' = Append(delivered, body) /\ res' = [ok |-> TRUE, err |-> "none"] /\ pc' = "Idle"
           /\ UNCHANGED <<input, chunker, rb, nd, acc, lenb, need, body, bufcap, allocated, nread>>

Step(c) == Fill(c) \/ Direct(c)
Internal == Call \/ VarByte \/ U32Len \/ EOF \/ CheckLimit \/ VarBody \/ BodyDone \/ Deliver
Next == Internal \/ \E c \in 1..K : Step(c)
Spec == Init /\ [][Next]_vars

\* ---------------- properties
\* frame i can and must be delivered: announced length sound and within the limit, all bytes present
Good(i) == /\ i <= Len(frames) /\ Sound(frames[i].kind)
           /\ frames[i].size <= Limit /\ EndOf(frames, i) <= N
\* C18a: what was delivered is what was written, in order, for every chunking
RoundTrip == \A i \in 1..Len(delivered) : i <= Len(frames) /\ delivered[i] = BodyOf(i)
\* C18b: a call succeeds iff its frame is good; the first bad frame (too long, truncated,
\* malformed) or the end of the stream gives an error after all earlier frames were delivered
Verdict == (pc = "Idle" /\ nread > 0) =>
             /\ res.ok <=> Good(nread)
             /\ Len(delivered) = IF res.ok THEN nread ELSE nread - 1
\* C18c: never a buffer larger than the limit
AllocBound == allocated <= Limit /\ bufcap <= Limit
\* C18d
NoPanic == pc # "Panic"
TypeOK == /\ pc \in {"Idle", "ReadLen", "CheckLimit", "ReadBody", "Deliver", "Panic"}
          /\ pos \in 0..N /\ rem \in 0..K /\ acc \in 0..Big /\ nd \in 0..MaxDigits
\* every behaviour ends: the reader reaches an error (at the latest the end of the stream)
Done == pc = "Idle" /\ ~res.ok
view == <<variant, frames, N, pos, rem, rb, pc, nd, acc, lenb, need, body, delivered, bufcap, allocated, nread, res>>
=============================================================================
