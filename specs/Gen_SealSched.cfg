SPECIFICATION GSpec
CONSTANTS
  Dev = {"d1", "R"}
  Senders = {}
  Thr = {"t0", "t1"}
  D0 = "d1"
  MsgPerThr = 1
  KeyNames = {"accountSK", "deviceSK"}
  JoinKeys = {"accountSK", "deviceSK"}
  W = 2
  N = 1
  MaxSent = 4
  MaxOps = 0
  MaxCrash = 0
  Batching = TRUE
  UseLock = FALSE
  CidFirst = TRUE
  EarlyReturn = FALSE
  MonoGE = TRUE
  InitJoined = TRUE
INVARIANTS Dump
CHECK_DEADLOCK FALSE
