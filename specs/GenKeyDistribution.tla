------------------------- MODULE GenKeyDistribution -------------------------
(* Script generation for KeyDistribution (Causal = TRUE): the moves of the environment  *)
(* - which device activates its group context when, which head is delivered to which    *)
(* replica when (with the part of its causal past the receiver lacks) - taken while     *)
(* every device is locally quiet (activation returned, handler idle).  The devices'     *)
(* own steps run in between and are not part of the script: the real code takes them    *)
(* by itself.  Entries are named by content: "A.<device>.<member>" (MemberDeviceAdded), *)
(* "S.<device>.<member>" (the device's chain key sealed for the member).  The driver    *)
(* ends every script with a full exchange; it does not use any prediction of the model. *)
EXTENDS KeyDistribution, Sequences, Json

CONSTANTS MaxLen
VARIABLE h
gvars == <<vars, h>>

Name(e) == e[1] \o "." \o e[2] \o "." \o e[3]
Rec(act, d, s) == h' = Append(h, [act |-> act, d |-> d, s |-> s])
AllQuiet == \A d \in Devs : Quiet(d)
EnvEnabled == \E d \in Devs : pc[d] = "off" \/ \E e \in exists : e \notin have[d]

InternalNext == IF Busy # {} THEN \E d \in Busy : \E m \in todo[d] : SendOne(d, m)
                ELSE IF Urgent # {} THEN LET d == CHOOSE x \in Urgent : TRUE IN \E e \in pend[d] : Handle(d, e)
                ELSE \E d \in Devs : Internal(d)
GInit == Init /\ h = <<>>
GNext == IF AllQuiet
           THEN /\ Len(h) < MaxLen
                /\ \E d \in Devs : \/ Start(d) /\ Rec("activate", d, "-")
                                   \/ \E e \in Names : Deliver(d, e) /\ Rec("deliver", d, Name(e))
           ELSE InternalNext /\ UNCHANGED h
GSpec == GInit /\ [][GNext]_gvars
Complete == AllQuiet /\ (Len(h) = MaxLen \/ ~EnvEnabled)
Dump == Complete => PrintT(<<"SCRIPT", ToJson(h)>>)
=============================================================================
