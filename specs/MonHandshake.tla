---------------------------- MODULE MonHandshake ----------------------------
(***************************************************************************)
(* Property monitor for C06 over recorded runs of the real handshake code. *)
(* One "fin" record per run: for every honest session what the real        *)
(* RequestUsingReaderWriter / ResponseUsingReaderWriter returned (ret, the *)
(* returned account key mapped back to its abstract name), the ephemeral   *)
(* key the session put on the wire (oe) and the one it was given (pe) in   *)
(* canonical form, whether it emitted its step-3 / step-4 frame, and the   *)
(* provenance of the frames it was fed ("j.k" = frame k of session j,      *)
(* unmodified; "I" = built by the intruder; "~" = corrupted).  Only        *)
(* observed values are used; the model's prediction is never consulted.    *)
(*                                                                         *)
(*  RespOK   a responder reported an honest account key K only if a        *)
(*           requester session of K's owner, addressed to this responder's *)
(*           account, sent its step 3 in a session with the same ephemeral *)
(*           pair (possession proved in this very session, to this party); *)
(*           a successful responder reports some key                       *)
(*  ReqOK    a requester succeeded (target not the intruder's account)     *)
(*           only against a responder session of the target's owner that   *)
(*           sent its step 4 with the same ephemeral pair (the peer        *)
(*           endpoint holds sk(target))                                    *)
(*  FreshOK  no two sessions of a run put the same ephemeral key on the    *)
(*           wire (what makes a proof belong to "this very session")       *)
(*  AckOK    a responder does not complete on a well-formed acknowledge    *)
(*           that says success = false                                     *)
(*  CompleteOK  frames relayed unmodified, all five, between a requester   *)
(*           and the responder it targets: both succeed and the responder  *)
(*           learns exactly the requester's key                            *)
(* Everything else (which error, at which step, what happens to keys that  *)
(* belong to nobody honest) is left open and accepted either way.          *)
(*                                                                         *)
(* TolerateLow = TRUE is the second pass used while a finding is open: it  *)
(* excuses RespOK / ReqOK for sessions that were fed a degenerate          *)
(* ephemeral, so that any OTHER violation still surfaces.                  *)
(***************************************************************************)
EXTENDS Integers, FiniteSets, Sequences, TLC, Json, IOUtils

CONSTANTS TolerateLow

TraceLog == ndJsonDeserialize(IOEnv.VERIF_TRACE)

VARIABLES l
mvars == <<l>>

Ev == TraceLog[l]
Consume(e) == l <= Len(TraceLog) /\ Ev.ev = e /\ l' = l + 1

Honest == {"A", "B"}
S == Ev.sess
Idx == DOMAIN S
F(j, k) == ToString(j) \o "." \o ToString(k)
SamePair(r, s) == /\ S[r].oe # "-" /\ S[s].oe # "-"
                  /\ S[s].pe = S[r].oe /\ S[r].pe = S[s].oe
Excused(i) == TolerateLow /\ S[i].pe = "low"

RespOK(s) == (S[s].role = "rsp" /\ S[s].ret = "ok") =>
               /\ S[s].key # "-"
               /\ S[s].key \in Honest =>
                    \/ \E r \in Idx : /\ S[r].role = "req" /\ S[r].owner = S[s].key
                                      /\ S[r].target = S[s].owner
                                      /\ S[r].s3 /\ SamePair(r, s)
                    \/ Excused(s)
ReqOK(r) == (S[r].role = "req" /\ S[r].ret = "ok" /\ S[r].target # "E") =>
               \/ \E s \in Idx : /\ S[s].role = "rsp" /\ S[s].owner = S[r].target
                                 /\ S[s].s4 /\ SamePair(r, s)
               \/ Excused(r)
AckOK(s) == (S[s].role = "rsp" /\ S[s].ret = "ok") =>
              ~(Len(S[s].in) = 3 /\ S[s].in[3] = "I:ack-")
FreshOK == \A i \in Idx, j \in Idx : (i # j /\ S[i].oeh # "-") => S[i].oeh # S[j].oeh
Relayed(r, s) == /\ S[r].in = <<F(s, 1), F(s, 2)>>
                 /\ S[s].in = <<F(r, 1), F(r, 2), F(r, 3)>>
CompleteOK == \A r \in Idx, s \in Idx :
                (S[r].role = "req" /\ S[s].role = "rsp" /\ S[r].target = S[s].owner /\ Relayed(r, s)) =>
                   (S[r].ret = "ok" /\ S[s].ret = "ok" /\ S[s].key = S[r].owner)

MReset == Consume("reset")
MFin == /\ Consume("fin")
        /\ \A i \in Idx : RespOK(i) /\ ReqOK(i) /\ AckOK(i)
        /\ FreshOK /\ CompleteOK

MNext == MReset \/ MFin
MInit == l = 1 /\ TLCSet(42, 1)
MSpec == MInit /\ [][MNext]_mvars

Mark == TLCSet(42, IF l > TLCGet(42) THEN l ELSE TLCGet(42))
Accepted == LET hw == TLCGet(42) IN
              IF hw = Len(TraceLog) + 1 THEN TRUE
              ELSE /\ PrintT(<<"REJECTED", ToJson([high |-> hw - 1, line |-> TraceLog[hw]])>>)
                   /\ FALSE
=============================================================================
