SPECIFICATION Spec
CONSTANTS
  Peers = {"a", "b"}
  Topics = {"t1", "t2"}
  Seeds = {"s1", "s2"}
  I = 2
  G = 2
  Gmin = 1
  Sec = 0
  Steps = {1}
  T = 6
  MaxTicks = 6
  ImplExpired = "ttl_le_0"
INVARIANTS TypeOK P_Resolve P_Accept P_Refuse P_Topic
VIEW view
CHECK_DEADLOCK FALSE
