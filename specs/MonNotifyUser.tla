---------------------------- MODULE MonNotifyUser ----------------------------
(* Property monitor for the lifecycle manager and the peer cache (C16): observed *)
(* values only.  `pending[w]` is logged by the driver after every step: does the  *)
(* tracked value differ from what waiter w last saw.                              *)
EXTENDS Naturals, Sequences, FiniteSets, TLC, Json, IOUtils, SequencesExt

TraceLog == ndJsonDeserialize(IOEnv.VERIF_TRACE)
VARIABLES l, pend, started, cancelled
mvars == <<l, pend, started, cancelled>>
Ev == TraceLog[l]
Consume(e) == l <= Len(TraceLog) /\ Ev.ev = e /\ l' = l + 1

MReset == Consume("reset") /\ pend' = <<>> /\ started' = FALSE /\ cancelled' = {}
MCfg == Consume("cfg") /\ UNCHANGED <<pend, started, cancelled>>
\* a positive return only when something had changed for that waiter; a negative one only after cancellation
RetOK(r, now) == IF r.ok THEN (started => pend[r.w]) ELSE r.w \in now
MStep == /\ Consume("step")
         /\ LET now == IF Ev.t = "cancel" /\ Ev.from = "c_cancel" /\ Ev.ok THEN cancelled \cup ToSet(Ev.ctargets) ELSE cancelled IN
              /\ cancelled' = now
              /\ \A i \in DOMAIN Ev.ret : RetOK(Ev.ret[i], now)
         /\ pend' = Ev.pending /\ started' = TRUE
\* quiescence: nobody waits for a lock, a parked waiter has nothing pending, nobody parked after cancellation
MFinal == /\ Consume("final")
          /\ Ev.atgate = <<>> /\ ~Ev.livelock
          /\ \A i \in DOMAIN Ev.parked :
                LET w == Ev.parked[i] IN w \notin cancelled /\ (w \in DOMAIN Ev.pending => ~Ev.pending[w])
          /\ UNCHANGED <<pend, started, cancelled>>
MNext == MReset \/ MCfg \/ MStep \/ MFinal
MInit == l = 1 /\ pend = <<>> /\ started = FALSE /\ cancelled = {} /\ TLCSet(42, 1)
MSpec == MInit /\ [][MNext]_mvars
Mark == TLCSet(42, IF l > TLCGet(42) THEN l ELSE TLCGet(42))
Accepted == LET hw == TLCGet(42) IN
              IF hw = Len(TraceLog) + 1 THEN TRUE
              ELSE /\ PrintT(<<"REJECTED", ToJson([high |-> hw - 1, line |-> TraceLog[hw]])>>)
                   /\ FALSE
=============================================================================
