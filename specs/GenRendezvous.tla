--------------------------- MODULE GenRendezvous ---------------------------
(* Script generation for Rendezvous: the same actions plus a history.  Every   *)
(* behaviour of MaxLen calls is printed with the outcome the model predicts.   *)
(* Symmetry: the first call that is not a Tick is Register("a", t1, s1).       *)
EXTENDS Rendezvous, Json

CONSTANTS MaxLen, FirstPeer, FirstTopic, FirstSeed
VARIABLES h
gvars == <<vars, h>>

Rec(act, p, topic, x, a) == h' = Append(h, [act |-> act, d |-> p, s |-> topic, x |-> x, a |-> a, res |-> res'])
Started == \E i \in 1..Len(h) : h[i].act = "register"

GInit == Init /\ h = <<>>
GNext == /\ Len(h) < MaxLen
         /\ \/ \E p \in Peers, t \in Topics, s \in Seeds :
                 /\ (~Started => p = FirstPeer /\ t = FirstTopic /\ s = FirstSeed)
                 /\ Register(p, t, s) /\ Rec("register", p, t, 0, [topic |-> t, seed |-> s, per |-> -1])
            \/ \E p \in Peers, t \in Topics : Started /\ Resolve(p, t) /\ Rec("resolve", p, t, 0, NoPt)
            \/ \E p \in Peers : \E v \in Cands : Started /\ Accept(p, v) /\ Rec("accept", p, v.topic, 0, v)
            \/ \E dt \in Steps : Tick(dt) /\ Rec("tick", "-", "-", dt, NoPt)
GSpec == GInit /\ [][GNext]_gvars

Dump == (Len(h) = MaxLen) => PrintT(<<"SCRIPT", ToJson(h)>>)
=============================================================================
