SPECIFICATION GSpec
CONSTANTS
  Contacts = {"c1", "c2"}
  Kinds = {"good", "bad"}
  OpKinds = {"en", "dis", "rs", "enq", "blk", "unb", "sent", "acc", "disc", "enqself"}
  MaxOps = 8
  MaxSeed = 3
  MaxLk = 8
  MaxGen = 3
  WithRefused = TRUE
  MaxLen = 12
  Auto = TRUE
  PreOps = 2
  ExitCancelsAny = TRUE
  OfferIgnoresCancel = TRUE
  StartIgnoresClose = TRUE
  LoopHandlesAfterClose = TRUE
  DisableKeepsLookups = TRUE
  BlockKeepsLookup = TRUE
  ClosedHandlerAppends = TRUE
INVARIANTS Dump
CHECK_DEADLOCK FALSE
