-------------------------- MODULE GenRatchetStore --------------------------
(* Workload generation for RatchetStore (C10): sequential exported calls     *)
(* without crash; every distinct call sequence is a distinct state, complete *)
(* ones are printed as JSON.  The Go driver enumerates the crash indices of  *)
(* each workload itself (one run per datastore mutation).                    *)
EXTENDS RatchetStore, Json

CONSTANTS Rcvs,     \* stores that register announcements and open the senders' messages
          OwnOpen,  \* senders also open their own messages (no chain-key update on that path)
          MaxLen

VARIABLES h
gvars == <<vars, h>>

GInit == Init /\ h = <<>>

GBegin == \/ \E d \in Senders : BeginSeal(d)
          \/ \E s \in Dev, d \in Senders : \E k \in 1..MaxSent :
               (s \in Rcvs \/ (OwnOpen /\ s = d)) /\ BeginOpen(s, d, k)
          \/ \E s \in Rcvs, d \in Senders : \E a \in 0..MaxSent : BeginRegister(s, d, a)

GNext == \/ GBegin /\ UNCHANGED h
         \/ Step /\ UNCHANGED h
         \/ Return /\ h' = Append(h, [act |-> cur.op, s |-> cur.s, d |-> cur.d, x |-> cur.x, res |-> res'])
GSpec == GInit /\ [][GNext]_gvars

Complete == nops = MaxLen /\ cur.op = "idle"
Dump == Complete => PrintT(<<"SCRIPT", ToJson(h)>>)
=============================================================================
