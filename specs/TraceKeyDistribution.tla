------------------------- MODULE TraceKeyDistribution -------------------------
(***************************************************************************)
(* Full-spec conformance for KeyDistribution (Causal = TRUE): the recorded *)
(* sequential runs of the real group contexts are behaviours of the        *)
(* specification.  A recorded line is a move of the environment            *)
(* (activate / deliver / sync) together with the state observed once every *)
(* handler was idle again; between the move and that observation the       *)
(* specification takes any of its own steps (Fill, List, SendOne,          *)
(* Announce, Handle).  The line is consumed when the specification is      *)
(* quiet and - strictly - agrees with the observation on every device:     *)
(* entries held, chain keys known, activation started / returned.          *)
(* A rejection is model drift, never a verdict about the property.         *)
(* The constants list every device name any shape uses; the devices of a   *)
(* run are those of its lines, the others never move.                      *)
(***************************************************************************)
EXTENDS KeyDistribution, Sequences, Json, IOUtils

TraceLog == ndJsonDeserialize(IOEnv.VERIF_TRACE)
Strict == IOEnv.VERIF_STRICT = "1"

VARIABLES l, phase
tvars == <<vars, l, phase>>
Ev == TraceLog[l]
Has(f) == f \in DOMAIN Ev
IsEv(e) == l <= Len(TraceLog) /\ Ev.ev = e

NameOf(e) == e[1] \o "." \o e[2] \o "." \o e[3]
Known1(s) == \E e \in Names : NameOf(e) = s
EntryOf(s) == CHOOSE e \in Names : NameOf(e) = s
Range(s) == {s[i] : i \in DOMAIN s}
\* observed entry records -> the spec's entry tuples (a second copy or an unknown kind has no counterpart)
ObsHave(st, d) == {<<e.k, e.w, e.m>> : e \in Range(st[d].have)}
NoCopies(st, d) == \A e \in Range(st[d].have) : e.n = 1
Matches(st) == \A d \in DOMAIN st :
                  /\ d \in Devs /\ st[d].m = MemberOf[d]
                  /\ NoCopies(st, d) /\ ObsHave(st, d) = have[d]
                  /\ Range(st[d].known) = known[d]
                  /\ st[d].act = (pc[d] # "off")
                  /\ st[d].ret = (pc[d] # "off" /\ Returned(d))
AllQuiet == \A d \in Devs : Quiet(d)

\* replica d joins everything replica o holds (a sequence of Deliver steps without a handler step in between)
DeliverAll(d, o) ==
  LET batch == have[o] \ have[d] IN
  /\ have' = [have EXCEPT ![d] = @ \cup batch]
  /\ pend' = [pend EXCEPT ![d] = @ \cup (IF sub[d] THEN {x \in batch : Queued(d, x)} ELSE {})]
  /\ known' = [known EXCEPT ![d] = @ \cup (IF sub[d] THEN {x[2] : x \in {y \in batch : Registers(d, y)}} ELSE {})]
  /\ UNCHANGED <<exists, past, pc, sub, fillDone, listed, todo, selfAnn>>

TReset == /\ IsEv("reset") /\ phase = "ready"
          /\ exists' = {} /\ past' = [e \in Names |-> {}] /\ have' = [d \in Devs |-> {}]
          /\ pc' = [d \in Devs |-> "off"] /\ sub' = [d \in Devs |-> FALSE]
          /\ fillDone' = [d \in Devs |-> FALSE] /\ listed' = [d \in Devs |-> FALSE]
          /\ todo' = [d \in Devs |-> {}] /\ pend' = [d \in Devs |-> {}]
          /\ selfAnn' = [d \in Devs |-> FALSE] /\ known' = [d \in Devs |-> {}]
          /\ l' = l + 1 /\ UNCHANGED phase
\* the observation lines that follow no move
TLook == /\ (IsEv("init") \/ IsEv("final")) /\ phase = "ready"
         /\ (IsEv("init") => ~Ev.par)
         /\ (Strict => Matches(Ev.st))
         /\ l' = l + 1 /\ UNCHANGED <<vars, phase>>
TMove == /\ phase = "ready" /\ l <= Len(TraceLog)
         /\ \/ IsEv("activate") /\ Start(Ev.d)
            \/ IsEv("deliver") /\ ~Has("skip") /\ Known1(Ev.s) /\
                 IF EntryOf(Ev.s) \in have[Ev.d] THEN UNCHANGED vars ELSE Deliver(Ev.d, EntryOf(Ev.s))
            \/ IsEv("deliver") /\ Has("skip") /\ (Known1(Ev.s) => EntryOf(Ev.s) \notin exists) /\ UNCHANGED vars
            \/ IsEv("sync") /\ DeliverAll(Ev.d, Ev.o)
         /\ phase' = "settling" /\ UNCHANGED l
TOwn == /\ phase = "settling"
        /\ \E d \in Devs : Internal(d)
        /\ UNCHANGED <<l, phase>>
TSettle == /\ phase = "settling" /\ AllQuiet
           /\ (Strict => Matches(Ev.st))
           /\ l' = l + 1 /\ phase' = "ready" /\ UNCHANGED vars
TNext == TReset \/ TLook \/ TMove \/ TOwn \/ TSettle
TInit == Init /\ l = 1 /\ phase = "ready" /\ TLCSet(42, 1)
TSpec == TInit /\ [][TNext]_tvars

Mark == TLCSet(42, IF l > TLCGet(42) THEN l ELSE TLCGet(42))
Accepted == LET hw == TLCGet(42) IN
              IF hw = Len(TraceLog) + 1 THEN TRUE
              ELSE /\ PrintT(<<"REJECTED", ToJson([high |-> hw - 1, line |-> TraceLog[hw]])>>)
                   /\ FALSE
=============================================================================
