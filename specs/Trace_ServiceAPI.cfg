SPECIFICATION TSpec
CONSTANTS
  Impl <- ImplCurrent
  MaxDev = 4
INVARIANTS TypeOK
CONSTRAINT Mark
POSTCONDITION Accepted
CHECK_DEADLOCK FALSE
