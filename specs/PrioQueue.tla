----------------------------- MODULE PrioQueue -----------------------------
(* PriorityQueue of internal/queue/priority.go: sequential contract (C15).     *)
(* Items are identified by name; CtrOf gives their message counter.  Next      *)
(* yields a pending item with the smallest counter (ties in any order, the     *)
(* heap is not stable); NextAll drains in counter order and stops after the    *)
(* first callback error (that item has been handed to the callback).           *)
EXTENDS Naturals, Sequences, FiniteSets, TLC, Json

CONSTANTS Items, CtrOf, MaxLen

VARIABLES pending, added, res, h
vars == <<pending, added, res, h>>
view == <<pending, added>>

Min(S) == CHOOSE x \in S : \A y \in S : CtrOf[x] <= CtrOf[y]
IsMin(x, S) == x \in S /\ \A y \in S : CtrOf[x] <= CtrOf[y]

Init == pending = {} /\ added = {} /\ res = [ok |-> TRUE] /\ h = <<>>
Rec(act, s, x) == h' = Append(h, [act |-> act, s |-> s, x |-> x, res |-> res'])

PAdd(i) == /\ i \notin added /\ pending' = pending \cup {i} /\ added' = added \cup {i}
           /\ res' = [ok |-> TRUE] /\ Rec("add", i, CtrOf[i])
PNext == /\ IF pending = {}
              THEN res' = [ok |-> FALSE] /\ UNCHANGED pending
              ELSE \E i \in pending : IsMin(i, pending) /\ res' = [ok |-> TRUE, item |-> i] /\ pending' = pending \ {i}
         /\ UNCHANGED added /\ Rec("next", "-", 0)
\* drained sequences: any ordering of `pending` by non-decreasing counter
RECURSIVE Orders(_)
Orders(S) == IF S = {} THEN {<<>>} ELSE UNION {{<<i>> \o o : o \in Orders(S \ {i})} : i \in {j \in S : IsMin(j, S)}}
PNextAll(failAt) == /\ \E o \in Orders(pending) :
                         LET n == IF failAt = 0 \/ failAt > Len(o) THEN Len(o) ELSE failAt
                         IN /\ res' = [ok |-> (n = Len(o) /\ (failAt = 0 \/ failAt > Len(o))), seen |-> SubSeq(o, 1, n)]
                            /\ pending' = pending \ {o[k] : k \in 1..n}
                    /\ UNCHANGED added /\ Rec("nextall", "-", failAt)
PSize == res' = [ok |-> TRUE, n |-> Cardinality(pending)] /\ UNCHANGED <<pending, added>> /\ Rec("size", "-", 0)

Next == /\ Len(h) < MaxLen
        /\ \/ \E i \in Items : PAdd(i)
           \/ PNext \/ PSize \/ \E f \in 0..2 : PNextAll(f)
Spec == Init /\ [][Next]_vars

Conserved == pending \subseteq added
Dump == Len(h) = MaxLen => PrintT(<<"SCRIPT", ToJson(h)>>)
=============================================================================
