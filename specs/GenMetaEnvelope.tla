-------------------------- MODULE GenMetaEnvelope --------------------------
(* Script generation for MetaEnvelope: the same actions plus a history of   *)
(* the delivered envelopes.  Every complete behaviour (MaxDeliver envelopes *)
(* forged and delivered) is printed as JSON for the Go driver.              *)
EXTENDS MetaEnvelope, Json

VARIABLE h
gvars == <<vars, h>>

GInit == Init /\ h = <<>>
GNext == \/ (\E t \in TypeSel, who \in {"A", "V"} : Start(t, who)) /\ UNCHANGED h
         \/ Mutate /\ UNCHANGED h
         \/ DeliverFlight /\ h' = Append(h, [act |-> "deliver", a |-> flight[1], res |-> res'])
GSpec == GInit /\ [][GNext]_gvars

Complete_ == ndel = MaxDeliver
Dump == Complete_ => PrintT(<<"SCRIPT", ToJson(h)>>)
=============================================================================
