SPECIFICATION GSpec
CONSTANTS
  NonceBound = TRUE
INVARIANTS Dump
CHECK_DEADLOCK FALSE
