--------------------------- MODULE TraceRendezvous ---------------------------
(* Full-spec conformance for Rendezvous: every recorded call must be the       *)
(* corresponding action of Rendezvous.tla at the recorded tick with the        *)
(* observed outcome (points decoded by the driver through the digest table),   *)
(* and in strict mode the two caches and the pending clean-up timers read      *)
(* back from the RotationIntervals must equal the model state.  Rejection =    *)
(* model drift (e.g. the expiry predicate of the tree is not ImplExpired),     *)
(* never an alarm.                                                             *)
EXTENDS Rendezvous, Json, IOUtils

TraceLog == ndJsonDeserialize(IOEnv.VERIF_TRACE)
Strict == IOEnv.VERIF_STRICT = "1"

VARIABLE l
tvars == <<vars, l>>

Ev == TraceLog[l]
Has(f) == f \in DOMAIN Ev
Consume(e) == l <= Len(TraceLog) /\ Ev.ev = e /\ l' = l + 1
SetOf(s) == {s[i] : i \in DOMAIN s}

StOK == (Strict /\ Has("st")) =>
          /\ \A p \in Peers :
               IF p \in DOMAIN Ev.st
                 THEN /\ cr'[p] = SetOf(Ev.st[p].cr)
                      /\ \A t \in Topics : IF \E x \in SetOf(Ev.st[p].ct) : x.t = t
                                             THEN ct'[p][t] = (CHOOSE x \in SetOf(Ev.st[p].ct) : x.t = t).pt
                                             ELSE ct'[p][t] = NoPt
                 ELSE cr'[p] = {} /\ \A t \in Topics : ct'[p][t] = NoPt
          /\ UNION {{x.due : x \in tm'[p]} : p \in Peers} = SetOf(Ev.st.tm)

TReset == /\ Consume("reset")
          /\ now' = 0 /\ ticks' = 0
          /\ ct' = [p \in Peers |-> [t \in Topics |-> NoPt]]
          /\ cr' = [p \in Peers |-> {}] /\ tm' = [p \in Peers |-> {}]
          /\ vals' = {}
          /\ reg' = [p \in Peers |-> [t \in Topics |-> "-"]] /\ regset' = [p \in Peers |-> {}]
          /\ held' = [p \in Peers |-> [t \in Topics |-> NoPt]]
          /\ prev' = [p \in Peers |-> [t \in Topics |-> NoPrev]]
          /\ res' = [act |-> "init"]
TSkip == /\ l <= Len(TraceLog) /\ Ev.ev \in {"cfg", "digest", "pure"} /\ l' = l + 1 /\ UNCHANGED vars
TTick == Consume("tick") /\ Tick(Ev.dt) /\ now' = Ev.tk /\ StOK
TRegister == Consume("register") /\ now = Ev.tk /\ Register(Ev.p, Ev.topic, Ev.seed) /\ StOK
TResolve == /\ Consume("resolve") /\ now = Ev.tk /\ Resolve(Ev.p, Ev.topic)
            /\ res'.ok = Ev.ok /\ (Ev.ok => res'.pt = Ev.pt) /\ StOK
TAccept == /\ Consume("accept") /\ now = Ev.tk /\ Accept(Ev.p, Ev.v)
           /\ res'.ok = Ev.ok /\ (Ev.ok => res'.pt = Ev.pt) /\ StOK

TNext == TReset \/ TSkip \/ TTick \/ TRegister \/ TResolve \/ TAccept
TInit == Init /\ l = 1 /\ TLCSet(42, 1)
TSpec == TInit /\ [][TNext]_tvars

Mark == TLCSet(42, IF l > TLCGet(42) THEN l ELSE TLCGet(42))
Accepted == LET hw == TLCGet(42) IN
              IF hw = Len(TraceLog) + 1 THEN TRUE
              ELSE /\ PrintT(<<"REJECTED", ToJson([high |-> hw - 1, line |-> TraceLog[hw]])>>)
                   /\ FALSE
=============================================================================
