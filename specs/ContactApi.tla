------------------------------ MODULE ContactApi ------------------------------
(***************************************************************************)
(* The contact lifecycle as the protocol SERVICE exposes it (C07 at the    *)
(* RPC layer): api_contactrequest.go / api_contact.go in front of the      *)
(* account group's MetadataStore (store_metadata.go) and its index         *)
(* (store_metadata_index.go), plus the secret store's group table.         *)
(*                                                                         *)
(* One action per request.  Operations with an RPC handler:                *)
(*   enq  ContactRequestSend        acc  ContactRequestAccept              *)
(*   disc ContactRequestDiscard     blk  ContactBlock    unb ContactUnblock*)
(*   en / dis / rs  ContactRequestEnable / Disable / ResetReference        *)
(*   ref  ContactRequestReference   share ShareContact (+ DecodeContact)   *)
(* without one (MetadataStore of the account group):                       *)
(*   sent ContactRequestOutgoingSent   recv ContactRequestIncomingReceived *)
(* restart: the service is closed and a new one opened on the same         *)
(* datastores.                                                             *)
(*                                                                         *)
(* A request names its contact c, a VARIANT of its arguments ("" = well    *)
(* formed; malformed or own-account variants are always refused) and, for  *)
(* enq / recv, which optional values it carries (y: bit 0 = contact        *)
(* metadata, bit 1 = own metadata).  The values carried by step i are      *)
(* named i (0 = none); the account's own rendezvous seed is named after    *)
(* the position of the reset event that set it.                            *)
(*                                                                         *)
(* cs / det / sw / seed are moved by the lifecycle table (DESIGN.md,       *)
(* appendix A) at every accepted request; the invariant LogDeterminesState *)
(* says that they are what the index derives from the log (latest event    *)
(* per contact decides the state, older enqueue / received events only     *)
(* back-fill seed and metadata).                                           *)
(***************************************************************************)
EXTENDS Naturals, Integers, Sequences, FiniteSets, TLC

CONSTANTS Contacts,   \* names of the contacts, e.g. {"c1", "c2"}
          MaxLog,     \* bound on the number of appended events
          Ys,         \* which optional-value combinations requests carry (subset of 0..3)
          Bad         \* malformed variants considered (subset of AllBad)

VARIABLES cs,    \* [Contacts -> lifecycle state]
          det,   \* [Contacts -> [seed, meta, own]] reported details
          sw,    \* contact-request switch: "none" | "en" | "dis"
          seed,  \* account rendezvous seed (0 = none)
          log,   \* the events the requests appended to the account metadata log
          sec,   \* contacts whose contact group the secret store holds
          n,     \* steps taken so far
          res    \* outcome of the last request
vars == <<cs, det, sw, seed, log, sec, n, res>>

States == {"U", "T", "R", "A", "X", "D", "B"}
ContactOps == {"enq", "sent", "recv", "disc", "acc", "blk", "unb"}
SwitchOps == {"en", "dis", "rs"}
AllBad == {"nil", "noseed", "shortseed", "longseed", "badkey", "longkey", "nokey", "self"}

\* the lifecycle table: the event an operation appends in state s ("-" = refused)
Outcome(op, s) ==
  CASE op = "enq"  -> IF s \in {"U", "T", "B"} THEN "enq" ELSE IF s \in {"R", "X", "D"} THEN "sent" ELSE "-"
    [] op = "sent" -> IF s \in {"T", "R", "X", "D"} THEN "sent" ELSE "-"
    [] op = "recv" -> IF s \in {"U", "X", "D"} THEN "recv" ELSE IF s = "T" THEN "sent" ELSE "-"
    [] op = "disc" -> IF s = "R" THEN "disc" ELSE "-"
    [] op = "acc"  -> IF s = "R" THEN "acc" ELSE "-"
    [] op = "blk"  -> IF s # "B" THEN "blk" ELSE "-"
    [] op = "unb"  -> IF s = "B" THEN "unb" ELSE "-"
CState(ev) == CASE ev = "enq" -> "T" [] ev = "sent" -> "A" [] ev = "recv" -> "R" [] ev = "disc" -> "D"
                [] ev = "acc" -> "A" [] ev = "blk" -> "B" [] ev = "unb" -> "X"

\* argument variants that are refused whatever the state (a missing seed on an incoming request is allowed)
BadVariants(op) ==
  CASE op = "enq"  -> {"nil", "noseed", "shortseed", "longseed", "badkey", "nokey", "self"}
    [] op = "recv" -> {"shortseed", "longseed", "badkey", "nokey", "self"}
    [] op = "sent" -> {"self"}
    [] op \in {"acc", "disc", "blk", "unb"} -> {"self", "badkey", "longkey", "nokey"}
    [] OTHER -> {}
Variants(op) == {""} \cup (BadVariants(op) \cap Bad) \cup (IF op = "recv" THEN {"noseed"} ELSE {})
                \cup (IF op \in {"enq", "recv"} THEN {"sameseed"} ELSE {})

NoDet == [seed |-> 0, meta |-> 0, own |-> 0]
Event(k, sub, s, m, o) == [k |-> k, sub |-> sub, seed |-> s, meta |-> m, own |-> o]

Refuse == /\ UNCHANGED <<cs, det, sw, seed, log, sec>>
          /\ res' = [ok |-> FALSE, app |-> <<>>]

\* a contact operation: refused for a malformed variant or where the table says so, otherwise exactly one event
ContactOp(op, c, v, y) ==
  LET i == n + 1
      carries == op \in {"enq", "recv"}
      \* "sameseed": a re-send carrying the seed currently reported for the contact (a fresh one if none is)
      aseed == IF carries /\ v # "noseed" THEN (IF v = "sameseed" /\ det[c].seed # 0 THEN det[c].seed ELSE i) ELSE 0
      ameta == IF carries /\ (y % 2 = 1) THEN i ELSE 0
      aown  == IF op = "enq" /\ (y \div 2 = 1) THEN i ELSE 0
      ev == Outcome(op, cs[c])
      keeps == ev \in {"enq", "recv"}        \* the appended event carries the contact's seed / metadata
  IN /\ n' = i
     /\ IF v \in BadVariants(op) \/ ev = "-" THEN Refuse
        ELSE /\ Len(log) < MaxLog
             /\ cs' = [cs EXCEPT ![c] = CState(ev)]
             /\ det' = [det EXCEPT ![c] = [seed |-> IF keeps /\ aseed # 0 THEN aseed ELSE @.seed,
                                           meta |-> IF keeps /\ ameta # 0 THEN ameta ELSE @.meta,
                                           own  |-> IF ev = "enq" THEN aown ELSE 0]]
             /\ log' = Append(log, Event(ev, c, IF keeps THEN aseed ELSE 0, IF keeps THEN ameta ELSE 0,
                                         IF ev = "enq" THEN aown ELSE 0))
             \* ContactRequestAccept stores the contact group once the lifecycle accepted the request
             /\ sec' = IF op = "acc" THEN sec \cup {c} ELSE sec
             /\ UNCHANGED <<sw, seed>>
             /\ res' = [ok |-> TRUE, app |-> <<ev>>]

SwitchOp(op) ==
  /\ n' = n + 1 /\ Len(log) < MaxLog
  /\ log' = Append(log, Event(op, "-", 0, 0, 0))
  /\ sw' = IF op \in {"en", "dis"} THEN op ELSE sw
  /\ seed' = IF op = "rs" THEN Len(log) + 1 ELSE seed
  /\ UNCHANGED <<cs, det, sec>>
  /\ res' = [ok |-> TRUE, app |-> <<op>>]

Reference == /\ n' = n + 1 /\ UNCHANGED <<cs, det, sw, seed, log, sec>>
             /\ res' = [ok |-> TRUE, app |-> <<>>]

\* ShareContact enables the requests and resets the reference unless both are in place
Share ==
  /\ n' = n + 1
  /\ IF sw = "en" /\ seed # 0
       THEN UNCHANGED <<sw, seed, log>> /\ res' = [ok |-> TRUE, app |-> <<>>]
       ELSE /\ Len(log) + 1 < MaxLog
            /\ log' = log \o <<Event("en", "-", 0, 0, 0), Event("rs", "-", 0, 0, 0)>>
            /\ sw' = "en" /\ seed' = Len(log) + 2
            /\ res' = [ok |-> TRUE, app |-> <<"en", "rs">>]
  /\ UNCHANGED <<cs, det, sec>>

Restart == /\ n' = n + 1 /\ UNCHANGED <<cs, det, sw, seed, log, sec>>
           /\ res' = [ok |-> TRUE, app |-> <<>>]

Init == /\ cs = [c \in Contacts |-> "U"] /\ det = [c \in Contacts |-> NoDet]
        /\ sw = "none" /\ seed = 0 /\ log = <<>> /\ sec = {} /\ n = 0
        /\ res = [ok |-> TRUE, app |-> <<>>]
Next == \/ \E op \in ContactOps, c \in Contacts : \E v \in Variants(op), y \in Ys : ContactOp(op, c, v, y)
        \/ \E op \in SwitchOps : SwitchOp(op)
        \/ Reference \/ Share \/ Restart
Spec == Init /\ [][Next]_vars
view == <<cs, det, sw, seed, log, sec, n>>
StepBound == n <= MaxLog + 1

-----------------------------------------------------------------------------
\* what the index derives from the log: latest event per contact decides the state ...
Latest(P(_)) == LET S == {i \in DOMAIN log : P(i)} IN IF S = {} THEN 0 ELSE CHOOSE i \in S : \A j \in S : j <= i
RefState(c) == LET i == Latest(LAMBDA j : log[j].sub = c) IN IF i = 0 THEN "U" ELSE CState(log[i].k)
\* ... seed / metadata come from the newest enqueue / received event that has one, own metadata only from a
\* latest enqueue
RefSeed(c) == LET i == Latest(LAMBDA j : log[j].sub = c /\ log[j].k \in {"enq", "recv"} /\ log[j].seed # 0) IN
                IF i = 0 THEN 0 ELSE log[i].seed
RefMeta(c) == LET i == Latest(LAMBDA j : log[j].sub = c /\ log[j].k \in {"enq", "recv"} /\ log[j].meta # 0) IN
                IF i = 0 THEN 0 ELSE log[i].meta
RefOwn(c) == LET i == Latest(LAMBDA j : log[j].sub = c) IN IF i # 0 /\ log[i].k = "enq" THEN log[i].own ELSE 0
RefSw == LET i == Latest(LAMBDA j : log[j].k \in {"en", "dis"}) IN IF i = 0 THEN "none" ELSE log[i].k
RefAcctSeed == Latest(LAMBDA j : log[j].k = "rs")

LogDeterminesState ==
  /\ \A c \in Contacts : /\ cs[c] = RefState(c)
                         /\ det[c] = [seed |-> RefSeed(c), meta |-> RefMeta(c), own |-> RefOwn(c)]
  /\ sw = RefSw /\ seed = RefAcctSeed
\* the account itself never becomes a contact, and only known contacts appear in the log
NoSelf == \A i \in DOMAIN log : log[i].sub \in Contacts \cup {"-"}
\* a contact group reaches the secret store only through an accepted ContactRequestAccept
SecOnlyAccepted == \A c \in sec : \E i \in DOMAIN log : log[i].sub = c /\ log[i].k = "acc"
\* a refused request appends nothing and changes nothing that is reported
RefusedIsNoOp == [][~res'.ok => UNCHANGED <<cs, det, sw, seed, log, sec>>]_vars
\* a blocked contact leaves that state only by unblock or by a new outgoing request (appendix A, note 2):
\* its incoming request is refused
BlockedIncomingRefused == [][\A c \in Contacts : cs[c] = "B" => cs'[c] \in {"B", "X", "T"}]_vars
\* one event per accepted contact operation, the one the table names
OneEvent == [][Len(log') <= Len(log) + 2 /\ (Len(log') = Len(log) + 2 => res'.app = <<"en", "rs">>)]_vars
=============================================================================
