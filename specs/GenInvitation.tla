--------------------------- MODULE GenInvitation ---------------------------
(* Script generation for Invitation: history of the join attempts. *)
EXTENDS Invitation, Json

VARIABLE h
gvars == <<vars, h>>
GInit == Init /\ h = <<>>
GNext == \/ (\E g \in Groups : Start(g)) /\ UNCHANGED h
         \/ Mutate /\ UNCHANGED h
         \/ /\ inv # <<>> /\ \E via \in Joiners :
                 Join(Cur, via) /\ h' = Append(h, [act |-> "join", s |-> via, a |-> Cur, res |-> res'])
            /\ inv' = <<>> /\ njoin' = njoin + 1 /\ UNCHANGED nmut
GSpec == GInit /\ [][GNext]_gvars
Dump == (njoin = MaxJoin) => PrintT(<<"SCRIPT", ToJson(h)>>)
=============================================================================
