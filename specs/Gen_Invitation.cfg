SPECIFICATION GSpec
CONSTANTS
  JoinChecksType = FALSE
  MaxMut = 1
  MaxJoin = 1
INVARIANTS Dump
CHECK_DEADLOCK FALSE
