SPECIFICATION MSpec
CONSTANTS
  Stores = {"S1", "S2", "S3", "S4", "S5", "S6", "S7", "S8", "S9"}
CONSTRAINT Mark
POSTCONDITION Accepted
CHECK_DEADLOCK FALSE
