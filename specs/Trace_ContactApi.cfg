SPECIFICATION TSpec
CONSTANTS
  Contacts = {"c1", "c2"}
  MaxLog = 100000
  Ys = {0, 1, 2, 3}
  Bad = {"nil", "noseed", "shortseed", "longseed", "badkey", "longkey", "nokey", "self"}
CONSTRAINT Mark
POSTCONDITION Accepted
CHECK_DEADLOCK FALSE
