--------------------------- MODULE GenHandshake ---------------------------
(* Script generation for Handshake: the same actions plus a history variable.   *)
(* The intruder's deliveries are enumerated in a canonical order (by protocol   *)
(* level, then by slot): sessions only interact through frames emitted at a     *)
(* strictly lower level (or at the same level by a lower slot), so every        *)
(* behaviour of Handshake has a representative with the same per-session        *)
(* deliveries; the interleavings themselves are covered by MC_Handshake.        *)
(* Complete histories (every session returned) are printed as JSON scripts.     *)
EXTENDS Handshake, Json

CONSTANTS MaxJunk,     \* corrupted deliveries per script
          AttackOnly   \* print only histories that end in a state violating RespAuth / ReqAuth

VARIABLES h, lvl, cur, nj
gvars == <<vars, h, lvl, cur, nj>>

Ord(L, i) == L > lvl \/ (L = lvl /\ i > cur)
AllStarted == \A j \in Slots : IsReq(j) => sess[j].step >= 1
Rec(L, i, act, x, src, acct, pf, c) ==
  /\ Ord(L, i) /\ (L > 0 => AllStarted)
  /\ lvl' = L /\ cur' = i
  /\ nj' = nj + (IF c THEN 1 ELSE 0) /\ nj' <= MaxJunk
  /\ h' = Append(h, [act |-> act, s |-> i, x |-> x, src |-> src, acct |-> acct,
                     pfk |-> pf[1], pfj |-> pf[2], c |-> c,
                     out |-> res'.out, key |-> res'.key])

GInit == Init /\ h = <<>> /\ lvl = 0 /\ cur = 0 /\ nj = 0
GNext == \E i \in Slots :
   \/ Start(i) /\ Rec(0, i, "start", "-", 0, "-", <<"-", 0>>, FALSE)
   \/ \E x \in {"e1", "e2", "e3", "ei", "low"}, c \in BOOLEAN :
        Hello(i, x, c) /\ Rec(IF IsReq(i) THEN 2 ELSE 1, i, "hello", x, EphSrc(x), "-", <<"-", 0>>, c)
   \/ \E src \in 1..3, c \in BOOLEAN :
        Auth(i, src, "-", <<"-", 0>>, c) /\ Rec(3, i, "auth", "-", src, "-", <<"-", 0>>, c)
   \/ \E acct \in Claimable, pf \in PfSrc :
        Auth(i, 0, acct, pf, FALSE) /\ Rec(3, i, "auth", "-", 0, acct, pf, FALSE)
   \/ \E src \in 1..3, c \in BOOLEAN :
        Accept(i, src, <<"-", 0>>, c) /\ Rec(4, i, "accept", "-", src, "-", <<"-", 0>>, c)
   \/ \E pf \in PfSrc :
        Accept(i, 0, pf, FALSE) /\ Rec(4, i, "accept", "-", 0, "-", pf, FALSE)
   \/ \E src \in 1..3, c \in BOOLEAN :
        Ack(i, src, "t", c) /\ Rec(5, i, "ack", "t", src, "-", <<"-", 0>>, c)
   \/ \E v \in {"t", "f", "eof"} :
        Ack(i, 0, v, FALSE) /\ Rec(5, i, "ack", v, 0, "-", <<"-", 0>>, FALSE)
   \* a session nothing can be delivered to any more is dropped (its stream ends)
   \/ ~CanDeliver(i) /\ Drop(i) /\ Rec(6, i, "drop", "-", 0, "-", <<"-", 0>>, FALSE)
GSpec == GInit /\ [][GNext]_gvars

AllTerminal == \A i \in Slots : ~Live(i)
Cfg == [i \in Slots |-> [role |-> Role(i), owner |-> Owner(i), target |-> Target(i)]]
Dump == (AllTerminal /\ (AttackOnly => ~(RespAuth /\ ReqAuth))) =>
           PrintT(<<"SCRIPT", ToJson([cfg |-> Cfg, steps |-> h,
                                      attack |-> ~(RespAuth /\ ReqAuth)])>>)
=============================================================================
