SPECIFICATION Spec
CONSTANTS
  Items = {"a", "b", "c", "d"}
  MaxLen = 5
INVARIANTS Conserved Dump
CHECK_DEADLOCK FALSE
