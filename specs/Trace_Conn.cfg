SPECIFICATION TSpec
CONSTANTS
  Peers = {"p1", "p2"}
  Impl = "fixed"
CONSTRAINT Mark
POSTCONDITION Accepted
CHECK_DEADLOCK FALSE
