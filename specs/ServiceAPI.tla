------------------------------ MODULE ServiceAPI ------------------------------
(***************************************************************************)
(* The protocol service (api_*.go, service.go, service_group.go) as seen   *)
(* by a client that may send ANY request in ANY service state (C19).       *)
(*                                                                         *)
(* Abstract state                                                          *)
(*   acct      the account group context is open (service.accountGroupCtx) *)
(*   gm, gc    the multi-member group gm / the contact group gc (of the    *)
(*             added contact ca) is in service.openedGroups                *)
(*   gmj       the account metadata says "joined" for gm                   *)
(*   cs        lifecycle state of the four tracked contacts                *)
(*             (U undefined, T to-request, R received, A added, X removed, *)
(*              D discarded, B blocked - DESIGN.md appendix A)             *)
(*   odd       the oddly shaped group (genuine signature, secret that is   *)
(*             not 32 bytes / contact-typed) joined in this history        *)
(* One action: Call(rpc, a, o) = RPC rpc with request shape a answered     *)
(* with outcome class o.  The model is total: every shape of every RPC can *)
(* be attempted in every state.  Outs gives the outcome classes the code   *)
(* can produce; "panic" is an outcome the model gives to NO request - the  *)
(* handlers that panic today (section 7 row 9 of DESIGN.md) are modelled   *)
(* with the outcome they must have: err.                                   *)
(* Help(fn, c): a stateless call of an exported decode/decrypt helper with *)
(* an input of class c.                                                    *)
(***************************************************************************)
EXTENDS ServiceAPIDefs

CONSTANT Impl   \* implementation choices: [reopenOldestWins : BOOLEAN]
\* reopenOldestWins: after the account group is closed and reopened its index reports, for a contact
\* with several events, the state after the OLDEST one.  That was the behaviour of the tree before the
\* fix "index the metadata log in deterministic log order" (C04's finding, not C19's business); the
\* current tree reports the newest state.  TLC checks the model for both values.
ImplCurrent == [reopenOldestWins |-> FALSE]
ImplOldIndex == [reopenOldestWins |-> TRUE]

VARIABLES acct, gm, gc, gmj, cs, odd,
          res    \* outcome class of the last request

state == <<acct, gm, gc, gmj, cs, odd>>
vars == <<acct, gm, gc, gmj, cs, odd, res>>
view == state

CStates == {"U", "T", "R", "A", "X", "D", "B"}
OddKinds == {"shortsecret", "over", "typecontact"}
InitCS == [c \in CKnown |-> CASE c = "ct" -> "T" [] c = "cr" -> "R" [] c = "ca" -> "A" [] c = "cb" -> "B"]
\* state of a contact after its FIRST event (what an oldest-wins index scan reports)
FirstCS == [c \in CKnown |-> CASE c = "ct" -> "T" [] c = "cr" -> "R" [] c = "ca" -> "R" [] c = "cb" -> "B"]

Init == /\ acct = TRUE /\ gm = TRUE /\ gc = TRUE /\ gmj = TRUE /\ cs = InitCS /\ odd = "none"
        /\ res = "ok"

Obs == [acct |-> acct, gm |-> gm, gc |-> gc]
Open(k) == IsOpen(k, Obs)
OK == {"ok"}
ERR == {"err"}
ANY == {"ok", "err"}
If(c) == IF c THEN OK ELSE ERR
Known(k) == k \in CKnown

\* shapes that exist only once an odd group has been joined
OddShapes(rpc) ==
  IF odd = "none" THEN {}
  ELSE CASE rpc \in {"MultiMemberGroupLeave", "DeactivateGroup", "MultiMemberGroupInvitationCreate"} -> {Sh("odd", "-", "-")}
         [] rpc = "ActivateGroup" -> {Sh("odd", "net", "-")}
         [] rpc = "GroupInfo" -> {Sh("odd", "g", "-")}
         [] OTHER -> {}
AllShapes(rpc) == Shapes(rpc) \cup OddShapes(rpc)

(* outcome classes the implementation can answer with *)
Outs(rpc, a) ==
  CASE a.k = "odd" -> ANY
    [] rpc \in (Plain \ {"PeerList"}) -> If(acct)
    [] rpc = "PeerList" -> OK
    [] rpc \in {"ContactRequestAccept", "ContactRequestDiscard"} -> If(acct /\ Known(a.k) /\ cs[a.k] = "R")
    [] rpc = "ContactUnblock" -> If(acct /\ Known(a.k) /\ cs[a.k] = "B")
    [] rpc = "ContactBlock" ->
         If(acct /\ a.k \notin Malformed \cup {"self"} /\ (Known(a.k) => cs[a.k] # "B"))
    [] rpc = "RefreshContactRequest" -> IF Known(a.k) THEN ANY ELSE ERR   \* a lookup may be in progress for a known contact
    [] rpc = "ContactRequestSend" ->
         If(/\ acct /\ a.k \notin Malformed \cup {"nomsg", "self"} /\ a.p \in {"ok", "bigmeta"}
            /\ (Known(a.k) => cs[a.k] # "A"))
    [] rpc = "DecodeContact" -> If(a.p \in {"nil", "empty", "valid"})
    [] rpc = "MultiMemberGroupJoin" ->
         If(acct /\ (a.p \in {"fresh"} \cup OddKinds \/ (a.p = "known" /\ ~gmj)))
    [] rpc = "ContactAliasKeySend" -> If(a.k = "gc" /\ gc)
    [] rpc = "MultiMemberGroupLeave" -> If(acct /\ a.k = "gm" /\ gmj)
    [] rpc = "MultiMemberGroupAliasResolverDisclose" -> If(a.k = "gm" /\ gm)
    [] rpc = "MultiMemberGroupInvitationCreate" -> If(Open(a.k))
    [] rpc = "MultiMemberGroupAdminRoleGrant" -> ERR
    [] rpc = "DeactivateGroup" -> If(a.k \notin Malformed)
    [] rpc = "DebugGroup" -> OK
    [] rpc = "ActivateGroup" -> If(a.k \in {"acct", "gm"} \/ (a.k = "gc" /\ acct))
    [] rpc = "GroupDeviceStatus" -> OK
    [] rpc = "GroupInfo" -> IF a.p = "g" THEN If(a.k \in GKnown) ELSE If(a.k \notin Malformed \cup {"garb"})
    [] rpc \in SendRPC -> If(Open(a.k))
    [] rpc \in ListRPC ->
         IF ~Open(a.k) \/ a.p \in {"bothnow", "idnow", "revopen", "garbid", "unkid"} THEN ERR
         ELSE IF a.p = "knownid" THEN If(a.k = "gm")
         ELSE IF a.s = "fail" \/ a.p \in {"all", "sincenow"} THEN ANY   \* open-ended: ends when the client leaves
         ELSE OK
    [] rpc = "DebugInspectGroupStore" ->
         IF a.p = "undef" \/ ~Open(a.k) THEN ERR ELSE IF a.s = "fail" THEN ANY ELSE OK
    [] rpc = "DebugListGroups" -> If(acct /\ a.s = "sink")
    [] rpc = "ServiceExportData" -> If(a.s = "sink")
    [] rpc = "VerifiedCredentialsList" -> If(acct)
    [] rpc \in {"CredentialVerificationServiceInitFlow", "CredentialVerificationServiceCompleteFlow",
                "ReplicationServiceRegisterGroup"} -> ERR
    [] rpc = "OutOfStoreReceive" -> IF a.p = "valid" THEN ANY ELSE ERR
    [] rpc = "OutOfStoreSeal" -> If(a.k = "gm" /\ gm /\ a.p = "known")

\* lifecycle move of a tracked contact (appendix A); only on an ok answer
NextCS(rpc, a) ==
  IF ~Known(a.k) THEN cs
  ELSE [cs EXCEPT ![a.k] =
         CASE rpc = "ContactRequestAccept" -> "A"
           [] rpc = "ContactRequestDiscard" -> "D"
           [] rpc = "ContactBlock" -> "B"
           [] rpc = "ContactUnblock" -> "X"
           [] rpc = "ContactRequestSend" -> IF @ \in {"U", "T", "B"} THEN "T" ELSE "A"
           [] OTHER -> @]

Cur == [acct |-> acct, gm |-> gm, gc |-> gc, gmj |-> gmj, cs |-> cs, odd |-> odd]
Set(r) == /\ acct' = r.acct /\ gm' = r.gm /\ gc' = r.gc /\ gmj' = r.gmj /\ cs' = r.cs /\ odd' = r.odd

\* the state after rpc(a) was answered with o: only an ok answer changes anything
After(rpc, a, o) ==
  IF o # "ok" THEN Cur
  ELSE [acct |-> CASE rpc = "ActivateGroup" /\ a.k = "acct" -> TRUE
                   [] rpc = "DeactivateGroup" /\ a.k = "acct" -> FALSE
                   [] OTHER -> acct,
        gm |-> CASE rpc = "ActivateGroup" /\ a.k = "gm" -> TRUE
                 [] rpc \in {"DeactivateGroup", "MultiMemberGroupLeave"} /\ a.k = "gm" -> FALSE
                 [] OTHER -> gm,
        gc |-> CASE rpc = "ActivateGroup" /\ a.k = "gc" -> TRUE
                 [] rpc = "DeactivateGroup" /\ a.k = "gc" -> FALSE
                 [] OTHER -> gc,
        gmj |-> CASE rpc = "MultiMemberGroupLeave" /\ a.k = "gm" -> FALSE
                  [] rpc = "MultiMemberGroupJoin" /\ a.p = "known" -> TRUE
                  [] OTHER -> gmj,
        odd |-> IF rpc = "MultiMemberGroupJoin" /\ a.p \in OddKinds THEN a.p ELSE odd,
        cs |-> IF rpc = "ActivateGroup" /\ a.k = "acct" /\ ~acct /\ Impl.reopenOldestWins
                 THEN [c \in CKnown |-> IF cs[c] = InitCS[c] THEN FirstCS[c] ELSE cs[c]]
                 ELSE IF rpc \in ContactKeyed \cup {"ContactRequestSend"} THEN NextCS(rpc, a) ELSE cs]

Call(rpc, a, o) ==
  /\ a \in AllShapes(rpc)
  /\ o \in Outs(rpc, a)
  /\ res' = o
  /\ LET r == After(rpc, a, o) IN Set(r)

HOuts(fn, c) ==
  CASE fn = "GroupGetSigningPubKey" -> If(c \in {"valid", "garb"})
    [] fn = "GroupIsValid" -> If(c # "garb")      \* only the signature is checked
    [] fn = "GroupGetLinkKeyArray" -> OK
    [] fn = "ShareableContactGetPubKey" -> If(c \in {"valid", "garb"})
    [] fn = "ShareableContactCheckFormat" -> If(c \in {"valid", "garb"})
    [] fn = "AESGCMEncrypt" -> If(c # "badkey")
    [] OTHER -> If(c = "valid")

Help(fn, c, o) ==
  /\ c \in HelperCls(fn) /\ o \in HOuts(fn, c)
  /\ res' = o
  /\ UNCHANGED state

Next == \/ \E rpc \in RPC : \E a \in AllShapes(rpc) : \E o \in Outs(rpc, a) : Call(rpc, a, o)
        \/ \E fn \in Helper : \E c \in HelperCls(fn) : \E o \in HOuts(fn, c) : Help(fn, c, o)
Spec == Init /\ [][Next]_vars

\* For the exhaustive check: only the RPCs that can change the state are explored (the others are
\* stuttering steps on `state`, which the invariant Frame establishes in every reachable state).
StateChanging == ContactKeyed \cup {"ContactRequestSend", "ActivateGroup", "DeactivateGroup",
                                    "MultiMemberGroupLeave", "MultiMemberGroupJoin"}
MCNext == \E rpc \in StateChanging : \E a \in AllShapes(rpc) : \E o \in Outs(rpc, a) : Call(rpc, a, o)
MCSpec == Init /\ [][MCNext]_vars
Frame == \A rpc \in RPC \ StateChanging : \A a \in AllShapes(rpc) : \A o \in Outs(rpc, a) : After(rpc, a, o) = Cur

-----------------------------------------------------------------------------
TypeOK == /\ acct \in BOOLEAN /\ gm \in BOOLEAN /\ gc \in BOOLEAN /\ gmj \in BOOLEAN
          /\ cs \in [CKnown -> CStates] /\ odd \in {"none"} \cup OddKinds
\* C19, first clause: no request is answered by a panic
NoPanic == /\ res \in {"ok", "err"}
           /\ \A rpc \in RPC : \A a \in AllShapes(rpc) : Outs(rpc, a) \subseteq {"ok", "err"}
           /\ \A fn \in Helper : \A c \in HelperCls(fn) : HOuts(fn, c) \subseteq {"ok", "err"}
\* C19, second clause: malformed or inapplicable requests are answered with an error
\* (in every reachable state, for every request shape the property demands an error for, the
\* implementation-shaped outcome table answers nothing but an error)
ErrWhenRequired ==
  /\ \A rpc \in RPC : \A a \in Shapes(rpc) : MustErr(rpc, a, Obs) => Outs(rpc, a) = {"err"}
  /\ \A fn \in Helper : \A c \in HelperCls(fn) : HelperMustErr(fn, c) => HOuts(fn, c) = {"err"}
\* the contact group of an added contact cannot be (re)opened without the account group
ContactGroupNeedsAccount == [][(~acct /\ ~gc) => ~gc']_vars
\* bound for the exhaustive check only: number of tracked contacts moved away from their initial state
CONSTANT MaxDev
MCBound == Cardinality({c \in CKnown : cs[c] # InitCS[c]}) <= MaxDev
=============================================================================
