SPECIFICATION MSpec
CONSTANTS
  TolerateLow = FALSE
CONSTRAINT Mark
POSTCONDITION Accepted
CHECK_DEADLOCK FALSE
