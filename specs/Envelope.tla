------------------------------ MODULE Envelope ------------------------------
(***************************************************************************)
(* Message envelopes of pkg/secretstore as terms of a small algebra (C01). *)
(*                                                                         *)
(* World: groups G, devices Dev of which Adv is a *fellow member* of every *)
(* group (it knows every group secret, has registered the other devices'   *)
(* chain keys and therefore holds their message keys mk(g,dev,ctr), and    *)
(* holds its own device signing key only).  One honest receiver store that *)
(* registered every device at counter 0 with a window of W keys.           *)
(*                                                                         *)
(* An envelope is the record                                               *)
(*   hs   group whose secret boxes the headers  (secretbox, random nonce)  *)
(*   dv   device key named in the headers                                  *)
(*   ct   counter named in the headers                                     *)
(*   sg   signature term [by, p, g, k] carried in the headers              *)
(*   key  message key <<g, devkey, ctr>> the body is encrypted with        *)
(*   bn   counter used as the body nonce                                   *)
(*   pl   payload (label)                                                  *)
(*   tam  "none" or the part that was damaged after sealing                *)
(* Device keys: account and contact groups share the device key, multi-    *)
(* member groups have one per group (constant Shared).                     *)
(*                                                                         *)
(* Receiver = OpenEnvelopeHeaders ; OpenEnvelopePayload composed as in     *)
(* secret_store.go / secret_store_messages.go: key by CID first (then no   *)
(* signature check), else the precomputed key of (group, header device,    *)
(* header counter); body nonce = header counter; on first decryption the   *)
(* signature is verified against the header device over the clear payload. *)
(* Implementation choice SigCtx: FALSE = the signature covers the payload  *)
(* only (what sealPayload does); TRUE = it also binds group and counter.   *)
(***************************************************************************)
EXTENDS Integers, FiniteSets, Sequences, TLC

CONSTANTS G,        \* groups, e.g. {"g1","g2"}
          Dev,      \* devices, e.g. {"d1","d2","x"}
          Adv,      \* the adversary's device, a member of every group
          W,        \* precomputed keys per (group, device) at the receiver
          Shared,   \* TRUE: one device key for all groups (account/contact); FALSE: per group
          SigCtx,   \* Impl: does the device signature bind (group, counter)?
          Plan,     \* name of the honest history (SealPlan below)
          MaxOpen   \* bound on receiver calls (model checking only)

\* the honest history: sequence of <<device, group>>; the i-th seal ships payload "p"i
\* (TLC configuration files cannot express tuples, hence a table selected by name)
SealPlan == CASE Plan = "std"  -> << <<"d1", "g1">>, <<"d1", "g1">>, <<"d2", "g1">>, <<"d1", "g2">>, <<"x", "g1">> >>
              [] Plan = "mini" -> << <<"d1", "g1">>, <<"d1", "g2">>, <<"x", "g1">> >>
              [] Plan = "one"  -> << <<"d1", "g1">> >>

VARIABLES ns,     \* number of honest seals done so far (henv below = the envelopes, label "h"i)
          fz,     \* <<>> or <<forged envelope>>        (label "f")
          tz,     \* <<>> or <<[base |-> i, fld |-> f]>> (label "t": henv[i] damaged in fld)
          pre,    \* receiver: precomputed message keys <<g, devkey, ctr>>
          ck,     \* receiver: [<<g, devkey>> -> stored chain counter]
          cidk,   \* receiver: labels of envelopes whose key is stored by CID
          delivered, \* history: <<g, devkey, ctr, payload>> handed to the application
          nopen,
          res

vars == <<ns, fz, tz, pre, ck, cidk, delivered, nopen, res>>
store == <<pre, ck, cidk>>
view == <<ns, fz, tz, pre, ck, cidk, delivered, nopen>>

DK(g, d) == IF Shared THEN d ELSE g \o "." \o d
DevKeys == {DK(g, d) : g \in G, d \in Dev}
AdvKeys == {DK(g, Adv) : g \in G}
Ctr == 1..W
Junk == <<"junk", "junk", 0>>
NoSig == [by |-> "-", p |-> "-", g |-> "-", k |-> 0]
SigOf(dk, p, g, k) == [by |-> dk, p |-> p, g |-> IF SigCtx THEN g ELSE "-", k |-> IF SigCtx THEN k ELSE 0]
Verify(dk, p, sg, g, k) == sg.by = dk /\ sg.p = p /\ (SigCtx => sg.g = g /\ sg.k = k)

\* literal label tables (string building with ToString is slow in TLC)
HL == <<"h1", "h2", "h3", "h4", "h5", "h6", "h7", "h8">>
PL == <<"p1", "p2", "p3", "p4", "p5", "p6", "p7", "p8">>
PayloadOf(i) == PL[i]
\* the honest envelopes are a function of the plan: SealEnvelope makes all parts consistent, next counter
HonestAt(i) == LET d == SealPlan[i][1]
                   g == SealPlan[i][2]
                   k == Cardinality({j \in 1..i : SealPlan[j] = SealPlan[i]})
                   p == PayloadOf(i)
               IN [hs |-> g, dv |-> DK(g, d), ct |-> k, sg |-> SigOf(DK(g, d), p, g, k),
                   key |-> <<g, DK(g, d), k>>, bn |-> k, pl |-> p, tam |-> "none"]
HENV == [i \in 1..Len(SealPlan) |-> HonestAt(i)]
henv == SubSeq(HENV, 1, ns)

Tampers == {"nonce", "hdr", "body", "frame", "e_nonce", "e_hdr", "e_body"}
HdrTampers == {"nonce", "hdr", "frame", "e_nonce", "e_hdr"}

HLabels == {HL[i] : i \in 1..Len(henv)}
Labels == HLabels
           \cup (IF fz = <<>> THEN {} ELSE {"f"}) \cup (IF tz = <<>> THEN {} ELSE {"t"})
HIndex(id) == CHOOSE i \in 1..Len(henv) : id = HL[i]
IsHonest(id) == id \in HLabels
Env(id) == IF id = "f" THEN fz[1]
           ELSE IF id = "t" THEN [henv[tz[1].base] EXCEPT !.tam = tz[1].fld]
           ELSE henv[HIndex(id)]

Init == /\ ns = 0 /\ fz = <<>> /\ tz = <<>>
        /\ pre = {<<g, DK(g, d), k>> : g \in G, d \in Dev, k \in Ctr}
        /\ ck = [gd \in {<<g, DK(g, d)>> : g \in G, d \in Dev} |-> W]
        /\ cidk = {} /\ delivered = {} /\ nopen = 0
        /\ res = [act |-> "init", ok |-> TRUE]

\* SecretStore.SealEnvelope on the device's own store
Seal == /\ ns < Len(SealPlan) /\ fz = <<>> /\ tz = <<>> /\ nopen = 0
        /\ ns' = ns + 1
        /\ res' = [act |-> "seal", ok |-> TRUE, k |-> HENV[ns + 1].ct]
        /\ UNCHANGED <<fz, tz, pre, ck, cidk, delivered, nopen>>

\* ---- what the adversary can put into an envelope ----
\* message keys it holds: those of the devices it registered (window 1..W) and of its own sealed messages
AdvMsgKeys == {<<g, DK(g, d), k>> : g \in G, d \in Dev \ {Adv}, k \in Ctr}
                \cup {henv[i].key : i \in {j \in 1..Len(henv) : henv[j].dv \in AdvKeys}} \cup {Junk}
Payloads == {henv[i].pl : i \in 1..Len(henv)} \cup {"px"}
\* signatures: copied from an envelope it has seen, or made with its own device key of the header group
\* (over the payload it ships, with whatever context the scheme signs)
AdvSigs(hs, ct, pl) == {henv[i].sg : i \in 1..Len(henv)} \cup {SigOf(DK(hs, Adv), pl, hs, ct)}

AllSigs == {henv[i].sg : i \in 1..Len(henv)} \cup {SigOf(DK(g, Adv), p, g, k) : g \in G, p \in Payloads, k \in Ctr}
ForgeCand == [hs : G, dv : DevKeys, ct : Ctr, sg : AllSigs, key : AdvMsgKeys, bn : Ctr, pl : Payloads, tam : {"none"}]

\* the adversary may not *be* the named device with a signature of its own (that is simply its own message),
\* and re-boxing an honest envelope unchanged is no forgery
IsForgery(f) == /\ ~(f.dv \in AdvKeys /\ f.sg.by \in AdvKeys)
                /\ \A i \in 1..Len(henv) : f # henv[i]

\* the adversary moves once, after the honest history and before the receiver is called
CanMutate == Len(henv) = Len(SealPlan) /\ fz = <<>> /\ tz = <<>> /\ nopen = 0

\* (trace validation additionally checks InForgeSpace(f): the fields are things the adversary has)
InForgeSpace(f) == f \in ForgeCand /\ f.sg \in AdvSigs(f.hs, f.ct, f.pl)
Forge(f) == /\ CanMutate
            /\ IsForgery(f)
            /\ fz' = <<f>>
            /\ res' = [act |-> "forge", ok |-> TRUE]
            /\ UNCHANGED <<ns, tz, pre, ck, cidk, delivered, nopen>>

Tamper(i, fld) == /\ CanMutate
                  /\ i \in 1..Len(henv) /\ fld \in Tampers
                  /\ tz' = <<[base |-> i, fld |-> fld]>>
                  /\ res' = [act |-> "tamper", ok |-> TRUE]
                  /\ UNCHANGED <<ns, fz, pre, ck, cidk, delivered, nopen>>

\* ---- receiver: OpenEnvelopeHeaders(e, g) then OpenEnvelopePayload(.., cid of e) ----
HdrOK(e, g) == e.tam \notin HdrTampers /\ e.hs = g
Slot(e, g) == <<g, e.dv, e.ct>>
Held(id, g) == id \in cidk \/ Slot(Env(id), g) \in pre
BoxOK(e, k0) == e.tam # "body" /\ e.tam # "e_body" /\ e.key = k0 /\ e.bn = e.ct

\* why a call is refused ("" = accepted), in the order the code checks
Why(id, g) == LET e == Env(id) IN
  IF ~HdrOK(e, g) THEN "hdr"
  ELSE IF id \in cidk THEN ""        \* key stored under the CID of exactly these bytes: no signature check
  ELSE IF Slot(e, g) \notin pre THEN "nokey"
  ELSE IF ~BoxOK(e, Slot(e, g)) THEN "box"
  ELSE IF ~Verify(e.dv, e.pl, e.sg, g, e.ct) THEN "sig"
  ELSE ""

Open(id, g) ==
  /\ id \in Labels /\ g \in G /\ nopen < MaxOpen
  /\ nopen' = nopen + 1
  /\ LET e == Env(id)
         why == Why(id, g)
         base == [act |-> "open", id |-> id, g |-> g, held |-> Held(id, g), why |-> why]
     IN IF why # ""
          THEN /\ res' = base @@ [ok |-> FALSE, dv |-> "-", ct |-> 0, pl |-> "-"]
               /\ UNCHANGED <<store, delivered>>
          ELSE /\ res' = base @@ [ok |-> TRUE, dv |-> e.dv, ct |-> e.ct, pl |-> e.pl]
               /\ delivered' = delivered \cup {<<g, e.dv, e.ct, e.pl>>}
               /\ IF id \in cidk THEN UNCHANGED store
                  \* postDecryptActions: key by CID, drop the precomputed key, precompute the next one
                  ELSE /\ cidk' = cidk \cup {id}
                       /\ pre' = (pre \ {Slot(e, g)}) \cup {<<g, e.dv, ck[<<g, e.dv>>] + 1>>}
                       /\ ck' = [ck EXCEPT ![<<g, e.dv>>] = @ + 1]
  /\ UNCHANGED <<ns, fz, tz>>

Next == \/ Seal
        \/ (CanMutate /\ \E hs \in G, dv \in DevKeys, ct \in Ctr, key \in AdvMsgKeys, bn \in Ctr, pl \in Payloads :
                            \E sg \in AdvSigs(hs, ct, pl) :
                              Forge([hs |-> hs, dv |-> dv, ct |-> ct, sg |-> sg, key |-> key, bn |-> bn, pl |-> pl, tam |-> "none"]))
        \/ (CanMutate /\ \E i \in 1..Len(henv), fld \in Tampers : Tamper(i, fld))
        \/ \E id \in Labels, g \in G : Open(id, g)

Spec == Init /\ [][Next]_vars

-----------------------------------------------------------------------------
HonestSet == {<<henv[i].hs, henv[i].dv, henv[i].ct, henv[i].pl>> : i \in 1..Len(henv)}

TypeOK == /\ ns \in 0..Len(SealPlan) /\ Len(fz) <= 1 /\ Len(tz) <= 1
          /\ cidk \subseteq Labels

\* C01, safety: nothing is delivered with other content or attribution than honestly sealed
C01_OnlyHonest == delivered \subseteq HonestSet
\* C01, stronger: only honestly produced envelopes are ever accepted (everything else is rejected)
C01_RejectOthers == cidk \subseteq HLabels
\* C01: an honest envelope presented to its group opens whenever the receiver holds the key, and
\* opens to its own <<payload, device, counter>>
C01_HonestOpens == (res.act = "open" /\ IsHonest(res.id) /\ Env(res.id).hs = res.g /\ res.held)
                     => (res.ok /\ res.dv = Env(res.id).dv /\ res.ct = Env(res.id).ct /\ res.pl = Env(res.id).pl)
\* a refused call changes nothing at the receiver
RejectIsNoOp == [][ (res'.act = "open" /\ ~res'.ok) => UNCHANGED <<store, delivered>> ]_vars
=============================================================================
