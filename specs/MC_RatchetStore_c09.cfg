SPECIFICATION Spec
CONSTANTS
  Dev = {"d1", "R"}
  Senders = {}
  Thr = {"t1", "t2"}
  D0 = "d1"
  MsgPerThr = 2
  KeyNames = {"accountSK", "deviceSK"}
  JoinKeys = {"accountSK", "deviceSK"}
  W = 2
  N = 1
  MaxSent = 4
  MaxOps = 2
  MaxCrash = 0
  Batching = TRUE
  UseLock = TRUE
  CidFirst = TRUE
  EarlyReturn = FALSE
  MonoGE = TRUE
  InitJoined = TRUE
INVARIANTS RefinesMech TypeOK NoReuse C09_GapFree C09_Opens C10_OpenedStay
PROPERTIES C09_Monotone
VIEW view
CHECK_DEADLOCK FALSE
