------------------------------ MODULE GroupLog ------------------------------
(***************************************************************************)
(* The account group's metadata log and its index (store_metadata.go,      *)
(* store_metadata_index.go, store_utils.go) replicated between devices of  *)
(* one account (go-orbit-db / go-ipfs-log).                                *)
(*                                                                         *)
(* An entry is created by an API call on one device: its causal past is    *)
(* what that device held, its Lamport time one more than the largest it    *)
(* held.  Every replica keeps the set of entries it has and the ORDER IN   *)
(* WHICH THEY WERE INSERTED into its in-memory log (what GetEntries()      *)
(* returns): appended at the end for a local write; for a delivered batch  *)
(* and after a reopen the order is whatever the replicator / loader        *)
(* produced (modelled as any order: a sound over-approximation).           *)
(* Values() is the deterministic linearisation by (time, tie-break).       *)
(*                                                                         *)
(* The index re-scans a sequence of entries from its last element to its   *)
(* first; the first event seen about a subject wins.  Impl choices:        *)
(*   IndexSource  "arrival": scan GetEntries() (code as first found)       *)
(*                "values" : scan Values()                                 *)
(*   ListSource   "arrival": ListEvents ranges over reversed GetEntries()  *)
(*                "values" : over Values()                                 *)
(*   TieBreak     "arrival": equal-time concurrent entries in any order    *)
(*                "hash"   : by entry identifier (deterministic)           *)
(* Operations follow the guards of store_metadata.go (contact lifecycle,   *)
(* DESIGN.md appendix A), evaluated - as in the code - on the state the    *)
(* index REPORTS.                                                          *)
(***************************************************************************)
EXTENDS Naturals, Sequences, FiniteSets, TLC, Json, SequencesExt

CONSTANTS Devs, Contacts, Groups, MaxEntries,
          IndexSource, ListSource, TieBreak

VARIABLES entries,   \* sequence of [ev, sub, w, past, t]: identifier = position (creation order)
          have,      \* [Devs -> SUBSET entry ids]
          arr,       \* [Devs -> Seq(entry id)] insertion order of the in-memory log
          res
vars == <<entries, have, arr, res>>

Ids == 1..Len(entries)
Past(e) == entries[e].past
Time(e) == entries[e].t

\* ---------------------------------------------------------------- orders
IsPerm(s, S) == Len(s) = Cardinality(S) /\ {s[i] : i \in DOMAIN s} = S
Perms(S) == {s \in [1..Cardinality(S) -> S] : IsPerm(s, S)}
\* linearisations of S by time; ties by identifier ("hash") or in any order ("arrival")
Lin(S) == {s \in Perms(S) :
             \A i, j \in DOMAIN s : i < j =>
                \/ Time(s[i]) < Time(s[j])
                \/ (Time(s[i]) = Time(s[j]) /\ (TieBreak = "hash" => s[i] < s[j]))}
ValuesOf(d) == Lin(have[d])
IndexSources(d) == IF IndexSource = "arrival" THEN {arr[d]} ELSE ValuesOf(d)
\* oldest-first listing base: code as found reverses GetEntries() ... and then treats it as oldest-first
ListSources(d) == IF ListSource = "arrival" THEN {Reverse(arr[d])} ELSE ValuesOf(d)

\* ---------------------------------------------------------------- index
NoState == [sw |-> "none", seed |-> 0,
            cs |-> [c \in Contacts |-> "U"], gj |-> [g \in Groups |-> "none"]]
CState(ev) == CASE ev = "enq" -> "T" [] ev = "sent" -> "A" [] ev = "recv" -> "R" [] ev = "disc" -> "D"
                [] ev = "acc" -> "A" [] ev = "blk" -> "B" [] ev = "unb" -> "X"
ContactEvs == {"enq", "sent", "recv", "disc", "acc", "blk", "unb"}
\* apply one entry to a state in which "already set" fields win (newest-first scan)
Apply(st, e) ==
  LET x == entries[e] IN
    CASE x.ev \in {"en", "dis"} -> IF st.sw = "none" THEN [st EXCEPT !.sw = x.ev] ELSE st
      [] x.ev = "rs" -> IF st.seed = 0 THEN [st EXCEPT !.seed = e] ELSE st
      [] x.ev \in ContactEvs -> IF st.cs[x.sub] = "U" THEN [st EXCEPT !.cs[x.sub] = CState(x.ev)] ELSE st
      [] x.ev \in {"join", "leave"} -> IF st.gj[x.sub] = "none" THEN [st EXCEPT !.gj[x.sub] = x.ev] ELSE st
      [] OTHER -> st      \* "msg": an entry of the message log, no index state
RECURSIVE ScanFrom(_, _, _)
ScanFrom(src, i, st) == IF i = 0 THEN st ELSE ScanFrom(src, i - 1, Apply(st, src[i]))
Scan(src) == ScanFrom(src, Len(src), NoState)
\* the states a replica may report (one per admissible source order)
Reported(d) == {Scan(s) : s \in IndexSources(d)}
\* reference: apply the events of a set in creation order (= log order for a causally total history)
RefState(S) == Scan(SetToSortSeq(S, <))

\* ---------------------------------------------------------------- operations
Writes(d, ev, sub) ==
  LET n == Len(entries) + 1
      t == IF have[d] = {} THEN 1 ELSE 1 + CHOOSE m \in {Time(e) : e \in have[d]} : \A e \in have[d] : Time(e) <= m
  IN /\ n <= MaxEntries
     /\ entries' = Append(entries, [ev |-> ev, sub |-> sub, w |-> d, past |-> have[d], t |-> t])
     /\ have' = [have EXCEPT ![d] = @ \cup {n}]
     /\ arr' = [arr EXCEPT ![d] = Append(@, n)]
Refused == UNCHANGED <<entries, have, arr>>

\* what the API appends for operation `op` on contact c when the reported contact state is s ("-" = refused)
ContactOutcome(op, s) ==
  CASE op = "enq"  -> IF s \in {"U", "T", "B"} THEN "enq" ELSE IF s \in {"R", "X", "D"} THEN "sent" ELSE "-"
    [] op = "sent" -> IF s \in {"T", "R", "X", "D"} THEN "sent" ELSE "-"
    [] op = "recv" -> IF s \in {"U", "X", "D"} THEN "recv" ELSE IF s = "T" THEN "sent" ELSE "-"
    [] op = "disc" -> IF s = "R" THEN "disc" ELSE "-"
    [] op = "acc"  -> IF s = "R" THEN "acc" ELSE "-"
    [] op = "blk"  -> IF s # "B" THEN "blk" ELSE "-"
    [] op = "unb"  -> IF s = "B" THEN "unb" ELSE "-"

ContactOp(d, op, c) ==
  \E st \in Reported(d) :
    LET ev == ContactOutcome(op, st.cs[c]) IN
      IF ev = "-" THEN Refused /\ res' = [ok |-> FALSE]
      ELSE Writes(d, ev, c) /\ res' = [ok |-> TRUE, ev |-> ev]
SwitchOp(d, op) == Writes(d, op, "-") /\ res' = [ok |-> TRUE, ev |-> op]      \* en / dis / rs: no guard
GroupOp(d, op, g) ==
  \E st \in Reported(d) :
    IF (op = "join" /\ st.gj[g] # "join") \/ (op = "leave" /\ st.gj[g] = "join")
      THEN Writes(d, op, g) /\ res' = [ok |-> TRUE, ev |-> op]
      ELSE Refused /\ res' = [ok |-> FALSE]

\* replica d joins entry e of another replica together with the part of its causal past it lacks
Deliver(d, e) ==
  /\ e \in Ids /\ e \notin have[d] /\ \E o \in Devs : e \in have[o]
  /\ LET batch == ({e} \cup Past(e)) \ have[d] IN
       /\ have' = [have EXCEPT ![d] = @ \cup batch]
       /\ \E p \in Perms(batch) : arr' = [arr EXCEPT ![d] = @ \o p]
  /\ UNCHANGED entries /\ res' = [ok |-> TRUE]
\* a batch that holds entry e alone, without its causal past (partial replication: newest first)
DeliverRaw(d, e) ==
  /\ e \in Ids /\ e \notin have[d] /\ \E o \in Devs : e \in have[o]
  /\ have' = [have EXCEPT ![d] = @ \cup {e}]
  /\ arr' = [arr EXCEPT ![d] = Append(@, e)]
  /\ UNCHANGED entries /\ res' = [ok |-> TRUE]
\* close and reopen: the in-memory log is rebuilt from the stored heads
Reopen(d) == /\ \E p \in Perms(have[d]) : arr' = [arr EXCEPT ![d] = p]
             /\ UNCHANGED <<entries, have>> /\ res' = [ok |-> TRUE]

\* ListEvents(since, until, reverse); 0 = absent, an identifier the replica lacks = unknown
RangeOf(src, since, until) ==
  LET i == IF since = 0 THEN 1 ELSE Min({k \in DOMAIN src : src[k] = since} \cup {Len(src) + 1})
      j == IF until = 0 THEN Len(src) ELSE Min({k \in DOMAIN src : src[k] = until} \cup {Len(src) + 1})
  IN IF (since # 0 /\ i > Len(src)) \/ (until # 0 /\ j > Len(src)) \/ (i > j /\ Len(src) > 0)
       THEN [ok |-> FALSE, out |-> <<>>]
       ELSE [ok |-> TRUE, out |-> SubSeq(src, i, j)]
List(d, since, until, rev) ==
  /\ \E src \in ListSources(d) :
       LET r == RangeOf(src, since, until) IN
         res' = [ok |-> r.ok, out |-> IF rev THEN Reverse(r.out) ELSE r.out]
  /\ UNCHANGED <<entries, have, arr>>

Init == /\ entries = <<>> /\ have = [d \in Devs |-> {}] /\ arr = [d \in Devs |-> <<>>]
        /\ res = [ok |-> TRUE]
Next == \E d \in Devs :
          \/ \E op \in {"en", "dis", "rs"} : SwitchOp(d, op)
          \/ \E op \in ContactEvs, c \in Contacts : ContactOp(d, op, c)
          \/ \E op \in {"join", "leave"}, g \in Groups : GroupOp(d, op, g)
          \/ \E e \in 1..MaxEntries : Deliver(d, e)
          \/ Reopen(d)
Spec == Init /\ [][Next]_vars
view == <<entries, have, arr>>

-----------------------------------------------------------------------------
\* C04: the reported state is a function of the set of entries
Convergence == \A d1, d2 \in Devs : have[d1] = have[d2] =>
                  \A s1 \in Reported(d1), s2 \in Reported(d2) : s1 = s2
\* a history is causally total when every entry has all earlier entries in its past
Total == \A e \in Ids : Past(e) = 1..(e - 1)
\* ... and then it is the result of applying the events in log order, latest event per subject winning
LogOrderState == Total => \A d \in Devs : \A s \in Reported(d) : s = RefState(have[d])
\* C13: listings are the contiguous range of the log order, on every replica, whatever the arrival
Listing == Total => \A d \in Devs : \A src \in ListSources(d) : src = SetToSortSeq(have[d], <)
=============================================================================
