---------------------------- MODULE MonIndexSnap ----------------------------
(* C04 monitor over snapshots of the metadata index recorded while the repository's OWN     *)
(* multi-peer tests run (real pubsub replication, several peers and devices per group).     *)
(* One block per group; every record is what one peer's index reported right after one      *)
(* index update: the entry set it has handled (= its whole log when `complete`), the state  *)
(* every replica must agree on (`view`: members, devices, admins, contacts and their        *)
(* states / seeds / metadata, joined groups, contact-request switch and seed, credentials)  *)
(* and the state that depends on the observing device (`rel`: the other member's alias key, *)
(* secrets already sent), compared only between snapshots of the same device.               *)
(*   same entry set => same reported state, on any peer, at any time, however it arrived.   *)
(* Observed values only; snapshots whose set is not the whole log are skipped.              *)
EXTENDS Naturals, Sequences, FiniteSets, TLC, Json, IOUtils

TraceLog == ndJsonDeserialize(IOEnv.VERIF_TRACE)
VARIABLES l, memo, rmemo
mvars == <<l, memo, rmemo>>
Ev == TraceLog[l]
Consume(e) == l <= Len(TraceLog) /\ Ev.ev = e /\ l' = l + 1
SetOf(s) == {s[i] : i \in DOMAIN s}

MReset == Consume("reset") /\ memo' = {} /\ rmemo' = {}
MSnap == /\ Consume("snap")
         /\ IF Ev.complete
              THEN LET S == SetOf(Ev.set) IN
                     /\ \A m \in memo : m[1] = S => m[2] = Ev.view
                     /\ \A m \in rmemo : (m[1] = S /\ m[3] = Ev.own) => m[2] = Ev.rel
                     /\ memo' = memo \cup {<<S, Ev.view>>}
                     /\ rmemo' = rmemo \cup {<<S, Ev.rel, Ev.own>>}
              ELSE UNCHANGED <<memo, rmemo>>
MNext == MReset \/ MSnap
MInit == l = 1 /\ memo = {} /\ rmemo = {} /\ TLCSet(42, 1)
MSpec == MInit /\ [][MNext]_mvars
Mark == TLCSet(42, IF l > TLCGet(42) THEN l ELSE TLCGet(42))
Accepted == LET hw == TLCGet(42) IN
              IF hw = Len(TraceLog) + 1 THEN TRUE
              ELSE /\ PrintT(<<"REJECTED", ToJson([high |-> hw - 1, line |-> TraceLog[hw]])>>)
                   /\ FALSE
=============================================================================
