--------------------------- MODULE ServiceAPIDefs ---------------------------
(***************************************************************************)
(* Constant-level vocabulary shared by ServiceAPI.tla (the model of the    *)
(* protocol service), its script generator, the property monitor           *)
(* MonServiceAPI.tla and the conformance spec TraceServiceAPI.tla (C19).   *)
(*                                                                         *)
(* A request is abstracted to its SHAPE  [k, p, s]:                        *)
(*   k  class of the key-typed byte field that names the target (group or  *)
(*      contact public key), "-" when the RPC has none;                    *)
(*   p  class of the secondary field(s) (payload, sub-message, ids, flags);*)
(*   s  behaviour of the reply stream of a streaming RPC ("sink" accepts   *)
(*      everything, "fail" makes Send return an error), "-" for unary.     *)
(* Key classes: nil | empty | short | garb (exact length, not a curve      *)
(* point) | over (oversized) | unk (well-formed, unknown to the service)   *)
(* | a known entity.  Known groups: acct (account group), gm (a joined     *)
(* multi-member group), gc (the contact group of contact ca).  Known       *)
(* contacts: ct (to-request), cr (received), ca (added), cb (blocked),     *)
(* self (the account's own key).                                           *)
(***************************************************************************)
EXTENDS Integers, FiniteSets, Sequences, TLC

GKnown == {"acct", "gm", "gc"}
CKnown == {"ct", "cr", "ca", "cb"}
Malformed == {"nil", "empty", "short", "over"}          \* cannot be a 32-byte key
GK == Malformed \cup {"garb", "unk"} \cup GKnown
CK == Malformed \cup {"garb", "unk", "self"} \cup CKnown

Sh(k, p, s) == [k |-> k, p |-> p, s |-> s]
Prod(K, P, S) == {Sh(k, p, s) : k \in K, p \in P, s \in S}
None == {"-"}

\* RPCs without request fields
Plain == {"ServiceGetConfiguration", "ContactRequestReference", "ContactRequestDisable",
          "ContactRequestEnable", "ContactRequestResetReference", "ShareContact",
          "MultiMemberGroupCreate", "SystemInfo", "PeerList"}
\* RPCs whose only field is a contact key
ContactKeyed == {"ContactRequestAccept", "ContactRequestDiscard", "ContactBlock", "ContactUnblock",
                 "RefreshContactRequest"}
\* RPCs whose only field is a group key
GroupKeyed == {"ContactAliasKeySend", "MultiMemberGroupLeave", "MultiMemberGroupAliasResolverDisclose",
               "MultiMemberGroupInvitationCreate", "MultiMemberGroupAdminRoleGrant", "DeactivateGroup",
               "DebugGroup"}
ListRPC == {"GroupMetadataList", "GroupMessageList"}
ListP == {"all", "untilnow", "sincenow", "bothnow", "idnow", "revopen", "revnow", "garbid", "unkid", "knownid"}
SendRPC == {"AppMetadataSend", "AppMessageSend"}

RPC == Plain \cup ContactKeyed \cup GroupKeyed \cup ListRPC \cup SendRPC \cup
       {"ServiceExportData", "ContactRequestSend", "DecodeContact", "MultiMemberGroupJoin", "GroupInfo",
        "ActivateGroup", "GroupDeviceStatus", "DebugListGroups", "DebugInspectGroupStore",
        "CredentialVerificationServiceInitFlow", "CredentialVerificationServiceCompleteFlow",
        "VerifiedCredentialsList", "ReplicationServiceRegisterGroup", "OutOfStoreReceive", "OutOfStoreSeal"}

Streaming == ListRPC \cup {"ServiceExportData", "GroupDeviceStatus", "DebugListGroups",
                           "DebugInspectGroupStore", "VerifiedCredentialsList"}

\* every request shape that is enumerated for an RPC
Shapes(rpc) ==
  CASE rpc \in Plain -> {Sh("-", "-", "-")}
    [] rpc \in ContactKeyed -> Prod(CK, None, None)
    [] rpc \in GroupKeyed -> Prod(GK, None, None)
    [] rpc = "ActivateGroup" -> Prod(GK, {"net"}, None) \cup Prod(GKnown \cup {"unk"}, {"local"}, None)
    [] rpc = "ServiceExportData" -> Prod(None, None, {"sink", "fail"})
    [] rpc = "DebugListGroups" -> Prod(None, None, {"sink", "fail"})
    [] rpc = "VerifiedCredentialsList" -> Prod(None, {"none", "filters"}, {"sink"}) \cup Prod(None, {"none"}, {"fail"})
    [] rpc = "GroupDeviceStatus" -> Prod(GK, None, {"sink"})
    [] rpc = "ContactRequestSend" ->
         Prod(CK, {"ok"}, None) \cup Prod({"unk"}, {"nil", "short", "over", "bigmeta"}, None)
         \cup {Sh("nil", "nil", "-"), Sh("nomsg", "-", "-")}
    [] rpc = "DecodeContact" -> Prod(None, {"nil", "empty", "short", "garb", "valid", "over"}, None)
    [] rpc = "MultiMemberGroupJoin" ->
         Prod(None, {"nomsg", "emptymsg", "fresh", "known", "badsig", "garb", "nopk", "over",
                     "shortsecret", "typecontact"}, None)
    [] rpc = "GroupInfo" -> Prod(GK, {"g"}, None) \cup Prod(CK \ {"nil"}, {"c"}, None)
    [] rpc \in SendRPC -> Prod(GK, {"small"}, None) \cup Prod(GKnown, {"nil", "over"}, None)
    [] rpc \in ListRPC ->
         Prod(GK, {"all"}, {"sink"}) \cup Prod(GKnown, ListP \ {"all"}, {"sink"})
         \cup Prod(GKnown, {"all", "untilnow"}, {"fail"})
    [] rpc = "DebugInspectGroupStore" ->
         Prod(GK, {"msg"}, {"sink"}) \cup Prod(GKnown, {"meta", "undef", "badtype"}, {"sink"})
         \cup Prod(GKnown, {"msg", "meta"}, {"fail"})
    [] rpc = "CredentialVerificationServiceInitFlow" -> Prod(None, {"own", "nil", "garb", "badurl"}, None)
    [] rpc = "CredentialVerificationServiceCompleteFlow" -> Prod(None, {"empty", "garb", "nocred", "badcred"}, None)
    [] rpc = "ReplicationServiceRegisterGroup" -> Prod(GK, {"ok"}, None) \cup Prod(GKnown, {"notoken", "noserver"}, None)
    [] rpc = "OutOfStoreReceive" -> Prod(None, {"nil", "empty", "short", "garb", "over", "badref", "badbox", "valid"}, None)
    [] rpc = "OutOfStoreSeal" -> Prod(GK, {"known"}, None) \cup Prod(GKnown, {"nil", "garb", "unkcid"}, None)

\* exported helpers called by applications on untrusted bytes (stateless)
Helper == {"AESGCMDecrypt", "AESGCMEncrypt", "AESCTRStream", "KeySliceToArray", "NonceSliceToArray",
           "PublicKeyToCurve25519", "ShareableContactCheckFormat", "ShareableContactGetPubKey",
           "GroupIsValid", "GroupGetSigningPubKey", "GroupGetLinkKeyArray"}
HelperCls(fn) ==
  CASE fn = "AESGCMDecrypt" -> {"empty", "short", "nonce", "garb", "valid", "badkey"}
    [] fn = "AESGCMEncrypt" -> {"empty", "valid", "badkey"}
    [] fn = "AESCTRStream" -> {"empty", "short", "valid", "over", "badkey", "nilkey"}
    [] fn \in {"KeySliceToArray", "NonceSliceToArray"} -> {"empty", "short", "valid", "over"}
    [] fn = "PublicKeyToCurve25519" -> {"empty", "short", "garb", "valid", "over"}
    [] fn \in {"ShareableContactCheckFormat", "ShareableContactGetPubKey"} -> {"empty", "short", "garb", "valid", "over"}
    [] fn \in {"GroupIsValid", "GroupGetSigningPubKey", "GroupGetLinkKeyArray"} -> {"empty", "short", "garb", "valid", "over"}

-----------------------------------------------------------------------------
(* The property's "answered with an error" clause.  o is the projection of *)
(* the service state the request meets: [acct, gm, gc : BOOLEAN] = is the  *)
(* account group / gm / gc open.  MustErr is deliberately weak: it holds   *)
(* only where the request is malformed (a key that cannot be a key, a      *)
(* missing sub-message, contradictory flags, undecodable bytes) or clearly *)
(* inapplicable (needs the account group and it is deactivated; names a    *)
(* group that is not open or unknown).  Everything else is left open.      *)

NeedsAccount == {"ServiceGetConfiguration", "ContactRequestReference", "ContactRequestDisable",
                 "ContactRequestEnable", "ContactRequestResetReference", "ShareContact",
                 "MultiMemberGroupCreate", "SystemInfo", "ContactRequestSend", "ContactRequestAccept",
                 "ContactRequestDiscard", "ContactBlock", "ContactUnblock", "MultiMemberGroupJoin",
                 "MultiMemberGroupLeave", "DebugListGroups", "VerifiedCredentialsList",
                 "CredentialVerificationServiceInitFlow"}
\* RPCs that work on an OPEN group context named by k
NeedsOpenGroup == {"ContactAliasKeySend", "MultiMemberGroupAliasResolverDisclose",
                   "MultiMemberGroupInvitationCreate", "AppMetadataSend", "AppMessageSend",
                   "GroupMetadataList", "GroupMessageList", "DebugInspectGroupStore", "OutOfStoreSeal",
                   "ReplicationServiceRegisterGroup"}
IsOpen(k, o) == (k = "acct" /\ o.acct) \/ (k = "gm" /\ o.gm) \/ (k = "gc" /\ o.gc)

MustErr(rpc, a, o) ==
  \/ rpc \in NeedsAccount /\ ~o.acct
  \/ rpc \in NeedsOpenGroup /\ ~IsOpen(a.k, o)
  \/ rpc \in {"ActivateGroup", "DeactivateGroup", "MultiMemberGroupLeave"} /\ a.k \in Malformed
  \/ rpc \in {"ActivateGroup", "MultiMemberGroupLeave"} /\ a.k \in {"garb", "unk"}
  \/ rpc = "GroupInfo" /\ (a.k \in Malformed \/ (a.p = "g" /\ a.k \in {"garb", "unk"}))
  \/ rpc \in ContactKeyed /\ a.k \in Malformed
  \/ rpc \in {"ContactRequestAccept", "ContactRequestDiscard", "ContactUnblock"} /\ a.k \in {"garb", "unk", "self"}
  \/ rpc = "ContactRequestSend" /\ (a.k \in Malformed \cup {"nomsg", "self"} \/ a.p \in {"nil", "short", "over"})
  \/ rpc = "DecodeContact" /\ a.p \in {"short", "garb", "over"}
  \/ rpc = "MultiMemberGroupJoin" /\ a.p \in {"nomsg", "emptymsg", "badsig", "garb", "nopk"}
  \/ rpc \in ListRPC /\ a.p \in {"bothnow", "idnow", "revopen", "garbid", "unkid"}
  \/ rpc = "DebugInspectGroupStore" /\ a.p = "undef"
  \/ rpc = "CredentialVerificationServiceInitFlow" /\ a.p \in {"nil", "garb"}
  \/ rpc = "CredentialVerificationServiceCompleteFlow" /\ a.p \in {"empty", "garb"}
  \/ rpc = "ReplicationServiceRegisterGroup" /\ a.p \in {"notoken", "noserver"}
  \/ rpc = "OutOfStoreReceive" /\ a.p # "valid"
  \/ rpc = "OutOfStoreSeal" /\ a.p \in {"nil", "garb", "unkcid"}

HelperMustErr(fn, c) ==
  \/ fn = "AESGCMDecrypt" /\ c # "valid"
  \/ fn = "AESGCMEncrypt" /\ c = "badkey"
  \/ fn = "AESCTRStream" /\ c # "valid"
  \/ fn \in {"KeySliceToArray", "NonceSliceToArray"} /\ c # "valid"
  \/ fn = "PublicKeyToCurve25519" /\ c # "valid"
  \/ fn \in {"ShareableContactCheckFormat", "ShareableContactGetPubKey"} /\ c \in {"empty", "short", "over"}
  \/ fn = "GroupIsValid" /\ c = "garb"
=============================================================================
