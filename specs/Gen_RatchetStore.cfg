SPECIFICATION GSpec
CONSTANTS
  Dev = {"d1", "R"}
  Senders = {"d1"}
  Rcvs = {"R"}
  OwnOpen = TRUE
  Thr = {}
  D0 = "d1"
  MsgPerThr = 0
  KeyNames = {"accountSK", "deviceSK"}
  JoinKeys = {"accountSK", "deviceSK"}
  W = 2
  N = 1
  MaxSent = 2
  MaxOps = 4
  MaxLen = 4
  MaxCrash = 0
  Batching = TRUE
  UseLock = TRUE
  CidFirst = TRUE
  EarlyReturn = FALSE
  MonoGE = TRUE
  InitJoined = TRUE
INVARIANTS Dump
CHECK_DEADLOCK FALSE
