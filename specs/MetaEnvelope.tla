---------------------------- MODULE MetaEnvelope ----------------------------
(***************************************************************************)
(* Group metadata envelopes (events.go, events_sig_checkers.go,            *)
(* store_metadata.go, store_metadata_index.go) as symbolic terms.          *)
(*                                                                         *)
(*   envelope  tm  = [ty, pd, sig, box, nonce]                             *)
(*     ty    event type written in GroupMetadata.EventType (or "Unknown")  *)
(*     pd    payload descriptor = the bytes of GroupMetadata.Payload:      *)
(*           [shape, dev, mem, msig, body, flip]                           *)
(*             shape  protocol message the bytes were marshalled from      *)
(*             dev    key named in its device_pk field   ("-" if none)     *)
(*             mem    key named in its member_pk field   ("-" if none)     *)
(*             msig   member signature [by, over, st] (member-device ann.) *)
(*             body   0/1: two different contents of the remaining fields  *)
(*             flip   a bit of the marshalled bytes was flipped afterwards *)
(*     sig   GroupMetadata.Sig = [by, over, st]: made by key `by` over the *)
(*           bytes of descriptor `over`; st = ok | flip | none             *)
(*     box   secretbox key: this group's secret "g", another group's       *)
(*           "other", or ciphertext bits flipped "flip"                    *)
(*     nonce ok | flip                                                     *)
(*                                                                         *)
(* Keys: devA memA (adversary = a member of the group who knows the group  *)
(* secret), devV memV (an honest member), grp (group private key: held by  *)
(* the adversary iff Creator).  The adversary builds envelopes from honest *)
(* ones (its own or observed ones of V) by the forging steps of DESIGN.md  *)
(* appendix C; the receiver is openGroupEnvelope + the metadata index +    *)
(* the two emitters.                                                       *)
(***************************************************************************)
EXTENDS Integers, FiniteSets, Sequences, TLC

CONSTANTS Creator,     \* BOOLEAN: the adversary created the group (holds "grp")
          MaxMut,      \* forging steps per envelope
          MaxDeliver,  \* envelopes delivered per behaviour
          TypeSel,     \* event types used for honest events / re-typing (bounds the search)
          CopyTypes,   \* event types whose honest signatures are candidates for transplanting
          WeakType,    \* implementation choice: one entry of the signer table is overridden
          WeakRule     \*   (type, rule); today none: WeakType = "-"

MDA  == "GroupMemberDeviceAdded"
INIT == "MultiMemberGroupInitialMemberAnnounced"
DevTypes == { "GroupDeviceChainKeyAdded", "AccountGroupJoined", "AccountGroupLeft",
              "AccountContactRequestDisabled", "AccountContactRequestEnabled",
              "AccountContactRequestReferenceReset", "AccountContactRequestOutgoingEnqueued",
              "AccountContactRequestOutgoingSent", "AccountContactRequestIncomingReceived",
              "AccountContactRequestIncomingDiscarded", "AccountContactRequestIncomingAccepted",
              "AccountContactBlocked", "AccountContactUnblocked", "ContactAliasKeyAdded",
              "MultiMemberGroupAliasResolverAdded", "MultiMemberGroupAdminRoleGranted",
              "GroupMetadataPayloadSent", "GroupReplicating", "AccountVerifiedCredentialRegistered" }
Types == DevTypes \cup {MDA, INIT}
Unknown == "Unknown"

\* the signer table of the property statement ...
Rule(t) == IF t = MDA THEN "memdev" ELSE IF t = INIT THEN "grp" ELSE "dev"
\* ... and the one the implementation uses (eventTypesMapper)
ImplRule(t) == IF t = WeakType THEN WeakRule ELSE Rule(t)

VARIABLES flight,   \* <<>> or <<tm>>: the envelope the adversary is working on
          nmut, ndel,
          idx,      \* [devs: SUBSET (member x device), admins: SUBSET keys]  (metadata index)
          applied,  \* envelopes handed to the index handlers
          emitted,  \* envelopes handed to subscribers
          res
vars == <<flight, nmut, ndel, idx, applied, emitted, res>>
view == <<flight, nmut, ndel, idx, applied, emitted>>

-----------------------------------------------------------------------------
DevOf(who) == IF who = "A" THEN "devA" ELSE "devV"
MemOf(who) == IF who = "A" THEN "memA" ELSE "memV"
RealKey(k) == k \in {"devA", "devV", "memA", "memV", "grp"}
AdvKeys == {"devA", "memA"} \cup (IF Creator THEN {"grp"} ELSE {})

NoMSig == [by |-> "-", over |-> "-", st |-> "none"]

HonestPD(t, who, b) ==
  IF t = MDA THEN [shape |-> MDA, dev |-> DevOf(who), mem |-> MemOf(who),
                   msig |-> [by |-> MemOf(who), over |-> DevOf(who), st |-> "ok"], body |-> b, flip |-> FALSE]
  ELSE IF t = INIT THEN [shape |-> INIT, dev |-> "-", mem |-> DevOf(who), msig |-> NoMSig, body |-> b, flip |-> FALSE]
  ELSE [shape |-> t, dev |-> DevOf(who), mem |-> "-", msig |-> NoMSig, body |-> b, flip |-> FALSE]
HonestSigner(t, who) == IF t = INIT THEN "grp" ELSE DevOf(who)
Honest(t, who, b) == LET pd == HonestPD(t, who, b) IN
  [ty |-> t, pd |-> pd, sig |-> [by |-> HonestSigner(t, who), over |-> pd, st |-> "ok"], box |-> "g", nonce |-> "ok"]
\* who can have produced an honest event of type t: the initial announcement is the creator's
CanStart(t, who) == t = INIT => ((who = "A") <=> Creator)

\* key found at protobuf field number n of the payload bytes
FieldAt(pd, n) ==
  IF pd.shape = MDA THEN (IF n = 1 THEN pd.mem ELSE IF n = 2 THEN pd.dev ELSE "junk")
  ELSE IF pd.shape = INIT THEN (IF n = 1 THEN pd.mem ELSE "absent")
  ELSE IF n = 1 THEN pd.dev ELSE "junk"
\* field number of device_pk in the message of event type t (0: the message has none)
SignerPos(t) == IF t = MDA THEN 2 ELSE IF t = INIT THEN 0 ELSE 1

SigOK(k, pd, sig) == RealKey(k) /\ ~pd.flip /\ sig.st = "ok" /\ sig.by = k /\ sig.over = pd
MSigOK(pd) == /\ pd.shape = MDA /\ pd.msig.st = "ok" /\ RealKey(pd.mem)
              /\ pd.msig.by = pd.mem /\ pd.msig.over = pd.dev

Requires(rule, tm) ==
  CASE rule = "dev"     -> SigOK(FieldAt(tm.pd, SignerPos(tm.ty)), tm.pd, tm.sig)
    [] rule = "grp"     -> SigOK("grp", tm.pd, tm.sig)
    [] rule = "memdev"  -> MSigOK(tm.pd) /\ SigOK(FieldAt(tm.pd, 2), tm.pd, tm.sig)
    [] rule = "devonly" -> SigOK(FieldAt(tm.pd, 2), tm.pd, tm.sig)
    [] rule = "none"    -> TRUE
    [] OTHER            -> FALSE

BoxOK(tm) == tm.box = "g" /\ tm.nonce = "ok"
Known(t) == t \in Types
\* the payload bytes are those of a message of the claimed type (otherwise parsing is data dependent)
Definite(tm) == tm.pd.shape = tm.ty /\ ~tm.pd.flip

\* ---- the property's notions
CorrectlySigned(tm) == BoxOK(tm) /\ Known(tm.ty) /\ Definite(tm) /\ Requires(Rule(tm.ty), tm)
Forged(tm) == ~BoxOK(tm) \/ ~Known(tm.ty) \/ ~Requires(Rule(tm.ty), tm)
\* neither: a well-signed payload presented under another known type (the signature does not
\* cover the type); the statement of C03 says nothing about it

\* ---- what the implementation does
ImplMust(tm) == BoxOK(tm) /\ Known(tm.ty) /\ Definite(tm) /\ Requires(ImplRule(tm.ty), tm)
ImplCant(tm) == ~BoxOK(tm) \/ ~Known(tm.ty) \/ ~Requires(ImplRule(tm.ty), tm)
Outcomes(tm) == IF ImplMust(tm) THEN {TRUE} ELSE IF ImplCant(tm) THEN {FALSE} ELSE BOOLEAN

ApplyIdx(ix, tm) ==
  IF tm.ty = MDA THEN
    LET m == FieldAt(tm.pd, 1)  d == FieldAt(tm.pd, 2) IN
      IF RealKey(m) /\ RealKey(d) /\ ~(\E p \in ix.devs : p[2] = d)
        THEN [ix EXCEPT !.devs = @ \cup {<<m, d>>}] ELSE ix
  ELSE IF tm.ty = INIT THEN
    LET m == FieldAt(tm.pd, 1) IN IF RealKey(m) THEN [ix EXCEPT !.admins = @ \cup {m}] ELSE ix
  ELSE ix

-----------------------------------------------------------------------------
Init == /\ flight = <<>> /\ nmut = 0 /\ ndel = 0
        /\ idx = [devs |-> {}, admins |-> {}] /\ applied = {} /\ emitted = {}
        /\ res = [ok |-> TRUE]

Work(tm) == /\ flight' = <<tm>> /\ UNCHANGED <<ndel, idx, applied, emitted, res>>

\* an honest event: the adversary's own, or one of V's that it saw on the log
Start(t, who) == /\ flight = <<>> /\ ndel < MaxDeliver /\ CanStart(t, who)
                 /\ nmut' = 0 /\ Work(Honest(t, who, 0))

Cur == flight[1]
Forge(tm) == flight # <<>> /\ nmut < MaxMut /\ nmut' = nmut + 1 /\ tm # Cur /\ Work(tm)
Own(sig) == sig.st = "ok" /\ sig.by \in AdvKeys
\* the adversary signs again after editing its own event; V's signature stays what it was
Resigned(sig, pd) == IF Own(sig) THEN [sig EXCEPT !.over = pd] ELSE sig

\* signature by a key the adversary holds (another device / the member key / the group key)
ResignBy(k) == /\ k \in AdvKeys /\ ~Cur.pd.flip
               /\ Forge([Cur EXCEPT !.sig = [by |-> k, over |-> Cur.pd, st |-> "ok"]])
\* signer / member field replaced after signing
SwapDev == /\ Cur.pd.dev # "-"
           /\ Forge([Cur EXCEPT !.pd.dev = IF @ = "devA" THEN "devV" ELSE "devA"])
SwapMem == /\ Cur.pd.mem # "-"
           /\ Forge([Cur EXCEPT !.pd.mem = CASE @ = "memA" -> "memV" [] @ = "memV" -> "memA"
                                                [] @ = "devA" -> "devV" [] OTHER -> "devA"])
FlipPayload == ~Cur.pd.flip /\ Forge([Cur EXCEPT !.pd.flip = TRUE])
FlipSig == Cur.sig.st = "ok" /\ Forge([Cur EXCEPT !.sig.st = "flip"])
DropSig == Cur.sig.st # "none" /\ Forge([Cur EXCEPT !.sig = [by |-> "none", over |-> Cur.pd, st |-> "none"]])
\* signature of another event of the same signer (same type other content, or another type)
SignerWho == IF Cur.sig.by \in {"devA", "memA"} THEN "A" ELSE "V"
CopySig == /\ Cur.sig.st = "ok" /\ ~Cur.pd.flip
           /\ \E pd2 \in {[Cur.pd EXCEPT !.body = 1 - @]} \cup {HonestPD(t, SignerWho, 0) : t \in CopyTypes} :
                 pd2 # Cur.pd /\ Forge([Cur EXCEPT !.sig.over = pd2])
\* unknown type number / known type carrying another type's payload
SetType(t) == t \in (TypeSel \cup {Unknown}) /\ t # Cur.ty /\ Forge([Cur EXCEPT !.ty = t])
SetBox(b) == Cur.box = "g" /\ b \in {"other", "flip"} /\ Forge([Cur EXCEPT !.box = b])
FlipNonce == Cur.nonce = "ok" /\ Forge([Cur EXCEPT !.nonce = "flip"])
\* member-device announcement: member signature by another member / over another device / broken
MSigMut(ms) == /\ Cur.pd.shape = MDA /\ ms # Cur.pd.msig
               /\ LET pd2 == [Cur.pd EXCEPT !.msig = ms] IN
                    Forge([Cur EXCEPT !.pd = pd2, !.sig = Resigned(Cur.sig, pd2)])
MSigForgeries == \/ MSigMut([by |-> "memA", over |-> Cur.pd.dev, st |-> "ok"])
                 \/ MSigMut([by |-> "memV", over |-> "devV", st |-> "ok"])   \* observed in V's announcement
                 \/ Cur.pd.msig.st = "ok" /\ MSigMut([Cur.pd.msig EXCEPT !.st = "flip"])
                 \/ MSigMut(NoMSig)
\* "this device of mine belongs to V": claim V's member key, with own or V's copied member signature
ClaimMember(copy) ==
  /\ Cur.pd.shape = MDA /\ Cur.pd.mem = "memA" /\ Own(Cur.sig)
  /\ LET pd2 == [Cur.pd EXCEPT !.mem = "memV",
                               !.msig = IF copy THEN [by |-> "memV", over |-> "devV", st |-> "ok"] ELSE @] IN
       Forge([Cur EXCEPT !.pd = pd2, !.sig = Resigned(Cur.sig, pd2)])

Mutate == /\ flight # <<>> /\ nmut < MaxMut
          /\ \/ \E k \in AdvKeys : ResignBy(k)
             \/ SwapDev \/ SwapMem \/ FlipPayload \/ FlipSig \/ DropSig \/ CopySig
             \/ \E t \in TypeSel \cup {Unknown} : SetType(t)
             \/ \E b \in {"other", "flip"} : SetBox(b)
             \/ FlipNonce \/ MSigForgeries \/ \E c \in BOOLEAN : ClaimMember(c)

\* the receiver: openGroupEnvelope, then index handlers and emitters for what it returned
Deliver(tm, ok) ==
  /\ ok \in Outcomes(tm)
  /\ IF ok THEN /\ applied' = applied \cup {tm} /\ emitted' = emitted \cup {tm}
                /\ idx' = ApplyIdx(idx, tm)
           ELSE UNCHANGED <<idx, applied, emitted>>
  /\ res' = [ok |-> ok]

DeliverFlight == /\ flight # <<>> /\ \E ok \in BOOLEAN : Deliver(Cur, ok)
                 /\ flight' = <<>> /\ ndel' = ndel + 1 /\ UNCHANGED nmut

Next == (\E t \in TypeSel, who \in {"A", "V"} : Start(t, who)) \/ Mutate \/ DeliverFlight
Spec == Init /\ [][Next]_vars

-----------------------------------------------------------------------------
TypeOK == /\ Len(flight) <= 1 /\ nmut \in 0..MaxMut /\ ndel \in 0..MaxDeliver
          /\ idx.admins \subseteq {"devA", "devV", "memA", "memV", "grp"}

\* C03: only correctly signed events reach group state and subscribers
Sound == \A e \in applied \cup emitted : ~Forged(e)
\* the index never maps a device to a member that did not sign for it, and admins are announced by the group key
IdxSound == /\ \A p \in idx.devs : \E e \in applied : e.ty = MDA /\ ~Forged(e) /\ e.pd.mem = p[1] /\ e.pd.dev = p[2]
            /\ (~Creator => idx.admins \subseteq {"devV"})
\* every correctly signed event is accepted; a rejected event leaves the state unchanged
Complete == [][(flight # <<>> /\ flight' = <<>> /\ CorrectlySigned(flight[1])) => res'.ok]_vars
Unchanged == [][(flight # <<>> /\ flight' = <<>> /\ ~res'.ok) => (idx' = idx /\ applied' = applied /\ emitted' = emitted)]_vars
=============================================================================
