SPECIFICATION TSpec
CONSTANTS
  Creator = TRUE
  MaxMut = 2
  MaxDeliver = 100000
  TypeSel = {}
  CopyTypes = {}
  WeakType = "-"
  WeakRule = "none"
INVARIANTS Sound
CONSTRAINT Mark
POSTCONDITION Accepted
CHECK_DEADLOCK FALSE
