SPECIFICATION MSpec
CONSTANTS
  Dev = {"d1", "d2", "d3"}
  W = 2
  N = 2
CONSTRAINT Mark
POSTCONDITION Accepted
CHECK_DEADLOCK FALSE
