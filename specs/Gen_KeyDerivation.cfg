SPECIFICATION GSpec
CONSTANTS
  Stores = {"S1", "S2", "S3"}
  Groups = {"g1"}
  MaxOps = 4
  MaxKey = 14
  CacheByPeer = TRUE
  CheckExists = TRUE
  CheckEqual = TRUE
  MemberFromProof = TRUE
INVARIANTS Dump
CHECK_DEADLOCK FALSE
