SPECIFICATION MSpec
CONSTANTS
  Contacts = {"c1", "c2", "c3"}
CONSTRAINT Mark
POSTCONDITION Accepted
CHECK_DEADLOCK FALSE
