---------------------------- MODULE GenSealSched ----------------------------
(* Schedule generation for C09: the seal threads of RatchetStore WITHOUT the   *)
(* message mutex (UseLock = FALSE); every interleaving of their steps is a     *)
(* behaviour; complete ones are printed with a flag telling whether the        *)
(* lock-free model hands out a counter twice under that schedule - "the        *)
(* schedules worth trying" on the real code, where the datastore gates impose  *)
(* them (a thread that waits for the mutex simply does not move).              *)
EXTENDS RatchetStore, Json

VARIABLES h
gvars == <<vars, h>>

Rec(a, t) == h' = Append(h, [act |-> a, s |-> t])
GInit == Init /\ h = <<>>
GNext == \E t \in Thr :
           \/ TBegin(t) /\ Rec("begin", t)
           \/ TGet1(t) /\ Rec("get1", t)
           \/ TGet2(t) /\ Rec("get2", t)
           \/ TPutPre(t) /\ Rec("putpre", t)
           \/ TGet3(t) /\ Rec("get3", t)
           \/ TPutCk(t) /\ Rec("putck", t)
           \/ TRet(t) /\ Rec("ret", t)
GSpec == GInit /\ [][GNext]_gvars

Complete == \A t \in Thr : thr[t].st = "done"
Dump == Complete => PrintT(<<"SCHED", ToJson([steps |-> h, dup |-> (dupl[D0] # {})])>>)
=============================================================================
