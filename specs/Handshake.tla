----------------------------- MODULE Handshake -----------------------------
(***************************************************************************)
(* internal/handshake (request.go / response.go / handshake.go) as used by *)
(* contact_request_manager.go: the 5-message contact-request handshake     *)
(*                                                                         *)
(*   1. req -> rsp   a                       (HelloPayload)                *)
(*   2. rsp -> req   b                       (HelloPayload)                *)
(*   3. req -> rsp   box[a.b|a.B](A, sig[A](a.b))                          *)
(*   4. rsp -> req   box[a.b|A.B](sig[B](a.b))                             *)
(*   5. req -> rsp   ok                                                    *)
(*                                                                         *)
(* Up to three honest sessions (slots), each a requester or a responder    *)
(* step machine owned by an honest account A or B.  The network is the     *)
(* Dolev-Yao intruder: it owns account E (a legitimate target / requester  *)
(* of honest sessions), a foreign-typed identity F (RSA / secp256k1 /      *)
(* ECDSA), an ephemeral key pair "ei", and the degenerate point "low"      *)
(* with DH(x, low) = Zero for every x.  Every frame an honest session      *)
(* reads is chosen by the intruder: a replay of any frame emitted so far   *)
(* by any session (cross-session replay, reflection, role confusion), a    *)
(* frame built from its knowledge, or a corrupted frame (c = TRUE: bit     *)
(* flip / truncation / oversize / wrong frame type; the driver enumerates  *)
(* the concrete corruptions).                                              *)
(*                                                                         *)
(* Symbolic crypto.  Own ephemeral of slot i is OwnEph[i].  Shared secrets *)
(* are pairs: Sh(x,y) for ephemeral x ephemeral, EA(e,a) for ephemeral x   *)
(* account key, AK(a,b) for account x account; box keys are                *)
(* K3(Sh, EA) = H(a.b | a.B) and K4(Sh, AK) = H(a.b | A.B); a proof is     *)
(* <<signer, Sh>>.  A box emitted by an honest session is a function of    *)
(* that session's state, so the state is just the session records.         *)
(*                                                                         *)
(* Impl choice CheckLowOrder: does the code reject a peer ephemeral whose  *)
(* X25519 result is the all-zero value?  (Tree as found: box.Precompute on *)
(* whatever 32 bytes arrive, i.e. FALSE; TRUE since the fix.  Scripts are  *)
(* always generated from the FALSE model so that the attack catalogue      *)
(* exists either way; the conformance pass observes which value holds.)    *)
(***************************************************************************)
EXTENDS Naturals, FiniteSets, Sequences, TLC

CONSTANTS S1, S2, S3,      \* allowed descriptors of slot 1..3 (sets of descriptor names)
          Sorted,          \* TRUE: only configurations with non-decreasing descriptor index (slot symmetry)
          CheckLowOrder,   \* Impl.checkLowOrder
          Junk             \* TRUE: the intruder may corrupt replayed frames (c = TRUE)

Slots == 1..3
OwnEph == <<"e1", "e2", "e3">>

\* descriptor name -> <<role, owner, target>>;  W = a key nobody holds (wrong target key)
DescrNames == <<"none", "rAB", "rAE", "rAW", "rBA", "rBE", "rBW", "sA", "sB">>
Descr == [none |-> <<"none", "-", "-">>,
          rAB |-> <<"req", "A", "B">>, rAE |-> <<"req", "A", "E">>, rAW |-> <<"req", "A", "W">>,
          rBA |-> <<"req", "B", "A">>, rBE |-> <<"req", "B", "E">>, rBW |-> <<"req", "B", "W">>,
          sA  |-> <<"rsp", "A", "-">>, sB  |-> <<"rsp", "B", "-">>]
DIdx(n) == CHOOSE k \in 1..Len(DescrNames) : DescrNames[k] = n
\* "none" sorts last so that absent slots are the trailing ones
DKey(n) == IF n = "none" THEN 99 ELSE DIdx(n)

Honest == {"A", "B"}
Claimable == {"A", "B", "E", "F"}       \* account keys the intruder can put into a step-3 box

VARIABLES sess,   \* [Slots -> [role, owner, target, step, fail, hs, pe, pa]]
          res     \* last action and its observable outcome: [s, kind, src, c, out, key]
vars == <<sess, res>>
view == sess

Role(i) == sess[i].role
Owner(i) == sess[i].owner
Target(i) == sess[i].target
IsReq(i) == Role(i) = "req"
IsRsp(i) == Role(i) = "rsp"
Live(i) == Role(i) # "none" /\ ~sess[i].fail /\ sess[i].step < 5

-----------------------------------------------------------------------------
\* symbolic Diffie-Hellman
Rank == [e1 |-> 1, e2 |-> 2, e3 |-> 3, ei |-> 4, low |-> 5, none |-> 6, ex |-> 7,
         A |-> 11, B |-> 12, E |-> 13, F |-> 14, W |-> 15]
Pair(x, y) == IF Rank[x] <= Rank[y] THEN <<x, y>> ELSE <<y, x>>
Zero == <<"zero", "zero">>
Sh(x, y) == IF "low" \in {x, y} THEN Zero ELSE Pair(x, y)
EA(e, a) == IF e = "low" THEN Zero ELSE <<e, a>>
AK(a, b) == Pair(a, b)
K3(sh, ea) == <<"k3", sh, ea>>
K4(sh, ak) == <<"k4", sh, ak>>

\* what the intruder can compute: it holds the private halves of ei, E (and F, which is
\* not an Ed25519 key and has no X25519 form)
CanSh(x, y) == Sh(x, y) = Zero \/ "ei" \in {x, y}
CanEA(e, a) == e \in {"low", "ei"} \/ a = "E"
CanAK(a, b) == "E" \in {a, b}

ShOf(i) == Sh(OwnEph[i], sess[i].pe)
\* the step-3 box requester i emitted (defined once it reached step 3)
Box3(i) == [key |-> K3(ShOf(i), EA(OwnEph[i], Target(i))), acct |-> Owner(i), pf |-> <<Owner(i), ShOf(i)>>]
\* the step-4 box responder i emitted (defined once it reached step 4)
Box4(i) == [key |-> K4(ShOf(i), AK(sess[i].pa, Owner(i))), pf |-> <<Owner(i), ShOf(i)>>]
Sent3(i) == IsReq(i) /\ sess[i].step >= 3
Sent4(i) == IsRsp(i) /\ sess[i].step >= 4
Open3(i) == Sent3(i) /\ CanSh(OwnEph[i], sess[i].pe) /\ CanEA(OwnEph[i], Target(i))
Open4(i) == Sent4(i) /\ CanSh(OwnEph[i], sess[i].pe) /\ CanAK(sess[i].pa, Owner(i))

\* ephemerals the intruder can put into a hello ("ex": a point whose discrete log nobody knows,
\* e.g. an honest ephemeral with some bits flipped)
KnownEph == {"ei", "low", "ex"} \cup {OwnEph[i] : i \in {j \in Slots : sess[j].hs}}
\* proofs the intruder can put into a box: its own signature, or one extracted from a box it could open
PfSrc == {<<"own", 0>>} \cup {<<"x3", j>> : j \in {k \in Slots : Open3(k)}}
                        \cup {<<"x4", j>> : j \in {k \in Slots : Open4(k)}}
PfTerm(p, acct, sh) == IF p[1] = "own" THEN <<IF acct \in {"E", "F"} THEN acct ELSE "E", sh>>
                       ELSE IF p[1] = "x3" THEN Box3(p[2]).pf ELSE Box4(p[2]).pf

BadPoint(x) == CheckLowOrder /\ x = "low"

-----------------------------------------------------------------------------
NewSess(n) == [role |-> Descr[n][1], owner |-> Descr[n][2], target |-> Descr[n][3],
               step |-> 0, fail |-> FALSE, hs |-> FALSE, pe |-> "none", pa |-> "-"]
Init == /\ \E n1 \in S1, n2 \in S2, n3 \in S3 :
             /\ Sorted => (DKey(n1) <= DKey(n2) /\ DKey(n2) <= DKey(n3))
             /\ sess = <<NewSess(n1), NewSess(n2), NewSess(n3)>>
        /\ res = [s |-> 0, kind |-> "-", src |-> 0, c |-> FALSE, out |-> "-", key |-> "-"]

Out(i, kind, src, c, o, k) == res' = [s |-> i, kind |-> kind, src |-> src, c |-> c, out |-> o, key |-> k]
Fail(i, kind, src, c) == /\ sess' = [sess EXCEPT ![i].fail = TRUE]
                         /\ Out(i, kind, src, c, "fail", "-")
\* slot whose own ephemeral is x (0: the intruder's or the degenerate one)
EphSrc(x) == IF x \in {"e1", "e2", "e3"} THEN CHOOSE j \in Slots : OwnEph[j] = x ELSE 0

\* requester i starts: sends its hello (step 1)
Start(i) == /\ IsReq(i) /\ Live(i) /\ sess[i].step = 0
            /\ sess' = [sess EXCEPT ![i].step = 1, ![i].hs = TRUE]
            /\ Out(i, "start", 0, FALSE, "frame", "-")

\* a hello carrying ephemeral x reaches session i (step 1 for a responder, step 2 for a requester)
Hello(i, x, c) ==
  /\ Live(i) /\ x \in KnownEph
  /\ \/ IsReq(i) /\ sess[i].step = 1
     \/ IsRsp(i) /\ sess[i].step = 0
  /\ (c => Junk /\ x \notin {"ei", "low", "ex"})
  /\ IF c THEN Fail(i, "hello", EphSrc(x), c)
     ELSE IF BadPoint(x)
       \* the shared secret is computed (and refused) after a responder has sent its own hello
       THEN /\ sess' = [sess EXCEPT ![i].fail = TRUE, ![i].hs = @ \/ IsRsp(i)]
            /\ Out(i, "hello", EphSrc(x), c, "fail", "-")
     ELSE /\ sess' = [sess EXCEPT ![i].pe = x, ![i].step = @ + 2, ![i].hs = TRUE]
          /\ Out(i, "hello", EphSrc(x), c, "frame", "-")

\* a step-3 box reaches responder i: replay of requester src's box (src > 0) or a box the
\* intruder seals under this session's key around (acct, proof pf)
Auth(i, src, acct, pf, c) ==
  /\ IsRsp(i) /\ Live(i) /\ sess[i].step = 2
  /\ (c => Junk /\ src > 0)
  /\ LET me == K3(ShOf(i), EA(sess[i].pe, Owner(i)))
         bx == IF src > 0 THEN Box3(src)
               ELSE [key |-> me, acct |-> acct, pf |-> PfTerm(pf, acct, ShOf(i))]
     IN /\ IF src > 0 THEN Sent3(src) /\ acct = "-" /\ pf = <<"-", 0>>
                      ELSE /\ CanSh(OwnEph[i], sess[i].pe) /\ CanEA(sess[i].pe, Owner(i))
                           /\ acct \in Claimable /\ pf \in PfSrc
        \* opens under this session's key, signature of the claimed account over this session's
        \* shared secret, and the claimed key converts to X25519 for the step-4 box
        /\ IF ~c /\ bx.key = me /\ bx.pf = <<bx.acct, ShOf(i)>> /\ bx.acct # "F"
             THEN /\ sess' = [sess EXCEPT ![i].pa = bx.acct, ![i].step = 4]
                  /\ Out(i, "auth", src, c, "frame", "-")
             ELSE Fail(i, "auth", src, c)

\* a step-4 box reaches requester i: replay of responder src's box or an intruder-built one
Accept(i, src, pf, c) ==
  /\ IsReq(i) /\ Live(i) /\ sess[i].step = 3
  /\ (c => Junk /\ src > 0)
  /\ LET me == K4(ShOf(i), AK(Owner(i), Target(i)))
         bx == IF src > 0 THEN Box4(src) ELSE [key |-> me, pf |-> PfTerm(pf, "E", ShOf(i))]
     IN /\ IF src > 0 THEN Sent4(src) /\ pf = <<"-", 0>>
                      ELSE /\ CanSh(OwnEph[i], sess[i].pe) /\ CanAK(Owner(i), Target(i))
                           /\ pf \in PfSrc
        /\ IF ~c /\ bx.key = me /\ bx.pf = <<Target(i), ShOf(i)>>
             THEN /\ sess' = [sess EXCEPT ![i].step = 5]
                  /\ Out(i, "accept", src, c, "done", "-")
             ELSE Fail(i, "accept", src, c)

\* the acknowledge reaches responder i: v = "t" / "f" (success flag) or "eof" (missing);
\* src > 0: the frame is requester src's own acknowledge
Ack(i, src, v, c) ==
  /\ IsRsp(i) /\ Live(i) /\ sess[i].step = 4
  /\ (c => Junk /\ src > 0)
  /\ IF src > 0 THEN IsReq(src) /\ sess[src].step = 5 /\ v = "t" ELSE v \in {"t", "f", "eof"}
  /\ IF ~c /\ v = "t"
       THEN /\ sess' = [sess EXCEPT ![i].step = 5]
            /\ Out(i, "ack", src, c, "done", sess[i].pa)
       ELSE Fail(i, "ack", src, c)

\* the intruder closes the stream of session i (drop of the next message, at any point)
Drop(i) == Live(i) /\ Fail(i, "drop", 0, FALSE)

\* is there any frame the intruder could deliver to session i in this state?
CanForge3(i) == CanSh(OwnEph[i], sess[i].pe) /\ CanEA(sess[i].pe, Owner(i))
CanForge4(i) == CanSh(OwnEph[i], sess[i].pe) /\ CanAK(Owner(i), Target(i))
CanDeliver(i) ==
  IF IsReq(i)
    THEN \/ sess[i].step \in {0, 1}
         \/ (sess[i].step = 3 /\ ((\E j \in Slots : Sent4(j)) \/ CanForge4(i)))
    ELSE \/ sess[i].step \in {0, 4}
         \/ (sess[i].step = 2 /\ ((\E j \in Slots : Sent3(j)) \/ CanForge3(i)))

Next == \E i \in Slots :
          \/ Start(i) \/ Drop(i)
          \/ \E x \in {"e1", "e2", "e3", "ei", "low", "ex"}, c \in BOOLEAN : Hello(i, x, c)
          \/ \E src \in 1..3, c \in BOOLEAN : Auth(i, src, "-", <<"-", 0>>, c)
          \/ \E acct \in Claimable, pf \in PfSrc : Auth(i, 0, acct, pf, FALSE)
          \/ \E src \in 1..3, c \in BOOLEAN : Accept(i, src, <<"-", 0>>, c)
          \/ \E pf \in PfSrc : Accept(i, 0, pf, FALSE)
          \/ \E src \in 1..3, c \in BOOLEAN : Ack(i, src, "t", c)
          \/ \E v \in {"t", "f", "eof"} : Ack(i, 0, v, FALSE)
Spec == Init /\ [][Next]_vars

-----------------------------------------------------------------------------
TypeOK == \A i \in Slots : /\ sess[i].step \in 0..5
                           /\ sess[i].pe \in {"none", "e1", "e2", "e3", "ei", "low", "ex"}
                           /\ sess[i].pa \in Claimable \cup {"-"}

RspDone(i) == IsRsp(i) /\ sess[i].step = 5
ReqDone(i) == IsReq(i) /\ sess[i].step = 5
\* requester r and responder s ran against each other: same ephemeral pair
SamePair(r, s) == sess[s].pe = OwnEph[r] /\ sess[r].pe = OwnEph[s]

\* C06, responder side: a reported honest key was proved in this very session (a session its
\* owner runs, towards this responder's account, with this ephemeral pair)
RespAuth == \A s \in Slots : RspDone(s) =>
              \/ sess[s].pa \notin Honest
              \/ \E r \in Slots : /\ IsReq(r) /\ Owner(r) = sess[s].pa /\ Target(r) = Owner(s)
                                    /\ sess[r].step >= 3 /\ SamePair(r, s)
\* C06, requester side: success only against an endpoint holding sk(target)
ReqAuth == \A r \in Slots : ReqDone(r) =>
              \/ Target(r) = "E"
              \/ \E s \in Slots : IsRsp(s) /\ Owner(s) = Target(r) /\ sess[s].step >= 4 /\ SamePair(r, s)
\* stronger (not claimed by C06, holds for the protocol with the point check): the responder the
\* requester succeeded against believes it talked to this requester
Agreement == \A r \in Slots : (ReqDone(r) /\ Target(r) # "E") =>
                \E s \in Slots : IsRsp(s) /\ Owner(s) = Target(r) /\ sess[s].pa = Owner(r) /\ SamePair(r, s)
\* no honest session ever computes on the degenerate point when the check is on
NoZero == CheckLowOrder => \A i \in Slots : sess[i].pe # "low"

\* C06, completion: a frame relayed unmodified between a requester and the responder it
\* targets, inside the session they run against each other, is accepted (and the responder
\* learns exactly the requester's key).  Evaluated on every transition: res' is the last action.
Matched(r, s) == IsReq(r) /\ IsRsp(s) /\ Target(r) = Owner(s) /\ SamePair(r, s)
CompletionOK ==
  LET i == res.s  j == res.src IN
    (res.src > 0 /\ ~res.c) =>
      /\ (res.kind = "hello") => res.out # "fail"
      /\ (res.kind = "auth" /\ Matched(j, i)) => (res.out = "frame" /\ sess[i].pa = Owner(j))
      /\ (res.kind = "accept" /\ Matched(i, j) /\ sess[j].pa = Owner(i)) => res.out = "done"
      /\ (res.kind = "ack" /\ Matched(j, i)) => (res.out = "done" /\ res.key = sess[i].pa)
Completion == [][CompletionOK']_vars
=============================================================================
