----------------------------- MODULE MonAnnounce -----------------------------
(***************************************************************************)
(* Property monitor for C05 (a) over recorded RegisterChainKey attempts on *)
(* real secret stores.  Legit is computed from facts about the inputs the  *)
(* driver established on the real key bytes (never from the model):        *)
(*   holds  the opener's member public key for the group it opens under    *)
(*          equals the recipient key the announcement was sealed for       *)
(*   csend  the claimed sender key equals the sealing device's key         *)
(*   sameg  the group given to RegisterChainKey is the sealing group       *)
(*   tam    "none" or how the ciphertext was damaged                       *)
(* RegisterChainKey must succeed iff Legit; only then does the claimed     *)
(* device become "known"; and the key registered is the sender's chain key *)
(* at sealing time: the message sealed next opens (opens), the one sealed  *)
(* just before does not (past).                                            *)
(***************************************************************************)
EXTENDS Integers, Sequences, TLC, Json, IOUtils

TraceLog == ndJsonDeserialize(IOEnv.VERIF_TRACE)
VARIABLES l, nann
mvars == <<l, nann>>
Ev == TraceLog[l]
Has(f) == f \in DOMAIN Ev
Consume(e) == l <= Len(TraceLog) /\ Ev.ev = e /\ l' = l + 1

MReset == Consume("reset") /\ nann' = 0
MAnnounce == Consume("announce") /\ Ev.ok /\ nann' = nann + 1
MDamage == Consume("damage") /\ UNCHANGED nann
MRegister == /\ Consume("register") /\ nann = 1
             /\ LET legit == Ev.holds /\ Ev.csend /\ Ev.sameg /\ Ev.tam = "none" IN
                  /\ Ev.ok <=> legit
                  /\ Ev.after <=> (Ev.before \/ legit)
                  /\ (legit /\ ~Ev.before) => (Ev.opens /\ (Has("past") => ~Ev.past))
             /\ UNCHANGED nann
MNext == MReset \/ MAnnounce \/ MDamage \/ MRegister
MInit == l = 1 /\ nann = 0 /\ TLCSet(42, 1)
MSpec == MInit /\ [][MNext]_mvars

Mark == TLCSet(42, IF l > TLCGet(42) THEN l ELSE TLCGet(42))
Accepted == LET hw == TLCGet(42) IN
              IF hw = Len(TraceLog) + 1 THEN TRUE
              ELSE /\ PrintT(<<"REJECTED", ToJson([high |-> hw - 1, line |-> TraceLog[hw]])>>)
                   /\ FALSE
=============================================================================
