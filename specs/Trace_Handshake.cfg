SPECIFICATION TSpec
CONSTANTS
  S1 = {"none"}
  S2 = {"none"}
  S3 = {"none"}
  Sorted = FALSE
  CheckLowOrder = TRUE
  Junk = TRUE
CONSTRAINT Mark
POSTCONDITION Accepted
CHECK_DEADLOCK FALSE
