--------------------------- MODULE KeyDistribution ---------------------------
(***************************************************************************)
(* C05 (c): completeness of chain-key distribution in a multi-member group *)
(* (group_context.go, store_metadata.go, store_metadata_index.go,          *)
(* group.go).                                                              *)
(*                                                                         *)
(* Every device owns a replica of the group's metadata log.  Two kinds of  *)
(* entries matter:                                                         *)
(*   <<"A", d, m>>  GroupMemberDeviceAdded: device d of member m announces *)
(*                  itself (MetadataStore.AddDeviceToGroup)                *)
(*   <<"S", d, m>>  GroupDeviceChainKeyAdded: device d publishes its chain *)
(*                  key sealed for MEMBER m (MetadataStore.SendSecret)     *)
(* An entry's causal past is what its writer's replica held when it was    *)
(* written; entries travel between replicas in causal batches (Deliver, as *)
(* in GroupLog.tla: a head together with the part of its past the receiver *)
(* lacks).                                                                 *)
(*                                                                         *)
(* A device process follows GroupContext.ActivateGroupContext:             *)
(*   Start      subscribe to the store's GroupMetadataEvents (handler      *)
(*              goroutine runs from now on)                                *)
(*   Fill       fillMessageKeysHolderUsingPreviousData: register every     *)
(*              announcement addressed to the own member found in the log  *)
(*   List/SendOne  sendSecretsToExistingMembers: ListMembers() once, then  *)
(*              SendSecret(member) for each (in parallel with Fill)        *)
(*   Announce   AddDeviceToGroup; the call returns once the handler has    *)
(*              seen a MemberDeviceAdded of the own member (Returned)      *)
(*   Handle     handleGroupMetadataEvent for a queued MemberDeviceAdded:   *)
(*              SendSecret(announced member), and selfAnnounced            *)
(*   an announcement addressed to the own member that reaches a subscribed *)
(*   device is registered (RegisterChainKey) in the arrival step itself    *)
(* SendSecret(d, m) appends <<"S", d, m>> unless the index derived from    *)
(* d's own replica already contains one written by d itself for member m   *)
(* (sentSecrets: per MEMBER, own device only).  Chain keys are per DEVICE: *)
(* a second device of member m that joins later is served by the           *)
(* announcement already addressed to m (all devices of an account share    *)
(* the member key of the group).                                           *)
(*                                                                         *)
(* Abstractions: the secret store is known[d] = set of devices whose chain *)
(* key d registered; SendSecret's check-and-append is one step (the code   *)
(* may, under a race between the handler and sendSecretsToExistingMembers, *)
(* append the same announcement twice: same effect) and                    *)
(* sendSecretsToExistingMembers is not interleaved once it has listed the  *)
(* members; events the handler ignores (announcements for other members,   *)
(* own announcements) are not queued; the order of queued events is free.  *)
(* Reductions used by Next (each justified where it is defined): handler   *)
(* steps outside the parallel phase first; optionally (Eager) arrivals at  *)
(* devices past their parallel phase first.  Activation, history scan,     *)
(* member listing, announcement, the handler during the parallel phase and *)
(* every arrival before / during the parallel phase interleave freely.     *)
(*                                                                         *)
(* Impl* constants: TRUE = what the code does.  FALSE = a plausible        *)
(* different design that TLC shows to break completeness (vacuity guard    *)
(* and design-level explanation of the mutations the replay must catch).   *)
(***************************************************************************)
EXTENDS Naturals, FiniteSets, TLC

CONSTANTS M1, M2, M3, M4,    \* the devices of members m1 .. m4 (disjoint sets of names; {} = no such member)
          ImplHandlerSends,  \* handler sends the own secret to the member of every MemberDeviceAdded it sees
          ImplSendExisting,  \* activation sends the own secret to the members already listed
          ImplFill,          \* activation registers the announcements already in the log
          ImplSubscribeFirst,\* the subscription exists before Fill / List read the log
          ImplSentOwnOnly,   \* "already sent to m" counts announcements of the own device only
          ImplFilterMember,  \* recipient filter compares the destination with the own MEMBER key
          Eager,             \* exhaustive mode only: arrivals at a device that has left the parallel phase of its
                             \* activation are taken as soon as they are possible (see Next)
          Causal             \* TRUE: causal pasts are recorded and entries travel in causal batches (script
                             \* generation, conformance); FALSE: sound over-approximation for exhaustive checking -
                             \* any existing entry may arrive alone, in any order (a batch is a sequence of single
                             \* arrivals without a handler step in between), and only the entries the receiver's
                             \* behaviour depends on are tracked

Devs == M1 \cup M2 \cup M3 \cup M4
MemberOf == [d \in Devs |-> IF d \in M1 THEN "m1" ELSE IF d \in M2 THEN "m2" ELSE IF d \in M3 THEN "m3" ELSE "m4"]
Members == {MemberOf[d] : d \in Devs}
A(d) == <<"A", d, MemberOf[d]>>
S(d, m) == <<"S", d, m>>
Names == {A(d) : d \in Devs} \cup {S(d, m) : d \in Devs, m \in Members}

VARIABLES exists,   \* entries created so far
          past,     \* [Names -> SUBSET Names]: causal past of an existing entry
          have,     \* [Devs -> SUBSET Names]: the replica of every device
          pc,       \* [Devs -> {"off", "par", "wait", "done"}] ("wait": announced, waiting for selfAnnounced)
          sub,      \* [Devs -> BOOLEAN]: handler subscribed
          fillDone, listed,   \* [Devs -> BOOLEAN]
          todo,     \* [Devs -> SUBSET Members]: members still to be served by sendSecretsToExistingMembers
          pend,     \* [Devs -> SUBSET Names]: events queued for the handler
          selfAnn,  \* [Devs -> BOOLEAN]: selfAnnounced closed
          known     \* [Devs -> SUBSET Devs]: chain keys registered in the device's secret store
vars == <<exists, past, have, pc, sub, fillDone, listed, todo, pend, selfAnn, known>>

\* does the recipient filter of device d let an announcement addressed to member m through?
FilterOK(d, m) == ImplFilterMember /\ m = MemberOf[d]
\* An announcement the handler of d registers (RegisterChainKey): addressed to the own member, from another device.
\* Registration only adds to known[d], which no action reads: it commutes with every other action, so it is
\* folded into the step that makes the handler see the event (sound reduction; keeps the state space small).
Registers(d, e) == e[1] = "S" /\ e[2] # d /\ FilterOK(d, e[3])
\* the events that are queued for the handler of d: MemberDeviceAdded (the handler may append in reaction)
Queued(d, e) == e[1] = "A"

AlreadySent(d, m) == IF ImplSentOwnOnly THEN S(d, m) \in have[d]
                     ELSE \E x \in Devs : S(x, m) \in have[d]
\* d appends entry e; base = what stays queued for d's handler apart from e's own event
Write(d, e, base, subd) ==
  /\ exists' = exists \cup {e}
  /\ past' = [past EXCEPT ![e] = IF Causal THEN have[d] ELSE {}]
  /\ have' = [have EXCEPT ![d] = @ \cup {e}]
  /\ pend' = [pend EXCEPT ![d] = base \cup (IF subd /\ Queued(d, e) THEN {e} ELSE {})]
NoWrite(d, base) == /\ UNCHANGED <<exists, past, have>>
                     /\ pend' = [pend EXCEPT ![d] = base]
\* MetadataStore.SendSecret(member m) by device d
SendSecret(d, m, base) == IF AlreadySent(d, m) \/ S(d, m) \in exists
                          THEN NoWrite(d, base)
                          ELSE Write(d, S(d, m), base, sub[d])

\* entries whose presence in d's replica d's behaviour depends on
Matters(d, e) == e[1] = "A" \/ e[3] = MemberOf[d] \/ ~ImplSentOwnOnly

\* ------------------------------------------------------------ activation
Start(d) ==
  /\ pc[d] = "off"
  /\ pc' = [pc EXCEPT ![d] = "par"]
  /\ sub' = [sub EXCEPT ![d] = ImplSubscribeFirst]
  /\ fillDone' = [fillDone EXCEPT ![d] = ~ImplFill]
  /\ listed' = [listed EXCEPT ![d] = ~ImplSendExisting]
  \* exhaustive mode: whatever reached the replica before the activation arrives here, in one step (arrivals
  \* at a replica that is not active are invisible and commute with everything else)
  /\ IF Causal THEN UNCHANGED have
     ELSE \E X \in SUBSET {e \in exists \ have[d] : Matters(d, e)} : have' = [have EXCEPT ![d] = @ \cup X]
  /\ UNCHANGED <<exists, past, todo, pend, selfAnn, known>>
Fill(d) ==
  /\ pc[d] = "par" /\ ~fillDone[d]
  /\ fillDone' = [fillDone EXCEPT ![d] = TRUE]
  /\ known' = [known EXCEPT ![d] = @ \cup {x \in Devs \ {d} : \E m \in Members : S(x, m) \in have[d] /\ FilterOK(d, m)}]
  /\ UNCHANGED <<exists, past, have, pc, sub, listed, todo, pend, selfAnn>>
List(d) ==
  /\ pc[d] = "par" /\ ~listed[d]
  /\ listed' = [listed EXCEPT ![d] = TRUE]
  /\ todo' = [todo EXCEPT ![d] = {MemberOf[x] : x \in {y \in Devs : A(y) \in have[d]}}]
  /\ UNCHANGED <<exists, past, have, pc, sub, fillDone, pend, selfAnn, known>>
SendOne(d, m) ==
  /\ pc[d] = "par" /\ listed[d] /\ m \in todo[d]
  /\ todo' = [todo EXCEPT ![d] = @ \ {m}]
  /\ SendSecret(d, m, pend[d])
  /\ UNCHANGED <<pc, sub, fillDone, listed, selfAnn, known>>
Announce(d) ==
  /\ pc[d] = "par" /\ fillDone[d] /\ listed[d] /\ todo[d] = {}
  /\ sub' = [sub EXCEPT ![d] = TRUE]
  /\ IF A(d) \in have[d]
       THEN NoWrite(d, pend[d]) /\ pc' = [pc EXCEPT ![d] = "done"]
       ELSE Write(d, A(d), pend[d], TRUE) /\ pc' = [pc EXCEPT ![d] = "wait"]
  /\ UNCHANGED <<fillDone, listed, todo, selfAnn, known>>
\* ActivateGroupContext has returned (the wait on selfAnnounced is not a step of its own)
Returned(d) == pc[d] = "done" \/ (pc[d] = "wait" /\ selfAnn[d])

\* ------------------------------------------------------------ handler
Handle(d, e) ==
  /\ sub[d] /\ e \in pend[d]
  /\ selfAnn' = [selfAnn EXCEPT ![d] = @ \/ e[3] = MemberOf[d]]
  /\ IF ImplHandlerSends THEN SendSecret(d, e[3], pend[d] \ {e}) ELSE NoWrite(d, pend[d] \ {e})
  /\ UNCHANGED <<pc, sub, fillDone, listed, todo, known>>

\* ------------------------------------------------------------ replication
\* replica d joins entry e (held by some other replica) with the part of its causal past it lacks
Batch(d, e) == ({e} \cup past[e]) \ have[d]
Deliver(d, e) ==
  /\ e \in exists /\ e \notin have[d]
  /\ Causal \/ (Matters(d, e) /\ pc[d] # "off")
  /\ have' = [have EXCEPT ![d] = @ \cup Batch(d, e)]
  /\ pend' = [pend EXCEPT ![d] = @ \cup (IF sub[d] THEN {x \in Batch(d, e) : Queued(d, x)} ELSE {})]
  /\ known' = [known EXCEPT ![d] = @ \cup (IF sub[d] THEN {x[2] : x \in {y \in Batch(d, e) : Registers(d, y)}} ELSE {})]
  /\ UNCHANGED <<exists, past, pc, sub, fillDone, listed, todo, selfAnn>>

Internal(d) == \/ Fill(d) \/ List(d) \/ (\E m \in Members : SendOne(d, m)) \/ Announce(d)
               \/ \E e \in Names : Handle(d, e)
Env(d) == Start(d) \/ \E e \in Names : Deliver(d, e)

Init == /\ exists = {} /\ past = [e \in Names |-> {}] /\ have = [d \in Devs |-> {}]
        /\ pc = [d \in Devs |-> "off"] /\ sub = [d \in Devs |-> FALSE]
        /\ fillDone = [d \in Devs |-> FALSE] /\ listed = [d \in Devs |-> FALSE]
        /\ todo = [d \in Devs |-> {}] /\ pend = [d \in Devs |-> {}]
        /\ selfAnn = [d \in Devs |-> FALSE] /\ known = [d \in Devs |-> {}]
\* sendSecretsToExistingMembers runs to completion once it has listed the members (any order of the members):
\* its SendSecret calls are confluent with everything else (see the header), so nothing is interleaved
Busy == {d \in Devs : pc[d] = "par" /\ listed[d] /\ todo[d] # {}}
\* Outside the parallel phase of the activation a handler step commutes with every other step (its only
\* effects: selfAnnounced, and an append that nothing but "already sent" of the same device looks at) and the
\* invariants do not look at states with a queued event: the handler is given priority (sound reduction).
\* Likewise the arrival of a single entry at a device that is past the parallel phase (subscribed, history
\* scan and member listing done): it only adds to that replica, queues an event or registers a key; nothing
\* that any other step reads.  Any state in which everything is exchanged and the handlers are idle is
\* therefore reached as well when such arrivals are taken as soon as they are possible (Eager; used for the
\* larger groups; KnownSound and Closed are checked without it).
Ripe == {p \in Devs \X exists : p[2] \notin have[p[1]] /\ Matters(p[1], p[2]) /\ pc[p[1]] \in {"wait", "done"}}
Urgent == {d \in Devs : pc[d] # "par" /\ pend[d] # {}}
Next == IF Busy # {} THEN \E d \in Busy : \E m \in todo[d] : SendOne(d, m)
        ELSE IF Urgent # {} THEN LET d == CHOOSE x \in Urgent : TRUE IN \E e \in pend[d] : Handle(d, e)
        ELSE IF Eager /\ ~Causal /\ Ripe # {} THEN LET p == CHOOSE x \in Ripe : TRUE IN Deliver(p[1], p[2])
        ELSE \E d \in Devs : Internal(d) \/ Env(d)
Spec == Init /\ [][Next]_vars

-----------------------------------------------------------------------------
Announced == {d \in Devs : A(d) \in exists}
\* every announced device holds every entry that exists
AllExchanged == \A d \in Announced : \A e \in exists : (Causal \/ Matters(d, e)) => e \in have[d]
\* no activation in its parallel phase, no event queued
HandlersIdle == \A d \in Devs : pend[d] = {} /\ pc[d] # "par"
\* a device is locally quiet: nothing it could do without the environment
Quiet(d) == pend[d] = {} /\ (pc[d] = "off" \/ Returned(d))

\* C05 (c)
Completeness == (AllExchanged /\ HandlersIdle) =>
                   \A d1, d2 \in Announced : d1 # d2 => d2 \in known[d1]
\* keys come only from announcements addressed to the own member that the replica holds
KnownSound == \A d \in Devs : \A x \in known[d] : S(x, MemberOf[d]) \in have[d]
\* ActivateGroupContext returns: it never waits for an event that cannot come
NoHang == \A d \in Devs : (pc[d] = "wait" /\ pend[d] = {}) => selfAnn[d]
\* replicas are causally closed
Closed == \A d \in Devs : \A e \in have[d] : past[e] \subseteq have[d]
=============================================================================
