------------------------------ MODULE Ratchet ------------------------------
(***************************************************************************)
(* Receiver-side symmetric ratchet of pkg/secretstore                      *)
(* (secret_store_messages.go), one group, one receiving store, several     *)
(* sender devices.  Abstract state = what the receiver's datastore holds   *)
(* per sender device:                                                      *)
(*   ck   counter of the stored chain key (-1: device unknown)             *)
(*   pre  counters that have a precomputed message key                     *)
(*   cidk messages whose key is stored by CID (already opened via the log) *)
(*   refs half-open window [first,last) of push group references          *)
(* One action per exported call of the secret store; the order of the      *)
(* datastore writes inside a call is refined in RatchetStore.tla.          *)
(* Properties: C02 (order/duplication tolerance), C05b (an announcement    *)
(* made at counter a opens exactly the later messages), C14 (push path).   *)
(***************************************************************************)
EXTENDS Integers, FiniteSets, Sequences, TLC

CONSTANTS Dev,      \* sender devices
          W,        \* PreComputedKeysCount
          N,        \* PrecomputeOutOfStoreGroupRefsCount
          MaxSent   \* bound on messages per sender (model checking only)

VARIABLES sent,  \* [Dev -> Nat]  messages sealed so far by each sender
          anns,  \* [Dev -> SUBSET Nat] counters at which an announcement was produced
          ck, pre, cidk, refs,
          reg,   \* history: counter of the announcement that was registered first (-1)
          res    \* observable outcome of the last call

vars == <<sent, anns, ck, pre, cidk, refs, reg, res>>
store == <<ck, pre, cidk, refs>>
view == <<sent, anns, ck, pre, cidk, refs, reg>>

Window(x) == <<x - N, x + N>>
InRefs(d, k) == refs[d][1] <= k /\ k < refs[d][2]
Openable(d, k) == <<d, k>> \in cidk \/ k \in pre[d]
OpenedOf(d) == {k \in 1..sent[d] : <<d, k>> \in cidk}

Init == /\ sent = [d \in Dev |-> 0] /\ anns = [d \in Dev |-> {}]
        /\ ck = [d \in Dev |-> -1] /\ pre = [d \in Dev |-> {}] /\ cidk = {}
        /\ refs = [d \in Dev |-> <<0, 0>>] /\ reg = [d \in Dev |-> -1]
        /\ res = [ok |-> TRUE]

\* SealEnvelope on the sender's store: next counter
Seal(d) == /\ sent[d] < MaxSent
           /\ sent' = [sent EXCEPT ![d] = @ + 1]
           /\ res' = [ok |-> TRUE, k |-> sent[d] + 1]
           /\ UNCHANGED <<anns, ck, pre, cidk, refs, reg>>

\* GetShareableChainKey on the sender's store: announcement of the current counter
Announce(d) == /\ anns' = [anns EXCEPT ![d] = @ \cup {sent[d]}]
               /\ res' = [ok |-> TRUE, a |-> sent[d]]
               /\ UNCHANGED <<sent, ck, pre, cidk, refs, reg>>

\* RegisterChainKey on the receiver with the announcement made at counter a
Register(d, a) ==
  /\ a \in anns[d]
  /\ IF ck[d] = -1
       THEN /\ ck' = [ck EXCEPT ![d] = a + W]
            /\ pre' = [pre EXCEPT ![d] = (a + 1)..(a + W)]
            /\ refs' = [refs EXCEPT ![d] = Window(a + W)]
            /\ reg' = [reg EXCEPT ![d] = a]
       ELSE UNCHANGED <<ck, pre, refs, reg>>
  /\ res' = [ok |-> TRUE]
  /\ UNCHANGED <<sent, anns, cidk>>

\* OpenEnvelopeHeaders + OpenEnvelopePayload of message k of d, with its CID
Open(d, k) ==
  /\ k \in 1..sent[d]
  /\ IF <<d, k>> \in cidk
       THEN /\ res' = [ok |-> TRUE, d |-> d, k |-> k]
            /\ UNCHANGED <<ck, pre, cidk>>
       ELSE IF k \in pre[d]
         THEN /\ cidk' = cidk \cup {<<d, k>>}
              /\ pre' = [pre EXCEPT ![d] = (@ \ {k}) \cup {ck[d] + 1}]
              /\ ck' = [ck EXCEPT ![d] = @ + 1]
              /\ res' = [ok |-> TRUE, d |-> d, k |-> k]
         ELSE /\ res' = [ok |-> FALSE]
              /\ UNCHANGED <<ck, pre, cidk>>
  /\ UNCHANGED <<sent, anns, refs, reg>>

\* OpenOutOfStoreMessage of the push payload sealed for message k of d
Push(d, k) ==
  /\ k \in 1..sent[d]
  /\ IF InRefs(d, k) /\ Openable(d, k)
       THEN /\ res' = [ok |-> TRUE, d |-> d, k |-> k, already |-> (<<d, k>> \in cidk)]
            /\ pre' = [pre EXCEPT ![d] = @ \cup {ck[d] + 1}]
            /\ refs' = [refs EXCEPT ![d] = Window(k)]
       ELSE /\ res' = [ok |-> FALSE]
            /\ UNCHANGED <<pre, refs>>
  /\ UNCHANGED <<sent, anns, ck, cidk, reg>>

\* UpdateOutOfStoreGroupReferences(first = x): what the message store does after a log delivery
UpdateRefs(d, x) ==
  /\ x \in 0..(MaxSent + W)
  /\ refs' = [refs EXCEPT ![d] = Window(x)]
  /\ res' = [ok |-> TRUE]
  /\ UNCHANGED <<sent, anns, ck, pre, cidk, reg>>

Next == \E d \in Dev :
          \/ Seal(d) \/ Announce(d)
          \/ \E a \in 0..MaxSent : Register(d, a)
          \/ \E k \in 1..MaxSent : Open(d, k) \/ Push(d, k)
          \/ \E x \in 0..(MaxSent + W) : UpdateRefs(d, x)

Spec == Init /\ [][Next]_vars

-----------------------------------------------------------------------------
TypeOK == /\ sent \in [Dev -> 0..MaxSent]
          /\ \A d \in Dev : anns[d] \subseteq 0..sent[d]
          /\ \A d \in Dev : ck[d] \in -1..(2 * MaxSent + W + 1)
          /\ \A d \in Dev : reg[d] \in -1..sent[d]

\* mechanism invariant: the stored chain counter is the registered counter plus the window
\* plus the number of messages opened; everything in between is either opened or precomputed
Mech == \A d \in Dev :
          IF ck[d] = -1 THEN pre[d] = {} /\ reg[d] = -1 /\ OpenedOf(d) = {}
          ELSE /\ ck[d] = reg[d] + W + Cardinality(OpenedOf(d))
               /\ ((reg[d] + 1)..ck[d]) \ OpenedOf(d) \subseteq pre[d]
               /\ pre[d] \subseteq (reg[d] + 1)..(ck[d] + 1)
               /\ OpenedOf(d) \subseteq (reg[d] + 1)..ck[d]

\* C02: sufficient window, nothing at or before the registered counter, nothing unregistered
C02_Window == \A d \in Dev : \A k \in 1..sent[d] :
                (reg[d] # -1 /\ reg[d] < k /\ k <= reg[d] + W + Cardinality(OpenedOf(d))) => Openable(d, k)
C02_NoPast == \A d \in Dev : \A k \in 1..sent[d] : (reg[d] = -1 \/ k <= reg[d]) => ~Openable(d, k)

\* C02/C14: what is openable stays openable; chain counter never decreases; registration is sticky
Monotone == [][ /\ \A d \in Dev : \A k \in 1..MaxSent : Openable(d, k) => Openable(d, k)'
                /\ \A d \in Dev : ck'[d] >= ck[d]
                /\ \A d \in Dev : reg[d] # -1 => (reg'[d] = reg[d]) ]_vars
\* re-registration changes nothing
ReRegister == [][ \A d \in Dev : (ck[d] # -1 /\ sent' = sent /\ anns' = anns /\ cidk' = cidk /\ pre' = pre /\ refs' # refs)
                     => \E k \in 1..MaxSent, x \in 0..(MaxSent+W) : refs'[d] \in {Window(k), Window(x)} \/ refs'[d] = refs[d] ]_vars
=============================================================================
