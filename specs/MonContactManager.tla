------------------------- MODULE MonContactManager -------------------------
(* Monitor for the contact-request manager over recorded traces of the real code: the design  *)
(* invariants of ContactManager.tla evaluated on OBSERVED values only (the projected state     *)
(* the driver records after every step, the observed account log, the observed outcomes).      *)
(* The module is outside the twenty listed properties: a failing clause is an OBSERVATION      *)
(* (collect mode prints it as BAD with its clause name and goes on), never a violation -       *)
(* except the clauses K1-K3, which are literally implied by C07 and are reported apart.        *)
(*                                                                                             *)
(*  A1 announce   running, nothing held: announce live iff enabled and a seed is set, on the   *)
(*                current seed; enabled / seed agree with the log                               *)
(*  A2 oldpoint   never a live announce on another seed than the current one, nothing on a     *)
(*                topic that is nobody's point                                                  *)
(*  A3 handler    running, nothing held: stream handler registered iff enabled                  *)
(*  L1 lost       settled, running, nothing held: every to-request contact has a lookup and a  *)
(*                watch                                                                         *)
(*  L2 stray      settled, running, nothing held: lookups / watches only for to-request contacts*)
(*  C1 closed     settled after close(): no lookup, watch, sender, announce, handler            *)
(*  S1 onesent    per contact, two "sent" events are never adjacent in the log                  *)
(*  T1 told       a contact is handed the account's contact only while it is to-request        *)
(*  K1 (C07)      an incoming request of a blocked contact appends nothing                      *)
(*  K2 (C07)      a refused store operation appends nothing about its contact                   *)
(*  K3 (C07)      the account never becomes its own contact: enqueueing the own key is refused *)
(***************************************************************************************************)
EXTENDS Integers, FiniteSets, Sequences, TLC, Json, IOUtils

CONSTANTS Contacts

TraceLog == ndJsonDeserialize(IOEnv.VERIF_TRACE)
Collect == "VERIF_COLLECT" \in DOMAIN IOEnv /\ IOEnv.VERIF_COLLECT = "1"

VARIABLES l,
          run,     \* a manager was created, its start-up was not held (or was resumed), close() not called
          shut,    \* close() was called on the current manager
          held,    \* the watcher is held in its Subscribe call
          plog     \* the log observed after the previous step
mvars == <<l, run, shut, held, plog>>

Ev == TraceLog[l]
SetOf(s) == {s[i] : i \in DOMAIN s}
Last(S) == CHOOSE i \in S : \A j \in S : j <= i
StateAfter(t) == CASE t = "enq" -> "T" [] t = "sent" -> "A" [] t = "recv" -> "R" [] t = "disc" -> "D"
                   [] t = "acc" -> "A" [] t = "blk" -> "B" [] t = "unb" -> "X" [] OTHER -> "?"
Of(lg, c) == {i \in DOMAIN lg : lg[i].c = c}
CState(lg, c) == IF Of(lg, c) = {} THEN "U" ELSE StateAfter(lg[Last(Of(lg, c))].t)
Sw(lg) == {i \in DOMAIN lg : lg[i].t \in {"en", "dis"}}
EnIdx(lg) == Sw(lg) # {} /\ lg[Last(Sw(lg))].t = "en"
Rs(lg) == {i \in DOMAIN lg : lg[i].t = "rs"}
SeedIdx(lg) == IF Rs(lg) = {} THEN 0 ELSE lg[Last(Rs(lg))].s
ToReq(lg) == {c \in Contacts : CState(lg, c) = "T"}
\* the log without the "sent" events about c appended by this step
Cut(lg, n, c) == [i \in 1..Len(lg) |-> IF i > n /\ lg[i].c = c /\ lg[i].t = "sent" THEN [t |-> "skip", c |-> "-", s |-> 0] ELSE lg[i]]

Clauses(st, r, run2, shut2, held2) ==
  LET lg == st.log
      idle == run2 /\ ~held2 /\ st.q = 0
      settled == Ev.ev = "settle" IN
  [ A1 |-> idle => /\ st.en = EnIdx(lg) /\ st.seed = SeedIdx(lg)
                   /\ SetOf(st.ann) = (IF st.en /\ st.seed # 0 THEN {st.seed} ELSE {}),
    A2 |-> SetOf(st.ann) \subseteq {st.seed} /\ st.other = 0,
    A3 |-> idle => st.h = st.en,
    L1 |-> (idle /\ settled) => ToReq(lg) \subseteq (SetOf(st.lk) \cap SetOf(st.w)),
    L2 |-> (idle /\ settled) => (SetOf(st.lk) \cup SetOf(st.w)) \subseteq ToReq(lg),
    C1 |-> (shut2 /\ ~held2 /\ settled) => /\ SetOf(st.lk) = {} /\ SetOf(st.w) = {} /\ st.g = 0 /\ st.gw = 0
                                           /\ SetOf(st.ann) = {} /\ ~st.h /\ ~st.en,
    S1 |-> \A c \in Contacts : \A i, j \in Of(lg, c) :
              (i < j /\ lg[i].t = "sent" /\ lg[j].t = "sent") => \E k \in Of(lg, c) : i < k /\ k < j,
    T1 |-> \A c \in SetOf(r.told) : CState(plog, c) = "T" \/ CState(Cut(lg, Len(plog), c), c) = "T",
    K1 |-> (Ev.ev = "inc" /\ CState(plog, Ev.d) = "B") => \A i \in DOMAIN r.app : r.app[i].c # Ev.d,
    K2 |-> (Ev.ev = "op" /\ r.r = "err") => \A i \in DOMAIN r.app : r.app[i].c # Ev.d \/ r.app[i].t = "sent",
    K3 |-> /\ (Ev.ev = "op" /\ Ev.d = "self") => r.r = "err"
           /\ \A i \in DOMAIN lg : lg[i].c # "self"
           /\ "self" \notin SetOf(st.lk) \cup SetOf(st.w) ]

Names == {"A1", "A2", "A3", "L1", "L2", "C1", "S1", "T1", "K1", "K2", "K3"}
Check(st, r, run2, shut2, held2) ==
  LET cl == Clauses(st, r, run2, shut2, held2)
      bad == {n \in Names : ~cl[n]} IN
  IF bad = {} THEN TRUE
  ELSE IF Collect THEN PrintT(<<"BAD", ToJson([at |-> l, clauses |-> bad, line |-> Ev])>>)
  ELSE FALSE

MReset == /\ l <= Len(TraceLog) /\ Ev.ev = "reset" /\ l' = l + 1
          /\ run' = FALSE /\ shut' = FALSE /\ held' = FALSE /\ plog' = <<>>
MEnd == /\ l <= Len(TraceLog) /\ Ev.ev = "end" /\ l' = l + 1 /\ UNCHANGED <<run, shut, held, plog>>
MStep == /\ l <= Len(TraceLog) /\ Ev.ev \notin {"reset", "end"} /\ l' = l + 1
         /\ run' = CASE Ev.ev = "new" -> TRUE [] Ev.ev = "close" -> FALSE [] OTHER -> run
         /\ shut' = CASE Ev.ev = "new" -> FALSE [] Ev.ev = "close" -> TRUE [] OTHER -> shut
         /\ held' = CASE Ev.ev = "new" -> (Ev.x = 1) [] Ev.ev = "resume" -> FALSE [] OTHER -> held
         /\ plog' = Ev.st.log
         /\ Check(Ev.st, Ev.res, run', shut', held')
MNext == MReset \/ MEnd \/ MStep
MInit == l = 1 /\ run = FALSE /\ shut = FALSE /\ held = FALSE /\ plog = <<>> /\ TLCSet(42, 1)
MSpec == MInit /\ [][MNext]_mvars

Mark == TLCSet(42, IF l > TLCGet(42) THEN l ELSE TLCGet(42))
Accepted == LET hw == TLCGet(42) IN
              IF hw = Len(TraceLog) + 1 THEN TRUE
              ELSE /\ PrintT(<<"REJECTED", ToJson([high |-> hw - 1, line |-> TraceLog[hw]])>>)
                   /\ FALSE
=============================================================================
