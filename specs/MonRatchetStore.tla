--------------------------- MODULE MonRatchetStore ---------------------------
(***************************************************************************)
(* Property monitor for C10 (crash at any datastore mutation) and C09      *)
(* (concurrent sends) over traces recorded from the real secret store by   *)
(* the recording / crashing datastore of the drivers.  Observed values     *)
(* only: the variables are history variables computed from the recorded    *)
(* calls, their outcomes and the recorded datastore operations.            *)
(*                                                                         *)
(* C10  (1) a message an Open call reported as opened opens again later,   *)
(*          in particular after the restart;                               *)
(*      (2) a message that opened on the datastore content as it was when  *)
(*          the interrupted call began ("probes pre") opens on the         *)
(*          surviving content ("post"), at the end ("final") and whenever  *)
(*          the continuing workload opens it;                              *)
(*      (3) a counter handed to a caller by SealEnvelope is never handed   *)
(*          out again (before / after the restart alike);                  *)
(*      (4) member / device / group / account keys read through the API    *)
(*          are the ones read before;                                      *)
(*      (5) "usable": the first RegisterChainKey call of a sender device   *)
(*          that RETURNS ok at a store (in particular the redelivery of a  *)
(*          registration the stop interrupted) makes that device's window  *)
(*          openable: at the end of the continued workload every sealed    *)
(*          message of the device with a counter in                        *)
(*          (registered counter, registered counter + W] opens.  Judged    *)
(*          only when no registration of ANOTHER announcement of the       *)
(*          device had any effect at that store before (then the window    *)
(*          is that one's).                                                *)
(* C09      counters handed out by a device are pairwise distinct, a call  *)
(*          that begins after another returned gets a larger counter,      *)
(*          without a stop they form an interval at the end; every         *)
(*          recorded store of a chain key has a counter >= the previous    *)
(*          one for that (store, device); mode "c09": every envelope       *)
(*          opens (faithfully) at the registered receiver.                 *)
(* Anything else (which mutations, in which order, outcome of the          *)
(* interrupted call, what is openable beyond the clauses) is accepted.     *)
(***************************************************************************)
EXTENDS Integers, FiniteSets, Sequences, TLC, Json, IOUtils

CONSTANTS Dev, Thr

TraceLog == ndJsonDeserialize(IOEnv.VERIF_TRACE)

VARIABLES l, mode, stopped,
          handed,    \* [Dev -> SUBSET Int] counters of the envelopes handed to callers
          top, low,  \* [Dev -> Int] largest / smallest counter handed out so far (-1: none)
          floor,     \* [Thr -> Int] largest counter handed out when the thread's current call began
          mustOpen,  \* SUBSET (Dev \X Dev \X Int): <<store, device, counter>> that must open from now on
          lastCk,    \* [Dev -> [Dev -> Int]] last chain-key counter recorded as stored
          keys,      \* [Dev -> record] keys observed through the API (0 = not yet)
          win,       \* the workload's precomputed-key window W (0: not given, clause 5 vacuous)
          regd,      \* set of <<store, device, counter>>: first registration of the device that returned ok at the store
          regx       \* set of <<store, device, counter>>: registrations that had an effect (a mutation, or returned ok)
mvars == <<l, mode, stopped, handed, top, low, floor, mustOpen, lastCk, keys, win, regd, regx>>

Ev == TraceLog[l]
Consume(e) == l <= Len(TraceLog) /\ Ev.ev = e /\ l' = l + 1
SetOf(s) == {s[i] : i \in DOMAIN s}
Max(S) == CHOOSE x \in S : \A y \in S : y <= x
Top(d) == top[d]
Hand(d, k) == /\ handed' = [handed EXCEPT ![d] = @ \cup {k}]
              /\ top' = [top EXCEPT ![d] = IF k > @ THEN k ELSE @]
              /\ low' = [low EXCEPT ![d] = IF @ = -1 \/ k < @ THEN k ELSE @]

NoKeys == [member |-> 0, device |-> 0, group |-> 0, acct |-> 0]
Fields == {"member", "device", "group", "acct"}

\* ---- stored chain-key counter never decreases (per store and device), within a call and across calls
IsCk(m) == m.cls = "chainKey" /\ m.kind # "get" /\ m.d \in Dev
CkMono(s, muts) ==
  \A i \in DOMAIN muts : IsCk(muts[i]) =>
     /\ muts[i].c >= lastCk[s][muts[i].d]
     /\ \A j \in 1..(i - 1) : (IsCk(muts[j]) /\ muts[j].d = muts[i].d) => muts[i].c >= muts[j].c
CkAfter(s, muts) ==
  [d \in Dev |-> LET idx == {i \in DOMAIN muts : IsCk(muts[i]) /\ muts[i].d = d}
                 IN IF idx = {} THEN lastCk[s][d] ELSE muts[Max(idx)].c]

Faithful == Ev.same /\ Ev.pdev /\ Ev.pk = Ev.x

MReset == /\ Consume("reset")
          /\ mode' = Ev.mode /\ stopped' = FALSE
          /\ handed' = [d \in Dev |-> {}] /\ floor' = [t \in Thr |-> -1] /\ mustOpen' = {}
          /\ top' = [d \in Dev |-> -1] /\ low' = [d \in Dev |-> -1]
          /\ lastCk' = [s \in Dev |-> [d \in Dev |-> -1]]
          /\ keys' = [s \in Dev |-> NoKeys]
          /\ win' = (IF "W" \in DOMAIN Ev THEN Ev.W ELSE 0) /\ regd' = {} /\ regx' = {}

CallCommon == /\ CkMono(Ev.s, Ev.muts)
              /\ lastCk' = [lastCk EXCEPT ![Ev.s] = CkAfter(Ev.s, Ev.muts)]

MJoin == /\ Consume("join") /\ CallCommon
         /\ UNCHANGED <<mode, stopped, handed, top, low, floor, mustOpen, keys, win, regd, regx>>
Flag(f) == f \in DOMAIN Ev /\ Ev[f]
MRegister == /\ Consume("register") /\ CallCommon
             /\ regd' = IF /\ Flag("ok") /\ ~Flag("crashed") /\ Ev.s # Ev.d
                           /\ \A r \in regd : ~(r[1] = Ev.s /\ r[2] = Ev.d)
                           /\ \A r \in regx : (r[1] = Ev.s /\ r[2] = Ev.d) => r[3] = Ev.x
                           THEN regd \cup {<<Ev.s, Ev.d, Ev.x>>} ELSE regd
             /\ regx' = IF Len(Ev.muts) > 0 \/ (Flag("ok") /\ ~Flag("crashed")) THEN regx \cup {<<Ev.s, Ev.d, Ev.x>>} ELSE regx
             /\ UNCHANGED <<mode, stopped, handed, top, low, floor, mustOpen, keys, win>>
MSeal == /\ Consume("seal") /\ CallCommon
         /\ Ev.ok => /\ Ev.k \notin handed[Ev.d]
                     /\ (~stopped => Ev.k > Top(Ev.d))
         /\ IF Ev.ok THEN Hand(Ev.d, Ev.k) ELSE UNCHANGED <<handed, top, low>>
         /\ UNCHANGED <<mode, stopped, floor, mustOpen, keys, win, regd, regx>>
MOpen == /\ Consume("open") /\ CallCommon
         /\ (<<Ev.s, Ev.d, Ev.x>> \in mustOpen /\ ~Ev.crashed) => Ev.ok
         /\ (mode = "c09" /\ Ev.x \in handed[Ev.d]) => Ev.ok
         /\ Ev.ok => Faithful
         /\ mustOpen' = IF Ev.ok THEN mustOpen \cup {<<Ev.s, Ev.d, Ev.x>>} ELSE mustOpen
         /\ UNCHANGED <<mode, stopped, handed, top, low, floor, keys, win, regd, regx>>

MCrash == /\ Consume("crash") /\ stopped' = TRUE
          /\ UNCHANGED <<mode, handed, top, low, floor, mustOpen, lastCk, keys, win, regd, regx>>
MRestart == /\ Consume("restart")
            /\ UNCHANGED <<mode, stopped, handed, top, low, floor, mustOpen, lastCk, keys, win, regd, regx>>
MProbes == /\ Consume("probes")
           /\ IF Ev.phase = "pre"
                THEN mustOpen' = mustOpen \cup {<<Ev.s, p[1], p[2]>> : p \in SetOf(Ev.open)}
                ELSE /\ \A m \in mustOpen : m[1] = Ev.s => <<m[2], m[3]>> \in SetOf(Ev.open)
                     /\ Ev.phase = "final" =>
                          \A r \in regd : r[1] = Ev.s =>
                             \A p \in SetOf(Ev.all) : (p[1] = r[2] /\ p[2] > r[3] /\ p[2] <= r[3] + win) => p \in SetOf(Ev.open)
                     /\ UNCHANGED mustOpen
           /\ UNCHANGED <<mode, stopped, handed, top, low, floor, lastCk, keys, win, regd, regx>>
MKeys == /\ Consume("keys")
         /\ \A f \in Fields : keys[Ev.s][f] # 0 => Ev[f] = keys[Ev.s][f]
         /\ keys' = [keys EXCEPT ![Ev.s] = [f \in Fields |-> IF @[f] # 0 THEN @[f] ELSE Ev[f]]]
         /\ UNCHANGED <<mode, stopped, handed, top, low, floor, mustOpen, lastCk, win, regd, regx>>

\* ---- C09: calls of concurrent threads, datastore operations in the order of the wrapper's sequence number
MTBegin == /\ Consume("tbegin") /\ floor' = [floor EXCEPT ![Ev.t] = Top(Ev.d)]
           /\ UNCHANGED <<mode, stopped, handed, top, low, mustOpen, lastCk, keys, win, regd, regx>>
MGet == /\ Consume("get")
        /\ UNCHANGED <<mode, stopped, handed, top, low, floor, mustOpen, lastCk, keys, win, regd, regx>>
MPut == /\ Consume("put")
        /\ IsCk(Ev) => Ev.c >= lastCk[Ev.s][Ev.d]
        /\ lastCk' = IF IsCk(Ev) THEN [lastCk EXCEPT ![Ev.s][Ev.d] = Ev.c] ELSE lastCk
        /\ UNCHANGED <<mode, stopped, handed, top, low, floor, mustOpen, keys, win, regd, regx>>
MTRet == /\ Consume("tret")
         /\ Ev.ok   \* nothing stops a store in these runs: a failed SealEnvelope is not a behaviour of the property's domain
         /\ Ev.k \notin handed[Ev.d] /\ Ev.k > floor[Ev.t]
         /\ Hand(Ev.d, Ev.k)
         /\ UNCHANGED <<mode, stopped, floor, mustOpen, lastCk, keys, win, regd, regx>>

MEnd == /\ Consume("end")
        /\ ~stopped => \A d \in Dev : Cardinality(handed[d]) = (IF handed[d] = {} THEN 0 ELSE top[d] - low[d] + 1)
        /\ mode = "c09" => \A d \in Dev : \A k \in handed[d] : <<"R", d, k>> \in mustOpen
        /\ UNCHANGED <<mode, stopped, handed, top, low, floor, mustOpen, lastCk, keys, win, regd, regx>>

MNext == MReset \/ MJoin \/ MRegister \/ MSeal \/ MOpen \/ MCrash \/ MRestart \/ MProbes \/ MKeys
         \/ MTBegin \/ MGet \/ MPut \/ MTRet \/ MEnd
MInit == /\ l = 1 /\ mode = "" /\ stopped = FALSE
         /\ handed = [d \in Dev |-> {}] /\ floor = [t \in Thr |-> -1] /\ mustOpen = {}
         /\ top = [d \in Dev |-> -1] /\ low = [d \in Dev |-> -1]
         /\ lastCk = [s \in Dev |-> [d \in Dev |-> -1]]
         /\ keys = [s \in Dev |-> NoKeys] /\ win = 0 /\ regd = {} /\ regx = {} /\ TLCSet(42, 1)
MSpec == MInit /\ [][MNext]_mvars

Mark == TLCSet(42, IF l > TLCGet(42) THEN l ELSE TLCGet(42))
Accepted == LET hw == TLCGet(42) IN
              IF hw = Len(TraceLog) + 1 THEN TRUE
              ELSE /\ PrintT(<<"REJECTED", ToJson([high |-> hw - 1, line |-> TraceLog[hw]])>>)
                   /\ FALSE
=============================================================================
