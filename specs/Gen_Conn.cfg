SPECIFICATION Spec
CONSTANTS
  Peers = {"p1", "p2"}
  Impl = "fixed"
INVARIANTS Dump
CHECK_DEADLOCK FALSE
