SPECIFICATION Spec
CONSTANTS
  Dev = {"d1", "R"}
  Senders = {"d1"}
  Thr = {}
  D0 = "d1"
  MsgPerThr = 0
  KeyNames = {"accountSK", "deviceSK"}
  JoinKeys = {"accountSK", "deviceSK"}
  W = 2
  N = 1
  MaxSent = 2
  MaxOps = 5
  MaxCrash = 1
  Batching = TRUE
  UseLock = TRUE
  CidFirst = TRUE
  EarlyReturn = FALSE
  MonoGE = TRUE
  InitJoined = TRUE
INVARIANTS RefinesMech TypeOK C10_OpenedStay C10_OpenableStay NoReuse C10_KeysStable C09_GapFree C09_Opens
PROPERTIES C10_Monotone C09_Monotone
VIEW view
CHECK_DEADLOCK FALSE
