SPECIFICATION Spec
CONSTANTS
  Dev = {"d1"}
  W = 2
  N = 2
  MaxSent = 4
INVARIANTS TypeOK Mech C02_Window C02_NoPast
PROPERTIES Monotone
VIEW view
CHECK_DEADLOCK FALSE
