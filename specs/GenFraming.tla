---------------------------- MODULE GenFraming ----------------------------
(* Script generation for Framing: the input (frames, truncation point) is   *)
(* chosen in Init, the chunk sizes are chosen along the run of the reader   *)
(* automaton and recorded; every distinct (input, chunking) is a distinct   *)
(* behaviour.  A behaviour is complete when the reader returned its first   *)
(* error (at the latest: end of stream).  Printed as                        *)
(*   << [act "input", x = N, a = [variant, frames, cs = chunk sizes]],      *)
(*      [act "read", res = predicted outcome] ... >>                        *)
EXTENDS Framing, Json

VARIABLES cs, h
gvars == <<vars, cs, h>>

GInit == Init /\ cs = <<>> /\ h = <<>>

Returned == pc # "Idle" /\ pc' = "Idle"
GNext == /\ \/ Internal /\ UNCHANGED cs
            \/ \E c \in 1..K : /\ Step(c)
                               /\ cs' = IF IsU32 /\ rem > 0 THEN cs ELSE Append(cs, c)
         /\ h' = IF Returned THEN Append(h, [act |-> "read", x |-> nread, a |-> [n |-> Len(delivered')], res |-> res']) ELSE h
GSpec == GInit /\ [][GNext]_gvars

InputStep == [act |-> "input", x |-> N,
              a |-> [variant |-> variant, frames |-> frames, cs |-> cs],
              res |-> [ok |-> TRUE, err |-> "none"]]
Dump == Done => PrintT(<<"SCRIPT", ToJson(<<InputStep>> \o h)>>)
=============================================================================
