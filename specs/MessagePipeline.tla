-------------------------- MODULE MessagePipeline --------------------------
(***************************************************************************)
(* Message pipeline of store_message.go at gate-to-gate granularity        *)
(* (gates in front of every lock acquisition / channel operation of the    *)
(* instrumented store_message.go, internal/queue/simple.go and             *)
(* internal/queue/priority.go).                                            *)
(*                                                                         *)
(* Threads                                                                 *)
(*   arr     the store's subscriber: addToMessageQueue for each arriving   *)
(*           entry, in the scenario's arrival order                        *)
(*   loop    processMessageLoop: WaitForItem; getOrCreateDeviceCache under *)
(*           muDeviceCaches; park / process / flush (NextAll) / emit       *)
(*   k_<d>   chain-key registration of device d followed by                *)
(*           ProcessMessageQueueForDevicePK (group_context.go)             *)
(*   cancel  optional cancellation of the store context                    *)
(* The secret store is abstracted by keyKnown[d] and, in scenarios with a  *)
(* field win > 0, by the ratchet window of Ratchet.tla / C02: a message of *)
(* d with counter k opens iff d's chain key is registered (at counter 0)   *)
(* and k <= win + number of d's messages already opened.  A message that   *)
(* fails with a known key goes back to the device queue (error path) and   *)
(* is retried by the flush after the next successful open of that device.  *)
(*                                                                         *)
(* Impl choices                                                            *)
(*   ParkUnderLock   FALSE: the loop parks an undecryptable message after  *)
(*                   releasing muDeviceCaches (code as first found);       *)
(*                   TRUE: parks inside getOrCreateDeviceCache, lock held  *)
(*   SignalBuffered  capacity of the main queue's wake-up channel          *)
(*   RequeueAll      what ProcessMessageQueueForDevicePK re-injects        *)
(* Scenario fields win (ratchet window, 0 = unlimited) and regat (per      *)
(* device: the chain key is announced after that many messages were        *)
(* sealed, so messages with a counter <= regat[d] can never be opened: a   *)
(* member that joined late).                                               *)
(***************************************************************************)
EXTENDS Naturals, Sequences, FiniteSets, TLC, Json

CONSTANTS Scenarios,   \* sequence of [arr: Seq(msg), regs: set of devices registered by a k_ thread,
                       \*              known: set of devices known from the start, cancel: BOOLEAN]
          DevOf, CtrOf,  \* functions on message names
          Devs,
          ParkUnderLock, SignalBuffered,
          RequeueAll     \* ProcessMessageQueueForDevicePK hands back the whole device queue (TRUE, repaired) or only its
                         \* lowest-counter message (FALSE, code as first found: a head that can never be opened - sealed
                         \* before the announced counter - leaves every decryptable message behind it parked)

VARIABLES si,
          mq, mqmu, sig,        \* main queue: content, mutex holder, buffered signals
          cmu,                  \* muDeviceCaches holder
          cexists, cknown,      \* device caches: exists?, hasKnownChainKey
          pq, pqmu,             \* per-device priority queues: content (set), mutex holder
          keyKnown,             \* secret store: chain key registered?
          delivered, ncached,   \* emitted GroupMessageEvents (sequence), number of "cached" emits
          done,
          apc, ai,              \* arrival thread
          lpc, lcur, lrest,     \* loop thread: pc, current message, items still to flush
          kpc, knext,           \* registration threads
          cpc, h
vars == <<si, mq, mqmu, sig, cmu, cexists, cknown, pq, pqmu, keyKnown, delivered, ncached, done,
          apc, ai, lpc, lcur, lrest, kpc, knext, cpc, h>>
view == <<si, mq, mqmu, sig, cmu, cexists, cknown, pq, pqmu, keyKnown, delivered, done,
          apc, ai, lpc, lcur, lrest, kpc, knext, cpc>>

Sc == Scenarios[si]
Arr == Sc.arr
Regs == Sc.regs
Nil == "nil"
KName(d) == "k_" \o d
\* ratchet window (0 = scenario stays inside the window): opened = delivered + the message being flushed / emitted
Win == IF "win" \in DOMAIN Sc THEN Sc.win ELSE 0
RegAt(d) == IF "regat" \in DOMAIN Sc /\ d \in DOMAIN Sc.regat THEN Sc.regat[d] ELSE 0
NOpen(d) == Cardinality({i \in DOMAIN delivered : DevOf[delivered[i]] = d})
            + (IF lpc \in {"PF", "FA_lock", "FA_sel"} /\ lcur # Nil /\ DevOf[lcur] = d THEN 1 ELSE 0)
InWin(m) == /\ CtrOf[m] > RegAt(DevOf[m])
            /\ (Win = 0 \/ CtrOf[m] <= RegAt(DevOf[m]) + Win + NOpen(DevOf[m]))

Init == /\ si \in DOMAIN Scenarios
        /\ mq = <<>> /\ mqmu = "none" /\ sig = 0 /\ cmu = "none"
        /\ cexists = [d \in Devs |-> FALSE] /\ cknown = [d \in Devs |-> FALSE]
        /\ pq = [d \in Devs |-> {}] /\ pqmu = [d \in Devs |-> "none"]
        /\ keyKnown = [d \in Devs |-> d \in Scenarios[si].known]
        /\ delivered = <<>> /\ ncached = 0 /\ done = FALSE
        /\ apc = "start" /\ ai = 1
        /\ lpc = "start" /\ lcur = Nil /\ lrest = <<>>
        /\ kpc = [d \in Devs |-> IF d \in Scenarios[si].regs THEN "start" ELSE "none"]
        /\ knext = [d \in Devs |-> <<>>]
        /\ cpc = IF Scenarios[si].cancel THEN "start" ELSE "none"
        /\ h = <<>>

Sched(t, to) == UNCHANGED si /\ h' = Append(h, [d |-> t, act |-> "step", to |-> to])

\* ---- SimpleQueue.Add as used by three callers: push under the queue mutex, then non-blocking signal
\* second half: rendezvous with the parked loop, else buffer, else drop; returns the new loop pc and sig
SigLoopPc == IF lpc = "w_parked" THEN "w_relock" ELSE lpc
SigBuf == IF lpc = "w_parked" THEN sig ELSE IF SignalBuffered /\ sig = 0 THEN 1 ELSE sig

\* minimum-counter element of a non-empty set of messages
MinOf(S) == CHOOSE m \in S : \A n \in S : CtrOf[m] <= CtrOf[n]
\* drain order of NextAll: by increasing counter (distinct counters per device in the scenarios)
RECURSIVE Sorted(_)
Sorted(S) == IF S = {} THEN <<>> ELSE <<MinOf(S)>> \o Sorted(S \ {MinOf(S)})

\* ------------------------------------------------------------------ arrival thread
AUnch == UNCHANGED <<cmu, cexists, cknown, pq, pqmu, keyKnown, delivered, ncached, done, lcur, lrest, kpc, knext, cpc>>
AStart == /\ apc = "start" /\ apc' = IF Len(Arr) = 0 THEN "done" ELSE "a_lock"
          /\ UNCHANGED <<mq, mqmu, sig, ai, lpc>> /\ AUnch /\ Sched("arr", apc')
ALock == /\ apc = "a_lock" /\ mqmu = "none" /\ mqmu' = "arr"
         /\ mq' = Append(mq, Arr[ai]) /\ apc' = "a_sel"
         /\ UNCHANGED <<sig, ai, lpc>> /\ AUnch /\ Sched("arr", "a_sel")
ASel == /\ apc = "a_sel"
        /\ lpc' = SigLoopPc /\ sig' = SigBuf /\ mqmu' = "none"
        /\ ai' = ai + 1 /\ apc' = IF ai < Len(Arr) THEN "a_lock" ELSE "done"
        /\ UNCHANGED mq /\ AUnch /\ Sched("arr", apc')

\* ------------------------------------------------------------------ loop thread
LUnch == UNCHANGED <<keyKnown, done, apc, ai, kpc, knext, cpc>>
LStart == /\ lpc = "start" /\ lpc' = "w_lock"
          /\ UNCHANGED <<mq, mqmu, sig, cmu, cexists, cknown, pq, pqmu, delivered, ncached, lcur, lrest>> /\ LUnch /\ Sched("loop", "w_lock")
\* WaitForItem: Lock / re-Lock, then the loop body up to the next gate
WLock == /\ lpc \in {"w_lock", "w_relock"} /\ mqmu = "none"
         /\ IF done THEN /\ lpc' = "done" /\ UNCHANGED <<mq, lcur>>          \* ctx expired: the loop returns
            ELSE IF mq = <<>> THEN /\ lpc' = "w_sel" /\ UNCHANGED <<mq, lcur>>
            ELSE /\ lcur' = Head(mq) /\ mq' = Tail(mq) /\ lpc' = "G1"         \* got a message: go for the device cache
         /\ UNCHANGED <<mqmu, sig, cmu, cexists, cknown, pq, pqmu, delivered, ncached, lrest>> /\ LUnch /\ Sched("loop", lpc')
WSel == /\ lpc = "w_sel"
        /\ \/ /\ sig = 1 /\ sig' = 0 /\ lpc' = "w_relock"
           \/ /\ done /\ sig' = sig /\ lpc' = "w_relock"
           \/ /\ sig = 0 /\ ~done /\ sig' = sig /\ lpc' = "w_parked"
        /\ UNCHANGED <<mq, mqmu, cmu, cexists, cknown, pq, pqmu, delivered, ncached, lcur, lrest>> /\ LUnch /\ Sched("loop", lpc')
\* getOrCreateDeviceCache: gate Lock(muDeviceCaches)
G1 == /\ lpc = "G1" /\ cmu = "none"
      /\ LET d == DevOf[lcur]
             kn == IF cexists[d] THEN cknown[d] ELSE keyKnown[d]
         IN /\ cexists' = [cexists EXCEPT ![d] = TRUE]
            /\ cknown' = [cknown EXCEPT ![d] = kn]
            /\ IF ~kn
                 THEN \* unknown chain key: park.  The priority queue's Add has its own gate.
                      /\ cmu' = IF ParkUnderLock THEN "loop" ELSE "none"
                      /\ lpc' = "PA" /\ UNCHANGED <<delivered, lrest>>
                 ELSE \* processMessage (secret store call, no gate inside)
                      IF keyKnown[d] /\ InWin(lcur)
                        THEN /\ lpc' = "PF" /\ cmu' = "none" /\ UNCHANGED <<delivered, lrest>>   \* decrypted; flush the device queue next
                        ELSE /\ lpc' = "PA" /\ cmu' = "none" /\ UNCHANGED <<delivered, lrest>>   \* failed: park again (error path)
      /\ UNCHANGED <<mq, mqmu, sig, pq, pqmu, ncached, lcur>> /\ LUnch /\ Sched("loop", lpc')
\* device.queue.Add(message): gate Lock(pq.muMessages); then emit the "cached" event and loop
PA == /\ lpc = "PA" /\ pqmu[DevOf[lcur]] = "none"
      /\ pq' = [pq EXCEPT ![DevOf[lcur]] = @ \cup {lcur}]
      /\ cmu' = IF cmu = "loop" THEN "none" ELSE cmu
      /\ ncached' = ncached + 1 /\ lcur' = Nil /\ lpc' = "w_lock"
      /\ UNCHANGED <<mq, mqmu, sig, cexists, cknown, pqmu, delivered, lrest>> /\ LUnch /\ Sched("loop", "w_lock")
\* processDeviceMessagesInQueue: NextAll, gate Lock(pq.muMessages); each drained item is re-queued
Emit == /\ delivered' = Append(delivered, lcur) /\ lcur' = Nil /\ lpc' = "w_lock"
PF == /\ lpc = "PF" /\ pqmu[DevOf[lcur]] = "none"
      /\ LET d == DevOf[lcur] IN
           IF pq[d] = {} THEN /\ Emit /\ UNCHANGED <<pq, pqmu, lrest>>
           ELSE /\ lrest' = Sorted(pq[d]) /\ pq' = [pq EXCEPT ![d] = {}]
                /\ pqmu' = [pqmu EXCEPT ![d] = "loop"] /\ lpc' = "FA_lock" /\ UNCHANGED <<delivered, lcur>>
      /\ UNCHANGED <<mq, mqmu, sig, cmu, cexists, cknown, ncached>> /\ LUnch /\ Sched("loop", lpc')
FALock == /\ lpc = "FA_lock" /\ mqmu = "none" /\ mqmu' = "loop"
          /\ mq' = Append(mq, Head(lrest)) /\ lpc' = "FA_sel"
          /\ UNCHANGED <<sig, cmu, cexists, cknown, pq, pqmu, delivered, ncached, lcur, lrest>> /\ LUnch /\ Sched("loop", "FA_sel")
\* the loop signals itself: never parked here, so the signal is buffered (or dropped)
FASel == /\ lpc = "FA_sel" /\ mqmu' = "none"
         /\ sig' = IF SignalBuffered /\ sig = 0 THEN 1 ELSE sig
         /\ lrest' = Tail(lrest)
         /\ IF Len(lrest) > 1 THEN /\ lpc' = "FA_lock" /\ UNCHANGED <<pqmu, delivered, lcur>>
            ELSE /\ pqmu' = [pqmu EXCEPT ![DevOf[lcur]] = "none"] /\ Emit
         /\ UNCHANGED <<mq, cmu, cexists, cknown, pq, ncached>> /\ LUnch /\ Sched("loop", lpc')

\* ------------------------------------------------------------------ registration threads
KUnch == UNCHANGED <<delivered, ncached, done, apc, ai, lcur, lrest, cpc>>
KSet(d, to) == kpc' = [kpc EXCEPT ![d] = to]
KStart(d) == /\ kpc[d] = "start" /\ KSet(d, "k_reg")
             /\ UNCHANGED <<mq, mqmu, sig, cmu, cexists, cknown, pq, pqmu, keyKnown, knext, lpc>> /\ KUnch /\ Sched(KName(d), "k_reg")
\* RegisterChainKey, then reach the gate of ProcessMessageQueueForDevicePK
KReg(d) == /\ kpc[d] = "k_reg" /\ keyKnown' = [keyKnown EXCEPT ![d] = TRUE] /\ KSet(d, "P1")
           /\ UNCHANGED <<mq, mqmu, sig, cmu, cexists, cknown, pq, pqmu, knext, lpc>> /\ KUnch /\ Sched(KName(d), "P1")
\* gate Lock(muDeviceCaches): refresh the flag; if a cache exists go for its queue
P1(d) == /\ kpc[d] = "P1" /\ cmu = "none"
         /\ IF cexists[d]
              THEN /\ cknown' = [cknown EXCEPT ![d] = keyKnown[d]]
                   /\ IF keyKnown[d] THEN cmu' = KName(d) /\ KSet(d, "P2") ELSE cmu' = "none" /\ KSet(d, "done")
              ELSE /\ UNCHANGED <<cknown, cmu>> /\ KSet(d, "done")
         /\ UNCHANGED <<mq, mqmu, sig, cexists, pq, pqmu, keyKnown, knext, lpc>> /\ KUnch /\ Sched(KName(d), kpc'[d])
\* device.queue.Next() / NextAll(): gate Lock(pq.muMessages) while holding muDeviceCaches
P2(d) == /\ kpc[d] = "P2" /\ pqmu[d] = "none"
         /\ IF pq[d] = {} THEN /\ cmu' = "none" /\ KSet(d, "done") /\ UNCHANGED <<pq, pqmu, knext>>
            ELSE IF RequeueAll
              THEN /\ knext' = [knext EXCEPT ![d] = Sorted(pq[d])] /\ pq' = [pq EXCEPT ![d] = {}]
                   /\ pqmu' = [pqmu EXCEPT ![d] = KName(d)]                   \* NextAll keeps the queue's lock while it hands the items over
                   /\ KSet(d, "KA_lock") /\ UNCHANGED cmu
              ELSE /\ knext' = [knext EXCEPT ![d] = <<MinOf(pq[d])>>] /\ pq' = [pq EXCEPT ![d] = @ \ {MinOf(pq[d])}]
                   /\ KSet(d, "KA_lock") /\ UNCHANGED <<cmu, pqmu>>
         /\ UNCHANGED <<mq, mqmu, sig, cexists, cknown, keyKnown, lpc>> /\ KUnch /\ Sched(KName(d), kpc'[d])
KALock(d) == /\ kpc[d] = "KA_lock" /\ mqmu = "none" /\ mqmu' = KName(d)
             /\ mq' = Append(mq, Head(knext[d])) /\ KSet(d, "KA_sel")
             /\ UNCHANGED <<sig, cmu, cexists, cknown, pq, pqmu, keyKnown, knext, lpc>> /\ KUnch /\ Sched(KName(d), "KA_sel")
KASel(d) == /\ kpc[d] = "KA_sel"
            /\ lpc' = SigLoopPc /\ sig' = SigBuf /\ mqmu' = "none"
            /\ knext' = [knext EXCEPT ![d] = Tail(@)]
            /\ IF Len(knext[d]) > 1 THEN /\ KSet(d, "KA_lock") /\ UNCHANGED <<cmu, pqmu>>
               ELSE /\ cmu' = "none" /\ KSet(d, "done")
                    /\ pqmu' = [pqmu EXCEPT ![d] = IF @ = KName(d) THEN "none" ELSE @]
            /\ UNCHANGED <<mq, cexists, cknown, pq, keyKnown>> /\ KUnch /\ Sched(KName(d), kpc'[d])

\* ------------------------------------------------------------------ canceller
CStart == /\ cpc = "start" /\ cpc' = "c_cancel"
          /\ UNCHANGED <<mq, mqmu, sig, cmu, cexists, cknown, pq, pqmu, keyKnown, delivered, ncached, done, apc, ai, lpc, lcur, lrest, kpc, knext>>
          /\ Sched("cancel", "c_cancel")
Cancel == /\ cpc = "c_cancel" /\ cpc' = "done" /\ done' = TRUE
          /\ lpc' = IF lpc = "w_parked" THEN "w_relock" ELSE lpc
          /\ UNCHANGED <<mq, mqmu, sig, cmu, cexists, cknown, pq, pqmu, keyKnown, delivered, ncached, apc, ai, lcur, lrest, kpc, knext>>
          /\ Sched("cancel", "done")

Next == \/ AStart \/ ALock \/ ASel
        \/ LStart \/ WLock \/ WSel \/ G1 \/ PA \/ PF \/ FALock \/ FASel
        \/ \E d \in Devs : KStart(d) \/ KReg(d) \/ P1(d) \/ P2(d) \/ KALock(d) \/ KASel(d)
        \/ CStart \/ Cancel
Spec == Init /\ [][Next]_vars

Quiescent == ~ ENABLED Next
-----------------------------------------------------------------------------
\* C08
InQueue == {mq[i] : i \in DOMAIN mq}
Parked == UNION {pq[d] : d \in Devs}
Arrived == {Arr[i] : i \in 1..(ai - 1)}
DeliveredSet == {delivered[i] : i \in DOMAIN delivered}
Decryptable(m) == keyKnown[DevOf[m]] /\ InWin(m)
\* nothing decryptable stays behind once nothing can move any more
NoStranded == (Quiescent /\ ~done) => \A m \in Parked \cup InQueue : ~Decryptable(m)
\* every decryptable message that arrived has been delivered, and at most once per arrival
AllDelivered == (Quiescent /\ ~done) => \A m \in Arrived : Decryptable(m) => m \in DeliveredSet
AtMostOnce == Cardinality(DeliveredSet) = Len(delivered)
OnlyDecryptable == \A m \in DeliveredSet : Decryptable(m)
NoDeadlock == Quiescent => /\ apc = "done" /\ lpc \in {"w_parked", "done"}
                           /\ \A d \in Devs : kpc[d] \in {"none", "done"}
Dump == Quiescent => PrintT(<<"SCRIPT", ToJson(h \o <<[d |-> "-", act |-> "final", to |-> "-", si |-> si,
                                 delivered |-> delivered, parked |-> Parked, inqueue |-> mq]>>)>>)
=============================================================================
