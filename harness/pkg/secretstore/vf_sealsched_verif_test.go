//go:build verif

package secretstore_test

// Lock-level controlled schedules for C09: the secret store's own files are instrumented
// (every Lock/RLock is a scheduling gate), N tasks seal concurrently on a store that was
// (optionally) re-created over an already populated datastore, and the cooperative scheduler
// imposes the interleaving.  Complements the datastore-gated schedules of vf_race_verif_test.go.

import (
	"context"
	"fmt"
	"sort"
	"testing"

	"github.com/ipfs/go-datastore"
	dssync "github.com/ipfs/go-datastore/sync"

	"berty.tech/weshnet/v2/internal/verifsched"
	"berty.tech/weshnet/v2/pkg/protocoltypes"
	"berty.tech/weshnet/v2/pkg/secretstore"
)

// vfGateDS puts a scheduling gate in front of every datastore read and write made by a registered
// thread, so that the inside of a critical section can be interleaved too (if its lock fails to exclude)
type vfGateDS struct{ datastore.Datastore }

func (g vfGateDS) Get(ctx context.Context, k datastore.Key) ([]byte, error) {
	verifsched.Point("ds:get")
	return g.Datastore.Get(ctx, k)
}

func (g vfGateDS) Put(ctx context.Context, k datastore.Key, v []byte) error {
	verifsched.Point("ds:put")
	return g.Datastore.Put(ctx, k, v)
}

func vfSealSchedRun(sc vfScript) []map[string]any {
	ctx := context.Background()
	nthr, _ := vfNum(sc.Cfg, "threads")
	nmsg, _ := vfNum(sc.Cfg, "msgs")
	warm, _ := vfNum(sc.Cfg, "warm")
	restart, _ := vfBool(sc.Cfg, "restart")
	redeliver, _ := vfBool(sc.Cfg, "redeliver") // the device's own chain-key announcement (taken at counter 0) comes back again and again
	ds := dssync.MutexWrap(datastore.NewMapDatastore())
	mk := func() secretstore.SecretStore {
		s, err := secretstore.NewSecretStore(vfGateDS{ds}, nil)
		if err != nil {
			vfInfra("secret store: %v", err)
		}
		return s
	}
	s := mk()
	g, _, err := protocoltypes.NewGroupMultiMember()
	if err != nil {
		vfInfra("group: %v", err)
	}
	if err := s.PutGroup(ctx, g); err != nil {
		vfInfra("put group: %v", err)
	}
	var ann0 []byte
	if redeliver {
		omd0, err := s.GetOwnMemberDeviceForGroup(g)
		if err != nil {
			vfInfra("own member device: %v", err)
		}
		if ann0, err = s.GetShareableChainKey(ctx, g, omd0.Member()); err != nil {
			vfInfra("own announcement: %v", err)
		}
	}
	for i := 0; i < warm; i++ {
		if _, err := s.SealEnvelope(ctx, g, []byte{1}); err != nil {
			vfInfra("warm-up seal: %v", err)
		}
	}
	if restart {
		s = mk() // a new store instance over the populated datastore: nothing was used single-threaded yet
	}
	omd, err := s.GetOwnMemberDeviceForGroup(g)
	if err != nil {
		vfInfra("own member device: %v", err)
	}
	gpk, _ := g.GetPubKey()
	if redeliver {
		_ = s.RegisterChainKey(ctx, g, omd.Device(), ann0) // as the group context does on GroupDeviceChainKeyAdded and on every reopen
	}
	c := verifsched.New()
	counters := make([][]int, nthr)
	errs := 0
	for t := 0; t < nthr; t++ {
		t := t
		c.Spawn(fmt.Sprintf("t%d", t+1), func() {
			for j := 0; j < nmsg; j++ {
				env, err := s.SealEnvelope(ctx, g, []byte{byte(t), byte(j)})
				if err != nil {
					errs++
					continue
				}
				_, h, err := s.OpenEnvelopeHeaders(env, g)
				if err != nil {
					errs++
					continue
				}
				counters[t] = append(counters[t], int(h.Counter))
				if redeliver {
					_ = s.RegisterChainKey(ctx, g, omd.Device(), ann0)
				}
			}
		})
	}
	out := []map[string]any{{"ev": "reset", "id": sc.ID}}
	nsteps := 0
	for _, st := range sc.Steps {
		if _, ok := c.Step(st.D); ok {
			nsteps++
		}
	}
	extra := 0
	for extra < 2000 {
		progressed := false
		for _, n := range c.Names() {
			if c.States()[n].Kind != "gate" {
				continue
			}
			r, ok := c.Step(n)
			extra++
			if ok && r.Progress {
				progressed = true
			}
		}
		if !progressed {
			break
		}
	}
	st := c.States()
	atgate := []string{}
	for n, x := range st {
		if x.Kind != "done" {
			atgate = append(atgate, n+":"+x.Kind+":"+x.Label)
		}
	}
	sort.Strings(atgate)
	all := []int{}
	for _, cs := range counters {
		all = append(all, cs...)
	}
	sort.Ints(all)
	stored := vfProjCK(ctx, ds, vfRaw(gpk), vfRaw(omd.Device()))
	out = append(out, map[string]any{"ev": "sealfinal", "threads": nthr, "msgs": nmsg, "first": warm, "counters": all,
		"stored": stored, "errs": errs, "notdone": atgate, "steps": nsteps, "extra": extra, "restart": restart})
	c.Close()
	return out
}

func TestVerifSealSched(t *testing.T) {
	scripts := vfLoadScripts(t)
	tr := vfOpenTrace(t)
	defer tr.Close()
	for _, sc := range scripts {
		tr.EmitBlock(vfSealSchedRun(sc))
	}
	t.Logf("VERIF-DONE scripts=%d events=%d", len(scripts), tr.n)
}
