//go:build verif

package secretstore_test

// A small "world" of real secret stores sharing one group, used by the
// ratchet / envelope / chain-key drivers.  Only the public API of
// pkg/secretstore is used; datastores are supplied by the driver so that
// their content can be projected to the abstract state of specs/Ratchet.tla.

import (
	"context"
	"encoding/base64"
	"encoding/hex"
	"fmt"
	"strconv"
	"strings"
	"testing"

	"github.com/ipfs/go-cid"
	"github.com/ipfs/go-datastore"
	"github.com/ipfs/go-datastore/query"
	dssync "github.com/ipfs/go-datastore/sync"
	"github.com/libp2p/go-libp2p/core/crypto"
	mh "github.com/multiformats/go-multihash"
	"google.golang.org/protobuf/proto"

	"berty.tech/weshnet/v2/pkg/protocoltypes"
	"berty.tech/weshnet/v2/pkg/secretstore"
)

type vfStore struct {
	name string
	ds   datastore.Datastore
	ss   secretstore.SecretStore
	omd  secretstore.OwnMemberDevice
}

type vfWorld struct {
	t       testing.TB
	ctx     context.Context
	gtype   string // "multi" | "account" | "contact"
	g       *protocoltypes.Group
	gpk     crypto.PubKey
	recv    *vfStore
	senders map[string]*vfStore
	w, n    int
}

func vfNewStore(t testing.TB, name string, w, n int, ds datastore.Datastore) *vfStore {
	if ds == nil {
		ds = dssync.MutexWrap(datastore.NewMapDatastore())
	}
	ss, err := secretstore.NewSecretStore(ds, &secretstore.NewSecretStoreOptions{PreComputedKeysCount: w, PrecomputeOutOfStoreGroupRefsCount: n})
	if err != nil {
		vfInfra(" new secret store: %v", err)
	}
	return &vfStore{name: name, ds: ds, ss: ss}
}

func vfMust(t testing.TB, err error, what string) {
	if err != nil {
		vfInfra(" %s: %v", what, err)
	}
}

// vfNewWorld builds a receiver and the named sender devices in a group of the given type.
// account: all stores are devices of one account; contact: senders are devices of account A,
// the receiver is a device of account B; multi: independent accounts in a multi-member group.
func vfNewWorld(t testing.TB, gtype string, devs []string, w, n int) *vfWorld {
	ctx := context.Background()
	wd := &vfWorld{t: t, ctx: ctx, gtype: gtype, senders: map[string]*vfStore{}, w: w, n: n}
	wd.recv = vfNewStore(t, "R", w, n, nil)
	for _, d := range devs {
		wd.senders[d] = vfNewStore(t, d, w, n, nil)
	}
	share := func(from *vfStore, to ...*vfStore) {
		a, p, err := from.ss.ExportAccountKeysForBackup()
		vfMust(t, err, "export")
		for _, s := range to {
			vfMust(t, s.ss.ImportAccountKeys(a, p), "import")
		}
	}
	var sl []*vfStore
	for _, d := range devs {
		sl = append(sl, wd.senders[d])
	}
	switch gtype {
	case "multi":
		g, _, err := protocoltypes.NewGroupMultiMember()
		vfMust(t, err, "new group")
		wd.g = g
	case "account":
		share(wd.recv, sl...)
		g, _, err := wd.recv.ss.GetGroupForAccount()
		vfMust(t, err, "account group")
		wd.g = g
	case "contact":
		if len(sl) > 1 {
			share(sl[0], sl[1:]...)
		}
		_, omdA, err := sl[0].ss.GetGroupForAccount()
		vfMust(t, err, "account group A")
		g, err := wd.recv.ss.GetGroupForContact(omdA.Member())
		vfMust(t, err, "contact group")
		wd.g = g
	default:
		vfInfra(" unknown group type %q", gtype)
	}
	var err error
	wd.gpk, err = wd.g.GetPubKey()
	vfMust(t, err, "group pk")
	for _, s := range append([]*vfStore{wd.recv}, sl...) {
		vfMust(t, s.ss.PutGroup(ctx, wd.g), "put group")
		s.omd, err = s.ss.GetOwnMemberDeviceForGroup(wd.g)
		vfMust(t, err, "own member device")
	}
	return wd
}

func vfCID(b []byte) cid.Cid {
	h, _ := mh.Sum(b, mh.SHA2_256, -1)
	return cid.NewCidV1(cid.Raw, h)
}

func vfRaw(k crypto.PubKey) []byte { b, _ := k.Raw(); return b }

func vfEncMsg(plain []byte) []byte {
	b, _ := proto.Marshal(&protocoltypes.EncryptedMessage{Plaintext: plain})
	return b
}

// ---- projection of a receiver datastore to the abstract ratchet state ----

func vfProjCK(ctx context.Context, ds datastore.Datastore, gpk, dpk []byte) int {
	k := datastore.KeyWithNamespaces([]string{"chainKeyForDeviceOnGroup", hex.EncodeToString(gpk), hex.EncodeToString(dpk)})
	b, err := ds.Get(ctx, k)
	if err != nil {
		return -1
	}
	ck := &protocoltypes.DeviceChainKey{}
	if proto.Unmarshal(b, ck) != nil {
		return -2
	}
	return int(ck.Counter)
}

func vfProjPre(ctx context.Context, ds datastore.Datastore, gpk, dpk []byte) []int {
	prefix := datastore.KeyWithNamespaces([]string{"precomputedMessageKeys", hex.EncodeToString(gpk), hex.EncodeToString(dpk)}).String()
	res, err := ds.Query(ctx, query.Query{Prefix: prefix, KeysOnly: true})
	out := []int{}
	if err != nil {
		return out
	}
	ents, _ := res.Rest()
	for _, e := range ents {
		p := strings.Split(e.Key, "/")
		if c, err := strconv.ParseUint(p[len(p)-1], 10, 64); err == nil {
			out = append(out, int(c))
		}
	}
	return out
}

func vfProjHasCID(ctx context.Context, ds datastore.Datastore, c cid.Cid) bool {
	ok, _ := ds.Has(ctx, datastore.KeyWithNamespaces([]string{"messageKeyForCIDs", c.String()}))
	return ok
}

func vfProjRefs(ctx context.Context, ds datastore.Datastore, gpk, dpk []byte) []int {
	k := datastore.KeyWithNamespaces([]string{"outOfStoreGroupHintCounters", base64.RawURLEncoding.EncodeToString(gpk), base64.RawURLEncoding.EncodeToString(dpk)})
	b, err := ds.Get(ctx, k)
	if err != nil {
		return []int{0, 0}
	}
	fl := &protocoltypes.FirstLastCounters{}
	if proto.Unmarshal(b, fl) != nil {
		return []int{0, 0}
	}
	return []int{int(int64(fl.First)), int(int64(fl.Last))}
}

func vfCountPrefix(ctx context.Context, ds datastore.Datastore, ns string) int {
	res, err := ds.Query(ctx, query.Query{Prefix: "/" + ns, KeysOnly: true})
	if err != nil {
		return -1
	}
	ents, _ := res.Rest()
	return len(ents)
}

var _ = fmt.Sprintf
