//go:build verif

package secretstore_test

// C11 driver: replays TLC-generated scripts of specs/KeyDerivation.tla (any order of
// GetGroupForAccount / GetGroupForContact / GetOwnMemberDeviceForGroup / ExportAccountKeysForBackup /
// ImportAccountKeys over stores S1..S3, blobs valid / swapped / equal / malformed or of a foreign key
// type) on fresh real secret stores with fresh random accounts per script, and the single abstract
// script "derive both ways" on many random accounts (mode "pairs").  Every value observed through the
// public API is interned (equal bytes <-> equal number, per script); which account / proof key a store
// holds is read back from the keystore namespace of the datastore the driver supplied (no side effect).

import (
	"context"
	crand "crypto/rand"
	"fmt"
	"sync"
	"testing"

	"github.com/ipfs/go-datastore"
	dssync "github.com/ipfs/go-datastore/sync"
	"github.com/libp2p/go-libp2p/core/crypto"

	"berty.tech/weshnet/v2/pkg/protocoltypes"
	"berty.tech/weshnet/v2/pkg/secretstore"
)

type vfKStore struct {
	ds datastore.Datastore
	ss secretstore.SecretStore
}

type vfKWorld struct {
	ctx    context.Context
	st     map[string]*vfKStore
	ids    map[string]int
	groups map[string]*protocoltypes.Group
	exp    map[string][2][]byte
}

func (w *vfKWorld) id(b []byte) int {
	if len(b) == 0 {
		return 0
	}
	if v, ok := w.ids[string(b)]; ok {
		return v
	}
	w.ids[string(b)] = len(w.ids) + 1
	return len(w.ids)
}

func (w *vfKWorld) store(name string) *vfKStore {
	if s, ok := w.st[name]; ok {
		return s
	}
	ds := dssync.MutexWrap(datastore.NewMapDatastore())
	ss, err := secretstore.NewSecretStore(ds, nil)
	if err != nil {
		vfInfra(" new secret store: %v", err)
	}
	w.st[name] = &vfKStore{ds: ds, ss: ss}
	return w.st[name]
}

// peek reads a named private key straight from the keystore namespace; nil when absent
func (w *vfKWorld) peek(s *vfKStore, name string) crypto.PrivKey {
	b, err := s.ds.Get(w.ctx, datastore.NewKey("/device_keystore/"+name))
	if err != nil {
		return nil
	}
	k, err := crypto.UnmarshalPrivateKey(b)
	if err != nil {
		return nil
	}
	return k
}

func (w *vfKWorld) pubID(k crypto.PrivKey) int {
	if k == nil {
		return 0
	}
	return w.id(vfRaw(k.GetPublic()))
}

func (w *vfKWorld) group(name string) *protocoltypes.Group {
	if g, ok := w.groups[name]; ok {
		return g
	}
	g, _, err := protocoltypes.NewGroupMultiMember()
	if err != nil {
		vfInfra(" new group: %v", err)
	}
	w.groups[name] = g
	return g
}

// malformed / foreign blobs: (label, account blob, proof blob) built around a valid export
func vfBadBlobs(a, p []byte) [][3]any {
	mk := func(gen func() (crypto.PrivKey, crypto.PubKey, error)) []byte {
		k, _, err := gen()
		if err != nil {
			vfInfra(" key generation: %v", err)
		}
		b, err := crypto.MarshalPrivateKey(k)
		if err != nil {
			vfInfra(" marshal: %v", err)
		}
		return b
	}
	vfRSAOnce.Do(func() { // RSA generation is slow: one foreign RSA key per process
		vfRSAOnce.blob = mk(func() (crypto.PrivKey, crypto.PubKey, error) { return crypto.GenerateRSAKeyPair(2048, crand.Reader) })
	})
	rsa := vfRSAOnce.blob
	secp := mk(func() (crypto.PrivKey, crypto.PubKey, error) { return crypto.GenerateSecp256k1Key(crand.Reader) })
	ecdsa := mk(func() (crypto.PrivKey, crypto.PubKey, error) { return crypto.GenerateECDSAKeyPair(crand.Reader) })
	trunc := append([]byte(nil), a[:len(a)-3]...)
	flip := append([]byte(nil), a...)
	flip[0] ^= 0x40
	return [][3]any{
		{"rsa1", rsa, p}, {"rsa2", a, rsa}, {"secp1", secp, p}, {"secp2", a, secp}, {"ecdsa1", ecdsa, p}, {"ecdsa2", a, ecdsa},
		{"garbage1", []byte("garbage"), p}, {"garbage2", a, []byte("garbage")}, {"nil1", []byte(nil), p}, {"nil2", a, []byte(nil)},
		{"empty2", a, []byte{}}, {"trunc1", trunc, p}, {"typebyte1", flip, p}, {"bothforeign", secp, rsa},
	}
}

var vfRSAOnce struct {
	sync.Once
	blob []byte
}

func vfKeyDerivRun(sc vfScript) []map[string]any {
	w := &vfKWorld{ctx: context.Background(), st: map[string]*vfKStore{}, ids: map[string]int{}, groups: map[string]*protocoltypes.Group{}, exp: map[string][2][]byte{}}
	out := []map[string]any{{"ev": "reset", "id": sc.ID}}
	base := func(ev, s string) map[string]any {
		return map[string]any{"ev": ev, "s": s, "d": "", "g": "", "kind": "", "ok": false,
			"gid": 0, "gsecret": 0, "gtype": 0, "member": 0, "device": 0, "proofpub": 0, "grp": 0, "peer": 0, "a": 0, "p": 0, "apub": 0, "ppub": 0, "had": ""}
	}
	fin := func(l map[string]any, s *vfKStore) map[string]any {
		l["acct"] = w.pubID(w.peek(s, "accountSK"))
		l["proof"] = w.pubID(w.peek(s, "accountProofSK"))
		return l
	}
	for _, stp := range sc.Steps {
		s := w.store(stp.S)
		switch stp.Act {
		case "account":
			l := base("account", stp.S)
			g, omd, err := s.ss.GetGroupForAccount()
			if err == nil {
				l["ok"] = true
				l["gid"], l["gsecret"], l["gtype"] = w.id(g.PublicKey), w.id(g.Secret), int(g.GroupType)
				l["member"], l["device"] = w.id(vfRaw(omd.Member())), w.id(vfRaw(omd.Device()))
				if pp, err := s.ss.GetAccountProofPublicKey(); err == nil {
					l["proofpub"] = w.id(vfRaw(pp))
				}
			}
			out = append(out, fin(l, s))
		case "contact":
			l := base("contact", stp.S)
			l["d"] = stp.D
			pk := w.peek(w.store(stp.D), "accountSK")
			if pk == nil {
				vfInfra(" script derives a contact group for a peer without account key: %v", stp)
			}
			l["peer"] = w.id(vfRaw(pk.GetPublic()))
			g, err := s.ss.GetGroupForContact(pk.GetPublic())
			if err == nil {
				l["ok"] = true
				l["grp"], l["gid"], l["gsecret"], l["gtype"] = w.id(vfGroupBytes(g)), w.id(g.PublicKey), w.id(g.Secret), int(g.GroupType)
			}
			out = append(out, fin(l, s))
		case "member":
			l := base("member", stp.S)
			gname, _ := stp.A["g"].(string)
			l["g"] = gname
			omd, err := s.ss.GetOwnMemberDeviceForGroup(w.group(gname))
			if err == nil {
				l["ok"] = true
				l["member"], l["device"] = w.id(vfRaw(omd.Member())), w.id(vfRaw(omd.Device()))
			}
			out = append(out, fin(l, s))
		case "export":
			l := base("export", stp.S)
			a, p, err := s.ss.ExportAccountKeysForBackup()
			if err == nil {
				l["ok"] = true
				w.exp[stp.S] = [2][]byte{a, p}
				l["a"], l["p"] = w.id(a), w.id(p)
				if k, err := crypto.UnmarshalPrivateKey(a); err == nil {
					l["apub"] = w.pubID(k)
				}
				if k, err := crypto.UnmarshalPrivateKey(p); err == nil {
					l["ppub"] = w.pubID(k)
				}
			}
			out = append(out, fin(l, s))
		case "import":
			e, ok := w.exp[stp.D]
			if !ok {
				vfInfra(" script imports a blob that was never exported: %v", stp)
			}
			kind, _ := stp.A["kind"].(string)
			var tries [][3]any
			switch kind {
			case "valid":
				tries = [][3]any{{"valid", e[0], e[1]}}
			case "swapped":
				tries = [][3]any{{"swapped", e[1], e[0]}}
			case "equal":
				tries = [][3]any{{"equal", e[0], e[0]}, {"equal", e[1], e[1]}}
			case "bad":
				tries = vfBadBlobs(e[0], e[1])
				if sc.ID%4 != 0 { // the whole catalogue on every 4th script, three rotating entries otherwise
					i := sc.ID % (len(tries) - 2)
					tries = tries[i : i+3]
				}
			default:
				vfInfra(" unknown blob kind %q", kind)
			}
			for _, t := range tries {
				l := base("import", stp.S)
				l["d"], l["kind"] = stp.D, t[0]
				had := "fresh"
				if w.peek(s, "accountSK") != nil {
					had = "acct"
				} else if w.peek(s, "accountProofSK") != nil {
					had = "proof"
				}
				l["had"] = had
				err := s.ss.ImportAccountKeys(t[1].([]byte), t[2].([]byte))
				l["ok"] = err == nil
				out = append(out, fin(l, s))
			}
		default:
			vfInfra(" unknown action %q", stp.Act)
		}
	}
	return out
}

// mode "pairs": K fresh accounts, every ordered pair derives the contact group (both ways for every
// unordered pair), every account also derives its member device for one group from two devices
func vfKeyDerivPairs(sc vfScript) []map[string]any {
	k, _ := vfNum(sc.Cfg, "accounts")
	steps := []vfStep{}
	name := func(i int) string { return fmt.Sprintf("S%d", i+1) }
	for i := 0; i < k; i++ {
		steps = append(steps, vfStep{Act: "account", S: name(i)})
	}
	for i := 0; i < k; i++ {
		for j := 0; j < k; j++ {
			if i != j {
				steps = append(steps, vfStep{Act: "contact", S: name(i), D: name(j)})
			}
		}
	}
	// second device of account 1: import, then both ways again with the cached / recomputed paths crossed
	steps = append(steps, vfStep{Act: "export", S: name(0)}, vfStep{Act: "import", S: name(k), D: name(0), A: map[string]any{"kind": "valid"}},
		vfStep{Act: "member", S: name(0), A: map[string]any{"g": "g1"}}, vfStep{Act: "member", S: name(k), A: map[string]any{"g": "g1"}})
	for j := 1; j < k; j++ {
		steps = append(steps, vfStep{Act: "contact", S: name(k), D: name(j)})
	}
	sc.Steps = steps
	return vfKeyDerivRun(sc)
}

func TestVerifKeyDeriv(t *testing.T) {
	scripts := vfLoadScripts(t)
	tr := vfOpenTrace(t)
	defer tr.Close()
	var wg sync.WaitGroup
	ch := make(chan vfScript, 64)
	for w := 0; w < 16; w++ {
		wg.Add(1)
		go func() {
			defer wg.Done()
			for sc := range ch {
				if m, _ := sc.Cfg["mode"].(string); m == "pairs" {
					tr.EmitBlock(vfKeyDerivPairs(sc))
				} else {
					tr.EmitBlock(vfKeyDerivRun(sc))
				}
			}
		}()
	}
	for _, sc := range scripts {
		ch <- sc
	}
	close(ch)
	wg.Wait()
	t.Logf("VERIF-DONE scripts=%d events=%d", len(scripts), tr.n)
}
