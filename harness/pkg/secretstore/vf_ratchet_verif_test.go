//go:build verif

package secretstore_test

// Driver for specs/Ratchet.tla (C02, C05b, C14): replays TLC-generated scripts on real
// secret stores and records, per step, the observed outcome and the projected datastore
// state of the receiver.

import (
	"bytes"
	"sort"
	"sync"
	"testing"

	"github.com/ipfs/go-cid"
	"google.golang.org/protobuf/proto"

	"berty.tech/weshnet/v2/pkg/protocoltypes"
)

type vfMsg struct {
	env     []byte
	cid     cid.Cid
	payload []byte
	k       int
}

func vfRatchetRun(t testing.TB, sc vfScript, gtypes []string) []map[string]any {
	w, _ := vfNum(sc.Cfg, "W")
	n, _ := vfNum(sc.Cfg, "N")
	devset := map[string]bool{}
	var devs []string
	for _, st := range sc.Steps {
		if !devset[st.D] {
			devset[st.D] = true
			devs = append(devs, st.D)
		}
	}
	sort.Strings(devs)
	gtype := gtypes[sc.ID%len(gtypes)]
	wd := vfNewWorld(t, gtype, devs, w, n)
	ctx := wd.ctx
	rnd := vfRand(int64(sc.ID))
	gpkRaw := vfRaw(wd.gpk)
	msgs := map[string]map[int]*vfMsg{}
	anns := map[string]map[int][]byte{}
	sent := map[string]int{}
	for _, d := range devs {
		msgs[d] = map[int]*vfMsg{}
		anns[d] = map[int][]byte{}
	}
	out := []map[string]any{{"ev": "reset", "id": sc.ID, "gtype": gtype}}
	proj := func(d string) map[string]any {
		dpk := vfRaw(wd.senders[d].omd.Device())
		pre := vfProjPre(ctx, wd.recv.ds, gpkRaw, dpk)
		sort.Ints(pre)
		cids := []int{}
		for k, m := range msgs[d] {
			if vfProjHasCID(ctx, wd.recv.ds, m.cid) {
				cids = append(cids, k)
			}
		}
		sort.Ints(cids)
		return map[string]any{"ck": vfProjCK(ctx, wd.recv.ds, gpkRaw, dpk), "pre": pre, "cid": cids, "refs": vfProjRefs(ctx, wd.recv.ds, gpkRaw, dpk)}
	}
	// results handed to the caller are kept and compared again after every later call: what an open
	// returned must stay the original payload (a result that aliases a buffer the store reuses does not)
	type vfKept struct {
		got  func() []byte
		want []byte
	}
	var kept []vfKept
	keptOK := func() bool {
		for _, k := range kept {
			if !bytes.Equal(k.got(), k.want) {
				return false
			}
		}
		return true
	}
	for i, st := range sc.Steps {
		s := wd.senders[st.D]
		ev := map[string]any{"ev": st.Act, "d": st.D, "i": i}
		switch st.Act {
		case "seal":
			payload := vfEncMsg(vfPayload(rnd, sc.ID+i))
			env, err := s.ss.SealEnvelope(ctx, wd.g, payload)
			vfMust(t, err, "seal")
			_, hdr, err := s.ss.OpenEnvelopeHeaders(env, wd.g)
			vfMust(t, err, "sender opens own headers")
			k := int(hdr.Counter)
			msgs[st.D][k] = &vfMsg{env: env, cid: vfCID(env), payload: payload, k: k}
			sent[st.D]++
			ev["k"] = k
		case "announce":
			a, err := s.ss.GetShareableChainKey(ctx, wd.g, wd.recv.omd.Member())
			vfMust(t, err, "shareable chain key")
			anns[st.D][sent[st.D]] = a
			ev["a"] = sent[st.D]
		case "register":
			a, ok := anns[st.D][st.X]
			if !ok {
				vfInfra(" script registers unknown announcement %v", st)
			}
			err := wd.recv.ss.RegisterChainKey(ctx, wd.g, s.omd.Device(), a)
			ev["a"] = st.X
			ev["ok"] = err == nil
			ev["st"] = proj(st.D)
		case "open":
			m := msgs[st.D][st.X]
			ev["k"] = st.X
			okv := false
			if menv, hdr, err := wd.recv.ss.OpenEnvelopeHeaders(m.env, wd.g); err == nil {
				em, err := wd.recv.ss.OpenEnvelopePayload(ctx, menv, hdr, wd.gpk, wd.recv.omd.Device(), m.cid)
				if err == nil {
					okv = true
					got, _ := proto.Marshal(em)
					ev["pk"] = int(hdr.Counter)
					ev["pdev"] = bytes.Equal(hdr.DevicePk, vfRaw(s.omd.Device()))
					ev["same"] = bytes.Equal(got, m.payload)
					want := m.payload
					kept = append(kept, vfKept{got: func() []byte { b, _ := proto.Marshal(em); return b }, want: want})
				}
			} else {
				ev["hdrerr"] = true
			}
			ev["ok"] = okv
			ev["kept"] = keptOK()
			ev["st"] = proj(st.D)
		case "push":
			m := msgs[st.D][st.X]
			ev["k"] = st.X
			menv, hdr, err := s.ss.OpenEnvelopeHeaders(m.env, wd.g)
			vfMust(t, err, "sender headers")
			oos, err := s.ss.SealOutOfStoreMessageEnvelope(m.cid, menv, hdr, wd.g)
			vfMust(t, err, "seal push")
			b, _ := proto.Marshal(oos)
			om, g2, clear, already, err := wd.recv.ss.OpenOutOfStoreMessage(ctx, b)
			ev["ok"] = err == nil
			if err == nil {
				ev["already"] = already
				ev["pk"] = int(om.Counter)
				ev["pdev"] = bytes.Equal(om.DevicePk, vfRaw(s.omd.Device()))
				ev["same"] = bytes.Equal(clear, m.payload)
				ev["pgroup"] = g2 != nil && bytes.Equal(g2.PublicKey, wd.g.PublicKey)
				want := m.payload
				kept = append(kept, vfKept{got: func() []byte { return clear }, want: want})
			}
			ev["kept"] = keptOK()
			ev["st"] = proj(st.D)
		case "refs":
			err := wd.recv.ss.UpdateOutOfStoreGroupReferences(ctx, vfRaw(s.omd.Device()), uint64(st.X), wd.g)
			ev["x"] = st.X
			ev["ok"] = err == nil
			ev["st"] = proj(st.D)
		default:
			vfInfra(" unknown action %q", st.Act)
		}
		out = append(out, ev)
	}
	return out
}

func TestVerifRatchetReplay(t *testing.T) {
	scripts := vfLoadScripts(t)
	tr := vfOpenTrace(t)
	defer tr.Close()
	gtypes := []string{"multi", "contact", "account"}
	var wg sync.WaitGroup
	ch := make(chan vfScript, 64)
	for w := 0; w < 16; w++ {
		wg.Add(1)
		go func() {
			defer wg.Done()
			for sc := range ch {
				tr.EmitBlock(vfRatchetRun(t, sc, gtypes))
			}
		}()
	}
	for _, sc := range scripts {
		ch <- sc
	}
	close(ch)
	wg.Wait()
	t.Logf("VERIF-DONE scripts=%d events=%d", len(scripts), tr.n)
}

var _ = protocoltypes.GroupType_GroupTypeAccount
