//go:build verif

package secretstore_test

// Driver for specs/Envelope.tla (C01): replays TLC-generated scripts - an honest history, one
// adversary move (a forged envelope assembled field by field, or damage to an honest one) and the
// receiver's calls - on real secret stores: an honest receiver R, honest senders d1 and d2 and an
// attacker store x that is a real member of both groups.  The attacker library below only uses what
// x legitimately has: the group secrets, its own device signing key, and the message keys found in
// ITS OWN datastore (/precomputedMessageKeys/<group>/<device>/<counter>).

import (
	"bytes"
	"context"
	"encoding/hex"
	"fmt"
	"math/rand"
	"os"
	"sort"
	"strconv"
	"strings"
	"sync"
	"testing"

	"github.com/ipfs/go-datastore"
	"github.com/ipfs/go-datastore/query"
	"github.com/libp2p/go-libp2p/core/crypto"
	"golang.org/x/crypto/nacl/secretbox"
	"google.golang.org/protobuf/encoding/protowire"
	"google.golang.org/protobuf/proto"

	"berty.tech/weshnet/v2/pkg/protocoltypes"
	"berty.tech/weshnet/v2/pkg/secretstore"
)

type vfEnvW struct {
	ctx    context.Context
	gtype  string
	shared bool
	stores map[string]*vfStore                                // R d1 d2 x
	groups map[string]*protocoltypes.Group                    // g1 g2
	gpk    map[string]crypto.PubKey                           // group label -> key
	omd    map[string]map[string]secretstore.OwnMemberDevice  // group label -> store -> member/device
	dvOf   map[string]string                                  // hex(device pk) -> device-key label
	pkOf   map[string][]byte                                  // device-key label -> raw pk
	gOfHex map[string]string                                  // hex(group pk) -> group label
}

func vfEnvDK(shared bool, g, d string) string {
	if shared {
		return d
	}
	return g + "." + d
}

// vfEnvNewWorld: g1 = the group of vfNewWorld; g2 = a second group with the same stores:
// account world: a contact group of the same account (same member and device keys, "shared");
// multi / contact world: another multi-member group (device keys differ per group).
func vfEnvNewWorld(t testing.TB, gtype string, w int) *vfEnvW {
	wd := vfNewWorld(t, gtype, []string{"d1", "d2", "x"}, w, w)
	ew := &vfEnvW{ctx: wd.ctx, gtype: gtype, shared: gtype == "account",
		stores: map[string]*vfStore{"R": wd.recv, "d1": wd.senders["d1"], "d2": wd.senders["d2"], "x": wd.senders["x"]},
		groups: map[string]*protocoltypes.Group{"g1": wd.g}, gpk: map[string]crypto.PubKey{}, omd: map[string]map[string]secretstore.OwnMemberDevice{},
		dvOf: map[string]string{}, pkOf: map[string][]byte{}, gOfHex: map[string]string{}}
	switch gtype {
	case "account":
		z := vfNewStore(t, "Z", w, w, nil)
		_, omdZ, err := z.ss.GetGroupForAccount()
		vfMust(t, err, "account Z")
		g2, err := wd.recv.ss.GetGroupForContact(omdZ.Member())
		vfMust(t, err, "contact group with Z")
		ew.groups["g2"] = g2
	default:
		g2, _, err := protocoltypes.NewGroupMultiMember()
		vfMust(t, err, "second group")
		ew.groups["g2"] = g2
	}
	names := []string{"R", "d1", "d2", "x"}
	for _, gl := range []string{"g1", "g2"} {
		g := ew.groups[gl]
		pk, err := g.GetPubKey()
		vfMust(t, err, "group pk")
		ew.gpk[gl] = pk
		ew.gOfHex[hex.EncodeToString(vfRaw(pk))] = gl
		ew.omd[gl] = map[string]secretstore.OwnMemberDevice{}
		for _, n := range names {
			s := ew.stores[n]
			vfMust(t, s.ss.PutGroup(ew.ctx, g), "put group")
			o, err := s.ss.GetOwnMemberDeviceForGroup(g)
			vfMust(t, err, "own member device")
			ew.omd[gl][n] = o
			lab := vfEnvDK(ew.shared, gl, n)
			raw := vfRaw(o.Device())
			if prev, ok := ew.pkOf[lab]; ok && !bytes.Equal(prev, raw) {
				vfInfra(" device key of %s differs between groups in a world assumed to share it", n)
			}
			ew.pkOf[lab] = raw
			ew.dvOf[hex.EncodeToString(raw)] = lab
		}
	}
	// every sender announces (at counter 0) to the receiver and to the attacker, in both groups
	for _, gl := range []string{"g1", "g2"} {
		g := ew.groups[gl]
		for _, sn := range []string{"d1", "d2", "x"} {
			for _, rn := range []string{"R", "x"} {
				if sn == rn {
					continue
				}
				a, err := ew.stores[sn].ss.GetShareableChainKey(ew.ctx, g, ew.omd[gl][rn].Member())
				vfMust(t, err, "announce")
				vfMust(t, ew.stores[rn].ss.RegisterChainKey(ew.ctx, g, ew.omd[gl][sn].Device(), a), "register")
			}
		}
	}
	return ew
}

// ---- attacker library: only x's own datastore, x's own signing key, the group secrets ----

func (ew *vfEnvW) advKey(gl string, devpk []byte, k uint64) (*[32]byte, error) {
	x := ew.stores["x"]
	ghex, dhex, ks := hex.EncodeToString(vfRaw(ew.gpk[gl])), hex.EncodeToString(devpk), strconv.FormatUint(k, 10)
	b, err := x.ds.Get(ew.ctx, datastore.KeyWithNamespaces([]string{"precomputedMessageKeys", ghex, dhex, ks}))
	if err != nil {
		// the layout of the attacker's own datastore may differ from the documented one: look for the
		// entry of this device and counter (preferring one that names the group) before giving up
		res, qerr := x.ds.Query(ew.ctx, query.Query{Prefix: "/precomputedMessageKeys"})
		if qerr == nil {
			ents, _ := res.Rest()
			var cand [][]byte
			for _, e := range ents {
				if strings.HasSuffix(e.Key, "/"+dhex+"/"+ks) {
					if strings.Contains(e.Key, ghex) {
						cand = [][]byte{e.Value}
						break
					}
					cand = append(cand, e.Value)
				}
			}
			if len(cand) == 1 {
				b, err = cand[0], nil
			}
		}
	}
	if err != nil || len(b) != 32 {
		return nil, fmt.Errorf("attacker does not hold message key %s/%x/%d: %v", gl, devpk[:4], k, err)
	}
	var key [32]byte
	copy(key[:], b)
	return &key, nil
}

func vfEnvNonce(k uint64) *[24]byte {
	var n [24]byte
	for i := 0; i < 8; i++ {
		n[7-i] = byte(k >> (8 * uint(i)))
	}
	return &n
}

type vfEnvMsg struct {
	env     []byte
	gl      string
	payload []byte
	plabel  string
	sig     []byte
	learned bool
}

// advLearn: x reads the headers with the group secret and decrypts the body with the key it holds
// (a failure here is not fatal: the forgeries that need this envelope are reported as not built)
func (ew *vfEnvW) advLearn(m *vfEnvMsg) error {
	menv, hdr, err := ew.stores["x"].ss.OpenEnvelopeHeaders(m.env, ew.groups[m.gl])
	if err != nil {
		return fmt.Errorf("attacker cannot read headers of an honest envelope: %v", err)
	}
	key, err := ew.advKey(m.gl, hdr.DevicePk, hdr.Counter)
	if err != nil {
		return err
	}
	clear, ok := secretbox.Open(nil, menv.Message, vfEnvNonce(hdr.Counter), key)
	if !ok || !bytes.Equal(clear, m.payload) {
		return fmt.Errorf("attacker cannot decrypt an honest envelope with the key it holds")
	}
	m.sig = hdr.Sig
	m.learned = true
	return nil
}

func vfEnvAssemble(hdrBox, body, nonce []byte) []byte {
	b, err := proto.Marshal(&protocoltypes.MessageEnvelope{MessageHeaders: hdrBox, Message: body, Nonce: nonce})
	if err != nil {
		vfInfra(" marshal envelope: %v", err)
	}
	return b
}

func vfStr(m map[string]any, k string) string {
	s, _ := m[k].(string)
	return s
}

func (ew *vfEnvW) forge(a map[string]any, rnd *rand.Rand, hon map[string]*vfEnvMsg, payload func(string) []byte) ([]byte, error) {
	hs, dv, pl, sgl := vfStr(a, "hs"), vfStr(a, "dv"), vfStr(a, "pl"), vfStr(a, "sg")
	ct, _ := vfNum(a, "ct")
	bn, _ := vfNum(a, "bn")
	kk, _ := vfNum(a, "kk")
	devpk, ok := ew.pkOf[dv]
	if !ok {
		vfInfra(" unknown device key label %q", dv)
	}
	p := payload(pl)
	var key *[32]byte
	if vfStr(a, "kg") == "junk" {
		key = new([32]byte)
		rnd.Read(key[:])
	} else {
		kpk, ok := ew.pkOf[vfStr(a, "kd")]
		if !ok {
			vfInfra(" unknown key device label %q", vfStr(a, "kd"))
		}
		var err error
		if key, err = ew.advKey(vfStr(a, "kg"), kpk, uint64(kk)); err != nil {
			return nil, err
		}
	}
	// a payload label of an honest envelope is only usable if the attacker could decrypt that envelope
	for _, m := range hon {
		if m.plabel == pl && !m.learned {
			return nil, fmt.Errorf("attacker did not learn payload %s", pl)
		}
	}
	var sig []byte
	if sgl == "own" {
		var err error
		sig, err = ew.omd[hs]["x"].DeviceSign(p)
		vfMust(nil, err, "attacker signs")
	} else {
		m, ok := hon[sgl]
		if !ok {
			vfInfra(" signature source %q unknown", sgl)
		}
		if !m.learned {
			return nil, fmt.Errorf("attacker did not learn the signature of %s", sgl)
		}
		sig = m.sig
	}
	hb, err := proto.Marshal(&protocoltypes.MessageHeaders{Counter: uint64(ct), DevicePk: devpk, Sig: sig})
	vfMust(nil, err, "marshal headers")
	var hn [24]byte
	rnd.Read(hn[:])
	hdrBox := secretbox.Seal(nil, hb, &hn, ew.groups[hs].GetSharedSecret())
	body := secretbox.Seal(nil, p, vfEnvNonce(uint64(bn)), key)
	return vfEnvAssemble(hdrBox, body, hn[:]), nil
}

// ---- concretisation of Tamper(field) ----

type vfEnvSpan struct {
	fld    string
	lo, hi int
}

// vfEnvLayout splits a serialized MessageEnvelope into framing bytes (tags, lengths) and field contents
func vfEnvLayout(b []byte) []vfEnvSpan {
	var out []vfEnvSpan
	names := map[protowire.Number]string{1: "hdr", 2: "body", 3: "nonce"}
	i := 0
	for i < len(b) {
		num, typ, n := protowire.ConsumeTag(b[i:])
		if n < 0 || typ != protowire.BytesType {
			vfInfra(" unexpected envelope wire format")
		}
		_, m := protowire.ConsumeVarint(b[i+n:])
		v, l := protowire.ConsumeBytes(b[i+n:])
		if m < 0 || l < 0 {
			vfInfra(" unexpected envelope wire format (len)")
		}
		out = append(out, vfEnvSpan{"frame", i, i + n + m})
		name, ok := names[num]
		if !ok {
			vfInfra(" unexpected envelope field %d", num)
		}
		out = append(out, vfEnvSpan{name, i + n + m, i + n + m + len(v)})
		i += n + l
	}
	return out
}

// vfEnvBits: the bit positions to flip for one field: all of them when the field is small or the
// payload is <= 64 B, otherwise all bits of the first and last byte plus >= 256 seeded positions
func vfEnvBits(spans []vfEnvSpan, fld string, small bool, rnd *rand.Rand) []int {
	var bits []int
	for _, sp := range spans {
		if sp.fld != fld {
			continue
		}
		n := (sp.hi - sp.lo) * 8
		if small || n <= 4096 {
			for j := 0; j < n; j++ {
				bits = append(bits, sp.lo*8+j)
			}
			continue
		}
		seen := map[int]bool{}
		for j := 0; j < 8; j++ {
			seen[sp.lo*8+j] = true
			seen[(sp.hi-1)*8+j] = true
		}
		for len(seen) < 16+384 {
			seen[sp.lo*8+rnd.Intn(n)] = true
		}
		for k := range seen {
			bits = append(bits, k)
		}
	}
	sort.Ints(bits)
	return bits
}

func vfEnvEmptyField(b []byte, fld string) []byte {
	e := &protocoltypes.MessageEnvelope{}
	if err := proto.Unmarshal(b, e); err != nil {
		vfInfra(" unmarshal honest envelope: %v", err)
	}
	switch fld {
	case "e_nonce":
		e.Nonce = nil
	case "e_hdr":
		e.MessageHeaders = nil
	case "e_body":
		e.Message = nil
	}
	return vfEnvAssemble(e.MessageHeaders, e.Message, e.Nonce)
}

var vfEnvSizesThorough = []int{0, 1, 2, 15, 16, 17, 63, 64, 65, 1024, 4096, 16384, 65536}

func vfEnvSize(i int) int {
	if os.Getenv("VERIF_TIER") == "thorough" {
		return vfEnvSizesThorough[i%len(vfEnvSizesThorough)]
	}
	return vfSizes[i%len(vfSizes)]
}

// ---- projection of the receiver's datastore ----

func (ew *vfEnvW) projPre() [][]any {
	res, err := ew.stores["R"].ds.Query(ew.ctx, query.Query{Prefix: "/precomputedMessageKeys", KeysOnly: true})
	out := [][]any{}
	if err != nil {
		return out
	}
	ents, _ := res.Rest()
	var keys []string
	for _, e := range ents {
		keys = append(keys, e.Key)
	}
	sort.Strings(keys)
	for _, k := range keys {
		p := strings.Split(k, "/")
		if len(p) < 5 {
			continue
		}
		g, okg := ew.gOfHex[p[2]]
		d, okd := ew.dvOf[p[3]]
		c, err := strconv.Atoi(p[4])
		if !okg || !okd || err != nil {
			out = append(out, []any{"?", "?", -1})
			continue
		}
		if strings.HasSuffix(d, "R") { // the receiver's own device is not part of the model
			continue
		}
		out = append(out, []any{g, d, c})
	}
	return out
}

func vfEnvRun(t testing.TB, sc vfScript) []map[string]any {
	w, _ := vfNum(sc.Cfg, "W")
	gtype, _ := sc.Cfg["gtype"].(string)
	ew := vfEnvNewWorld(t, gtype, w)
	ctx := ew.ctx
	rnd := vfRand(int64(sc.ID)*7919 + 17)
	R := ew.stores["R"]
	hon := map[string]*vfEnvMsg{}
	var honOrder []string
	pbytes := map[string][]byte{}
	var plabels []string
	payload := func(l string) []byte {
		if b, ok := pbytes[l]; ok {
			return b
		}
		n := vfEnvSize(sc.ID + len(plabels))
		raw := make([]byte, n)
		rnd.Read(raw)
		b := vfEncMsg(raw)
		if b == nil {
			b = []byte{}
		}
		pbytes[l] = b
		plabels = append(plabels, l)
		return b
	}
	plabelOf := func(b []byte) string {
		for _, l := range plabels {
			if bytes.Equal(pbytes[l], b) {
				return l
			}
		}
		return "?"
	}
	var forged []byte
	var tBase *vfEnvMsg
	var tFld string
	out := []map[string]any{{"ev": "reset", "id": sc.ID, "gtype": gtype}}
	proj := func() map[string]any {
		cids := []string{}
		for _, l := range honOrder {
			if vfProjHasCID(ctx, R.ds, vfCID(hon[l].env)) {
				cids = append(cids, l)
			}
		}
		if forged != nil && vfProjHasCID(ctx, R.ds, vfCID(forged)) {
			cids = append(cids, "f")
		}
		return map[string]any{"pre": ew.projPre(), "cid": cids}
	}
	// messages handed to the caller are kept and compared again at every later presentation: what an open
	// returned must stay what it was (a result that aliases a buffer the store reuses does not)
	type vfKeptMsg struct {
		em   *protocoltypes.EncryptedMessage
		want []byte
	}
	var keptMsgs []vfKeptMsg
	// one presentation of concrete bytes to the receiver, composed like the message store does
	open := func(label, gl string, env []byte, withSt bool) map[string]any {
		ev := map[string]any{"ev": "open", "e": label, "g": gl}
		honl := ""
		for _, l := range honOrder {
			if bytes.Equal(hon[l].env, env) {
				honl = l
			}
		}
		ev["hon"] = honl
		okv := false
		menv, hdr, err := R.ss.OpenEnvelopeHeaders(env, ew.groups[gl])
		ev["hok"] = err == nil
		if err == nil {
			em, err := R.ss.OpenEnvelopePayload(ctx, menv, hdr, ew.gpk[gl], ew.omd[gl]["R"].Device(), vfCID(env))
			if err == nil {
				okv = true
				got, _ := proto.Marshal(em)
				if got == nil {
					got = []byte{}
				}
				lab, ok := ew.dvOf[hex.EncodeToString(hdr.DevicePk)]
				if !ok {
					lab = "?"
				}
				ev["rdv"] = lab
				ev["rct"] = int(hdr.Counter)
				ev["rpl"] = plabelOf(got)
				keptMsgs = append(keptMsgs, vfKeptMsg{em: em, want: append([]byte(nil), got...)})
			}
		}
		ev["ok"] = okv
		keptOK := true
		for _, k := range keptMsgs {
			if b, _ := proto.Marshal(k.em); !bytes.Equal(b, k.want) && !(len(b) == 0 && len(k.want) == 0) {
				keptOK = false
			}
		}
		ev["kept"] = keptOK
		if withSt {
			ev["st"] = proj()
		}
		return ev
	}
	for i, st := range sc.Steps {
		a := st.A
		switch st.Act {
		case "seal":
			d, gl, id, pl := vfStr(a, "d"), vfStr(a, "g"), vfStr(a, "id"), vfStr(a, "p")
			p := payload(pl)
			env, err := ew.stores[d].ss.SealEnvelope(ctx, ew.groups[gl], p)
			vfMust(t, err, "seal")
			_, hdr, err := ew.stores[d].ss.OpenEnvelopeHeaders(env, ew.groups[gl])
			vfMust(t, err, "sender reads own headers")
			m := &vfEnvMsg{env: env, gl: gl, payload: p, plabel: pl}
			hon[id] = m
			honOrder = append(honOrder, id)
			hl, ok := ew.dvOf[hex.EncodeToString(hdr.DevicePk)]
			if !ok {
				hl = "?"
			}
			out = append(out, map[string]any{"ev": "seal", "i": i, "e": id, "d": d, "g": gl, "p": pl, "k": int(hdr.Counter),
				"dv": vfEnvDK(ew.shared, gl, d), "hdv": hl, "size": len(p)})
		case "forge":
			for _, l := range honOrder {
				_ = ew.advLearn(hon[l])
			}
			var ferr error
			forged, ferr = ew.forge(a, rnd, hon, payload)
			ev := map[string]any{"ev": "forge", "i": i, "n": len(forged), "built": ferr == nil}
			if ferr != nil {
				ev["err"] = ferr.Error()
			}
			for _, k := range []string{"hs", "dv", "ct", "kg", "kd", "kk", "bn", "pl", "sg"} {
				ev[k] = a[k]
			}
			out = append(out, ev)
		case "tamper":
			tBase, tFld = hon[vfStr(a, "base")], vfStr(a, "fld")
			if tBase == nil {
				vfInfra(" tamper of unknown envelope %v", a)
			}
			out = append(out, map[string]any{"ev": "tamper", "i": i, "base": vfStr(a, "base"), "fld": tFld, "size": len(tBase.payload)})
		case "open":
			id, gl := vfStr(a, "id"), vfStr(a, "g")
			switch {
			case id == "f":
				if forged != nil { // a forgery the attacker could not build is not presented
					if pf, _ := vfBool(sc.Cfg, "pushfirst"); pf {
						// the attacker first relays every honest envelope of that group as a push payload whose
						// CID field (protected by the group secret only) names the FORGED entry: whatever the
						// receiver records while opening the push must not vouch for the forged entry later
						npush := 0
						for _, l := range honOrder {
							m := hon[l]
							if m.gl != gl {
								continue
							}
							menv, hdr, err := ew.stores["x"].ss.OpenEnvelopeHeaders(m.env, ew.groups[gl])
							if err != nil {
								continue
							}
							oos, err := ew.stores["x"].ss.SealOutOfStoreMessageEnvelope(vfCID(forged), menv, hdr, ew.groups[gl])
							if err != nil {
								continue
							}
							b, _ := proto.Marshal(oos)
							if _, _, _, _, err := R.ss.OpenOutOfStoreMessage(ctx, b); err == nil {
								npush++
							}
						}
						out = append(out, map[string]any{"ev": "pushfirst", "i": i, "n": npush})
					}
					out = append(out, open("f", gl, forged, true))
				}
			case id == "t":
				if tBase == nil {
					vfInfra(" open of a damaged envelope that was not built")
				}
				if strings.HasPrefix(tFld, "e_") {
					out = append(out, open("t", gl, vfEnvEmptyField(tBase.env, tFld), true))
					break
				}
				bits := vfEnvBits(vfEnvLayout(tBase.env), tFld, len(tBase.payload) <= 66, vfRand(int64(sc.ID)*31+int64(i)))
				if len(bits) == 0 {
					vfInfra(" no bit to flip in field %s", tFld)
				}
				for j, bit := range bits {
					mut := append([]byte(nil), tBase.env...)
					mut[bit/8] ^= 1 << uint(bit%8)
					ev := open("t", gl, mut, j == len(bits)-1)
					ev["bit"] = bit
					out = append(out, ev)
				}
			default:
				m, ok := hon[id]
				if !ok {
					vfInfra(" open of unknown envelope %q", id)
				}
				out = append(out, open(id, gl, m.env, true))
			}
		default:
			vfInfra(" unknown action %q", st.Act)
		}
	}
	return out
}

func TestVerifEnvelopeReplay(t *testing.T) {
	scripts := vfLoadScripts(t)
	tr := vfOpenTrace(t)
	defer tr.Close()
	var wg sync.WaitGroup
	ch := make(chan vfScript, 64)
	for w := 0; w < 8; w++ {
		wg.Add(1)
		go func() {
			defer wg.Done()
			for sc := range ch {
				tr.EmitBlock(vfEnvRun(t, sc))
			}
		}()
	}
	for _, sc := range scripts {
		ch <- sc
	}
	close(ch)
	wg.Wait()
	t.Logf("VERIF-DONE scripts=%d events=%d", len(scripts), tr.n)
}

var _ = fmt.Sprintf
