//go:build verif

package secretstore_test

// Lock-level controlled schedules for C11: several tasks make the FIRST use of a fresh store's
// generated and derived keys concurrently (account key, proof key, contact group, member key of a
// multi-member group, account group, export).  device_keystore_wrapper.go and secret_store.go are
// instrumented (every Lock/RLock is a gate) and the cooperative scheduler imposes the interleaving.
// Whatever the schedule, every task must have been given the same keys, and a fresh store that
// imports the exported account keys must derive the same contact group and member key.

import (
	"bytes"
	"context"
	"fmt"
	"sort"
	"testing"

	"github.com/ipfs/go-datastore"
	dssync "github.com/ipfs/go-datastore/sync"
	"github.com/libp2p/go-libp2p/core/crypto"

	"berty.tech/weshnet/v2/internal/verifsched"
	"berty.tech/weshnet/v2/pkg/protocoltypes"
	"berty.tech/weshnet/v2/pkg/secretstore"
)

func vfKSRaw(k interface{ Raw() ([]byte, error) }) string {
	b, err := k.Raw()
	if err != nil {
		return "?"
	}
	return fmt.Sprintf("%x", b)
}

func vfKeySchedRun(sc vfScript) []map[string]any {
	ctx := context.Background()
	_ = ctx
	plansAny, _ := sc.Cfg["plans"].([]any) // one list of operations per task
	mk := func() secretstore.SecretStore {
		s, err := secretstore.NewSecretStore(dssync.MutexWrap(datastore.NewMapDatastore()), nil)
		if err != nil {
			vfInfra("secret store: %v", err)
		}
		return s
	}
	s := mk()
	other := mk()
	otherSK, err := other.GetAccountPrivateKey()
	if err != nil {
		vfInfra("other account: %v", err)
	}
	otherPK := otherSK.GetPublic()
	g, _, err := protocoltypes.NewGroupMultiMember()
	if err != nil {
		vfInfra("group: %v", err)
	}
	type res struct {
		op, val string
	}
	c := verifsched.New()
	results := make([][]res, len(plansAny))
	errs := 0
	do := func(st secretstore.SecretStore, op string) (string, error) {
		switch op {
		case "acct":
			k, err := st.GetAccountPrivateKey()
			if err != nil {
				return "", err
			}
			return vfKSRaw(k.GetPublic()), nil
		case "proof":
			k, err := st.GetAccountProofPublicKey()
			if err != nil {
				return "", err
			}
			return vfKSRaw(k), nil
		case "contact":
			cg, err := st.GetGroupForContact(otherPK)
			if err != nil {
				return "", err
			}
			return fmt.Sprintf("%x/%x", cg.PublicKey, cg.Secret), nil
		case "member":
			omd, err := st.GetOwnMemberDeviceForGroup(g)
			if err != nil {
				return "", err
			}
			return vfKSRaw(omd.Member()), nil
		case "device":
			omd, err := st.GetOwnMemberDeviceForGroup(g)
			if err != nil {
				return "", err
			}
			return vfKSRaw(omd.Device()), nil
		case "agroup":
			ag, omd, err := st.GetGroupForAccount()
			if err != nil {
				return "", err
			}
			return fmt.Sprintf("%x/%s/%s", ag.PublicKey, vfKSRaw(omd.Member()), vfKSRaw(omd.Device())), nil
		case "export":
			a, p, err := st.ExportAccountKeysForBackup()
			if err != nil {
				return "", err
			}
			return fmt.Sprintf("%x/%x", a, p), nil
		}
		vfInfra("unknown operation %q", op)
		return "", nil
	}
	for t, pa := range plansAny {
		t := t
		var plan []string
		for _, o := range pa.([]any) {
			plan = append(plan, o.(string))
		}
		c.Spawn(fmt.Sprintf("t%d", t+1), func() {
			for _, op := range plan {
				v, err := do(s, op)
				if err != nil {
					errs++
					continue
				}
				results[t] = append(results[t], res{op, v})
			}
		})
	}
	out := []map[string]any{{"ev": "reset", "id": sc.ID}}
	nsteps := 0
	for _, st := range sc.Steps {
		if _, ok := c.Step(st.D); ok {
			nsteps++
		}
	}
	extra := 0
	for extra < 2000 {
		progressed := false
		for _, n := range c.Names() {
			if c.States()[n].Kind != "gate" {
				continue
			}
			r, ok := c.Step(n)
			extra++
			if ok && r.Progress {
				progressed = true
			}
		}
		if !progressed {
			break
		}
	}
	st := c.States()
	notdone := []string{}
	for n, x := range st {
		if x.Kind != "done" {
			notdone = append(notdone, n+":"+x.Kind+":"+x.Label)
		}
	}
	sort.Strings(notdone)
	c.Close()
	// what the tasks were given, per operation (distinct values)
	seen := map[string]map[string]bool{}
	for _, rs := range results {
		for _, r := range rs {
			if seen[r.op] == nil {
				seen[r.op] = map[string]bool{}
			}
			seen[r.op][r.val] = true
		}
	}
	// reference, single-threaded after the fact: the same store again, and a fresh store restored from the export
	ref := map[string]string{}
	again := map[string]string{}
	fresh := mk()
	impOK := false
	if a, p, err := s.ExportAccountKeysForBackup(); err == nil {
		if err := fresh.ImportAccountKeys(a, p); err == nil {
			impOK = true
		}
	}
	for _, op := range []string{"acct", "proof", "contact", "member", "agroup", "export"} {
		if v, err := do(s, op); err == nil {
			again[op] = v
		}
		if impOK && op != "agroup" { // the account group's device key is per store
			if v, err := do(fresh, op); err == nil {
				ref[op] = v
			}
		}
	}
	if v, err := do(s, "device"); err == nil {
		again["device"] = v
	}
	given := map[string][]string{}
	for op, vs := range seen {
		for v := range vs {
			given[op] = append(given[op], v)
		}
		sort.Strings(given[op])
	}
	// the other side derives the same contact group
	mine, _ := s.GetAccountPrivateKey()
	peer := ""
	if mine != nil {
		if cg, err := other.GetGroupForContact(mine.GetPublic()); err == nil {
			peer = fmt.Sprintf("%x/%x", cg.PublicKey, cg.Secret)
		}
	}
	_ = bytes.Equal
	_ = crypto.Ed25519
	out = append(out, map[string]any{"ev": "keyfinal", "given": given, "again": again, "restored": ref, "imported": impOK,
		"peer": peer, "errs": errs, "notdone": notdone, "steps": nsteps, "extra": extra})
	return out
}

func TestVerifKeySched(t *testing.T) {
	scripts := vfLoadScripts(t)
	tr := vfOpenTrace(t)
	defer tr.Close()
	for _, sc := range scripts {
		tr.EmitBlock(vfKeySchedRun(sc))
	}
	t.Logf("VERIF-DONE scripts=%d events=%d", len(scripts), tr.n)
}
