//go:build verif

package secretstore_test

// C10 driver: every TLC-generated workload (seal / open / register / duplicate open, own-device
// open; stores R, d1, d2) is executed once on recording datastores to learn the number T of
// datastore mutations, then once per crash index i < T: mutation i is not applied and its store
// is dead from then on; a new secret store is opened on the surviving content (same keystore
// namespace), the interrupted call is retried (or not), the workload goes on, and the C10
// clauses are observed through the public API.  One trace block per (workload, crash index,
// variant); one line per exported call with the recorded mutation sequence (class, device,
// counter), plus probe / keys observation lines.  specs/MonRatchetStore.tla decides.

import (
	"bytes"
	"context"
	"fmt"
	"math/rand"
	"sort"
	"sync"
	"testing"

	"github.com/libp2p/go-libp2p/core/crypto"
	"google.golang.org/protobuf/proto"

	"berty.tech/weshnet/v2/pkg/protocoltypes"
	"berty.tech/weshnet/v2/pkg/secretstore"
)

type vfCOp struct {
	act     string // acct | join | seal | open | register
	s, d    string
	x       int
	prelude bool
}

type vfCStore struct {
	name    string
	account string
	ds      *vfDS
	ss      secretstore.SecretStore
	omd     secretstore.OwnMemberDevice
	g       *protocoltypes.Group
	joined  bool
}

type vfCWorld struct {
	ctx      context.Context
	ctl      *vfCtl
	res      *vfResolver
	gtype    string
	w, n     int
	batching bool
	order    []string
	senders  []string
	st       map[string]*vfCStore
	g        *protocoltypes.Group
	gpk      crypto.PubKey
	acctPK   map[string]crypto.PubKey
	msgs     map[string]map[int]*vfSealed
	anns     map[string]map[int][]byte
	ids      map[string]int
	rnd      *rand.Rand
	salt     int
	out      []map[string]any
	maxk     int
	noProj   bool
}

func (w *vfCWorld) open(name string, content map[string][]byte) {
	st := w.st[name]
	st.ds = vfNewDS(name, w.ctl, content)
	ss, err := secretstore.NewSecretStore(vfAsDatastore(st.ds, w.batching), &secretstore.NewSecretStoreOptions{PreComputedKeysCount: w.w, PrecomputeOutOfStoreGroupRefsCount: w.n})
	if err != nil {
		vfInfra(" new secret store: %v", err)
	}
	st.ss = ss
}

func vfNewCWorld(gtype string, senders []string, wn, n int, batching bool, seed int64) *vfCWorld {
	w := &vfCWorld{ctx: context.Background(), ctl: vfNewCtl(), res: vfNewResolver(), gtype: gtype, w: wn, n: n, batching: batching,
		st: map[string]*vfCStore{}, acctPK: map[string]crypto.PubKey{}, msgs: map[string]map[int]*vfSealed{}, anns: map[string]map[int][]byte{},
		ids: map[string]int{}, rnd: vfRand(seed), senders: senders}
	w.order = append([]string{"R"}, senders...)
	for _, name := range w.order {
		acc := ""
		switch gtype {
		case "account":
			acc = "A"
		case "contact":
			acc = "A"
			if name == "R" {
				acc = "B"
			}
		}
		w.st[name] = &vfCStore{name: name, account: acc}
		w.open(name, nil)
		w.msgs[name] = map[int]*vfSealed{}
		w.anns[name] = map[int][]byte{}
	}
	if gtype == "multi" {
		g, _, err := protocoltypes.NewGroupMultiMember()
		vfMust(nil, err, "new group")
		w.setGroup(g)
	}
	return w
}

func (w *vfCWorld) setGroup(g *protocoltypes.Group) {
	if w.g != nil {
		return
	}
	w.g = g
	pk, err := g.GetPubKey()
	vfMust(nil, err, "group pk")
	w.gpk = pk
	w.res.mu.Lock()
	w.res.group = g
	w.res.mu.Unlock()
}

func (w *vfCWorld) prelude() []vfCOp {
	var ops []vfCOp
	if w.gtype != "multi" {
		for _, s := range w.order {
			ops = append(ops, vfCOp{act: "acct", s: s, d: s, prelude: true})
		}
	}
	for _, s := range w.order {
		ops = append(ops, vfCOp{act: "join", s: s, d: s, prelude: true})
	}
	return ops
}

func (w *vfCWorld) id(b []byte) int {
	if len(b) == 0 {
		return 0
	}
	if v, ok := w.ids[string(b)]; ok {
		return v
	}
	w.ids[string(b)] = len(w.ids) + 1
	return len(w.ids)
}

func vfGroupBytes(g *protocoltypes.Group) []byte {
	if g == nil {
		return nil
	}
	return append(append(append([]byte{byte(g.GroupType)}, g.PublicKey...), g.Secret...), g.SecretSig...)
}

// keys observes, through the public API, the account / member / device / group keys of a joined store
func (w *vfCWorld) keys(s string) map[string]any {
	st := w.st[s]
	ev := map[string]any{"ev": "keys", "s": s, "member": 0, "device": 0, "group": 0, "acct": 0}
	if omd, err := st.ss.GetOwnMemberDeviceForGroup(st.g); err == nil {
		ev["member"] = w.id(vfRaw(omd.Member()))
		ev["device"] = w.id(vfRaw(omd.Device()))
	}
	switch w.gtype {
	case "account":
		if g, omd, err := st.ss.GetGroupForAccount(); err == nil {
			ev["group"] = w.id(vfGroupBytes(g))
			ev["acct"] = w.id(vfRaw(omd.Member()))
		}
	case "contact":
		other := "A"
		if st.account == "A" {
			other = "B"
		}
		if g, err := st.ss.GetGroupForContact(w.acctPK[other]); err == nil {
			ev["group"] = w.id(vfGroupBytes(g))
		}
		if g, _, err := st.ss.GetGroupForAccount(); err == nil {
			ev["acct"] = w.id(g.PublicKey)
		}
	default:
		if g, err := st.ss.FetchGroupByPublicKey(w.ctx, w.gpk); err == nil {
			ev["group"] = w.id(vfGroupBytes(g))
		}
	}
	return ev
}

func (w *vfCWorld) mutsSince(start int, s string) []map[string]any {
	w.ctl.mu.Lock()
	evs := append([]vfRawEv(nil), w.ctl.log[start:]...)
	w.ctl.mu.Unlock()
	out := []map[string]any{}
	for _, e := range evs {
		if e.mseq < 0 || e.kind == "get" || e.kind == "note" {
			continue
		}
		l := w.res.label(e, -w.n-w.w-4, w.maxk+w.w+w.n+4)
		if e.store != s {
			l["cls"] = "foreign"
		}
		out = append(out, l)
	}
	return out
}

func (w *vfCWorld) announce(d string, k int) {
	r := w.st["R"]
	if r.omd == nil {
		return
	}
	st := w.st[d]
	if a, err := st.ss.GetShareableChainKey(w.ctx, st.g, r.omd.Member()); err == nil {
		if _, ok := w.anns[d][k]; !ok {
			w.anns[d][k] = a
		}
	}
}

func (w *vfCWorld) proj(s, d string) map[string]any {
	st, sd := w.st[s], w.st[d]
	if w.noProj || st.ds.dead || sd.omd == nil || w.gpk == nil {
		return nil
	}
	gpkRaw, dpk := vfRaw(w.gpk), vfRaw(sd.omd.Device())
	pre := vfProjPre(w.ctx, st.ds, gpkRaw, dpk)
	sort.Ints(pre)
	cids := []int{}
	for k, m := range w.msgs[d] {
		if vfProjHasCID(w.ctx, st.ds, m.cid) {
			cids = append(cids, k)
		}
	}
	sort.Ints(cids)
	return map[string]any{"ck": vfProjCK(w.ctx, st.ds, gpkRaw, dpk), "pre": pre, "cid": cids, "refs": vfProjRefs(w.ctx, st.ds, gpkRaw, dpk)}
}

// exec runs one exported call; nil = the step refers to a message / announcement that does not exist in this run
func (w *vfCWorld) exec(op vfCOp) map[string]any {
	st := w.st[op.s]
	w.ctl.mu.Lock()
	start := len(w.ctl.log)
	w.ctl.mu.Unlock()
	ev := op.act
	if ev == "acct" {
		ev = "join"
	}
	line := map[string]any{"ev": ev, "s": op.s, "d": op.d, "x": op.x, "full": op.act == "join", "ok": false, "k": 0,
		"same": false, "pdev": false, "pk": 0}
	switch op.act {
	case "acct":
		_, omd, err := st.ss.GetGroupForAccount()
		if err == nil {
			line["ok"] = true
			if w.acctPK[st.account] == nil {
				w.acctPK[st.account] = omd.Member()
				// genesis (not a crash point): the other devices of the account import its keys
				a, p, err := st.ss.ExportAccountKeysForBackup()
				vfMust(nil, err, "export")
				w.ctl.counting = false
				for _, o := range w.order {
					if o != op.s && w.st[o].account == st.account {
						vfMust(nil, w.st[o].ss.ImportAccountKeys(a, p), "import")
					}
				}
				w.ctl.counting = true
			}
		}
	case "join":
		var g *protocoltypes.Group
		var err error
		switch w.gtype {
		case "multi":
			g = w.g
		case "account":
			g, _, err = st.ss.GetGroupForAccount()
		case "contact":
			other := "A"
			if st.account == "A" {
				other = "B"
			}
			g, err = st.ss.GetGroupForContact(w.acctPK[other])
		}
		if err == nil {
			err = st.ss.PutGroup(w.ctx, g)
		}
		var omd secretstore.OwnMemberDevice
		if err == nil {
			omd, err = st.ss.GetOwnMemberDeviceForGroup(g)
		}
		if err == nil {
			// what PutGroup does on its normal path and what group activation does after a restart:
			// make sure the own chain key exists (PutGroup returns early once the group record is stored)
			_, err = st.ss.GetShareableChainKey(w.ctx, g, omd.Member())
		}
		if err == nil {
			line["ok"] = true
			st.g, st.omd, st.joined = g, omd, true
			w.setGroup(g)
			w.res.addDevice(op.s, vfRaw(omd.Device()))
		}
	case "seal":
		w.salt++
		payload := vfEncMsg(vfPayload(w.rnd, w.salt))
		env, err := st.ss.SealEnvelope(w.ctx, st.g, payload)
		if err == nil {
			_, hdr, err := st.ss.OpenEnvelopeHeaders(env, st.g)
			vfMust(nil, err, "sender opens own headers")
			k := int(hdr.Counter)
			line["ok"], line["k"] = true, k
			c := vfCID(env)
			if _, dup := w.msgs[op.d][k]; !dup {
				w.msgs[op.d][k] = &vfSealed{env: env, cid: c, payload: payload, k: k}
				w.res.addCID(c.String(), op.d, k)
			}
			if k > w.maxk {
				w.maxk = k
			}
		}
	case "open":
		m := w.msgs[op.d][op.x]
		if m == nil {
			return nil
		}
		var own crypto.PubKey
		if st.omd != nil {
			own = st.omd.Device()
		}
		if menv, hdr, err := st.ss.OpenEnvelopeHeaders(m.env, w.g); err == nil {
			em, err := st.ss.OpenEnvelopePayload(w.ctx, menv, hdr, w.gpk, own, m.cid)
			if err == nil {
				got, _ := proto.Marshal(em)
				line["ok"] = true
				line["pk"] = int(hdr.Counter)
				line["pdev"] = bytes.Equal(hdr.DevicePk, vfRaw(w.st[op.d].omd.Device()))
				line["same"] = bytes.Equal(got, m.payload)
			}
		}
	case "register":
		a := w.anns[op.d][op.x]
		if a == nil {
			return nil
		}
		err := st.ss.RegisterChainKey(w.ctx, w.g, w.st[op.d].omd.Device(), a)
		line["ok"] = err == nil
	default:
		vfInfra(" unknown action %q", op.act)
	}
	line["muts"] = w.mutsSince(start, op.s)
	line["crashed"] = w.ctl.crashed == op.s
	if w.ctl.crashed == "" {
		if op.act == "join" && line["ok"] == true {
			for _, d := range w.senders {
				if d == op.s || op.s == "R" {
					if w.st[d].joined {
						w.announce(d, maxKey(w.msgs[d]))
					}
				}
			}
		}
		if op.act == "seal" && line["ok"] == true {
			w.announce(op.d, line["k"].(int))
		}
		if p := w.proj(op.s, op.d); p != nil && op.act != "acct" {
			line["st"] = p
		}
	}
	return line
}

func maxKey(m map[int]*vfSealed) int {
	mx := 0
	for k := range m {
		if k > mx {
			mx = k
		}
	}
	return mx
}

// probe tries every existing message on a fresh secret store opened on a copy of `content`
func (w *vfCWorld) probe(phase, s string, content map[string][]byte) map[string]any {
	st := w.st[s]
	all, open := [][]any{}, [][]any{}
	for _, d := range w.senders {
		ks := []int{}
		for k := range w.msgs[d] {
			ks = append(ks, k)
		}
		sort.Ints(ks)
		for _, k := range ks {
			m := w.msgs[d][k]
			all = append(all, []any{d, k})
			ds := vfNewDS("probe", vfNewCtl(), content)
			ss, err := secretstore.NewSecretStore(vfAsDatastore(ds, w.batching), &secretstore.NewSecretStoreOptions{PreComputedKeysCount: w.w, PrecomputeOutOfStoreGroupRefsCount: w.n})
			vfMust(nil, err, "probe store")
			var own crypto.PubKey
			if st.omd != nil {
				own = st.omd.Device()
			}
			menv, hdr, err := ss.OpenEnvelopeHeaders(m.env, w.g)
			if err != nil {
				continue
			}
			em, err := ss.OpenEnvelopePayload(w.ctx, menv, hdr, w.gpk, own, m.cid)
			if err != nil {
				continue
			}
			if got, _ := proto.Marshal(em); bytes.Equal(got, m.payload) && int(hdr.Counter) == k {
				open = append(open, []any{d, k})
			}
		}
	}
	return map[string]any{"ev": "probes", "phase": phase, "s": s, "all": all, "open": open}
}

// vfCrashRun executes one (workload, crash index, variant); returns the trace block, the number of
// mutations, the number of mutations of the prelude and whether the crash hit a prelude call
func vfCrashRun(sc vfScript, id string, crashAt int, retry bool) (out []map[string]any, total, preludeT int, hitPrelude bool) {
	wn, _ := vfNum(sc.Cfg, "W")
	n, _ := vfNum(sc.Cfg, "N")
	batching, _ := vfBool(sc.Cfg, "batching")
	gtype, _ := sc.Cfg["gtype"].(string)
	devset := map[string]bool{}
	senders := []string{}
	for _, st := range sc.Steps {
		if !devset[st.D] {
			devset[st.D] = true
			senders = append(senders, st.D)
		}
	}
	sort.Strings(senders)
	w := vfNewCWorld(gtype, senders, wn, n, batching, int64(sc.ID))
	w.ctl.crashAt = crashAt
	out = append(out, map[string]any{"ev": "reset", "id": id, "mode": "c10", "gtype": gtype, "batching": batching, "crashAt": crashAt, "retry": retry})
	ops := w.prelude()
	np := len(ops)
	for _, st := range sc.Steps {
		s := st.S
		if st.Act == "seal" {
			s = st.D
		}
		ops = append(ops, vfCOp{act: st.Act, s: s, d: st.D, x: st.X})
	}
	crashedStore := ""
	for i, op := range ops {
		if i == np {
			preludeT = w.ctl.mseq
		}
		st := w.st[op.s]
		snap := st.ds.snapshot()
		wasJoined := st.joined
		line := w.exec(op)
		if line == nil {
			continue
		}
		out = append(out, line)
		crashedNow := false
		if w.ctl.crashed != "" {
			s := w.ctl.crashed
			crashedStore, crashedNow = s, true
			hitPrelude = op.prelude
			out = append(out, map[string]any{"ev": "crash", "s": s, "at": crashAt})
			if wasJoined {
				out = append(out, w.probe("pre", s, snap), w.probe("post", s, st.ds.snapshot()))
			}
			w.ctl.crashed, w.ctl.crashAt = "", -1
			w.open(s, st.ds.snapshot())
			out = append(out, map[string]any{"ev": "restart", "s": s})
			if op.prelude || retry {
				if l2 := w.exec(op); l2 != nil {
					out = append(out, l2)
				}
			}
		}
		if st.joined && (crashedNow || op.act == "join") {
			out = append(out, w.keys(op.s))
		}
	}
	if len(ops) == np {
		preludeT = w.ctl.mseq
	}
	for _, s := range w.order {
		if s == "R" || s == crashedStore {
			if w.st[s].joined {
				out = append(out, w.probe("final", s, w.st[s].ds.snapshot()))
			}
		}
	}
	for _, s := range w.order {
		if w.st[s].joined {
			out = append(out, w.keys(s))
		}
	}
	// one more, clean, restart of every store: the keys read afterwards are still the ones in use before (a key
	// that lives only in the memory of the instance that generated it shows here)
	for _, s := range w.order {
		if w.st[s].joined {
			w.open(s, w.st[s].ds.snapshot())
			out = append(out, map[string]any{"ev": "restart", "s": s})
			out = append(out, w.keys(s))
		}
	}
	out = append(out, map[string]any{"ev": "end"})
	return out, w.ctl.mseq, preludeT, hitPrelude
}

func vfCrashAll(sc vfScript, emit func([]map[string]any)) (runs int) {
	if only, ok := sc.Cfg["only"].(map[string]any); ok {
		at, _ := vfNum(only, "crash")
		retry, _ := vfBool(only, "retry")
		b, _, _, _ := vfCrashRun(sc, fmt.Sprintf("%d/c%d/%v", sc.ID, at, retry), at, retry)
		emit(b)
		return 1
	}
	base, total, preludeT, _ := vfCrashRun(sc, fmt.Sprintf("%d/base", sc.ID), -1, true)
	emit(base)
	runs = 1
	from := preludeT
	if pc, _ := vfBool(sc.Cfg, "prelude_crash"); pc {
		from = 0
	}
	for i := from; i < total; i++ {
		for _, retry := range []bool{true, false} {
			b, _, _, hitPrelude := vfCrashRun(sc, fmt.Sprintf("%d/c%d/%v", sc.ID, i, retry), i, retry)
			if !retry && hitPrelude {
				continue // identical to the retry variant: interrupted set-up calls are always retried
			}
			emit(b)
			runs++
		}
	}
	return runs
}

func TestVerifCrash(t *testing.T) {
	scripts := vfLoadScripts(t)
	tr := vfOpenTrace(t)
	defer tr.Close()
	var wg sync.WaitGroup
	var mu sync.Mutex
	runs := 0
	ch := make(chan vfScript, 64)
	for w := 0; w < 16; w++ {
		wg.Add(1)
		go func() {
			defer wg.Done()
			for sc := range ch {
				n := vfCrashAll(sc, tr.EmitBlock)
				mu.Lock()
				runs += n
				mu.Unlock()
			}
		}()
	}
	for _, sc := range scripts {
		ch <- sc
	}
	close(ch)
	wg.Wait()
	t.Logf("VERIF-DONE scripts=%d runs=%d events=%d", len(scripts), runs, tr.n)
}
