//go:build verif

package secretstore_test

// C09 on SEVERAL groups of one account: the account group and the contact groups share the account's
// device key.  Tasks seal concurrently on all of them; a second device of the same account registers
// the sender's chain key for every group and opens every envelope.  Per group the counters must be
// distinct and gap-free and every envelope must open to its payload at the receiver.

import (
	"bytes"
	"context"
	"fmt"
	"sort"
	"sync"
	"testing"

	"github.com/ipfs/go-datastore"
	dssync "github.com/ipfs/go-datastore/sync"
	"google.golang.org/protobuf/proto"

	"berty.tech/weshnet/v2/pkg/protocoltypes"
	"berty.tech/weshnet/v2/pkg/secretstore"
)

func vfMultiGroupRun(sc vfScript) []map[string]any {
	ctx := context.Background()
	ntask, _ := vfNum(sc.Cfg, "tasks")
	nmsg, _ := vfNum(sc.Cfg, "msgs")
	ncontact, _ := vfNum(sc.Cfg, "contacts")
	withMulti, _ := vfBool(sc.Cfg, "multi")
	mk := func() secretstore.SecretStore {
		s, err := secretstore.NewSecretStore(dssync.MutexWrap(datastore.NewMapDatastore()), nil)
		if err != nil {
			vfInfra("secret store: %v", err)
		}
		return s
	}
	snd, rcv := mk(), mk()
	a, p, err := snd.ExportAccountKeysForBackup()
	if err != nil {
		vfInfra("export: %v", err)
	}
	if err := rcv.ImportAccountKeys(a, p); err != nil {
		vfInfra("import: %v", err)
	}
	var groups []*protocoltypes.Group
	var names []string
	ag, _, err := snd.GetGroupForAccount()
	if err != nil {
		vfInfra("account group: %v", err)
	}
	groups, names = append(groups, ag), append(names, "account")
	for i := 0; i < ncontact; i++ {
		other := mk()
		osk, err := other.GetAccountPrivateKey()
		if err != nil {
			vfInfra("contact account: %v", err)
		}
		cg, err := snd.GetGroupForContact(osk.GetPublic())
		if err != nil {
			vfInfra("contact group: %v", err)
		}
		groups, names = append(groups, cg), append(names, fmt.Sprintf("contact%d", i+1))
	}
	if withMulti {
		mg, _, err := protocoltypes.NewGroupMultiMember()
		if err != nil {
			vfInfra("group: %v", err)
		}
		groups, names = append(groups, mg), append(names, "multi")
	}
	for _, g := range groups {
		if err := snd.PutGroup(ctx, g); err != nil {
			vfInfra("put group: %v", err)
		}
		if err := rcv.PutGroup(ctx, g); err != nil {
			vfInfra("put group: %v", err)
		}
		somd, err := snd.GetOwnMemberDeviceForGroup(g)
		if err != nil {
			vfInfra("member device: %v", err)
		}
		romd, err := rcv.GetOwnMemberDeviceForGroup(g)
		if err != nil {
			vfInfra("member device: %v", err)
		}
		ann, err := snd.GetShareableChainKey(ctx, g, romd.Member())
		if err != nil {
			vfInfra("announcement: %v", err)
		}
		if err := rcv.RegisterChainKey(ctx, g, somd.Device(), ann); err != nil {
			vfInfra("register: %v", err)
		}
	}
	type sealed struct {
		gi      int
		env     []byte
		payload []byte
	}
	var mu sync.Mutex
	var all []sealed
	errs := 0
	var wg sync.WaitGroup
	for t := 0; t < ntask; t++ {
		wg.Add(1)
		go func(t int) {
			defer wg.Done()
			for j := 0; j < nmsg; j++ {
				gi := (t + j) % len(groups)
				payload, _ := proto.Marshal(&protocoltypes.EncryptedMessage{Plaintext: []byte(fmt.Sprintf("t%d-m%d-%s", t, j, names[gi]))})
				env, err := snd.SealEnvelope(ctx, groups[gi], payload)
				mu.Lock()
				if err != nil {
					errs++
				} else {
					all = append(all, sealed{gi, env, payload})
				}
				mu.Unlock()
			}
		}(t)
	}
	wg.Wait()
	// the device is handed the push payload of a message it sent itself (a push relay echoes it, or the standalone
	// out-of-store service runs over the same datastore): opening it must not move the sending chain - the next
	// envelope carries the next counter
	for gi, g := range groups {
		var lastEnv []byte
		for _, s := range all {
			if s.gi == gi {
				lastEnv = s.env
			}
		}
		if lastEnv == nil {
			continue
		}
		if menv, hdr, err := snd.OpenEnvelopeHeaders(lastEnv, g); err == nil {
			// what the message store does when the device sees its own entry in the log
			if gpk, err := g.GetPubKey(); err == nil {
				if somd, err := snd.GetOwnMemberDeviceForGroup(g); err == nil {
					_, _ = snd.OpenEnvelopePayload(ctx, menv, hdr, gpk, somd.Device(), vfCID(lastEnv))
					_ = snd.UpdateOutOfStoreGroupReferences(ctx, vfRaw(somd.Device()), hdr.Counter, g)
				}
			}
			if oos, err := snd.SealOutOfStoreMessageEnvelope(vfCID(lastEnv), menv, hdr, g); err == nil {
				if b, err := proto.Marshal(oos); err == nil {
					_, _, _, _, _ = snd.OpenOutOfStoreMessage(ctx, b)
				}
			}
		}
		payload, _ := proto.Marshal(&protocoltypes.EncryptedMessage{Plaintext: []byte("after-own-push-" + names[gi])})
		env, err := snd.SealEnvelope(ctx, g, payload)
		if err != nil {
			errs++
		} else {
			all = append(all, sealed{gi, env, payload})
		}
	}
	out := []map[string]any{{"ev": "reset", "id": sc.ID}}
	for gi, g := range groups {
		gpk, _ := g.GetPubKey()
		romd, _ := rcv.GetOwnMemberDeviceForGroup(g)
		somd, _ := snd.GetOwnMemberDeviceForGroup(g)
		counters := []int{}
		opened, faithful := 0, 0
		// the receiver opens in counter order (every message is inside the window when its turn comes)
		type item struct {
			k int
			s sealed
		}
		var items []item
		for _, s := range all {
			if s.gi != gi {
				continue
			}
			_, hdr, err := snd.OpenEnvelopeHeaders(s.env, g)
			if err != nil {
				errs++
				continue
			}
			items = append(items, item{int(hdr.Counter), s})
		}
		sort.Slice(items, func(i, j int) bool { return items[i].k < items[j].k })
		for _, it := range items {
			counters = append(counters, it.k)
			menv, hdr, err := rcv.OpenEnvelopeHeaders(it.s.env, g)
			if err != nil {
				continue
			}
			em, err := rcv.OpenEnvelopePayload(ctx, menv, hdr, gpk, romd.Device(), vfCID(it.s.env))
			if err != nil {
				continue
			}
			opened++
			got, _ := proto.Marshal(em)
			if bytes.Equal(got, it.s.payload) && bytes.Equal(hdr.DevicePk, vfRaw(somd.Device())) {
				faithful++
			}
		}
		out = append(out, map[string]any{"ev": "groupfinal", "g": names[gi], "n": len(items), "counters": counters, "opened": opened, "faithful": faithful, "errs": errs})
	}
	return out
}

func TestVerifMultiGroup(t *testing.T) {
	scripts := vfLoadScripts(t)
	tr := vfOpenTrace(t)
	defer tr.Close()
	for _, sc := range scripts {
		tr.EmitBlock(vfMultiGroupRun(sc))
	}
	t.Logf("VERIF-DONE scripts=%d events=%d", len(scripts), tr.n)
}
