//go:build verif

package secretstore

// Recording wrapper around the secret store, injected by the build overlay (never
// committed to the repository).  checks/scenario_traces.py rewrites NewSecretStore /
// NewInMemSecretStore in a COPY of secret_store.go to return this wrapper; when the
// environment variable VERIF_REC_TRACE names a file, every seal / register / open call of
// every store in the process is appended to it, one JSON line per call, ordered by a
// process-wide sequence number taken under the recorder's own mutex at the call's return
// (linearisation point of a sequential API).  The repository's own scenario tests are then
// run unchanged and their recorded executions are validated by TLC against MonRatchet.tla.

import (
	"context"
	"encoding/hex"
	"encoding/json"
	"os"
	"sync"

	"github.com/ipfs/go-cid"
	"github.com/libp2p/go-libp2p/core/crypto"

	"berty.tech/weshnet/v2/pkg/protocoltypes"
)

var (
	vfRecMu   sync.Mutex
	vfRecFile *os.File
	vfRecSeq  int
	vfRecNext int
)

func vfRecEmit(ev map[string]any) {
	vfRecMu.Lock()
	defer vfRecMu.Unlock()
	if vfRecFile == nil {
		p := os.Getenv("VERIF_REC_TRACE")
		if p == "" {
			return
		}
		f, err := os.OpenFile(p, os.O_CREATE|os.O_WRONLY|os.O_APPEND, 0o644)
		if err != nil {
			return
		}
		vfRecFile = f
	}
	vfRecSeq++
	ev["seq"] = vfRecSeq
	b, _ := json.Marshal(ev)
	vfRecFile.Write(append(b, '\n'))
}

type vfRecStore struct {
	*secretStore
	id int
}

func vfRecWrap(s *secretStore, err error) (SecretStore, error) {
	if err != nil || s == nil {
		return s, err
	}
	if os.Getenv("VERIF_REC_TRACE") == "" {
		return s, nil
	}
	vfRecMu.Lock()
	vfRecNext++
	id := vfRecNext
	vfRecMu.Unlock()
	return &vfRecStore{secretStore: s, id: id}, nil
}

func vfHex(b []byte) string {
	if len(b) > 8 {
		b = b[:8]
	}
	return hex.EncodeToString(b)
}

func (r *vfRecStore) ckCounter(ctx context.Context, gpk, dpk crypto.PubKey) int {
	ck, err := r.secretStore.getDeviceChainKeyForGroupAndDevice(ctx, gpk, dpk)
	if err != nil {
		return -1
	}
	return int(ck.Counter)
}

func (r *vfRecStore) SealEnvelope(ctx context.Context, g *protocoltypes.Group, payload []byte) ([]byte, error) {
	env, err := r.secretStore.SealEnvelope(ctx, g, payload)
	ev := map[string]any{"ev": "seal", "store": r.id, "ok": err == nil}
	if g != nil {
		ev["g"] = vfHex(g.PublicKey)
	}
	if err == nil {
		if _, h, herr := r.secretStore.OpenEnvelopeHeaders(env, g); herr == nil {
			ev["dev"], ev["k"] = vfHex(h.DevicePk), int(h.Counter)
		}
	}
	vfRecEmit(ev)
	return env, err
}

func (r *vfRecStore) RegisterChainKey(ctx context.Context, g *protocoltypes.Group, sender crypto.PubKey, enc []byte) error {
	gpk, _ := g.GetPubKey()
	before := -1
	if gpk != nil && sender != nil {
		before = r.ckCounter(ctx, gpk, sender)
	}
	err := r.secretStore.RegisterChainKey(ctx, g, sender, enc)
	after := -1
	if gpk != nil && sender != nil {
		after = r.ckCounter(ctx, gpk, sender)
	}
	raw, _ := sender.Raw()
	own := false
	if md, merr := r.secretStore.GetOwnMemberDeviceForGroup(g); merr == nil {
		own = md.Device().Equals(sender)
	}
	vfRecEmit(map[string]any{"ev": "register", "store": r.id, "g": vfHex(g.PublicKey), "dev": vfHex(raw), "ok": err == nil,
		"before": before, "after": after, "own": own, "w": r.secretStore.preComputedKeysCount})
	return err
}

func (r *vfRecStore) OpenEnvelopePayload(ctx context.Context, env *protocoltypes.MessageEnvelope, h *protocoltypes.MessageHeaders, gpk crypto.PubKey, own crypto.PubKey, id cid.Cid) (*protocoltypes.EncryptedMessage, error) {
	m, err := r.secretStore.OpenEnvelopePayload(ctx, env, h, gpk, own, id)
	graw, _ := gpk.Raw()
	ownDev := false
	if own != nil && h != nil {
		oraw, _ := own.Raw()
		ownDev = string(oraw) == string(h.DevicePk)
	}
	ev := map[string]any{"ev": "open", "store": r.id, "g": vfHex(graw), "ok": err == nil, "cid": id.Defined(), "own": ownDev}
	if h != nil {
		ev["dev"], ev["k"] = vfHex(h.DevicePk), int(h.Counter)
	}
	vfRecEmit(ev)
	return m, err
}
