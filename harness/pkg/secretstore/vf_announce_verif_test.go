//go:build verif

package secretstore_test

// Driver for specs/Announce.tla (C05 a): chain-key announcements between real secret stores of
// three accounts (A with two devices A1, A2; B1; C1) in a multi-member group gm, the account
// group ga of A and the contact groups gc (A-B) and gd (A-C).  Every store is given every group
// (a store computes "its" member/device keys for any group), so that wrong-recipient, wrong-group
// and wrong-claimed-sender attempts can all be made through the public API:
// GetShareableChainKey / RegisterChainKey / IsChainKeyKnownForDevice.

import (
	"bytes"
	"context"
	"encoding/hex"
	"sync"
	"testing"

	"github.com/libp2p/go-libp2p/core/crypto"
	"google.golang.org/protobuf/proto"

	"berty.tech/weshnet/v2/pkg/protocoltypes"
	"berty.tech/weshnet/v2/pkg/secretstore"
)

type vfAnnW struct {
	ctx    context.Context
	stores map[string]*vfStore
	groups map[string]*protocoltypes.Group
	gpk    map[string]crypto.PubKey
	omd    map[string]map[string]secretstore.OwnMemberDevice // group -> store
	label  map[string]string                                 // hex(pk) -> key label of the model
	pkOf   map[string]crypto.PubKey                          // key label -> key
}

var vfAnnStores = []string{"A1", "A2", "B1", "C1"}
var vfAnnGroups = []string{"gm", "ga", "gc", "gd"}

func vfAnnAcct(s string) string { return s[:1] }

func vfAnnStr(m map[string]any, k string) string {
	s, _ := m[k].(string)
	return s
}

func vfAnnNewWorld(t testing.TB) *vfAnnW {
	w := &vfAnnW{ctx: context.Background(), stores: map[string]*vfStore{}, groups: map[string]*protocoltypes.Group{}, gpk: map[string]crypto.PubKey{},
		omd: map[string]map[string]secretstore.OwnMemberDevice{}, label: map[string]string{}, pkOf: map[string]crypto.PubKey{}}
	for _, n := range vfAnnStores {
		w.stores[n] = vfNewStore(t, n, 3, 3, nil)
	}
	a, p, err := w.stores["A1"].ss.ExportAccountKeysForBackup()
	vfMust(t, err, "export")
	vfMust(t, w.stores["A2"].ss.ImportAccountKeys(a, p), "import")
	acct := func(n string) crypto.PubKey {
		_, o, err := w.stores[n].ss.GetGroupForAccount()
		vfMust(t, err, "account group")
		return o.Member()
	}
	gm, _, err := protocoltypes.NewGroupMultiMember()
	vfMust(t, err, "multi-member group")
	ga, _, err := w.stores["A1"].ss.GetGroupForAccount()
	vfMust(t, err, "account group A")
	gc, err := w.stores["A1"].ss.GetGroupForContact(acct("B1"))
	vfMust(t, err, "contact group A-B")
	gd, err := w.stores["A1"].ss.GetGroupForContact(acct("C1"))
	vfMust(t, err, "contact group A-C")
	w.groups = map[string]*protocoltypes.Group{"gm": gm, "ga": ga, "gc": gc, "gd": gd}
	// the other side derives the same contact groups
	gcB, err := w.stores["B1"].ss.GetGroupForContact(acct("A1"))
	vfMust(t, err, "contact group B-A")
	gdC, err := w.stores["C1"].ss.GetGroupForContact(acct("A1"))
	vfMust(t, err, "contact group C-A")
	if !bytes.Equal(gcB.PublicKey, gc.PublicKey) || !bytes.Equal(gdC.PublicKey, gd.PublicKey) {
		vfInfra(" the two sides of a contact derive different groups")
	}
	setLabel := func(k crypto.PubKey, lab string) {
		h := hex.EncodeToString(vfRaw(k))
		if prev, ok := w.label[h]; ok && prev != lab {
			vfInfra(" key labelled both %s and %s: the key-sharing structure the model assumes does not hold", prev, lab)
		}
		if prev, ok := w.pkOf[lab]; ok && !prev.Equals(k) {
			vfInfra(" label %s names two different keys: the key-sharing structure the model assumes does not hold", lab)
		}
		w.label[h] = lab
		w.pkOf[lab] = k
	}
	for _, gl := range vfAnnGroups {
		g := w.groups[gl]
		pk, err := g.GetPubKey()
		vfMust(t, err, "group pk")
		w.gpk[gl] = pk
		w.omd[gl] = map[string]secretstore.OwnMemberDevice{}
		for _, n := range vfAnnStores {
			vfMust(t, w.stores[n].ss.PutGroup(w.ctx, g), "put group")
			o, err := w.stores[n].ss.GetOwnMemberDeviceForGroup(g)
			vfMust(t, err, "own member device")
			w.omd[gl][n] = o
			if gl == "gm" {
				setLabel(o.Member(), "m.gm."+vfAnnAcct(n))
				setLabel(o.Device(), "d.gm."+n)
			} else {
				setLabel(o.Member(), "acct."+vfAnnAcct(n))
				setLabel(o.Device(), "dev."+n)
			}
		}
	}
	return w
}

type vfAnnMsg struct {
	env     []byte
	payload []byte
}

func vfAnnRun(t testing.TB, sc vfScript) []map[string]any {
	w := vfAnnNewWorld(t)
	ctx := w.ctx
	rnd := vfRand(int64(sc.ID)*104729 + 5)
	out := []map[string]any{{"ev": "reset", "id": sc.ID}}
	var ann []byte
	var sender, sgl string
	var rpk crypto.PubKey
	var next, past *vfAnnMsg
	tam := "none"
	seal := func(s *vfStore, g *protocoltypes.Group, i int) *vfAnnMsg {
		p := vfEncMsg(vfPayload(rnd, sc.ID+i))
		env, err := s.ss.SealEnvelope(ctx, g, p)
		vfMust(t, err, "seal")
		return &vfAnnMsg{env: env, payload: p}
	}
	opens := func(o string, gl string, m *vfAnnMsg) bool {
		st := w.stores[o]
		menv, hdr, err := st.ss.OpenEnvelopeHeaders(m.env, w.groups[gl])
		if err != nil {
			return false
		}
		em, err := st.ss.OpenEnvelopePayload(ctx, menv, hdr, w.gpk[gl], w.omd[gl][o].Device(), vfCID(m.env))
		if err != nil {
			return false
		}
		got, _ := proto.Marshal(em)
		return bytes.Equal(got, m.payload)
	}
	for i, st := range sc.Steps {
		a := st.A
		switch st.Act {
		case "announce":
			sender, sgl = vfAnnStr(a, "s"), vfAnnStr(a, "g")
			r := vfAnnStr(a, "r")
			var lab string
			if sgl == "gm" {
				lab = "m.gm." + r
			} else {
				lab = "acct." + r
			}
			rpk = w.pkOf[lab]
			if rpk == nil {
				vfInfra(" unknown recipient %s", lab)
			}
			s, g := w.stores[sender], w.groups[sgl]
			// the announcement is taken at an arbitrary point of the sender's history
			na := sc.ID % 3
			for j := 0; j < na; j++ {
				past = seal(s, g, j)
			}
			var err error
			ann, err = s.ss.GetShareableChainKey(ctx, g, rpk)
			next = seal(s, g, na)
			out = append(out, map[string]any{"ev": "announce", "i": i, "s": sender, "g": sgl, "r": r, "ok": err == nil, "a": na, "n": len(ann),
				"sd": w.label[hex.EncodeToString(vfRaw(w.omd[sgl][sender].Device()))], "rm": lab})
			vfMust(t, err, "shareable chain key")
		case "damage":
			tam = vfAnnStr(a, "t")
			out = append(out, map[string]any{"ev": "damage", "i": i, "t": tam})
		case "register":
			o, gl, c := vfAnnStr(a, "o"), vfAnnStr(a, "g"), vfAnnStr(a, "c")
			cpk := w.pkOf[c]
			if cpk == nil {
				vfInfra(" unknown claimed key %s", c)
			}
			type variant struct {
				b   []byte
				tag string
				x   int
			}
			var vs []variant
			switch tam {
			case "none":
				vs = []variant{{ann, "", 0}}
			case "flip":
				for bit := 0; bit < len(ann)*8; bit++ {
					m := append([]byte(nil), ann...)
					m[bit/8] ^= 1 << uint(bit%8)
					vs = append(vs, variant{m, "bit", bit})
				}
			case "trunc":
				for n := 0; n < len(ann); n++ {
					vs = append(vs, variant{append([]byte(nil), ann[:n]...), "cut", n})
				}
			case "ext":
				for _, x := range []byte{0, 1, 0xff} {
					vs = append(vs, variant{append(append([]byte(nil), ann...), x), "ext", int(x)})
				}
			default:
				vfInfra(" unknown damage %q", tam)
			}
			os := w.stores[o]
			for _, v := range vs {
				ev := map[string]any{"ev": "register", "i": i, "o": o, "g": gl, "c": c, "tam": tam}
				if v.tag != "" {
					ev[v.tag] = v.x
				}
				ev["holds"] = w.omd[gl][o].Member().Equals(rpk)
				ev["csend"] = cpk.Equals(w.omd[sgl][sender].Device())
				ev["sameg"] = bytes.Equal(w.groups[gl].PublicKey, w.groups[sgl].PublicKey)
				before := os.ss.IsChainKeyKnownForDevice(ctx, w.gpk[gl], cpk)
				err := os.ss.RegisterChainKey(ctx, w.groups[gl], cpk, v.b)
				after := os.ss.IsChainKeyKnownForDevice(ctx, w.gpk[gl], cpk)
				ev["before"], ev["ok"], ev["after"] = before, err == nil, after
				if err == nil && !before {
					if past != nil {
						ev["past"] = opens(o, gl, past)
					}
					ev["opens"] = opens(o, gl, next)
				}
				out = append(out, ev)
			}
		default:
			vfInfra(" unknown action %q", st.Act)
		}
	}
	return out
}

func TestVerifAnnounceReplay(t *testing.T) {
	scripts := vfLoadScripts(t)
	tr := vfOpenTrace(t)
	defer tr.Close()
	var wg sync.WaitGroup
	ch := make(chan vfScript, 64)
	for k := 0; k < 8; k++ {
		wg.Add(1)
		go func() {
			defer wg.Done()
			for sc := range ch {
				tr.EmitBlock(vfAnnRun(t, sc))
			}
		}()
	}
	for _, sc := range scripts {
		ch <- sc
	}
	close(ch)
	wg.Wait()
	t.Logf("VERIF-DONE scripts=%d events=%d", len(scripts), tr.n)
}
