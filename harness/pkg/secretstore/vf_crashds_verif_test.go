//go:build verif

package secretstore_test

// Recording / crashing / delaying datastore handed to secretstore.NewSecretStore by the
// C09 and C10 drivers (the datastore is a constructor argument of the secret store: no hook).
//
//  * every mutation (Put, Delete, Batch.Commit - a batch commit is ONE atomic mutation, as on
//    badger) gets a sequence number under the controller's mutex and is recorded together with
//    the chain-key reads (linearisation order = order of the record);
//  * crash: the mutation with index crashAt is not applied, the owning store is dead from then
//    on (every later operation fails); the map content at that point is the surviving state;
//  * C09: a seeded delay / a gate is called in front of every Get and Put, outside the mutex.

import (
	"context"
	"encoding/base64"
	"encoding/binary"
	"errors"
	"io"
	"strconv"
	"strings"
	"sync"

	"github.com/ipfs/go-cid"
	"github.com/ipfs/go-datastore"
	"github.com/ipfs/go-datastore/query"
	"golang.org/x/crypto/hkdf"
	"golang.org/x/crypto/sha3"
	"google.golang.org/protobuf/proto"

	"berty.tech/weshnet/v2/pkg/protocoltypes"
)

var errVfCrashed = errors.New("verif: store crashed")

type vfThrKey struct{}

func vfThr(ctx context.Context) string {
	if v, ok := ctx.Value(vfThrKey{}).(string); ok {
		return v
	}
	return ""
}

type vfRawEv struct {
	seq   int
	mseq  int // mutation index, -1 for reads and notes
	store string
	thr   string
	kind  string // get | put | del | batch | note
	key   string
	val   []byte
	keys  []string       // batch: keys written, in order
	note  map[string]any // driver notes (begin / return of a call) ordered with the datastore operations
}

type vfCtl struct {
	mu       sync.Mutex
	seq      int
	mseq     int
	crashAt  int
	counting bool
	crashed  string
	recGets  bool
	log      []vfRawEv
	hook     func(thr, store, kind, key string) // called outside mu in front of every Get / mutation
}

func vfNewCtl() *vfCtl { return &vfCtl{crashAt: -1, counting: true} }

func (c *vfCtl) note(thr string, n map[string]any) {
	c.mu.Lock()
	c.log = append(c.log, vfRawEv{seq: c.seq, mseq: -1, thr: thr, kind: "note", note: n})
	c.seq++
	c.mu.Unlock()
}

type vfDS struct {
	name string
	ctl  *vfCtl
	m    map[string][]byte
	dead bool
}

func vfNewDS(name string, ctl *vfCtl, content map[string][]byte) *vfDS {
	m := map[string][]byte{}
	for k, v := range content {
		m[k] = append([]byte(nil), v...)
	}
	return &vfDS{name: name, ctl: ctl, m: m}
}

// snapshot returns a copy of the current content
func (d *vfDS) snapshot() map[string][]byte {
	d.ctl.mu.Lock()
	defer d.ctl.mu.Unlock()
	m := make(map[string][]byte, len(d.m))
	for k, v := range d.m {
		m[k] = append([]byte(nil), v...)
	}
	return m
}

func vfIsChainKey(key string) bool { return strings.HasPrefix(key, "/chainKeyForDeviceOnGroup/") }

func (d *vfDS) Get(ctx context.Context, key datastore.Key) ([]byte, error) {
	ks := key.String()
	if d.ctl.hook != nil && vfIsChainKey(ks) {
		d.ctl.hook(vfThr(ctx), d.name, "get", ks)
	}
	d.ctl.mu.Lock()
	defer d.ctl.mu.Unlock()
	if d.dead {
		return nil, errVfCrashed
	}
	v, ok := d.m[ks]
	if d.ctl.recGets && vfIsChainKey(ks) {
		d.ctl.log = append(d.ctl.log, vfRawEv{seq: d.ctl.seq, mseq: -1, store: d.name, thr: vfThr(ctx), kind: "get", key: ks, val: append([]byte(nil), v...)})
		d.ctl.seq++
	}
	if !ok {
		return nil, datastore.ErrNotFound
	}
	return append([]byte(nil), v...), nil
}

func (d *vfDS) Has(ctx context.Context, key datastore.Key) (bool, error) {
	d.ctl.mu.Lock()
	defer d.ctl.mu.Unlock()
	if d.dead {
		return false, errVfCrashed
	}
	_, ok := d.m[key.String()]
	return ok, nil
}

func (d *vfDS) GetSize(ctx context.Context, key datastore.Key) (int, error) {
	d.ctl.mu.Lock()
	defer d.ctl.mu.Unlock()
	if d.dead {
		return -1, errVfCrashed
	}
	v, ok := d.m[key.String()]
	if !ok {
		return -1, datastore.ErrNotFound
	}
	return len(v), nil
}

func (d *vfDS) Query(ctx context.Context, q query.Query) (query.Results, error) {
	d.ctl.mu.Lock()
	defer d.ctl.mu.Unlock()
	if d.dead {
		return nil, errVfCrashed
	}
	re := make([]query.Entry, 0, len(d.m))
	for k, v := range d.m {
		e := query.Entry{Key: k, Size: len(v)}
		if !q.KeysOnly {
			e.Value = append([]byte(nil), v...)
		}
		re = append(re, e)
	}
	return query.NaiveQueryApply(q, query.ResultsWithEntries(q, re)), nil
}

type vfWrite struct {
	del bool
	key string
	val []byte
}

// mutate applies one atomic mutation (a single write or a whole batch)
func (d *vfDS) mutate(ctx context.Context, kind string, ws []vfWrite) error {
	if d.ctl.hook != nil {
		d.ctl.hook(vfThr(ctx), d.name, kind, ws[0].key)
	}
	d.ctl.mu.Lock()
	defer d.ctl.mu.Unlock()
	if d.dead {
		return errVfCrashed
	}
	idx := -1
	if d.ctl.counting {
		if d.ctl.mseq == d.ctl.crashAt {
			d.dead = true
			d.ctl.crashed = d.name
			return errVfCrashed
		}
		idx = d.ctl.mseq
		d.ctl.mseq++
	}
	ev := vfRawEv{seq: d.ctl.seq, mseq: idx, store: d.name, thr: vfThr(ctx), kind: kind, key: ws[0].key, val: ws[0].val}
	d.ctl.seq++
	for _, w := range ws {
		if w.del {
			delete(d.m, w.key)
		} else {
			d.m[w.key] = append([]byte(nil), w.val...)
		}
		ev.keys = append(ev.keys, w.key)
	}
	d.ctl.log = append(d.ctl.log, ev)
	return nil
}

func (d *vfDS) Put(ctx context.Context, key datastore.Key, value []byte) error {
	return d.mutate(ctx, "put", []vfWrite{{key: key.String(), val: value}})
}

func (d *vfDS) Delete(ctx context.Context, key datastore.Key) error {
	return d.mutate(ctx, "del", []vfWrite{{del: true, key: key.String()}})
}

func (d *vfDS) Sync(ctx context.Context, prefix datastore.Key) error { return nil }
func (d *vfDS) Close() error                                         { return nil }

// vfBatchDS adds atomic batches (the badger behaviour); vfDS alone is the non-batching variant
type vfBatchDS struct{ *vfDS }

type vfBatch struct {
	d  *vfDS
	ws []vfWrite
}

func (b vfBatchDS) Batch(ctx context.Context) (datastore.Batch, error) { return &vfBatch{d: b.vfDS}, nil }

func (b *vfBatch) Put(ctx context.Context, key datastore.Key, value []byte) error {
	b.ws = append(b.ws, vfWrite{key: key.String(), val: append([]byte(nil), value...)})
	return nil
}

func (b *vfBatch) Delete(ctx context.Context, key datastore.Key) error {
	b.ws = append(b.ws, vfWrite{del: true, key: key.String()})
	return nil
}

func (b *vfBatch) Commit(ctx context.Context) error {
	if len(b.ws) == 0 {
		return nil
	}
	return b.d.mutate(ctx, "batch", b.ws)
}

var (
	_ datastore.Datastore = (*vfDS)(nil)
	_ datastore.Batching  = vfBatchDS{}
)

func vfAsDatastore(d *vfDS, batching bool) datastore.Datastore {
	if batching {
		return vfBatchDS{d}
	}
	return d
}

// ------------------------------------------------------------------------------------------
// resolution of raw datastore keys to the abstract labels of specs/RatchetStore.tla:
// class (chainKey / precomputed / byCID / hint / hintCounters / group / keystore), device, counter

type vfResolver struct {
	mu    sync.Mutex
	dev   map[string]string    // hex(device pk) / base64(device pk) -> abstract device name
	cids  map[string][2]any    // cid string -> (device, counter)
	hints map[string][2]any    // base64(ref) -> (device, counter)
	hdone map[string][2]int    // device -> range of counters whose references are known
	group *protocoltypes.Group // for the push references
	raw   map[string][]byte    // device name -> raw device pk
}

func vfNewResolver() *vfResolver {
	return &vfResolver{dev: map[string]string{}, cids: map[string][2]any{}, hints: map[string][2]any{}, hdone: map[string][2]int{}, raw: map[string][]byte{}}
}

func (r *vfResolver) addDevice(name string, raw []byte) {
	r.mu.Lock()
	defer r.mu.Unlock()
	r.dev[vfHex(raw)] = name
	r.dev[base64.RawURLEncoding.EncodeToString(raw)] = name
	r.raw[name] = append([]byte(nil), raw...)
}

func (r *vfResolver) addCID(c string, d string, k int) {
	r.mu.Lock()
	r.cids[c] = [2]any{d, k}
	r.mu.Unlock()
}

func vfHex(b []byte) string {
	const hexd = "0123456789abcdef"
	o := make([]byte, 0, 2*len(b))
	for _, c := range b {
		o = append(o, hexd[c>>4], hexd[c&15])
	}
	return string(o)
}

// vfOOSRef recomputes the push group reference of (group, sender device, counter) the way
// keys_utils.go does (HKDF-SHA3-256 twice); a wrong reimplementation only makes hint
// mutations unresolvable ("?"), which the conformance pass reports as drift on the unchanged tree.
func vfOOSRef(g *protocoltypes.Group, sender []byte, counter uint64) []byte {
	sec := make([]byte, 32)
	_, _ = io.ReadFull(hkdf.New(sha3.New256, g.GetSecret(), nil, []byte("push_secret_ref")), sec)
	buf := make([]byte, 8)
	binary.BigEndian.PutUint64(buf, counter)
	out := make([]byte, 32)
	_, _ = io.ReadFull(hkdf.New(sha3.New256, sec, nil, append(append([]byte{}, sender...), buf...)), out)
	return out
}

func (r *vfResolver) hintOf(ref string, lo, hi int) (string, int, bool) {
	r.mu.Lock()
	defer r.mu.Unlock()
	if r.group != nil {
		for name, raw := range r.raw {
			rg, ok := r.hdone[name]
			if ok && rg[0] <= lo && rg[1] >= hi {
				continue
			}
			for c := lo; c <= hi; c++ {
				r.hints[base64.RawURLEncoding.EncodeToString(vfOOSRef(r.group, raw, uint64(int64(c))))] = [2]any{name, c}
			}
			r.hdone[name] = [2]int{lo, hi}
		}
	}
	if v, ok := r.hints[ref]; ok {
		return v[0].(string), v[1].(int), true
	}
	return "?", 0, false
}

// label turns a recorded datastore event into {cls, kind, d, c, c2}
func (r *vfResolver) label(ev vfRawEv, hintLo, hintHi int) map[string]any {
	p := strings.Split(ev.key, "/") // leading ""
	out := map[string]any{"cls": "other", "kind": ev.kind, "d": "", "c": 0, "c2": 0}
	devOf := func(s string) string {
		r.mu.Lock()
		defer r.mu.Unlock()
		if n, ok := r.dev[s]; ok {
			return n
		}
		return "?"
	}
	if len(p) < 2 {
		return out
	}
	switch p[1] {
	case "chainKeyForDeviceOnGroup":
		out["cls"] = "chainKey"
		if len(p) >= 4 {
			out["d"] = devOf(p[3])
		}
		out["c"] = -1
		if len(ev.val) > 0 || ev.kind == "put" {
			ck := &protocoltypes.DeviceChainKey{}
			if proto.Unmarshal(ev.val, ck) == nil {
				out["c"] = int(ck.Counter)
			}
		}
	case "precomputedMessageKeys":
		out["cls"] = "precomputed"
		if len(p) >= 5 {
			out["d"] = devOf(p[3])
			c, _ := strconv.ParseUint(p[4], 10, 64)
			out["c"] = int(c)
		}
		if ev.kind == "batch" {
			lo, hi := -1, -1
			for i, k := range ev.keys {
				q := strings.Split(k, "/")
				c, err := strconv.ParseUint(q[len(q)-1], 10, 64)
				if err != nil || len(q) < 5 || q[1] != "precomputedMessageKeys" || (i > 0 && int(c) != hi+1) {
					out["cls"] = "other"
					break
				}
				if i == 0 {
					lo = int(c)
				}
				hi = int(c)
			}
			out["c"], out["c2"] = lo, hi
		}
	case "messageKeyForCIDs":
		out["cls"] = "byCID"
		r.mu.Lock()
		if v, ok := r.cids[p[2]]; ok {
			out["d"], out["c"] = v[0], v[1]
		} else {
			out["d"] = "?"
		}
		r.mu.Unlock()
	case "outOfStoreGroupHint":
		out["cls"] = "hint"
		d, c, _ := r.hintOf(p[2], hintLo, hintHi)
		out["d"], out["c"] = d, c
	case "outOfStoreGroupHintCounters":
		out["cls"] = "hintCounters"
		if len(p) >= 4 {
			out["d"] = devOf(p[3])
		}
		fl := &protocoltypes.FirstLastCounters{}
		if proto.Unmarshal(ev.val, fl) == nil {
			out["c"], out["c2"] = int(int64(fl.First)), int(int64(fl.Last))
		}
	case "groupByPublicKey":
		out["cls"] = "group"
	case "device_keystore":
		out["cls"] = "keystore"
		name := p[len(p)-1]
		if i := strings.Index(name, "_"); i >= 0 {
			name = name[:i]
		}
		out["d"] = name
	}
	return out
}

// vfSealed is an envelope handed out by SealEnvelope together with what the driver knows about it
type vfSealed struct {
	env     []byte
	cid     cid.Cid
	payload []byte
	k       int
}
