//go:build verif

package secretstore_test

// C09 driver.
//  mode "par"  : real parallelism - T goroutines x M SealEnvelope calls on one device store, seeded
//                random delays / yields in front of every chain-key Get and every mutation of the
//                recording datastore; every chain-key read, every mutation and the begin / return of
//                every call are recorded in the order of the datastore's own mutex.
//  mode "sched": controlled interleavings - the same hook is a gate; a controller lets exactly one
//                thread run from gate to gate, following a schedule TLC generated from the lock-free
//                variant of specs/RatchetStore.tla.  A thread that does not reach its next gate because
//                it waits for the message mutex is reported blocked and its steps are skipped until it
//                arrives (on correct code the schedule degenerates to a serial one).
// Afterwards a receiver registers the sender's announcement made at counter 0 and opens every
// envelope in counter order.  specs/MonRatchetStore.tla decides (mode "c09").

import (
	"context"
	"fmt"
	"math/rand"
	"regexp"
	"runtime"
	"sort"
	"strings"
	"sync"
	"testing"
	"time"
)

type vfRaceEnv struct {
	t   string
	env []byte
}

func vfGoID() string {
	b := make([]byte, 64)
	b = b[:runtime.Stack(b, false)]
	f := strings.Fields(string(b))
	if len(f) >= 2 {
		return f[1]
	}
	return ""
}

var vfGoState = regexp.MustCompile(`(?m)^goroutine (\d+) \[([^\]]+)\]:`)

// vfBlocked tells whether goroutine gid is parked in a lock acquisition
func vfBlocked(gid string) bool {
	buf := make([]byte, 1<<18)
	buf = buf[:runtime.Stack(buf, true)]
	for _, m := range vfGoState.FindAllStringSubmatch(string(buf), -1) {
		if m[1] == gid {
			st := m[2]
			return strings.HasPrefix(st, "sync.") || strings.HasPrefix(st, "semacquire")
		}
	}
	return false
}

// ---- controller of the controlled-interleaving mode
type vfGateCtl struct {
	mu      sync.Mutex
	atGate  map[string]chan struct{} // thread -> channel the controller closes to let it go on
	gids    map[string]string
	done    map[string]bool
	arrived chan string
}

func (g *vfGateCtl) gate(t string) {
	ch := make(chan struct{})
	g.mu.Lock()
	g.atGate[t] = ch
	g.mu.Unlock()
	g.arrived <- t
	<-ch
}

func (g *vfGateCtl) waiting(t string) bool {
	g.mu.Lock()
	defer g.mu.Unlock()
	return g.atGate[t] != nil
}

func (g *vfGateCtl) isDone(t string) bool {
	g.mu.Lock()
	defer g.mu.Unlock()
	return g.done[t]
}

// settle waits until t is at a gate, finished, or parked in a lock; returns "gate" | "done" | "blocked"
func (g *vfGateCtl) settle(t string) string {
	deadline := time.Now().Add(20 * time.Second)
	for i := 0; ; i++ {
		select {
		case <-g.arrived:
		default:
		}
		if g.waiting(t) {
			return "gate"
		}
		if g.isDone(t) {
			return "done"
		}
		if i > 3 && i%4 == 0 {
			g.mu.Lock()
			gid := g.gids[t]
			g.mu.Unlock()
			if gid != "" && vfBlocked(gid) {
				return "blocked"
			}
		}
		if time.Now().After(deadline) {
			vfInfra(" controller: thread %s neither reaches a gate nor blocks", t)
		}
		if i < 50 {
			runtime.Gosched()
		} else {
			time.Sleep(20 * time.Microsecond)
		}
	}
}

func (g *vfGateCtl) grant(t string) {
	g.mu.Lock()
	ch := g.atGate[t]
	g.atGate[t] = nil
	g.mu.Unlock()
	if ch != nil {
		close(ch)
	}
}

func vfRaceRun(sc vfScript) []map[string]any {
	wn, _ := vfNum(sc.Cfg, "W")
	n, _ := vfNum(sc.Cfg, "N")
	nthr, _ := vfNum(sc.Cfg, "threads")
	nmsg, _ := vfNum(sc.Cfg, "msgs")
	batching, _ := vfBool(sc.Cfg, "batching")
	gtype, _ := sc.Cfg["gtype"].(string)
	mode, _ := sc.Cfg["mode"].(string)
	w := vfNewCWorld(gtype, []string{"d1"}, wn, n, batching, int64(sc.ID))
	w.noProj = true
	out := []map[string]any{{"ev": "reset", "id": sc.ID, "mode": "c09", "gtype": gtype, "batching": batching, "how": mode}}
	strip := func(l map[string]any) map[string]any { delete(l, "st"); return l }
	for _, op := range w.prelude() {
		l := w.exec(op)
		if l == nil || l["ok"] != true {
			vfInfra(" set-up call failed: %v", l)
		}
		out = append(out, strip(l))
	}
	snd := w.st["d1"]
	names := make([]string, nthr)
	for i := range names {
		names[i] = fmt.Sprintf("t%d", i)
	}
	// ---- concurrent phase
	w.ctl.mu.Lock()
	start := len(w.ctl.log)
	w.ctl.recGets = true
	w.ctl.mu.Unlock()
	var gc *vfGateCtl
	if mode == "sched" {
		gc = &vfGateCtl{atGate: map[string]chan struct{}{}, gids: map[string]string{}, done: map[string]bool{}, arrived: make(chan string, 1024)}
		w.ctl.hook = func(thr, store, kind, key string) {
			if thr != "" && store == "d1" && (vfIsChainKey(key) || strings.HasPrefix(key, "/precomputedMessageKeys/")) {
				gc.gate(thr)
			}
		}
	} else {
		rnds := map[string]*rand.Rand{}
		for i, t := range names {
			rnds[t] = vfRand(int64(sc.ID)*1000 + int64(i))
		}
		w.ctl.hook = func(thr, store, kind, key string) {
			r := rnds[thr]
			if r == nil {
				return
			}
			switch r.Intn(8) {
			case 0, 1, 2:
				runtime.Gosched()
			case 3:
				time.Sleep(time.Duration(r.Intn(40)) * time.Microsecond)
			}
		}
	}
	envs := make([][]vfRaceEnv, nthr)
	var wg sync.WaitGroup
	for i, t := range names {
		wg.Add(1)
		go func(i int, t string) {
			defer wg.Done()
			if gc != nil {
				gc.mu.Lock()
				gc.gids[t] = vfGoID()
				gc.mu.Unlock()
				defer func() {
					gc.mu.Lock()
					gc.done[t] = true
					gc.mu.Unlock()
				}()
			}
			ctx := context.WithValue(w.ctx, vfThrKey{}, t)
			rnd := vfRand(int64(sc.ID)*7919 + int64(i))
			for j := 0; j < nmsg; j++ {
				payload := vfEncMsg(vfPayload(rnd, i*nmsg+j))
				if gc != nil {
					gc.gate(t)
				}
				w.ctl.note(t, map[string]any{"ev": "tbegin", "t": t, "d": "d1"})
				env, err := snd.ss.SealEnvelope(ctx, snd.g, payload)
				k := -1
				if err == nil {
					_, hdr, err2 := snd.ss.OpenEnvelopeHeaders(env, snd.g)
					if err2 != nil {
						vfInfra(" sender cannot open its own headers: %v", err2)
					}
					k = int(hdr.Counter)
				}
				w.ctl.note(t, map[string]any{"ev": "tret", "t": t, "d": "d1", "k": k, "ok": err == nil})
				if err == nil {
					envs[i] = append(envs[i], vfRaceEnv{t: t, env: env})
					_ = payload
				}
				// keep the payload with the envelope for the faithful-open check
				if err == nil {
					c := vfCID(env)
					w.res.addCID(c.String(), "d1", k)
					w.ctl.mu.Lock()
					if _, dup := w.msgs["d1"][k]; !dup {
						w.msgs["d1"][k] = &vfSealed{env: env, cid: c, payload: payload, k: k}
					}
					if k > w.maxk {
						w.maxk = k
					}
					w.ctl.mu.Unlock()
				}
			}
		}(i, t)
	}
	sched := []string{}
	if gc != nil {
		for _, st := range sc.Steps {
			if st.Act != "ret" {
				sched = append(sched, st.S)
			}
		}
		blocked, skipped := 0, 0
		// every thread first runs up to its first gate
		for _, t := range names {
			gc.settle(t)
		}
		step := func(t string) bool {
			if gc.isDone(t) || !gc.waiting(t) {
				return false
			}
			gc.grant(t)
			if gc.settle(t) == "blocked" {
				blocked++
			}
			return true
		}
		for _, t := range sched {
			if !step(t) {
				skipped++
			}
		}
		// drain: round-robin until every thread is done
		for guard := 0; ; guard++ {
			alive := false
			for _, t := range names {
				if !gc.isDone(t) {
					alive = true
					if gc.waiting(t) {
						step(t)
					} else {
						gc.settle(t)
					}
				}
			}
			if !alive {
				break
			}
			if guard > 100000 {
				vfInfra(" controller: drain does not terminate")
			}
		}
		out[0]["blocked"], out[0]["skipped"], out[0]["schedlen"] = blocked, skipped, len(sched)
	}
	wg.Wait()
	w.ctl.mu.Lock()
	w.ctl.recGets = false
	w.ctl.hook = nil
	evs := append([]vfRawEv(nil), w.ctl.log[start:]...)
	w.ctl.mu.Unlock()
	for _, e := range evs {
		switch e.kind {
		case "note":
			out = append(out, e.note)
		case "get":
			if e.thr == "" {
				continue
			}
			l := w.res.label(e, 0, 0)
			l["ev"], l["t"], l["s"] = "get", e.thr, e.store
			out = append(out, l)
		default:
			if e.thr == "" {
				continue
			}
			l := w.res.label(e, 0, 0)
			l["ev"], l["t"], l["s"] = "put", e.thr, e.store
			out = append(out, l)
		}
	}
	// ---- receiver phase: register the announcement made at counter 0, open everything in counter order
	if l := w.exec(vfCOp{act: "register", s: "R", d: "d1", x: 0}); l != nil {
		out = append(out, strip(l))
	} else {
		vfInfra(" no announcement at counter 0")
	}
	ks := []int{}
	for k := range w.msgs["d1"] {
		ks = append(ks, k)
	}
	sort.Ints(ks)
	for _, k := range ks {
		if l := w.exec(vfCOp{act: "open", s: "R", d: "d1", x: k}); l != nil {
			out = append(out, strip(l))
		}
	}
	out = append(out, map[string]any{"ev": "end"})
	return out
}

func TestVerifRace(t *testing.T) {
	scripts := vfLoadScripts(t)
	tr := vfOpenTrace(t)
	defer tr.Close()
	// parallel runs one after the other (each uses all cores); controlled schedules on a small worker pool
	var par, sched []vfScript
	for _, sc := range scripts {
		if m, _ := sc.Cfg["mode"].(string); m == "sched" {
			sched = append(sched, sc)
		} else {
			par = append(par, sc)
		}
	}
	for _, sc := range par {
		tr.EmitBlock(vfRaceRun(sc))
	}
	var wg sync.WaitGroup
	ch := make(chan vfScript, 64)
	for w := 0; w < 4; w++ {
		wg.Add(1)
		go func() {
			defer wg.Done()
			for sc := range ch {
				tr.EmitBlock(vfRaceRun(sc))
			}
		}()
	}
	for _, sc := range sched {
		ch <- sc
	}
	close(ch)
	wg.Wait()
	t.Logf("VERIF-DONE scripts=%d events=%d", len(scripts), tr.n)
}
