//go:build verif

package tinder

// Driver for specs/NotifyUser.tla, kind "peercache" (C16): peersCache.UpdatePeer /
// WaitForPeerUpdate under the cooperative scheduler (instrumented copies of
// peer_cache.go and internal/notify/notify.go).

import (
	"context"
	"fmt"
	"sort"
	"testing"

	"github.com/libp2p/go-libp2p/core/peer"
	ma "github.com/multiformats/go-multiaddr"

	"berty.tech/weshnet/v2/internal/verifsched"
)

func vfPeerCacheRun(sc vfScript) []map[string]any {
	c := verifsched.New()
	pc := newPeerCache()
	ctx, cancel := context.WithCancel(context.Background())
	defer cancel()
	ops, _ := sc.Cfg["ops"].([]any)
	waitersAny, _ := sc.Cfg["waiters"].([]any)
	calls, _ := vfNum(sc.Cfg, "calls")
	cancelWho, _ := sc.Cfg["cancel"].(string)
	withCancel := cancelWho != "" && cancelWho != "none"
	var cancels []context.CancelFunc
	ctargets := []string{}
	const topic = "topic"
	pid := peer.ID("p1")
	var addrs []ma.Multiaddr
	for i := 0; i < 8; i++ {
		a, err := ma.NewMultiaddr(fmt.Sprintf("/ip4/127.0.0.1/tcp/%d", 4000+i))
		if err != nil {
			vfInfra("multiaddr: %v", err)
		}
		addrs = append(addrs, a)
	}
	type ret struct {
		w  string
		ok bool
		n  int
	}
	var rets []ret
	curs := map[string]PeersUpdate{}
	c.Spawn("upd", func() {
		for _, o := range ops {
			v := int(o.(float64))
			if v < 0 { // the peer leaves the topic (advertise expired, unregistered)
				pc.RemoveFromCache(ctx, topic, pid)
				continue
			}
			pc.UpdatePeer(topic, peer.AddrInfo{ID: pid, Addrs: addrs[:v]})
		}
	})
	var wn []string
	for _, w := range waitersAny {
		wn = append(wn, w.(string))
	}
	sort.Strings(wn)
	for _, w := range wn {
		w := w
		cur := PeersUpdate{}
		curs[w] = cur
		wctx, wcancel := context.WithCancel(ctx)
		defer wcancel()
		if cancelWho == "all" || cancelWho == w {
			cancels = append(cancels, wcancel)
			ctargets = append(ctargets, w)
		}
		c.Spawn(w, func() {
			for i := 0; i < calls; i++ {
				upd, ok := pc.WaitForPeerUpdate(wctx, topic, cur)
				rets = append(rets, ret{w, ok, len(upd)})
				if !ok {
					return
				}
			}
		})
	}
	if withCancel {
		c.Spawn("cancel", func() {
			verifsched.Point("c_cancel")
			for _, f := range cancels {
				f()
			}
		})
	}
	scen, _ := vfNum(sc.Cfg, "scen")
	out := []map[string]any{{"ev": "reset", "id": sc.ID}, {"ev": "cfg", "scen": scen}}
	nret := 0
	snap := func(ev map[string]any) {
		ev["val"] = len(pc.peers[pid].Addrs)
		pend := map[string]any{}
		tu := pc.topics[topic]
		for w, cur := range curs {
			p := false
			if tu != nil {
				if t, ok := tu.peerUpdate[pid]; ok {
					last, seen := cur[pid]
					p = !seen || t.After(last)
				}
			}
			pend[w] = p
		}
		ev["pending"] = pend
		rl := []map[string]any{}
		for _, r := range rets[nret:] {
			rl = append(rl, map[string]any{"w": r.w, "ok": r.ok, "n": r.n})
		}
		nret = len(rets)
		ev["ret"] = rl
	}
	emit := func(r verifsched.Rec, ok bool) {
		ev := map[string]any{"ev": "step", "t": r.Thread, "from": r.From, "to": r.To, "p": r.Progress, "ok": ok, "ctargets": ctargets}
		snap(ev)
		out = append(out, ev)
	}
	for _, st := range sc.Steps {
		r, ok := c.Step(st.D)
		emit(r, ok)
	}
	extra := 0
	for extra < 600 {
		progressed := false
		for _, n := range c.Names() {
			if c.States()[n].Kind != "gate" {
				continue
			}
			r, ok := c.Step(n)
			extra++
			if ok && r.Progress {
				progressed = true
				emit(r, ok)
			}
		}
		if !progressed {
			break
		}
	}
	st := c.States()
	fin := map[string]any{"ev": "final", "extra": extra, "livelock": extra >= 600}
	snap(fin)
	atgate, parked := []string{}, []string{}
	for n, s := range st {
		if s.Kind == "gate" {
			atgate = append(atgate, n)
		}
		if s.Kind == "blocked" {
			parked = append(parked, n)
		}
	}
	sort.Strings(atgate)
	sort.Strings(parked)
	fin["atgate"], fin["parked"] = atgate, parked
	out = append(out, fin)
	c.Close()
	cancel()
	return out
}

func TestVerifPeerCacheSched(t *testing.T) {
	scripts := vfLoadScripts(t)
	tr := vfOpenTrace(t)
	defer tr.Close()
	for _, sc := range scripts {
		tr.EmitBlock(vfPeerCacheRun(sc))
	}
	t.Logf("VERIF-DONE scripts=%d events=%d", len(scripts), tr.n)
}
