//go:build verif

package lifecycle

// Driver for specs/NotifyUser.tla, kind "lifecycle" (C16): Manager.UpdateState /
// WaitForStateChange / GetCurrentState under the cooperative scheduler (instrumented
// copies of manager.go and internal/notify/notify.go).

import (
	"context"
	"sort"
	"testing"

	"berty.tech/weshnet/v2/internal/verifsched"
)

func vfLifecycleRun(sc vfScript) []map[string]any {
	c := verifsched.New()
	m := NewManager(State(0))
	ctx, cancel := context.WithCancel(context.Background())
	defer cancel()
	ops, _ := sc.Cfg["ops"].([]any)
	waitersAny, _ := sc.Cfg["waiters"].([]any)
	calls, _ := vfNum(sc.Cfg, "calls")
	cancelWho, _ := sc.Cfg["cancel"].(string)
	withCancel := cancelWho != "" && cancelWho != "none"
	var cancels []context.CancelFunc
	ctargets := []string{}
	type ret struct {
		w  string
		ok bool
	}
	var rets []ret
	seen := map[string]*State{}
	c.Spawn("upd", func() {
		for _, o := range ops {
			m.UpdateState(State(int(o.(float64))))
		}
	})
	var wn []string
	for _, w := range waitersAny {
		wn = append(wn, w.(string))
	}
	sort.Strings(wn)
	for _, w := range wn {
		w := w
		cur := State(0)
		seen[w] = &cur
		wctx, wcancel := context.WithCancel(ctx)
		defer wcancel()
		if cancelWho == "all" || cancelWho == w {
			cancels = append(cancels, wcancel)
			ctargets = append(ctargets, w)
		}
		c.Spawn(w, func() {
			for i := 0; i < calls; i++ {
				ok := m.WaitForStateChange(wctx, cur)
				rets = append(rets, ret{w, ok})
				if !ok {
					return
				}
				cur = m.GetCurrentState()
			}
		})
	}
	if withCancel {
		c.Spawn("cancel", func() {
			verifsched.Point("c_cancel")
			for _, f := range cancels {
				f()
			}
		})
	}
	scen, _ := vfNum(sc.Cfg, "scen")
	out := []map[string]any{{"ev": "reset", "id": sc.ID}, {"ev": "cfg", "scen": scen}}
	nret := 0
	snap := func(ev map[string]any) {
		ev["val"] = int(m.currentState)
		pend := map[string]any{}
		for w, s := range seen {
			pend[w] = *s != m.currentState
		}
		ev["pending"] = pend
		rl := []map[string]any{}
		for _, r := range rets[nret:] {
			rl = append(rl, map[string]any{"w": r.w, "ok": r.ok})
		}
		nret = len(rets)
		ev["ret"] = rl
	}
	emit := func(r verifsched.Rec, ok bool) {
		ev := map[string]any{"ev": "step", "t": r.Thread, "from": r.From, "to": r.To, "p": r.Progress, "ok": ok, "ctargets": ctargets}
		snap(ev)
		out = append(out, ev)
	}
	for _, st := range sc.Steps {
		r, ok := c.Step(st.D)
		emit(r, ok)
	}
	extra := 0
	for extra < 600 {
		progressed := false
		for _, n := range c.Names() {
			if c.States()[n].Kind != "gate" {
				continue
			}
			r, ok := c.Step(n)
			extra++
			if ok && r.Progress {
				progressed = true
				emit(r, ok)
			}
		}
		if !progressed {
			break
		}
	}
	st := c.States()
	fin := map[string]any{"ev": "final", "extra": extra, "livelock": extra >= 600}
	snap(fin)
	atgate, parked := []string{}, []string{}
	for n, s := range st {
		if s.Kind == "gate" {
			atgate = append(atgate, n)
		}
		if s.Kind == "blocked" {
			parked = append(parked, n)
		}
	}
	sort.Strings(atgate)
	sort.Strings(parked)
	fin["atgate"], fin["parked"] = atgate, parked
	out = append(out, fin)
	c.Close()
	cancel()
	return out
}

func TestVerifLifecycleSched(t *testing.T) {
	scripts := vfLoadScripts(t)
	tr := vfOpenTrace(t)
	defer tr.Close()
	for _, sc := range scripts {
		tr.EmitBlock(vfLifecycleRun(sc))
	}
	t.Logf("VERIF-DONE scripts=%d events=%d", len(scripts), tr.n)
}
