//go:build verif

package protoio

// Driver for specs/Framing.tla (C18): replays TLC-generated (input, chunking) scripts on the
// real length-delimited writers/readers of this package and records, per ReadMsg call, what
// was observed: delivered or not, equality with the written message, error class, capacity
// of the reader's grown buffers (reflection), bytes allocated during the call, panic.

import (
	"bytes"
	"encoding/binary"
	"errors"
	"fmt"
	"io"
	"reflect"
	"runtime"
	"runtime/metrics"
	"sort"
	"strings"
	"testing"

	"google.golang.org/protobuf/proto"
	"google.golang.org/protobuf/types/known/anypb"
	"google.golang.org/protobuf/types/known/wrapperspb"
)

// ---------------------------------------------------------------- messages of an exact size

func vfMsgOfSize(n int, fill byte) proto.Message {
	if n == 0 {
		return &wrapperspb.BytesValue{}
	}
	if n == 1 {
		vfInfra("no protobuf message has encoded size 1")
	}
	if n == 2 {
		return &wrapperspb.Int32Value{Value: int32(fill%100) + 1}
	}
	mk := func(p int) []byte {
		b := make([]byte, p)
		for i := range b {
			b[i] = fill + byte(i*7)
		}
		return b
	}
	for p := n - 2; p >= 1 && p >= n-6; p-- {
		m := &wrapperspb.BytesValue{Value: mk(p)}
		if proto.Size(m) == n {
			return m
		}
	}
	for a := 1; a <= 4; a++ {
		for p := n - a - 3; p >= 1 && p >= n-a-8; p-- {
			m := &anypb.Any{TypeUrl: strings.Repeat("u", a), Value: mk(p)}
			if proto.Size(m) == n {
				return m
			}
		}
	}
	vfInfra("cannot build a message of size %d", n)
	return nil
}

// vfFast makes the writers take their MarshalTo/Size fast path
type vfFast struct {
	proto.Message
	raw []byte
}

func (m vfFast) MarshalTo(b []byte) (int, error) { return copy(b, m.raw), nil }
func (m vfFast) Size() int                       { return len(m.raw) }

// ---------------------------------------------------------------- chunking reader

type vfChunkReader struct {
	data    []byte
	pos     int
	cuts    []int // sorted positions at which a Read call must stop
	eofData bool  // deliver io.EOF together with the last bytes
	reads   int
}

func (c *vfChunkReader) Read(p []byte) (int, error) {
	c.reads++
	if c.pos >= len(c.data) {
		return 0, io.EOF
	}
	if len(p) == 0 {
		return 0, nil
	}
	next := len(c.data)
	i := sort.SearchInts(c.cuts, c.pos+1)
	if i < len(c.cuts) && c.cuts[i] < next {
		next = c.cuts[i]
	}
	n := next - c.pos
	if n > len(p) {
		n = len(p)
	}
	copy(p, c.data[c.pos:c.pos+n])
	c.pos += n
	if c.eofData && c.pos == len(c.data) {
		return n, io.EOF
	}
	return n, nil
}

// ---------------------------------------------------------------- observation helpers

func vfByteCaps(r any) []int {
	v := reflect.ValueOf(r)
	for v.Kind() == reflect.Ptr || v.Kind() == reflect.Interface {
		v = v.Elem()
	}
	var out []int
	if v.Kind() != reflect.Struct {
		return out
	}
	for i := 0; i < v.NumField(); i++ {
		f := v.Field(i)
		if f.Kind() == reflect.Slice && f.Type().Elem().Kind() == reflect.Uint8 {
			out = append(out, f.Cap())
		} else {
			out = append(out, -1)
		}
	}
	return out
}

// capacity of the largest byte buffer of the reader that changed since construction
func vfGrown(r any, base []int) int {
	g := 0
	for i, c := range vfByteCaps(r) {
		if i < len(base) && c != base[i] && c > g {
			g = c
		}
	}
	return g
}

var vfAllocSample = []metrics.Sample{{Name: "/gc/heap/allocs:bytes"}}

func vfAllocs() uint64 {
	metrics.Read(vfAllocSample)
	if vfAllocSample[0].Value.Kind() != metrics.KindUint64 {
		vfInfra("runtime metric /gc/heap/allocs:bytes unavailable")
	}
	return vfAllocSample[0].Value.Uint64()
}

// exact, but stops the world: used only to re-measure a call whose cheap measurement looks large
// (the runtime attributes small allocations to /gc/heap/allocs lazily, in bursts)
func vfAllocsPrecise() uint64 {
	var ms runtime.MemStats
	runtime.ReadMemStats(&ms)
	return ms.TotalAlloc
}

const vfAllocNoise = 32 << 10

func vfErrClass(err error) string {
	switch {
	case err == nil:
		return "none"
	case errors.Is(err, io.EOF):
		return "eof"
	case errors.Is(err, io.ErrUnexpectedEOF):
		return "ueof"
	case errors.Is(err, io.ErrShortBuffer):
		return "short"
	case strings.Contains(err.Error(), "overflow"):
		return "overflow"
	case strings.Contains(err.Error(), "proto"):
		return "proto"
	}
	return "other"
}

func vfNewReader(variant string, r io.Reader, limit int) Reader {
	switch variant {
	case "varint":
		return NewDelimitedReader(r, limit)
	case "u32be":
		return NewUint32DelimitedReader(r, binary.BigEndian, limit)
	case "u32le":
		return NewUint32DelimitedReader(r, binary.LittleEndian, limit)
	}
	vfInfra("unknown variant %q", variant)
	return nil
}

func vfNewWriter(variant string, w io.Writer, sized int) Writer {
	switch variant {
	case "varint":
		return NewDelimitedWriter(w)
	case "u32be":
		if sized > 0 {
			return NewSizeUint32DelimitedWriter(w, binary.BigEndian, sized)
		}
		return NewUint32DelimitedWriter(w, binary.BigEndian)
	case "u32le":
		if sized > 0 {
			return NewSizeUint32DelimitedWriter(w, binary.LittleEndian, sized)
		}
		return NewUint32DelimitedWriter(w, binary.LittleEndian)
	}
	vfInfra("unknown variant %q", variant)
	return nil
}

// one ReadMsg under recover; returns the event fields
func vfReadOnce(rd Reader, base []int, into proto.Message, precise bool) (ev map[string]any, err error, panicked bool) {
	ev = map[string]any{}
	allocs := vfAllocs
	if precise {
		allocs = vfAllocsPrecise
	}
	a0 := allocs()
	func() {
		defer func() {
			if r := recover(); r != nil {
				panicked = true
				ev["panicmsg"] = fmt.Sprint(r)
			}
		}()
		err = rd.ReadMsg(into)
	}()
	a1 := allocs()
	ev["panic"] = panicked
	ev["ok"] = err == nil && !panicked
	ev["errc"] = vfErrClass(err)
	ev["cap"] = vfGrown(rd, base)
	d := int64(a1 - a0)
	if d > 1<<30 {
		d = 1 << 30
	}
	ev["allocd"] = int(d)
	return
}

// ---------------------------------------------------------------- scripts

type vfFrame struct {
	Kind string
	Size int   // abstract body size
	Pfx  []int // abstract prefix bytes
}

type vfSeg struct{ a0, a1, r0, r1 int }

func vfMapPos(segs []vfSeg, x int) int {
	if len(segs) == 0 {
		return 0
	}
	for _, s := range segs {
		if x < s.a0 || x > s.a1 {
			continue
		}
		if x == s.a0 {
			return s.r0
		}
		if x == s.a1 {
			if s.a1 == s.a0 {
				continue
			}
			return s.r1
		}
		rl, al := s.r1-s.r0, s.a1-s.a0
		if rl < 2 {
			return s.r0
		}
		o := ((x-s.a0)*rl + al/2) / al
		if o < 1 {
			o = 1
		}
		if o > rl-1 {
			o = rl - 1
		}
		return s.r0 + o
	}
	return segs[len(segs)-1].r1
}

func vfAnyInts(v any) []int {
	l, _ := v.([]any)
	out := make([]int, 0, len(l)+1)
	for _, x := range l {
		f, _ := x.(float64)
		out = append(out, int(f))
	}
	return out
}

// real body size of an abstract size s under abstract limit L and real limit R
func vfRealSize(s, L, R int, mid []int) int {
	if s == 0 {
		return 0
	}
	n := 0
	if s >= L-1 {
		n = R - (L - s)
	} else {
		n = mid[(s-1)%len(mid)]
	}
	if n == 1 {
		n = 2
	}
	if n < 0 {
		n = 0
	}
	return n
}

func vfUvarint(n uint64) []byte {
	b := make([]byte, binary.MaxVarintLen64)
	return b[:binary.PutUvarint(b, n)]
}

func vfRawPrefix(variant, kind string, size int) []byte {
	if variant == "varint" {
		switch kind {
		case "overlong":
			return bytes.Repeat([]byte{0x80}, 10)
		case "ovf9":
			return append(bytes.Repeat([]byte{0x80}, 9), 0x02)
		case "huge":
			return append(bytes.Repeat([]byte{0xff}, 9), 0x01)
		case "big":
			return []byte{0x80, 0x80, 0x80, 0x01} // 2^21
		case "nonmin":
			b := vfUvarint(uint64(size))
			b[len(b)-1] |= 0x80
			return append(b, 0x00)
		}
	} else {
		var v uint32
		switch kind {
		case "big":
			v = 1 << 22
		case "top":
			v = 1 << 31
		default:
			vfInfra("unknown raw kind %q", kind)
		}
		b := make([]byte, 4)
		if variant == "u32be" {
			binary.BigEndian.PutUint32(b, v)
		} else {
			binary.LittleEndian.PutUint32(b, v)
		}
		return b
	}
	vfInfra("unknown raw kind %q for %s", kind, variant)
	return nil
}

func vfSound(kind string) bool { return kind == "msg" || kind == "nonmin" }

// vfFramingRun executes one script under one (variant, real limit) and returns its block
func vfFramingRun(sc vfScript, blockID int, variant string, L, R int, realCuts bool) []map[string]any {
	if len(sc.Steps) == 0 || sc.Steps[0].Act != "input" {
		vfInfra("script %d does not start with an input step", sc.ID)
	}
	in := sc.Steps[0]
	rnd := vfRand(int64(sc.ID)*131 + int64(R))
	var frames []vfFrame
	fl, _ := in.A["frames"].([]any)
	for _, f := range fl {
		m := f.(map[string]any)
		k, _ := m["kind"].(string)
		sz, _ := vfNum(m, "size")
		pf := vfAnyInts(m["pfx"])
		if variant == "u32le" && len(pf) == 4 { // scripts are generated for the big-endian variant
			pf = []int{pf[3], pf[2], pf[1], pf[0]}
		}
		frames = append(frames, vfFrame{Kind: k, Size: sz, Pfx: pf})
	}
	abstractN := in.X
	cs := vfAnyInts(in.A["cs"])
	fast := sc.ID%2 == 1
	mid := []int{2, 3}
	if R >= 8 {
		mid = []int{2 + rnd.Intn(R-3), 2 + rnd.Intn(R-3)}
	}

	// ---- write the stream with the real writer
	var buf bytes.Buffer
	sized := 0
	if sc.ID%3 == 0 {
		sized = R / 2
	}
	wr := vfNewWriter(variant, &buf, sized)
	var written []proto.Message // message of each frame (nil: frame carries none)
	var segs []vfSeg
	rframes := []map[string]any{}
	aframes := []map[string]any{}
	rs := map[int]int{}
	apos := 0
	for i, fr := range frames {
		rsz := vfRealSize(fr.Size, L, R, mid)
		rs[fr.Size] = rsz
		start := buf.Len()
		var msg proto.Message
		plen := 0
		if fr.Kind == "msg" {
			msg = vfMsgOfSize(rsz, byte(rnd.Intn(256)))
			var wm proto.Message = msg
			if fast {
				raw, err := proto.Marshal(msg)
				if err != nil {
					vfInfra("marshal: %v", err)
				}
				wm = vfFast{Message: msg, raw: raw}
			}
			var werr error
			func() {
				defer func() {
					if r := recover(); r != nil {
						werr = fmt.Errorf("writer panic: %v", r)
					}
				}()
				werr = wr.WriteMsg(wm)
			}()
			if werr != nil {
				// a writer that refuses a well-formed message: recorded, the monitor rejects it
				return []map[string]any{{"ev": "reset", "id": blockID}, {"ev": "wfail", "i": i, "err": werr.Error(), "panic": strings.HasPrefix(werr.Error(), "writer panic")}}
			}
			plen = buf.Len() - start - rsz
			if plen < 0 {
				plen = 0
			}
		} else {
			pfx := vfRawPrefix(variant, fr.Kind, rsz)
			buf.Write(pfx)
			plen = len(pfx)
			if vfSound(fr.Kind) {
				msg = vfMsgOfSize(rsz, byte(rnd.Intn(256)))
				raw, _ := proto.Marshal(msg)
				buf.Write(raw)
			} else {
				rsz = 0
			}
		}
		written = append(written, msg)
		end := buf.Len()
		pa := len(fr.Pfx)
		ba := fr.Size
		if !vfSound(fr.Kind) {
			ba = 0
		}
		segs = append(segs, vfSeg{apos, apos + pa, start, start + plen}, vfSeg{apos + pa, apos + pa + ba, start + plen, end})
		apos += pa + ba
		rframes = append(rframes, map[string]any{"kind": fr.Kind, "size": end - start - plen, "plen": plen, "msize": rsz})
		aframes = append(aframes, map[string]any{"kind": fr.Kind, "size": ba, "pfx": fr.Pfx})
	}
	full := buf.Bytes()
	n := vfMapPos(segs, abstractN)
	if abstractN >= apos {
		n = len(full)
	}
	data := append([]byte(nil), full[:n]...)
	var cuts []int
	if realCuts {
		// seeded chunking of the real stream, independent of the abstract one
		k := []int{1, 2, 3, 7, 64, 5000}[rnd.Intn(6)]
		for p := 0; p < n; {
			p += 1 + rnd.Intn(k)
			cuts = append(cuts, p)
		}
	} else {
		p := 0
		for _, c := range cs {
			p += c
			cuts = append(cuts, vfMapPos(segs, p))
		}
		sort.Ints(cuts)
	}
	cr := &vfChunkReader{data: data, cuts: cuts, eofData: (sc.ID/2)%2 == 1}
	rd := vfNewReader(variant, cr, R)
	base := vfByteCaps(rd)

	rsl := []int{}
	maxs := 0
	for s := range rs {
		if s > maxs {
			maxs = s
		}
	}
	for s := 0; s <= maxs; s++ {
		rsl = append(rsl, rs[s]) // 0 for sizes that do not occur
	}
	out := []map[string]any{
		{"ev": "reset", "id": blockID},
		{"ev": "input", "variant": variant, "limit": R, "n": n, "frames": rframes,
			"L": L, "an": abstractN, "afr": aframes, "cs": cs, "rs": rsl, "abstract": !realCuts,
			"fast": fast, "eofd": cr.eofData, "script": sc.ID},
	}
	// ---- read until the first error, then once more
	readAll := func(rd Reader, base []int, precise bool) []map[string]any {
		var evs []map[string]any
		var got []proto.Message
		var want []proto.Message
		delivered := 0
		post := false
		for j := 1; j <= len(frames)+3; j++ {
			var target proto.Message = &anypb.Any{}
			idx := delivered
			if idx < len(written) && written[idx] != nil {
				target = written[idx].ProtoReflect().New().Interface()
			}
			ev, err, panicked := vfReadOnce(rd, base, target, precise)
			ev["ev"] = "read"
			ev["j"] = j
			ev["post"] = post
			// frames delivered earlier must still equal what was written (no buffer reuse damage)
			prevok := true
			for i := range got {
				if want[i] != nil && !proto.Equal(got[i], want[i]) {
					prevok = false
				}
			}
			same := false
			if err == nil && !panicked {
				if idx < len(written) && written[idx] != nil {
					same = proto.Equal(target, written[idx])
				}
				if same {
					got = append(got, target)
					want = append(want, written[idx])
				}
				delivered++
			}
			ev["same"] = same
			ev["prevok"] = prevok
			evs = append(evs, ev)
			if post || panicked {
				break
			}
			if err != nil {
				post = true
			}
		}
		return evs
	}
	evs := readAll(rd, base, false)
	suspicious := false
	for _, ev := range evs {
		if ev["allocd"].(int) > R+vfAllocNoise {
			suspicious = true
		}
	}
	if suspicious {
		// same input, fresh reader, exact measurement; the smaller figure of the two runs counts
		cr2 := &vfChunkReader{data: data, cuts: cuts, eofData: cr.eofData}
		rd2 := vfNewReader(variant, cr2, R)
		evs2 := readAll(rd2, vfByteCaps(rd2), true)
		for i := range evs {
			if i < len(evs2) && evs2[i]["allocd"].(int) < evs[i]["allocd"].(int) {
				evs[i]["allocd"] = evs2[i]["allocd"]
				evs[i]["remeasured"] = true
			}
		}
	}
	out = append(out, evs...)
	return out
}

func TestVerifFramingReplay(t *testing.T) {
	scripts := vfLoadScripts(t)
	tr := vfOpenTrace(t)
	defer tr.Close()
	blocks := 0
	for _, sc := range scripts {
		L, _ := vfNum(sc.Cfg, "L")
		variants := []string{}
		if vl, ok := sc.Cfg["variants"].([]any); ok {
			for _, v := range vl {
				variants = append(variants, v.(string))
			}
		}
		reals := vfAnyInts(sc.Cfg["R"])
		rc, _ := vfBool(sc.Cfg, "realcuts")
		k := 0
		for _, v := range variants {
			for _, R := range reals {
				tr.EmitBlock(vfFramingRun(sc, sc.ID*16+k, v, L, R, rc))
				k++
				blocks++
			}
		}
		if k > 16 {
			vfInfra("too many runs per script")
		}
	}
	t.Logf("VERIF-DONE framing blocks=%d", blocks)
}

// ---------------------------------------------------------------- robustness on arbitrary bytes

func vfFuzzInput(i int) (variant string, limit int, data []byte, cuts []int, eofd bool) {
	rnd := vfRand(int64(i)*7919 + 17)
	variant = []string{"varint", "u32be", "u32le"}[i%3]
	limit = []int{0, 1, 2, 3, 8, 64, 2048, 1 << 20}[rnd.Intn(8)]
	n := []int{0, 1, 2, 3, 4, 5, 8, 11, 16, 40, 300, 5000}[rnd.Intn(12)]
	data = make([]byte, n)
	switch rnd.Intn(4) {
	case 0: // uniform bytes
		rnd.Read(data)
	case 1: // small values: plausible short lengths
		for j := range data {
			data[j] = byte(rnd.Intn(6))
		}
	case 2: // continuation bits everywhere, a few breaks
		for j := range data {
			data[j] = 0x80 | byte(rnd.Intn(128))
			if rnd.Intn(7) == 0 {
				data[j] &= 0x7f
			}
		}
	case 3: // a valid stream with flipped bits
		var b bytes.Buffer
		w := vfNewWriter(variant, &b, 0)
		for b.Len() < n {
			sz := rnd.Intn(12)
			if sz == 1 {
				sz = 0
			}
			if err := w.WriteMsg(vfMsgOfSize(sz, byte(rnd.Intn(256)))); err != nil {
				vfInfra("fuzz writer: %v", err)
			}
		}
		data = b.Bytes()
		for f := rnd.Intn(3); f > 0 && len(data) > 0; f-- {
			data[rnd.Intn(len(data))] ^= 1 << uint(rnd.Intn(8))
		}
		if rnd.Intn(2) == 0 && len(data) > 0 {
			data = data[:rnd.Intn(len(data))]
		}
	}
	k := []int{1, 2, 3, 9, 100000}[rnd.Intn(5)]
	for p := 0; p < len(data); {
		p += 1 + rnd.Intn(k)
		cuts = append(cuts, p)
	}
	eofd = rnd.Intn(2) == 0
	return
}

func TestVerifFramingFuzz(t *testing.T) {
	tr := vfOpenTrace(t)
	defer tr.Close()
	n := vfEnvInt("VERIF_FUZZ_N", 2000)
	from := vfEnvInt("VERIF_FUZZ_FROM", 0)
	per := 500
	for b := from; b < from+n; b += per {
		out := []map[string]any{{"ev": "reset", "id": b}}
		for i := b; i < b+per && i < from+n; i++ {
			variant, limit, data, cuts, eofd := vfFuzzInput(i)
			run := func(precise bool) (reads int, panics bool, maxcap, maxalloc, oks int, lastc string) {
				cr := &vfChunkReader{data: data, cuts: cuts, eofData: eofd}
				rd := vfNewReader(variant, cr, limit)
				base := vfByteCaps(rd)
				lastc = "none"
				for reads <= len(data)+2 {
					ev, err, p := vfReadOnce(rd, base, &anypb.Any{}, precise)
					reads++
					if c := ev["cap"].(int); c > maxcap {
						maxcap = c
					}
					if err != nil || p {
						// the allocation bound is about refused frames
						if a := ev["allocd"].(int); a > maxalloc {
							maxalloc = a
						}
					}
					if p {
						panics = true
						break
					}
					if err != nil {
						lastc = vfErrClass(err)
						if lastc != "proto" { // an undecodable body does not desynchronise the framing
							break
						}
					} else {
						oks++
					}
				}
				return
			}
			reads, panics, maxcap, maxalloc, oks, lastc := run(false)
			if maxalloc > limit+vfAllocNoise && !panics {
				if _, _, _, ma2, _, _ := run(true); ma2 < maxalloc {
					maxalloc = ma2
				}
			}
			out = append(out, map[string]any{"ev": "fuzz", "i": i, "variant": variant, "limit": limit, "len": len(data),
				"reads": reads, "oks": oks, "panic": panics, "cap": maxcap, "allocd": maxalloc, "errc": lastc})
		}
		tr.EmitBlock(out)
	}
	t.Logf("VERIF-DONE framing fuzz n=%d", n)
}
