//go:build verif

package rendezvous

// Virtual clock for the /verif drivers (injected by the build overlay, never part of the
// repository).  checks/rendezvous.py rewrites the clock reads of this package
// (time.Now/Until/Since/AfterFunc) to the vfClock* functions below; while the virtual mode is
// off they are the real clock, so the rest of the program is not affected.  Timer callbacks
// are never run inside AfterFunc itself: they run when the driver calls VfClockRunDue /
// VfClockSet, in due order, each at its due instant.

import (
	"sort"
	"sync"
	"time"
)

type vfTimer struct {
	due     time.Time
	f       func()
	seq     int
	done    bool
	real    *time.Timer
	virtual bool
}

var vfClock struct {
	mu      sync.Mutex
	virtual bool
	now     time.Time
	timers  []*vfTimer
	seq     int
}

func vfClockNow() time.Time {
	vfClock.mu.Lock()
	defer vfClock.mu.Unlock()
	if !vfClock.virtual {
		return time.Now()
	}
	return vfClock.now
}

func vfClockUntil(t time.Time) time.Duration { return t.Sub(vfClockNow()) }
func vfClockSince(t time.Time) time.Duration { return vfClockNow().Sub(t) }

func vfClockAfterFunc(d time.Duration, f func()) *vfTimer {
	vfClock.mu.Lock()
	defer vfClock.mu.Unlock()
	if !vfClock.virtual {
		return &vfTimer{real: time.AfterFunc(d, f)}
	}
	if d < 0 {
		d = 0
	}
	vfClock.seq++
	t := &vfTimer{due: vfClock.now.Add(d), f: f, seq: vfClock.seq, virtual: true}
	vfClock.timers = append(vfClock.timers, t)
	return t
}

func (t *vfTimer) Stop() bool {
	if !t.virtual {
		return t.real.Stop()
	}
	vfClock.mu.Lock()
	defer vfClock.mu.Unlock()
	was := !t.done
	t.done = true
	return was
}

// VfClockEnable switches this package to the virtual clock, starting at `start`, no timers.
func VfClockEnable(start time.Time) {
	vfClock.mu.Lock()
	vfClock.virtual = true
	vfClock.now = start
	vfClock.timers = nil
	vfClock.mu.Unlock()
}

// VfClockNow reads the clock this package uses (virtual or real).
func VfClockNow() time.Time { return vfClockNow() }

func VfClockDisable() {
	vfClock.mu.Lock()
	vfClock.virtual = false
	vfClock.timers = nil
	vfClock.mu.Unlock()
}

func vfClockNextDue(limit time.Time) *vfTimer {
	vfClock.mu.Lock()
	defer vfClock.mu.Unlock()
	var live []*vfTimer
	for _, t := range vfClock.timers {
		if !t.done {
			live = append(live, t)
		}
	}
	vfClock.timers = live
	sort.SliceStable(live, func(i, j int) bool {
		if !live[i].due.Equal(live[j].due) {
			return live[i].due.Before(live[j].due)
		}
		return live[i].seq < live[j].seq
	})
	if len(live) > 0 && !live[0].due.After(limit) {
		t := live[0]
		t.done = true
		if t.due.After(vfClock.now) {
			vfClock.now = t.due
		}
		return t
	}
	return nil
}

// VfClockSet moves the virtual clock forward to t, running every timer that becomes due on
// the way at its due instant; returns the number of timers run.
func VfClockSet(t time.Time) int {
	n := 0
	for {
		tm := vfClockNextDue(t)
		if tm == nil {
			break
		}
		tm.f()
		n++
	}
	vfClock.mu.Lock()
	if t.After(vfClock.now) {
		vfClock.now = t
	}
	vfClock.mu.Unlock()
	return n
}

// VfClockRunDue runs the timers that are due at the current virtual instant.
func VfClockRunDue() int {
	vfClock.mu.Lock()
	now := vfClock.now
	vfClock.mu.Unlock()
	return VfClockSet(now)
}

// VfClockPending lists the due instants of the timers not yet run.
func VfClockPending() []time.Time {
	vfClock.mu.Lock()
	defer vfClock.mu.Unlock()
	var out []time.Time
	for _, t := range vfClock.timers {
		if !t.done {
			out = append(out, t.due)
		}
	}
	sort.Slice(out, func(i, j int) bool { return out[i].Before(out[j]) })
	return out
}
