//go:build verif

package rendezvous

// Driver for specs/Rendezvous.tla (C17): replays TLC-generated histories (register / resolve /
// accept / tick, two peers) on real RotationIntervals, under the virtual clock of
// zz_vfclock_verif.go (package sources rewritten by checks/rendezvous.py) or in real time on
// the unmodified sources, and records what every call returned.

import (
	"encoding/hex"
	"fmt"
	"sort"
	"sync"
	"testing"
	"time"
)

type vfTriple struct {
	Topic, Seed string
	Per         int64 // absolute period number
}

type vfUniverse struct {
	isec    int64 // rotation interval in seconds
	byVal   map[string]vfTriple
	byTri   map[vfTriple]string
	baseper int64
}

func vfSeedBytes(s string) []byte { return []byte("seed-" + s + "-0123456789abcdef0123456789") }
func vfTopicName(t string) string { return "/orbitdb/verif/" + t }

func (u *vfUniverse) add(topic, seed string, per int64) (string, bool) {
	tr := vfTriple{topic, seed, per}
	if v, ok := u.byTri[tr]; ok {
		return v, false
	}
	at := time.Unix(per*u.isec, 0)
	val := hex.EncodeToString(GenerateRendezvousPointForPeriod([]byte(vfTopicName(topic)), vfSeedBytes(seed), at))
	u.byTri[tr] = val
	if _, dup := u.byVal[val]; !dup {
		u.byVal[val] = tr
	}
	return val, true
}

func (u *vfUniverse) decode(val string) map[string]any {
	if tr, ok := u.byVal[val]; ok {
		return map[string]any{"topic": tr.Topic, "seed": tr.Seed, "per": int(tr.Per - u.baseper)}
	}
	return map[string]any{"topic": "?", "seed": "?", "per": -2}
}

type vfRdvCfg struct {
	I, U          int64 // ticks per period, seconds per tick
	offS, offNs   int64
	base          int64 // unix seconds of tick 0 (multiple of the interval)
	periods       []int // relative periods of the universe
	topics, seeds []string
	realtime      bool
	static        bool
	locIdx        int
}

func vfRdvParseCfg(sc vfScript) vfRdvCfg {
	c := vfRdvCfg{}
	g := func(k string) int64 { v, _ := vfNum(sc.Cfg, k); return int64(v) }
	c.I, c.U, c.offS, c.offNs, c.base = g("I"), g("u"), g("off_s"), g("off_ns"), g("base")
	c.periods = vfAnyIntsR(sc.Cfg["periods"])
	for _, t := range sc.Cfg["topics"].([]any) {
		c.topics = append(c.topics, t.(string))
	}
	for _, s := range sc.Cfg["seeds"].([]any) {
		c.seeds = append(c.seeds, s.(string))
	}
	c.realtime, _ = vfBool(sc.Cfg, "realtime")
	c.locIdx = int(g("loc"))
	if c.I <= 0 || c.U <= 0 {
		vfInfra("bad rendezvous cfg %v", sc.Cfg)
	}
	return c
}

func vfAnyIntsR(v any) []int {
	l, _ := v.([]any)
	out := []int{}
	for _, x := range l {
		f, _ := x.(float64)
		out = append(out, int(f))
	}
	return out
}

var vfLocs = []*time.Location{time.UTC, time.FixedZone("p0530", 5*3600+1800), time.FixedZone("m0800", -8*3600), time.FixedZone("p1245", 12*3600+2700)}

func (c vfRdvCfg) key() string {
	return fmt.Sprintf("%d/%d/%d/%d/%d/%v/%v", c.I, c.U, c.offS, c.offNs, c.base, c.periods, c.realtime)
}

// universe block: configuration + the digest of every (topic, seed, period) of the group,
// computed with the package's pure functions at two instants of the period
func vfRdvUniverse(c vfRdvCfg, id int) (*vfUniverse, []map[string]any) {
	isec := c.I * c.U
	u := &vfUniverse{isec: isec, byVal: map[string]vfTriple{}, byTri: map[vfTriple]string{}, baseper: c.base / isec}
	out := []map[string]any{{"ev": "reset", "id": id},
		{"ev": "cfg", "isec": int(isec), "gmin": int(RotationGracePeriod / time.Second), "base": int(c.base), "u": int(c.U), "I": int(c.I)}}
	rnd := vfRand(int64(id) + 77)
	topics := append(append([]string{}, c.topics...), "tx")
	for _, rp := range c.periods {
		per := u.baseper + int64(rp)
		for _, t := range topics {
			for _, s := range c.seeds {
				// an arbitrary instant of the period, in an arbitrary location
				in := time.Unix(per*isec+rnd.Int63n(isec), rnd.Int63n(1e9)).In(vfLocs[rnd.Intn(len(vfLocs))])
				rounded := RoundTimePeriod(in, time.Duration(isec)*time.Second)
				next := NextTimePeriod(in, time.Duration(isec)*time.Second)
				val, _ := u.add(t, s, per)
				val2 := hex.EncodeToString(GenerateRendezvousPointForPeriod([]byte(vfTopicName(t)), vfSeedBytes(s), rounded))
				_, off1 := in.Zone()
				_, off2 := rounded.Zone()
				out = append(out, map[string]any{"ev": "digest", "topic": t, "seed": s, "t": int(in.Unix()),
					"rounded": int(rounded.Unix()), "next": int(next.Unix()), "rns": rounded.Nanosecond() + next.Nanosecond(),
					"samezone": off1 == off2, "val": val, "val2": val2})
			}
		}
	}
	return u, out
}

type vfRdvPeer struct {
	ri *RotationInterval
}

// vfRdvRun executes one script; clock = virtual (set/advance) or real (sleep)
func vfRdvRun(sc vfScript, c vfRdvCfg, u *vfUniverse) []map[string]any {
	isec := c.I * c.U
	interval := time.Duration(isec) * time.Second
	peers := map[string]*vfRdvPeer{}
	peer := func(p string) *vfRdvPeer {
		if peers[p] == nil {
			peers[p] = &vfRdvPeer{ri: NewRotationInterval(interval)}
		}
		return peers[p]
	}
	base := c.base
	instant := func(tk int64) time.Time {
		return time.Unix(base+tk*c.U+c.offS, c.offNs)
	}
	tk := int64(0)
	late := false
	var now func() time.Time
	if c.realtime {
		// start at the next multiple of the interval that is at least 400 ms away
		w := time.Now().Add(400 * time.Millisecond)
		base = (w.Unix()/isec + 1) * isec
		time.Sleep(time.Until(instant(0)))
		now = time.Now
	} else {
		VfClockEnable(instant(0))
		now = vfClockNow
	}
	baseper := base / isec
	uu := u
	if c.realtime {
		uu = &vfUniverse{isec: isec, byVal: map[string]vfTriple{}, byTri: map[vfTriple]string{}, baseper: baseper}
		for _, rp := range c.periods {
			for _, t := range append(append([]string{}, c.topics...), "tx") {
				for _, s := range c.seeds {
					uu.add(t, s, baseper+int64(rp))
				}
			}
		}
	}
	out := []map[string]any{{"ev": "reset", "id": sc.ID}}
	proj := func() map[string]any {
		if c.realtime {
			return nil
		}
		st := map[string]any{}
		var names []string
		for n := range peers {
			names = append(names, n)
		}
		sort.Strings(names)
		for _, n := range names {
			ct, cr := vfRdvProject(peers[n].ri)
			cts := []map[string]any{}
			for _, t := range c.topics {
				if v, ok := ct[vfTopicName(t)]; ok {
					cts = append(cts, map[string]any{"t": t, "pt": uu.decode(v)})
				}
			}
			crs := []map[string]any{}
			sort.Strings(cr)
			for _, v := range cr {
				crs = append(crs, uu.decode(v))
			}
			st[n] = map[string]any{"ct": cts, "cr": crs}
		}
		tms := []int{}
		for _, d := range VfClockPending() {
			x := d.Unix() - base
			if x%c.U != 0 || d.Nanosecond() != 0 {
				tms = append(tms, -1) // not on a tick boundary: the model cannot express it
			} else {
				tms = append(tms, int(x/c.U))
			}
		}
		st["tm"] = tms
		return st
	}
	for i, st := range sc.Steps {
		ev := map[string]any{"ev": st.Act, "i": i, "tk": int(tk)}
		if c.realtime && st.Act != "tick" {
			// every action at least 300 ms away from a second boundary
			if ns := time.Now().Nanosecond(); ns < 300e6 || ns > 900e6 || time.Now().Unix() != instant(tk).Unix() {
				late = true
			}
		}
		switch st.Act {
		case "tick":
			tk += int64(st.X)
			if c.realtime {
				time.Sleep(time.Until(instant(tk)))
			} else {
				ev["fired"] = VfClockSet(instant(tk))
			}
			ev["tk"] = int(tk)
			ev["dt"] = st.X
			ev["now"] = int(now().Unix())
		case "register":
			seed, _ := st.A["seed"].(string)
			at := now()
			peer(st.D).ri.RegisterRotation(at.In(vfLocs[(sc.ID+i)%len(vfLocs)]), vfTopicName(st.S), vfSeedBytes(seed))
			ev["p"], ev["topic"], ev["seed"], ev["now"] = st.D, st.S, seed, int(at.Unix())
		case "resolve":
			at := now()
			pt, err := peer(st.D).ri.PointForTopic(vfTopicName(st.S))
			ev["p"], ev["topic"], ev["now"], ev["ok"] = st.D, st.S, int(at.Unix()), err == nil
			ev["val"], ev["dl"], ev["rtopic"], ev["pt"] = "", 0, "", uu.decode("")
			if err == nil {
				val := hex.EncodeToString(pt.RawRotationTopic())
				ev["val"], ev["dl"], ev["pt"] = val, int(pt.Deadline().Unix()), uu.decode(val)
				ev["rtopic"] = vfRdvTopicBack(c, pt.Topic())
				ev["ttlpos"] = pt.Deadline().After(at)
			}
		case "accept":
			topic, _ := st.A["topic"].(string)
			seed, _ := st.A["seed"].(string)
			rp, _ := vfNum(st.A, "per")
			tr := vfTriple{topic, seed, baseper + int64(rp)}
			val, ok := uu.byTri[tr]
			if !ok {
				vfInfra("script %d sends a value outside the universe: %v", sc.ID, tr)
			}
			raw, _ := hex.DecodeString(val)
			at := now()
			pt, err := peer(st.D).ri.PointForRawRotation(raw)
			ev["p"], ev["val"], ev["now"], ev["ok"] = st.D, val, int(at.Unix()), err == nil
			ev["v"] = uu.decode(val)
			ev["rval"], ev["rdl"], ev["rtopic"], ev["pt"] = "", 0, "", uu.decode("")
			if err == nil {
				rval := hex.EncodeToString(pt.RawRotationTopic())
				ev["rval"], ev["rdl"], ev["pt"] = rval, int(pt.Deadline().Unix()), uu.decode(rval)
				ev["rtopic"] = vfRdvTopicBack(c, pt.Topic())
			}
		default:
			vfInfra("unknown action %q", st.Act)
		}
		if !c.realtime {
			// the runtime runs a timer as soon as it is due
			if n := VfClockRunDue(); n > 0 {
				ev["fired"] = n
			}
			ev["st"] = proj()
		}
		out = append(out, ev)
	}
	if c.realtime {
		out = append(out, map[string]any{"ev": "rt", "late": late, "base": int(base)})
	} else {
		VfClockDisable()
	}
	return out
}

func vfRdvTopicBack(c vfRdvCfg, name string) string {
	for _, t := range append(append([]string{}, c.topics...), "tx") {
		if vfTopicName(t) == name {
			return t
		}
	}
	return "?" + name
}

func TestVerifRendezvousReplay(t *testing.T) {
	scripts := vfLoadScripts(t)
	tr := vfOpenTrace(t)
	defer tr.Close()
	var u *vfUniverse
	key := ""
	groups := 0
	for _, sc := range scripts {
		c := vfRdvParseCfg(sc)
		if c.realtime {
			vfInfra("realtime script in the virtual-clock driver")
		}
		if c.key() != key {
			key = c.key()
			groups++
			var blk []map[string]any
			gid, _ := vfNum(sc.Cfg, "gid")
			u, blk = vfRdvUniverse(c, -1-gid)
			tr.EmitBlock(blk)
		}
		tr.EmitBlock(vfRdvRun(sc, c, u))
	}
	if n := vfEnvInt("VERIF_PURE_N", 0); n > 0 {
		tr.EmitBlock(vfRdvPure(n))
	}
	t.Logf("VERIF-DONE rendezvous scripts=%d groups=%d", len(scripts), groups)
}

// real time, unmodified sources: all scripts side by side
func TestVerifRendezvousRealtime(t *testing.T) {
	scripts := vfLoadScripts(t)
	tr := vfOpenTrace(t)
	defer tr.Close()
	var wg sync.WaitGroup
	for _, sc := range scripts {
		sc := sc
		c := vfRdvParseCfg(sc)
		if !c.realtime {
			vfInfra("virtual script in the realtime driver")
		}
		wg.Add(1)
		go func() {
			defer wg.Done()
			tr.EmitBlock(vfRdvRun(sc, c, nil))
		}()
	}
	wg.Wait()
	t.Logf("VERIF-DONE rendezvous realtime scripts=%d", len(scripts))
}

// pure functions on seeded random topics / seeds / instants / intervals, around period boundaries
func TestVerifRendezvousPure(t *testing.T) {
	tr := vfOpenTrace(t)
	defer tr.Close()
	n := vfEnvInt("VERIF_PURE_N", 2000)
	tr.EmitBlock(vfRdvPure(n))
	t.Logf("VERIF-DONE rendezvous pure n=%d", n)
}

const vfPureBlockID = -1000000

func vfRdvPure(n int) []map[string]any {
	rnd := vfRand(4242)
	out := []map[string]any{{"ev": "reset", "id": vfPureBlockID}}
	rb := func(k int) []byte { b := make([]byte, k); rnd.Read(b); return b }
	for i := 0; i < n; i++ {
		isec := []int64{1, 2, 3, 7, 60, 3600, 86400, 604800, 1 + rnd.Int63n(3000000)}[rnd.Intn(9)]
		iv := time.Duration(isec) * time.Second
		if rnd.Intn(5) == 0 {
			iv = -iv // the functions take the absolute value
		}
		// first instant: near a period boundary, second: same period / neighbour period / anywhere
		per := rnd.Int63n((1<<31 - 1 - 4*isec) / isec)
		t1 := per*isec + []int64{0, 0, isec - 1, isec / 2, rnd.Int63n(isec)}[rnd.Intn(5)]
		var t2 int64
		switch rnd.Intn(4) {
		case 0:
			t2 = per*isec + rnd.Int63n(isec)
		case 1:
			t2 = (per+1)*isec + []int64{0, rnd.Int63n(isec)}[rnd.Intn(2)]
		case 2:
			t2 = per*isec - 1
			if t2 < 0 {
				t2 = 0
			}
		default:
			t2 = rnd.Int63n(1<<31 - 1 - 4*isec)
		}
		topicA, seedA := rb(1+rnd.Intn(40)), rb(rnd.Intn(40))
		topicB, seedB := topicA, seedA
		sameT, sameS := true, true
		if rnd.Intn(3) == 0 {
			topicB, sameT = rb(1+rnd.Intn(40)), false
			sameT = string(topicB) == string(topicA)
		}
		if rnd.Intn(3) == 0 {
			seedB = rb(rnd.Intn(40))
			sameS = string(seedB) == string(seedA)
		}
		// same concatenation topic||seed with the boundary moved is the same key by construction
		// of the mechanism (HMAC key = topic||seed); not generated here
		if !sameT && !sameS && string(topicA)+string(seedA) == string(topicB)+string(seedB) {
			continue
		}
		i1 := time.Unix(t1, rnd.Int63n(1e9)).In(vfLocs[rnd.Intn(len(vfLocs))])
		i2 := time.Unix(t2, rnd.Int63n(1e9)).In(vfLocs[rnd.Intn(len(vfLocs))])
		r1, r2 := RoundTimePeriod(i1, iv), RoundTimePeriod(i2, iv)
		n1 := NextTimePeriod(i1, iv)
		// capacity beyond length on the caller's slices must not leak into the result or the inputs
		ta := append(make([]byte, 0, len(topicA)+64), topicA...)
		d1 := GenerateRendezvousPointForPeriod(ta, seedA, r1)
		d1b := GenerateRendezvousPointForPeriod(ta, seedA, r1)
		d2 := GenerateRendezvousPointForPeriod(topicB, seedB, r2)
		out = append(out, map[string]any{"ev": "pure", "i": i, "isec": int(isec), "t1": int(t1), "t2": int(t2),
			"r1": int(r1.Unix()), "r2": int(r2.Unix()), "n1": int(n1.Unix()), "rns": r1.Nanosecond() + n1.Nanosecond(),
			"samet": sameT, "sames": sameS, "eq": string(d1) == string(d2), "det": string(d1) == string(d1b),
			"len": len(d1), "intact": string(ta) == string(topicA)})
	}
	return out
}
