//go:build verif

package rendezvous

import (
	"encoding/base64"
	"encoding/hex"
)

// vfRdvProject reads the two caches of a RotationInterval (projected state for the full-spec
// conformance pass): topic name -> rotation value, and the rotation values known.
func vfRdvProject(r *RotationInterval) (map[string]string, []string) {
	r.muCache.Lock()
	defer r.muCache.Unlock()
	ct := map[string]string{}
	for k, p := range r.cacheTopics {
		ct[k] = hex.EncodeToString(p.rotation)
	}
	cr := []string{}
	for k := range r.cacheRotations {
		b, err := base64.StdEncoding.DecodeString(k)
		if err != nil {
			cr = append(cr, "?"+k)
			continue
		}
		cr = append(cr, hex.EncodeToString(b))
	}
	return ct, cr
}
