//go:build verif

// Package verifsched is the cooperative scheduler of the /verif conformance
// harness.  It is injected into the module by the go build overlay together
// with instrumented copies of the files under test (never committed to the
// repository).  Instrumented code calls Point / LockOf / RLockOf / Go; a test
// driver owns a Controller and decides which registered thread runs next.
//
// Invariant: with a controller installed, at most the granted thread (plus the
// threads it has just woken, which run on their own to their next gate) is
// running; every other registered thread is parked at a gate, parked inside a
// real blocking operation of the Go runtime, or finished.
package verifsched

import (
	"bytes"
	"fmt"
	"runtime"
	"strconv"
	"sync"
	"sync/atomic"
	"time"
)

type thread struct {
	name    string
	gid     int64
	gate    chan struct{}
	label   atomic.Value // string: gate label the thread waits at ("" = not at a gate)
	granted atomic.Bool  // grant sent, not yet consumed
	done    atomic.Bool
	steps   atomic.Int64 // gates passed
	fails   atomic.Int64 // failed TryLock attempts
	free    atomic.Bool  // released: no longer controlled
}

// Controller schedules the registered threads of one scenario.
type Controller struct {
	mu      sync.Mutex
	threads map[string]*thread
	order   []string
	byGid   sync.Map // int64 -> *thread
	closed  atomic.Bool
	nspawn  atomic.Int64
	Log     []Rec // one record per granted step
}

// Rec is one scheduling step as observed on the real code.
type Rec struct {
	Thread   string `json:"t"`
	From     string `json:"from"`
	To       string `json:"to"` // label of the next gate, "done", or "blocked:<reason>"
	Progress bool   `json:"p"`
}

var cur atomic.Pointer[Controller]

// New installs a fresh controller (one per process at a time).
func New() *Controller {
	c := &Controller{threads: map[string]*thread{}}
	cur.Store(c)
	return c
}

func gid() int64 {
	var buf [64]byte
	b := buf[:runtime.Stack(buf[:], false)]
	// "goroutine 123 ["
	b = b[len("goroutine "):]
	i := bytes.IndexByte(b, ' ')
	n, _ := strconv.ParseInt(string(b[:i]), 10, 64)
	return n
}

func current() (*Controller, *thread) {
	c := cur.Load()
	if c == nil || c.closed.Load() {
		return nil, nil
	}
	if t, ok := c.byGid.Load(gid()); ok {
		th := t.(*thread)
		if th.free.Load() {
			return nil, nil
		}
		return c, th
	}
	return c, nil
}

func (t *thread) wait(label string) {
	if t.free.Load() {
		return
	}
	t.label.Store(label)
	<-t.gate
	t.granted.Store(false)
	t.steps.Add(1)
}

// Point is a scheduling point in front of a synchronisation operation.
func Point(label string) {
	_, t := current()
	if t == nil {
		return
	}
	t.wait(label)
}

type tryLocker interface{ TryLock() bool }
type tryRLocker interface{ TryRLock() bool }

func asTry(p any) (func() bool, func()) {
	switch v := p.(type) {
	case *sync.Mutex:
		return v.TryLock, v.Lock
	case *sync.RWMutex:
		return v.TryLock, v.Lock
	case **sync.Mutex:
		return (*v).TryLock, (*v).Lock
	case **sync.RWMutex:
		return (*v).TryLock, (*v).Lock
	case *sync.Locker:
		l := *v
		if tl, ok := l.(tryLocker); ok {
			return tl.TryLock, l.Lock
		}
		return nil, l.Lock
	}
	return nil, nil
}

// LockOf replaces x.Lock(): the thread never parks inside the mutex; it waits at
// a gate and tries again, so the order of acquisitions is the controller's.
func LockOf[T any](p *T, label string) {
	try, lock := asTry(any(p))
	if lock == nil {
		panic(fmt.Sprintf("VERIF-INFRA verifsched.LockOf: unsupported locker type %T at %s", p, label))
	}
	_, t := current()
	if t == nil || try == nil {
		lock()
		return
	}
	for {
		t.wait("lock:" + label)
		if t.free.Load() {
			lock()
			return
		}
		if try() {
			return
		}
		t.fails.Add(1)
	}
}

// RLockOf replaces x.RLock().
func RLockOf[T any](p *T, label string) {
	var try func() bool
	var lock func()
	switch v := any(p).(type) {
	case *sync.RWMutex:
		try, lock = v.TryRLock, v.RLock
	case **sync.RWMutex:
		try, lock = (*v).TryRLock, (*v).RLock
	default:
		panic(fmt.Sprintf("VERIF-INFRA verifsched.RLockOf: unsupported locker type %T at %s", p, label))
	}
	_, t := current()
	if t == nil {
		lock()
		return
	}
	for {
		t.wait("rlock:" + label)
		if t.free.Load() {
			lock()
			return
		}
		if try() {
			return
		}
		t.fails.Add(1)
	}
}

// Go replaces a go statement inside instrumented code: the new goroutine becomes a
// registered thread when the spawner is one (or when no thread is current but a
// controller wants it: see Controller.Spawn).
func Go(label string, f func()) {
	c, t := current()
	if c == nil || t == nil {
		go f()
		return
	}
	name := fmt.Sprintf("%s#%d", label, c.nspawn.Add(1))
	c.spawn(name, f)
}

// Spawn starts f as a registered thread parked at its "start" gate.
func (c *Controller) Spawn(name string, f func()) {
	c.spawn(name, f)
	c.Settle()
}

func (c *Controller) spawn(name string, f func()) {
	t := &thread{name: name, gate: make(chan struct{}, 1)}
	t.label.Store("")
	c.mu.Lock()
	if _, dup := c.threads[name]; dup {
		c.mu.Unlock()
		panic("VERIF-INFRA duplicate thread " + name)
	}
	c.threads[name] = t
	c.order = append(c.order, name)
	c.mu.Unlock()
	ready := make(chan struct{})
	go func() {
		t.gid = gid()
		c.byGid.Store(t.gid, t)
		close(ready)
		defer func() {
			t.label.Store("")
			t.done.Store(true)
		}()
		if !t.free.Load() && !c.closed.Load() {
			t.wait("start")
		}
		f()
	}()
	<-ready
}

// State of a thread as seen by the controller.
type State struct {
	Kind  string // gate | done | blocked | running
	Label string
}

var parkedReasons = map[string]bool{
	"select": true, "chan receive": true, "chan send": true, "sync.WaitGroup.Wait": true,
	"sync.Cond.Wait": true, "select (no cases)": true, "chan receive (nil chan)": true,
	"chan send (nil chan)": true,
}

func (c *Controller) reasons() map[int64]string {
	n := 1 << 16
	for {
		buf := make([]byte, n)
		m := runtime.Stack(buf, true)
		if m < n {
			out := map[int64]string{}
			b := buf[:m]
			for len(b) > 0 {
				i := bytes.Index(b, []byte("goroutine "))
				if i < 0 {
					break
				}
				if i > 0 && b[i-1] != '\n' {
					b = b[i+10:]
					continue
				}
				b = b[i+10:]
				sp := bytes.IndexByte(b, ' ')
				if sp < 0 {
					break
				}
				id, err := strconv.ParseInt(string(b[:sp]), 10, 64)
				if err != nil {
					continue
				}
				lb := bytes.IndexByte(b, '[')
				rb := bytes.IndexByte(b, ']')
				if lb < 0 || rb < lb {
					break
				}
				reason := string(b[lb+1 : rb])
				if k := bytes.IndexByte([]byte(reason), ','); k >= 0 {
					reason = reason[:k]
				}
				out[id] = reason
				b = b[rb:]
			}
			return out
		}
		n *= 4
	}
}

func (c *Controller) stateOf(t *thread, rs map[int64]string) State {
	if t.done.Load() {
		return State{Kind: "done"}
	}
	if t.granted.Load() {
		return State{Kind: "running"}
	}
	if l, _ := t.label.Load().(string); l != "" {
		return State{Kind: "gate", Label: l}
	}
	r, ok := rs[t.gid]
	if ok && parkedReasons[r] {
		return State{Kind: "blocked", Label: r}
	}
	return State{Kind: "running", Label: r}
}

func (c *Controller) list() []*thread {
	c.mu.Lock()
	defer c.mu.Unlock()
	out := make([]*thread, 0, len(c.order))
	for _, n := range c.order {
		out = append(out, c.threads[n])
	}
	return out
}

// Settle waits until no registered thread is running: each is at a gate, done, or
// parked inside a real blocking operation (seen twice in a row).  The goroutine dump is
// only taken when some thread is neither at a gate nor done.
func (c *Controller) Settle() map[string]State {
	deadline := time.Now().Add(20 * time.Second)
	var prevBlocked map[string]State
	spins := 0
	for {
		st := map[string]State{}
		var pending []*thread
		for _, t := range c.list() {
			if t.done.Load() {
				st[t.name] = State{Kind: "done"}
			} else if l, _ := t.label.Load().(string); l != "" && !t.granted.Load() {
				st[t.name] = State{Kind: "gate", Label: l}
			} else {
				pending = append(pending, t)
			}
		}
		if len(pending) == 0 {
			return st
		}
		spins++
		if spins < 3 {
			// give the granted thread a chance to reach its next gate before paying for a dump
			runtime.Gosched()
			continue
		}
		rs := c.reasons()
		settled := true
		blocked := map[string]State{}
		for _, t := range pending {
			s := c.stateOf(t, rs)
			st[t.name] = s
			if s.Kind == "running" {
				settled = false
			} else if s.Kind == "blocked" {
				blocked[t.name] = s
			}
		}
		if settled {
			same := prevBlocked != nil && len(prevBlocked) == len(blocked)
			if same {
				for k, v := range blocked {
					if prevBlocked[k] != v {
						same = false
					}
				}
			}
			if same {
				// final re-read of labels: a thread may have been woken in between
				ok := true
				for _, t := range pending {
					if st[t.name].Kind == "blocked" {
						if l, _ := t.label.Load().(string); l != "" || t.done.Load() {
							ok = false
						}
					}
				}
				if ok {
					return st
				}
			}
			prevBlocked = blocked
		} else {
			prevBlocked = nil
		}
		if time.Now().After(deadline) {
			panic(fmt.Sprintf("VERIF-INFRA verifsched: threads do not settle: %v", st))
		}
		runtime.Gosched()
	}
}

// Step grants one step to the named thread.  Returns false when the thread is not
// at a gate (finished or parked in a blocking operation).
func (c *Controller) Step(name string) (Rec, bool) {
	c.mu.Lock()
	t := c.threads[name]
	c.mu.Unlock()
	if t == nil {
		panic("VERIF-INFRA verifsched: unknown thread " + name)
	}
	from, _ := t.label.Load().(string)
	if t.done.Load() || from == "" {
		return Rec{Thread: name}, false
	}
	fails := t.fails.Load()
	t.label.Store("")
	t.granted.Store(true)
	t.gate <- struct{}{}
	st := c.Settle()
	s := st[name]
	to := s.Label
	switch s.Kind {
	case "done":
		to = "done"
	case "blocked":
		to = "blocked:" + s.Label
	}
	r := Rec{Thread: name, From: from, To: to, Progress: t.fails.Load() == fails}
	c.Log = append(c.Log, r)
	return r, true
}

// States returns the settled state of every thread.
func (c *Controller) States() map[string]State { return c.Settle() }

// Names lists the registered threads in creation order.
func (c *Controller) Names() []string {
	c.mu.Lock()
	defer c.mu.Unlock()
	return append([]string(nil), c.order...)
}

// RunToQuiescence keeps granting steps round-robin until no thread at a gate makes
// progress any more (all finished, parked, or failing to take a lock), or the bound
// is hit (returns false: livelock suspected).
func (c *Controller) RunToQuiescence(bound int) bool {
	for n := 0; n < bound; {
		progressed := false
		for _, name := range c.Names() {
			st := c.Settle()
			if st[name].Kind != "gate" {
				continue
			}
			r, ok := c.Step(name)
			n++
			if ok && r.Progress {
				progressed = true
			}
		}
		if !progressed {
			return true
		}
	}
	return false
}

// Close releases every thread: they continue free-running (used for clean-up after
// the verdict has been taken).
func (c *Controller) Close() {
	c.closed.Store(true)
	for _, t := range c.list() {
		t.free.Store(true)
		select {
		case t.gate <- struct{}{}:
		default:
		}
	}
	cur.CompareAndSwap(c, nil)
}
