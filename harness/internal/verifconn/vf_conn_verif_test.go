//go:build verif

package verifconn

// Driver for specs/Conn.tla (C16).  This package is created by the build overlay: it
// contains an instrumented copy of /repo/connectedness_manager.go (package clause
// renamed) so that the tracker can be driven without linking the whole root package.
// internal/notify/notify.go is replaced in place by its instrumented copy.

import (
	"context"
	"sort"
	"testing"

	peer "github.com/libp2p/go-libp2p/core/peer"

	"berty.tech/weshnet/v2/internal/verifsched"
)

func vfConnRun(sc vfScript) []map[string]any {
	c := verifsched.New()
	m := NewConnectednessManager()
	ctx, cancel := context.WithCancel(context.Background())
	defer cancel()
	ops, _ := sc.Cfg["ops"].([]any)
	waitersAny, _ := sc.Cfg["waiters"].([]any)
	calls, _ := vfNum(sc.Cfg, "calls")
	cancelWho, _ := sc.Cfg["cancel"].(string)
	withCancel := cancelWho != "" && cancelWho != "none"
	peersAny, _ := sc.Cfg["peers"].([]any)
	var peers []string
	for _, p := range peersAny {
		peers = append(peers, p.(string))
	}
	type ret struct {
		w   string
		upd []string
		ok  bool
	}
	var rets []ret
	curs := map[string]PeersConnectedness{}
	c.Spawn("upd", func() {
		for _, o := range ops {
			op := o.(map[string]any)
			p := peer.ID(op["p"].(string))
			switch op["op"].(string) {
			case "assoc":
				m.AssociatePeer("g", p)
			case "up":
				m.UpdateState(p, ConnectednessType(int(op["v"].(float64))))
			}
		}
	})
	var cancels []context.CancelFunc
	ctargets := []string{}
	var wnames []string
	for _, w := range waitersAny {
		wnames = append(wnames, w.(string))
	}
	sort.Strings(wnames)
	for _, w := range wnames {
		w := w
		cur := PeersConnectedness{}
		curs[w] = cur
		wctx, wcancel := context.WithCancel(ctx)
		defer wcancel()
		if cancelWho == "all" || cancelWho == w {
			cancels = append(cancels, wcancel)
			ctargets = append(ctargets, w)
		}
		c.Spawn(w, func() {
			for i := 0; i < calls; i++ {
				upd, ok := m.WaitForConnectednessChange(wctx, "g", cur)
				names := []string{}
				for _, p := range upd {
					names = append(names, string(p))
				}
				sort.Strings(names)
				rets = append(rets, ret{w, names, ok})
				if !ok {
					return
				}
			}
		})
	}
	if withCancel {
		c.Spawn("cancel", func() {
			verifsched.Point("c_cancel")
			for _, f := range cancels {
				f()
			}
		})
	}
	scen, _ := vfNum(sc.Cfg, "scen")
	out := []map[string]any{{"ev": "reset", "id": sc.ID}, {"ev": "cfg", "scen": scen}}
	nret := 0
	snapshot := func(ev map[string]any) {
		st := map[string]any{}
		for _, p := range peers {
			v := 0
			if ps, ok := m.peerState[peer.ID(p)]; ok {
				v = int(ps.status)
			}
			st[p] = v
		}
		assoc := []string{}
		if g, ok := m.groupState["g"]; ok {
			for p := range g.peers {
				assoc = append(assoc, string(p))
			}
		}
		sort.Strings(assoc)
		cm := map[string]any{}
		for w, cur := range curs {
			one := map[string]any{}
			for _, p := range peers {
				if v, ok := cur[peer.ID(p)]; ok {
					one[p] = int(v)
				} else {
					one[p] = 9
				}
			}
			cm[w] = one
		}
		ev["status"], ev["assoc"], ev["cur"] = st, assoc, cm
		rl := []map[string]any{}
		for _, r := range rets[nret:] {
			rl = append(rl, map[string]any{"w": r.w, "upd": r.upd, "ok": r.ok})
		}
		nret = len(rets)
		ev["ret"] = rl
	}
	emit := func(r verifsched.Rec, ok bool) {
		ev := map[string]any{"ev": "step", "t": r.Thread, "from": r.From, "to": r.To, "p": r.Progress, "ok": ok, "ctargets": ctargets}
		snapshot(ev)
		out = append(out, ev)
	}
	for _, st := range sc.Steps {
		r, ok := c.Step(st.D)
		emit(r, ok)
	}
	extra := 0
	for extra < 600 {
		progressed := false
		for _, n := range c.Names() {
			if c.States()[n].Kind != "gate" {
				continue
			}
			r, ok := c.Step(n)
			extra++
			if ok && r.Progress {
				progressed = true
				emit(r, ok)
			}
		}
		if !progressed {
			break
		}
	}
	st := c.States()
	fin := map[string]any{"ev": "final", "extra": extra, "livelock": extra >= 600}
	snapshot(fin)
	th := map[string]any{}
	atgate, parked := []string{}, []string{}
	for n, s := range st {
		th[n] = s.Kind + ":" + s.Label
		if s.Kind == "gate" {
			atgate = append(atgate, n)
		}
		if s.Kind == "blocked" {
			parked = append(parked, n)
		}
	}
	sort.Strings(atgate)
	sort.Strings(parked)
	fin["threads"], fin["atgate"], fin["parked"] = th, atgate, parked
	out = append(out, fin)
	c.Close()
	cancel()
	return out
}

func TestVerifConnSched(t *testing.T) {
	scripts := vfLoadScripts(t)
	tr := vfOpenTrace(t)
	defer tr.Close()
	for _, sc := range scripts {
		tr.EmitBlock(vfConnRun(sc))
	}
	t.Logf("VERIF-DONE scripts=%d events=%d", len(scripts), tr.n)
}
