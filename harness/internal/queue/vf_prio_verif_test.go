//go:build verif

package queue

// Driver for specs/PrioQueue.tla (C15, priority queue clause): sequential operation
// sequences from TLC plus seeded random long sequences on the real PriorityQueue.

import (
	"errors"
	"fmt"
	"testing"
)

func vfPrioRun(sc vfScript) []map[string]any {
	pq := NewPriorityQueue[*vfItem]("vfp", &noopTracer[*vfItem]{})
	out := []map[string]any{{"ev": "reset", "id": sc.ID}}
	for _, st := range sc.Steps {
		ev := map[string]any{"ev": st.Act}
		switch st.Act {
		case "add":
			pq.Add(&vfItem{name: st.S, ctr: uint64(st.X)})
			ev["s"], ev["x"] = st.S, st.X
		case "next":
			it := pq.Next()
			ev["ok"] = it != nil
			if it != nil {
				ev["item"], ev["ctr"] = it.name, int(it.ctr)
			}
		case "nextall":
			seen := []map[string]any{}
			n := 0
			err := pq.NextAll(func(it *vfItem) error {
				n++
				seen = append(seen, map[string]any{"item": it.name, "ctr": int(it.ctr)})
				if st.X != 0 && n == st.X {
					return errors.New("callback failure")
				}
				return nil
			})
			ev["ok"] = err == nil
			ev["seen"] = seen
		case "size":
			ev["n"] = pq.Size()
		default:
			vfInfra("unknown prio action %q", st.Act)
		}
		out = append(out, ev)
	}
	return out
}

func TestVerifPrioQueue(t *testing.T) {
	scripts := vfLoadScripts(t)
	tr := vfOpenTrace(t)
	defer tr.Close()
	for _, sc := range scripts {
		tr.EmitBlock(vfPrioRun(sc))
	}
	// seeded random long sequences (same trace format; ids continue)
	r := vfRand(77)
	nrand := vfEnvInt("VERIF_PRIO_RANDOM", 50)
	for k := 0; k < nrand; k++ {
		sc := vfScript{ID: 1000000 + k}
		for i := 0; i < 200; i++ {
			switch x := r.Intn(10); {
			case x < 6:
				sc.Steps = append(sc.Steps, vfStep{Act: "add", S: fmt.Sprintf("r%d_%d", k, i), X: r.Intn(12)})
			case x < 8:
				sc.Steps = append(sc.Steps, vfStep{Act: "next"})
			case x < 9:
				sc.Steps = append(sc.Steps, vfStep{Act: "size"})
			default:
				sc.Steps = append(sc.Steps, vfStep{Act: "nextall", X: r.Intn(4)})
			}
		}
		tr.EmitBlock(vfPrioRun(sc))
	}
	t.Logf("VERIF-DONE scripts=%d events=%d", len(scripts)+nrand, tr.n)
}
