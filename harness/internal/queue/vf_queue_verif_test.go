//go:build verif

package queue

// Driver for specs/Queue.tla (C15): replays TLC-generated schedules on the real
// SimpleQueue (instrumented copy of simple.go, see tools/instrument) under the
// cooperative scheduler, and records every step with the real queue content.

import (
	"context"
	"fmt"
	"sort"
	"testing"

	"berty.tech/weshnet/v2/internal/verifsched"
)

type vfItem struct {
	name string
	ctr  uint64
}

func (i *vfItem) Counter() uint64 { return i.ctr }

func vfSnapshot(q *SimpleQueue[*vfItem]) []string {
	out := []string{}
	for e := q.list.Front(); e != nil; e = e.Next() {
		out = append(out, e.Value.(*vfItem).name)
	}
	return out
}

func vfQueueRun(sc vfScript) []map[string]any {
	c := verifsched.New()
	q := NewSimpleQueue[*vfItem]("vf", &noopTracer[*vfItem]{})
	ctx, cancel := context.WithCancel(context.Background())
	defer cancel()
	prods, _ := sc.Cfg["producers"].(map[string]any)
	wanted, _ := vfNum(sc.Cfg, "wanted")
	withCancel, _ := vfBool(sc.Cfg, "cancel")
	var names []string
	for p := range prods {
		names = append(names, p)
	}
	sort.Strings(names)
	got := []string{}
	added := []string{}
	rets := []map[string]any{}
	for _, p := range names {
		items := prods[p].([]any)
		c.Spawn(p, func() {
			for _, it := range items {
				q.Add(&vfItem{name: it.(string)})
				added = append(added, it.(string))
			}
		})
	}
	c.Spawn("cons", func() {
		for i := 0; i < wanted; i++ {
			it, ok := q.WaitForItem(ctx)
			r := map[string]any{"ok": ok}
			if it != nil {
				r["item"] = it.name
				got = append(got, it.name)
			}
			rets = append(rets, r)
			if !ok {
				return
			}
		}
	})
	if withCancel {
		c.Spawn("cancel", func() {
			verifsched.Point("c_cancel")
			cancel()
		})
	}
	scen, _ := vfNum(sc.Cfg, "scen")
	out := []map[string]any{{"ev": "reset", "id": sc.ID}, {"ev": "cfg", "scen": scen}}
	nret := 0
	emit := func(kind string, r verifsched.Rec, ok bool) {
		ev := map[string]any{"ev": kind, "t": r.Thread, "from": r.From, "to": r.To, "p": r.Progress, "ok": ok,
			"list": vfSnapshot(q), "got": append([]string{}, got...), "sig": len(q.signal)}
		if len(rets) > nret {
			ev["ret"] = rets[nret:]
			nret = len(rets)
		}
		out = append(out, ev)
	}
	for _, st := range sc.Steps {
		r, ok := c.Step(st.D)
		emit("step", r, ok)
	}
	// safety net: continue to quiescence (the generated schedules are complete behaviours)
	extra := 0
	for extra < 400 {
		progressed := false
		for _, n := range c.Names() {
			if c.States()[n].Kind != "gate" {
				continue
			}
			r, ok := c.Step(n)
			extra++
			if ok && r.Progress {
				progressed = true
				emit("step", r, ok)
			}
		}
		if !progressed {
			break
		}
	}
	st := c.States()
	fin := map[string]any{"ev": "final", "list": vfSnapshot(q), "got": append([]string{}, got...), "added": added, "extra": extra, "livelock": extra >= 400}
	th := map[string]any{}
	for n, s := range st {
		th[n] = s.Kind + ":" + s.Label
	}
	fin["threads"] = th
	fin["cons"] = st["cons"].Kind
	fin["consat"] = st["cons"].Label
	out = append(out, fin)
	c.Close()
	cancel()
	return out
}

func TestVerifQueueSched(t *testing.T) {
	scripts := vfLoadScripts(t)
	tr := vfOpenTrace(t)
	defer tr.Close()
	for _, sc := range scripts {
		tr.EmitBlock(vfQueueRun(sc))
	}
	t.Logf("VERIF-DONE scripts=%d events=%d", len(scripts), tr.n)
}

var _ = fmt.Sprintf
