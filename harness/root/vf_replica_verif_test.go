//go:build verif

package weshnet

// Replica world for the log-based drivers (C04, C07, C13, C20, C05c): several devices
// (WeshOrbitDB + secret store each) over ONE in-memory IPFS node, stores opened LocalOnly,
// entries moved between replicas exclusively by BaseStore.Sync(heads) on request of the
// driver, reopen = close the orbit-db instance and open a new one on the same datastore.

import (
	"context"
	"fmt"
	"sort"
	"testing"
	"time"

	"github.com/ipfs/go-cid"
	"github.com/ipfs/go-datastore"
	dssync "github.com/ipfs/go-datastore/sync"
	"github.com/libp2p/go-libp2p/p2p/host/eventbus"
	mocknet "github.com/libp2p/go-libp2p/p2p/net/mock"
	"go.uber.org/zap"

	ipfslog "berty.tech/go-ipfs-log"
	orbitdb "berty.tech/go-orbit-db"
	"berty.tech/go-orbit-db/iface"
	"berty.tech/go-orbit-db/stores"
	"berty.tech/weshnet/v2/pkg/ipfsutil"
	"berty.tech/weshnet/v2/pkg/protocoltypes"
	"berty.tech/weshnet/v2/pkg/secretstore"
	"berty.tech/weshnet/v2/pkg/tinder"
)

type vfReplica struct {
	name string
	w    *vfRWorld
	ds   datastore.Batching
	ss   secretstore.SecretStore
	db   *WeshOrbitDB
	gcs  map[string]*GroupContext // by group id
}

type vfRWorld struct {
	t    testing.TB
	ctx  context.Context
	node ipfsutil.CoreAPIMock
	reps map[string]*vfReplica
}

func vfNewRWorld(t testing.TB) *vfRWorld {
	ctx := context.Background()
	mn := mocknet.New()
	t.Cleanup(func() { mn.Close() })
	node := ipfsutil.TestingCoreAPIUsingMockNet(ctx, t, &ipfsutil.TestingAPIOpts{Logger: zap.NewNop(), Mocknet: mn, DiscoveryServer: tinder.NewMockDriverServer()})
	return &vfRWorld{t: t, ctx: ctx, node: node, reps: map[string]*vfReplica{}}
}

// AddDevice creates a device; sameAccountAs != "" shares that replica's account keys.
func (w *vfRWorld) AddDevice(name, sameAccountAs string) *vfReplica {
	ds := dssync.MutexWrap(datastore.NewMapDatastore())
	r := &vfReplica{name: name, w: w, ds: ds, gcs: map[string]*GroupContext{}}
	var err error
	r.ss, err = secretstore.NewSecretStore(ds, nil)
	if err != nil {
		vfInfra("secret store: %v", err)
	}
	if sameAccountAs != "" {
		a, p, err := w.reps[sameAccountAs].ss.ExportAccountKeysForBackup()
		if err != nil {
			vfInfra("export keys: %v", err)
		}
		if err := r.ss.ImportAccountKeys(a, p); err != nil {
			vfInfra("import keys: %v", err)
		}
	}
	r.open()
	w.reps[name] = r
	return r
}

func (r *vfReplica) open() {
	db, err := NewWeshOrbitDB(r.w.ctx, r.w.node.API(), &NewOrbitDBOptions{
		NewOrbitDBOptions: orbitdb.NewOrbitDBOptions{Logger: zap.NewNop()},
		Datastore:         r.ds,
		SecretStore:       r.ss,
	})
	if err != nil {
		vfInfra("orbitdb: %v", err)
	}
	r.db = db
	r.gcs = map[string]*GroupContext{}
}

func (r *vfReplica) OpenGroup(g *protocoltypes.Group) *GroupContext {
	t := true
	gc, err := r.db.OpenGroup(r.w.ctx, g, &orbitdb.CreateDBOptions{LocalOnly: &t})
	if err != nil {
		vfInfra("open group on %s: %v", r.name, err)
	}
	r.gcs[g.GroupIDAsString()] = gc
	return gc
}

func (r *vfReplica) AccountGroup() *protocoltypes.Group {
	g, _, err := r.ss.GetGroupForAccount()
	if err != nil {
		vfInfra("account group: %v", err)
	}
	return g
}

// Reopen closes the orbit-db instance and opens a fresh one on the same datastore and IPFS node.
func (r *vfReplica) Reopen(groups ...*protocoltypes.Group) {
	for _, gc := range r.gcs {
		gc.Close()
	}
	if err := r.db.Close(); err != nil {
		vfInfra("close db: %v", err)
	}
	r.open()
	for _, g := range groups {
		r.OpenGroup(g)
	}
}

func vfHeads(s iface.Store) []ipfslog.Entry {
	return s.OpLog().Heads().Slice()
}

func vfEntryIDs(s iface.Store) []string {
	out := []string{}
	for _, e := range s.OpLog().GetEntries().Slice() {
		out = append(out, e.GetHash().String())
	}
	return out
}

func vfValueIDs(s iface.Store) []string {
	out := []string{}
	for _, e := range s.OpLog().Values().Slice() {
		out = append(out, e.GetHash().String())
	}
	return out
}

// vfSyncTo makes `to` join the causal past of the given heads and waits for the store's own
// EventReplicated (emitted after the log was joined AND the index updated) until it has them all.
func vfSyncTo(ctx context.Context, to iface.Store, heads []ipfslog.Entry, want map[string]bool) {
	sub, err := to.EventBus().Subscribe(new(stores.EventReplicated), eventbus.BufSize(64))
	if err != nil {
		vfInfra("subscribe: %v", err)
	}
	defer sub.Close()
	hasAll := func() bool {
		have := map[string]bool{}
		for _, id := range vfEntryIDs(to) {
			have[id] = true
		}
		for id := range want {
			if !have[id] {
				return false
			}
		}
		return true
	}
	if hasAll() {
		return
	}
	if err := to.Sync(ctx, heads); err != nil {
		vfInfra("sync: %v", err)
	}
	// on a loaded machine a replication round can be dropped (a fetch that timed out): ask again every 10 s,
	// give up (infrastructure, never a verdict) after 120 s
	deadline := time.After(120 * time.Second)
	again := time.NewTicker(10 * time.Second)
	defer again.Stop()
	for {
		select {
		case <-sub.Out():
			if hasAll() {
				return
			}
		case <-again.C:
			if hasAll() {
				return
			}
			if err := to.Sync(ctx, heads); err != nil {
				vfInfra("sync (repeated): %v", err)
			}
		case <-deadline:
			vfInfra("sync did not complete within 120s")
		}
	}
}

// past returns the ids of the causal past (inclusive) of the entry with the given id in store s
func vfPast(s iface.Store, ids ...cid.Cid) map[string]bool {
	out := map[string]bool{}
	var rec func(c cid.Cid)
	rec = func(c cid.Cid) {
		if out[c.String()] {
			return
		}
		e, ok := s.OpLog().Get(c)
		if !ok {
			return
		}
		out[c.String()] = true
		for _, n := range e.GetNext() {
			rec(n)
		}
	}
	for _, c := range ids {
		rec(c)
	}
	return out
}

func vfSorted(m map[string]bool) []string {
	out := []string{}
	for k := range m {
		out = append(out, k)
	}
	sort.Strings(out)
	return out
}

var _ = fmt.Sprintf
