//go:build verif

package weshnet

// Driver for specs/ContactManager.tla (the contact-request manager, beyond the twenty listed
// properties).  It instantiates the REAL contactRequestsManager of an account over
//   - a real account-group MetadataStore (orbit-db over a mocked IPFS node on a mocknet),
//   - a real Swiper over a real tinder.Service whose only driver is the repository's mock
//     discovery server (pkg/tinder/driver_mock.go),
//   - the real handshake over real mocknet streams with light peers (a libp2p host, an account
//     key, a stream handler that plays the responder; a requester for incoming requests).
// Three wrappers make the manager's effects observable and its inputs schedulable, none of them
// changes what the code under test does:
//   - the event bus given to the account group hands the WATCHER's subscription (recognised by its
//     caller) a channel the driver feeds: events are held until the script delivers them, the
//     subscription call itself can be held (start-up races), an unbuffered hand-over + a no-op
//     marker event tell when a handler has finished;
//   - the tinder driver logs Advertise / Subscribe calls with their contexts: "announced" and
//     "watched" are the topics whose context is still alive;
//   - the ExtendedCoreAPI logs SetStreamHandler / RemoveStreamHandler / NewStream.
// Quiescence is read from the goroutine dump (nothing of the process is running / runnable, twice
// in a row, no counter moved, every emitted log entry reached the subscription), never from sleeps.
// After each step one line: what was appended, which contacts were handed the account's contact,
// and the projected state (manager fields, live announces / watches, log).

import (
	"context"
	crand "crypto/rand"
	"encoding/base64"
	"encoding/hex"
	"fmt"
	"runtime"
	"sort"
	"strings"
	"sync"
	"sync/atomic"
	"testing"
	"time"

	datastore "github.com/ipfs/go-datastore"
	dssync "github.com/ipfs/go-datastore/sync"
	"github.com/libp2p/go-libp2p/core/crypto"
	"github.com/libp2p/go-libp2p/core/discovery"
	"github.com/libp2p/go-libp2p/core/event"
	"github.com/libp2p/go-libp2p/core/host"
	"github.com/libp2p/go-libp2p/core/network"
	"github.com/libp2p/go-libp2p/core/peer"
	"github.com/libp2p/go-libp2p/core/protocol"
	"github.com/libp2p/go-libp2p/p2p/host/eventbus"
	mocknet "github.com/libp2p/go-libp2p/p2p/net/mock"
	"go.uber.org/zap"
	"google.golang.org/protobuf/proto"

	orbitdb "berty.tech/go-orbit-db"
	"berty.tech/weshnet/v2/internal/handshake"
	"berty.tech/weshnet/v2/pkg/ipfsutil"
	"berty.tech/weshnet/v2/pkg/protocoltypes"
	"berty.tech/weshnet/v2/pkg/protoio"
	"berty.tech/weshnet/v2/pkg/rendezvous"
	"berty.tech/weshnet/v2/pkg/secretstore"
	"berty.tech/weshnet/v2/pkg/tinder"
)

const vfmDeadline = 30 * time.Second

// ------------------------------------------------------------------ process-wide world

type vfmProc struct {
	t     testing.TB
	ctx   context.Context
	mn    mocknet.Mocknet
	node  ipfsutil.CoreAPIMock
	hosts []host.Host // pool for the contacts' peers: index 2*contact + (0 good | 1 bad)
}

func vfmNewProc(t testing.TB, ncontacts int) *vfmProc {
	ctx := context.Background()
	mn := mocknet.New()
	t.Cleanup(func() { mn.Close() })
	node := ipfsutil.TestingCoreAPIUsingMockNet(ctx, t, &ipfsutil.TestingAPIOpts{Logger: zap.NewNop(), Mocknet: mn, DiscoveryServer: tinder.NewMockDriverServer()})
	p := &vfmProc{t: t, ctx: ctx, mn: mn, node: node}
	for i := 0; i < 2*ncontacts; i++ {
		h, err := mn.GenPeer()
		if err != nil {
			vfInfra("mocknet peer: %v", err)
		}
		p.hosts = append(p.hosts, h)
	}
	if err := mn.LinkAll(); err != nil {
		vfInfra("mocknet link: %v", err)
	}
	return p
}

// ------------------------------------------------------------------ per-script world

type vfmContact struct {
	name string
	sk   crypto.PrivKey
	pk   crypto.PubKey
	raw  []byte
	seed []byte
}

type vfmPeer struct {
	c    *vfmContact
	kind string
	h    host.Host
	sk   crypto.PrivKey // the account key this peer can prove
}

type vfmCtxRec struct {
	topic string
	ctx   context.Context
}

type vfmWorld struct {
	p      *vfmProc
	ctx    context.Context
	cancel context.CancelFunc

	ss    secretstore.SecretStore
	db    *WeshOrbitDB
	gc    *GroupContext
	ms    *MetadataStore
	bus   *vfmBus
	ipfs  *vfmIpfs
	msrv  *tinder.MockDriverServer
	drv   *vfmDriver
	tsvc  *tinder.Service
	swp   *Swiper
	rp    *rendezvous.RotationInterval
	ownPK []byte

	mgr     *contactRequestsManager
	mgrs    int
	closedM bool

	contacts map[string]*vfmContact
	peers    map[string]*vfmPeer // "c1/good"
	byPeerID map[peer.ID]*vfmPeer

	mu       sync.Mutex
	seeds    [][]byte // distinct own seeds in order of appearance in the log
	told     []string // contacts whose peer completed the handshake as responder and read the account's contact
	toldSeen int
	hsAtt    []string // outgoing stream attempts "c1/good:ok|err"
	activity int64    // bumped by every wrapper call
	baseP    int
	baseW    int
}

// ---- event bus wrapper

type vfmBus struct {
	event.Bus
	w *vfmWorld

	mu       sync.Mutex
	holdNext bool
	sub      *vfmSub // the watcher's current subscription
}

type vfmSub struct {
	real     event.Subscription
	out      chan interface{}
	stop     chan struct{}
	once     sync.Once
	gate     chan struct{} // closed when the held Subscribe may return
	subd     chan struct{} // closed when the watcher called Subscribe
	mu       sync.Mutex
	held     []*protocoltypes.GroupMetadataEvent
	received int
	baseLen  int // log entries before the subscription
}

func vfmFromWatcher() bool {
	pcs := make([]uintptr, 16)
	n := runtime.Callers(2, pcs)
	frames := runtime.CallersFrames(pcs[:n])
	for {
		f, more := frames.Next()
		if strings.Contains(f.Function, "contactRequestsManager") && strings.Contains(f.Function, "metadataWatcher") {
			return true
		}
		if !more {
			return false
		}
	}
}

func (b *vfmBus) Subscribe(typ interface{}, opts ...event.SubscriptionOpt) (event.Subscription, error) {
	if !vfmFromWatcher() {
		return b.Bus.Subscribe(typ, opts...)
	}
	atomic.AddInt64(&b.w.activity, 1)
	b.mu.Lock()
	s := b.sub
	b.mu.Unlock()
	if s == nil || s.real != nil {
		vfInfra("unexpected subscription of a watcher")
	}
	s.baseLen = b.w.ms.OpLog().Len()
	real, err := b.Bus.Subscribe(typ, opts...)
	if err != nil {
		return nil, err
	}
	s.real = real
	go func() {
		for e := range real.Out() {
			ev, ok := e.(*protocoltypes.GroupMetadataEvent)
			if !ok {
				continue
			}
			s.mu.Lock()
			s.held = append(s.held, ev)
			s.received++
			s.mu.Unlock()
			atomic.AddInt64(&b.w.activity, 1)
		}
	}()
	close(s.subd)
	<-s.gate
	return s, nil
}

func (s *vfmSub) Out() <-chan interface{} { return s.out }
func (s *vfmSub) Name() string            { return "vfm-watcher" }
func (s *vfmSub) Close() error {
	s.once.Do(func() { close(s.stop) })
	return s.real.Close()
}

func (s *vfmSub) stopped() bool {
	select {
	case <-s.stop:
		return true
	default:
		return false
	}
}

// push hands one value to the watcher; false if the watcher is gone
func (s *vfmSub) push(v interface{}) bool {
	select {
	case s.out <- v:
		return true
	case <-s.stop:
		return false
	case <-time.After(vfmDeadline):
		vfInfra("watcher does not take events")
		return false
	}
}

var vfmMarker = &protocoltypes.GroupMetadataEvent{Metadata: &protocoltypes.GroupMetadata{EventType: protocoltypes.EventType_EventTypeUndefined}, EventContext: &protocoltypes.EventContext{}}

// ---- tinder driver wrapper

type vfmDriver struct {
	tinder.IDriver
	w    *vfmWorld
	mu   sync.Mutex
	advs []vfmCtxRec
	subs []vfmCtxRec
}

func (d *vfmDriver) Advertise(ctx context.Context, ns string, opts ...discovery.Option) (time.Duration, error) {
	d.mu.Lock()
	d.advs = append(d.advs, vfmCtxRec{ns, ctx})
	d.mu.Unlock()
	atomic.AddInt64(&d.w.activity, 1)
	return d.IDriver.Advertise(ctx, ns, opts...)
}

func (d *vfmDriver) Subscribe(ctx context.Context, topic string, opts ...discovery.Option) (<-chan peer.AddrInfo, error) {
	d.mu.Lock()
	d.subs = append(d.subs, vfmCtxRec{topic, ctx})
	d.mu.Unlock()
	atomic.AddInt64(&d.w.activity, 1)
	return d.IDriver.Subscribe(ctx, topic, opts...)
}

func (d *vfmDriver) FindPeers(ctx context.Context, ns string, opts ...discovery.Option) (<-chan peer.AddrInfo, error) {
	atomic.AddInt64(&d.w.activity, 1)
	return d.IDriver.FindPeers(ctx, ns, opts...)
}

func vfmLive(recs []vfmCtxRec) map[string]bool {
	out := map[string]bool{}
	for _, r := range recs {
		if r.ctx.Err() == nil {
			out[r.topic] = true
		}
	}
	return out
}

// ---- ipfs wrapper

type vfmIpfs struct {
	ipfsutil.ExtendedCoreAPI
	w        *vfmWorld
	handlers int64 // incoming handlers running
	handled  int64
}

func (i *vfmIpfs) SetStreamHandler(pid protocol.ID, h network.StreamHandler) {
	atomic.AddInt64(&i.w.activity, 1)
	i.ExtendedCoreAPI.SetStreamHandler(pid, func(s network.Stream) {
		atomic.AddInt64(&i.handlers, 1)
		atomic.AddInt64(&i.w.activity, 1)
		h(s)
		atomic.AddInt64(&i.handlers, -1)
		atomic.AddInt64(&i.handled, 1)
		atomic.AddInt64(&i.w.activity, 1)
	})
}

func (i *vfmIpfs) RemoveStreamHandler(pid protocol.ID) {
	atomic.AddInt64(&i.w.activity, 1)
	i.ExtendedCoreAPI.RemoveStreamHandler(pid)
}

func (i *vfmIpfs) NewStream(ctx context.Context, p peer.ID, pids ...protocol.ID) (network.Stream, error) {
	atomic.AddInt64(&i.w.activity, 1)
	s, err := i.ExtendedCoreAPI.NewStream(ctx, p, pids...)
	i.w.mu.Lock()
	name := "?"
	if pr := i.w.byPeerID[p]; pr != nil {
		name = pr.c.name + "/" + pr.kind
	}
	if err != nil {
		i.w.hsAtt = append(i.w.hsAtt, name+":nostream")
	} else {
		i.w.hsAtt = append(i.w.hsAtt, name+":stream")
	}
	i.w.mu.Unlock()
	return s, err
}

func (i *vfmIpfs) hasHandler() bool {
	for _, p := range i.ExtendedCoreAPI.Mux().Protocols() {
		if p == contactRequestV1 {
			return true
		}
	}
	return false
}

// ------------------------------------------------------------------ world construction

func vfmGenSeed() []byte {
	b := make([]byte, protocoltypes.RendezvousSeedLength)
	crand.Read(b)
	return b
}

func vfmNewWorld(p *vfmProc, ncontacts int) *vfmWorld {
	w := &vfmWorld{p: p, contacts: map[string]*vfmContact{}, peers: map[string]*vfmPeer{}, byPeerID: map[peer.ID]*vfmPeer{}}
	w.ctx, w.cancel = context.WithCancel(p.ctx)
	ds := dssync.MutexWrap(datastore.NewMapDatastore())
	var err error
	if w.ss, err = secretstore.NewSecretStore(ds, nil); err != nil {
		vfInfra("secret store: %v", err)
	}
	if w.db, err = NewWeshOrbitDB(w.ctx, p.node.API(), &NewOrbitDBOptions{
		NewOrbitDBOptions: orbitdb.NewOrbitDBOptions{Logger: zap.NewNop()}, Datastore: ds, SecretStore: w.ss,
	}); err != nil {
		vfInfra("orbitdb: %v", err)
	}
	g, _, err := w.ss.GetGroupForAccount()
	if err != nil {
		vfInfra("account group: %v", err)
	}
	w.bus = &vfmBus{Bus: eventbus.NewBus(), w: w}
	lo := true
	if w.gc, err = w.db.OpenGroup(w.ctx, g, &orbitdb.CreateDBOptions{EventBus: w.bus, LocalOnly: &lo}); err != nil {
		vfInfra("open account group: %v", err)
	}
	w.ms = w.gc.MetadataStore()
	sk, err := w.ss.GetAccountPrivateKey()
	if err != nil {
		vfInfra("account key: %v", err)
	}
	w.ownPK, _ = sk.GetPublic().Raw()

	w.ipfs = &vfmIpfs{ExtendedCoreAPI: p.node.API(), w: w}
	w.msrv = tinder.NewMockDriverServer()
	h := p.node.MockNode().PeerHost
	w.drv = &vfmDriver{IDriver: w.msrv.Client(h), w: w}
	if w.tsvc, err = tinder.NewService(h, zap.NewNop(), w.drv); err != nil {
		vfInfra("tinder: %v", err)
	}
	w.rp = rendezvous.NewRotationInterval(rendezvous.DefaultRotationInterval)
	w.swp = NewSwiper(zap.NewNop(), w.tsvc, w.rp)

	for i := 0; i < ncontacts; i++ {
		sk, pk, _ := crypto.GenerateEd25519Key(crand.Reader)
		raw, _ := pk.Raw()
		c := &vfmContact{name: fmt.Sprintf("c%d", i+1), sk: sk, pk: pk, raw: raw, seed: vfmGenSeed()}
		w.contacts[c.name] = c
		osk, _, _ := crypto.GenerateEd25519Key(crand.Reader)
		for k, kind := range []string{"good", "bad"} {
			pr := &vfmPeer{c: c, kind: kind, h: p.hosts[2*i+k], sk: sk}
			if kind == "bad" {
				pr.sk = osk
			}
			w.peers[c.name+"/"+kind] = pr
			w.byPeerID[pr.h.ID()] = pr
			w.serve(pr)
		}
	}
	w.baseP, w.baseW = vfmCountGoroutines()
	return w
}

// the peer's responder: the real handshake with the account key the peer holds, then read the contact
func (w *vfmWorld) serve(pr *vfmPeer) {
	pr.h.SetStreamHandler(contactRequestV1, func(s network.Stream) {
		atomic.AddInt64(&w.activity, 1)
		defer s.Reset()
		reader := protoio.NewDelimitedReader(s, 2048)
		writer := protoio.NewDelimitedWriter(s)
		res := "hsfail"
		if _, err := handshake.ResponseUsingReaderWriter(w.ctx, zap.NewNop(), reader, writer, pr.sk); err == nil {
			c := &protocoltypes.ShareableContact{}
			if err := reader.ReadMsg(c); err == nil && string(c.Pk) == string(w.ownPK) {
				res = "told"
				w.mu.Lock()
				w.told = append(w.told, pr.c.name)
				w.mu.Unlock()
			} else {
				res = "nocontact"
			}
		}
		w.mu.Lock()
		w.hsAtt = append(w.hsAtt, pr.c.name+"/"+pr.kind+":"+res)
		w.mu.Unlock()
		atomic.AddInt64(&w.activity, 1)
	})
}

func (w *vfmWorld) teardown() {
	// let a held start-up run out before the manager is closed, otherwise it registers its handler afterwards
	if w.resume() {
		w.settle(false)
	}
	if w.mgr != nil && !w.closedM {
		w.barrier()
		w.mgr.close()
		w.closedM = true
	}
	if w.mgr != nil {
		w.settle(false)
	}
	w.cancel()
	for _, pr := range w.peers {
		pr.h.RemoveStreamHandler(contactRequestV1)
	}
	if w.ipfs.hasHandler() {
		w.p.node.API().RemoveStreamHandler(contactRequestV1)
	}
	w.tsvc.Close()
	w.gc.Close()
	w.db.Close()
	w.ss.Close()
}

// ------------------------------------------------------------------ observation

func (w *vfmWorld) topicOf(pk, seed []byte) string {
	return w.rp.NewRendezvousPointForPeriod(time.Now(), base64.StdEncoding.EncodeToString(pk), seed).RotationTopic()
}

func (w *vfmWorld) seedName(s []byte) int {
	if s == nil {
		return 0
	}
	for i, x := range w.seeds {
		if string(x) == string(s) {
			return i + 1
		}
	}
	return -1
}

func (w *vfmWorld) contactName(pk []byte) string {
	if string(pk) == string(w.ownPK) {
		return "self"
	}
	for _, c := range w.contacts {
		if string(c.raw) == string(pk) {
			return c.name
		}
	}
	return "?" + hex.EncodeToString(pk[:4])
}

var vfmEvNames = map[protocoltypes.EventType]string{
	protocoltypes.EventType_EventTypeAccountContactRequestDisabled:          "dis",
	protocoltypes.EventType_EventTypeAccountContactRequestEnabled:           "en",
	protocoltypes.EventType_EventTypeAccountContactRequestReferenceReset:    "rs",
	protocoltypes.EventType_EventTypeAccountContactRequestOutgoingEnqueued:  "enq",
	protocoltypes.EventType_EventTypeAccountContactRequestOutgoingSent:      "sent",
	protocoltypes.EventType_EventTypeAccountContactRequestIncomingReceived:  "recv",
	protocoltypes.EventType_EventTypeAccountContactRequestIncomingDiscarded: "disc",
	protocoltypes.EventType_EventTypeAccountContactRequestIncomingAccepted:  "acc",
	protocoltypes.EventType_EventTypeAccountContactBlocked:                  "blk",
	protocoltypes.EventType_EventTypeAccountContactUnblocked:                "unb",
}

// the contact-request related events of the account log, in log order: [t, c, s]
func (w *vfmWorld) readLog() []map[string]any {
	ch, err := w.ms.ListEvents(w.ctx, nil, nil, false)
	if err != nil {
		vfInfra("list events: %v", err)
	}
	out := []map[string]any{}
	for e := range ch {
		t, ok := vfmEvNames[e.Metadata.EventType]
		if !ok {
			continue
		}
		c, s := "-", 0
		switch t {
		case "rs":
			m := &protocoltypes.AccountContactRequestReferenceReset{}
			if proto.Unmarshal(e.Event, m) == nil {
				if w.seedName(m.PublicRendezvousSeed) < 0 {
					w.seeds = append(w.seeds, m.PublicRendezvousSeed)
				}
				s = w.seedName(m.PublicRendezvousSeed)
			}
		case "enq":
			m := &protocoltypes.AccountContactRequestOutgoingEnqueued{}
			if proto.Unmarshal(e.Event, m) == nil && m.Contact != nil {
				c = w.contactName(m.Contact.Pk)
			}
		case "sent":
			m := &protocoltypes.AccountContactRequestOutgoingSent{}
			if proto.Unmarshal(e.Event, m) == nil {
				c = w.contactName(m.ContactPk)
			}
		case "recv":
			m := &protocoltypes.AccountContactRequestIncomingReceived{}
			if proto.Unmarshal(e.Event, m) == nil {
				c = w.contactName(m.ContactPk)
			}
		case "disc":
			m := &protocoltypes.AccountContactRequestIncomingDiscarded{}
			if proto.Unmarshal(e.Event, m) == nil {
				c = w.contactName(m.ContactPk)
			}
		case "acc":
			m := &protocoltypes.AccountContactRequestIncomingAccepted{}
			if proto.Unmarshal(e.Event, m) == nil {
				c = w.contactName(m.ContactPk)
			}
		case "blk":
			m := &protocoltypes.AccountContactBlocked{}
			if proto.Unmarshal(e.Event, m) == nil {
				c = w.contactName(m.ContactPk)
			}
		case "unb":
			m := &protocoltypes.AccountContactUnblocked{}
			if proto.Unmarshal(e.Event, m) == nil {
				c = w.contactName(m.ContactPk)
			}
		}
		out = append(out, map[string]any{"t": t, "c": c, "s": s})
	}
	return out
}

// sender (P) and watch-loop (W) goroutines of the manager / swiper in this process
func vfmCountGoroutines() (p, wl int) {
	for _, g := range vfmStacks() {
		if strings.Contains(g, "contactRequestsManager).enqueueRequest.func") {
			p++
		}
		if strings.Contains(g, "(*Swiper).WatchTopic.func") {
			wl++
		}
	}
	return
}

func vfmStacks() []string {
	buf := make([]byte, 4<<20)
	for {
		n := runtime.Stack(buf, true)
		if n < len(buf) {
			buf = buf[:n]
			break
		}
		buf = make([]byte, 2*len(buf))
	}
	return strings.Split(string(buf), "\n\n")
}

var vfmMidStep = []string{
	"(*contactRequestsManager).SendContactRequest(",
	"(*contactRequestsManager).handleIncomingRequest(",
	"(*vfmWorld).serve.func",
	"openMetadataEntry(",
	"(*MetadataStore).attributeSignAndAddEvent(",
}

// busy: some goroutine other than the caller is running / runnable / in a syscall;
// sleeping: a goroutine of the manager / swiper sits in time.Sleep (the one-second pauses)
func vfmGoroutineStates() (busy bool, sleeping bool) {
	for i, g := range vfmStacks() {
		if i == 0 {
			continue // the caller
		}
		nl := strings.IndexByte(g, '\n')
		if nl < 0 {
			continue
		}
		head := g[:nl]
		a, b := strings.IndexByte(head, '['), strings.IndexByte(head, ']')
		if a < 0 || b < a {
			continue
		}
		st := head[a+1 : b]
		if k := strings.IndexByte(st, ','); k >= 0 {
			st = st[:k]
		}
		// a goroutine of the system under test in the middle of a step counts as busy even when it is parked
		// for a moment (a log append waits on other goroutines, timers of the IPFS mock, ...)
		for _, mark := range vfmMidStep {
			if strings.Contains(g, mark) {
				busy = true
			}
		}
		if strings.Contains(g, "(*contactRequestsManager).metadataWatcher") && !strings.Contains(g, "vfmBus).Subscribe") {
			// the watcher is idle only in its select: any deeper frame is a handler or the start-up
			if strings.Count(g, "(*contactRequestsManager).") > 1 {
				busy = true
			}
		}
		switch st {
		case "syscall":
			if !strings.Contains(g, "os/signal") {
				busy = true
			}
		case "running", "runnable":
			busy = true
		case "sleep":
			if strings.Contains(g, "contact_request_manager.go") || strings.Contains(g, "tinder_swiper.go") {
				sleeping = true
			}
		}
	}
	return
}

func (w *vfmWorld) counters() string {
	sub := w.bus.sub
	rec := 0
	if sub != nil {
		sub.mu.Lock()
		rec = sub.received
		sub.mu.Unlock()
	}
	w.mu.Lock()
	n := len(w.hsAtt) + len(w.told)
	w.mu.Unlock()
	return fmt.Sprintf("%d/%d/%d/%d/%d", atomic.LoadInt64(&w.activity), rec, n, w.ms.OpLog().Len(), atomic.LoadInt64(&w.ipfs.handlers))
}

// every log entry appended since the watcher subscribed has reached its subscription
func (w *vfmWorld) emitted() bool {
	s := w.bus.sub
	if s == nil || s.real == nil || s.stopped() {
		return true
	}
	s.mu.Lock()
	defer s.mu.Unlock()
	return s.received >= w.ms.OpLog().Len()-s.baseLen
}

// settle waits until the process is quiet (see the file comment); full = also the one-second pauses
func (w *vfmWorld) settle(full bool) {
	deadline := time.Now().Add(vfmDeadline)
	for {
		if time.Now().After(deadline) {
			vfInfra("system does not settle (full=%v)", full)
		}
		c1 := w.counters()
		busy, sleeping := vfmGoroutineStates()
		if busy || (full && sleeping) || atomic.LoadInt64(&w.ipfs.handlers) != 0 || !w.emitted() {
			time.Sleep(3 * time.Millisecond)
			continue
		}
		time.Sleep(4 * time.Millisecond)
		busy, sleeping = vfmGoroutineStates()
		if busy || (full && sleeping) || w.counters() != c1 || !w.emitted() {
			continue
		}
		return
	}
}

func vfmSortedKeys(m map[string]bool) []string {
	out := []string{}
	for k := range m {
		out = append(out, k)
	}
	sort.Strings(out)
	return out
}

// the projected state after a step
func (w *vfmWorld) observe() map[string]any {
	lg := w.readLog()
	st := map[string]any{"log": lg, "gen": w.mgrs}
	// manager fields
	en, seed, annc := false, 0, false
	lk := map[string]bool{}
	if w.mgr != nil {
		m := w.mgr
		m.muManager.Lock()
		en, seed, annc = m.enabled, w.seedName(m.ownRendezvousSeed), m.announceCancel != nil
		m.muManager.Unlock()
		m.muLookupProcess.Lock()
		for k := range m.lookupProcess {
			b, _ := hex.DecodeString(k)
			lk[w.contactName(b)] = true
		}
		m.muLookupProcess.Unlock()
	}
	st["en"], st["seed"], st["annc"], st["lk"] = en, seed, annc, vfmSortedKeys(lk)
	// live announces (own point, by seed) and watches (contact points)
	w.drv.mu.Lock()
	advs, subs := vfmLive(w.drv.advs), vfmLive(w.drv.subs)
	w.drv.mu.Unlock()
	ann := []int{}
	for i, s := range w.seeds {
		if advs[w.topicOf(w.ownPK, s)] {
			ann = append(ann, i+1)
			delete(advs, w.topicOf(w.ownPK, s))
		}
	}
	watched := map[string]bool{}
	for _, c := range w.contacts {
		if subs[w.topicOf(c.raw, c.seed)] {
			watched[c.name] = true
			delete(subs, w.topicOf(c.raw, c.seed))
		}
	}
	st["ann"], st["w"] = ann, vfmSortedKeys(watched)
	// informational (not part of the conformance check, it depends on the server's TTL): own points the
	// discovery server still serves although no announce is live on them (the swiper never unregisters)
	srv := []int{}
	for i, s := range w.seeds {
		n := 0
		for range w.msrv.FindPeers(w.topicOf(w.ownPK, s), 8) {
			n++
		}
		live := false
		for _, k := range ann {
			live = live || k == i+1
		}
		if n > 0 && !live {
			srv = append(srv, i+1)
		}
	}
	st["srv"] = srv
	st["other"] = len(advs) + len(subs) // live announces / watches on a topic that is nobody's point
	st["h"] = w.ipfs.hasHandler()
	q := 0
	if s := w.bus.sub; s != nil && !s.stopped() {
		s.mu.Lock()
		q = len(s.held)
		s.mu.Unlock()
	}
	st["q"] = q
	p, wl := vfmCountGoroutines()
	st["g"], st["gw"] = p-w.baseP, wl-w.baseW
	return st
}

// ------------------------------------------------------------------ steps

func (w *vfmWorld) newManager(hold bool) {
	if w.mgr != nil && !w.closedM {
		vfInfra("script starts a manager while one is open")
	}
	s := &vfmSub{out: make(chan interface{}), stop: make(chan struct{}), gate: make(chan struct{}), subd: make(chan struct{})}
	w.bus.mu.Lock()
	w.bus.sub = s
	w.bus.mu.Unlock()
	m, err := newContactRequestsManager(w.swp, w.ms, w.ipfs, zap.NewNop())
	if err != nil {
		vfInfra("new manager: %v", err)
	}
	w.mgr, w.closedM = m, false
	w.mgrs++
	select {
	case <-s.subd:
	case <-time.After(vfmDeadline):
		vfInfra("watcher did not subscribe")
	}
	if !hold {
		close(s.gate)
	}
}

func (w *vfmWorld) resume() bool {
	s := w.bus.sub
	if s == nil {
		return false
	}
	select {
	case <-s.gate:
		return false
	default:
		close(s.gate)
		return true
	}
}

func (w *vfmWorld) held() bool {
	s := w.bus.sub
	if s == nil {
		return false
	}
	select {
	case <-s.gate:
		return false
	default:
		return true
	}
}

// barrier: the watcher is back in its select (it took a no-op event after everything before)
func (w *vfmWorld) barrier() {
	s := w.bus.sub
	if s == nil || w.held() || s.stopped() || w.closedM {
		return
	}
	s.push(vfmMarker)
	s.push(vfmMarker)
}

// deliver hands the oldest held event to the watcher and waits for its handler to finish
func (w *vfmWorld) deliver() string {
	s := w.bus.sub
	if s == nil || w.held() {
		return "nosub"
	}
	deadline := time.Now().Add(vfmDeadline)
	var e *protocoltypes.GroupMetadataEvent
	for e == nil {
		s.mu.Lock()
		if len(s.held) > 0 {
			e = s.held[0]
			s.held = s.held[1:]
		}
		s.mu.Unlock()
		if e == nil {
			if s.stopped() {
				return "gone"
			}
			if time.Now().After(deadline) {
				return "empty"
			}
			time.Sleep(2 * time.Millisecond)
		}
	}
	if !s.push(e) {
		return "gone"
	}
	if !s.push(vfmMarker) {
		return vfmEvNames[e.Metadata.EventType] + "+gone"
	}
	return vfmEvNames[e.Metadata.EventType]
}

func (w *vfmWorld) op(t, cn string) (errs string) {
	ctx := w.ctx
	var err error
	var c *vfmContact
	if cn != "-" && cn != "self" {
		c = w.contacts[cn]
		if c == nil {
			vfInfra("unknown contact %q", cn)
		}
	}
	switch t {
	case "en":
		_, err = w.ms.ContactRequestEnable(ctx)
	case "dis":
		_, err = w.ms.ContactRequestDisable(ctx)
	case "rs":
		_, err = w.ms.ContactRequestReferenceReset(ctx)
	case "enq":
		sh := &protocoltypes.ShareableContact{Pk: w.ownPK, PublicRendezvousSeed: vfmGenSeed()}
		if c != nil {
			sh = &protocoltypes.ShareableContact{Pk: c.raw, PublicRendezvousSeed: c.seed, Metadata: []byte("meta-" + c.name)}
		}
		_, err = w.ms.ContactRequestOutgoingEnqueue(ctx, sh, []byte("own-meta"))
	case "sent":
		_, err = w.ms.ContactRequestOutgoingSent(ctx, c.pk)
	case "blk":
		_, err = w.ms.ContactBlock(ctx, c.pk)
	case "unb":
		_, err = w.ms.ContactUnblock(ctx, c.pk)
	case "acc":
		_, err = w.ms.ContactRequestIncomingAccept(ctx, c.pk)
	case "disc":
		_, err = w.ms.ContactRequestIncomingDiscard(ctx, c.pk)
	default:
		vfInfra("unknown op %q", t)
	}
	if err != nil {
		return "err"
	}
	return "ok"
}

// a peer of the contact advertises on the contact's rendezvous point
func (w *vfmWorld) advertise(cn, kind string) {
	pr := w.peers[cn+"/"+kind]
	if pr == nil {
		vfInfra("unknown peer %s/%s", cn, kind)
	}
	info := peer.AddrInfo{ID: pr.h.ID(), Addrs: pr.h.Addrs()}
	w.msrv.Advertise(w.topicOf(pr.c.raw, pr.c.seed), info, time.Hour)
}

// a peer of the contact requests the account: real stream, real handshake as requester, its contact
func (w *vfmWorld) incoming(cn, kind string) string {
	pr := w.peers[cn+"/"+kind]
	if pr == nil {
		vfInfra("unknown peer %s/%s", cn, kind)
	}
	ctx, cancel := context.WithTimeout(w.ctx, vfmDeadline)
	defer cancel()
	a := w.p.node.MockNode().PeerHost
	if err := pr.h.Connect(ctx, peer.AddrInfo{ID: a.ID(), Addrs: a.Addrs()}); err != nil {
		vfInfra("peer cannot connect to the account: %v", err)
	}
	before := atomic.LoadInt64(&w.ipfs.handled)
	// (with a single protocol libp2p negotiates lazily when the peer store remembers - from an earlier
	// script on the same hosts - that the account served the protocol: the refusal then only shows in
	// the first read; whether the account serves the protocol is read from its own mux)
	served := w.ipfs.hasHandler()
	s, err := pr.h.NewStream(ctx, a.ID(), contactRequestV1)
	if err != nil {
		if served {
			vfInfra("stream to a registered handler failed: %v", err)
		}
		return "nohandler"
	}
	defer s.Reset()
	reader := protoio.NewDelimitedReader(s, 2048)
	writer := protoio.NewDelimitedWriter(s)
	apk, err := crypto.UnmarshalEd25519PublicKey(w.ownPK)
	if err != nil {
		vfInfra("own key: %v", err)
	}
	if err := handshake.RequestUsingReaderWriter(ctx, zap.NewNop(), reader, writer, pr.sk, apk); err != nil {
		if !served {
			return "nohandler"
		}
		return "hsfail"
	}
	if err := writer.WriteMsg(&protocoltypes.ShareableContact{Pk: pr.c.raw, PublicRendezvousSeed: pr.c.seed, Metadata: []byte("meta-" + pr.c.name)}); err != nil {
		return "writefail"
	}
	// the account's handler resets the stream when it is done
	deadline := time.Now().Add(vfmDeadline)
	for atomic.LoadInt64(&w.ipfs.handled) == before {
		if time.Now().After(deadline) {
			vfInfra("incoming handler does not finish")
		}
		time.Sleep(2 * time.Millisecond)
	}
	return "done"
}

func (w *vfmWorld) closeManager(offer bool) string {
	if w.mgr == nil {
		return "nomgr"
	}
	res := "closed"
	var took chan string
	s := w.bus.sub
	if offer && s != nil && !w.held() {
		var e *protocoltypes.GroupMetadataEvent
		s.mu.Lock()
		if len(s.held) > 0 {
			e = s.held[0]
			s.held = s.held[1:]
		}
		s.mu.Unlock()
		if e != nil {
			took = make(chan string, 1)
			go func() {
				if s.push(e) {
					took <- "taken:" + vfmEvNames[e.Metadata.EventType]
				} else {
					took <- "dropped"
				}
			}()
			// no pause: the offer and ctx.Done race in the watcher's select
		}
	}
	w.mgr.close()
	w.closedM = true
	if took != nil {
		select {
		case r := <-took:
			res = r
		case <-time.After(vfmDeadline):
			vfInfra("offered event neither taken nor dropped")
		}
	}
	return res
}

// ------------------------------------------------------------------ script execution

func vfmRun(p *vfmProc, sc vfScript) (out []map[string]any) {
	nc, _ := vfNum(sc.Cfg, "contacts")
	if nc == 0 {
		nc = 2
	}
	reset := map[string]any{"ev": "reset", "id": sc.ID}
	out = []map[string]any{reset}
	var w *vfmWorld
	defer func() {
		if r := recover(); r != nil {
			msg := fmt.Sprint(r)
			if !strings.HasPrefix(msg, "VERIF-INFRA") {
				panic(r)
			}
			// an infrastructure problem of this script only (timing on a loaded machine): the block is
			// marked and dropped by the check, never interpreted
			reset["skip"] = msg
			out = []map[string]any{reset, {"ev": "end"}}
		}
		if w != nil {
			func() {
				defer func() { recover() }()
				w.teardown()
			}()
		}
	}()
	w = vfmNewWorld(p, nc)
	if w.ipfs.hasHandler() {
		vfInfra("a stream handler of an earlier script is still registered on the host")
	}
	w.settle(true)
	w.baseP, w.baseW = vfmCountGoroutines()
	logLen := 0
	for _, stp := range sc.Steps {
		ev := map[string]any{"ev": stp.Act, "d": stp.D, "s": stp.S, "x": stp.X}
		res := map[string]any{}
		switch stp.Act {
		case "new":
			w.newManager(stp.X == 1)
		case "resume":
			res["r"] = w.resume()
		case "op":
			res["r"] = w.op(stp.S, stp.D)
		case "deliver":
			res["r"] = w.deliver()
		case "peer":
			w.advertise(stp.D, stp.S)
		case "inc":
			res["r"] = w.incoming(stp.D, stp.S)
		case "close":
			res["r"] = w.closeManager(stp.X == 1)
		case "settle":
		default:
			vfInfra("unknown step %q", stp.Act)
		}
		w.settle(stp.Act == "settle")
		w.barrier()
		w.settle(stp.Act == "settle")
		st := w.observe()
		lg := st["log"].([]map[string]any)
		app := []map[string]any{}
		if len(lg) > logLen {
			app = lg[logLen:]
		}
		logLen = len(lg)
		res["app"] = app
		w.mu.Lock()
		res["told"] = append([]string{}, w.told[w.toldSeen:]...)
		w.toldSeen = len(w.told)
		tm := map[string]bool{}
		for _, c := range w.told {
			tm[c] = true
		}
		st["told"] = vfmSortedKeys(tm)
		st["hs"] = len(w.hsAtt)
		w.mu.Unlock()
		ev["res"], ev["st"] = res, st
		out = append(out, ev)
	}
	out = append(out, map[string]any{"ev": "end"})
	return out
}

func TestVerifContactManager(t *testing.T) {
	scripts := vfLoadScripts(t)
	tr := vfOpenTrace(t)
	defer tr.Close()
	maxc := 2
	for _, sc := range scripts {
		if n, ok := vfNum(sc.Cfg, "contacts"); ok && n > maxc {
			maxc = n
		}
	}
	p := vfmNewProc(t, maxc)
	skipped := 0
	for _, sc := range scripts {
		evs := vfmRun(p, sc)
		if _, ok := evs[0]["skip"]; ok {
			skipped++
		}
		tr.EmitBlock(evs)
	}
	t.Logf("VERIF-DONE scripts=%d skipped=%d events=%d", len(scripts), skipped, tr.n)
}
