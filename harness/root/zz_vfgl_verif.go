//go:build verif

package weshnet

// Gate points of the group-lifecycle check (checks/grouplife.py, specs/GroupLife.tla).
//
// checks/grouplife.py replaces service_group.go and api_app.go by COPIES in which a call of vfglGate is
// inserted at the places where a request holds no lock and another request can interleave:
//
//	deactivateGroup  between the lookup under the read lock and s.lock.Lock()          vfglGate("deact")
//	activateGroup    between getGroupForPK and s.lock.Lock()                           vfglGate("act")
//	AppMetadataSend / AppMessageSend  between the lookup and the append               vfglGate("send")
//
// The gate is a no-op unless the driver installed a hook AND the calling goroutine is one of the
// driver's controlled request goroutines.

import (
	"context"
	"sync/atomic"

	"github.com/ipfs/go-datastore"
)

var vfglHook atomic.Value // func(point string)

func vfglGate(point string) {
	if h, ok := vfglHook.Load().(func(string)); ok && h != nil {
		h(point)
	}
}

// vfglGatedDS: what the copy of orbitdb_datastore_cache.go hands to go-orbit-db as a store's cache.  While vfglLibGateOn
// is set (scripts with cfg.libgate: the log-loss demonstration) the write of "_localHeads" - which BaseStore.AddOperation
// does right after oplog.Append, without any lock around the two - passes the gate "append" first.
var vfglLibGateOn atomic.Bool

type vfglGatedDS struct{ datastore.Datastore }

func (g vfglGatedDS) Put(ctx context.Context, k datastore.Key, v []byte) error {
	if vfglLibGateOn.Load() && k.Name() == "_localHeads" {
		vfglGate("append")
	}
	return g.Datastore.Put(ctx, k, v)
}
