//go:build verif

package weshnet

// Driver for specs/MetaEnvelope.tla (C03).
//
// A script step "deliver" carries a symbolic envelope term (see the header of
// MetaEnvelope.tla).  The driver interprets the term with real keys: honest
// terms are produced with the helpers the stores use (signProtoWithDevice /
// signProtoWithPrivateKey + sealGroupEnvelope), forged ones are assembled field
// by field and boxed under the secret the term names.  Mode "open" hands the
// bytes to openGroupEnvelope and openMetadataEntry; mode "store" appends them
// as a raw operation to a real MetadataStore and observes the index getters and
// the two event emitters.  Only observed values are recorded.

import (
	"bytes"
	"context"
	"crypto/ed25519"
	"encoding/hex"
	"encoding/json"
	"fmt"
	"math/rand"
	"reflect"
	"sort"
	"strings"
	"testing"
	"time"

	"github.com/ipfs/go-cid"
	"github.com/libp2p/go-libp2p/core/crypto"
	"github.com/libp2p/go-libp2p/p2p/host/eventbus"
	mh "github.com/multiformats/go-multihash"
	"golang.org/x/crypto/nacl/secretbox"
	"google.golang.org/protobuf/encoding/protowire"
	"google.golang.org/protobuf/proto"
	"google.golang.org/protobuf/reflect/protoreflect"
	"google.golang.org/protobuf/reflect/protoregistry"

	"berty.tech/go-ipfs-log/entry"
	"berty.tech/go-orbit-db/stores/operation"
	"berty.tech/weshnet/v2/pkg/errcode"
	"berty.tech/weshnet/v2/pkg/protocoltypes"
	"berty.tech/weshnet/v2/pkg/secretstore"
)

// ---------------------------------------------------------------- terms

type vfMSig struct {
	By   string `json:"by"`
	Over string `json:"over"`
	St   string `json:"st"`
}

type vfPD struct {
	Shape string `json:"shape"`
	Dev   string `json:"dev"`
	Mem   string `json:"mem"`
	Msig  vfMSig `json:"msig"`
	Body  int    `json:"body"`
	Flip  bool   `json:"flip"`
}

type vfSig struct {
	By   string `json:"by"`
	Over vfPD   `json:"over"`
	St   string `json:"st"`
}

type vfTerm struct {
	Ty    string `json:"ty"`
	PD    vfPD   `json:"pd"`
	Sig   vfSig  `json:"sig"`
	Box   string `json:"box"`
	Nonce string `json:"nonce"`
}

const (
	vfMDA  = "GroupMemberDeviceAdded"
	vfINIT = "MultiMemberGroupInitialMemberAnnounced"
)

func vfTermOf(a map[string]any) vfTerm {
	b, err := json.Marshal(a)
	if err != nil {
		vfInfra(" term: %v", err)
	}
	var tm vfTerm
	if err := json.Unmarshal(b, &tm); err != nil {
		vfInfra(" term: %v", err)
	}
	if tm.Ty == "" || tm.PD.Shape == "" {
		vfInfra(" malformed term %s", b)
	}
	return tm
}

// ---------------------------------------------------------------- world

type vfSignFn func([]byte) []byte

type vfMW struct {
	g, other *protocoltypes.Group
	gsk      crypto.PrivKey
	sign     map[string]vfSignFn
	pub      map[string][]byte
	mds      map[string]secretstore.OwnMemberDevice // "A", "V"
}

func vfMust2(err error, what string) {
	if err != nil {
		vfInfra(" %s: %v", what, err)
	}
}

func vfRawPK(k crypto.PubKey) []byte {
	b, err := k.Raw()
	vfMust2(err, "raw key")
	return b
}

func vfNewMW(g *protocoltypes.Group, gsk crypto.PrivKey, mdV, mdA secretstore.OwnMemberDevice) *vfMW {
	other, _, err := NewGroupMultiMember()
	vfMust2(err, "other group")
	w := &vfMW{g: g, other: other, gsk: gsk, sign: map[string]vfSignFn{}, pub: map[string][]byte{},
		mds: map[string]secretstore.OwnMemberDevice{"A": mdA, "V": mdV}}
	for who, md := range w.mds {
		md := md
		w.sign["dev"+who] = func(b []byte) []byte { s, err := md.DeviceSign(b); vfMust2(err, "device sign"); return s }
		w.sign["mem"+who] = func(b []byte) []byte { s, err := md.MemberSign(b); vfMust2(err, "member sign"); return s }
		w.pub["dev"+who] = vfRawPK(md.Device())
		w.pub["mem"+who] = vfRawPK(md.Member())
	}
	w.sign["grp"] = func(b []byte) []byte { s, err := gsk.Sign(b); vfMust2(err, "group sign"); return s }
	w.pub["grp"] = g.PublicKey
	return w
}

// vfSynthMW: a multi-member group, V and A being two accounts with their own in-memory secret stores
func vfSynthMW() *vfMW {
	g, gsk, err := NewGroupMultiMember()
	vfMust2(err, "new group")
	md := func() secretstore.OwnMemberDevice {
		ss, err := secretstore.NewInMemSecretStore(nil)
		vfMust2(err, "secret store")
		m, err := ss.GetOwnMemberDeviceForGroup(g)
		vfMust2(err, "own member device")
		return m
	}
	return vfNewMW(g, gsk, md(), md())
}

// ---------------------------------------------------------------- concretisation

type vfBuilder struct {
	w     *vfMW
	salt  int64
	cache map[string]*vfPayl
	rnd   *rand.Rand // bit positions, nonces, unknown numbers
}

type vfPayl struct {
	msg   proto.Message
	bytes []byte
}

func vfNewBuilder(w *vfMW, salt int64) *vfBuilder {
	return &vfBuilder{w: w, salt: salt, cache: map[string]*vfPayl{}, rnd: vfRand(salt*7919 + 13)}
}

func vfFlipBit(b []byte, i int) []byte {
	o := append([]byte{}, b...)
	o[i/8] ^= 1 << uint(i%8)
	return o
}

func (b *vfBuilder) flipRandom(x []byte) []byte {
	if len(x) == 0 {
		return []byte{1}
	}
	return vfFlipBit(x, b.rnd.Intn(len(x)*8))
}

func vfRandKeyBytes(r *rand.Rand) []byte {
	pk, _, err := ed25519.GenerateKey(r)
	vfMust2(err, "random key")
	return []byte(pk)
}

func vfRandField(m protoreflect.Message, fd protoreflect.FieldDescriptor, r *rand.Rand, depth int) {
	if fd.IsList() || fd.IsMap() {
		return
	}
	switch fd.Kind() {
	case protoreflect.BytesKind:
		n := string(fd.Name())
		if n == "pk" || strings.HasSuffix(n, "_pk") {
			m.Set(fd, protoreflect.ValueOfBytes(vfRandKeyBytes(r)))
		} else {
			x := make([]byte, 1+r.Intn(48))
			r.Read(x)
			m.Set(fd, protoreflect.ValueOfBytes(x))
		}
	case protoreflect.StringKind:
		x := make([]byte, 1+r.Intn(16))
		for i := range x {
			x[i] = byte('a' + r.Intn(26))
		}
		m.Set(fd, protoreflect.ValueOfString(string(x)))
	case protoreflect.Int64Kind, protoreflect.Sint64Kind, protoreflect.Sfixed64Kind:
		m.Set(fd, protoreflect.ValueOfInt64(r.Int63()))
	case protoreflect.Uint64Kind, protoreflect.Fixed64Kind:
		m.Set(fd, protoreflect.ValueOfUint64(uint64(r.Int63())))
	case protoreflect.Int32Kind, protoreflect.Sint32Kind, protoreflect.Sfixed32Kind:
		m.Set(fd, protoreflect.ValueOfInt32(r.Int31()))
	case protoreflect.Uint32Kind, protoreflect.Fixed32Kind:
		m.Set(fd, protoreflect.ValueOfUint32(uint32(r.Int31())))
	case protoreflect.BoolKind:
		m.Set(fd, protoreflect.ValueOfBool(r.Intn(2) == 1))
	case protoreflect.EnumKind:
		vs := fd.Enum().Values()
		m.Set(fd, protoreflect.ValueOfEnum(vs.Get(r.Intn(vs.Len())).Number()))
	case protoreflect.MessageKind:
		if depth > 2 {
			return
		}
		sub := m.NewField(fd).Message()
		fds := sub.Descriptor().Fields()
		for i := 0; i < fds.Len(); i++ {
			vfRandField(sub, fds.Get(i), r, depth+1)
		}
		m.Set(fd, protoreflect.ValueOfMessage(sub))
	}
}

func (b *vfBuilder) msigBytes(ms vfMSig) []byte {
	if ms.St == "none" {
		return nil
	}
	s := b.w.sign[ms.By]
	if s == nil {
		vfInfra(" no member key %q", ms.By)
	}
	sig := s(b.w.pub[ms.Over])
	if ms.St == "flip" {
		sig = b.flipRandom(sig)
	}
	return sig
}

// payload returns the message and the marshalled bytes of a descriptor (flip not applied)
func (b *vfBuilder) payload(pd vfPD) *vfPayl {
	pd.Flip = false
	kb, _ := json.Marshal(pd)
	if p, ok := b.cache[string(kb)]; ok {
		return p
	}
	mt, err := protoregistry.GlobalTypes.FindMessageByName(protoreflect.FullName("weshnet.protocol.v1." + pd.Shape))
	if err != nil {
		vfInfra(" unknown message %q: %v", pd.Shape, err)
	}
	var h int64
	for _, c := range pd.Shape {
		h = h*131 + int64(c)
	}
	r := vfRand(b.salt*1009 + h%100003 + int64(pd.Body)*7)
	m := mt.New()
	fds := m.Descriptor().Fields()
	for i := 0; i < fds.Len(); i++ {
		fd := fds.Get(i)
		switch string(fd.Name()) {
		case "device_pk":
			if k, ok := b.w.pub[pd.Dev]; ok {
				m.Set(fd, protoreflect.ValueOfBytes(k))
			}
		case "member_pk":
			if k, ok := b.w.pub[pd.Mem]; ok {
				m.Set(fd, protoreflect.ValueOfBytes(k))
			}
		case "member_sig":
			if s := b.msigBytes(pd.Msig); s != nil {
				m.Set(fd, protoreflect.ValueOfBytes(s))
			}
		default:
			vfRandField(m, fd, r, 0)
		}
	}
	if pd.Body == 1 {
		x := make([]byte, 8)
		r.Read(x)
		m.SetUnknown(protowire.AppendBytes(protowire.AppendTag(nil, 15, protowire.BytesType), x))
	}
	msg := m.Interface()
	by, err := proto.Marshal(msg)
	vfMust2(err, "marshal payload")
	p := &vfPayl{msg: msg, bytes: by}
	b.cache[string(kb)] = p
	return p
}

var vfUnknownNumbers = []int32{0, 3, 100, 113, 200, 304, 999, 1002, 70000, -1, 2147483647}

func (b *vfBuilder) typeNumber(ty string) protocoltypes.EventType {
	if n, ok := protocoltypes.EventType_value["EventType"+ty]; ok {
		return protocoltypes.EventType(n)
	}
	if ty != "Unknown" {
		vfInfra(" script names event type %q which the protocol does not define", ty)
	}
	return protocoltypes.EventType(vfUnknownNumbers[b.rnd.Intn(len(vfUnknownNumbers))])
}

// honestWho: "A"/"V" if the term is exactly the honest event of that party, else ""
func vfHonestWho(tm vfTerm) string {
	if tm.Ty != tm.PD.Shape || tm.PD.Flip || tm.Box != "g" || tm.Nonce != "ok" || tm.Sig.St != "ok" || !reflect.DeepEqual(tm.Sig.Over, tm.PD) {
		return ""
	}
	for _, who := range []string{"A", "V"} {
		switch tm.Ty {
		case vfINIT:
			if tm.Sig.By == "grp" && tm.PD.Mem == "dev"+who {
				return who
			}
		case vfMDA:
			if tm.Sig.By == "dev"+who && tm.PD.Dev == "dev"+who && tm.PD.Mem == "mem"+who &&
				tm.PD.Msig == (vfMSig{By: "mem" + who, Over: "dev" + who, St: "ok"}) {
				return who
			}
		default:
			if tm.Sig.By == "dev"+who && tm.PD.Dev == "dev"+who {
				return who
			}
		}
	}
	return ""
}

type vfEnv struct {
	bytes   []byte
	payload []byte // GroupMetadata.Payload as boxed
	sig     []byte
	helper  bool
}

func (b *vfBuilder) envelope(tm vfTerm) vfEnv {
	w := b.w
	et := b.typeNumber(tm.Ty)
	if who := vfHonestWho(tm); who != "" {
		// the path the stores take
		p := b.payload(tm.PD)
		var sig []byte
		var err error
		if tm.Ty == vfINIT {
			sig, err = signProtoWithPrivateKey(p.msg, w.gsk)
		} else {
			sig, err = signProtoWithDevice(p.msg, w.mds[who])
		}
		vfMust2(err, "honest signature")
		env, err := sealGroupEnvelope(w.g, et, p.msg, sig)
		vfMust2(err, "sealGroupEnvelope")
		ge := &protocoltypes.GroupEnvelope{}
		vfMust2(proto.Unmarshal(env, ge), "own envelope")
		var nonce [24]byte
		copy(nonce[:], ge.Nonce)
		clear, ok := secretbox.Open(nil, ge.Event, &nonce, w.g.GetSharedSecret())
		if !ok {
			vfInfra(" cannot open own envelope")
		}
		gm := &protocoltypes.GroupMetadata{}
		vfMust2(proto.Unmarshal(clear, gm), "own metadata")
		return vfEnv{bytes: env, payload: gm.Payload, sig: gm.Sig, helper: true}
	}
	pay := b.payload(tm.PD).bytes
	if tm.PD.Flip {
		pay = b.flipRandom(pay)
	}
	var sig []byte
	if tm.Sig.St != "none" {
		s := w.sign[tm.Sig.By]
		if s == nil {
			vfInfra(" no key %q", tm.Sig.By)
		}
		sig = s(b.payload(tm.Sig.Over).bytes)
		if tm.Sig.St == "flip" {
			sig = b.flipRandom(sig)
		}
	}
	gm := &protocoltypes.GroupMetadata{EventType: et, Payload: pay, Sig: sig, ProtocolMetadata: &protocoltypes.ProtocolMetadata{}}
	clear, err := proto.Marshal(gm)
	vfMust2(err, "marshal metadata")
	var nonce [24]byte
	b.rnd.Read(nonce[:])
	secret := w.g.GetSharedSecret()
	if tm.Box == "other" {
		secret = w.other.GetSharedSecret()
	}
	boxed := secretbox.Seal(nil, clear, &nonce, secret)
	if tm.Box == "flip" {
		boxed = b.flipRandom(boxed)
	}
	n := nonce[:]
	if tm.Nonce == "flip" {
		n = b.flipRandom(n)
	}
	env, err := proto.Marshal(&protocoltypes.GroupEnvelope{Nonce: n, Event: boxed})
	vfMust2(err, "marshal envelope")
	return vfEnv{bytes: env, payload: pay, sig: sig}
}

func vfCIDOf(b []byte) cid.Cid {
	h, _ := mh.Sum(b, mh.SHA2_256, -1)
	return cid.NewCidV1(cid.Raw, h)
}

func vfTypeName(t protocoltypes.EventType) string {
	return strings.TrimPrefix(t.String(), "EventType")
}

func vfErrCode(err error) string {
	if err == nil {
		return ""
	}
	return errcode.Code(err).String()
}

// vfObserveOpen: openGroupEnvelope and openMetadataEntry on the same bytes
func vfObserveOpen(g *protocoltypes.Group, e vfEnv, ev map[string]any) {
	meta, msg, err := vfOpenGroupEnvelope(g, e.bytes)
	ev["ok"] = err == nil
	ev["code"] = vfErrCode(err)
	if err == nil {
		ev["rty"] = vfTypeName(meta.EventType)
		ev["same"] = bytes.Equal(meta.Payload, e.payload) && bytes.Equal(meta.Sig, e.sig) && msg != nil
	}
	op := operation.NewOperation(nil, "ADD", e.bytes)
	ob, merr := op.Marshal()
	vfMust2(merr, "marshal operation")
	ent := &entry.Entry{Payload: ob, Hash: vfCIDOf(ob)}
	gme, emsg, err := vfOpenMetadataEntry(nil, ent, g)
	ev["eok"] = err == nil
	if err == nil {
		mb, _ := proto.Marshal(emsg)
		ev["erty"] = vfTypeName(gme.GetMetadata().GetEventType())
		ev["esame"] = bytes.Equal(gme.GetMetadata().GetPayload(), e.payload) && bytes.Equal(gme.Event, mb) &&
			bytes.Equal(gme.GetEventContext().GetGroupPk(), g.PublicKey) && bytes.Equal(gme.GetEventContext().GetId(), ent.Hash.Bytes())
	}
}

// ---------------------------------------------------------------- mode "open"

func vfMetaOpenScript(w *vfMW, sc vfScript) []map[string]any {
	out := []map[string]any{{"ev": "reset", "id": sc.ID}}
	b := vfNewBuilder(w, int64(sc.ID))
	for i, st := range sc.Steps {
		if st.Act != "deliver" {
			vfInfra(" unknown action %q", st.Act)
		}
		tm := vfTermOf(st.A)
		e := b.envelope(tm)
		ev := map[string]any{"ev": "open", "i": i, "tm": st.A, "helper": e.helper}
		vfObserveOpen(w.g, e, ev)
		out = append(out, ev)
	}
	return out
}

// every single-bit flip of the payload, the signature, the nonce and the box of one honest event
func vfMetaFlipSweep(w *vfMW, id int, ty, who string) []map[string]any {
	out := []map[string]any{{"ev": "reset", "id": id}}
	b := vfNewBuilder(w, int64(id))
	tm := vfTerm{Ty: ty, Box: "g", Nonce: "ok"}
	switch ty {
	case vfINIT:
		tm.PD = vfPD{Shape: ty, Dev: "-", Mem: "dev" + who, Msig: vfMSig{"-", "-", "none"}}
		tm.Sig = vfSig{By: "grp", Over: tm.PD, St: "ok"}
	case vfMDA:
		tm.PD = vfPD{Shape: ty, Dev: "dev" + who, Mem: "mem" + who, Msig: vfMSig{"mem" + who, "dev" + who, "ok"}}
		tm.Sig = vfSig{By: "dev" + who, Over: tm.PD, St: "ok"}
	default:
		tm.PD = vfPD{Shape: ty, Dev: "dev" + who, Mem: "-", Msig: vfMSig{"-", "-", "none"}}
		tm.Sig = vfSig{By: "dev" + who, Over: tm.PD, St: "ok"}
	}
	e := b.envelope(tm)
	if !e.helper {
		vfInfra(" flip sweep base is not honest")
	}
	base := map[string]any{}
	vfObserveOpen(w.g, e, base)
	ge := &protocoltypes.GroupEnvelope{}
	vfMust2(proto.Unmarshal(e.bytes, ge), "own envelope")
	et := b.typeNumber(ty)
	seal := func(pay, sig []byte) []byte {
		gm := &protocoltypes.GroupMetadata{EventType: et, Payload: pay, Sig: sig, ProtocolMetadata: &protocoltypes.ProtocolMetadata{}}
		clear, _ := proto.Marshal(gm)
		var nonce [24]byte
		b.rnd.Read(nonce[:])
		env, _ := proto.Marshal(&protocoltypes.GroupEnvelope{Nonce: nonce[:], Event: secretbox.Seal(nil, clear, &nonce, w.g.GetSharedSecret())})
		return env
	}
	// sanity of the re-sealing path itself: unflipped must behave like the helper's envelope
	_, _, rerr := vfOpenGroupEnvelope(w.g, seal(e.payload, e.sig))
	fields := []struct {
		name string
		n    int
		mk   func(i int) []byte
	}{
		{"payload", len(e.payload) * 8, func(i int) []byte { return seal(vfFlipBit(e.payload, i), e.sig) }},
		{"sig", len(e.sig) * 8, func(i int) []byte { return seal(e.payload, vfFlipBit(e.sig, i)) }},
		{"nonce", len(ge.Nonce) * 8, func(i int) []byte {
			x, _ := proto.Marshal(&protocoltypes.GroupEnvelope{Nonce: vfFlipBit(ge.Nonce, i), Event: ge.Event})
			return x
		}},
		{"box", len(ge.Event) * 8, func(i int) []byte {
			x, _ := proto.Marshal(&protocoltypes.GroupEnvelope{Nonce: ge.Nonce, Event: vfFlipBit(ge.Event, i)})
			return x
		}},
		{"frame", len(e.bytes) * 8, func(i int) []byte { return vfFlipBit(e.bytes, i) }},
	}
	for _, f := range fields {
		nacc, first := 0, -1
		for i := 0; i < f.n; i++ {
			if _, _, err := vfOpenGroupEnvelope(w.g, f.mk(i)); err == nil {
				nacc++
				if first < 0 {
					first = i
				}
			}
		}
		out = append(out, map[string]any{"ev": "flips", "ty": ty, "who": who, "field": f.name, "n": f.n, "nacc": nacc, "first": first,
			"baseok": base["ok"], "resealok": rerr == nil})
	}
	return out
}

// ---------------------------------------------------------------- mode "store"

type vfStoreWorld struct {
	name string
	ms   *MetadataStore
	w    *vfMW
	sub  interface {
		Out() <-chan interface{}
		Close() error
	}
}

func vfHexKeys(ks []crypto.PubKey) []string {
	out := make([]string, 0, len(ks))
	for _, k := range ks {
		if k == nil {
			out = append(out, "nil")
			continue
		}
		out = append(out, hex.EncodeToString(vfRawPK(k)))
	}
	sort.Strings(out)
	// as a set: the admins map of the index is keyed by key *objects*, so the same key is listed once
	// per index update (duplicates are not this property's business)
	ded := out[:0]
	for i, s := range out {
		if i == 0 || s != out[i-1] {
			ded = append(ded, s)
		}
	}
	return ded
}

func vfShort(b []byte) string {
	if len(b) == 0 {
		return ""
	}
	h, _ := mh.Sum(b, mh.SHA2_256, -1)
	return hex.EncodeToString(h[2:10])
}

// vfSnapshot: everything the index getters expose, canonically ordered
func vfSnapshot(ms *MetadataStore) (full []string, devs []string, admins []string) {
	add := func(k string, vs ...string) { full = append(full, k+"="+strings.Join(vs, ",")) }
	add("members", vfHexKeys(ms.ListMembers())...)
	devKeys := ms.ListDevices()
	add("devices", vfHexKeys(devKeys)...)
	for _, d := range devKeys {
		mk, err := ms.GetMemberByDevice(d)
		s := "?"
		if err == nil && mk != nil {
			s = hex.EncodeToString(vfRawPK(mk))
		}
		devs = append(devs, s+"/"+hex.EncodeToString(vfRawPK(d)))
	}
	sort.Strings(devs)
	add("devmap", devs...)
	idx := ms.Index().(*metadataStoreIndex)
	admins = vfHexKeys(idx.listAdmins())
	add("admins", admins...)
	add("listadmins", vfHexKeys(ms.ListAdmins())...)
	add("others", vfHexKeys(ms.ListOtherMembersDevices())...)
	var cs []string
	for k, c := range ms.ListContacts() {
		cs = append(cs, fmt.Sprintf("%s:%d:%s:%s", hex.EncodeToString([]byte(k)), c.state, vfShort(c.contact.PublicRendezvousSeed), vfShort(c.contact.Metadata)))
	}
	sort.Strings(cs)
	add("contacts", cs...)
	en, ref := ms.GetIncomingContactRequestsStatus()
	add("cr", fmt.Sprint(en), vfShort(ref.GetPublicRendezvousSeed()))
	var vcs []string
	for _, vc := range ms.ListVerifiedCredentials() {
		b, _ := proto.Marshal(vc)
		vcs = append(vcs, vfShort(b))
	}
	sort.Strings(vcs)
	add("vcreds", vcs...)
	idx.lock.RLock()
	var gs, sent, cgs, crm []string
	for k, g := range idx.groups {
		gb, _ := proto.Marshal(g.group)
		gs = append(gs, fmt.Sprintf("%s:%d:%s", hex.EncodeToString([]byte(k)), g.state, vfShort(gb)))
	}
	for k := range idx.sentSecrets {
		sent = append(sent, hex.EncodeToString([]byte(k)))
	}
	for k, c := range idx.contactsFromGroupPK {
		cgs = append(cgs, hex.EncodeToString([]byte(k))+":"+hex.EncodeToString(c.contact.Pk))
	}
	for k, v := range idx.contactRequestMetadata {
		crm = append(crm, hex.EncodeToString([]byte(k))+":"+vfShort(v))
	}
	alias := fmt.Sprintf("%v:%s", idx.ownAliasKeySent, hex.EncodeToString(idx.otherAliasKey))
	idx.lock.RUnlock()
	sort.Strings(gs)
	sort.Strings(sent)
	sort.Strings(cgs)
	sort.Strings(crm)
	add("groups", gs...)
	add("sent", sent...)
	add("contactgroups", cgs...)
	add("crmeta", crm...)
	add("alias", alias)
	return full, devs, admins
}

func (sw *vfStoreWorld) names() map[string]string {
	// in an account group the member key is the group key: the party name wins
	n := map[string]string{}
	for _, k := range []string{"grp", "memA", "memV", "devA", "devV"} {
		n[hex.EncodeToString(sw.w.pub[k])] = k
	}
	return n
}

// symbolic projection of the index for the conformance pass: keys the script knows are named
func (sw *vfStoreWorld) project(devs, admins []string) map[string]any {
	n := sw.names()
	nm := func(h string) string {
		if s, ok := n[h]; ok {
			return s
		}
		return "x" + h[:min(8, len(h))]
	}
	pd := [][]string{}
	for _, d := range devs {
		p := strings.SplitN(d, "/", 2)
		pd = append(pd, []string{nm(p[0]), nm(p[1])})
	}
	pa := []string{}
	for _, a := range admins {
		pa = append(pa, nm(a))
	}
	return map[string]any{"devs": pd, "admins": pa}
}

func (sw *vfStoreWorld) appendRaw(ctx context.Context, env []byte) (cid.Cid, error) {
	op := operation.NewOperation(nil, "ADD", env)
	e, err := sw.ms.AddOperation(ctx, op, nil)
	if err != nil {
		return cid.Undef, err
	}
	return e.GetHash(), nil
}

type vfEmitted struct {
	emr, gme     int
	tyok, sameok bool
	stray        int
	barrier      bool
}

// drain the subscription until both emissions of the sentinel entry arrived
func (sw *vfStoreWorld) collect(target, sentinel cid.Cid, e vfEnv, ty string) vfEmitted {
	r := vfEmitted{tyok: true, sameok: true}
	tb, sb := target.Bytes(), sentinel.Bytes()
	seenS := 0
	deadline := time.After(20 * time.Second)
	for seenS < 2 {
		select {
		case x := <-sw.sub.Out():
			var me *protocoltypes.GroupMetadataEvent
			isEMR := false
			switch v := x.(type) {
			case EventMetadataReceived:
				me, isEMR = v.MetaEvent, true
			case *protocoltypes.GroupMetadataEvent:
				me = v
			default:
				continue
			}
			id := me.GetEventContext().GetId()
			switch {
			case bytes.Equal(id, sb):
				seenS++
			case bytes.Equal(id, tb):
				if isEMR {
					r.emr++
				} else {
					r.gme++
				}
				if vfTypeName(me.GetMetadata().GetEventType()) != ty {
					r.tyok = false
				}
				if !bytes.Equal(me.GetMetadata().GetPayload(), e.payload) {
					r.sameok = false
				}
			default:
				r.stray++
			}
		case <-deadline:
			return r
		}
	}
	r.barrier = true
	return r
}

func vfMetaStoreScript(ctx context.Context, sw *vfStoreWorld, sc vfScript) []map[string]any {
	out := []map[string]any{{"ev": "reset", "id": sc.ID, "store": sw.name}}
	b := vfNewBuilder(sw.w, int64(sc.ID))
	for i, st := range sc.Steps {
		if st.Act != "deliver" {
			vfInfra(" unknown action %q", st.Act)
		}
		tm := vfTermOf(st.A)
		e := b.envelope(tm)
		pre, _, _ := vfSnapshot(sw.ms)
		lenPre := sw.ms.OpLog().Len()
		h, aerr := sw.appendRaw(ctx, e.bytes)
		// barrier: an honest event of the store owner through the regular API
		tag := make([]byte, 12)
		b.rnd.Read(tag)
		var sop operation.Operation
		var err error
		if aerr == nil {
			sop, err = sw.ms.SendAppMetadata(ctx, tag)
		}
		if aerr != nil || err != nil {
			// the store refuses a write (the entry itself, or an honest event after it): an observation for the
			// monitor - an entry that is to be dropped must not stop the store from working
			post, devs, admins := vfSnapshot(sw.ms)
			out = append(out, map[string]any{"ev": "append", "listed": false, "i": i, "store": sw.name, "tm": st.A, "helper": e.helper,
				"emr": 0, "gme": 0, "tyok": false, "sameok": false, "stray": 0, "barrier": false,
				"pre": pre, "post": post, "grew": sw.ms.OpLog().Len() - lenPre, "st": sw.project(devs, admins),
				"apperr": aerr != nil, "senterr": err != nil, "errtext": fmt.Sprint(aerr, err)})
			break
		}
		sh := sop.GetEntry().GetHash()
		em := sw.collect(h, sh, e, tm.Ty)
		post, devs, admins := vfSnapshot(sw.ms)
		// the history listing served to late subscribers goes through the same opening function
		inList := false
		if ch, err := sw.ms.ListEvents(ctx, nil, nil, false); err == nil {
			for le := range ch {
				if bytes.Equal(le.GetEventContext().GetId(), h.Bytes()) {
					inList = true
				}
			}
		} else {
			vfInfra(" ListEvents: %v", err)
		}
		ev := map[string]any{"ev": "append", "listed": inList, "i": i, "store": sw.name, "tm": st.A, "helper": e.helper,
			"emr": em.emr, "gme": em.gme, "tyok": em.tyok, "sameok": em.sameok, "stray": em.stray, "barrier": em.barrier,
			"pre": pre, "post": post, "grew": sw.ms.OpLog().Len() - lenPre, "st": sw.project(devs, admins)}
		out = append(out, ev)
		if !em.barrier {
			break
		}
	}
	return out
}

func vfOpenStoreWorlds(ctx context.Context, t *testing.T) (map[string]*vfStoreWorld, func()) {
	peers, gsk, cleanup := CreatePeersWithGroupTest(ctx, t, "", 1, 1)
	p := peers[0]
	mk := func(name string, ms *MetadataStore, g *protocoltypes.Group, sk crypto.PrivKey, mdV secretstore.OwnMemberDevice) *vfStoreWorld {
		ssA, err := secretstore.NewInMemSecretStore(nil)
		vfMust2(err, "secret store A")
		mdA, err := ssA.GetOwnMemberDeviceForGroup(g)
		vfMust2(err, "member device A")
		sub, err := ms.eventBus.Subscribe([]any{new(EventMetadataReceived), new(*protocoltypes.GroupMetadataEvent)}, eventbus.BufSize(4096))
		vfMust2(err, "subscribe")
		return &vfStoreWorld{name: name, ms: ms, w: vfNewMW(g, sk, mdV, mdA), sub: sub}
	}
	out := map[string]*vfStoreWorld{}
	g := p.GC.Group()
	mdV, err := p.SecretStore.GetOwnMemberDeviceForGroup(g)
	vfMust2(err, "member device V")
	out["mm"] = mk("mm", p.GC.MetadataStore(), g, gsk, mdV)
	// the account group of the same peer, opened without activation (no background handlers)
	ag, amd, err := p.SecretStore.GetGroupForAccount()
	vfMust2(err, "account group")
	ask, err := p.SecretStore.GetAccountPrivateKey()
	vfMust2(err, "account key")
	agc, err := p.DB.OpenGroup(ctx, ag, nil)
	vfMust2(err, "open account group")
	out["acct"] = mk("acct", agc.MetadataStore(), ag, ask, amd)
	return out, func() {
		for _, sw := range out {
			sw.sub.Close()
		}
		agc.Close()
		cleanup()
	}
}

// ---------------------------------------------------------------- entry point

var vfMetaTypes = []string{vfMDA, vfINIT, "GroupDeviceChainKeyAdded", "AccountGroupJoined", "AccountGroupLeft",
	"AccountContactRequestDisabled", "AccountContactRequestEnabled", "AccountContactRequestReferenceReset",
	"AccountContactRequestOutgoingEnqueued", "AccountContactRequestOutgoingSent", "AccountContactRequestIncomingReceived",
	"AccountContactRequestIncomingDiscarded", "AccountContactRequestIncomingAccepted", "AccountContactBlocked",
	"AccountContactUnblocked", "ContactAliasKeyAdded", "MultiMemberGroupAliasResolverAdded",
	"MultiMemberGroupAdminRoleGranted", "GroupMetadataPayloadSent", "GroupReplicating", "AccountVerifiedCredentialRegistered"}

func TestVerifMetaSig(t *testing.T) {
	scripts := vfLoadScripts(t)
	tr := vfOpenTrace(t)
	defer tr.Close()
	ctx, cancel := context.WithCancel(context.Background())
	defer cancel()

	// what the implementation's table contains (reported for the conformance pass only)
	var table []string
	for et := range eventTypesMapper {
		table = append(table, vfTypeName(et))
	}
	sort.Strings(table)
	tr.EmitBlock([]map[string]any{{"ev": "reset", "id": -1}, {"ev": "table", "types": table}})

	nw := vfEnvInt("VERIF_WORLDS", 4)
	worlds := make([]*vfMW, nw)
	for i := range worlds {
		worlds[i] = vfSynthMW()
	}
	var store []vfScript
	nopen := 0
	for _, sc := range scripts {
		mode, _ := sc.Cfg["mode"].(string)
		switch mode {
		case "open":
			tr.EmitBlock(vfMetaOpenScript(worlds[sc.ID%nw], sc))
			nopen++
		case "flips":
			w := worlds[sc.ID%nw]
			for _, ty := range vfMetaTypes {
				tr.EmitBlock(vfMetaFlipSweep(w, sc.ID, ty, []string{"A", "V"}[sc.ID%2]))
			}
		case "store":
			store = append(store, sc)
		default:
			vfInfra(" unknown mode %q", mode)
		}
	}
	if len(store) > 0 {
		sws, cleanup := vfOpenStoreWorlds(ctx, t)
		for _, sc := range store {
			name, _ := sc.Cfg["store"].(string)
			sw := sws[name]
			if sw == nil {
				vfInfra(" unknown store %q", name)
			}
			tr.EmitBlock(vfMetaStoreScript(ctx, sw, sc))
		}
		cleanup()
	}
	t.Logf("VERIF-DONE scripts=%d open=%d store=%d events=%d", len(scripts), nopen, len(store), tr.n)
}
