//go:build verif

package weshnet

// Driver for specs/ContactApi.tla (C07 at the SERVICE / RPC layer).
//
// Every script runs on a REAL in-process protocol service (mocked IPFS node, in-memory
// datastores that survive a restart of the service).  A step is one contact operation
// carried out through the RPC handler where one exists (ContactRequestSend / Accept /
// Discard, ContactBlock / Unblock, ContactRequestEnable / Disable / ResetReference,
// ContactRequestReference, ShareContact + DecodeContact) - called directly on the handler
// or through the in-memory gRPC client (cfg.via) - and through the account group's
// MetadataStore for the two operations without an RPC (outgoing sent, incoming received).
// After every step one ndjson line records OBSERVED values only: accepted / refused (+ the
// errcode chain), what the account metadata log grew by (events decoded from the entries
// themselves), what the service reports about every contact through the MetadataStore
// getters ("st") and through the RPCs ("rpc": ContactRequestReference, GroupMetadataList
// of the account group), which contact groups the secret store knows / the service has
// opened.  "restart" closes the service and opens a new one on the same datastores.
//
// Symbolic names: the rendezvous seed / metadata / own metadata carried by step i are
// named i (0 = none, -1 = bytes the driver never sent); the account's own rendezvous seed
// is named after the position (in the script's appended events) of the reset event that set it.

import (
	"bytes"
	"context"
	crand "crypto/rand"
	"encoding/json"
	"fmt"
	"io"
	"strings"
	"sync"
	"sync/atomic"
	"testing"
	"time"

	"github.com/ipfs/go-datastore"
	dssync "github.com/ipfs/go-datastore/sync"
	"github.com/libp2p/go-libp2p/core/crypto"
	mocknet "github.com/libp2p/go-libp2p/p2p/net/mock"
	"go.uber.org/zap"
	"google.golang.org/grpc"
	"google.golang.org/grpc/metadata"
	"google.golang.org/protobuf/proto"

	"berty.tech/go-ipfs-log/entry"
	"berty.tech/weshnet/v2/pkg/errcode"
	"berty.tech/weshnet/v2/pkg/ipfsutil"
	"berty.tech/weshnet/v2/pkg/protocoltypes"
	"berty.tech/weshnet/v2/pkg/secretstore"
	"berty.tech/weshnet/v2/pkg/tinder"
)

var vfcaStateNames = map[protocoltypes.ContactState]string{
	protocoltypes.ContactState_ContactStateUndefined: "U",
	protocoltypes.ContactState_ContactStateToRequest: "T",
	protocoltypes.ContactState_ContactStateReceived:  "R",
	protocoltypes.ContactState_ContactStateAdded:     "A",
	protocoltypes.ContactState_ContactStateRemoved:   "X",
	protocoltypes.ContactState_ContactStateDiscarded: "D",
	protocoltypes.ContactState_ContactStateBlocked:   "B",
}

var vfcaEvKinds = map[protocoltypes.EventType]string{
	protocoltypes.EventType_EventTypeAccountContactRequestEnabled:           "en",
	protocoltypes.EventType_EventTypeAccountContactRequestDisabled:          "dis",
	protocoltypes.EventType_EventTypeAccountContactRequestReferenceReset:    "rs",
	protocoltypes.EventType_EventTypeAccountContactRequestOutgoingEnqueued:  "enq",
	protocoltypes.EventType_EventTypeAccountContactRequestOutgoingSent:      "sent",
	protocoltypes.EventType_EventTypeAccountContactRequestIncomingReceived:  "recv",
	protocoltypes.EventType_EventTypeAccountContactRequestIncomingDiscarded: "disc",
	protocoltypes.EventType_EventTypeAccountContactRequestIncomingAccepted:  "acc",
	protocoltypes.EventType_EventTypeAccountContactBlocked:                  "blk",
	protocoltypes.EventType_EventTypeAccountContactUnblocked:                "unb",
}

// ---------------------------------------------------------------- server stream that keeps what was sent

type vfcaStream struct {
	ctx  context.Context
	mu   sync.Mutex
	msgs []*protocoltypes.GroupMetadataEvent
}

func (f *vfcaStream) SetHeader(metadata.MD) error  { return nil }
func (f *vfcaStream) SendHeader(metadata.MD) error { return nil }
func (f *vfcaStream) SetTrailer(metadata.MD)       {}
func (f *vfcaStream) Context() context.Context     { return f.ctx }
func (f *vfcaStream) RecvMsg(any) error            { return io.EOF }
func (f *vfcaStream) SendMsg(m any) error {
	f.mu.Lock()
	defer f.mu.Unlock()
	if v, ok := m.(*protocoltypes.GroupMetadataEvent); ok {
		f.msgs = append(f.msgs, v)
	}
	return nil
}

// ---------------------------------------------------------------- the world

type vfcaContact struct {
	name string
	pk   crypto.PubKey
	raw  []byte
	gpk  crypto.PubKey // public key of the contact group the account derives for this contact
	graw []byte
}

// vfcaTB lets the driver own the clean-ups the testing helpers register (a world is torn down when its
// script ends, not when the test ends) and turns a failed helper assertion into an infrastructure error
// instead of a silent runtime.Goexit of the worker goroutine
type vfcaTB struct {
	testing.TB
	mu       sync.Mutex
	cleanups []func()
	errs     []string
}

func (t *vfcaTB) Cleanup(f func()) {
	t.mu.Lock()
	t.cleanups = append(t.cleanups, f)
	t.mu.Unlock()
}
func (t *vfcaTB) Helper() {}
func (t *vfcaTB) Errorf(format string, a ...any) {
	t.mu.Lock()
	t.errs = append(t.errs, fmt.Sprintf(format, a...))
	t.mu.Unlock()
}
func (t *vfcaTB) Error(a ...any)                 { t.Errorf("%s", fmt.Sprint(a...)) }
func (t *vfcaTB) FailNow()                       { vfInfra("testing helper failed: %s", strings.Join(t.errs, " | ")) }
func (t *vfcaTB) Fatalf(format string, a ...any) { vfInfra("testing helper failed: "+format, a...) }
func (t *vfcaTB) Fatal(a ...any)                 { vfInfra("testing helper failed: %s", fmt.Sprint(a...)) }
func (t *vfcaTB) Log(a ...any)                   {}
func (t *vfcaTB) Logf(string, ...any)            {}
func (t *vfcaTB) runCleanups() {
	t.mu.Lock()
	cs := t.cleanups
	t.cleanups = nil
	t.mu.Unlock()
	for i := len(cs) - 1; i >= 0; i-- {
		func() {
			defer func() { _ = recover() }()
			cs[i]()
		}()
	}
}

type vfcaWorld struct {
	t       *vfcaTB
	ctx     context.Context
	mn      mocknet.Mocknet
	node    ipfsutil.CoreAPIMock
	dsRoot  datastore.Batching
	dsSS    datastore.Batching
	ss      secretstore.SecretStore
	tp      *TestingProtocol
	cleanup func()
	s       *service
	grpc    bool
	nowait  bool   // start-race probe only: do not wait for the account group's set-up to settle
	acctPK  []byte // account group public key
	selfRaw []byte // account (member) public key
	selfPK  crypto.PubKey
}

func vfcaNewWorld(t testing.TB, viaGRPC bool) *vfcaWorld {
	w := &vfcaWorld{t: &vfcaTB{TB: t}, ctx: context.Background(), grpc: viaGRPC,
		dsRoot: dssync.MutexWrap(datastore.NewMapDatastore()), dsSS: dssync.MutexWrap(datastore.NewMapDatastore())}
	w.open(true)
	return w
}

// open starts an IPFS node (its identity lives in the root datastore), a secret store and a protocol service on
// the world's datastores (first = the account is created by this start)
func (w *vfcaWorld) open(first bool) {
	w.mn = mocknet.New()
	disc := tinder.NewMockDriverServer()
	w.node = ipfsutil.TestingCoreAPIUsingMockNet(w.ctx, w.t, &ipfsutil.TestingAPIOpts{Logger: zap.NewNop(), Mocknet: w.mn, DiscoveryServer: disc, Datastore: w.dsRoot})
	ss, err := secretstore.NewSecretStore(w.dsSS, nil)
	if err != nil {
		vfInfra("secret store: %v", err)
	}
	w.ss = ss
	w.tp, w.cleanup = NewTestingProtocol(w.ctx, w.t, &TestingOpts{Logger: zap.NewNop(), Mocknet: w.mn, DiscoveryServer: disc, SecretStore: ss, CoreAPIMock: w.node}, w.dsRoot)
	w.s = w.tp.Service.(*service)
	cfg, err := w.s.ServiceGetConfiguration(w.ctx, &protocoltypes.ServiceGetConfiguration_Request{})
	if err != nil {
		vfInfra("configuration: %v", err)
	}
	if !first && (!bytes.Equal(cfg.AccountGroupPk, w.acctPK) || !bytes.Equal(cfg.AccountPk, w.selfRaw)) {
		vfInfra("the restarted service is another account")
	}
	w.acctPK, w.selfRaw = cfg.AccountGroupPk, cfg.AccountPk
	if w.selfPK, err = crypto.UnmarshalEd25519PublicKey(w.selfRaw); err != nil {
		vfInfra("own key: %v", err)
	}
	// the activation of the account group announces the device and then (from its event handler, asynchronously)
	// publishes the device's chain key: wait for both entries so that no append of the set-up is counted for a step
	// ... and until that second append is complete (BaseStore.AddOperation appends to the log first and persists the
	// new head afterwards, without mutual exclusion between writers): the script's requests must not race with it
	if w.nowait {
		return
	}
	deadline := time.Now().Add(60 * time.Second)
	for len(w.ms().OpLog().Values().Slice()) < 2 || !w.headsPersisted() {
		if time.Now().After(deadline) {
			vfInfra("account group set-up did not settle (two entries, persisted heads = log heads) within 60s")
		}
		time.Sleep(2 * time.Millisecond)
	}
}

// headsPersisted: the heads the store would load after a restart ("_localHeads" of its cache) are the heads of its log
func (w *vfcaWorld) headsPersisted() bool {
	ms := w.ms()
	b, err := ms.Cache().Get(w.ctx, datastore.NewKey("_localHeads"))
	if err != nil {
		return false
	}
	var hs []*entry.Entry
	if err := json.Unmarshal(b, &hs); err != nil {
		return false
	}
	have := map[string]bool{}
	for _, h := range hs {
		have[h.GetHash().String()] = true
	}
	heads := ms.OpLog().Heads().Slice()
	if len(heads) != len(have) {
		return false
	}
	for _, h := range heads {
		if !have[h.GetHash().String()] {
			return false
		}
	}
	return true
}

func (w *vfcaWorld) ms() *MetadataStore {
	ag := w.s.getAccountGroup()
	if ag == nil {
		vfInfra("account group is not open")
	}
	return ag.MetadataStore()
}

// stop closes the service, the secret store, the IPFS node and the network; the two datastores stay
func (w *vfcaWorld) stop() {
	done := make(chan struct{})
	go func() {
		defer close(done)
		w.cleanup()
		_ = w.ss.Close()
		w.t.runCleanups()
		_ = w.mn.Close()
	}()
	select {
	case <-done:
	case <-time.After(60 * time.Second):
		vfInfra("service close hung")
	}
}

func (w *vfcaWorld) destroy() { w.stop() }

// call carries a unary RPC out on the handler itself or through the in-memory gRPC client; a panic of the
// handler is reported as its own error (the lifecycle clauses then treat the call as refused)
func vfcaCall[Q any, R any](w *vfcaWorld, d func(*service, context.Context, *Q) (*R, error),
	c func(protocoltypes.ProtocolServiceClient, context.Context, *Q, ...grpc.CallOption) (*R, error), req *Q) (rep *R, err error) {
	ctx, cancel := context.WithTimeout(w.ctx, 120*time.Second)
	defer cancel()
	defer func() {
		if ctx.Err() != nil { // an overloaded machine is not a refusal
			vfInfra("request did not return within 120s")
		}
	}()
	if w.grpc {
		return c(w.tp.Client, ctx, req)
	}
	defer func() {
		if x := recover(); x != nil {
			rep, err = nil, fmt.Errorf("VF-PANIC %v", x)
		}
	}()
	return d(w.s, ctx, req)
}

type vfcaPC = protocoltypes.ProtocolServiceClient

func (w *vfcaWorld) listRPC() []*protocoltypes.GroupMetadataEvent {
	req := &protocoltypes.GroupMetadataList_Request{GroupPk: w.acctPK, UntilNow: true}
	ctx, cancel := context.WithTimeout(w.ctx, 30*time.Second)
	defer cancel()
	if w.grpc {
		st, err := w.tp.Client.GroupMetadataList(ctx, req)
		if err != nil {
			vfInfra("GroupMetadataList: %v", err)
		}
		out := []*protocoltypes.GroupMetadataEvent{}
		for {
			m, err := st.Recv()
			if err == io.EOF {
				return out
			}
			if err != nil {
				vfInfra("GroupMetadataList stream: %v", err)
			}
			out = append(out, m)
		}
	}
	fs := &vfcaStream{ctx: ctx}
	if err := w.s.GroupMetadataList(req, &grpc.GenericServerStream[protocoltypes.GroupMetadataList_Request, protocoltypes.GroupMetadataEvent]{ServerStream: fs}); err != nil {
		vfInfra("GroupMetadataList: %v", err)
	}
	return fs.msgs
}

// ---------------------------------------------------------------- one script

type vfcaRun struct {
	w        *vfcaWorld
	contacts []*vfcaContact
	seeds    map[string]int // contact rendezvous seed bytes -> step that carried them
	metas    map[string]int
	owns     map[string]int
	acctSeed map[string]int  // account rendezvous seed bytes -> position of the reset event
	known    map[string]bool // entry hashes seen so far
	lastSeed map[string][]byte // contact name -> the seed bytes the last well-formed enqueue / incoming request carried
	n0       int             // entries of the account log that precede the script
	napp     int             // events appended by the script so far
}

func vfcaName(m map[string]int, b []byte) int {
	if len(b) == 0 {
		return 0
	}
	if v, ok := m[string(b)]; ok {
		return v
	}
	return -1
}

func (r *vfcaRun) subOf(pk []byte) string {
	if bytes.Equal(pk, r.w.selfRaw) {
		return "self"
	}
	for _, c := range r.contacts {
		if bytes.Equal(pk, c.raw) {
			return c.name
		}
	}
	return "?"
}

// decode one account-log event into its abstract description (what was appended, read from the entry itself)
func (r *vfcaRun) describe(typ protocoltypes.EventType, evt proto.Message) map[string]any {
	d := map[string]any{"k": "other", "sub": "-", "seed": 0, "meta": 0, "own": 0}
	if k, ok := vfcaEvKinds[typ]; ok {
		d["k"] = k
	}
	switch e := evt.(type) {
	case *protocoltypes.AccountContactRequestOutgoingEnqueued:
		if e.Contact != nil {
			d["sub"] = r.subOf(e.Contact.Pk)
			d["seed"], d["meta"] = vfcaName(r.seeds, e.Contact.PublicRendezvousSeed), vfcaName(r.metas, e.Contact.Metadata)
		} else {
			d["sub"] = "?"
		}
		d["own"] = vfcaName(r.owns, e.OwnMetadata)
	case *protocoltypes.AccountContactRequestIncomingReceived:
		d["sub"] = r.subOf(e.ContactPk)
		d["seed"], d["meta"] = vfcaName(r.seeds, e.ContactRendezvousSeed), vfcaName(r.metas, e.ContactMetadata)
	case *protocoltypes.AccountContactRequestOutgoingSent:
		d["sub"] = r.subOf(e.ContactPk)
	case *protocoltypes.AccountContactRequestIncomingDiscarded:
		d["sub"] = r.subOf(e.ContactPk)
	case *protocoltypes.AccountContactRequestIncomingAccepted:
		d["sub"] = r.subOf(e.ContactPk)
	case *protocoltypes.AccountContactBlocked:
		d["sub"] = r.subOf(e.ContactPk)
	case *protocoltypes.AccountContactUnblocked:
		d["sub"] = r.subOf(e.ContactPk)
	}
	return d
}

// appended returns the descriptions of the entries the account log gained since the last call (log order)
func (r *vfcaRun) appended() []map[string]any {
	ms := r.w.ms()
	out := []map[string]any{}
	for _, e := range ms.OpLog().Values().Slice() {
		h := e.GetHash().String()
		if r.known[h] {
			continue
		}
		r.known[h] = true
		meta, evt, err := vfOpenMetadataEntry(ms.OpLog(), e, ms.group)
		if err != nil {
			out = append(out, map[string]any{"k": "undecodable", "sub": "-", "seed": 0, "meta": 0, "own": 0})
			r.napp++
			continue
		}
		r.napp++
		if rs, ok := evt.(*protocoltypes.AccountContactRequestReferenceReset); ok {
			r.acctSeed[string(rs.PublicRendezvousSeed)] = r.napp
		}
		out = append(out, r.describe(meta.Metadata.EventType, evt))
	}
	return out
}

func (r *vfcaRun) logLen() int { return len(r.w.ms().OpLog().Values().Slice()) }

// report: what the service says about itself after a step
func (r *vfcaRun) report(ev map[string]any) {
	w := r.w
	m := w.ms()
	// ---- store view
	_, sh := m.GetIncomingContactRequestsStatus()
	sw := "none"
	if idx, ok := m.Index().(*metadataStoreIndex); ok {
		idx.lock.RLock()
		if idx.contactRequestEnabled != nil {
			if *idx.contactRequestEnabled {
				sw = "en"
			} else {
				sw = "dis"
			}
		}
		idx.lock.RUnlock()
	}
	seed := 0
	if sh != nil {
		seed = vfcaName(r.acctSeed, sh.PublicRendezvousSeed)
	}
	cs, cseed, cmeta, cown, bg := map[string]any{}, map[string]any{}, map[string]any{}, map[string]any{}, map[string]any{}
	sec, opn := map[string]any{}, map[string]any{}
	lc := m.ListContacts()
	listed := 0
	for _, c := range r.contacts {
		st := "U"
		ac, has := lc[string(c.raw)]
		if has {
			listed++
			st = vfcaStateNames[ac.state]
		}
		// the per-status listing must agree with the full listing
		for stv, nm := range vfcaStateNames {
			if stv == protocoltypes.ContactState_ContactStateUndefined {
				continue
			}
			for _, x := range m.ListContactsByStatus(stv) {
				if bytes.Equal(x.Pk, c.raw) && nm != st {
					st = st + "/" + nm
				}
			}
		}
		cs[c.name] = st
		cseed[c.name], cmeta[c.name], cown[c.name] = 0, 0, 0
		if has && ac.contact != nil {
			cseed[c.name], cmeta[c.name] = vfcaName(r.seeds, ac.contact.PublicRendezvousSeed), vfcaName(r.metas, ac.contact.Metadata)
		}
		if om, err := m.GetRequestOwnMetadataForContact(c.raw); err == nil {
			cown[c.name] = vfcaName(r.owns, om)
		}
		// lookup by contact-group key: the same contact, or nothing for a key that is no contact
		g := m.GetContactFromGroupPK(c.graw)
		switch {
		case g == nil && !has:
			bg[c.name] = "ok"
		case g != nil && has && ac.contact != nil && bytes.Equal(g.Pk, c.raw) && bytes.Equal(g.PublicRendezvousSeed, ac.contact.PublicRendezvousSeed) && bytes.Equal(g.Metadata, ac.contact.Metadata):
			bg[c.name] = "ok"
		default:
			bg[c.name] = "diff"
		}
		_, ferr := w.s.secretStore.FetchGroupByPublicKey(w.ctx, c.gpk)
		sec[c.name] = ferr == nil
		w.s.lock.RLock()
		_, o := w.s.openedGroups[string(c.graw)]
		w.s.lock.RUnlock()
		opn[c.name] = o
	}
	self := "U"
	if ac, has := lc[string(w.selfRaw)]; has {
		self = vfcaStateNames[ac.state]
		listed++
	}
	ev["st"] = map[string]any{"sw": sw, "seed": seed, "cs": cs, "cseed": cseed, "cmeta": cmeta, "cown": cown, "bg": bg,
		"self": self, "extra": len(lc) - listed}
	ev["sec"], ev["opn"] = sec, opn
	// ---- RPC view
	ref, err := vfcaCall(w, (*service).ContactRequestReference, vfcaPC.ContactRequestReference, &protocoltypes.ContactRequestReference_Request{})
	if err != nil {
		vfInfra("ContactRequestReference: %v", err)
	}
	list := []string{}
	for i, e := range w.listRPC() {
		if i < r.n0 {
			continue
		}
		d := map[string]any{"k": "undecodable", "sub": "-"}
		if e.Metadata != nil {
			if _, evt, oerr := openGroupEnvelopeForVerif(m, e); oerr == nil {
				d = r.describe(e.Metadata.EventType, evt)
			}
		}
		list = append(list, fmt.Sprintf("%v:%v", d["k"], d["sub"]))
	}
	ev["rpc"] = map[string]any{"en": ref.Enabled, "seed": vfcaName(r.acctSeed, ref.PublicRendezvousSeed), "list": list}
}

// the event payload of a listed GroupMetadataEvent (the RPC already opened the envelope: Event is the clear event)
func openGroupEnvelopeForVerif(m *MetadataStore, e *protocoltypes.GroupMetadataEvent) (*protocoltypes.GroupMetadata, proto.Message, error) {
	var msg proto.Message
	switch e.Metadata.EventType {
	case protocoltypes.EventType_EventTypeAccountContactRequestOutgoingEnqueued:
		msg = &protocoltypes.AccountContactRequestOutgoingEnqueued{}
	case protocoltypes.EventType_EventTypeAccountContactRequestOutgoingSent:
		msg = &protocoltypes.AccountContactRequestOutgoingSent{}
	case protocoltypes.EventType_EventTypeAccountContactRequestIncomingReceived:
		msg = &protocoltypes.AccountContactRequestIncomingReceived{}
	case protocoltypes.EventType_EventTypeAccountContactRequestIncomingDiscarded:
		msg = &protocoltypes.AccountContactRequestIncomingDiscarded{}
	case protocoltypes.EventType_EventTypeAccountContactRequestIncomingAccepted:
		msg = &protocoltypes.AccountContactRequestIncomingAccepted{}
	case protocoltypes.EventType_EventTypeAccountContactBlocked:
		msg = &protocoltypes.AccountContactBlocked{}
	case protocoltypes.EventType_EventTypeAccountContactUnblocked:
		msg = &protocoltypes.AccountContactUnblocked{}
	default:
		return e.Metadata, nil, nil
	}
	if err := proto.Unmarshal(e.Event, msg); err != nil {
		return nil, nil, err
	}
	return e.Metadata, msg, nil
}

func vfcaCodes(err error) []string {
	out := []string{}
	if err == nil {
		return out
	}
	if strings.Contains(err.Error(), "VF-PANIC") {
		return []string{"PANIC"}
	}
	for _, c := range errcode.Codes(err) {
		out = append(out, c.String())
	}
	if len(out) == 0 {
		out = append(out, "uncoded")
	}
	return out
}

func vfcaBytes(n int) []byte {
	b := make([]byte, n)
	crand.Read(b)
	return b
}

func vfcaScriptRun(t testing.TB, sc vfScript) []map[string]any {
	via, _ := sc.Cfg["via"].(string)
	tOpen := time.Now()
	w := vfcaNewWorld(t, via == "grpc")
	defer w.destroy()
	openMS := time.Since(tOpen).Milliseconds()
	r := &vfcaRun{w: w, seeds: map[string]int{}, metas: map[string]int{}, owns: map[string]int{}, acctSeed: map[string]int{}, known: map[string]bool{}}
	nc, _ := vfNum(sc.Cfg, "contacts")
	for i := 0; i < nc; i++ {
		_, pk, _ := crypto.GenerateEd25519Key(crand.Reader)
		raw, _ := pk.Raw()
		g, err := w.ss.GetGroupForContact(pk)
		if err != nil {
			vfInfra("contact group: %v", err)
		}
		gpk, err := g.GetPubKey()
		if err != nil {
			vfInfra("contact group key: %v", err)
		}
		r.contacts = append(r.contacts, &vfcaContact{name: fmt.Sprintf("c%d", i+1), pk: pk, raw: raw, gpk: gpk, graw: g.PublicKey})
	}
	r.appended() // the entries of the set-up are not the script's
	r.n0, r.napp = r.logLen(), 0
	out := []map[string]any{{"ev": "reset", "id": sc.ID}}
	init := map[string]any{"ev": "init", "via": via, "n0": r.n0, "ms": openMS}
	tRep := time.Now()
	r.report(init)
	init["rms"] = time.Since(tRep).Milliseconds()
	out = append(out, init)
	for i0, st := range sc.Steps {
		i := i0 + 1
		ev := map[string]any{"ev": st.Act, "i": i}
		tAct := time.Now()
		switch st.Act {
		case "restart":
			ev["ph"] = w.headsPersisted() // what a restart will load is what the log holds (sequential requests: always)
			w.stop()
			w.open(false)
			ev["grew"] = len(r.appended())
		case "op":
			ev["s"], ev["x"], ev["c"] = st.S, st.X, "-"
			op, variant := st.S, ""
			if k := strings.Index(st.S, "!"); k >= 0 {
				op, variant = st.S[:k], st.S[k+1:]
			}
			ev["op"], ev["v"] = op, variant
			var c *vfcaContact
			if st.X >= 1 && st.X <= len(r.contacts) {
				c = r.contacts[st.X-1]
				ev["c"] = c.name
			}
			before := r.logLen()
			var err error
			reply := map[string]any{}
			// the key bytes an RPC that names a contact by key receives
			keyBytes := func() []byte {
				switch variant {
				case "self":
					return w.selfRaw
				case "badkey":
					return c.raw[:16]
				case "longkey":
					return append(append([]byte{}, c.raw...), 7)
				case "nokey":
					return nil
				}
				return c.raw
			}
			// the shareable contact of enqueue / incoming received
			shareable := func() *protocoltypes.ShareableContact {
				sd := vfcaBytes(32)
				// "sameseed": the request carries the seed the previous request for this contact carried (a re-send
				// with other metadata); the seed keeps its first symbolic name
				// "sameseed": the seed the store currently reports for this contact (nothing reported: a fresh one)
				var prev []byte
				if c != nil {
					if ac, has := r.w.ms().ListContacts()[string(c.raw)]; has && ac.contact != nil && len(ac.contact.PublicRendezvousSeed) > 0 {
						prev = ac.contact.PublicRendezvousSeed
					}
				}
				if variant == "sameseed" && prev != nil {
					sd = prev
				} else {
					r.seeds[string(sd)] = i
				}
				if c != nil && (variant == "" || variant == "sameseed") {
					if r.lastSeed == nil {
						r.lastSeed = map[string][]byte{}
					}
					r.lastSeed[c.name] = sd
				}
				sh := &protocoltypes.ShareableContact{Pk: keyBytes(), PublicRendezvousSeed: sd}
				arg := map[string]any{"seed": r.seeds[string(sd)], "meta": 0, "own": 0}
				if st.Y&1 != 0 {
					sh.Metadata = []byte(fmt.Sprintf("meta-%d-%d", sc.ID, i))
					r.metas[string(sh.Metadata)] = i
					arg["meta"] = i
				}
				switch variant {
				case "noseed":
					sh.PublicRendezvousSeed = nil
					arg["seed"] = 0
				case "shortseed":
					sh.PublicRendezvousSeed = sd[:16]
					r.seeds[string(sd[:16])] = i
				case "longseed":
					sh.PublicRendezvousSeed = append(sd, 1)
					r.seeds[string(sh.PublicRendezvousSeed)] = i
				}
				ev["arg"] = arg
				return sh
			}
			switch op {
			case "enq":
				req := &protocoltypes.ContactRequestSend_Request{}
				if variant != "nil" {
					req.Contact = shareable()
				} else {
					ev["arg"] = map[string]any{"seed": 0, "meta": 0, "own": 0}
				}
				if st.Y&2 != 0 {
					req.OwnMetadata = []byte(fmt.Sprintf("own-%d-%d", sc.ID, i))
					r.owns[string(req.OwnMetadata)] = i
					ev["arg"].(map[string]any)["own"] = i
				}
				_, err = vfcaCall(w, (*service).ContactRequestSend, vfcaPC.ContactRequestSend, req)
			case "recv":
				_, err = w.ms().ContactRequestIncomingReceived(w.ctx, shareable())
			case "sent":
				pk := c.pk
				if variant == "self" {
					pk = w.selfPK
				}
				_, err = w.ms().ContactRequestOutgoingSent(w.ctx, pk)
			case "acc":
				_, err = vfcaCall(w, (*service).ContactRequestAccept, vfcaPC.ContactRequestAccept, &protocoltypes.ContactRequestAccept_Request{ContactPk: keyBytes()})
			case "disc":
				_, err = vfcaCall(w, (*service).ContactRequestDiscard, vfcaPC.ContactRequestDiscard, &protocoltypes.ContactRequestDiscard_Request{ContactPk: keyBytes()})
			case "blk":
				_, err = vfcaCall(w, (*service).ContactBlock, vfcaPC.ContactBlock, &protocoltypes.ContactBlock_Request{ContactPk: keyBytes()})
			case "unb":
				_, err = vfcaCall(w, (*service).ContactUnblock, vfcaPC.ContactUnblock, &protocoltypes.ContactUnblock_Request{ContactPk: keyBytes()})
			case "en":
				var rep *protocoltypes.ContactRequestEnable_Reply
				if rep, err = vfcaCall(w, (*service).ContactRequestEnable, vfcaPC.ContactRequestEnable, &protocoltypes.ContactRequestEnable_Request{}); err == nil {
					reply["seedraw"] = rep.PublicRendezvousSeed
				}
			case "dis":
				_, err = vfcaCall(w, (*service).ContactRequestDisable, vfcaPC.ContactRequestDisable, &protocoltypes.ContactRequestDisable_Request{})
			case "rs":
				var rep *protocoltypes.ContactRequestResetReference_Reply
				if rep, err = vfcaCall(w, (*service).ContactRequestResetReference, vfcaPC.ContactRequestResetReference, &protocoltypes.ContactRequestResetReference_Request{}); err == nil {
					reply["seedraw"] = rep.PublicRendezvousSeed
				}
			case "ref":
				var rep *protocoltypes.ContactRequestReference_Reply
				if rep, err = vfcaCall(w, (*service).ContactRequestReference, vfcaPC.ContactRequestReference, &protocoltypes.ContactRequestReference_Request{}); err == nil {
					reply["seedraw"], reply["en"] = rep.PublicRendezvousSeed, rep.Enabled
				}
			case "share":
				// ShareContact, its reply decoded by DecodeContact
				var rep *protocoltypes.ShareContact_Reply
				if rep, err = vfcaCall(w, (*service).ShareContact, vfcaPC.ShareContact, &protocoltypes.ShareContact_Request{}); err == nil {
					var dec *protocoltypes.DecodeContact_Reply
					dec, err = vfcaCall(w, (*service).DecodeContact, vfcaPC.DecodeContact, &protocoltypes.DecodeContact_Request{EncodedContact: rep.EncodedContact})
					if err == nil && dec.Contact != nil {
						reply["seedraw"], reply["self"] = dec.Contact.PublicRendezvousSeed, bytes.Equal(dec.Contact.Pk, w.selfRaw)
					} else if err == nil {
						reply["seedraw"], reply["self"] = []byte(nil), false
					}
				}
			default:
				vfInfra("unknown operation %q", st.S)
			}
			app := r.appended()
			ev["ok"] = err == nil
			ev["codes"] = vfcaCodes(err)
			ev["grew"] = r.logLen() - before
			ev["app"] = app
			if raw, ok := reply["seedraw"]; ok {
				reply["seed"] = vfcaName(r.acctSeed, raw.([]byte))
				delete(reply, "seedraw")
			}
			ev["reply"] = reply
		default:
			vfInfra("unknown action %q", st.Act)
		}
		ev["ms"] = time.Since(tAct).Milliseconds()
		tRep := time.Now()
		r.report(ev)
		ev["rms"] = time.Since(tRep).Milliseconds()
		out = append(out, ev)
	}
	return out
}

// Probe (not part of the verdict): requests issued IMMEDIATELY after the service started race with the account
// group's own asynchronous set-up append (chain key); counts how often the restarted service lost them.
func TestVerifContactApiStartRace(t *testing.T) {
	n := vfEnvInt("VERIF_RACE_N", 0)
	if n == 0 {
		t.Skip("VERIF_RACE_N not set")
	}
	lost, stale := 0, 0
	for i := 0; i < n; i++ {
		w := &vfcaWorld{t: &vfcaTB{TB: t}, ctx: context.Background(), nowait: true,
			dsRoot: dssync.MutexWrap(datastore.NewMapDatastore()), dsSS: dssync.MutexWrap(datastore.NewMapDatastore())}
		w.open(true)
		_, pk, _ := crypto.GenerateEd25519Key(crand.Reader)
		raw, _ := pk.Raw()
		_, err := w.s.ContactBlock(w.ctx, &protocoltypes.ContactBlock_Request{ContactPk: raw})
		if err != nil {
			vfInfra("block: %v", err)
		}
		time.Sleep(300 * time.Millisecond) // let the set-up finish
		before := len(w.ms().OpLog().Values().Slice())
		okHeads := w.headsPersisted()
		w.stop()
		w.nowait = false
		w.open(false)
		_, has := w.ms().ListContacts()[string(raw)]
		after := len(w.ms().OpLog().Values().Slice())
		if !okHeads {
			stale++
		}
		if !has {
			lost++
		}
		fmt.Printf("VF-RACE run=%d entries before restart=%d after=%d persisted heads current=%v blocked contact still reported=%v\n", i, before, after, okHeads, has)
		w.destroy()
	}
	fmt.Printf("VF-RACE-SUMMARY runs=%d stale_persisted_heads=%d block_lost_after_restart=%d\n", n, stale, lost)
}

func TestVerifContactApi(t *testing.T) {
	scripts := vfLoadScripts(t)
	tr := vfOpenTrace(t)
	defer tr.Close()
	t0 := time.Now()
	// go-ipfs-log initialises its CBOR atlas lazily without synchronisation: one serial service start
	// (it appends to the account log) before the workers begin
	{
		w0 := vfcaNewWorld(t, false)
		if _, err := w0.ms().ContactRequestEnable(context.Background()); err != nil {
			vfInfra("warm-up write: %v", err)
		}
		w0.destroy()
	}
	var wg sync.WaitGroup
	var done atomic.Int64
	ch := make(chan vfScript, 16)
	for k := 0; k < vfEnvInt("VERIF_WORKERS", 4); k++ {
		wg.Add(1)
		go func() {
			defer wg.Done()
			for sc := range ch {
				tr.EmitBlock(vfcaScriptRun(t, sc))
				done.Add(1)
			}
		}()
	}
	for _, sc := range scripts {
		ch <- sc
	}
	close(ch)
	wg.Wait()
	if int(done.Load()) != len(scripts) {
		vfInfra("only %d of %d scripts were completed", done.Load(), len(scripts))
	}
	t.Logf("VERIF-DONE scripts=%d events=%d wall=%s", len(scripts), tr.n, time.Since(t0))
}
