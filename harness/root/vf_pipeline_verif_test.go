//go:build verif

package weshnet

// Driver for specs/MessagePipeline.tla (C08): a hand-built MessageStore (real secret
// store, real queues, real event bus; no orbit-db underneath) whose message pipeline
// runs from instrumented copies of store_message.go, internal/queue/simple.go and
// internal/queue/priority.go under the cooperative scheduler.  Schedules come from TLC.

import (
	"bytes"
	"context"
	"fmt"
	"sort"
	"testing"

	"github.com/ipfs/go-cid"
	"github.com/ipfs/go-datastore"
	dssync "github.com/ipfs/go-datastore/sync"
	"github.com/libp2p/go-libp2p/core/crypto"
	"github.com/libp2p/go-libp2p/p2p/host/eventbus"
	mh "github.com/multiformats/go-multihash"
	"github.com/prometheus/client_golang/prometheus"
	"go.uber.org/zap"
	"google.golang.org/protobuf/proto"

	"berty.tech/go-ipfs-log/entry"
	"berty.tech/go-orbit-db/stores/operation"
	"berty.tech/weshnet/v2/internal/verifsched"
	"berty.tech/weshnet/v2/pkg/protocoltypes"
	"berty.tech/weshnet/v2/pkg/secretstore"
)

type vfPMsg struct {
	name    string
	dev     string
	ctr     int
	env     []byte
	payload []byte
	entry   *entry.Entry
}

func vfPMust(err error, what string) {
	if err != nil {
		vfInfra("%s: %v", what, err)
	}
}

func vfPipelineRun(sc vfScript) []map[string]any {
	ctx0 := context.Background()
	arrAny, _ := sc.Cfg["arr"].([]any)
	regsAny, _ := sc.Cfg["regs"].([]any)
	knownAny, _ := sc.Cfg["known"].([]any)
	withCancel, _ := vfBool(sc.Cfg, "cancel")
	regAt, _ := sc.Cfg["regat"].(map[string]any) // device -> number of messages sealed before its chain key is announced
	devOf, _ := sc.Cfg["devof"].(map[string]any)
	ctrOf, _ := sc.Cfg["ctrof"].(map[string]any)
	rnd := vfRand(int64(sc.ID))

	g, _, err := protocoltypes.NewGroupMultiMember()
	vfPMust(err, "group")
	gpk, err := g.GetPubKey()
	vfPMust(err, "group pk")
	newStore := func() secretstore.SecretStore {
		ss, err := secretstore.NewSecretStore(dssync.MutexWrap(datastore.NewMapDatastore()), nil)
		vfPMust(err, "secret store")
		vfPMust(ss.PutGroup(ctx0, g), "put group")
		return ss
	}
	// scenarios with win > 0: the receiver precomputes only win keys (ratchet window of C02)
	win, _ := vfNum(sc.Cfg, "win")
	recv := newStore()
	if win > 0 {
		recv, err = secretstore.NewSecretStore(dssync.MutexWrap(datastore.NewMapDatastore()), &secretstore.NewSecretStoreOptions{PreComputedKeysCount: win})
		vfPMust(err, "secret store (window)")
		vfPMust(recv.PutGroup(ctx0, g), "put group")
	}
	romd, err := recv.GetOwnMemberDeviceForGroup(g)
	vfPMust(err, "own member device")

	// senders: one store per device; announcement taken before anything is sealed
	devs := map[string]bool{}
	var arr []string
	for _, a := range arrAny {
		arr = append(arr, a.(string))
		devs[devOf[a.(string)].(string)] = true
	}
	for _, d := range regsAny {
		devs[d.(string)] = true
	}
	for _, d := range knownAny {
		devs[d.(string)] = true
	}
	senders := map[string]secretstore.SecretStore{}
	sdev := map[string]crypto.PubKey{}
	anns := map[string][]byte{}
	byDevRaw := map[string]string{}
	var devNames []string
	for d := range devs {
		devNames = append(devNames, d)
	}
	sort.Strings(devNames)
	for _, d := range devNames {
		s := newStore()
		senders[d] = s
		omd, err := s.GetOwnMemberDeviceForGroup(g)
		vfPMust(err, "sender member device")
		sdev[d] = omd.Device()
		raw, _ := omd.Device().Raw()
		byDevRaw[string(raw)] = d
		if k, _ := vfNum(regAt, d); k == 0 {
			anns[d], err = s.GetShareableChainKey(ctx0, g, romd.Member())
			vfPMust(err, "announcement")
		}
	}
	// seal the messages of each device in counter order
	msgs := map[string]*vfPMsg{}
	for _, d := range devNames {
		var mine []string
		for _, a := range arr {
			if devOf[a].(string) == d {
				mine = append(mine, a)
			}
		}
		sort.Slice(mine, func(i, j int) bool { return ctrOf[mine[i]].(float64) < ctrOf[mine[j]].(float64) })
		next := 1
		late, _ := vfNum(regAt, d)
		announce := func() {
			// a late announcement: taken once `late` messages have been sealed (they can never be opened with it)
			if anns[d] == nil && next-1 >= late {
				var err error
				anns[d], err = senders[d].GetShareableChainKey(ctx0, g, romd.Member())
				vfPMust(err, "late announcement")
			}
		}
		for _, a := range mine {
			want := int(ctrOf[a].(float64))
			for ; next < want; next++ { // counters skipped by the scenario: sealed but never delivered
				announce()
				_, err := senders[d].SealEnvelope(ctx0, g, []byte{})
				vfPMust(err, "seal filler")
			}
			announce()
			payload := vfPayload(rnd, sc.ID+next)
			mb, _ := proto.Marshal(&protocoltypes.EncryptedMessage{Plaintext: payload})
			env, err := senders[d].SealEnvelope(ctx0, g, mb)
			vfPMust(err, "seal")
			next++
			op := operation.NewOperation(nil, "ADD", env)
			ob, err := op.Marshal()
			vfPMust(err, "marshal op")
			h, _ := mh.Sum(env, mh.SHA2_256, -1)
			e := &entry.Entry{}
			e.SetPayload(ob)
			e.SetHash(cid.NewCidV1(cid.Raw, h))
			msgs[a] = &vfPMsg{name: a, dev: d, ctr: want, env: env, payload: payload, entry: e}
		}
		for anns[d] == nil { // announced after everything the scenario delivers
			if next-1 >= late {
				announce()
			} else {
				_, err := senders[d].SealEnvelope(ctx0, g, []byte{})
				vfPMust(err, "seal filler")
				next++
			}
		}
	}
	for _, d := range knownAny {
		vfPMust(recv.RegisterChainKey(ctx0, g, sdev[d.(string)], anns[d.(string)]), "register known")
	}

	// the message store, by hand
	bus := eventbus.NewBus()
	tracer := newMessageMetricsTracer(prometheus.NewRegistry())
	ctx, cancel := context.WithCancel(ctx0)
	defer cancel()
	ms := &MessageStore{
		eventBus:       bus,
		secretStore:    recv,
		messagesQueue:  newMessageQueue("cache", tracer),
		group:          g,
		groupPublicKey: gpk,
		logger:         zap.NewNop(),
		deviceCaches:   make(map[string]*groupCache),
		ctx:            ctx,
		cancel:         cancel,
	}
	ms.currentDevicePublicKey = romd.Device()
	ms.currentDevicePublicKeyRaw, _ = romd.Device().Raw()
	ms.emitters.groupMessage, err = bus.Emitter(new(*protocoltypes.GroupMessageEvent))
	vfPMust(err, "emitter")
	ms.emitters.groupCacheMessage, err = bus.Emitter(new(messageItem))
	vfPMust(err, "emitter")
	sub, err := bus.Subscribe(new(*protocoltypes.GroupMessageEvent), eventbus.BufSize(256))
	vfPMust(err, "subscribe")
	defer sub.Close()
	subc, err := bus.Subscribe(new(messageItem), eventbus.BufSize(256))
	vfPMust(err, "subscribe")
	defer subc.Close()

	c := verifsched.New()
	arrived := []string{}
	c.Spawn("arr", func() {
		for _, a := range arr {
			if err := ms.addToMessageQueue(ctx, msgs[a].entry); err != nil {
				vfInfra("addToMessageQueue: %v", err)
			}
			arrived = append(arrived, a)
		}
	})
	c.Spawn("loop", func() { ms.processMessageLoop(ctx, tracer) })
	// the context of whoever calls ProcessMessageQueueForDevicePK (a group context, an RPC) is not the store's:
	// with "kcancel" it is cancelled by its own thread at any moment while the store lives on
	kctx := ctx
	if kc, _ := vfBool(sc.Cfg, "kcancel"); kc {
		var kcancel context.CancelFunc
		kctx, kcancel = context.WithCancel(ctx0)
		defer kcancel()
		c.Spawn("kc", func() {
			verifsched.Point("kc_cancel")
			kcancel()
		})
	}
	for _, d := range regsAny {
		d := d.(string)
		c.Spawn("k_"+d, func() {
			verifsched.Point("k_reg")
			if err := recv.RegisterChainKey(ctx, g, sdev[d], anns[d]); err != nil {
				vfInfra("register: %v", err)
			}
			raw, _ := sdev[d].Raw()
			ms.ProcessMessageQueueForDevicePK(kctx, raw)
		})
	}
	if withCancel {
		c.Spawn("cancel", func() {
			verifsched.Point("c_cancel")
			cancel()
		})
	}

	scen, _ := vfNum(sc.Cfg, "scen")
	out := []map[string]any{{"ev": "reset", "id": sc.ID}, {"ev": "cfg", "scen": scen}}
	delivered := []map[string]any{}
	ncached := 0
	drain := func() []map[string]any {
		var fresh []map[string]any
		for {
			select {
			case e := <-sub.Out():
				evt := e.(*protocoltypes.GroupMessageEvent)
				d := byDevRaw[string(evt.Headers.DevicePk)]
				name := "?"
				same := false
				for _, m := range msgs {
					if m.dev == d && m.ctr == int(evt.Headers.Counter) {
						name = m.name
						same = bytes.Equal(evt.Message, m.payload) && bytes.Equal(evt.EventContext.Id, m.entry.GetHash().Bytes())
					}
				}
				r := map[string]any{"m": name, "dev": d, "ctr": int(evt.Headers.Counter), "same": same}
				delivered = append(delivered, r)
				fresh = append(fresh, r)
				continue
			case <-subc.Out():
				ncached++
				continue
			default:
			}
			return fresh
		}
	}
	known := func() []string {
		k := []string{}
		for _, d := range devNames {
			if recv.IsChainKeyKnownForDevice(ctx0, gpk, sdev[d]) {
				k = append(k, d)
			}
		}
		return k
	}
	emit := func(r verifsched.Rec, ok bool) {
		fresh := drain()
		if fresh == nil {
			fresh = []map[string]any{}
		}
		out = append(out, map[string]any{"ev": "step", "t": r.Thread, "from": r.From, "to": r.To, "p": r.Progress, "ok": ok,
			"new": fresh, "ndeliv": len(delivered), "ncached": ncached, "known": known()})
	}
	for _, st := range sc.Steps {
		r, ok := c.Step(st.D)
		emit(r, ok)
	}
	extra := 0
	for extra < 1000 {
		progressed := false
		for _, n := range c.Names() {
			if c.States()[n].Kind != "gate" {
				continue
			}
			r, ok := c.Step(n)
			extra++
			if ok && r.Progress {
				progressed = true
				emit(r, ok)
			}
		}
		if !progressed {
			break
		}
	}
	st := c.States()
	drain()
	regOut := map[string]any{}
	for _, d := range devNames {
		k, _ := vfNum(regAt, d)
		regOut[d] = k
	}
	fin := map[string]any{"ev": "final", "extra": extra, "livelock": extra >= 1000, "known": known(), "arrived": arrived, "win": win, "ctrof": ctrOf, "regat": regOut}
	atgate, parkedT := []string{}, []string{}
	th := map[string]any{}
	for n, s := range st {
		th[n] = s.Kind + ":" + s.Label
		if s.Kind == "gate" {
			atgate = append(atgate, n)
		}
		if s.Kind == "blocked" {
			parkedT = append(parkedT, n)
		}
	}
	sort.Strings(atgate)
	sort.Strings(parkedT)
	fin["threads"], fin["atgate"], fin["blocked"] = th, atgate, parkedT
	// what is left behind: main queue and per-device caches (destructive reads at quiescence: every
	// thread is parked, finished or - in a deadlock - holding a lock, in which case nothing is read)
	defer func() {
		c.Close()
		cancel()
	}()
	if len(atgate) > 0 {
		fin["inqueue"], fin["parked"], fin["delivered"], fin["devof"] = []string{}, []string{}, []string{}, map[string]any{}
		out = append(out, fin)
		return out
	}
	nameOf := func(it *messageItem) string {
		d := byDevRaw[string(it.headers.DevicePk)]
		for _, m := range msgs {
			if m.dev == d && m.ctr == int(it.headers.Counter) {
				return m.name
			}
		}
		return "?"
	}
	inq := []string{}
	for {
		it, ok := ms.messagesQueue.Pop()
		if !ok {
			break
		}
		inq = append(inq, nameOf(it))
	}
	parked := []string{}
	ms.muDeviceCaches.Lock()
	for _, dc := range ms.deviceCaches {
		for {
			it := dc.queue.Next()
			if it == nil {
				break
			}
			parked = append(parked, nameOf(it))
		}
	}
	ms.muDeviceCaches.Unlock()
	sort.Strings(parked)
	names := []string{}
	for _, r := range delivered {
		names = append(names, r["m"].(string))
	}
	fin["inqueue"], fin["parked"], fin["delivered"] = inq, parked, names
	dv := map[string]any{}
	for _, m := range msgs {
		dv[m.name] = m.dev
	}
	fin["devof"] = dv
	out = append(out, fin)
	return out
}

func TestVerifPipelineSched(t *testing.T) {
	scripts := vfLoadScripts(t)
	tr := vfOpenTrace(t)
	defer tr.Close()
	for _, sc := range scripts {
		tr.EmitBlock(vfPipelineRun(sc))
	}
	t.Logf("VERIF-DONE scripts=%d events=%d", len(scripts), tr.n)
}

var _ = fmt.Sprintf
