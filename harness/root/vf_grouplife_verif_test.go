//go:build verif

package weshnet

// Driver for specs/GroupLife.tla (the service's group lifecycle; NOT one of the listed properties,
// see checks/grouplife.py).
//
// One REAL in-process protocol service per script (NewTestingProtocol, mocked IPFS, in-memory
// datastore).  Three groups: "A" the account group, "C" the contact group of one contact whose request
// was received during set-up, "M" a multi-member group (bound to a pre-generated invitation until
// MultiMemberGroupCreate binds it to the group it created).  Two clients issue requests by calling the
// handler methods directly (recover() around every call):
//
//	start  x=client s=op d=group y=localOnly   run the request in its own goroutine until it completes
//	                                           or parks at a gate (zz_vfgl_verif.go)
//	step   x=client                            release the parked request until its next gate / its reply
//	run    a.ops=[{s,d,y}..]                   1 or 2 requests, ungated, started together, joined
//	cancel                                     the client of the open-ended stream goes away
//
// After every step one ndjson line: reply class per request (ok | err:<outer>/<inner code> | panic |
// hang | at:<gate>), and the projection of the service state read under the service's own lock.

import (
	"bytes"
	"context"
	crand "crypto/rand"
	"fmt"
	"io"
	"os"
	"runtime"
	"runtime/debug"
	"sort"
	"strconv"
	"strings"
	"sync"
	"testing"
	"time"

	"github.com/libp2p/go-libp2p/core/crypto"
	mocknet "github.com/libp2p/go-libp2p/p2p/net/mock"
	"google.golang.org/grpc"
	"google.golang.org/grpc/metadata"

	"berty.tech/weshnet/v2/pkg/errcode"
	"berty.tech/weshnet/v2/pkg/protocoltypes"
	"berty.tech/weshnet/v2/pkg/tinder"
)

// ---------------------------------------------------------------- goroutine bookkeeping

func vfglGoid() int64 {
	var buf [64]byte
	n := runtime.Stack(buf[:], false)
	f := strings.Fields(string(buf[:n]))
	if len(f) < 2 {
		return -1
	}
	id, _ := strconv.ParseInt(f[1], 10, 64)
	return id
}

func vfglStacks() []string {
	buf := make([]byte, 4<<20)
	for {
		n := runtime.Stack(buf, true)
		if n < len(buf) {
			return strings.Split(string(buf[:n]), "\n\n")
		}
		buf = make([]byte, 2*len(buf))
	}
}

// number of goroutines with a frame of the given function
func vfglCount(stacks []string, fn string) int {
	n := 0
	for _, s := range stacks {
		if strings.Contains(s, fn) {
			n++
		}
	}
	return n
}

// goroutines that run code of the root package (not the driver's own): histogram by innermost root-package frame
func vfglRootFrames(stacks []string) (int, map[string]int) {
	hist := map[string]int{}
	total := 0
	for _, s := range stacks {
		if strings.Contains(s, "berty.tech/weshnet/v2.vfgl") || strings.Contains(s, "berty.tech/weshnet/v2.TestVerif") {
			continue
		}
		for _, l := range strings.Split(s, "\n") {
			if strings.HasPrefix(l, "berty.tech/weshnet/v2.") {
				if i := strings.LastIndex(l, "("); i > 0 {
					l = l[:i]
				}
				hist[strings.TrimPrefix(l, "berty.tech/weshnet/v2.")]++
				total++
				break
			}
		}
	}
	return total, hist
}

// ---------------------------------------------------------------- stream sink

type vfglStream struct {
	ctx    context.Context
	mu     sync.Mutex
	n      int
	filter func(m any) bool
}

func (f *vfglStream) SetHeader(metadata.MD) error  { return nil }
func (f *vfglStream) SendHeader(metadata.MD) error { return nil }
func (f *vfglStream) SetTrailer(metadata.MD)       {}
func (f *vfglStream) Context() context.Context     { return f.ctx }
func (f *vfglStream) RecvMsg(any) error            { return io.EOF }
func (f *vfglStream) SendMsg(m any) error {
	f.mu.Lock()
	defer f.mu.Unlock()
	if err := f.ctx.Err(); err != nil {
		return err
	}
	if f.filter == nil || f.filter(m) {
		f.n++
	}
	return nil
}
func (f *vfglStream) count() int { f.mu.Lock(); defer f.mu.Unlock(); return f.n }

// ---------------------------------------------------------------- world

type vfglReply struct {
	R     string // ok | err:<codes> | panic | hang | at:<gate>
	N     int
	Stack string
	Site  string
	Msg   string
}

type vfglOp struct {
	Op string
	G  string
	Lo bool
}

type vfglClient struct {
	id     int
	op     vfglOp
	busy   bool
	atGate bool
	gate   chan struct{}
	parked chan string
	done   chan vfglReply
}

type vfglWorld struct {
	t       testing.TB
	ctx     context.Context
	tp      *TestingProtocol
	cleanup func()
	s       *service
	acctPK  []byte
	cPK     crypto.PubKey
	cRaw    []byte
	gC      *protocoltypes.Group
	gM      *protocoltypes.Group
	mBound  bool
	closed  bool
	cl      map[int]*vfglClient
	gmu     sync.Mutex
	goids   map[int64]*vfglClient
	payload int
	libGate bool // this script also gates go-orbit-db's AddOperation between the log append and the cache write
	nsub0   int // handler goroutines that were there before this script's service was started (left by an earlier script)

	strmOn     bool
	strmG      string
	strmCancel context.CancelFunc
	strmSink   *vfglStream
	strmDone   chan vfglReply
	strmEnded  bool
	strmRes    string
}

const vfglHangAfter = 45 * time.Second

func vfglMust(err error, what string) {
	if err != nil {
		vfInfra("setup: %s: %v", what, err)
	}
}

func vfglNewWorld(t testing.TB) *vfglWorld {
	ctx := context.Background()
	nsub0 := vfglCount(vfglStacks(), "(*GroupContext).ActivateGroupContext.func1")
	mn := mocknet.New()
	tp, cleanup := NewTestingProtocol(ctx, t, &TestingOpts{Mocknet: mn, DiscoveryServer: tinder.NewMockDriverServer()}, nil)
	w := &vfglWorld{t: t, ctx: ctx, tp: tp, s: tp.Service.(*service), cl: map[int]*vfglClient{}, goids: map[int64]*vfglClient{}}
	w.cleanup = func() { cleanup(); _ = mn.Close() }
	w.nsub0 = nsub0
	vfglQuiesce()
	cfg, err := w.s.ServiceGetConfiguration(ctx, &protocoltypes.ServiceGetConfiguration_Request{})
	vfglMust(err, "configuration")
	w.acctPK = cfg.AccountGroupPk
	// the contact: its request was received (nothing else); its group is derived from the account key
	_, pub, err := crypto.GenerateEd25519Key(crand.Reader)
	vfglMust(err, "keygen")
	w.cPK = pub
	w.cRaw, err = pub.Raw()
	vfglMust(err, "raw")
	seed := make([]byte, 32)
	_, _ = crand.Read(seed)
	_, err = w.s.getAccountGroup().MetadataStore().ContactRequestIncomingReceived(ctx, &protocoltypes.ShareableContact{Pk: w.cRaw, PublicRendezvousSeed: seed})
	vfglMust(err, "contact request received")
	vfglQuiesce()
	w.gC, err = w.s.secretStore.GetGroupForContact(pub)
	vfglMust(err, "contact group")
	// the invitation M is bound to until MultiMemberGroupCreate replaces it
	w.gM, _, err = NewGroupMultiMember()
	vfglMust(err, "invitation")
	for _, c := range []int{1, 2} {
		w.cl[c] = &vfglClient{id: c}
	}
	vfglHook.Store(func(point string) {
		id := vfglGoid()
		w.gmu.Lock()
		cl := w.goids[id]
		w.gmu.Unlock()
		if cl == nil {
			return
		}
		cl.parked <- point
		<-cl.gate
	})
	return w
}

func (w *vfglWorld) pk(g string) []byte {
	switch g {
	case "A":
		return w.acctPK
	case "C":
		return w.gC.PublicKey
	case "M":
		return w.gM.PublicKey
	}
	vfInfra("unknown group name %q", g)
	return nil
}

func vfglErrClass(err error) string {
	if err == nil {
		return "ok"
	}
	cs := errcode.Codes(err)
	if len(cs) == 0 {
		if err == context.Canceled || strings.Contains(err.Error(), "context canceled") {
			return "err:canceled"
		}
		return "err:plain"
	}
	first, last := cs[0].String(), cs[len(cs)-1].String()
	return "err:" + first + "/" + last
}

// exec performs one request on the real handler (the calling goroutine may be gated)
func (w *vfglWorld) exec(o vfglOp) (n int, err error) {
	ctx, cancel := context.WithTimeout(w.ctx, 40*time.Second)
	defer cancel()
	n = -1
	switch o.Op {
	case "act":
		_, err = w.s.ActivateGroup(ctx, &protocoltypes.ActivateGroup_Request{GroupPk: w.pk(o.G), LocalOnly: o.Lo})
	case "deact":
		_, err = w.s.DeactivateGroup(ctx, &protocoltypes.DeactivateGroup_Request{GroupPk: w.pk(o.G)})
	case "info":
		_, err = w.s.GroupInfo(ctx, &protocoltypes.GroupInfo_Request{GroupPk: w.pk(o.G)})
	case "sendm":
		w.gmu.Lock()
		w.payload++
		p := []byte(fmt.Sprintf("vfgl message %d", w.payload))
		w.gmu.Unlock()
		_, err = w.s.AppMessageSend(ctx, &protocoltypes.AppMessageSend_Request{GroupPk: w.pk(o.G), Payload: p})
	case "sendd":
		w.gmu.Lock()
		w.payload++
		p := []byte(fmt.Sprintf("vfgl metadata %d", w.payload))
		w.gmu.Unlock()
		_, err = w.s.AppMetadataSend(ctx, &protocoltypes.AppMetadataSend_Request{GroupPk: w.pk(o.G), Payload: p})
	case "listm":
		fs := &vfglStream{ctx: ctx}
		err = w.s.GroupMessageList(&protocoltypes.GroupMessageList_Request{GroupPk: w.pk(o.G), UntilNow: true},
			&grpc.GenericServerStream[protocoltypes.GroupMessageList_Request, protocoltypes.GroupMessageEvent]{ServerStream: fs})
		if n = fs.count(); err != nil {
			n = -1
		}
	case "listd":
		fs := &vfglStream{ctx: ctx, filter: func(m any) bool {
			e, ok := m.(*protocoltypes.GroupMetadataEvent)
			return ok && e.Metadata != nil && e.Metadata.EventType == protocoltypes.EventType_EventTypeGroupMetadataPayloadSent
		}}
		err = w.s.GroupMetadataList(&protocoltypes.GroupMetadataList_Request{GroupPk: w.pk(o.G), UntilNow: true},
			&grpc.GenericServerStream[protocoltypes.GroupMetadataList_Request, protocoltypes.GroupMetadataEvent]{ServerStream: fs})
		if n = fs.count(); err != nil {
			n = -1
		}
	case "create":
		var rep *protocoltypes.MultiMemberGroupCreate_Reply
		rep, err = w.s.MultiMemberGroupCreate(ctx, &protocoltypes.MultiMemberGroupCreate_Request{})
		if err == nil {
			g, ferr := w.s.secretStore.FetchGroupByPublicKey(ctx, vfglPub(rep.GroupPk))
			vfglMust(ferr, "created group is not in the secret store")
			w.gmu.Lock()
			w.gM, w.mBound = g, true
			w.gmu.Unlock()
		}
	case "join":
		_, err = w.s.MultiMemberGroupJoin(ctx, &protocoltypes.MultiMemberGroupJoin_Request{Group: w.gM})
	case "accept":
		_, err = w.s.ContactRequestAccept(ctx, &protocoltypes.ContactRequestAccept_Request{ContactPk: w.cRaw})
	case "close":
		err = w.s.Close()
		w.closed = true
	default:
		vfInfra("unknown op %q", o.Op)
	}
	return n, err
}

func vfglPub(raw []byte) crypto.PubKey {
	pk, err := crypto.UnmarshalEd25519PublicKey(raw)
	vfglMust(err, "unmarshal pk")
	return pk
}

func vfglSite(stack string) string {
	seenPanic := false
	for _, l := range strings.Split(stack, "\n") {
		if strings.HasPrefix(l, "panic(") {
			seenPanic = true
			continue
		}
		if !seenPanic || strings.HasPrefix(l, "\t") {
			continue
		}
		if strings.HasPrefix(l, "berty.tech/weshnet/v2") && !strings.HasPrefix(l, "berty.tech/weshnet/v2.vfgl") {
			if i := strings.LastIndex(l, "("); i > 0 {
				l = l[:i]
			}
			return strings.TrimPrefix(l, "berty.tech/weshnet/v2")
		}
	}
	return "?"
}

func vfglShortStack(stack string) string {
	out := []string{}
	seenPanic := false
	for _, l := range strings.Split(stack, "\n") {
		if strings.HasPrefix(l, "panic(") {
			seenPanic = true
		}
		if seenPanic && !strings.HasPrefix(l, "\t") {
			out = append(out, l)
		}
		if len(out) >= 10 {
			break
		}
	}
	return strings.Join(out, " <- ")
}

// launch runs the request in its own goroutine; gated requests register their goroutine with the hook
func (w *vfglWorld) launch(cl *vfglClient, o vfglOp, gated bool) {
	cl.op, cl.busy = o, true
	cl.gate, cl.parked, cl.done = make(chan struct{}), make(chan string, 1), make(chan vfglReply, 1)
	go func() {
		var r vfglReply
		id := vfglGoid()
		if gated {
			w.gmu.Lock()
			w.goids[id] = cl
			w.gmu.Unlock()
		}
		defer func() {
			if p := recover(); p != nil {
				if ps, ok := p.(string); ok && strings.HasPrefix(ps, "VERIF-INFRA") {
					panic(p)
				}
				st := string(debug.Stack())
				r = vfglReply{R: "panic", N: -1, Msg: fmt.Sprint(p), Site: vfglSite(st), Stack: vfglShortStack(st)}
				if len(r.Msg) > 160 {
					r.Msg = r.Msg[:160]
				}
			}
			w.gmu.Lock()
			delete(w.goids, id)
			w.gmu.Unlock()
			cl.done <- r
		}()
		n, err := w.exec(o)
		r = vfglReply{R: vfglErrClass(err), N: n}
		if err != nil {
			r.Msg = err.Error()
			if len(r.Msg) > 160 {
				r.Msg = r.Msg[:160]
			}
		}
	}()
}

func (w *vfglWorld) await(cl *vfglClient) vfglReply { return w.awaitFor(cl, vfglHangAfter, "hang") }

func (w *vfglWorld) awaitFor(cl *vfglClient, d time.Duration, late string) vfglReply {
	cl.atGate = false
	select {
	case p := <-cl.parked:
		cl.atGate = true
		return vfglReply{R: "at:" + p, N: -1}
	case r := <-cl.done:
		cl.busy = false
		return r
	case <-time.After(d):
		return vfglReply{R: late, N: -1}
	}
}

// open-ended message stream (SinceNow, no until): started by "sub", ended by "cancel"
func (w *vfglWorld) subscribe(g string) vfglReply {
	if w.strmOn {
		vfInfra("script opens a second stream")
	}
	ctx, cancel := context.WithCancel(w.ctx)
	sink := &vfglStream{ctx: ctx}
	done := make(chan vfglReply, 1)
	started := make(chan struct{})
	go func() {
		var r vfglReply
		defer func() {
			if p := recover(); p != nil {
				st := string(debug.Stack())
				r = vfglReply{R: "panic", N: -1, Msg: fmt.Sprint(p), Site: vfglSite(st), Stack: vfglShortStack(st)}
			}
			done <- r
		}()
		close(started)
		err := w.s.GroupMessageList(&protocoltypes.GroupMessageList_Request{GroupPk: w.pk(g), SinceNow: true},
			&grpc.GenericServerStream[protocoltypes.GroupMessageList_Request, protocoltypes.GroupMessageEvent]{ServerStream: sink})
		r = vfglReply{R: vfglErrClass(err), N: sink.count()}
	}()
	<-started
	// the handler either answers at once (group not opened) or blocks in its select: wait until it is parked there
	deadline := time.Now().Add(vfglHangAfter)
	for {
		select {
		case r := <-done:
			cancel()
			if r.R != "ok" {
				r.N = -1
			}
			return r
		default:
		}
		if vfglCount(vfglStacks(), "(*service).GroupMessageList(") > 0 && vfglStreamParked() {
			break
		}
		if time.Now().After(deadline) {
			cancel()
			return vfglReply{R: "hang", N: -1}
		}
		runtime.Gosched()
		time.Sleep(200 * time.Microsecond)
	}
	w.strmOn, w.strmG, w.strmCancel, w.strmSink, w.strmDone, w.strmEnded, w.strmRes = true, g, cancel, sink, done, false, ""
	return vfglReply{R: "ok", N: 0}
}

// the stream handler sits in its final select (it has subscribed)
func vfglStreamParked() bool {
	for _, s := range vfglStacks() {
		if strings.Contains(s, "(*service).GroupMessageList(") && strings.Contains(s, "[select") {
			return true
		}
	}
	return false
}

func (w *vfglWorld) pollStream() {
	if !w.strmOn || w.strmEnded {
		return
	}
	select {
	case r := <-w.strmDone:
		w.strmEnded, w.strmRes = true, r.R
	default:
	}
}

func (w *vfglWorld) cancelStream() vfglReply {
	if !w.strmOn {
		return vfglReply{R: "none", N: -1}
	}
	w.pollStream()
	n := w.strmSink.count()
	if w.strmEnded {
		w.strmOn = false
		return vfglReply{R: "ended:" + w.strmRes, N: n}
	}
	w.strmCancel()
	select {
	case r := <-w.strmDone:
		w.strmOn = false
		return vfglReply{R: r.R, N: n}
	case <-time.After(vfglHangAfter):
		w.strmOn = false
		return vfglReply{R: "hang", N: n}
	}
}

// ---------------------------------------------------------------- quiescence

// quiesce waits (bounded) until every event-handler goroutine of a group context sits in its select: the handlers
// append to the metadata log on their own (secrets for announced members), and an observation taken - or a request
// started - while such an append is in flight is not reproducible.  Returns false when the bound was hit.
func vfglQuiesce() bool {
	deadline := time.Now().Add(10 * time.Second)
	calm := 0
	for {
		busy := false
		for _, s := range vfglStacks() {
			if !strings.Contains(s, "(*GroupContext).ActivateGroupContext.func1") {
				continue
			}
			head := s
			if i := strings.Index(s, "\n"); i > 0 {
				head = s[:i]
			}
			if !strings.Contains(head, "[select") {
				busy = true
				break
			}
		}
		if !busy {
			if calm++; calm >= 2 {
				return true
			}
			time.Sleep(500 * time.Microsecond)
			continue
		}
		calm = 0
		if time.Now().After(deadline) {
			return false
		}
		time.Sleep(300 * time.Microsecond)
	}
}

// ---------------------------------------------------------------- projection

func (w *vfglWorld) proj(settleStream bool) map[string]any {
	s := w.s
	quiet := vfglQuiesce()
	opn, oc, odb, kn, lst := map[string]any{}, map[string]any{}, map[string]any{}, map[string]any{}, map[string]any{}
	acct := "nil"
	ol := map[string]any{}
	s.lock.RLock()
	for _, g := range []string{"A", "C", "M"} {
		gc, ok := s.openedGroups[string(w.pk(g))]
		opn[g] = ok
		oc[g] = ok && gc != nil && gc.IsClosed()
		// entries the metadata log of the opened context holds (-1: not opened)
		ol[g] = -1
		if ok && gc != nil {
			func() {
				defer func() { _ = recover() }()
				ol[g] = gc.metadataStore.OpLog().Len()
			}()
		}
	}
	if s.accountGroupCtx != nil {
		acct = "other"
		if s.accountGroupCtx == s.openedGroups[string(w.acctPK)] {
			acct = "same"
		}
		if s.accountGroupCtx.IsClosed() {
			acct += "-closed"
		}
	}
	s.lock.RUnlock()
	for _, g := range []string{"A", "C", "M"} {
		odb[g] = false
		var grp *protocoltypes.Group
		switch g {
		case "C":
			grp = w.gC
		case "M":
			grp = w.gM
		}
		id := ""
		if grp != nil {
			id = grp.GroupIDAsString()
		} else if ag, _, err := s.secretStore.GetGroupForAccount(); err == nil {
			id = ag.GroupIDAsString()
		}
		if v, ok := s.odb.groupContexts.Load(id); ok {
			if gc, ok := v.(*GroupContext); ok && !gc.IsClosed() {
				odb[g] = true
			}
		}
		_, err := s.secretStore.FetchGroupByPublicKey(w.ctx, vfglPub(w.pk(g)))
		kn[g] = err == nil
	}
	jn := map[string]any{"C": "?", "M": "?", "cs": "?"}
	if ag := s.getAccountGroup(); ag != nil && !ag.IsClosed() {
		func() {
			defer func() { _ = recover() }()
			ms := ag.MetadataStore()
			jn["M"] = map[bool]string{true: "y", false: "n"}[ms.checkIfInGroup(w.gM.PublicKey)]
			cs := ms.getContactStatus(w.cPK)
			jn["C"] = map[bool]string{true: "y", false: "n"}[cs == protocoltypes.ContactState_ContactStateAdded]
			// the contact's state as the account group's index has it (set-up left it at R = request received)
			jn["cs"] = map[protocoltypes.ContactState]string{protocoltypes.ContactState_ContactStateUndefined: "U", protocoltypes.ContactState_ContactStateReceived: "R",
				protocoltypes.ContactState_ContactStateAdded: "A"}[cs]
			if jn["cs"] == "" {
				jn["cs"] = "X"
			}
		}()
	}
	// read-only probe: does a listing of the messages work on each group, and how many does it return
	for _, g := range []string{"A", "C", "M"} {
		lst[g] = -1
		func() {
			defer func() {
				if p := recover(); p != nil {
					lst[g] = -2
				}
			}()
			ctx, cancel := context.WithTimeout(w.ctx, 20*time.Second)
			defer cancel()
			fs := &vfglStream{ctx: ctx}
			err := s.GroupMessageList(&protocoltypes.GroupMessageList_Request{GroupPk: w.pk(g), UntilNow: true},
				&grpc.GenericServerStream[protocoltypes.GroupMessageList_Request, protocoltypes.GroupMessageEvent]{ServerStream: fs})
			if err == nil {
				lst[g] = fs.count()
			}
		}()
	}
	stacks := vfglStacks()
	st := map[string]any{"op": opn, "oc": oc, "acct": acct, "odb": odb, "kn": kn, "jn": jn, "lst": lst, "ol": ol,
		"nsub": vfglCount(stacks, "(*GroupContext).ActivateGroupContext.func1") - w.nsub0, "closed": w.closed, "quiet": quiet}
	strm := map[string]any{"on": w.strmOn, "g": "-", "alive": false, "n": 0}
	if w.strmOn {
		if settleStream {
			// give an event that was published the time to cross the bus (bounded; the count is an observation, not a verdict)
			last, same := -1, 0
			for i := 0; i < 200 && same < 3; i++ {
				c := w.strmSink.count()
				if c == last {
					same++
				} else {
					same = 0
				}
				last = c
				time.Sleep(2 * time.Millisecond)
			}
		}
		w.pollStream()
		strm["g"], strm["alive"], strm["n"] = w.strmG, !w.strmEnded, w.strmSink.count()
	}
	st["strm"] = strm
	return st
}

// ---------------------------------------------------------------- script runner

func vfglOpOf(m map[string]any) vfglOp {
	o := vfglOp{}
	o.Op, _ = m["s"].(string)
	o.G, _ = m["d"].(string)
	if o.G == "" {
		o.G = "-"
	}
	if y, ok := m["y"].(float64); ok && y != 0 {
		o.Lo = true
	}
	return o
}

func vfglB2i(b bool) int {
	if b {
		return 1
	}
	return 0
}

func vfglRunScript(t testing.TB, sc vfScript, emit func(map[string]any)) {
	base0, _ := vfglRootFrames(vfglStacks())
	w := vfglNewWorld(t)
	if b, _ := sc.Cfg["libgate"].(bool); b {
		w.libGate = true
		vfglLibGateOn.Store(true)
		defer vfglLibGateOn.Store(false)
	}
	emit(map[string]any{"ev": "reset", "id": sc.ID})
	emit(map[string]any{"ev": "init", "st": w.proj(false)})
	dead := false
	for i, st := range sc.Steps {
		if dead {
			break
		}
		switch st.Act {
		case "start", "step":
			cl := w.cl[st.X]
			if cl == nil {
				vfInfra("script %d step %d: no client %d", sc.ID, i, st.X)
			}
			if st.Act == "start" {
				if cl.busy {
					emit(map[string]any{"ev": "start", "i": i, "c": st.X, "op": st.S, "g": st.D, "lo": st.Y, "r": "busy", "n": -1,
						"msg": "", "site": "", "stack": "", "st": w.proj(false)})
					continue
				}
				o := vfglOp{Op: st.S, G: st.D, Lo: st.Y != 0}
				if o.G == "" {
					o.G = "-"
				}
				if o.Op == "sub" {
					r := w.subscribe(o.G)
					emit(map[string]any{"ev": "start", "i": i, "c": st.X, "op": o.Op, "g": o.G, "lo": 0, "r": r.R, "n": r.N, "msg": r.Msg, "site": r.Site, "stack": r.Stack, "st": w.proj(false)})
					continue
				}
				w.launch(cl, o, true)
			} else {
				if !cl.busy {
					// the request did not park where the script expected a gate (the code has no gate there any more,
					// or took another path): recorded as such, conformance decides
					emit(map[string]any{"ev": "step", "i": i, "c": st.X, "op": cl.op.Op, "g": cl.op.G, "lo": vfglB2i(cl.op.Lo), "r": "nogate", "n": -1,
						"msg": "", "site": "", "stack": "", "st": w.proj(false)})
					continue
				}
				if cl.atGate {
					cl.gate <- struct{}{}
				}
			}
			var r vfglReply
			if st.Act == "step" && st.Y == 1 {
				// non-blocking step (log-loss demonstration): the request may be waiting for a lock another parked request holds
				r = w.awaitFor(cl, 1500*time.Millisecond, "blocked")
			} else {
				r = w.await(cl)
			}
			if r.R == "hang" {
				dead = true
			}
			emit(map[string]any{"ev": st.Act, "i": i, "c": st.X, "op": cl.op.Op, "g": cl.op.G, "lo": vfglB2i(cl.op.Lo), "r": r.R, "n": r.N,
				"msg": r.Msg, "site": r.Site, "stack": r.Stack, "st": w.proj(cl.op.Op == "sendm")})
		case "run":
			raw, _ := st.A["ops"].([]any)
			if len(raw) == 0 || len(raw) > 2 {
				vfInfra("script %d step %d: run needs 1 or 2 ops", sc.ID, i)
			}
			ops := []vfglOp{}
			for _, x := range raw {
				m, _ := x.(map[string]any)
				ops = append(ops, vfglOpOf(m))
			}
			for k, o := range ops {
				if w.cl[k+1].busy {
					vfInfra("script %d step %d: run while client %d is parked", sc.ID, i, k+1)
				}
				w.launch(w.cl[k+1], o, false)
			}
			res := []any{}
			settle := false
			for k, o := range ops {
				r := w.await(w.cl[k+1])
				if r.R == "hang" {
					dead = true
				}
				settle = settle || o.Op == "sendm"
				res = append(res, map[string]any{"op": o.Op, "g": o.G, "lo": vfglB2i(o.Lo), "r": r.R, "n": r.N, "msg": r.Msg, "site": r.Site, "stack": r.Stack})
			}
			emit(map[string]any{"ev": "run", "i": i, "ops": res, "st": w.proj(settle)})
		case "cancel":
			r := w.cancelStream()
			emit(map[string]any{"ev": "cancel", "i": i, "r": r.R, "n": r.N, "st": w.proj(false)})
		default:
			vfInfra("script %d step %d: unknown act %q", sc.ID, i, st.Act)
		}
	}
	// epilogue: release whatever is parked, end the stream, close the service, look for what stays behind
	parkedLeft := 0
	for _, c := range []int{1, 2} {
		cl := w.cl[c]
		for n := 0; cl.busy && !dead && n < 8; n++ {
			parkedLeft++
			if cl.atGate {
				cl.gate <- struct{}{}
			}
			if r := w.await(cl); r.R == "hang" {
				dead = true
			}
		}
	}
	sr := w.cancelStream()
	closeRes := "ok"
	func() {
		done := make(chan string, 1)
		go func() {
			defer func() {
				if p := recover(); p != nil {
					done <- "panic:" + fmt.Sprint(p)
				}
			}()
			w.cleanup()
			done <- "ok"
		}()
		select {
		case closeRes = <-done:
		case <-time.After(60 * time.Second):
			closeRes = "hang"
		}
	}()
	vfglHook.Store(func(string) {})
	// leak indicators: goroutines still running root-package code, taken twice (no sleep as verdict: both numbers are recorded)
	n1, _ := vfglRootFrames(vfglStacks())
	var n2 int
	var hist map[string]int
	for k := 0; k < 100; k++ { // bounded settle for goroutines that were told to leave (context cancelled)
		runtime.Gosched()
		time.Sleep(5 * time.Millisecond)
		n2, hist = vfglRootFrames(vfglStacks())
		if n2 <= base0 {
			break
		}
	}
	keys := []string{}
	for k, v := range hist {
		keys = append(keys, fmt.Sprintf("%s=%d", k, v))
	}
	sort.Strings(keys)
	if len(keys) > 12 {
		keys = keys[:12]
	}
	emit(map[string]any{"ev": "end", "dead": dead, "released": parkedLeft, "strm": sr.R, "close": closeRes,
		"leak0": base0, "leak1": n1, "leak2": n2, "left": keys})
}

func TestVerifGroupLife(t *testing.T) {
	scripts := vfLoadScripts(t)
	tr := vfOpenTrace(t)
	defer tr.Close()
	for _, sc := range scripts {
		var evs []map[string]any
		t.Run(fmt.Sprintf("s%d", sc.ID), func(t *testing.T) {
			vfglRunScript(t, sc, func(ev map[string]any) { evs = append(evs, ev) })
		})
		tr.EmitBlock(evs)
		tr.mu.Lock()
		tr.w.Flush()
		tr.mu.Unlock()
	}
	if p := os.Getenv("VERIF_PROGRESS"); p != "" {
		_ = os.WriteFile(p+".done", []byte(fmt.Sprintf("VERIF-DONE scripts=%d\n", len(scripts))), 0o644)
	}
	fmt.Printf("VERIF-DONE scripts=%d\n", len(scripts))
	t.Logf("VERIF-DONE scripts=%d", len(scripts))
}

var _ = bytes.Equal
