//go:build verif

package weshnet

// Driver for specs/Invitation.tla (C12).
//
//	mode "join":  every step carries a symbolic invitation (see Invitation.tla); it is built from two
//	              fresh multi-member groups and handed to MetadataStore.GroupJoin of a real account
//	              metadata store (via "store") or to the service method MultiMemberGroupJoin (via
//	              "service").  Observed: result, growth of the account log, and - when accepted - the
//	              identity the node uses in that group (secret store, GroupInfo RPC, activated group
//	              context) compared with its account identity.
//	mode "flips": every single-bit flip of the identifier, the secret and the signature of a valid
//	              invitation.
//	mode "desc":  FilterGroupForReplication on groups of every type; the descriptor (and groups derived
//	              from its fields) is tried on every metadata envelope and message envelope of a random
//	              session, and its log addresses are compared with the full group's.

import (
	"bytes"
	"context"
	"encoding/json"
	"fmt"
	"math/rand"
	"testing"
	"time"

	orbitdb "berty.tech/go-orbit-db"
	"github.com/libp2p/go-libp2p/core/crypto"
	"google.golang.org/protobuf/proto"

	"berty.tech/weshnet/v2/pkg/protocoltypes"
	"berty.tech/weshnet/v2/pkg/secretstore"
)

type vfISig struct {
	By   string `json:"by"`
	Over string `json:"over"`
	St   string `json:"st"`
}

type vfInv struct {
	PK     string `json:"pk"`
	Secret string `json:"secret"`
	Sig    vfISig `json:"sig"`
	Type   string `json:"type"`
}

type vfIGroup struct {
	g  *protocoltypes.Group
	sk crypto.PrivKey
}

type vfIWorld struct {
	rnd *rand.Rand
	gs  map[string]vfIGroup // "g1", "g2"
}

func vfNewIWorld(salt int64) *vfIWorld {
	w := &vfIWorld{rnd: vfRand(salt*31 + 5), gs: map[string]vfIGroup{}}
	for _, n := range []string{"g1", "g2"} {
		g, sk, err := NewGroupMultiMember()
		vfMust2(err, "new group")
		w.gs[n] = vfIGroup{g, sk}
	}
	return w
}

var vfUnknownGroupTypes = []int32{4, 5, 7, 99, 1000, -1}

func (w *vfIWorld) flip(b []byte) []byte { return vfFlipBit(b, w.rnd.Intn(len(b)*8)) }

func (w *vfIWorld) build(iv vfInv) *protocoltypes.Group {
	out := &protocoltypes.Group{LinkKeySig: w.gs["g1"].g.LinkKeySig}
	switch iv.PK {
	case "g1", "g2":
		out.PublicKey = w.gs[iv.PK].g.PublicKey
	case "g1x":
		out.PublicKey = w.flip(w.gs["g1"].g.PublicKey)
	case "none":
	default:
		vfInfra(" bad pk %q", iv.PK)
	}
	secret := func(n string) []byte {
		switch n {
		case "s1":
			return w.gs["g1"].g.Secret
		case "s2":
			return w.gs["g2"].g.Secret
		}
		vfInfra(" bad secret %q", n)
		return nil
	}
	switch iv.Secret {
	case "s1", "s2":
		out.Secret = secret(iv.Secret)
	case "s1x":
		out.Secret = w.flip(secret("s1"))
	case "none":
	default:
		vfInfra(" bad secret %q", iv.Secret)
	}
	if iv.Sig.St != "none" {
		var sig []byte
		switch {
		case iv.Sig.By == "g1" && iv.Sig.Over == "s1":
			sig = w.gs["g1"].g.SecretSig // as created by NewGroupMultiMember
		case iv.Sig.By == "g2" && iv.Sig.Over == "s2":
			sig = w.gs["g2"].g.SecretSig
		case iv.Sig.By == "g1" || iv.Sig.By == "g2":
			s, err := w.gs[iv.Sig.By].sk.Sign(secret(iv.Sig.Over))
			vfMust2(err, "sign")
			sig = s
		case iv.Sig.By == "sign1":
			ssk, err := w.gs["g1"].g.GetSigningPrivKey()
			vfMust2(err, "signing key")
			s, err := ssk.Sign(secret(iv.Sig.Over))
			vfMust2(err, "sign")
			sig = s
		default:
			vfInfra(" bad signer %q", iv.Sig.By)
		}
		if iv.Sig.St == "flip" {
			sig = w.flip(sig)
		}
		out.SecretSig = sig
	}
	switch iv.Type {
	case "multi":
		out.GroupType = protocoltypes.GroupType_GroupTypeMultiMember
	case "contact":
		out.GroupType = protocoltypes.GroupType_GroupTypeContact
	case "account":
		out.GroupType = protocoltypes.GroupType_GroupTypeAccount
	case "undefined":
		out.GroupType = protocoltypes.GroupType_GroupTypeUndefined
	case "unknown":
		out.GroupType = protocoltypes.GroupType(vfUnknownGroupTypes[w.rnd.Intn(len(vfUnknownGroupTypes))])
	default:
		vfInfra(" bad type %q", iv.Type)
	}
	return out
}

// ---------------------------------------------------------------- joiners

type vfJoiner struct {
	name   string
	ms     *MetadataStore
	ss     secretstore.SecretStore
	svc    *service
	acct   secretstore.OwnMemberDevice
	nact   int
	maxAct int
}

func (j *vfJoiner) settle() {
	if j.svc != nil {
		// activation of the account group ends with the device's own secret being published
		idx := j.ms.Index().(*metadataStoreIndex)
		for i := 0; ; i++ {
			if sent, err := idx.areSecretsAlreadySent(j.acct.Member()); err == nil && sent {
				break
			}
			if i > 600 {
				vfInfra(" account group activation does not complete")
			}
			time.Sleep(50 * time.Millisecond)
		}
	}
	last, same := j.ms.OpLog().Len(), 0
	for i := 0; i < 200 && same < 8; i++ {
		time.Sleep(50 * time.Millisecond)
		if n := j.ms.OpLog().Len(); n == last {
			same++
		} else {
			last, same = n, 0
		}
	}
	if same < 8 {
		vfInfra(" account log does not settle")
	}
}

func (j *vfJoiner) join(ctx context.Context, g *protocoltypes.Group) error {
	if j.svc != nil {
		_, err := j.svc.MultiMemberGroupJoin(ctx, &protocoltypes.MultiMemberGroupJoin_Request{Group: g})
		return err
	}
	_, err := j.ms.GroupJoin(ctx, g)
	return err
}

func (j *vfJoiner) isAcct(member, device []byte) (bool, bool) {
	return bytes.Equal(member, vfRawPK(j.acct.Member())), bytes.Equal(device, vfRawPK(j.acct.Device()))
}

func (j *vfJoiner) observeIdentity(ctx context.Context, g *protocoltypes.Group, ev map[string]any) {
	md, err := j.ss.GetOwnMemberDeviceForGroup(g)
	ev["iderr"] = err != nil
	if err == nil {
		ev["memacct"], ev["devacct"] = j.isAcct(vfRawPK(md.Member()), vfRawPK(md.Device()))
		md2, err2 := j.ss.GetOwnMemberDeviceForGroup(g)
		ev["stable"] = err2 == nil && md2.Member().Equals(md.Member()) && md2.Device().Equals(md.Device())
	}
	listed := false
	for _, lg := range j.ms.ListMultiMemberGroups() {
		if bytes.Equal(lg.PublicKey, g.PublicKey) {
			listed = true
		}
	}
	ev["listed"] = listed
	if j.svc == nil {
		return
	}
	// what the node itself reports / does for that group
	rep, err := j.svc.GroupInfo(ctx, &protocoltypes.GroupInfo_Request{GroupPk: g.PublicKey})
	ev["infoerr"] = err != nil
	if err == nil {
		ev["infomemacct"], ev["infodevacct"] = j.isAcct(rep.MemberPk, rep.DevicePk)
	}
	if j.nact < j.maxAct && g.GroupType != protocoltypes.GroupType_GroupTypeAccount {
		j.nact++
		_, err := j.svc.ActivateGroup(ctx, &protocoltypes.ActivateGroup_Request{GroupPk: g.PublicKey, LocalOnly: true})
		ev["acterr"] = err != nil
		if err == nil {
			if gc, err := j.svc.GetContextGroupForID(g.PublicKey); err == nil {
				ev["actmemacct"], ev["actdevacct"] = j.isAcct(vfRawPK(gc.MemberPubKey()), vfRawPK(gc.DevicePubKey()))
			}
			if pk, err := g.GetPubKey(); err == nil {
				_ = j.svc.deactivateGroup(pk)
			}
		}
		j.settle()
	}
}

func vfInviteJoinScript(ctx context.Context, js map[string]*vfJoiner, sc vfScript) []map[string]any {
	out := []map[string]any{{"ev": "reset", "id": sc.ID}}
	w := vfNewIWorld(int64(sc.ID))
	for i, st := range sc.Steps {
		if st.Act != "join" {
			vfInfra(" unknown action %q", st.Act)
		}
		var iv vfInv
		vfReJSON(st.A, &iv)
		j := js[st.S]
		if j == nil {
			vfInfra(" unknown joiner %q", st.S)
		}
		g := w.build(iv)
		pre := j.ms.OpLog().Len()
		err := j.join(ctx, g)
		ev := map[string]any{"ev": "join", "i": i, "via": st.S, "inv": st.A, "ok": err == nil, "code": vfErrCode(err),
			"grew": j.ms.OpLog().Len() - pre}
		if err == nil {
			j.observeIdentity(ctx, g, ev)
		} else {
			// a node may compute the identity it would use for a group object before (or although) the join is
			// refused; whatever that lookup caches must not leak into a later, valid join of the same identifier
			func() {
				defer func() { _ = recover() }()
				_, _ = j.ss.GetOwnMemberDeviceForGroup(g)
			}()
		}
		out = append(out, ev)
	}
	return out
}

func vfInviteFlipSweep(ctx context.Context, j *vfJoiner, id int) []map[string]any {
	out := []map[string]any{{"ev": "reset", "id": id}}
	w := vfNewIWorld(int64(id))
	g := w.gs["g1"].g
	fields := []struct {
		name string
		n    int
		mk   func(i int) *protocoltypes.Group
	}{
		{"pk", len(g.PublicKey) * 8, func(i int) *protocoltypes.Group { c := g.Copy(); c.PublicKey = vfFlipBit(g.PublicKey, i); return c }},
		{"secret", len(g.Secret) * 8, func(i int) *protocoltypes.Group { c := g.Copy(); c.Secret = vfFlipBit(g.Secret, i); return c }},
		{"sig", len(g.SecretSig) * 8, func(i int) *protocoltypes.Group { c := g.Copy(); c.SecretSig = vfFlipBit(g.SecretSig, i); return c }},
	}
	for _, f := range fields {
		pre := j.ms.OpLog().Len()
		nacc, first := 0, -1
		for i := 0; i < f.n; i++ {
			if err := j.join(ctx, f.mk(i)); err == nil {
				nacc++
				if first < 0 {
					first = i
				}
			}
		}
		out = append(out, map[string]any{"ev": "joinflips", "via": j.name, "field": f.name, "n": f.n, "nacc": nacc, "first": first,
			"grew": j.ms.OpLog().Len() - pre})
	}
	// the untouched invitation is accepted afterwards
	pre := j.ms.OpLog().Len()
	err := j.join(ctx, g.Copy())
	out = append(out, map[string]any{"ev": "joinbase", "via": j.name, "ok": err == nil, "grew": j.ms.OpLog().Len() - pre})
	return out
}

// ---------------------------------------------------------------- descriptors

func vfReJSON(in any, out any) {
	b, err := json.Marshal(in)
	vfMust2(err, "json")
	vfMust2(json.Unmarshal(b, out), "json")
}

type vfSession struct {
	g     *protocoltypes.Group
	gtype string
	metas [][]byte
	msgs  [][]byte
	hdrs  []*protocoltypes.MessageHeaders
	menvs []*protocoltypes.MessageEnvelope
	ssV   secretstore.SecretStore
}

// a random session in a group of the given type: every metadata event type sealed by two parties and
// message envelopes sealed by both
func vfNewSession(ctx context.Context, gtype string, salt int64) *vfSession {
	ssV, err := secretstore.NewInMemSecretStore(nil)
	vfMust2(err, "secret store")
	ssA, err := secretstore.NewInMemSecretStore(nil)
	vfMust2(err, "secret store")
	var g *protocoltypes.Group
	var gsk crypto.PrivKey
	switch gtype {
	case "multi":
		g, gsk, err = NewGroupMultiMember()
		vfMust2(err, "group")
	case "account":
		g, _, err = ssV.GetGroupForAccount()
		vfMust2(err, "account group")
		gsk, err = ssV.GetAccountPrivateKey()
		vfMust2(err, "account key")
		a, p, err := ssV.ExportAccountKeysForBackup()
		vfMust2(err, "export")
		vfMust2(ssA.ImportAccountKeys(a, p), "import")
	case "contact":
		_, mdA, err := ssA.GetGroupForAccount()
		vfMust2(err, "account group")
		g, err = ssV.GetGroupForContact(mdA.Member())
		vfMust2(err, "contact group")
		gsk, _, err = crypto.GenerateEd25519Key(vfRand(salt)) // nobody signs with the contact group key here
		vfMust2(err, "key")
	default:
		vfInfra(" unknown group type %q", gtype)
	}
	s := &vfSession{g: g, gtype: gtype, ssV: ssV}
	vfMust2(ssV.PutGroup(ctx, g), "put group")
	vfMust2(ssA.PutGroup(ctx, g), "put group")
	mdV, err := ssV.GetOwnMemberDeviceForGroup(g)
	vfMust2(err, "member device")
	mdA, err := ssA.GetOwnMemberDeviceForGroup(g)
	vfMust2(err, "member device")
	w := vfNewMW(g, gsk, mdV, mdA)
	b := vfNewBuilder(w, salt)
	r := vfRand(salt + 77)
	for _, ty := range vfMetaTypes {
		for _, who := range []string{"A", "V"} {
			if ty == vfINIT && gtype == "contact" {
				continue
			}
			tm := vfHonestTerm(ty, who)
			tm.PD.Body = r.Intn(2)
			tm.Sig.Over = tm.PD
			e := b.envelope(tm)
			if !e.helper {
				vfInfra(" session event is not honest")
			}
			s.metas = append(s.metas, e.bytes)
		}
	}
	n := 6 + r.Intn(10)
	for i := 0; i < n; i++ {
		ss := []secretstore.SecretStore{ssV, ssA}[r.Intn(2)]
		env, err := ss.SealEnvelope(ctx, g, vfPayload(r, r.Intn(10)))
		vfMust2(err, "seal envelope")
		menv, hdr, err := ss.OpenEnvelopeHeaders(env, g)
		vfMust2(err, "own headers")
		s.msgs = append(s.msgs, env)
		s.hdrs = append(s.hdrs, hdr)
		s.menvs = append(s.menvs, menv)
	}
	return s
}

func vfHonestTerm(ty, who string) vfTerm {
	tm := vfTerm{Ty: ty, Box: "g", Nonce: "ok"}
	switch ty {
	case vfINIT:
		tm.PD = vfPD{Shape: ty, Dev: "-", Mem: "dev" + who, Msig: vfMSig{"-", "-", "none"}}
		tm.Sig = vfSig{By: "grp", Over: tm.PD, St: "ok"}
	case vfMDA:
		tm.PD = vfPD{Shape: ty, Dev: "dev" + who, Mem: "mem" + who, Msig: vfMSig{"mem" + who, "dev" + who, "ok"}}
		tm.Sig = vfSig{By: "dev" + who, Over: tm.PD, St: "ok"}
	default:
		tm.PD = vfPD{Shape: ty, Dev: "dev" + who, Mem: "-", Msig: vfMSig{"-", "-", "none"}}
		tm.Sig = vfSig{By: "dev" + who, Over: tm.PD, St: "ok"}
	}
	return tm
}

func vfContains32(hay, needle []byte) bool {
	return len(needle) >= 16 && bytes.Contains(hay, needle)
}

func vfInviteDescribe(ctx context.Context, db *WeshOrbitDB, id int, gtype string, joinMS *MetadataStore) []map[string]any {
	out := []map[string]any{{"ev": "reset", "id": id}}
	s := vfNewSession(ctx, gtype, int64(id))
	g := s.g
	ev := map[string]any{"ev": "desc", "gtype": gtype, "nmeta": len(s.metas), "nmsg": len(s.msgs)}
	live := g                                    // the object a group context would hold and keep sealing with
	g = proto.Clone(live).(*protocoltypes.Group) // the full group as it was before the descriptor was derived
	d, err := FilterGroupForReplication(live)
	ev["ok"] = err == nil
	if err != nil {
		return append(out, ev)
	}
	// deriving a descriptor must leave the group it was given as it is ...
	ev["groupsame"] = proto.Equal(g, live)
	// ... in particular what the member seals with that object AFTERWARDS is still closed to the descriptor
	afterHdr := 0
	for k := 0; k < 3; k++ {
		if env, err := s.ssV.SealEnvelope(ctx, live, vfPayload(vfRand(int64(id)+int64(k)), k)); err == nil {
			ssX, err := secretstore.NewInMemSecretStore(nil)
			vfMust2(err, "secret store")
			if _, _, err := ssX.OpenEnvelopeHeaders(env, d); err == nil {
				afterHdr++
			}
		}
	}
	ev["afterhdr"] = afterHdr
	db_, err := proto.Marshal(d)
	vfMust2(err, "marshal descriptor")
	ev["hassecret"] = len(d.Secret) != 0
	ev["hassig"] = len(d.SecretSig) != 0
	ssk, err := g.GetSigningPrivKey()
	vfMust2(err, "signing key")
	sskRaw, err := ssk.Raw()
	vfMust2(err, "signing key raw")
	ev["secretin"] = vfContains32(db_, g.Secret) || vfContains32(db_, sskRaw[:32])
	ev["pksame"] = bytes.Equal(d.PublicKey, g.PublicKey)
	ev["dtype"] = int(d.GroupType)

	// candidate readers: the descriptor as it is, and groups whose secret is any 32-byte window of it
	cands := []*protocoltypes.Group{d}
	for i := 0; i+32 <= len(db_); i++ {
		cands = append(cands, &protocoltypes.Group{PublicKey: g.PublicKey, Secret: db_[i : i+32], GroupType: g.GroupType})
	}
	ev["ncand"] = len(cands)
	fullMeta, fullHdr, opMeta, opHdr, opPay := 0, 0, 0, 0, 0
	for _, e := range s.metas {
		if _, _, err := vfOpenGroupEnvelope(g, e); err == nil {
			fullMeta++
		}
		for _, c := range cands {
			if _, _, err := vfOpenGroupEnvelope(c, e); err == nil {
				opMeta++
			}
		}
	}
	// the replication server's own secret store, knowing only the descriptor
	ssR, err := secretstore.NewInMemSecretStore(nil)
	vfMust2(err, "secret store")
	_ = ssR.PutGroup(ctx, d) // may be refused: a descriptor has no type
	gpk, err := g.GetPubKey()
	vfMust2(err, "group key")
	_, rk, _ := crypto.GenerateEd25519Key(vfRand(int64(id) + 3))
	for i, m := range s.msgs {
		if _, _, err := s.ssV.OpenEnvelopeHeaders(m, g); err == nil {
			fullHdr++
		}
		for _, c := range cands {
			if _, _, err := ssR.OpenEnvelopeHeaders(m, c); err == nil {
				opHdr++
			}
		}
		// even with the headers leaked, the payload needs a chain key the server never gets
		if _, err := ssR.OpenEnvelopePayload(ctx, s.menvs[i], s.hdrs[i], gpk, rk, vfCIDOf(m)); err == nil {
			opPay++
		}
	}
	ev["fullmeta"], ev["fullhdr"] = fullMeta, fullHdr
	ev["openedmeta"], ev["openedhdr"], ev["openedpayload"] = opMeta, opHdr, opPay

	// log addresses
	same := func(storeType string) bool {
		ag, err1 := defaultACForGroup(g, storeType)
		ad, err2 := defaultACForGroup(d, storeType)
		if err1 != nil || err2 != nil {
			return false
		}
		if !ag.GetAddress().Equals(ad.GetAddress()) {
			return false
		}
		ng := fmt.Sprintf("%s_%s", g.GroupIDAsString(), storeType)
		nd := fmt.Sprintf("%s_%s", d.GroupIDAsString(), storeType)
		a1, err1 := db.DetermineAddress(ctx, ng, storeType, &orbitdb.DetermineAddressOptions{AccessController: ag})
		a2, err2 := db.DetermineAddress(ctx, nd, storeType, &orbitdb.DetermineAddressOptions{AccessController: ad})
		return err1 == nil && err2 == nil && a1.String() == a2.String()
	}
	ev["addrmeta"] = same(db.groupMetadataStoreType)
	ev["addrmsg"] = same(db.groupMessageStoreType)

	// a descriptor is not an invitation: presented to GroupJoin under any group type (as produced, and
	// with the secret signature copied in from the full group) it must be refused and nothing appended
	descjoin, descgrew := 0, 0
	if joinMS != nil {
		for _, gt := range []protocoltypes.GroupType{d.GroupType, protocoltypes.GroupType_GroupTypeMultiMember, protocoltypes.GroupType_GroupTypeContact, protocoltypes.GroupType_GroupTypeAccount} {
			for _, withSig := range []bool{false, true} {
				c := proto.Clone(d).(*protocoltypes.Group) // Group.Copy drops the link key fields
				c.GroupType = gt
				if withSig {
					c.SecretSig = g.SecretSig
				}
				before := joinMS.OpLog().Len()
				if _, err := joinMS.GroupJoin(ctx, c); err == nil {
					descjoin++
				}
				descgrew += joinMS.OpLog().Len() - before
			}
		}
	}
	ev["descjoin"], ev["descgrew"] = descjoin, descgrew
	return append(out, ev)
}

// ---------------------------------------------------------------- entry point

func TestVerifInvite(t *testing.T) {
	scripts := vfLoadScripts(t)
	tr := vfOpenTrace(t)
	defer tr.Close()
	ctx, cancel := context.WithCancel(context.Background())
	defer cancel()

	// joiner 1: an account metadata store opened without activation
	peers, _, cleanupPeers := CreatePeersWithGroupTest(ctx, t, "", 1, 1)
	defer cleanupPeers()
	p := peers[0]
	ag, amd, err := p.SecretStore.GetGroupForAccount()
	vfMust2(err, "account group")
	agc, err := p.DB.OpenGroup(ctx, ag, nil)
	vfMust2(err, "open account group")
	defer agc.Close()
	js := map[string]*vfJoiner{"store": {name: "store", ms: agc.MetadataStore(), ss: p.SecretStore, acct: amd}}

	// joiner 2: a full service
	tp, cleanupTP := NewTestingProtocol(ctx, t, nil, nil)
	defer cleanupTP()
	svc, ok := tp.Service.(*service)
	if !ok {
		vfInfra(" unexpected service implementation %T", tp.Service)
	}
	sag := svc.getAccountGroup()
	if sag == nil {
		vfInfra(" service has no account group")
	}
	_, smd, err := tp.SecretStore.GetGroupForAccount()
	vfMust2(err, "account group")
	js["service"] = &vfJoiner{name: "service", ms: sag.MetadataStore(), ss: tp.SecretStore, svc: svc, acct: smd, maxAct: vfEnvInt("VERIF_MAXACT", 3)}
	js["service"].settle()

	for _, sc := range scripts {
		mode, _ := sc.Cfg["mode"].(string)
		switch mode {
		case "join":
			tr.EmitBlock(vfInviteJoinScript(ctx, js, sc))
		case "flips":
			via, _ := sc.Cfg["via"].(string)
			tr.EmitBlock(vfInviteFlipSweep(ctx, js[via], sc.ID))
		case "desc":
			gt, _ := sc.Cfg["gtype"].(string)
			tr.EmitBlock(vfInviteDescribe(ctx, p.DB, sc.ID, gt, js["store"].ms))
		default:
			vfInfra(" unknown mode %q", mode)
		}
	}
	t.Logf("VERIF-DONE scripts=%d events=%d", len(scripts), tr.n)
}
