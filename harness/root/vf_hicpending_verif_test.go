//go:build verif

package weshnet

// C06, contact layer, pending outgoing requests: the node (account B, a real service) has an
// undelivered outgoing contact request to an honest account K that takes no part in anything.  A peer
// that owns only its own key E completes an honest handshake with B's handleIncomingRequest and then
// announces a contact: K (variants: with / without rendezvous seed, with metadata) or itself.  Whatever
// is announced, B may act only on the key the handshake authenticated: nothing about K is appended, K
// stays "to request".  Verdict: MonContactPending.tla.

import (
	"bufio"
	"context"
	"crypto/rand"
	"net"
	"testing"
	"time"

	p2pcrypto "github.com/libp2p/go-libp2p/core/crypto"
	"github.com/libp2p/go-libp2p/core/network"
	mocknet "github.com/libp2p/go-libp2p/p2p/net/mock"
	"go.uber.org/zap"

	"berty.tech/weshnet/v2/internal/handshake"
	"berty.tech/weshnet/v2/pkg/protocoltypes"
	"berty.tech/weshnet/v2/pkg/protoio"
	"berty.tech/weshnet/v2/pkg/tinder"
)

type vfpStream struct {
	network.Stream
	c net.Conn
}

func (s vfpStream) Read(p []byte) (int, error)  { return s.c.Read(p) }
func (s vfpStream) Write(p []byte) (int, error) { return s.c.Write(p) }

// vfpCoalesce buffers what the peer writes until it reads again (or flushes): the last handshake frame and
// the contact frame that follows it then reach the node in ONE chunk, as a muxer or TCP may deliver them
type vfpCoalesce struct {
	c net.Conn
	w *bufio.Writer
}

func (x *vfpCoalesce) Read(p []byte) (int, error) {
	if err := x.w.Flush(); err != nil {
		return 0, err
	}
	return x.c.Read(p)
}
func (x *vfpCoalesce) Write(p []byte) (int, error) { return x.w.Write(p) }

func vfpKinds(ms *MetadataStore, from int) []string {
	out := []string{}
	es := ms.OpLog().Values().Slice()
	for _, e := range es[from:] {
		k := "?"
		if me, _, err := vfOpenMetadataEntry(ms.OpLog(), e, ms.group); err == nil {
			k = me.Metadata.EventType.String()
		}
		out = append(out, k)
	}
	return out
}

func TestVerifContactPending(t *testing.T) {
	scripts := vfLoadScripts(t)
	tr := vfOpenTrace(t)
	defer tr.Close()
	ctx, cancel := context.WithCancel(context.Background())
	defer cancel()
	mn := mocknet.New()
	defer mn.Close()
	tp, cleanup := NewTestingProtocol(ctx, t, &TestingOpts{Mocknet: mn, DiscoveryServer: tinder.NewMockDriverServer()}, nil)
	defer cleanup()
	svc := tp.Service.(*service)
	mgr := svc.contactRequestsManager
	if mgr == nil {
		vfInfra("service has no contact request manager")
	}
	ms := svc.accountGroupCtx.metadataStore
	bPub := mgr.accountPrivateKey.GetPublic()
	settle := func() int {
		last, same := ms.OpLog().Len(), 0
		for i := 0; i < 100 && same < 4; i++ {
			time.Sleep(20 * time.Millisecond)
			if n := ms.OpLog().Len(); n == last {
				same++
			} else {
				last, same = n, 0
			}
		}
		return last
	}
	for _, sc := range scripts {
		announce, _ := sc.Cfg["announce"].(string) // "victim" | "self"
		withSeed, _ := vfBool(sc.Cfg, "seed")
		withMeta, _ := vfBool(sc.Cfg, "meta")
		coalesce, _ := vfBool(sc.Cfg, "coalesce")
		out := []map[string]any{{"ev": "reset", "id": sc.ID}}
		_, kPub, err := p2pcrypto.GenerateEd25519Key(rand.Reader)
		if err != nil {
			vfInfra("key: %v", err)
		}
		eSK, ePub, err := p2pcrypto.GenerateEd25519Key(rand.Reader)
		if err != nil {
			vfInfra("key: %v", err)
		}
		kRaw, _ := kPub.Raw()
		eRaw, _ := ePub.Raw()
		seed := make([]byte, protocoltypes.RendezvousSeedLength)
		_, _ = rand.Read(seed)
		if _, err := ms.ContactRequestOutgoingEnqueue(ctx, &protocoltypes.ShareableContact{Pk: kRaw, PublicRendezvousSeed: seed}, []byte("own")); err != nil {
			vfInfra("enqueue: %v", err)
		}
		before := settle()
		stBefore := ms.getContactStatus(kPub).String()
		// the peer: honest handshake as E, then the announcement
		a, b := net.Pipe()
		done := make(chan error, 1)
		go func() { done <- mgr.handleIncomingRequest(ctx, vfpStream{c: b}) }()
		reader := protoio.NewDelimitedReader(a, 2048)
		writer := protoio.NewDelimitedWriter(a)
		var co *vfpCoalesce
		if coalesce {
			co = &vfpCoalesce{c: a, w: bufio.NewWriterSize(a, 1<<16)}
			reader = protoio.NewDelimitedReader(co, 2048)
			writer = protoio.NewDelimitedWriter(co)
		}
		hctx, hcancel := context.WithTimeout(ctx, 20*time.Second)
		herr := handshake.RequestUsingReaderWriter(hctx, zap.NewNop(), reader, writer, eSK, bPub)
		hcancel()
		contact := &protocoltypes.ShareableContact{Pk: kRaw}
		if announce == "self" {
			contact.Pk = eRaw
		}
		if withSeed {
			contact.PublicRendezvousSeed = seed
		}
		if withMeta {
			contact.Metadata = []byte("hello")
		}
		var werr error
		if herr == nil {
			_ = a.SetWriteDeadline(time.Now().Add(10 * time.Second))
			werr = writer.WriteMsg(contact)
			if co != nil && werr == nil {
				werr = co.w.Flush()
			}
		}
		var rerr error
		hung := false
		select {
		case rerr = <-done:
		case <-time.After(20 * time.Second):
			// everything the peer had to send has been delivered: a handler still waiting is an observation
			hung = true
			_ = a.Close()
			select {
			case rerr = <-done:
			case <-time.After(20 * time.Second):
				vfInfra("handleIncomingRequest does not return even after the stream was closed")
			}
		}
		_ = a.Close()
		_ = b.Close()
		after := settle()
		out = append(out, map[string]any{"ev": "pend", "announce": announce, "seed": withSeed, "meta": withMeta, "coalesce": coalesce,
			"handshake": herr == nil, "wrote": werr == nil, "err": rerr != nil, "hung": hung, "grew": after - before, "kinds": vfpKinds(ms, before),
			"victim_before": stBefore, "victim_after": ms.getContactStatus(kPub).String(), "peer_after": ms.getContactStatus(ePub).String()})
		tr.EmitBlock(out)
	}
	t.Logf("VERIF-DONE scripts=%d events=%d", len(scripts), tr.n)
}
