//go:build verif

package weshnet

// Driver for specs/ServiceAPI.tla (C19: no request can crash the service).
//
// Replays TLC-generated scripts on a real in-process protocol service (mocked IPFS, in-memory
// datastore): every step is one RPC of the protocol service with a request concretised from an
// abstract SHAPE [k,p,s] (see specs/ServiceAPIDefs.tla), called directly on the handler under
// recover() and - for about a tenth of the calls that did not panic - once more through the
// in-memory gRPC client (no recovery interceptor there: a panic kills this process, which the
// orchestrator detects through the progress files).  One ndjson line per call with the observed
// outcome class (ok | err | panic) and the projected service state the request met.

import (
	"bytes"
	"context"
	crand "crypto/rand"
	"errors"
	"fmt"
	"io"
	"math/rand"
	"os"
	"runtime/debug"
	"sort"
	"strings"
	"sync"
	"testing"
	"time"

	"filippo.io/edwards25519"
	"github.com/ipfs/go-cid"
	"github.com/libp2p/go-libp2p/core/crypto"
	mocknet "github.com/libp2p/go-libp2p/p2p/net/mock"
	mh "github.com/multiformats/go-multihash"
	"google.golang.org/grpc"
	"google.golang.org/grpc/codes"
	"google.golang.org/grpc/metadata"
	"google.golang.org/grpc/status"
	"google.golang.org/protobuf/proto"

	"berty.tech/weshnet/v2/pkg/cryptoutil"
	"berty.tech/weshnet/v2/pkg/protocoltypes"
	"berty.tech/weshnet/v2/pkg/tinder"
)

// ---------------------------------------------------------------- fake server stream

type vfFakeStream struct {
	ctx  context.Context
	fail bool
	mu   sync.Mutex
	n    int
}

func (f *vfFakeStream) SetHeader(metadata.MD) error  { return nil }
func (f *vfFakeStream) SendHeader(metadata.MD) error { return nil }
func (f *vfFakeStream) SetTrailer(metadata.MD)       {}
func (f *vfFakeStream) Context() context.Context     { return f.ctx }
func (f *vfFakeStream) RecvMsg(any) error            { return io.EOF }
func (f *vfFakeStream) SendMsg(m any) error {
	f.mu.Lock()
	defer f.mu.Unlock()
	if f.fail {
		return errors.New("vf: stream send refused")
	}
	if err := f.ctx.Err(); err != nil {
		return err
	}
	f.n++
	return nil
}

// ---------------------------------------------------------------- invokers (direct and gRPC)

type vfInvoker struct {
	direct func(s *service, ctx context.Context, req any, sb string) (int, error)
	grpc   func(cl protocoltypes.ProtocolServiceClient, ctx context.Context, req any) (int, error)
	stream bool
}

func vfU[Q any, R any](d func(*service, context.Context, *Q) (*R, error),
	c func(protocoltypes.ProtocolServiceClient, context.Context, *Q, ...grpc.CallOption) (*R, error)) vfInvoker {
	return vfInvoker{
		direct: func(s *service, ctx context.Context, req any, _ string) (int, error) {
			_, err := d(s, ctx, req.(*Q))
			return 0, err
		},
		grpc: func(cl protocoltypes.ProtocolServiceClient, ctx context.Context, req any) (int, error) {
			_, err := c(cl, ctx, req.(*Q))
			return 0, err
		},
	}
}

func vfS[Q any, R any](d func(*service, *Q, grpc.ServerStreamingServer[R]) error,
	c func(protocoltypes.ProtocolServiceClient, context.Context, *Q, ...grpc.CallOption) (grpc.ServerStreamingClient[R], error)) vfInvoker {
	return vfInvoker{
		stream: true,
		direct: func(s *service, ctx context.Context, req any, sb string) (int, error) {
			fs := &vfFakeStream{ctx: ctx, fail: sb == "fail"}
			err := d(s, req.(*Q), &grpc.GenericServerStream[Q, R]{ServerStream: fs})
			return fs.n, err
		},
		grpc: func(cl protocoltypes.ProtocolServiceClient, ctx context.Context, req any) (int, error) {
			st, err := c(cl, ctx, req.(*Q))
			if err != nil {
				return 0, err
			}
			n := 0
			for {
				_, err := st.Recv()
				if err == io.EOF {
					return n, nil
				}
				if err != nil {
					return n, err
				}
				n++
			}
		},
	}
}

type vfPC = protocoltypes.ProtocolServiceClient

var vfInvokers = map[string]vfInvoker{
	"ServiceExportData":                         vfS((*service).ServiceExportData, vfPC.ServiceExportData),
	"ServiceGetConfiguration":                   vfU((*service).ServiceGetConfiguration, vfPC.ServiceGetConfiguration),
	"ContactRequestReference":                   vfU((*service).ContactRequestReference, vfPC.ContactRequestReference),
	"ContactRequestDisable":                     vfU((*service).ContactRequestDisable, vfPC.ContactRequestDisable),
	"ContactRequestEnable":                      vfU((*service).ContactRequestEnable, vfPC.ContactRequestEnable),
	"ContactRequestResetReference":              vfU((*service).ContactRequestResetReference, vfPC.ContactRequestResetReference),
	"ContactRequestSend":                        vfU((*service).ContactRequestSend, vfPC.ContactRequestSend),
	"ContactRequestAccept":                      vfU((*service).ContactRequestAccept, vfPC.ContactRequestAccept),
	"ContactRequestDiscard":                     vfU((*service).ContactRequestDiscard, vfPC.ContactRequestDiscard),
	"ShareContact":                              vfU((*service).ShareContact, vfPC.ShareContact),
	"DecodeContact":                             vfU((*service).DecodeContact, vfPC.DecodeContact),
	"ContactBlock":                              vfU((*service).ContactBlock, vfPC.ContactBlock),
	"ContactUnblock":                            vfU((*service).ContactUnblock, vfPC.ContactUnblock),
	"ContactAliasKeySend":                       vfU((*service).ContactAliasKeySend, vfPC.ContactAliasKeySend),
	"MultiMemberGroupCreate":                    vfU((*service).MultiMemberGroupCreate, vfPC.MultiMemberGroupCreate),
	"MultiMemberGroupJoin":                      vfU((*service).MultiMemberGroupJoin, vfPC.MultiMemberGroupJoin),
	"MultiMemberGroupLeave":                     vfU((*service).MultiMemberGroupLeave, vfPC.MultiMemberGroupLeave),
	"MultiMemberGroupAliasResolverDisclose":     vfU((*service).MultiMemberGroupAliasResolverDisclose, vfPC.MultiMemberGroupAliasResolverDisclose),
	"MultiMemberGroupAdminRoleGrant":            vfU((*service).MultiMemberGroupAdminRoleGrant, vfPC.MultiMemberGroupAdminRoleGrant),
	"MultiMemberGroupInvitationCreate":          vfU((*service).MultiMemberGroupInvitationCreate, vfPC.MultiMemberGroupInvitationCreate),
	"AppMetadataSend":                           vfU((*service).AppMetadataSend, vfPC.AppMetadataSend),
	"AppMessageSend":                            vfU((*service).AppMessageSend, vfPC.AppMessageSend),
	"GroupMetadataList":                         vfS((*service).GroupMetadataList, vfPC.GroupMetadataList),
	"GroupMessageList":                          vfS((*service).GroupMessageList, vfPC.GroupMessageList),
	"GroupInfo":                                 vfU((*service).GroupInfo, vfPC.GroupInfo),
	"ActivateGroup":                             vfU((*service).ActivateGroup, vfPC.ActivateGroup),
	"DeactivateGroup":                           vfU((*service).DeactivateGroup, vfPC.DeactivateGroup),
	"GroupDeviceStatus":                         vfS((*service).GroupDeviceStatus, vfPC.GroupDeviceStatus),
	"DebugListGroups":                           vfS((*service).DebugListGroups, vfPC.DebugListGroups),
	"DebugInspectGroupStore":                    vfS((*service).DebugInspectGroupStore, vfPC.DebugInspectGroupStore),
	"DebugGroup":                                vfU((*service).DebugGroup, vfPC.DebugGroup),
	"SystemInfo":                                vfU((*service).SystemInfo, vfPC.SystemInfo),
	"CredentialVerificationServiceInitFlow":     vfU((*service).CredentialVerificationServiceInitFlow, vfPC.CredentialVerificationServiceInitFlow),
	"CredentialVerificationServiceCompleteFlow": vfU((*service).CredentialVerificationServiceCompleteFlow, vfPC.CredentialVerificationServiceCompleteFlow),
	"VerifiedCredentialsList":                   vfS((*service).VerifiedCredentialsList, vfPC.VerifiedCredentialsList),
	"ReplicationServiceRegisterGroup":           vfU((*service).ReplicationServiceRegisterGroup, vfPC.ReplicationServiceRegisterGroup),
	"PeerList":                                  vfU((*service).PeerList, vfPC.PeerList),
	"OutOfStoreReceive":                         vfU((*service).OutOfStoreReceive, vfPC.OutOfStoreReceive),
	"OutOfStoreSeal":                            vfU((*service).OutOfStoreSeal, vfPC.OutOfStoreSeal),
	"RefreshContactRequest":                     vfU((*service).RefreshContactRequest, vfPC.RefreshContactRequest),
}

// ---------------------------------------------------------------- the world: one reusable service

type vfContact struct {
	pk   crypto.PubKey
	raw  []byte
	seed []byte
}

type vfSvc struct {
	t       testing.TB
	ctx     context.Context
	tp      *TestingProtocol
	cleanup func()
	s       *service
	rnd     *rand.Rand

	acctPK   []byte
	selfPK   []byte
	gm       *protocoltypes.Group
	gmMsgCID []byte
	gmMetaID []byte
	oosValid []byte
	shared   []byte
	contacts map[string]*vfContact
	dirty    map[string]bool
	gc       *protocoltypes.Group
	odd      *protocoltypes.Group // last oddly shaped group handed to MultiMemberGroupJoin
	poisoned bool                 // an odd group was joined or a panic left the service in doubt
	calls    int
}

func vfMustOK(err error, what string) {
	if err != nil {
		vfInfra("setup: %s: %v", what, err)
	}
}

func vfNewKey() (crypto.PubKey, []byte) {
	_, pub, err := crypto.GenerateEd25519Key(crand.Reader)
	vfMustOK(err, "keygen")
	raw, err := pub.Raw()
	vfMustOK(err, "raw")
	return pub, raw
}

func vfNewSvc(t testing.TB, salt int64) *vfSvc {
	ctx := context.Background()
	mn := mocknet.New()
	tp, cleanup := NewTestingProtocol(ctx, t, &TestingOpts{Mocknet: mn, DiscoveryServer: tinder.NewMockDriverServer()}, nil)
	w := &vfSvc{t: t, ctx: ctx, tp: tp, s: tp.Service.(*service), rnd: vfRand(salt),
		contacts: map[string]*vfContact{}, dirty: map[string]bool{}}
	w.cleanup = func() { cleanup(); _ = mn.Close() }
	cfg, err := w.s.ServiceGetConfiguration(ctx, &protocoltypes.ServiceGetConfiguration_Request{})
	vfMustOK(err, "configuration")
	w.acctPK, w.selfPK = cfg.AccountGroupPk, cfg.AccountPk
	// gm: a multi-member group created (joined + activated) by this account, with one message and one metadata entry
	cr, err := w.s.MultiMemberGroupCreate(ctx, &protocoltypes.MultiMemberGroupCreate_Request{})
	vfMustOK(err, "create gm")
	inv, err := w.s.MultiMemberGroupInvitationCreate(ctx, &protocoltypes.MultiMemberGroupInvitationCreate_Request{GroupPk: cr.GroupPk})
	vfMustOK(err, "invitation gm")
	w.gm = inv.Group
	ms, err := w.s.AppMessageSend(ctx, &protocoltypes.AppMessageSend_Request{GroupPk: cr.GroupPk, Payload: []byte("vf message")})
	vfMustOK(err, "message gm")
	w.gmMsgCID = ms.Cid
	md, err := w.s.AppMetadataSend(ctx, &protocoltypes.AppMetadataSend_Request{GroupPk: cr.GroupPk, Payload: []byte("vf metadata")})
	vfMustOK(err, "metadata gm")
	w.gmMetaID = md.Cid
	if sealed, err := w.s.OutOfStoreSeal(ctx, &protocoltypes.OutOfStoreSeal_Request{Cid: ms.Cid, GroupPublicKey: cr.GroupPk}); err == nil {
		w.oosValid = sealed.Encrypted
	} else {
		vfInfra("setup: cannot seal out-of-store message: %v", err)
	}
	sh, err := w.s.ShareContact(ctx, &protocoltypes.ShareContact_Request{})
	vfMustOK(err, "share contact")
	w.shared = sh.EncodedContact
	for _, c := range []string{"ct", "cr", "ca", "cb"} {
		w.dirty[c] = true
	}
	w.reset()
	return w
}

func (w *vfSvc) close() {
	done := make(chan struct{})
	go func() { defer close(done); defer func() { _ = recover() }(); w.cleanup() }()
	select {
	case <-done:
	case <-time.After(60 * time.Second):
		vfInfra("service close hung")
	}
}

func (w *vfSvc) isOpen(pk []byte) bool {
	w.s.lock.RLock()
	defer w.s.lock.RUnlock()
	_, ok := w.s.openedGroups[string(pk)]
	return ok
}

func (w *vfSvc) acctOpen() bool { return w.s.getAccountGroup() != nil }

func (w *vfSvc) activate(pk []byte, what string) {
	_, err := w.s.ActivateGroup(w.ctx, &protocoltypes.ActivateGroup_Request{GroupPk: pk})
	vfMustOK(err, "reset: activate "+what)
}

// newContact brings a fresh contact into the lifecycle state the model names it after
func (w *vfSvc) newContact(name string) {
	pk, raw := vfNewKey()
	seed := make([]byte, 32)
	w.rnd.Read(seed)
	c := &vfContact{pk: pk, raw: raw, seed: seed}
	ms := w.s.getAccountGroup().MetadataStore()
	sc := &protocoltypes.ShareableContact{Pk: raw, PublicRendezvousSeed: seed}
	switch name {
	case "ct":
		_, err := w.s.ContactRequestSend(w.ctx, &protocoltypes.ContactRequestSend_Request{Contact: sc})
		vfMustOK(err, "contact ct")
	case "cr":
		_, err := ms.ContactRequestIncomingReceived(w.ctx, sc)
		vfMustOK(err, "contact cr")
	case "ca":
		_, err := ms.ContactRequestIncomingReceived(w.ctx, sc)
		vfMustOK(err, "contact ca (received)")
		_, err = w.s.ContactRequestAccept(w.ctx, &protocoltypes.ContactRequestAccept_Request{ContactPk: raw})
		vfMustOK(err, "contact ca (accept)")
		if w.gc != nil && w.isOpen(w.gc.PublicKey) {
			_, _ = w.s.DeactivateGroup(w.ctx, &protocoltypes.DeactivateGroup_Request{GroupPk: w.gc.PublicKey})
		}
		g, err := w.s.secretStore.GetGroupForContact(pk)
		vfMustOK(err, "contact group")
		w.gc = g
	case "cb":
		_, err := w.s.ContactBlock(w.ctx, &protocoltypes.ContactBlock_Request{ContactPk: raw})
		vfMustOK(err, "contact cb")
	}
	w.contacts[name] = c
	delete(w.dirty, name)
}

// reset restores the canonical initial abstract state: everything open, gm joined, one contact per lifecycle state
func (w *vfSvc) reset() {
	if !w.acctOpen() {
		w.activate(w.acctPK, "account group")
	}
	ms := w.s.getAccountGroup().MetadataStore()
	if !ms.checkIfInGroup(w.gm.PublicKey) {
		_, err := ms.GroupJoin(w.ctx, w.gm)
		vfMustOK(err, "reset: rejoin gm")
	}
	if !w.isOpen(w.gm.PublicKey) {
		w.activate(w.gm.PublicKey, "gm")
	}
	// a tracked contact that is no longer in the lifecycle state it is named after is replaced by a fresh one
	want := map[string]string{"ct": "T", "cr": "R", "ca": "A", "cb": "B"}
	for c, k := range w.contacts {
		if vfStateNames[ms.getContactStatus(k.pk)] != want[c] {
			w.dirty[c] = true
		}
	}
	names := []string{}
	for c := range w.dirty {
		names = append(names, c)
	}
	sort.Strings(names)
	for _, c := range names {
		w.newContact(c)
	}
	if !w.isOpen(w.gc.PublicKey) {
		w.activate(w.gc.PublicKey, "gc")
	}
	w.s.lock.Lock()
	w.s.vcClient = nil
	w.s.lock.Unlock()
	w.odd = nil
}

var vfStateNames = map[protocoltypes.ContactState]string{
	protocoltypes.ContactState_ContactStateUndefined: "U", protocoltypes.ContactState_ContactStateToRequest: "T",
	protocoltypes.ContactState_ContactStateReceived: "R", protocoltypes.ContactState_ContactStateAdded: "A",
	protocoltypes.ContactState_ContactStateRemoved: "X", protocoltypes.ContactState_ContactStateDiscarded: "D",
	protocoltypes.ContactState_ContactStateBlocked: "B",
}

// proj: the abstract state as far as it can be read off the real service
func (w *vfSvc) proj() map[string]any {
	ag := w.s.getAccountGroup()
	st := map[string]any{"acct": ag != nil, "gm": w.isOpen(w.gm.PublicKey), "gc": w.isOpen(w.gc.PublicKey), "gmj": "?"}
	cs := map[string]any{}
	for _, c := range []string{"ct", "cr", "ca", "cb"} {
		cs[c] = "?"
	}
	if ag != nil {
		func() {
			defer func() { _ = recover() }()
			ms := ag.MetadataStore()
			if ms.checkIfInGroup(w.gm.PublicKey) {
				st["gmj"] = "y"
			} else {
				st["gmj"] = "n"
			}
			for c, k := range w.contacts {
				cs[c] = vfStateNames[ms.getContactStatus(k.pk)]
			}
		}()
	}
	st["cs"] = cs
	return st
}

// ---------------------------------------------------------------- concretisation of shapes

var vfShortSizes = []int{1, 2, 16, 31}
var vfOverSizes = []int{33, 64, 65, 1024, 65536}

func vfBytes(r *rand.Rand, n int) []byte {
	b := make([]byte, n)
	r.Read(b)
	return b
}

// 32 bytes that are not the encoding of a curve point
func vfNonPoint(r *rand.Rand) []byte {
	for i := 0; i < 1000; i++ {
		b := vfBytes(r, 32)
		if _, err := new(edwards25519.Point).SetBytes(b); err != nil {
			return b
		}
	}
	vfInfra("no non-point found")
	return nil
}

// bytes that no protobuf message decodes
func vfUndecodable(r *rand.Rand, n int, m proto.Message) []byte {
	for i := 0; i < 1000; i++ {
		b := vfBytes(r, n)
		b[0] = 0x07 | (b[0] & 0xf8) // wire type 7 does not exist
		if proto.Unmarshal(b, proto.Clone(m)) != nil {
			return b
		}
	}
	vfInfra("no undecodable bytes found")
	return nil
}

func (w *vfSvc) key(k string, r *rand.Rand) []byte {
	switch k {
	case "nil", "-":
		return nil
	case "empty":
		return []byte{}
	case "short":
		return vfBytes(r, vfShortSizes[r.Intn(len(vfShortSizes))])
	case "garb":
		return vfNonPoint(r)
	case "over":
		return vfBytes(r, vfOverSizes[r.Intn(len(vfOverSizes))])
	case "unk":
		_, raw := vfNewKey()
		return raw
	case "acct":
		return w.acctPK
	case "gm":
		return w.gm.PublicKey
	case "gc":
		return w.gc.PublicKey
	case "odd":
		if w.odd == nil {
			vfInfra("script names the odd group before joining one")
		}
		return w.odd.PublicKey
	case "self":
		return w.selfPK
	case "ct", "cr", "ca", "cb":
		return w.contacts[k].raw
	}
	vfInfra("unknown key class %q", k)
	return nil
}

func vfRandomCID(r *rand.Rand) []byte {
	h, err := mh.Sum(vfBytes(r, 32), mh.SHA2_256, -1)
	vfMustOK(err, "multihash")
	return cid.NewCidV1(cid.DagCBOR, h).Bytes()
}

func (w *vfSvc) oddGroup(p string, r *rand.Rand) *protocoltypes.Group {
	g, sk, err := NewGroupMultiMember()
	vfMustOK(err, "new group")
	resign := func() {
		sig, err := sk.Sign(g.Secret)
		vfMustOK(err, "sign")
		g.SecretSig = sig
	}
	switch p {
	case "fresh":
	case "badsig":
		g.SecretSig[r.Intn(len(g.SecretSig))] ^= 1 << uint(r.Intn(8))
	case "garb":
		g = &protocoltypes.Group{PublicKey: vfBytes(r, 32), Secret: vfBytes(r, 32), SecretSig: vfBytes(r, 64), GroupType: protocoltypes.GroupType_GroupTypeMultiMember}
	case "nopk":
		g.PublicKey = nil
	case "shortsecret":
		g.Secret = vfBytes(r, []int{1, 5, 31}[r.Intn(3)])
		resign()
	case "over":
		g.Secret = vfBytes(r, []int{33, 64, 65536}[r.Intn(3)])
		resign()
	case "typecontact":
		g.GroupType = protocoltypes.GroupType_GroupTypeContact
	default:
		vfInfra("unknown group shape %q", p)
	}
	return g
}

func (w *vfSvc) listReq(rpc string, a vfShape, r *rand.Rand) (gpk, since, until []byte, sinceNow, untilNow, reverse bool) {
	gpk = w.key(a.K, r)
	known := w.gmMetaID
	if rpc == "GroupMessageList" {
		known = w.gmMsgCID
	}
	switch a.P {
	case "all":
	case "untilnow":
		untilNow = true
	case "sincenow":
		sinceNow = true
	case "bothnow":
		sinceNow, untilNow = true, true
	case "idnow":
		since, sinceNow = known, true
	case "revopen":
		reverse = true
	case "revnow":
		reverse, untilNow = true, true
	case "garbid":
		since, untilNow = vfBytes(r, 5), true
	case "unkid":
		since, untilNow = vfRandomCID(r), true
	case "knownid":
		since, untilNow = known, true
	default:
		vfInfra("unknown list shape %q", a.P)
	}
	return
}

type vfShape struct{ K, P, S string }

// build concretises the request of one RPC from its shape
func (w *vfSvc) build(rpc string, a vfShape, r *rand.Rand) any {
	pt := protocoltypes.ShareableContact{}
	_ = pt
	switch rpc {
	case "ServiceExportData":
		return &protocoltypes.ServiceExportData_Request{}
	case "ServiceGetConfiguration":
		return &protocoltypes.ServiceGetConfiguration_Request{}
	case "ContactRequestReference":
		return &protocoltypes.ContactRequestReference_Request{}
	case "ContactRequestDisable":
		return &protocoltypes.ContactRequestDisable_Request{}
	case "ContactRequestEnable":
		return &protocoltypes.ContactRequestEnable_Request{}
	case "ContactRequestResetReference":
		return &protocoltypes.ContactRequestResetReference_Request{}
	case "ShareContact":
		return &protocoltypes.ShareContact_Request{}
	case "MultiMemberGroupCreate":
		return &protocoltypes.MultiMemberGroupCreate_Request{}
	case "SystemInfo":
		return &protocoltypes.SystemInfo_Request{}
	case "PeerList":
		return &protocoltypes.PeerList_Request{}
	case "DebugListGroups":
		return &protocoltypes.DebugListGroups_Request{}
	case "ContactRequestSend":
		if a.K == "nomsg" {
			return &protocoltypes.ContactRequestSend_Request{}
		}
		sc := &protocoltypes.ShareableContact{Pk: w.key(a.K, r)}
		req := &protocoltypes.ContactRequestSend_Request{Contact: sc}
		switch a.P {
		case "ok":
			sc.PublicRendezvousSeed = vfBytes(r, 32)
			if c, ok := w.contacts[a.K]; ok {
				sc.PublicRendezvousSeed = c.seed
			}
		case "nil":
		case "short":
			sc.PublicRendezvousSeed = vfBytes(r, vfShortSizes[r.Intn(len(vfShortSizes))])
		case "over":
			sc.PublicRendezvousSeed = vfBytes(r, vfOverSizes[r.Intn(len(vfOverSizes))])
		case "bigmeta":
			sc.PublicRendezvousSeed = vfBytes(r, 32)
			sc.Metadata = vfBytes(r, 65536)
			req.OwnMetadata = vfBytes(r, 65536)
		default:
			vfInfra("unknown seed shape %q", a.P)
		}
		return req
	case "ContactRequestAccept":
		return &protocoltypes.ContactRequestAccept_Request{ContactPk: w.key(a.K, r)}
	case "ContactRequestDiscard":
		return &protocoltypes.ContactRequestDiscard_Request{ContactPk: w.key(a.K, r)}
	case "ContactBlock":
		return &protocoltypes.ContactBlock_Request{ContactPk: w.key(a.K, r)}
	case "ContactUnblock":
		return &protocoltypes.ContactUnblock_Request{ContactPk: w.key(a.K, r)}
	case "RefreshContactRequest":
		return &protocoltypes.RefreshContactRequest_Request{ContactPk: w.key(a.K, r)}
	case "DecodeContact":
		var b []byte
		switch a.P {
		case "nil":
		case "empty":
			b = []byte{}
		case "short":
			b = vfUndecodable(r, 1+r.Intn(3), &protocoltypes.ShareableContact{})
		case "garb":
			b = vfUndecodable(r, 40+r.Intn(40), &protocoltypes.ShareableContact{})
		case "over":
			b = vfUndecodable(r, 65536, &protocoltypes.ShareableContact{})
		case "valid":
			b = w.shared
		default:
			vfInfra("unknown contact encoding %q", a.P)
		}
		return &protocoltypes.DecodeContact_Request{EncodedContact: b}
	case "ContactAliasKeySend":
		return &protocoltypes.ContactAliasKeySend_Request{GroupPk: w.key(a.K, r)}
	case "MultiMemberGroupLeave":
		return &protocoltypes.MultiMemberGroupLeave_Request{GroupPk: w.key(a.K, r)}
	case "MultiMemberGroupAliasResolverDisclose":
		return &protocoltypes.MultiMemberGroupAliasResolverDisclose_Request{GroupPk: w.key(a.K, r)}
	case "MultiMemberGroupInvitationCreate":
		return &protocoltypes.MultiMemberGroupInvitationCreate_Request{GroupPk: w.key(a.K, r)}
	case "MultiMemberGroupAdminRoleGrant":
		return &protocoltypes.MultiMemberGroupAdminRoleGrant_Request{GroupPk: w.key(a.K, r), MemberPk: vfBytes(r, 32)}
	case "DeactivateGroup":
		return &protocoltypes.DeactivateGroup_Request{GroupPk: w.key(a.K, r)}
	case "DebugGroup":
		return &protocoltypes.DebugGroup_Request{GroupPk: w.key(a.K, r)}
	case "ActivateGroup":
		return &protocoltypes.ActivateGroup_Request{GroupPk: w.key(a.K, r), LocalOnly: a.P == "local"}
	case "GroupDeviceStatus":
		return &protocoltypes.GroupDeviceStatus_Request{GroupPk: w.key(a.K, r)}
	case "MultiMemberGroupJoin":
		switch a.P {
		case "nomsg":
			return &protocoltypes.MultiMemberGroupJoin_Request{}
		case "emptymsg":
			return &protocoltypes.MultiMemberGroupJoin_Request{Group: &protocoltypes.Group{}}
		case "known":
			return &protocoltypes.MultiMemberGroupJoin_Request{Group: w.gm}
		}
		g := w.oddGroup(a.P, r)
		if a.P == "shortsecret" || a.P == "over" || a.P == "typecontact" {
			w.odd = g
		}
		return &protocoltypes.MultiMemberGroupJoin_Request{Group: g}
	case "GroupInfo":
		if a.P == "c" {
			return &protocoltypes.GroupInfo_Request{ContactPk: w.key(a.K, r)}
		}
		return &protocoltypes.GroupInfo_Request{GroupPk: w.key(a.K, r)}
	case "AppMetadataSend", "AppMessageSend":
		var pl []byte
		switch a.P {
		case "nil":
		case "small":
			pl = vfPayload(r, r.Intn(len(vfSizes)))
		case "over":
			pl = vfBytes(r, 256*1024)
		default:
			vfInfra("unknown payload shape %q", a.P)
		}
		if rpc == "AppMetadataSend" {
			return &protocoltypes.AppMetadataSend_Request{GroupPk: w.key(a.K, r), Payload: pl}
		}
		return &protocoltypes.AppMessageSend_Request{GroupPk: w.key(a.K, r), Payload: pl}
	case "GroupMetadataList":
		g, si, ui, sn, un, rev := w.listReq(rpc, a, r)
		return &protocoltypes.GroupMetadataList_Request{GroupPk: g, SinceId: si, UntilId: ui, SinceNow: sn, UntilNow: un, ReverseOrder: rev}
	case "GroupMessageList":
		g, si, ui, sn, un, rev := w.listReq(rpc, a, r)
		return &protocoltypes.GroupMessageList_Request{GroupPk: g, SinceId: si, UntilId: ui, SinceNow: sn, UntilNow: un, ReverseOrder: rev}
	case "DebugInspectGroupStore":
		lt := map[string]protocoltypes.DebugInspectGroupLogType{
			"undef":   protocoltypes.DebugInspectGroupLogType_DebugInspectGroupLogTypeUndefined,
			"msg":     protocoltypes.DebugInspectGroupLogType_DebugInspectGroupLogTypeMessage,
			"meta":    protocoltypes.DebugInspectGroupLogType_DebugInspectGroupLogTypeMetadata,
			"badtype": protocoltypes.DebugInspectGroupLogType(99),
		}[a.P]
		return &protocoltypes.DebugInspectGroupStore_Request{GroupPk: w.key(a.K, r), LogType: lt}
	case "CredentialVerificationServiceInitFlow":
		req := &protocoltypes.CredentialVerificationServiceInitFlow_Request{ServiceUrl: "http://127.0.0.1:1", Link: "berty://vf", PublicKey: w.selfPK}
		switch a.P {
		case "own":
		case "nil":
			req.PublicKey = nil
		case "garb":
			req.PublicKey = vfBytes(r, 32)
		case "badurl":
			req.ServiceUrl = "::not a url::\x7f"
		default:
			vfInfra("unknown init flow shape %q", a.P)
		}
		return req
	case "CredentialVerificationServiceCompleteFlow":
		uri := map[string]string{"empty": "", "garb": "::%%%\x7f", "nocred": "berty://vc/proof?state=",
			"badcred": "berty://vc/proof?state=&credentials=" + string(vfAlnum(r, 40))}[a.P]
		return &protocoltypes.CredentialVerificationServiceCompleteFlow_Request{CallbackUri: uri}
	case "VerifiedCredentialsList":
		req := &protocoltypes.VerifiedCredentialsList_Request{}
		if a.P == "filters" {
			req.FilterIdentifier, req.FilterIssuer, req.ExcludeExpired = string(vfAlnum(r, 12)), string(vfAlnum(r, 12)), true
		}
		return req
	case "ReplicationServiceRegisterGroup":
		req := &protocoltypes.ReplicationServiceRegisterGroup_Request{GroupPk: w.key(a.K, r), Token: "vf-token", AuthenticationUrl: "http://127.0.0.1:1", ReplicationServer: "127.0.0.1:1"}
		switch a.P {
		case "ok":
		case "notoken":
			req.Token = ""
		case "noserver":
			req.ReplicationServer = ""
		default:
			vfInfra("unknown replication shape %q", a.P)
		}
		return req
	case "OutOfStoreReceive":
		var b []byte
		env := &protocoltypes.OutOfStoreMessageEnvelope{}
		switch a.P {
		case "nil":
		case "empty":
			b = []byte{}
		case "short":
			b = vfUndecodable(r, 1+r.Intn(3), env)
		case "garb":
			b = vfUndecodable(r, 64+r.Intn(64), env)
		case "over":
			b = vfUndecodable(r, 65536, env)
		case "badref":
			b, _ = proto.Marshal(&protocoltypes.OutOfStoreMessageEnvelope{Nonce: vfBytes(r, 24), Box: vfBytes(r, 80), GroupReference: vfBytes(r, 32)})
		case "badbox":
			vfMustOK(proto.Unmarshal(w.oosValid, env), "valid envelope")
			switch r.Intn(3) {
			case 0:
				env.Box = vfBytes(r, len(env.Box))
			case 1:
				env.Nonce = env.Nonce[:r.Intn(len(env.Nonce))]
			default:
				env.Box = env.Box[:r.Intn(16)]
			}
			b, _ = proto.Marshal(env)
		case "valid":
			b = w.oosValid
		default:
			vfInfra("unknown out-of-store shape %q", a.P)
		}
		return &protocoltypes.OutOfStoreReceive_Request{Payload: b}
	case "OutOfStoreSeal":
		var c []byte
		switch a.P {
		case "nil":
		case "garb":
			c = vfBytes(r, 1+r.Intn(40))
		case "unkcid":
			c = vfRandomCID(r)
		case "known":
			c = w.gmMsgCID
		default:
			vfInfra("unknown cid shape %q", a.P)
		}
		return &protocoltypes.OutOfStoreSeal_Request{Cid: c, GroupPublicKey: w.key(a.K, r)}
	}
	vfInfra("unknown rpc %q", rpc)
	return nil
}

func vfAlnum(r *rand.Rand, n int) []byte {
	const cs = "abcdefghijklmnopqrstuvwxyzABCDEFGHIJKLMNOPQRSTUVWXYZ0123456789"
	b := make([]byte, n)
	for i := range b {
		b[i] = cs[r.Intn(len(cs))]
	}
	return b
}

// ---------------------------------------------------------------- calls

// calls that wait for the network or for new events by design: a short deadline ends them
func vfDeadline(rpc string, a vfShape) time.Duration {
	switch {
	case rpc == "GroupDeviceStatus", rpc == "RefreshContactRequest":
		return 50 * time.Millisecond
	case (rpc == "GroupMetadataList" || rpc == "GroupMessageList") && (a.P == "all" || a.P == "sincenow"):
		return 50 * time.Millisecond
	case rpc == "ReplicationServiceRegisterGroup", rpc == "CredentialVerificationServiceInitFlow":
		return 500 * time.Millisecond
	}
	return 30 * time.Second
}

type vfOutcome struct {
	out   string // ok | err | panic
	code  string
	n     int
	site  string
	stack string
}

// the first frame of the repository under the panic
func vfSite(stack string) string {
	lines := strings.Split(stack, "\n")
	seenPanic := false
	for _, l := range lines {
		if strings.HasPrefix(l, "panic(") {
			seenPanic = true
			continue
		}
		if !seenPanic || strings.HasPrefix(l, "\t") {
			continue
		}
		if strings.HasPrefix(l, "berty.tech/weshnet/v2") && !strings.Contains(l, "vf") {
			if i := strings.LastIndex(l, "("); i > 0 {
				l = l[:i]
			}
			return strings.TrimPrefix(l, "berty.tech/weshnet/v2")
		}
	}
	return "?"
}

func vfShortStack(stack string) string {
	lines := strings.Split(stack, "\n")
	out := []string{}
	seenPanic := false
	for _, l := range lines {
		if strings.HasPrefix(l, "panic(") {
			seenPanic = true
		}
		if seenPanic && !strings.HasPrefix(l, "\t") {
			out = append(out, l)
		}
		if len(out) >= 8 {
			break
		}
	}
	return strings.Join(out, " <- ")
}

func vfErrCode(err error) string {
	if err == nil {
		return ""
	}
	s := err.Error()
	if st, ok := status.FromError(err); ok && (st.Code() == codes.DeadlineExceeded || st.Code() == codes.Canceled) {
		return st.Code().String()
	}
	if len(s) > 100 {
		s = s[:100]
	}
	return s
}

// guarded runs f in its own goroutine under recover, with a watchdog
func vfGuarded(what string, f func() (int, error)) vfOutcome {
	ch := make(chan vfOutcome, 1)
	go func() {
		var o vfOutcome
		defer func() {
			if p := recover(); p != nil {
				if ps, ok := p.(string); ok && strings.HasPrefix(ps, "VERIF-INFRA") {
					panic(p)
				}
				st := string(debug.Stack())
				o = vfOutcome{out: "panic", code: fmt.Sprint(p), site: vfSite(st), stack: vfShortStack(st)}
				if len(o.code) > 120 {
					o.code = o.code[:120]
				}
			}
			ch <- o
		}()
		n, err := f()
		o.n = n
		if err != nil {
			o.out, o.code = "err", vfErrCode(err)
		} else {
			o.out = "ok"
		}
	}()
	select {
	case o := <-ch:
		return o
	case <-time.After(90 * time.Second):
		vfInfra("call hung: %s", what)
	}
	return vfOutcome{}
}

func (w *vfSvc) call(rpc string, a vfShape, req any, via string) vfOutcome {
	inv, ok := vfInvokers[rpc]
	if !ok {
		vfInfra("no invoker for %q", rpc)
	}
	ctx, cancel := context.WithTimeout(w.ctx, vfDeadline(rpc, a))
	defer cancel()
	w.calls++
	if via == "grpc" {
		o := vfGuarded(rpc+" via grpc", func() (int, error) { return inv.grpc(w.tp.Client, ctx, proto.Clone(req.(proto.Message))) })
		if o.out == "err" && inv.stream && (o.code == codes.DeadlineExceeded.String() || o.code == codes.Canceled.String()) {
			o.out = "ok" // the client ended an open-ended stream
		}
		return o
	}
	return vfGuarded(rpc, func() (int, error) { return inv.direct(w.s, ctx, req, a.S) })
}

// healthy: can the service still be used after a recovered panic?
func (w *vfSvc) healthy() bool {
	if !w.s.lock.TryLock() {
		return false
	}
	w.s.lock.Unlock()
	if ag := w.s.getAccountGroup(); ag != nil {
		idx, ok := ag.MetadataStore().Index().(*metadataStoreIndex)
		if ok {
			if !idx.lock.TryLock() {
				return false
			}
			idx.lock.Unlock()
		}
	}
	return true
}

// ---------------------------------------------------------------- helpers (stateless)

func vfHelper(fn, cls string, r *rand.Rand) vfOutcome {
	sized := func(valid int) []byte {
		switch cls {
		case "empty":
			return []byte{}
		case "short":
			return vfBytes(r, 1+r.Intn(valid-1))
		case "over":
			return vfBytes(r, valid+1+r.Intn(64))
		case "garb":
			return vfNonPoint(r)
		}
		return vfBytes(r, valid)
	}
	key := vfBytes(r, 32)
	e := func(err error) (int, error) { return 0, err }
	return vfGuarded("helper "+fn, func() (int, error) {
		switch fn {
		case "AESGCMDecrypt":
			ct, err := cryptoutil.AESGCMEncrypt(key, vfPayload(r, r.Intn(len(vfSizes))))
			vfMustOK(err, "encrypt")
			var data []byte
			switch cls {
			case "empty":
				data = []byte{}
			case "short":
				data = vfBytes(r, 1+r.Intn(11))
			case "nonce":
				data = vfBytes(r, 12)
			case "garb":
				data = vfBytes(r, 13+r.Intn(100))
			case "valid":
				data = ct
			case "badkey":
				data, key = ct, vfBytes(r, []int{0, 1, 15, 33}[r.Intn(4)])
			}
			pt, err := cryptoutil.AESGCMDecrypt(key, data)
			_ = pt
			return e(err)
		case "AESGCMEncrypt":
			data := vfPayload(r, r.Intn(len(vfSizes)))
			if cls == "empty" {
				data = nil
			}
			if cls == "badkey" {
				key = vfBytes(r, []int{0, 1, 15, 33}[r.Intn(4)])
			}
			_, err := cryptoutil.AESGCMEncrypt(key, data)
			return e(err)
		case "AESCTRStream":
			iv := vfBytes(r, 16)
			switch cls {
			case "empty":
				iv = []byte{}
			case "short":
				iv = vfBytes(r, 1+r.Intn(15))
			case "over":
				iv = vfBytes(r, 17+r.Intn(32))
			case "badkey":
				key = vfBytes(r, []int{1, 15, 33}[r.Intn(3)])
			case "nilkey":
				key = nil
			}
			st, err := cryptoutil.AESCTRStream(key, iv)
			if err == nil {
				buf := vfBytes(r, 64)
				st.XORKeyStream(buf, buf)
			}
			return e(err)
		case "KeySliceToArray":
			_, err := cryptoutil.KeySliceToArray(sized(32))
			return e(err)
		case "NonceSliceToArray":
			_, err := cryptoutil.NonceSliceToArray(sized(24))
			return e(err)
		case "PublicKeyToCurve25519":
			var out [32]byte
			b := sized(32)
			if cls == "valid" {
				_, b = vfNewKey()
			}
			return e(cryptoutil.PublicKeyToCurve25519(&out, b))
		case "ShareableContactCheckFormat", "ShareableContactGetPubKey":
			sc := &protocoltypes.ShareableContact{Pk: sized(32), PublicRendezvousSeed: vfBytes(r, 32)}
			if cls == "valid" {
				_, sc.Pk = vfNewKey()
			}
			// what an application does with a link: decode, then check
			b, _ := proto.Marshal(sc)
			sc2 := &protocoltypes.ShareableContact{}
			vfMustOK(proto.Unmarshal(b, sc2), "contact round trip")
			if fn == "ShareableContactGetPubKey" {
				_, err := sc2.GetPubKey()
				return e(err)
			}
			return e(sc2.CheckFormat())
		case "GroupIsValid", "GroupGetSigningPubKey", "GroupGetLinkKeyArray":
			g, sk, err := NewGroupMultiMember()
			vfMustOK(err, "group")
			if cls != "valid" {
				// an invitation made by whoever owns the group key: the signature is genuine, the secret is not 32 bytes
				g.Secret = sized(32)
				if cls == "garb" {
					g.PublicKey = vfNonPoint(r)
				} else {
					g.SecretSig, err = sk.Sign(g.Secret)
					vfMustOK(err, "sign")
				}
				g.LinkKey = nil
			}
			switch fn {
			case "GroupIsValid":
				return e(g.IsValid())
			case "GroupGetSigningPubKey":
				_, err := g.GetSigningPubKey()
				return e(err)
			default:
				_, err := g.GetLinkKeyArray()
				return e(err)
			}
		}
		vfInfra("unknown helper %q", fn)
		return 0, nil
	})
}

// ---------------------------------------------------------------- script runner

func vfShapeOf(st vfStep) vfShape {
	g := func(k string) string {
		if v, ok := st.A[k].(string); ok {
			return v
		}
		return "-"
	}
	return vfShape{K: g("k"), P: g("p"), S: g("s")}
}

type vfProgress struct {
	f *os.File
}

func vfOpenProgress(worker int) *vfProgress {
	p := os.Getenv("VERIF_PROGRESS")
	if p == "" {
		return &vfProgress{}
	}
	f, err := os.Create(fmt.Sprintf("%s.w%d", p, worker))
	if err != nil {
		vfInfra("progress file: %v", err)
	}
	return &vfProgress{f: f}
}

func (p *vfProgress) set(format string, a ...any) {
	if p.f == nil {
		return
	}
	line := fmt.Sprintf(format, a...)
	if len(line) < 200 {
		line += strings.Repeat(" ", 200-len(line))
	}
	_, _ = p.f.WriteAt([]byte(line+"\n"), 0)
}

// grpcPick: about a tenth of the calls are repeated through the gRPC client
func vfGrpcPick(scriptID, step int) bool {
	mode := os.Getenv("VERIF_GRPC")
	if mode == "off" {
		return false
	}
	if mode == "all" {
		return true
	}
	if strings.HasPrefix(mode, "only:") {
		return mode == fmt.Sprintf("only:%d:%d", scriptID, step)
	}
	h := uint64(vfSeed())*0x9e3779b97f4a7c15 + uint64(scriptID)*0xbf58476d1ce4e5b9 + uint64(step)*0x94d049bb133111eb
	h ^= h >> 31
	h *= 0xd6e8feb86659fd93
	h ^= h >> 29
	return h%10 == 0
}

func vfRunScript(w *vfSvc, sc vfScript, prog *vfProgress, skip map[string]bool, emit func(map[string]any)) (replace bool) {
	emit(map[string]any{"ev": "reset", "id": sc.ID})
	rnd := vfRand(int64(sc.ID)*7919 + 13)
	for i, st := range sc.Steps {
		if st.Act == "helper" {
			fn, _ := st.A["fn"].(string)
			cls, _ := st.A["c"].(string)
			prog.set("%d %d helper %s %s", sc.ID, i, fn, cls)
			o := vfHelper(fn, cls, rnd)
			emit(map[string]any{"ev": "helper", "i": i, "fn": fn, "c": cls, "out": o.out, "code": o.code, "site": o.site, "stack": o.stack})
			continue
		}
		a := vfShapeOf(st)
		if skip[fmt.Sprintf("%d:%d", sc.ID, i)] {
			continue
		}
		pre := w.proj()
		req := w.build(st.Act, a, rnd)
		prog.set("%d %d direct %s %s %s %s", sc.ID, i, st.Act, a.K, a.P, a.S)
		o := w.call(st.Act, a, req, "direct")
		ev := map[string]any{"ev": "rpc", "i": i, "rpc": st.Act, "k": a.K, "p": a.P, "s": a.S, "via": "direct",
			"out": o.out, "code": o.code, "n": o.n, "site": o.site, "stack": o.stack, "pre": pre}
		if o.out == "panic" {
			if !w.healthy() {
				ev["st"] = pre
				emit(ev)
				return true
			}
		}
		ev["st"] = w.proj()
		emit(ev)
		if o.out != "panic" && vfGrpcPick(sc.ID, i) && !skip[fmt.Sprintf("%d:%d:grpc", sc.ID, i)] {
			pre2 := w.proj()
			// same shape, concretised again (fresh keys where the class says fresh)
			req2 := w.build(st.Act, a, rnd)
			prog.set("%d %d grpc %s %s %s %s", sc.ID, i, st.Act, a.K, a.P, a.S)
			o2 := w.call(st.Act, a, req2, "grpc")
			sb := a.S
			if sb == "fail" {
				sb = "sink" // the real client stream accepts every message
			}
			emit(map[string]any{"ev": "rpc", "i": i, "rpc": st.Act, "k": a.K, "p": a.P, "s": sb, "via": "grpc",
				"out": o2.out, "code": o2.code, "n": o2.n, "site": o2.site, "stack": o2.stack, "pre": pre2, "st": w.proj()})
		}
	}
	prog.set("%d done", sc.ID)
	return w.odd != nil
}

func TestVerifServiceAPI(t *testing.T) {
	scripts := vfLoadScripts(t)
	tr := vfOpenTrace(t)
	defer tr.Close()
	skip := map[string]bool{}
	for _, s := range strings.Split(os.Getenv("VERIF_SKIP"), ",") {
		if s != "" {
			skip[s] = true
		}
	}
	workers := vfEnvInt("VERIF_WORKERS", 4)
	perSvc := vfEnvInt("VERIF_SCRIPTS_PER_SERVICE", 40)
	ch := make(chan vfScript, len(scripts))
	for _, s := range scripts {
		ch <- s
	}
	close(ch)
	var wg sync.WaitGroup
	var mu sync.Mutex
	services, total := 0, 0
	for wk := 0; wk < workers; wk++ {
		wg.Add(1)
		go func(wk int) {
			defer wg.Done()
			prog := vfOpenProgress(wk)
			gen := 0
			for {
				sc, ok := <-ch
				if !ok {
					return
				}
				pending := []vfScript{sc}
				// one service per subtest so that its t.Cleanup hooks run when it is retired
				t.Run(fmt.Sprintf("w%d_%d", wk, gen), func(t *testing.T) {
					gen++
					prog.set("%d setup", pending[0].ID)
					w := vfNewSvc(t, int64(wk)*1000+int64(gen))
					mu.Lock()
					services++
					mu.Unlock()
					defer w.close()
					for n := 0; n < perSvc; n++ {
						var cur vfScript
						if len(pending) > 0 {
							cur, pending = pending[0], pending[1:]
						} else if s, ok := <-ch; ok {
							cur = s
						} else {
							return
						}
						if n > 0 {
							prog.set("%d reset", cur.ID)
							w.reset()
						}
						var evs []map[string]any
						emit := func(ev map[string]any) { evs = append(evs, ev) }
						if workers == 1 {
							// replay / attribution mode: every event reaches the file before the next call
							emit = func(ev map[string]any) {
								tr.Emit(ev)
								tr.mu.Lock()
								tr.w.Flush()
								tr.mu.Unlock()
							}
						}
						replace := vfRunScript(w, cur, prog, skip, emit)
						tr.EmitBlock(evs)
						tr.mu.Lock()
						tr.w.Flush()
						tr.mu.Unlock()
						mu.Lock()
						total += w.calls
						w.calls = 0
						mu.Unlock()
						if replace {
							return
						}
					}
				})
			}
		}(wk)
	}
	wg.Wait()
	if p := os.Getenv("VERIF_PROGRESS"); p != "" {
		_ = os.WriteFile(p+".done", []byte(fmt.Sprintf("VERIF-DONE scripts=%d services=%d calls=%d\n", len(scripts), services, total)), 0o644)
	}
	t.Logf("VERIF-DONE scripts=%d services=%d calls=%d", len(scripts), services, total)
}

var _ = bytes.Equal
