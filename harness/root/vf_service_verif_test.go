//go:build verif

package weshnet

// Driver for specs/ServiceAPI.tla (C19: no request can crash the service).
//
// Replays TLC-generated scripts on a real in-process protocol service (mocked IPFS, in-memory
// datastore): every step is one RPC of the protocol service with a request concretised from an
// abstract SHAPE [k,p,s] (see specs/ServiceAPIDefs.tla), called directly on the handler under
// recover() and - for about a tenth of the calls that did not panic - once more through the
// in-memory gRPC client (no recovery interceptor there: a panic kills this process, which the
// orchestrator detects through the progress files).  One ndjson line per call with the observed
// outcome class (ok | err | panic) and the projected service state the request met.

import (
	"bytes"
	"context"
	crand "crypto/rand"
	"errors"
	"fmt"
	"io"
	"math/rand"
	"os"
	"runtime/debug"
	"sort"
	"strings"
	"sync"
	"testing"
	"time"

	"filippo.io/edwards25519"
	"github.com/ipfs/go-cid"
	"github.com/libp2p/go-libp2p/core/crypto"
	mocknet "github.com/libp2p/go-libp2p/p2p/net/mock"
	mh "github.com/multiformats/go-multihash"
	"google.golang.org/grpc"
	"google.golang.org/grpc/codes"
	"google.golang.org/grpc/metadata"
	"google.golang.org/grpc/status"
	"google.golang.org/protobuf/proto"

	"berty.tech/weshnet/v2/pkg/cryptoutil"
	"berty.tech/weshnet/v2/pkg/protocoltypes"
	"berty.tech/weshnet/v2/pkg/tinder"
)

// ---------------------------------------------------------------- fake server stream

type vfsFakeStream struct {
	ctx  context.Context
	fail bool
	mu   sync.Mutex
	n    int
}

func (f *vfsFakeStream) SetHeader(metadata.MD) error  { return nil }
func (f *vfsFakeStream) SendHeader(metadata.MD) error { return nil }
func (f *vfsFakeStream) SetTrailer(metadata.MD)       {}
func (f *vfsFakeStream) Context() context.Context     { return f.ctx }
func (f *vfsFakeStream) RecvMsg(any) error            { return io.EOF }
func (f *vfsFakeStream) SendMsg(m any) error {
	f.mu.Lock()
	defer f.mu.Unlock()
	if f.fail {
		return errors.New("vf: stream send refused")
	}
	if err := f.ctx.Err(); err != nil {
		return err
	}
	f.n++
	return nil
}

// ---------------------------------------------------------------- invokers (direct and gRPC)

type vfsInvoker struct {
	direct func(s *service, ctx context.Context, req any, sb string) (int, error)
	grpc   func(cl protocoltypes.ProtocolServiceClient, ctx context.Context, req any) (int, error)
	stream bool
}

func vfsU[Q any, R any](d func(*service, context.Context, *Q) (*R, error),
	c func(protocoltypes.ProtocolServiceClient, context.Context, *Q, ...grpc.CallOption) (*R, error)) vfsInvoker {
	return vfsInvoker{
		direct: func(s *service, ctx context.Context, req any, _ string) (int, error) {
			_, err := d(s, ctx, req.(*Q))
			return 0, err
		},
		grpc: func(cl protocoltypes.ProtocolServiceClient, ctx context.Context, req any) (int, error) {
			_, err := c(cl, ctx, req.(*Q))
			return 0, err
		},
	}
}

func vfsS[Q any, R any](d func(*service, *Q, grpc.ServerStreamingServer[R]) error,
	c func(protocoltypes.ProtocolServiceClient, context.Context, *Q, ...grpc.CallOption) (grpc.ServerStreamingClient[R], error)) vfsInvoker {
	return vfsInvoker{
		stream: true,
		direct: func(s *service, ctx context.Context, req any, sb string) (int, error) {
			fs := &vfsFakeStream{ctx: ctx, fail: sb == "fail"}
			err := d(s, req.(*Q), &grpc.GenericServerStream[Q, R]{ServerStream: fs})
			return fs.n, err
		},
		grpc: func(cl protocoltypes.ProtocolServiceClient, ctx context.Context, req any) (int, error) {
			st, err := c(cl, ctx, req.(*Q))
			if err != nil {
				return 0, err
			}
			n := 0
			for {
				_, err := st.Recv()
				if err == io.EOF {
					return n, nil
				}
				if err != nil {
					return n, err
				}
				n++
			}
		},
	}
}

type vfsPC = protocoltypes.ProtocolServiceClient

var vfsInvokers = map[string]vfsInvoker{
	"ServiceExportData":                         vfsS((*service).ServiceExportData, vfsPC.ServiceExportData),
	"ServiceGetConfiguration":                   vfsU((*service).ServiceGetConfiguration, vfsPC.ServiceGetConfiguration),
	"ContactRequestReference":                   vfsU((*service).ContactRequestReference, vfsPC.ContactRequestReference),
	"ContactRequestDisable":                     vfsU((*service).ContactRequestDisable, vfsPC.ContactRequestDisable),
	"ContactRequestEnable":                      vfsU((*service).ContactRequestEnable, vfsPC.ContactRequestEnable),
	"ContactRequestResetReference":              vfsU((*service).ContactRequestResetReference, vfsPC.ContactRequestResetReference),
	"ContactRequestSend":                        vfsU((*service).ContactRequestSend, vfsPC.ContactRequestSend),
	"ContactRequestAccept":                      vfsU((*service).ContactRequestAccept, vfsPC.ContactRequestAccept),
	"ContactRequestDiscard":                     vfsU((*service).ContactRequestDiscard, vfsPC.ContactRequestDiscard),
	"ShareContact":                              vfsU((*service).ShareContact, vfsPC.ShareContact),
	"DecodeContact":                             vfsU((*service).DecodeContact, vfsPC.DecodeContact),
	"ContactBlock":                              vfsU((*service).ContactBlock, vfsPC.ContactBlock),
	"ContactUnblock":                            vfsU((*service).ContactUnblock, vfsPC.ContactUnblock),
	"ContactAliasKeySend":                       vfsU((*service).ContactAliasKeySend, vfsPC.ContactAliasKeySend),
	"MultiMemberGroupCreate":                    vfsU((*service).MultiMemberGroupCreate, vfsPC.MultiMemberGroupCreate),
	"MultiMemberGroupJoin":                      vfsU((*service).MultiMemberGroupJoin, vfsPC.MultiMemberGroupJoin),
	"MultiMemberGroupLeave":                     vfsU((*service).MultiMemberGroupLeave, vfsPC.MultiMemberGroupLeave),
	"MultiMemberGroupAliasResolverDisclose":     vfsU((*service).MultiMemberGroupAliasResolverDisclose, vfsPC.MultiMemberGroupAliasResolverDisclose),
	"MultiMemberGroupAdminRoleGrant":            vfsU((*service).MultiMemberGroupAdminRoleGrant, vfsPC.MultiMemberGroupAdminRoleGrant),
	"MultiMemberGroupInvitationCreate":          vfsU((*service).MultiMemberGroupInvitationCreate, vfsPC.MultiMemberGroupInvitationCreate),
	"AppMetadataSend":                           vfsU((*service).AppMetadataSend, vfsPC.AppMetadataSend),
	"AppMessageSend":                            vfsU((*service).AppMessageSend, vfsPC.AppMessageSend),
	"GroupMetadataList":                         vfsS((*service).GroupMetadataList, vfsPC.GroupMetadataList),
	"GroupMessageList":                          vfsS((*service).GroupMessageList, vfsPC.GroupMessageList),
	"GroupInfo":                                 vfsU((*service).GroupInfo, vfsPC.GroupInfo),
	"ActivateGroup":                             vfsU((*service).ActivateGroup, vfsPC.ActivateGroup),
	"DeactivateGroup":                           vfsU((*service).DeactivateGroup, vfsPC.DeactivateGroup),
	"GroupDeviceStatus":                         vfsS((*service).GroupDeviceStatus, vfsPC.GroupDeviceStatus),
	"DebugListGroups":                           vfsS((*service).DebugListGroups, vfsPC.DebugListGroups),
	"DebugInspectGroupStore":                    vfsS((*service).DebugInspectGroupStore, vfsPC.DebugInspectGroupStore),
	"DebugGroup":                                vfsU((*service).DebugGroup, vfsPC.DebugGroup),
	"SystemInfo":                                vfsU((*service).SystemInfo, vfsPC.SystemInfo),
	"CredentialVerificationServiceInitFlow":     vfsU((*service).CredentialVerificationServiceInitFlow, vfsPC.CredentialVerificationServiceInitFlow),
	"CredentialVerificationServiceCompleteFlow": vfsU((*service).CredentialVerificationServiceCompleteFlow, vfsPC.CredentialVerificationServiceCompleteFlow),
	"VerifiedCredentialsList":                   vfsS((*service).VerifiedCredentialsList, vfsPC.VerifiedCredentialsList),
	"ReplicationServiceRegisterGroup":           vfsU((*service).ReplicationServiceRegisterGroup, vfsPC.ReplicationServiceRegisterGroup),
	"PeerList":                                  vfsU((*service).PeerList, vfsPC.PeerList),
	"OutOfStoreReceive":                         vfsU((*service).OutOfStoreReceive, vfsPC.OutOfStoreReceive),
	"OutOfStoreSeal":                            vfsU((*service).OutOfStoreSeal, vfsPC.OutOfStoreSeal),
	"RefreshContactRequest":                     vfsU((*service).RefreshContactRequest, vfsPC.RefreshContactRequest),
}

// ---------------------------------------------------------------- the world: one reusable service

type vfsContact struct {
	pk   crypto.PubKey
	raw  []byte
	seed []byte
}

type vfsSvc struct {
	t       testing.TB
	ctx     context.Context
	tp      *TestingProtocol
	cleanup func()
	s       *service
	rnd     *rand.Rand

	acctPK   []byte
	selfPK   []byte
	gm       *protocoltypes.Group
	gmMsgCID []byte
	gmMetaID []byte
	oosValid []byte
	shared   []byte
	contacts map[string]*vfsContact
	dirty    map[string]bool
	gc       *protocoltypes.Group
	odd      *protocoltypes.Group // last oddly shaped group handed to MultiMemberGroupJoin
	poisoned bool                 // an odd group was joined or a panic left the service in doubt
	calls    int
}

func vfsMustOK(err error, what string) {
	if err != nil {
		vfInfra("setup: %s: %v", what, err)
	}
}

func vfsNewKey() (crypto.PubKey, []byte) {
	_, pub, err := crypto.GenerateEd25519Key(crand.Reader)
	vfsMustOK(err, "keygen")
	raw, err := pub.Raw()
	vfsMustOK(err, "raw")
	return pub, raw
}

func vfsNewSvc(t testing.TB, salt int64) *vfsSvc {
	ctx := context.Background()
	mn := mocknet.New()
	tp, cleanup := NewTestingProtocol(ctx, t, &TestingOpts{Mocknet: mn, DiscoveryServer: tinder.NewMockDriverServer()}, nil)
	w := &vfsSvc{t: t, ctx: ctx, tp: tp, s: tp.Service.(*service), rnd: vfRand(salt),
		contacts: map[string]*vfsContact{}, dirty: map[string]bool{}}
	w.cleanup = func() { cleanup(); _ = mn.Close() }
	cfg, err := w.s.ServiceGetConfiguration(ctx, &protocoltypes.ServiceGetConfiguration_Request{})
	vfsMustOK(err, "configuration")
	w.acctPK, w.selfPK = cfg.AccountGroupPk, cfg.AccountPk
	// gm: a multi-member group created (joined + activated) by this account, with one message and one metadata entry
	cr, err := w.s.MultiMemberGroupCreate(ctx, &protocoltypes.MultiMemberGroupCreate_Request{})
	vfsMustOK(err, "create gm")
	inv, err := w.s.MultiMemberGroupInvitationCreate(ctx, &protocoltypes.MultiMemberGroupInvitationCreate_Request{GroupPk: cr.GroupPk})
	vfsMustOK(err, "invitation gm")
	w.gm = inv.Group
	ms, err := w.s.AppMessageSend(ctx, &protocoltypes.AppMessageSend_Request{GroupPk: cr.GroupPk, Payload: []byte("vf message")})
	vfsMustOK(err, "message gm")
	w.gmMsgCID = ms.Cid
	md, err := w.s.AppMetadataSend(ctx, &protocoltypes.AppMetadataSend_Request{GroupPk: cr.GroupPk, Payload: []byte("vf metadata")})
	vfsMustOK(err, "metadata gm")
	w.gmMetaID = md.Cid
	if sealed, err := w.s.OutOfStoreSeal(ctx, &protocoltypes.OutOfStoreSeal_Request{Cid: ms.Cid, GroupPublicKey: cr.GroupPk}); err == nil {
		w.oosValid = sealed.Encrypted
	} else {
		vfInfra("setup: cannot seal out-of-store message: %v", err)
	}
	sh, err := w.s.ShareContact(ctx, &protocoltypes.ShareContact_Request{})
	vfsMustOK(err, "share contact")
	w.shared = sh.EncodedContact
	for _, c := range []string{"ct", "cr", "ca", "cb"} {
		w.dirty[c] = true
	}
	w.reset()
	return w
}

func (w *vfsSvc) close() {
	done := make(chan struct{})
	go func() { defer close(done); defer func() { _ = recover() }(); w.cleanup() }()
	select {
	case <-done:
	case <-time.After(60 * time.Second):
		vfInfra("service close hung")
	}
}

func (w *vfsSvc) isOpen(pk []byte) bool {
	w.s.lock.RLock()
	defer w.s.lock.RUnlock()
	_, ok := w.s.openedGroups[string(pk)]
	return ok
}

func (w *vfsSvc) acctOpen() bool { return w.s.getAccountGroup() != nil }

func (w *vfsSvc) activate(pk []byte, what string) {
	_, err := w.s.ActivateGroup(w.ctx, &protocoltypes.ActivateGroup_Request{GroupPk: pk})
	vfsMustOK(err, "reset: activate "+what)
}

// newContact brings a fresh contact into the lifecycle state the model names it after
func (w *vfsSvc) newContact(name string) {
	pk, raw := vfsNewKey()
	seed := make([]byte, 32)
	w.rnd.Read(seed)
	c := &vfsContact{pk: pk, raw: raw, seed: seed}
	ms := w.s.getAccountGroup().MetadataStore()
	sc := &protocoltypes.ShareableContact{Pk: raw, PublicRendezvousSeed: seed}
	switch name {
	case "ct":
		_, err := w.s.ContactRequestSend(w.ctx, &protocoltypes.ContactRequestSend_Request{Contact: sc})
		vfsMustOK(err, "contact ct")
	case "cr":
		_, err := ms.ContactRequestIncomingReceived(w.ctx, sc)
		vfsMustOK(err, "contact cr")
	case "ca":
		_, err := ms.ContactRequestIncomingReceived(w.ctx, sc)
		vfsMustOK(err, "contact ca (received)")
		_, err = w.s.ContactRequestAccept(w.ctx, &protocoltypes.ContactRequestAccept_Request{ContactPk: raw})
		vfsMustOK(err, "contact ca (accept)")
		if w.gc != nil && w.isOpen(w.gc.PublicKey) {
			_, _ = w.s.DeactivateGroup(w.ctx, &protocoltypes.DeactivateGroup_Request{GroupPk: w.gc.PublicKey})
		}
		g, err := w.s.secretStore.GetGroupForContact(pk)
		vfsMustOK(err, "contact group")
		w.gc = g
	case "cb":
		_, err := w.s.ContactBlock(w.ctx, &protocoltypes.ContactBlock_Request{ContactPk: raw})
		vfsMustOK(err, "contact cb")
	}
	w.contacts[name] = c
	delete(w.dirty, name)
}

// reset restores the canonical initial abstract state: everything open, gm joined, one contact per lifecycle state
func (w *vfsSvc) reset() {
	if !w.acctOpen() {
		w.activate(w.acctPK, "account group")
	}
	ms := w.s.getAccountGroup().MetadataStore()
	if !ms.checkIfInGroup(w.gm.PublicKey) {
		_, err := ms.GroupJoin(w.ctx, w.gm)
		vfsMustOK(err, "reset: rejoin gm")
	}
	if !w.isOpen(w.gm.PublicKey) {
		w.activate(w.gm.PublicKey, "gm")
	}
	// a tracked contact that is no longer in the lifecycle state it is named after is replaced by a fresh one
	want := map[string]string{"ct": "T", "cr": "R", "ca": "A", "cb": "B"}
	for c, k := range w.contacts {
		if vfsStateNames[ms.getContactStatus(k.pk)] != want[c] {
			w.dirty[c] = true
		}
	}
	names := []string{}
	for c := range w.dirty {
		names = append(names, c)
	}
	sort.Strings(names)
	for _, c := range names {
		w.newContact(c)
	}
	if !w.isOpen(w.gc.PublicKey) {
		w.activate(w.gc.PublicKey, "gc")
	}
	w.s.lock.Lock()
	w.s.vcClient = nil
	w.s.lock.Unlock()
	w.odd = nil
}

var vfsStateNames = map[protocoltypes.ContactState]string{
	protocoltypes.ContactState_ContactStateUndefined: "U", protocoltypes.ContactState_ContactStateToRequest: "T",
	protocoltypes.ContactState_ContactStateReceived: "R", protocoltypes.ContactState_ContactStateAdded: "A",
	protocoltypes.ContactState_ContactStateRemoved: "X", protocoltypes.ContactState_ContactStateDiscarded: "D",
	protocoltypes.ContactState_ContactStateBlocked: "B",
}

// proj: the abstract state as far as it can be read off the real service
func (w *vfsSvc) proj() map[string]any {
	ag := w.s.getAccountGroup()
	st := map[string]any{"acct": ag != nil, "gm": w.isOpen(w.gm.PublicKey), "gc": w.isOpen(w.gc.PublicKey), "gmj": "?"}
	cs := map[string]any{}
	for _, c := range []string{"ct", "cr", "ca", "cb"} {
		cs[c] = "?"
	}
	if ag != nil {
		func() {
			defer func() { _ = recover() }()
			ms := ag.MetadataStore()
			if ms.checkIfInGroup(w.gm.PublicKey) {
				st["gmj"] = "y"
			} else {
				st["gmj"] = "n"
			}
			for c, k := range w.contacts {
				cs[c] = vfsStateNames[ms.getContactStatus(k.pk)]
			}
		}()
	}
	st["cs"] = cs
	return st
}

// ---------------------------------------------------------------- concretisation of shapes

var vfsShortSizes = []int{1, 2, 16, 31}
var vfsOverSizes = []int{33, 64, 65, 1024, 65536}

func vfsBytes(r *rand.Rand, n int) []byte {
	b := make([]byte, n)
	r.Read(b)
	return b
}

// 32 bytes that are not the encoding of a curve point
func vfsNonPoint(r *rand.Rand) []byte {
	for i := 0; i < 1000; i++ {
		b := vfsBytes(r, 32)
		if _, err := new(edwards25519.Point).SetBytes(b); err != nil {
			return b
		}
	}
	vfInfra("no non-point found")
	return nil
}

// bytes that no protobuf message decodes
func vfsUndecodable(r *rand.Rand, n int, m proto.Message) []byte {
	for i := 0; i < 1000; i++ {
		b := vfsBytes(r, n)
		b[0] = 0x07 | (b[0] & 0xf8) // wire type 7 does not exist
		if proto.Unmarshal(b, proto.Clone(m)) != nil {
			return b
		}
	}
	vfInfra("no undecodable bytes found")
	return nil
}

func (w *vfsSvc) key(k string, r *rand.Rand) []byte {
	switch k {
	case "nil", "-":
		return nil
	case "empty":
		return []byte{}
	case "short":
		return vfsBytes(r, vfsShortSizes[r.Intn(len(vfsShortSizes))])
	case "garb":
		return vfsNonPoint(r)
	case "over":
		return vfsBytes(r, vfsOverSizes[r.Intn(len(vfsOverSizes))])
	case "unk":
		_, raw := vfsNewKey()
		return raw
	case "acct":
		return w.acctPK
	case "gm":
		return w.gm.PublicKey
	case "gc":
		return w.gc.PublicKey
	case "odd":
		if w.odd == nil {
			vfInfra("script names the odd group before joining one")
		}
		return w.odd.PublicKey
	case "self":
		return w.selfPK
	case "ct", "cr", "ca", "cb":
		return w.contacts[k].raw
	}
	vfInfra("unknown key class %q", k)
	return nil
}

func vfsRandomCID(r *rand.Rand) []byte {
	h, err := mh.Sum(vfsBytes(r, 32), mh.SHA2_256, -1)
	vfsMustOK(err, "multihash")
	return cid.NewCidV1(cid.DagCBOR, h).Bytes()
}

func (w *vfsSvc) oddGroup(p string, r *rand.Rand) *protocoltypes.Group {
	g, sk, err := NewGroupMultiMember()
	vfsMustOK(err, "new group")
	resign := func() {
		sig, err := sk.Sign(g.Secret)
		vfsMustOK(err, "sign")
		g.SecretSig = sig
	}
	switch p {
	case "fresh":
	case "badsig":
		g.SecretSig[r.Intn(len(g.SecretSig))] ^= 1 << uint(r.Intn(8))
	case "garb":
		g = &protocoltypes.Group{PublicKey: vfsBytes(r, 32), Secret: vfsBytes(r, 32), SecretSig: vfsBytes(r, 64), GroupType: protocoltypes.GroupType_GroupTypeMultiMember}
	case "nopk":
		g.PublicKey = nil
	case "shortsecret":
		g.Secret = vfsBytes(r, []int{1, 5, 31}[r.Intn(3)])
		resign()
	case "over":
		g.Secret = vfsBytes(r, []int{33, 64, 65536}[r.Intn(3)])
		resign()
	case "typecontact":
		g.GroupType = protocoltypes.GroupType_GroupTypeContact
	default:
		vfInfra("unknown group shape %q", p)
	}
	return g
}

func (w *vfsSvc) listReq(rpc string, a vfsShape, r *rand.Rand) (gpk, since, until []byte, sinceNow, untilNow, reverse bool) {
	gpk = w.key(a.K, r)
	known := w.gmMetaID
	if rpc == "GroupMessageList" {
		known = w.gmMsgCID
	}
	switch a.P {
	case "all":
	case "untilnow":
		untilNow = true
	case "sincenow":
		sinceNow = true
	case "bothnow":
		sinceNow, untilNow = true, true
	case "idnow":
		since, sinceNow = known, true
	case "revopen":
		reverse = true
	case "revnow":
		reverse, untilNow = true, true
	case "garbid":
		since, untilNow = vfsBytes(r, 5), true
	case "unkid":
		since, untilNow = vfsRandomCID(r), true
	case "knownid":
		since, untilNow = known, true
	default:
		vfInfra("unknown list shape %q", a.P)
	}
	return
}

type vfsShape struct{ K, P, S string }

// build concretises the request of one RPC from its shape
func (w *vfsSvc) build(rpc string, a vfsShape, r *rand.Rand) any {
	pt := protocoltypes.ShareableContact{}
	_ = pt
	switch rpc {
	case "ServiceExportData":
		return &protocoltypes.ServiceExportData_Request{}
	case "ServiceGetConfiguration":
		return &protocoltypes.ServiceGetConfiguration_Request{}
	case "ContactRequestReference":
		return &protocoltypes.ContactRequestReference_Request{}
	case "ContactRequestDisable":
		return &protocoltypes.ContactRequestDisable_Request{}
	case "ContactRequestEnable":
		return &protocoltypes.ContactRequestEnable_Request{}
	case "ContactRequestResetReference":
		return &protocoltypes.ContactRequestResetReference_Request{}
	case "ShareContact":
		return &protocoltypes.ShareContact_Request{}
	case "MultiMemberGroupCreate":
		return &protocoltypes.MultiMemberGroupCreate_Request{}
	case "SystemInfo":
		return &protocoltypes.SystemInfo_Request{}
	case "PeerList":
		return &protocoltypes.PeerList_Request{}
	case "DebugListGroups":
		return &protocoltypes.DebugListGroups_Request{}
	case "ContactRequestSend":
		if a.K == "nomsg" {
			return &protocoltypes.ContactRequestSend_Request{}
		}
		sc := &protocoltypes.ShareableContact{Pk: w.key(a.K, r)}
		req := &protocoltypes.ContactRequestSend_Request{Contact: sc}
		switch a.P {
		case "ok":
			sc.PublicRendezvousSeed = vfsBytes(r, 32)
			if c, ok := w.contacts[a.K]; ok {
				sc.PublicRendezvousSeed = c.seed
			}
		case "nil":
		case "short":
			sc.PublicRendezvousSeed = vfsBytes(r, vfsShortSizes[r.Intn(len(vfsShortSizes))])
		case "over":
			sc.PublicRendezvousSeed = vfsBytes(r, vfsOverSizes[r.Intn(len(vfsOverSizes))])
		case "bigmeta":
			sc.PublicRendezvousSeed = vfsBytes(r, 32)
			sc.Metadata = vfsBytes(r, 65536)
			req.OwnMetadata = vfsBytes(r, 65536)
		default:
			vfInfra("unknown seed shape %q", a.P)
		}
		return req
	case "ContactRequestAccept":
		return &protocoltypes.ContactRequestAccept_Request{ContactPk: w.key(a.K, r)}
	case "ContactRequestDiscard":
		return &protocoltypes.ContactRequestDiscard_Request{ContactPk: w.key(a.K, r)}
	case "ContactBlock":
		return &protocoltypes.ContactBlock_Request{ContactPk: w.key(a.K, r)}
	case "ContactUnblock":
		return &protocoltypes.ContactUnblock_Request{ContactPk: w.key(a.K, r)}
	case "RefreshContactRequest":
		return &protocoltypes.RefreshContactRequest_Request{ContactPk: w.key(a.K, r)}
	case "DecodeContact":
		var b []byte
		switch a.P {
		case "nil":
		case "empty":
			b = []byte{}
		case "short":
			b = vfsUndecodable(r, 1+r.Intn(3), &protocoltypes.ShareableContact{})
		case "garb":
			b = vfsUndecodable(r, 40+r.Intn(40), &protocoltypes.ShareableContact{})
		case "over":
			b = vfsUndecodable(r, 65536, &protocoltypes.ShareableContact{})
		case "valid":
			b = w.shared
		default:
			vfInfra("unknown contact encoding %q", a.P)
		}
		return &protocoltypes.DecodeContact_Request{EncodedContact: b}
	case "ContactAliasKeySend":
		return &protocoltypes.ContactAliasKeySend_Request{GroupPk: w.key(a.K, r)}
	case "MultiMemberGroupLeave":
		return &protocoltypes.MultiMemberGroupLeave_Request{GroupPk: w.key(a.K, r)}
	case "MultiMemberGroupAliasResolverDisclose":
		return &protocoltypes.MultiMemberGroupAliasResolverDisclose_Request{GroupPk: w.key(a.K, r)}
	case "MultiMemberGroupInvitationCreate":
		return &protocoltypes.MultiMemberGroupInvitationCreate_Request{GroupPk: w.key(a.K, r)}
	case "MultiMemberGroupAdminRoleGrant":
		return &protocoltypes.MultiMemberGroupAdminRoleGrant_Request{GroupPk: w.key(a.K, r), MemberPk: vfsBytes(r, 32)}
	case "DeactivateGroup":
		return &protocoltypes.DeactivateGroup_Request{GroupPk: w.key(a.K, r)}
	case "DebugGroup":
		return &protocoltypes.DebugGroup_Request{GroupPk: w.key(a.K, r)}
	case "ActivateGroup":
		return &protocoltypes.ActivateGroup_Request{GroupPk: w.key(a.K, r), LocalOnly: a.P == "local"}
	case "GroupDeviceStatus":
		return &protocoltypes.GroupDeviceStatus_Request{GroupPk: w.key(a.K, r)}
	case "MultiMemberGroupJoin":
		switch a.P {
		case "nomsg":
			return &protocoltypes.MultiMemberGroupJoin_Request{}
		case "emptymsg":
			return &protocoltypes.MultiMemberGroupJoin_Request{Group: &protocoltypes.Group{}}
		case "known":
			return &protocoltypes.MultiMemberGroupJoin_Request{Group: w.gm}
		}
		g := w.oddGroup(a.P, r)
		if a.P == "shortsecret" || a.P == "over" || a.P == "typecontact" {
			w.odd = g
		}
		return &protocoltypes.MultiMemberGroupJoin_Request{Group: g}
	case "GroupInfo":
		if a.P == "c" {
			return &protocoltypes.GroupInfo_Request{ContactPk: w.key(a.K, r)}
		}
		return &protocoltypes.GroupInfo_Request{GroupPk: w.key(a.K, r)}
	case "AppMetadataSend", "AppMessageSend":
		var pl []byte
		switch a.P {
		case "nil":
		case "small":
			pl = vfPayload(r, r.Intn(len(vfSizes)))
		case "over":
			pl = vfsBytes(r, 256*1024)
		default:
			vfInfra("unknown payload shape %q", a.P)
		}
		if rpc == "AppMetadataSend" {
			return &protocoltypes.AppMetadataSend_Request{GroupPk: w.key(a.K, r), Payload: pl}
		}
		return &protocoltypes.AppMessageSend_Request{GroupPk: w.key(a.K, r), Payload: pl}
	case "GroupMetadataList":
		g, si, ui, sn, un, rev := w.listReq(rpc, a, r)
		return &protocoltypes.GroupMetadataList_Request{GroupPk: g, SinceId: si, UntilId: ui, SinceNow: sn, UntilNow: un, ReverseOrder: rev}
	case "GroupMessageList":
		g, si, ui, sn, un, rev := w.listReq(rpc, a, r)
		return &protocoltypes.GroupMessageList_Request{GroupPk: g, SinceId: si, UntilId: ui, SinceNow: sn, UntilNow: un, ReverseOrder: rev}
	case "DebugInspectGroupStore":
		lt := map[string]protocoltypes.DebugInspectGroupLogType{
			"undef":   protocoltypes.DebugInspectGroupLogType_DebugInspectGroupLogTypeUndefined,
			"msg":     protocoltypes.DebugInspectGroupLogType_DebugInspectGroupLogTypeMessage,
			"meta":    protocoltypes.DebugInspectGroupLogType_DebugInspectGroupLogTypeMetadata,
			"badtype": protocoltypes.DebugInspectGroupLogType(99),
		}[a.P]
		return &protocoltypes.DebugInspectGroupStore_Request{GroupPk: w.key(a.K, r), LogType: lt}
	case "CredentialVerificationServiceInitFlow":
		req := &protocoltypes.CredentialVerificationServiceInitFlow_Request{ServiceUrl: "http://127.0.0.1:1", Link: "berty://vf", PublicKey: w.selfPK}
		switch a.P {
		case "own":
		case "nil":
			req.PublicKey = nil
		case "garb":
			req.PublicKey = vfsBytes(r, 32)
		case "badurl":
			req.ServiceUrl = "::not a url::\x7f"
		default:
			vfInfra("unknown init flow shape %q", a.P)
		}
		return req
	case "CredentialVerificationServiceCompleteFlow":
		uri := map[string]string{"empty": "", "garb": "::%%%\x7f", "nocred": "berty://vc/proof?state=",
			"badcred": "berty://vc/proof?state=&credentials=" + string(vfsAlnum(r, 40))}[a.P]
		return &protocoltypes.CredentialVerificationServiceCompleteFlow_Request{CallbackUri: uri}
	case "VerifiedCredentialsList":
		req := &protocoltypes.VerifiedCredentialsList_Request{}
		if a.P == "filters" {
			req.FilterIdentifier, req.FilterIssuer, req.ExcludeExpired = string(vfsAlnum(r, 12)), string(vfsAlnum(r, 12)), true
		}
		return req
	case "ReplicationServiceRegisterGroup":
		req := &protocoltypes.ReplicationServiceRegisterGroup_Request{GroupPk: w.key(a.K, r), Token: "vf-token", AuthenticationUrl: "http://127.0.0.1:1", ReplicationServer: "127.0.0.1:1"}
		switch a.P {
		case "ok":
		case "notoken":
			req.Token = ""
		case "noserver":
			req.ReplicationServer = ""
		default:
			vfInfra("unknown replication shape %q", a.P)
		}
		return req
	case "OutOfStoreReceive":
		var b []byte
		env := &protocoltypes.OutOfStoreMessageEnvelope{}
		switch a.P {
		case "nil":
		case "empty":
			b = []byte{}
		case "short":
			b = vfsUndecodable(r, 1+r.Intn(3), env)
		case "garb":
			b = vfsUndecodable(r, 64+r.Intn(64), env)
		case "over":
			b = vfsUndecodable(r, 65536, env)
		case "badref":
			b, _ = proto.Marshal(&protocoltypes.OutOfStoreMessageEnvelope{Nonce: vfsBytes(r, 24), Box: vfsBytes(r, 80), GroupReference: vfsBytes(r, 32)})
		case "badbox":
			vfsMustOK(proto.Unmarshal(w.oosValid, env), "valid envelope")
			switch r.Intn(3) {
			case 0:
				env.Box = vfsBytes(r, len(env.Box))
			case 1:
				env.Nonce = env.Nonce[:r.Intn(len(env.Nonce))]
			default:
				env.Box = env.Box[:r.Intn(16)]
			}
			b, _ = proto.Marshal(env)
		case "valid":
			b = w.oosValid
		default:
			vfInfra("unknown out-of-store shape %q", a.P)
		}
		return &protocoltypes.OutOfStoreReceive_Request{Payload: b}
	case "OutOfStoreSeal":
		var c []byte
		switch a.P {
		case "nil":
		case "garb":
			c = vfsBytes(r, 1+r.Intn(40))
		case "unkcid":
			c = vfsRandomCID(r)
		case "known":
			c = w.gmMsgCID
		default:
			vfInfra("unknown cid shape %q", a.P)
		}
		return &protocoltypes.OutOfStoreSeal_Request{Cid: c, GroupPublicKey: w.key(a.K, r)}
	}
	vfInfra("unknown rpc %q", rpc)
	return nil
}

func vfsAlnum(r *rand.Rand, n int) []byte {
	const cs = "abcdefghijklmnopqrstuvwxyzABCDEFGHIJKLMNOPQRSTUVWXYZ0123456789"
	b := make([]byte, n)
	for i := range b {
		b[i] = cs[r.Intn(len(cs))]
	}
	return b
}

// ---------------------------------------------------------------- calls

// calls that wait for the network or for new events by design: a short deadline ends them
func vfsDeadline(rpc string, a vfsShape) time.Duration {
	switch {
	case rpc == "GroupDeviceStatus", rpc == "RefreshContactRequest":
		return 50 * time.Millisecond
	case (rpc == "GroupMetadataList" || rpc == "GroupMessageList") && (a.P == "all" || a.P == "sincenow"):
		return 50 * time.Millisecond
	case rpc == "ReplicationServiceRegisterGroup", rpc == "CredentialVerificationServiceInitFlow":
		return 500 * time.Millisecond
	}
	return 30 * time.Second
}

type vfsOutcome struct {
	out   string // ok | err | panic
	code  string
	n     int
	site  string
	stack string
}

// the first frame of the repository under the panic
func vfsSite(stack string) string {
	lines := strings.Split(stack, "\n")
	seenPanic := false
	for _, l := range lines {
		if strings.HasPrefix(l, "panic(") {
			seenPanic = true
			continue
		}
		if !seenPanic || strings.HasPrefix(l, "\t") {
			continue
		}
		if strings.HasPrefix(l, "berty.tech/weshnet/v2") && !strings.HasPrefix(l, "berty.tech/weshnet/v2.vf") {
			if i := strings.LastIndex(l, "("); i > 0 {
				l = l[:i]
			}
			return strings.TrimPrefix(l, "berty.tech/weshnet/v2")
		}
	}
	return "?"
}

func vfsShortStack(stack string) string {
	lines := strings.Split(stack, "\n")
	out := []string{}
	seenPanic := false
	for _, l := range lines {
		if strings.HasPrefix(l, "panic(") {
			seenPanic = true
		}
		if seenPanic && !strings.HasPrefix(l, "\t") {
			out = append(out, l)
		}
		if len(out) >= 8 {
			break
		}
	}
	return strings.Join(out, " <- ")
}

func vfsErrCode(err error) string {
	if err == nil {
		return ""
	}
	s := err.Error()
	if st, ok := status.FromError(err); ok && (st.Code() == codes.DeadlineExceeded || st.Code() == codes.Canceled) {
		return st.Code().String()
	}
	if len(s) > 100 {
		s = s[:100]
	}
	return s
}

// guarded runs f in its own goroutine under recover, with a watchdog
func vfsGuarded(what string, f func() (int, error)) vfsOutcome {
	ch := make(chan vfsOutcome, 1)
	go func() {
		var o vfsOutcome
		defer func() {
			if p := recover(); p != nil {
				if ps, ok := p.(string); ok && strings.HasPrefix(ps, "VERIF-INFRA") {
					panic(p)
				}
				st := string(debug.Stack())
				o = vfsOutcome{out: "panic", code: fmt.Sprint(p), site: vfsSite(st), stack: vfsShortStack(st)}
				if len(o.code) > 120 {
					o.code = o.code[:120]
				}
			}
			ch <- o
		}()
		n, err := f()
		o.n = n
		if err != nil {
			o.out, o.code = "err", vfsErrCode(err)
		} else {
			o.out = "ok"
		}
	}()
	select {
	case o := <-ch:
		return o
	case <-time.After(90 * time.Second):
		vfInfra("call hung: %s", what)
	}
	return vfsOutcome{}
}

func (w *vfsSvc) call(rpc string, a vfsShape, req any, via string) vfsOutcome {
	inv, ok := vfsInvokers[rpc]
	if !ok {
		vfInfra("no invoker for %q", rpc)
	}
	dl := vfsDeadline(rpc, a)
	if via == "grpc" && dl < time.Second {
		dl *= 4 // leave an immediate answer the time to cross the in-memory connection
	}
	ctx, cancel := context.WithTimeout(w.ctx, dl)
	defer cancel()
	w.calls++
	if via == "grpc" {
		o := vfsGuarded(rpc+" via grpc", func() (int, error) { return inv.grpc(w.tp.Client, ctx, proto.Clone(req.(proto.Message))) })
		if o.out == "err" && inv.stream && (o.code == codes.DeadlineExceeded.String() || o.code == codes.Canceled.String()) {
			o.out = "cut" // the client went away from an open-ended stream: no answer was observed
		}
		return o
	}
	return vfsGuarded(rpc, func() (int, error) { return inv.direct(w.s, ctx, req, a.S) })
}

// healthy: can the service still be used after a recovered panic?
func (w *vfsSvc) healthy() bool {
	if !w.s.lock.TryLock() {
		return false
	}
	w.s.lock.Unlock()
	if ag := w.s.getAccountGroup(); ag != nil {
		idx, ok := ag.MetadataStore().Index().(*metadataStoreIndex)
		if ok {
			if !idx.lock.TryLock() {
				return false
			}
			idx.lock.Unlock()
		}
	}
	return true
}

// ---------------------------------------------------------------- helpers (stateless)

func vfsHelper(fn, cls string, r *rand.Rand) vfsOutcome {
	sized := func(valid int) []byte {
		switch cls {
		case "empty":
			return []byte{}
		case "short":
			return vfsBytes(r, 1+r.Intn(valid-1))
		case "over":
			return vfsBytes(r, valid+1+r.Intn(64))
		case "garb":
			return vfsNonPoint(r)
		}
		return vfsBytes(r, valid)
	}
	key := vfsBytes(r, 32)
	e := func(err error) (int, error) { return 0, err }
	return vfsGuarded("helper "+fn, func() (int, error) {
		switch fn {
		case "AESGCMDecrypt":
			ct, err := cryptoutil.AESGCMEncrypt(key, vfPayload(r, r.Intn(len(vfSizes))))
			vfsMustOK(err, "encrypt")
			var data []byte
			switch cls {
			case "empty":
				data = []byte{}
			case "short":
				data = vfsBytes(r, 1+r.Intn(11))
			case "nonce":
				data = vfsBytes(r, 12)
			case "garb":
				data = vfsBytes(r, 13+r.Intn(100))
			case "valid":
				data = ct
			case "badkey":
				data, key = ct, vfsBytes(r, []int{0, 1, 15, 33}[r.Intn(4)])
			}
			pt, err := cryptoutil.AESGCMDecrypt(key, data)
			_ = pt
			return e(err)
		case "AESGCMEncrypt":
			data := vfPayload(r, r.Intn(len(vfSizes)))
			if cls == "empty" {
				data = nil
			}
			if cls == "badkey" {
				key = vfsBytes(r, []int{0, 1, 15, 33}[r.Intn(4)])
			}
			_, err := cryptoutil.AESGCMEncrypt(key, data)
			return e(err)
		case "AESCTRStream":
			iv := vfsBytes(r, 16)
			switch cls {
			case "empty":
				iv = []byte{}
			case "short":
				iv = vfsBytes(r, 1+r.Intn(15))
			case "over":
				iv = vfsBytes(r, 17+r.Intn(32))
			case "badkey":
				key = vfsBytes(r, []int{1, 15, 33}[r.Intn(3)])
			case "nilkey":
				key = nil
			}
			st, err := cryptoutil.AESCTRStream(key, iv)
			if err == nil {
				buf := vfsBytes(r, 64)
				st.XORKeyStream(buf, buf)
			}
			return e(err)
		case "KeySliceToArray":
			_, err := cryptoutil.KeySliceToArray(sized(32))
			return e(err)
		case "NonceSliceToArray":
			_, err := cryptoutil.NonceSliceToArray(sized(24))
			return e(err)
		case "PublicKeyToCurve25519":
			var out [32]byte
			b := sized(32)
			if cls == "valid" {
				_, b = vfsNewKey()
			}
			return e(cryptoutil.PublicKeyToCurve25519(&out, b))
		case "ShareableContactCheckFormat", "ShareableContactGetPubKey":
			sc := &protocoltypes.ShareableContact{Pk: sized(32), PublicRendezvousSeed: vfsBytes(r, 32)}
			if cls == "valid" {
				_, sc.Pk = vfsNewKey()
			}
			// what an application does with a link: decode, then check
			b, _ := proto.Marshal(sc)
			sc2 := &protocoltypes.ShareableContact{}
			vfsMustOK(proto.Unmarshal(b, sc2), "contact round trip")
			if fn == "ShareableContactGetPubKey" {
				_, err := sc2.GetPubKey()
				return e(err)
			}
			return e(sc2.CheckFormat())
		case "GroupIsValid", "GroupGetSigningPubKey", "GroupGetLinkKeyArray":
			g, sk, err := NewGroupMultiMember()
			vfsMustOK(err, "group")
			if cls != "valid" {
				// an invitation made by whoever owns the group key: the signature is genuine, the secret is not 32 bytes
				g.Secret = sized(32)
				if cls == "garb" {
					g.PublicKey = vfsNonPoint(r)
				} else {
					g.SecretSig, err = sk.Sign(g.Secret)
					vfsMustOK(err, "sign")
				}
				g.LinkKey = nil
			}
			switch fn {
			case "GroupIsValid":
				return e(g.IsValid())
			case "GroupGetSigningPubKey":
				_, err := g.GetSigningPubKey()
				return e(err)
			default:
				_, err := g.GetLinkKeyArray()
				return e(err)
			}
		}
		vfInfra("unknown helper %q", fn)
		return 0, nil
	})
}

// ---------------------------------------------------------------- script runner

func vfsShapeOf(st vfStep) vfsShape {
	g := func(k string) string {
		if v, ok := st.A[k].(string); ok {
			return v
		}
		return "-"
	}
	return vfsShape{K: g("k"), P: g("p"), S: g("s")}
}

type vfsProgress struct {
	f *os.File
}

func vfsOpenProgress(worker int) *vfsProgress {
	p := os.Getenv("VERIF_PROGRESS")
	if p == "" {
		return &vfsProgress{}
	}
	f, err := os.Create(fmt.Sprintf("%s.w%d", p, worker))
	if err != nil {
		vfInfra("progress file: %v", err)
	}
	return &vfsProgress{f: f}
}

func (p *vfsProgress) set(format string, a ...any) {
	if p.f == nil {
		return
	}
	line := fmt.Sprintf(format, a...)
	if len(line) < 200 {
		line += strings.Repeat(" ", 200-len(line))
	}
	_, _ = p.f.WriteAt([]byte(line+"\n"), 0)
}

// grpcPick: about a tenth of the calls are repeated through the gRPC client
func vfsGrpcPick(scriptID, step int) bool {
	mode := os.Getenv("VERIF_GRPC")
	if mode == "off" {
		return false
	}
	if mode == "all" {
		return true
	}
	if strings.HasPrefix(mode, "only:") {
		return mode == fmt.Sprintf("only:%d:%d", scriptID, step)
	}
	h := uint64(vfSeed())*0x9e3779b97f4a7c15 + uint64(scriptID)*0xbf58476d1ce4e5b9 + uint64(step)*0x94d049bb133111eb
	h ^= h >> 31
	h *= 0xd6e8feb86659fd93
	h ^= h >> 29
	return h%10 == 0
}

func vfsRunScript(w *vfsSvc, sc vfScript, prog *vfsProgress, skip map[string]bool, emit func(map[string]any)) (replace bool) {
	emit(map[string]any{"ev": "reset", "id": sc.ID})
	rnd := vfRand(int64(sc.ID)*7919 + 13)
	for i, st := range sc.Steps {
		if st.Act == "helper" {
			fn, _ := st.A["fn"].(string)
			cls, _ := st.A["c"].(string)
			prog.set("%d %d helper %s %s", sc.ID, i, fn, cls)
			o := vfsHelper(fn, cls, rnd)
			emit(map[string]any{"ev": "helper", "i": i, "fn": fn, "c": cls, "out": o.out, "code": o.code, "site": o.site, "stack": o.stack})
			continue
		}
		a := vfsShapeOf(st)
		if skip[fmt.Sprintf("%d:%d", sc.ID, i)] {
			continue
		}
		pre := w.proj()
		req := w.build(st.Act, a, rnd)
		prog.set("%d %d direct %s %s %s %s", sc.ID, i, st.Act, a.K, a.P, a.S)
		o := w.call(st.Act, a, req, "direct")
		ev := map[string]any{"ev": "rpc", "i": i, "rpc": st.Act, "k": a.K, "p": a.P, "s": a.S, "via": "direct",
			"out": o.out, "code": o.code, "n": o.n, "site": o.site, "stack": o.stack, "pre": pre}
		if o.out == "panic" {
			if !w.healthy() {
				ev["st"] = pre
				emit(ev)
				return true
			}
		}
		ev["st"] = w.proj()
		emit(ev)
		if o.out != "panic" && vfsGrpcPick(sc.ID, i) && !skip[fmt.Sprintf("%d:%d:grpc", sc.ID, i)] {
			pre2 := w.proj()
			// same shape, concretised again (fresh keys where the class says fresh)
			req2 := w.build(st.Act, a, rnd)
			prog.set("%d %d grpc %s %s %s %s", sc.ID, i, st.Act, a.K, a.P, a.S)
			o2 := w.call(st.Act, a, req2, "grpc")
			sb := a.S
			if sb == "fail" {
				sb = "sink" // the real client stream accepts every message
			}
			emit(map[string]any{"ev": "rpc", "i": i, "rpc": st.Act, "k": a.K, "p": a.P, "s": sb, "via": "grpc",
				"out": o2.out, "code": o2.code, "n": o2.n, "site": o2.site, "stack": o2.stack, "pre": pre2, "st": w.proj()})
		}
	}
	prog.set("%d done", sc.ID)
	return w.odd != nil
}

func TestVerifServiceAPI(t *testing.T) {
	scripts := vfLoadScripts(t)
	tr := vfOpenTrace(t)
	defer tr.Close()
	skip := map[string]bool{}
	for _, s := range strings.Split(os.Getenv("VERIF_SKIP"), ",") {
		if s != "" {
			skip[s] = true
		}
	}
	workers := vfEnvInt("VERIF_WORKERS", 4)
	perSvc := vfEnvInt("VERIF_SCRIPTS_PER_SERVICE", 40)
	ch := make(chan vfScript, len(scripts))
	for _, s := range scripts {
		ch <- s
	}
	close(ch)
	var wg sync.WaitGroup
	var mu sync.Mutex
	services, total := 0, 0
	for wk := 0; wk < workers; wk++ {
		wg.Add(1)
		go func(wk int) {
			defer wg.Done()
			prog := vfsOpenProgress(wk)
			gen := 0
			for {
				sc, ok := <-ch
				if !ok {
					return
				}
				pending := []vfScript{sc}
				// one service per subtest so that its t.Cleanup hooks run when it is retired
				t.Run(fmt.Sprintf("w%d_%d", wk, gen), func(t *testing.T) {
					gen++
					prog.set("%d setup", pending[0].ID)
					w := vfsNewSvc(t, int64(wk)*1000+int64(gen))
					mu.Lock()
					services++
					mu.Unlock()
					defer w.close()
					for n := 0; n < perSvc; n++ {
						var cur vfScript
						if len(pending) > 0 {
							cur, pending = pending[0], pending[1:]
						} else if s, ok := <-ch; ok {
							cur = s
						} else {
							return
						}
						if n > 0 {
							prog.set("%d reset", cur.ID)
							w.reset()
						}
						var evs []map[string]any
						emit := func(ev map[string]any) { evs = append(evs, ev) }
						if workers == 1 {
							// replay / attribution mode: every event reaches the file before the next call
							emit = func(ev map[string]any) {
								tr.Emit(ev)
								tr.mu.Lock()
								tr.w.Flush()
								tr.mu.Unlock()
							}
						}
						replace := vfsRunScript(w, cur, prog, skip, emit)
						tr.EmitBlock(evs)
						tr.mu.Lock()
						tr.w.Flush()
						tr.mu.Unlock()
						mu.Lock()
						total += w.calls
						w.calls = 0
						mu.Unlock()
						if replace {
							return
						}
					}
				})
			}
		}(wk)
	}
	wg.Wait()
	if p := os.Getenv("VERIF_PROGRESS"); p != "" {
		_ = os.WriteFile(p+".done", []byte(fmt.Sprintf("VERIF-DONE scripts=%d services=%d calls=%d\n", len(scripts), services, total)), 0o644)
	}
	t.Logf("VERIF-DONE scripts=%d services=%d calls=%d", len(scripts), services, total)
}

var _ = bytes.Equal
