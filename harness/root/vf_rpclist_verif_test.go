//go:build verif

package weshnet

// RPC layer of C13: GroupMetadataList / GroupMessageList of an in-process service with
// until_now, every (since, until, reverse) combination over the listed events plus absent and
// unknown identifiers, and the parameter-consistency rules of api_event.go.

import (
	"bytes"
	"context"
	"fmt"
	"io"
	"sync"
	"testing"
	"time"

	mocknet "github.com/libp2p/go-libp2p/p2p/net/mock"
	"google.golang.org/grpc"
	"google.golang.org/grpc/metadata"

	"berty.tech/weshnet/v2/pkg/protocoltypes"
	"berty.tech/weshnet/v2/pkg/tinder"
)

type vfLStream[T any] struct {
	ctx  context.Context
	mu   sync.Mutex
	msgs []*T
}

func (f *vfLStream[T]) SetHeader(metadata.MD) error  { return nil }
func (f *vfLStream[T]) SendHeader(metadata.MD) error { return nil }
func (f *vfLStream[T]) SetTrailer(metadata.MD)       {}
func (f *vfLStream[T]) Context() context.Context     { return f.ctx }
func (f *vfLStream[T]) RecvMsg(any) error            { return io.EOF }
func (f *vfLStream[T]) SendMsg(m any) error {
	f.mu.Lock()
	defer f.mu.Unlock()
	if v, ok := m.(*T); ok {
		f.msgs = append(f.msgs, v)
	}
	return nil
}

func (f *vfLStream[T]) count() int {
	f.mu.Lock()
	defer f.mu.Unlock()
	return len(f.msgs)
}

// a listing with an until identifier never returns by itself (the handler keeps the stream open after the
// backlog): the driver ends it once nothing more has arrived for `quiet` - or after `max`
var vfListQuiet = 5 * time.Second

func vfListWatch[T any](fs *vfLStream[T], cancel context.CancelFunc, quiet time.Duration, done <-chan struct{}) {
	last, since := -1, time.Now()
	for {
		select {
		case <-done:
			return
		case <-time.After(25 * time.Millisecond):
		}
		if n := fs.count(); n != last {
			last, since = n, time.Now()
		} else if time.Since(since) >= quiet {
			cancel()
			return
		}
	}
}

type vfListReq struct {
	since, until       []byte
	sinceNow, untilNow bool
	rev                bool
}

func vfRPCListRun(t testing.TB, sc vfScript) []map[string]any {
	ctx := context.Background()
	mn := mocknet.New()
	defer mn.Close()
	tp, cleanup := NewTestingProtocol(ctx, t, &TestingOpts{Mocknet: mn, DiscoveryServer: tinder.NewMockDriverServer()}, nil)
	defer cleanup()
	s := tp.Service.(*service)
	nmeta, _ := vfNum(sc.Cfg, "nmeta")
	nmsg, _ := vfNum(sc.Cfg, "nmsg")
	cr, err := s.MultiMemberGroupCreate(ctx, &protocoltypes.MultiMemberGroupCreate_Request{})
	if err != nil {
		vfInfra("create group: %v", err)
	}
	if _, err := s.ActivateGroup(ctx, &protocoltypes.ActivateGroup_Request{GroupPk: cr.GroupPk}); err != nil {
		vfInfra("activate group: %v", err)
	}
	for i := 0; i < nmeta; i++ {
		if _, err := s.AppMetadataSend(ctx, &protocoltypes.AppMetadataSend_Request{GroupPk: cr.GroupPk, Payload: []byte{byte(i)}}); err != nil {
			vfInfra("metadata send: %v", err)
		}
	}
	for i := 0; i < nmsg; i++ {
		if _, err := s.AppMessageSend(ctx, &protocoltypes.AppMessageSend_Request{GroupPk: cr.GroupPk, Payload: []byte{byte(i)}}); err != nil {
			vfInfra("message send: %v", err)
		}
	}
	// a second writer: the logs then have several heads (no local write follows)
	if nf, _ := vfNum(sc.Cfg, "foreign"); nf > 0 {
		src, err := s.GetContextGroupForID(cr.GroupPk)
		if err != nil {
			vfInfra("group context: %v", err)
		}
		fw, err := vfNewForeign(ctx, tp.IpfsCoreAPI, src.Group())
		if err != nil {
			vfInfra("foreign writer: %v", err)
		}
		for i := 0; i < nf; i++ {
			if err := fw.Write(ctx, src, i); err != nil {
				vfInfra("foreign write: %v", err)
			}
		}
	}
	panicked := false
	callMeta := func(r vfListReq) (ids [][]byte, err error) {
		defer func() {
			if x := recover(); x != nil {
				panicked = true
				ids, err = nil, fmt.Errorf("handler panicked: %v", x)
			}
		}()
		c, cancel := context.WithTimeout(ctx, 5*time.Second)
		defer cancel()
		fs := &vfLStream[protocoltypes.GroupMetadataEvent]{ctx: c}
		done := make(chan struct{})
		defer close(done)
		go vfListWatch(fs, cancel, vfListQuiet, done)
		err = s.GroupMetadataList(&protocoltypes.GroupMetadataList_Request{GroupPk: cr.GroupPk, SinceId: r.since, UntilId: r.until,
			SinceNow: r.sinceNow, UntilNow: r.untilNow, ReverseOrder: r.rev}, &grpc.GenericServerStream[protocoltypes.GroupMetadataList_Request, protocoltypes.GroupMetadataEvent]{ServerStream: fs})
		ids = [][]byte{}
		for _, m := range fs.msgs {
			ids = append(ids, m.EventContext.Id)
		}
		return ids, err
	}
	callMsg := func(r vfListReq) (ids [][]byte, err error) {
		defer func() {
			if x := recover(); x != nil {
				panicked = true
				ids, err = nil, fmt.Errorf("handler panicked: %v", x)
			}
		}()
		c, cancel := context.WithTimeout(ctx, 5*time.Second)
		defer cancel()
		fs := &vfLStream[protocoltypes.GroupMessageEvent]{ctx: c}
		done := make(chan struct{})
		defer close(done)
		go vfListWatch(fs, cancel, vfListQuiet, done)
		err = s.GroupMessageList(&protocoltypes.GroupMessageList_Request{GroupPk: cr.GroupPk, SinceId: r.since, UntilId: r.until,
			SinceNow: r.sinceNow, UntilNow: r.untilNow, ReverseOrder: r.rev}, &grpc.GenericServerStream[protocoltypes.GroupMessageList_Request, protocoltypes.GroupMessageEvent]{ServerStream: fs})
		ids = [][]byte{}
		for _, m := range fs.msgs {
			ids = append(ids, m.EventContext.Id)
		}
		return ids, err
	}
	gc, err := s.GetContextGroupForID(cr.GroupPk)
	if err != nil {
		vfInfra("group context: %v", err)
	}
	out := []map[string]any{{"ev": "reset", "id": sc.ID}}
	kinds := []string{"metadata", "message"}
	attempts := map[string]int{}
	for ki := 0; ki < len(kinds); ki++ {
		kind := kinds[ki]
		call := callMeta
		if kind == "message" {
			call = callMsg
		}
		mark := len(out)
		full, err := call(vfListReq{untilNow: true})
		if err != nil {
			vfInfra("full %s listing failed: %v", kind, err)
		}
		// the store-level listing must give the same order
		storeIDs := [][]byte{}
		if kind == "metadata" {
			ch, lerr := gc.MetadataStore().ListEvents(ctx, nil, nil, false)
			if lerr == nil {
				for e := range ch {
					storeIDs = append(storeIDs, e.EventContext.Id)
				}
			}
		} else {
			ch, lerr := gc.MessageStore().ListEvents(ctx, nil, nil, false)
			if lerr == nil {
				for e := range ch {
					storeIDs = append(storeIDs, e.EventContext.Id)
				}
			}
		}
		agree := len(storeIDs) == len(full)
		for i := range full {
			if agree && !bytes.Equal(full[i], storeIDs[i]) {
				agree = false
			}
		}
		n := len(full)
		nameOf := func(id []byte) int {
			for i, f := range full {
				if bytes.Equal(f, id) {
					return i + 1
				}
			}
			return -1
		}
		idOf := func(x int) []byte {
			if x == 0 {
				return nil
			}
			if x <= n {
				return full[x-1]
			}
			return []byte("unknown-identifier")
		}
		has, fullNames := []int{}, []int{}
		for i := 1; i <= n; i++ {
			has = append(has, i)
			fullNames = append(fullNames, i)
		}
		for since := 0; since <= n+1; since++ {
			for until := 0; until <= n+1; until++ {
				for _, rev := range []bool{false, true} {
					r := vfListReq{since: idOf(since), until: idOf(until), rev: rev}
					if until == 0 {
						r.untilNow = true
					}
					panicked = false
					t0 := time.Now()
					vfListQuiet = 200 * time.Millisecond
					ids, err := call(r)
					got := []int{}
					for _, id := range ids {
						got = append(got, nameOf(id))
					}
					// the quick attempt may have been cut short on a loaded machine: if it is not the plain range,
					// ask again patiently and record that answer (the verdict is the monitor's, on the recorded one)
					lo, hi := since, until
					if lo == 0 {
						lo = 1
					}
					if hi == 0 {
						hi = n
					}
					plain := err == nil && lo <= hi && hi <= n && len(got) == hi-lo+1
					if plain {
						for i, x := range got {
							want := lo + i
							if rev {
								want = hi - i
							}
							if x != want {
								plain = false
							}
						}
					}
					if !plain && !panicked {
						vfListQuiet = 5 * time.Second
						ids, err = call(r)
						got = []int{}
						for _, id := range ids {
							got = append(got, nameOf(id))
						}
					}
					vfListQuiet = 5 * time.Second
					ms := int(time.Since(t0) / time.Millisecond)
					out = append(out, map[string]any{"ev": "rpclist", "kind": kind, "since": since, "until": until, "rev": rev,
						"ok": err == nil, "out": got, "has": has, "full": fullNames, "storeagree": agree, "panic": panicked, "ms": ms})
				}
			}
		}
		// parameter consistency (api_event.go: checkParametersConsistency); open-ended subscriptions end by the deadline
		some := idOf(1)
		for _, sid := range []bool{false, true} {
			for _, snow := range []bool{false, true} {
				for _, uid := range []bool{false, true} {
					for _, unow := range []bool{false, true} {
						for _, rev := range []bool{false, true} {
							if n == 0 && (sid || uid) {
								continue
							}
							r := vfListReq{sinceNow: snow, untilNow: unow, rev: rev}
							if sid {
								r.since = some
							}
							if uid {
								r.until = idOf(n)
							}
							open := !uid && !unow
							if open && !rev && !(sid && snow) {
								continue // a legal open-ended subscription: would only end by our deadline
							}
							panicked = false
							_, err := call(r)
							out = append(out, map[string]any{"ev": "rpcparams", "kind": kind, "sid": sid, "snow": snow, "uid": uid, "unow": unow, "rev": rev, "ok": err == nil, "panic": panicked})
						}
					}
				}
			}
		}
		// the log must not have moved under the matrix (a background task of the service appending late): if the
		// reference listing changed, what was recorded for this kind is discarded and the kind is done again
		again, err := call(vfListReq{untilNow: true})
		same := err == nil && len(again) == len(full)
		for i := range full {
			if same && !bytes.Equal(full[i], again[i]) {
				same = false
			}
		}
		if !same {
			out = out[:mark]
			attempts[kind]++
			if attempts[kind] > 3 {
				vfInfra("the %s log keeps growing under the listing matrix", kind)
			}
			time.Sleep(2 * time.Second)
			ki--
		}
	}
	return out
}

func TestVerifRPCList(t *testing.T) {
	scripts := vfLoadScripts(t)
	tr := vfOpenTrace(t)
	defer tr.Close()
	for _, sc := range scripts {
		tr.EmitBlock(vfRPCListRun(t, sc))
	}
	t.Logf("VERIF-DONE scripts=%d events=%d", len(scripts), tr.n)
}
