//go:build verif

package weshnet

import (
	"context"
	"fmt"
	"testing"
	"time"
)

func TestVerifProbeReplica(t *testing.T) {
	t0 := time.Now()
	w := vfNewRWorld(t)
	a1 := w.AddDevice("a1", "")
	a2 := w.AddDevice("a2", "a1")
	g := a1.AccountGroup()
	gc1 := a1.OpenGroup(g)
	gc2 := a2.OpenGroup(g)
	fmt.Println("setup", time.Since(t0))
	ms1 := gc1.MetadataStore()
	ctx := w.ctx
	_, err := ms1.ContactRequestEnable(ctx)
	fmt.Println("enable", err)
	_, err = ms1.ContactRequestDisable(ctx)
	fmt.Println("disable", err)
	_, err = ms1.ContactRequestReferenceReset(ctx)
	fmt.Println("reset", err)
	fmt.Println("a1 entries", vfEntryIDs(ms1), "values", vfValueIDs(ms1), "enabled", vfEn(ms1))
	fmt.Println("a1 list", vfList(ms1, false), "rev", vfList(ms1, true))
	t1 := time.Now()
	want := map[string]bool{}
	for _, id := range vfEntryIDs(ms1) {
		want[id] = true
	}
	vfSyncTo(ctx, gc2.MetadataStore(), vfHeads(ms1), want)
	fmt.Println("sync took", time.Since(t1))
	ms2 := gc2.MetadataStore()
	time.Sleep(50 * time.Millisecond)
	fmt.Println("a2 entries", vfEntryIDs(ms2), "values", vfValueIDs(ms2), "enabled", vfEn(ms2))
	fmt.Println("a2 list", vfList(ms2, false), "rev", vfList(ms2, true))
	t2 := time.Now()
	a1.Reopen(g)
	fmt.Println("reopen took", time.Since(t2))
	ms1 = a1.gcs[g.GroupIDAsString()].MetadataStore()
	fmt.Println("a1 reopened entries", vfEntryIDs(ms1), "values", vfValueIDs(ms1), "enabled", vfEn(ms1))
	fmt.Println("a1 reopened list", vfList(ms1, false), "rev", vfList(ms1, true))
	t.Logf("VERIF-DONE")
}

func vfEn(ms *MetadataStore) string {
	en, c := ms.GetIncomingContactRequestsStatus()
	if c == nil {
		return fmt.Sprint(en, " nil")
	}
	return fmt.Sprintf("%v seed=%x", en, c.PublicRendezvousSeed[:4])
}

func vfList(ms *MetadataStore, rev bool) []string {
	ch, err := ms.ListEvents(context.Background(), nil, nil, rev)
	if err != nil {
		return []string{"ERR " + err.Error()}
	}
	out := []string{}
	for e := range ch {
		out = append(out, e.Metadata.EventType.String())
	}
	return out
}
