//go:build verif

package weshnet

// Second flavour of the GroupLog driver (C04): a contact group (account A: device a1;
// account B: devices b1, b2) or a multi-member group with the same devices.  Operations:
// device announcement, alias key (contact groups), chain-key announcement to a member,
// application metadata, ownership claim (multi-member).  The reported state is rendered in
// account-independent terms so that replicas of different accounts can be compared.

import (
	"bytes"
	"context"
	"encoding/json"
	"fmt"
	"sort"
	"testing"

	"github.com/ipfs/go-datastore"
	"github.com/libp2p/go-libp2p/core/crypto"

	ipfslog "berty.tech/go-ipfs-log"
	"berty.tech/go-ipfs-log/entry"
	"berty.tech/go-orbit-db/iface"
	"berty.tech/go-orbit-db/stores/operation"
	"berty.tech/weshnet/v2/pkg/protocoltypes"
)

// vfRawDeliver hands ONE entry to a store the way the base store handles a replicated batch
// (write the entry, join a log that holds just this entry, update the index, persist the heads) -
// without its causal past: the "newest first / partial batch" arrival of C04.
func vfRawDeliver(ctx context.Context, st iface.Store, e ipfslog.Entry) bool {
	if _, err := st.IO().Write(ctx, st.IPFS(), e, nil); err != nil {
		vfInfra("raw deliver write: %v", err)
	}
	var sortFn ipfslog.SortFn
	if sf, ok := st.(interface{ SortFn() ipfslog.SortFn }); ok {
		sortFn = sf.SortFn()
	}
	l, err := ipfslog.NewLog(st.IPFS(), st.Identity(), &ipfslog.LogOptions{
		ID:               st.OpLog().GetID(),
		AccessController: st.AccessController(),
		SortFn:           sortFn,
		IO:               st.IO(),
		Entries:          entry.NewOrderedMapFromEntries([]ipfslog.Entry{e}),
	})
	if err != nil {
		vfInfra("raw deliver log: %v", err)
	}
	if _, err := st.OpLog().Join(l, -1); err != nil {
		vfInfra("raw deliver join: %v", err)
	}
	if err := st.Index().UpdateIndex(st.OpLog(), nil); err != nil {
		// like the base store: the batch stays joined, heads are not persisted
		return false
	}
	heads, err := json.Marshal(st.OpLog().Heads().Slice())
	if err != nil {
		vfInfra("raw deliver heads: %v", err)
	}
	if err := st.Cache().Put(ctx, datastore.NewKey("_remoteHeads"), heads); err != nil {
		vfInfra("raw deliver cache: %v", err)
	}
	return true
}

func vfGroupLogRun2(t testing.TB, w *vfRWorld, sc vfScript, kind string) []map[string]any {
	ctx := context.Background()
	a1 := w.AddDevice("a1", "")
	b1 := w.AddDevice("b1", "")
	b2 := w.AddDevice("b2", "b1")
	reps := map[string]*vfReplica{"a1": a1, "b1": b1, "b2": b2}
	acct := map[string]string{"a1": "A", "b1": "B", "b2": "B"}
	pkOf := func(r *vfReplica) crypto.PubKey {
		_, omd, err := r.ss.GetGroupForAccount()
		if err != nil {
			vfInfra("account: %v", err)
		}
		return omd.Member()
	}
	var g *protocoltypes.Group
	var gsk crypto.PrivKey
	var err error
	if kind == "contact" {
		g, err = a1.ss.GetGroupForContact(pkOf(b1))
	} else {
		g, gsk, err = protocoltypes.NewGroupMultiMember()
	}
	if err != nil {
		vfInfra("group: %v", err)
	}
	for _, r := range reps {
		r.OpenGroup(g)
	}
	gid := g.GroupIDAsString()
	ms := func(d string) *MetadataStore { return reps[d].gcs[gid].MetadataStore() }
	defer func() {
		for _, r := range reps {
			for _, gc := range r.gcs {
				gc.Close()
			}
			r.db.Close()
		}
	}()
	// names of member / device / alias keys
	memberName := map[string]string{}
	deviceName := map[string]string{}
	aliasName := map[string]string{}
	memberPK := map[string]crypto.PubKey{}
	for d, r := range reps {
		omd, err := r.ss.GetOwnMemberDeviceForGroup(g)
		if err != nil {
			vfInfra("member device: %v", err)
		}
		memberName[string(vfRawPK(omd.Member()))] = acct[d]
		deviceName[string(vfRawPK(omd.Device()))] = d
		memberPK[acct[d]] = omd.Member()
		pp, err := r.ss.GetAccountProofPublicKey()
		if err == nil {
			aliasName[string(vfRawPK(pp))] = acct[d]
		}
	}
	names := map[string]int{}
	byName := map[int]ipfslog.Entry{}
	nameSet := func(d string) []int {
		out := []int{}
		for _, id := range vfEntryIDs(ms(d)) {
			if n, ok := names[id]; ok {
				out = append(out, n)
			} else {
				out = append(out, -1)
			}
		}
		sort.Ints(out)
		return out
	}
	nm := func(m map[string]string, raw []byte) string {
		if v, ok := m[string(raw)]; ok {
			return v
		}
		return "?"
	}
	report := func(d string) map[string]any {
		m := ms(d)
		mem := []string{}
		for _, pk := range m.ListMembers() {
			mem = append(mem, nm(memberName, vfRawPK(pk)))
		}
		sort.Strings(mem)
		dev := []string{}
		for _, pk := range m.ListDevices() {
			dev = append(dev, nm(deviceName, vfRawPK(pk)))
		}
		sort.Strings(dev)
		adm := map[string]bool{}
		for _, pk := range m.ListAdmins() {
			// ClaimGroupOwnership announces the claiming DEVICE's key as "member"; name whatever key it is
			raw := vfRawPK(pk)
			n := nm(memberName, raw)
			if n == "?" {
				n = nm(deviceName, raw)
			}
			if n == "?" {
				n = fmt.Sprintf("?%x", raw[:4])
			}
			adm[n] = true
		}
		admins := []string{}
		for k := range adm {
			admins = append(admins, k)
		}
		sort.Strings(admins)
		// alias keys in account-independent terms
		alias := map[string]any{"A": false, "B": false}
		if idx, ok := m.Index().(*metadataStoreIndex); ok {
			idx.lock.RLock()
			if idx.ownAliasKeySent {
				alias[acct[d]] = true
			}
			if idx.otherAliasKey != nil {
				other := "A"
				if acct[d] == "A" {
					other = "B"
				}
				if nm(aliasName, idx.otherAliasKey) == other || bytes.Equal(idx.otherAliasKey, vfRawPK(memberPK[other])) {
					alias[other] = true
				} else {
					alias[other] = "wrong:" + nm(aliasName, idx.otherAliasKey)
				}
			}
			idx.lock.RUnlock()
		}
		view, _ := json.Marshal([]any{mem, dev, admins, alias})
		return map[string]any{"set": nameSet(d), "members": mem, "devices": dev, "admins": admins, "alias": alias, "view": string(view)}
	}
	out := []map[string]any{{"ev": "reset", "id": sc.ID}}
	for i, st := range sc.Steps {
		ev := map[string]any{"ev": st.Act, "d": st.D, "i": i}
		switch st.Act {
		case "op":
			m := ms(st.D)
			before := len(vfEntryIDs(m))
			var op operation.Operation
			var err error
			ev["s"], ev["x"] = st.S, st.X
			switch st.S {
			case "adddev":
				op, err = m.AddDeviceToGroup(ctx)
			case "alias":
				op, err = m.ContactSendAliasKey(ctx)
			case "secretA":
				op, err = m.SendSecret(ctx, memberPK["A"])
			case "secretB":
				op, err = m.SendSecret(ctx, memberPK["B"])
			case "meta":
				op, err = m.SendAppMetadata(ctx, []byte(fmt.Sprintf("meta %d", i)))
			case "claim":
				if gsk != nil {
					op, err = m.ClaimGroupOwnership(ctx, gsk)
				} else {
					err = fmt.Errorf("not a multi-member group")
				}
			default:
				vfInfra("unknown op %q", st.S)
			}
			after := len(vfEntryIDs(m))
			ev["ok"] = err == nil && op != nil
			ev["grew"] = after - before
			ev["before"] = nameSet(st.D)
			if err == nil && op != nil {
				e := op.GetEntry()
				n := len(names) + 1
				names[e.GetHash().String()] = n
				byName[n] = e
				ev["e"] = n
				bf := []int{}
				for _, x := range nameSet(st.D) {
					if x != n {
						bf = append(bf, x)
					}
				}
				ev["before"] = bf
				ev["evk"] = st.S
			}
		case "deliver", "rdeliver":
			e, ok := byName[st.X]
			if !ok {
				ev["skip"] = true
				break
			}
			ev["x"] = st.X
			if st.Act == "rdeliver" {
				ev["indexed"] = vfRawDeliver(ctx, ms(st.D), e)
				break
			}
			var src *MetadataStore
			for d := range reps {
				if _, has := ms(d).OpLog().Get(e.GetHash()); has {
					src = ms(d)
				}
			}
			vfSyncTo(ctx, ms(st.D), []ipfslog.Entry{e}, vfPast(src, e.GetHash()))
		case "reopen":
			reps[st.D].Reopen(g)
		default:
			vfInfra("unknown action %q", st.Act)
		}
		sts := map[string]any{}
		for d := range reps {
			sts[d] = report(d)
		}
		ev["st"] = sts
		out = append(out, ev)
	}
	return out
}
